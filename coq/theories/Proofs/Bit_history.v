(* Proofs/Bit_history.v -- all interleavings: the stack coder refines the abstract
   LIFO list, the queue encoder the abstract FIFO list; observational equivalence
   (= equal normal forms) is preserved by every operation, so a guard is invisible. *)
From CV Require Import Base.Bits Model.BitCoder Proofs.Bit_core Proofs.Bit_stack Proofs.Bit_queue.
Set Default Timeout 30.
Open Scope N_scope.

Section Hist.
Variables UB WB : N.
Hypothesis HWB : 0 < WB.

(* ---------- one step ---------- *)
Lemma st_step_inv c o : bc_inv WB c -> bc_inv WB (fst (st_step UB WB c o)).
Proof.
  intros Hinv. destruct o as [b| | | |]; cbn [st_step].
  - apply (bc_write_bit_spec WB HWB b c Hinv).
  - pose proof (st_read_bit_spec WB HWB c Hinv) as Hr.
    destruct (abs_stack WB c) as [|b r].
    + rewrite Hr. exact Hinv.
    + destruct Hr as (c' & Hr & Hi & _). rewrite Hr. exact Hi.
  - exact Hinv.
  - rewrite (st_export_import_raw WB HWB c Hinv). apply (bc_norm_spec WB HWB c Hinv).
  - cbn [fst]. rewrite (st_guard_roundtrip WB HWB c Hinv). apply (bc_norm_spec WB HWB c Hinv).
Qed.

(* a step on the normal form gives the same output and an equivalent coder *)
Lemma st_step_norm c o :
  bc_inv WB c ->
  snd (st_step UB WB (bc_norm WB c) o) = snd (st_step UB WB c o)
  /\ bc_equiv WB (fst (st_step UB WB (bc_norm WB c) o)) (fst (st_step UB WB c o)).
Proof.
  intros Hinv. unfold bc_equiv. destruct o as [b| | | |]; cbn [st_step].
  - rewrite (write_norm WB HWB b c Hinv). split; reflexivity.
  - destruct (read_norm WB HWB c Hinv) as [Hf Hs].
    destruct (st_read_bit WB (bc_norm WB c)) as [r1 c1].
    destruct (st_read_bit WB c) as [r2 c2]. cbn [fst snd] in *. subst. split; [reflexivity|assumption].
  - cbn [fst snd]. rewrite (len_norm WB HWB UB c Hinv). split; [reflexivity|].
    apply (bc_norm_idem WB HWB c Hinv).
  - unfold st_into_compressed. rewrite (seal_norm WB HWB c Hinv).
    destruct (st_from_compressed WB (rev (bk (st_seal WB c)))); cbn [fst snd].
    + split; reflexivity.
    + split; [reflexivity|]. apply (bc_norm_idem WB HWB c Hinv).
  - unfold st_guard_new. rewrite (seal_norm WB HWB c Hinv). split; reflexivity.
Qed.

Lemma st_step_equiv c1 c2 o :
  bc_inv WB c1 -> bc_inv WB c2 -> bc_equiv WB c1 c2 ->
  snd (st_step UB WB c1 o) = snd (st_step UB WB c2 o)
  /\ bc_equiv WB (fst (st_step UB WB c1 o)) (fst (st_step UB WB c2 o)).
Proof.
  intros H1 H2 He. unfold bc_equiv in *.
  destruct (st_step_norm c1 o H1) as [Ho1 Hs1].
  destruct (st_step_norm c2 o H2) as [Ho2 Hs2].
  unfold bc_equiv in *. rewrite He in Ho1, Hs1.
  split; congruence.
Qed.

(* ---------- histories ---------- *)
Lemma st_run_cons c o h :
  st_run UB WB c (o :: h)
  = (fst (st_run UB WB (fst (st_step UB WB c o)) h),
     snd (st_step UB WB c o) :: snd (st_run UB WB (fst (st_step UB WB c o)) h)).
Proof.
  cbn [st_run]. destruct (st_step UB WB c o) as [c' x]. cbn [fst snd].
  destruct (st_run UB WB c' h) as [c'' xs]. reflexivity.
Qed.

Lemma st_run_inv h c : bc_inv WB c -> bc_inv WB (fst (st_run UB WB c h)).
Proof.
  revert c. induction h as [|o h IH]; intros c Hinv; [exact Hinv|].
  rewrite st_run_cons. cbn [fst]. apply IH. apply st_step_inv. assumption.
Qed.

Lemma st_run_app h1 h2 c :
  st_run UB WB c (h1 ++ h2)
  = (fst (st_run UB WB (fst (st_run UB WB c h1)) h2),
     snd (st_run UB WB c h1) ++ snd (st_run UB WB (fst (st_run UB WB c h1)) h2)).
Proof.
  revert c. induction h1 as [|o h1 IH]; intros c.
  - cbn [app st_run fst snd]. destruct (st_run UB WB c h2). reflexivity.
  - cbn [app]. rewrite !st_run_cons. cbn [fst snd]. rewrite IH. reflexivity.
Qed.

(* observationally equivalent coders stay so under every history, with equal outputs *)
Lemma st_run_equiv h c1 c2 :
  bc_inv WB c1 -> bc_inv WB c2 -> bc_equiv WB c1 c2 ->
  snd (st_run UB WB c1 h) = snd (st_run UB WB c2 h)
  /\ bc_equiv WB (fst (st_run UB WB c1 h)) (fst (st_run UB WB c2 h)).
Proof.
  revert c1 c2. induction h as [|o h IH]; intros c1 c2 H1 H2 He.
  - split; [reflexivity|exact He].
  - rewrite !st_run_cons. cbn [fst snd].
    destruct (st_step_equiv c1 c2 o H1 H2 He) as [Ho Hs].
    destruct (IH _ _ (st_step_inv c1 o H1) (st_step_inv c2 o H2) Hs) as [Ho' Hs'].
    split; [congruence|assumption].
Qed.

(* an inspection anywhere in a history changes nothing but its own output *)
Lemma st_run_twin h1 h2 c :
  bc_inv WB c ->
  let c1 := fst (st_run UB WB c h1) in
  snd (st_run UB WB c (h1 ++ SInspect :: h2))
  = snd (st_run UB WB c h1) ++ SoWords (st_into_compressed WB c1) :: snd (st_run UB WB c1 h2)
  /\ snd (st_run UB WB c (h1 ++ h2)) = snd (st_run UB WB c h1) ++ snd (st_run UB WB c1 h2)
  /\ bc_equiv WB (fst (st_run UB WB c (h1 ++ SInspect :: h2))) (fst (st_run UB WB c (h1 ++ h2))).
Proof.
  intros Hinv c1. rewrite !st_run_app. fold c1. cbn [fst snd].
  assert (Hi1 : bc_inv WB c1) by (apply st_run_inv; assumption).
  rewrite st_run_cons. cbn [st_step fst snd].
  rewrite (st_guard_roundtrip WB HWB c1 Hi1).
  destruct (bc_norm_spec WB HWB c1 Hi1) as [Hin _].
  assert (He : bc_equiv WB (bc_norm WB c1) c1) by (apply (bc_norm_idem WB HWB c1 Hi1)).
  destruct (st_run_equiv h2 _ _ Hin Hi1 He) as [Ho Hs].
  split; [|split].
  - rewrite Ho. reflexivity.
  - reflexivity.
  - exact Hs.
Qed.

(* refinement of the abstract LIFO container *)
Lemma st_run_refines h c :
  bc_inv WB c ->
  st_spec UB WB (abs_stack WB c) h (abs_stack WB (fst (st_run UB WB c h))) (snd (st_run UB WB c h)).
Proof.
  revert c. induction h as [|o h IH]; intros c Hinv.
  - constructor.
  - rewrite st_run_cons. cbn [fst snd].
    pose proof (IH _ (st_step_inv c o Hinv)) as Hrec. clear IH.
    destruct o as [b| | | |]; cbn [st_step fst snd] in *.
    + constructor.
      destruct (bc_write_bit_spec WB HWB b c Hinv) as [_ Ha]. rewrite <- Ha. exact Hrec.
    + pose proof (st_read_bit_spec WB HWB c Hinv) as Hr.
      destruct (abs_stack WB c) as [|b r] eqn:Ha0.
      * rewrite Hr in *. cbn [fst snd] in *. constructor. rewrite Ha0 in Hrec. exact Hrec.
      * destruct Hr as (c' & Hr & _ & Ha). rewrite Hr in *. cbn [fst snd] in *.
        constructor. rewrite <- Ha. exact Hrec.
    + rewrite (bc_len_spec WB HWB UB c Hinv). constructor. exact Hrec.
    + rewrite (st_export_import_raw WB HWB c Hinv) in *. cbn [fst snd] in *.
      constructor.
      destruct (bc_norm_spec WB HWB c Hinv) as [_ Ha]. rewrite <- Ha. exact Hrec.
    + rewrite (st_guard_roundtrip WB HWB c Hinv) in *.
      destruct (bc_norm_spec WB HWB c Hinv) as [_ Ha].
      apply (SS_inspect UB WB _ _ (bc_norm WB c)).
      * rewrite st_guard_view_eq. apply (st_export_import_raw WB HWB c Hinv).
      * exact Ha.
      * rewrite <- Ha. exact Hrec.
Qed.

(* ---------- queue encoder ---------- *)
Lemma qe_step_inv c o : bc_inv WB c -> bc_inv WB (fst (qe_step UB WB c o)).
Proof.
  intros Hinv. destruct o as [b| |]; cbn [qe_step fst].
  - apply (bc_write_bit_spec WB HWB b c Hinv).
  - exact Hinv.
  - rewrite qe_guard_roundtrip. exact Hinv.
Qed.

Lemma qe_run_cons c o h :
  qe_run UB WB c (o :: h)
  = (fst (qe_run UB WB (fst (qe_step UB WB c o)) h),
     snd (qe_step UB WB c o) :: snd (qe_run UB WB (fst (qe_step UB WB c o)) h)).
Proof.
  cbn [qe_run]. destruct (qe_step UB WB c o) as [c' x]. cbn [fst snd].
  destruct (qe_run UB WB c' h) as [c'' xs]. reflexivity.
Qed.

Lemma qe_run_inv h c : bc_inv WB c -> bc_inv WB (fst (qe_run UB WB c h)).
Proof.
  revert c. induction h as [|o h IH]; intros c Hinv; [exact Hinv|].
  rewrite qe_run_cons. cbn [fst]. apply IH. apply qe_step_inv. assumption.
Qed.

Lemma qe_run_refines h c :
  bc_inv WB c ->
  qe_spec UB WB (abs_queue WB c) h (abs_queue WB (fst (qe_run UB WB c h))) (snd (qe_run UB WB c h)).
Proof.
  revert c. induction h as [|o h IH]; intros c Hinv.
  - constructor.
  - rewrite qe_run_cons. cbn [fst snd].
    pose proof (IH _ (qe_step_inv c o Hinv)) as Hrec. clear IH.
    destruct o as [b| |]; cbn [qe_step fst snd] in *.
    + constructor.
      destruct (qe_write_bit_spec WB HWB b c Hinv) as [_ Ha]. rewrite <- Ha. exact Hrec.
    + rewrite (bc_len_spec WB HWB UB c Hinv).
      replace (len_spec UB (abs_stack WB c)) with (len_spec UB (abs_queue WB c))
        by (unfold len_spec, abs_queue; rewrite rev_length; reflexivity).
      constructor. exact Hrec.
    + rewrite qe_guard_roundtrip in *. constructor; [|exact Hrec].
      rewrite qe_guard_view_eq. apply (qe_into_decoder_abs WB HWB c Hinv).
Qed.

(* the queue guard restores the encoder field by field *)
Lemma qe_run_twin h1 h2 c :
  let c1 := fst (qe_run UB WB c h1) in
  qe_run UB WB c1 (QInspect :: h2)
  = (fst (qe_run UB WB c1 h2), SoWords (qe_into_compressed c1) :: snd (qe_run UB WB c1 h2)).
Proof.
  intros c1. rewrite qe_run_cons. cbn [qe_step fst snd]. rewrite qe_guard_roundtrip. reflexivity.
Qed.

End Hist.
