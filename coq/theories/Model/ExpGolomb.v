(* Model/ExpGolomb.v -- machine-level model of ExpGolomb<N> (src/symbol/exp_golomb.rs)
   for an unsigned integer type of BITS bits.  Definitions only.

   N::zero().count_zeros() = N::max_value().count_ones() = BITS  (u32)
   symbol.wrapping_add(1) ==> trunc BITS (n + 1);   x.wrapping_sub(1) ==> trunc BITS (x + 2^BITS - 1)
   n_plus1 << 1           ==> shl BITS n_plus1 1    (the top bit is lost, no panic)
   len += 1  on u32       ==> checked: EgOverflow once len + 1 does not fit in 32 bits
   The encoder emits bits through a callback; with an infallible sink this is the list
   of emitted bits in emission order. *)
From CV Require Export Base.Bits Model.BitCoder.
Open Scope N_scope.

Definition eg_bit (x m : N) : bool := negb (N.land x m =? 0).

(* exp_golomb.rs:84-88: while mask != 0 { emit(n_plus1 & mask != 0); mask >>= 1 } *)
Fixpoint eg_mask_loop (fuel : nat) (n1 m : N) : list bool :=
  match fuel with
  | O => []
  | S f => if m =? 0 then [] else eg_bit n1 m :: eg_mask_loop f n1 (shr m 1)
  end.

(* exp_golomb.rs:113-119: loop { emit(remaining & 1 != 0); remaining >>= 1; if remaining == 0 {break} } *)
Fixpoint eg_lsb_loop (fuel : nat) (remaining : N) : list bool :=
  match fuel with
  | O => []
  | S f => eg_bit remaining 1 ::
           (let r := shr remaining 1 in if r =? 0 then [] else eg_lsb_loop f r)
  end.

Definition eg_zeros (k : N) : list bool := repeat false (N.to_nat k).

(* encode_symbol_prefix, exp_golomb.rs:63-92 *)
Definition eg_prefix_bits (BITS n : N) : list bool :=
  let n_plus1 := trunc BITS (n + 1) in
  if n_plus1 =? 0 then eg_zeros BITS ++ [true] ++ eg_zeros BITS
  else
    let len := BITS - clz BITS n_plus1 - 1 in
    eg_zeros len ++ eg_mask_loop (S (N.to_nat BITS)) n_plus1 (shl BITS 1 len).

(* encode_symbol_suffix, exp_golomb.rs:94-126 *)
Definition eg_suffix_bits (BITS n : N) : list bool :=
  let n_plus1 := trunc BITS (n + 1) in
  if n_plus1 =? 0 then eg_zeros BITS ++ [true] ++ eg_zeros BITS
  else
    let len := BITS - clz BITS n_plus1 - 1 in
    eg_lsb_loop (S (N.to_nat BITS)) n_plus1 ++ eg_zeros len.

Inductive egres := EgOk (n : N) | EgInvalid | EgOverflow | EgFuel.

Section Decode.
  Context {St : Type} (read : St -> option bool * St).

  (* exp_golomb.rs:140-151; result: inl len | inr error *)
  Fixpoint eg_count (fuel : nat) (len : N) (s : St) : (N + egres) * St :=
    match fuel with
    | O => (inr EgFuel, s)
    | S f =>
        match read s with
        | (Some false, s') =>
            if len + 1 <? 2 ^ 32 then eg_count f (len + 1) s' else (inr EgOverflow, s')
        | (Some true, s') => (inl len, s')
        | (None, s') => (inr EgInvalid, s')
        end
    end.

  (* exp_golomb.rs:157-164; None = the source ran dry *)
  Fixpoint eg_collect (BITS : N) (k : nat) (n_plus1 : N) (s : St) : option N * St :=
    match k with
    | O => (Some n_plus1, s)
    | S k' =>
        match read s with
        | (Some bit, s') =>
            eg_collect BITS k' (N.lor (shl BITS n_plus1 1) (if bit then 1 else 0)) s'
        | (None, s') => (None, s')
        end
    end.

  (* decode_symbol, exp_golomb.rs:135-171.  [fuel] only bounds the first loop; the
     result is EgFuel iff the fuel was smaller than the number of leading zeros + 1 *)
  Definition eg_decode (BITS : N) (fuel : nat) (s : St) : egres * St :=
    match eg_count fuel 0 s with
    | (inr e, s1) => (e, s1)
    | (inl len, s1) =>
        if BITS <? len then (EgInvalid, s1)
        else
          match eg_collect BITS (N.to_nat len) 1 s1 with
          | (None, s2) => (EgInvalid, s2)
          | (Some n_plus1, s2) =>
              if (len =? BITS) && negb (n_plus1 =? 0) then (EgInvalid, s2)
              else (EgOk (trunc BITS (n_plus1 + 2 ^ BITS - 1)), s2)
          end
    end.
End Decode.

(* the coders as codeword sinks and sources *)
Definition st_encode_eg (WB BITS n : N) (c : bitc) : bitc :=
  bc_write_bits WB (eg_suffix_bits BITS n) c.           (* StackCoder::encode_symbol *)
Definition qe_encode_eg (WB BITS n : N) (c : bitc) : bitc :=
  bc_write_bits WB (eg_prefix_bits BITS n) c.           (* QueueEncoder::encode_symbol *)
Definition st_decode_eg (WB BITS : N) (fuel : nat) (c : bitc) : egres * bitc :=
  eg_decode (st_read_bit WB) BITS fuel c.
Definition qd_decode_eg (WB BITS : N) (fuel : nat) (d : qdec) : egres * qdec :=
  eg_decode (qd_read_bit WB) BITS fuel d.

(* list of bits as a source (the specification-level reader) *)
Definition ls_read (l : list bool) : option bool * list bool :=
  match l with
  | [] => (None, [])
  | b :: r => (Some b, r)
  end.

(* the Exp-Golomb code of the (unbounded) number n: k zeros, then the k+1 binary
   digits of n + 1, where k = floor(log2 (n + 1)) *)
Definition eg_spec (n : N) : list bool :=
  eg_zeros (N.log2 (n + 1)) ++ bits_desc (S (N.to_nat (N.log2 (n + 1)))) (n + 1).
