(* Proofs/Backend_contract.v -- the trait contracts, for every provided backend (by induction over
   the nesting of Reverse) and hence at every reachable state. *)
From CV Require Import Model.Backend Proofs.Backend_tape Proofs.Backend_cursor Proofs.Backend_vec
  Proofs.Backend_history Proofs.Backend_refine.
Open Scope nat_scope.
Set Default Timeout 30.
Local Arguments Nat.ltb : simpl never.
Local Arguments Nat.leb : simpl never.
Local Arguments Nat.sub : simpl never.
Local Arguments Nat.eqb : simpl never.

(* ------------------------------------------------------------------ lifting n-fold operations *)

Lemma bk_reads_lift {X} (L : X -> backend) (rd : X -> rres * X) s :
  (forall x, bk_read s (L x) = Some (map_snd L (rd x))) ->
  forall n x, bk_reads s n (L x) = Some (map_snd L (iter_rd rd n x)).
Proof.
  intros H. induction n as [|n IH]; intros x; cbn [bk_reads iter_rd].
  - reflexivity.
  - rewrite H. destruct (rd x) as [r x1]. cbn [map_snd fst snd]. rewrite IH.
    destruct (iter_rd rd n x1) as [rs x2]. reflexivity.
Qed.

Lemma bk_writes_lift {X} (L : X -> backend) (wr : N -> X -> wres * X) :
  (forall w x, bk_write w (L x) = Some (map_snd L (wr w x))) ->
  forall ws x, bk_writes ws (L x) = Some (map_snd L (iter_wr wr ws x)).
Proof.
  intros H. induction ws as [|w ws IH]; intros x; cbn [bk_writes iter_wr].
  - reflexivity.
  - rewrite H. destruct (wr w x) as [r x1]. cbn [map_snd fst snd]. rewrite IH.
    destruct (iter_wr wr ws x1) as [rs x2]. reflexivity.
Qed.

Lemma bk_reads_rev s : forall n b,
  bk_reads s n (BRev b) = omap (map_snd BRev) (bk_reads (flip_sem s) n b).
Proof.
  induction n as [|n IH]; intros b; cbn [bk_reads bk_read].
  - reflexivity.
  - destruct (bk_read (flip_sem s) b) as [[r b1]|]; cbn [omap map_snd fst snd]; [|reflexivity].
    rewrite IH. destruct (bk_reads (flip_sem s) n b1) as [[rs b2]|]; reflexivity.
Qed.

Lemma bk_reads_tape k fl s n t :
  bk_reads s n (bk_of_tape k fl t) = Some (map_snd (bk_of_tape k fl) (tape_reads s n t)).
Proof. apply (bk_reads_lift (bk_of_tape k fl) (tape_read s)). intros x. apply bk_read_tape. Qed.

Lemma bk_writes_tape k fl ws t : buf_mutable k = true ->
  bk_writes ws (bk_of_tape k fl t) = Some (map_snd (bk_of_tape k fl) (tape_writes ws t)).
Proof.
  intros Hk. apply (bk_writes_lift (bk_of_tape k fl) tape_write). intros w x.
  rewrite bk_write_tape, Hk. reflexivity.
Qed.

Lemma bk_reads_vec n v : bk_reads Stack n (BVec v) = Some (map_snd BVec (vec_reads n v)).
Proof. apply (bk_reads_lift BVec vec_read). reflexivity. Qed.
Lemma bk_reads_smallvec n v : bk_reads Stack n (BSmallVec v) = Some (map_snd BSmallVec (vec_reads n v)).
Proof. apply (bk_reads_lift BSmallVec vec_read). reflexivity. Qed.
Lemma bk_writes_vec ws v : bk_writes ws (BVec v) = Some (map_snd BVec (vec_writes ws v)).
Proof. apply (bk_writes_lift BVec vec_write). reflexivity. Qed.
Lemma bk_writes_smallvec ws v : bk_writes ws (BSmallVec v) = Some (map_snd BSmallVec (vec_writes ws v)).
Proof. apply (bk_writes_lift BSmallVec vec_write). reflexivity. Qed.

(* every wf backend of the cursor family is the representation of a tape *)
Lemma cursor_family_repr b : bk_wf b ->
  match b with
  | BCursor k c => b = bk_of_tape k false (tape_of_cursor c)
  | BRev (BCursor k c) => b = bk_of_tape k true (tape_of_rcursor c)
  | _ => True
  end.
Proof.
  destruct b as [v|v|k c|b|f|f|cb|cb]; try exact (fun _ => I).
  - apply cursor_is_tape.
  - destruct b as [v|v|k c|b|f|f|cb|cb]; try exact (fun _ => I). apply rcursor_is_tape.
Qed.

(* ------------------------------------------------------------------ end-of-data is sticky *)

Lemma bk_eod_sticky : forall b s b', bk_wf b ->
  bk_read s b = Some (RNone, b') -> bk_read s b' = Some (RNone, b').
Proof.
  induction b as [v|v|k c|b IH|f|f|cb|cb]; intros s b' Hwf H.
  - cbn [bk_read] in H. destruct s; [|discriminate]. inversion H as [[H1 H2]].
    destruct v; cbn in *; [|discriminate]. reflexivity.
  - cbn [bk_read] in H. destruct s; [|discriminate]. inversion H as [[H1 H2]].
    destruct v; cbn in *; [|discriminate]. reflexivity.
  - cbn in Hwf. rewrite (cursor_is_tape k c Hwf), bk_read_tape in H.
    destruct (tape_read s (tape_of_cursor c)) as [r t'] eqn:E. cbn [map_snd fst snd] in H.
    assert (b' = bk_of_tape k false t' /\ r = RNone) as [-> ->] by (inversion H; auto).
    pose proof (tape_read_none _ _ _ E); subst t'.
    rewrite bk_read_tape, E. reflexivity.
  - cbn [bk_read] in H. destruct (bk_read (flip_sem s) b) as [[r b1]|] eqn:E; [|discriminate].
    inversion H; subst. cbn [bk_read]. rewrite (IH _ _ Hwf E). reflexivity.
  - cbn [bk_read] in H. unfold fallible_iter_read in H. destruct (fuse_next f) as [o f1] eqn:E.
    cbn [map_snd fst snd] in H. destruct o as [[w|e]|]; try discriminate.
    assert (b' = BFallIter f1) as -> by (inversion H; auto).
    destruct (fuse_next_none _ _ E) as [E2 _]. cbn [bk_read]. unfold fallible_iter_read. rewrite E2.
    reflexivity.
  - cbn [bk_read] in H. unfold infallible_iter_read in H. destruct (fuse_next f) as [o f1] eqn:E.
    cbn [map_snd fst snd] in H. destruct o as [[w|e]|]; try discriminate.
    assert (b' = BInfIter f1) as -> by (inversion H; auto).
    destruct (fuse_next_none _ _ E) as [E2 _]. cbn [bk_read]. unfold infallible_iter_read. rewrite E2.
    reflexivity.
  - discriminate.
  - discriminate.
Qed.

(* ------------------------------------------------------------------ remaining is exact *)

Lemma Forall_delivers_some ws : Forall rres_delivers (map RSome ws).
Proof. induction ws; constructor; cbn; auto. Qed.

Lemma bk_remaining_exact : forall b s n, bk_wf b -> bk_remaining s b = Some (QVal n) ->
  exists rs b', bk_reads s (S n) b = Some (rs ++ [RNone], b') /\ length rs = n /\
    Forall rres_delivers rs /\ bk_wf b'.
Proof.
  induction b as [v|v|k c|b IH|f|f|cb|cb]; intros s n Hwf H.
  - cbn in H. destruct s; [|discriminate]. inversion H; subst. clear H.
    rewrite bk_reads_vec, vec_remaining_exact. do 2 eexists. split; [reflexivity|].
    rewrite map_length, rev_length. repeat split. apply Forall_delivers_some.
  - cbn in H. destruct s; [|discriminate]. inversion H; subst. clear H.
    rewrite bk_reads_smallvec, vec_remaining_exact. do 2 eexists. split; [reflexivity|].
    rewrite map_length, rev_length. repeat split. apply Forall_delivers_some.
  - cbn in Hwf. rewrite (cursor_is_tape k c Hwf) in H |- *. rewrite bk_remaining_tape in H.
    inversion H; subst. clear H. rewrite bk_reads_tape.
    destruct (tape_remaining_exact s (tape_of_cursor c)) as (ws & t' & H1 & H2 & H3).
    unfold tape_reads in H2 |- *. rewrite H2. do 2 eexists. split; [reflexivity|].
    rewrite map_length. repeat split; [assumption|apply Forall_delivers_some|apply cursor_of_tape_inv].
  - cbn in H, Hwf. destruct (IH _ _ Hwf H) as (rs & b' & H1 & H2 & H3 & H4).
    rewrite bk_reads_rev, H1. cbn [omap map_snd fst snd]. exists rs, (BRev b'). auto.
  - cbn in H. inversion H; subst. clear H.
    rewrite (bk_reads_lift BFallIter fallible_iter_read) by reflexivity.
    destruct (iter_reads_exact fallible_iter_read rres_of_item_fallible fallible_iter_read_spec f)
      as (f' & H1 & _). rewrite H1. do 2 eexists. split; [reflexivity|].
    rewrite map_length. unfold iter_remaining. rewrite fuse_len_rest. repeat split.
    clear. induction (fuse_rest f) as [|[w|e] r IH]; constructor; cbn; auto.
  - cbn in H. inversion H; subst. clear H.
    rewrite (bk_reads_lift BInfIter infallible_iter_read) by reflexivity.
    destruct (iter_reads_exact infallible_iter_read rres_of_item_infallible infallible_iter_read_spec f)
      as (f' & H1 & _). rewrite H1. do 2 eexists. split; [reflexivity|].
    rewrite map_length. unfold iter_remaining. rewrite fuse_len_rest. repeat split.
    clear. induction (fuse_rest f) as [|[w|e] r IH]; constructor; cbn; auto.
  - discriminate.
  - discriminate.
Qed.

(* the reads return exactly the abstract stack / queue, in order *)
Lemma tape_stack_reads k fl t :
  exists b', bk_reads Stack (S (length (above t))) (bk_of_tape k fl t) = Some (map RSome (above t) ++ [RNone], b').
Proof.
  rewrite bk_reads_tape. destruct t as [a q0]. cbn [above].
  replace (S (length a)) with (length (rev a) + 1) by (rewrite rev_length; lia).
  rewrite tape_reads_app.
  pose proof (tape_reads_stack (rev a) [] q0) as E. rewrite rev_involutive, app_nil_r in E.
  rewrite E. eexists; reflexivity.
Qed.

Lemma tape_queue_reads k fl t :
  exists b', bk_reads Queue (S (length (below t))) (bk_of_tape k fl t) = Some (map RSome (below t) ++ [RNone], b').
Proof.
  rewrite bk_reads_tape. destruct t as [a q0]. cbn [below].
  replace (S (length q0)) with (length q0 + 1) by lia. rewrite tape_reads_app.
  pose proof (tape_reads_queue q0 a []) as E. rewrite app_nil_r in E. rewrite E. eexists; reflexivity.
Qed.

Lemma bk_stack_reads b st : bk_wf b -> bk_stack b = Some st ->
  exists b', bk_reads Stack (S (length st)) b = Some (map RSome st ++ [RNone], b').
Proof.
  intros Hwf H. destruct b as [v|v|k c|b|f|f|cb|cb]; try (cbn in H; discriminate).
  - assert (st = rev v) as -> by (cbn in H; unfold stack_of_vec in H; congruence). rewrite rev_length.
    rewrite bk_reads_vec. change (length v) with (vec_remaining v). rewrite vec_remaining_exact. eexists; reflexivity.
  - assert (st = rev v) as -> by (cbn in H; unfold stack_of_vec in H; congruence). rewrite rev_length.
    rewrite bk_reads_smallvec. change (length v) with (vec_remaining v). rewrite vec_remaining_exact. eexists; reflexivity.
  - assert (st = above (tape_of_cursor c)) as -> by (cbv in H |- *; congruence).
    cbn in Hwf. rewrite (cursor_is_tape k c Hwf). apply tape_stack_reads.
  - destruct b as [v|v|k c|b|f|f|cb|cb]; try (cbn in H; discriminate).
    assert (st = above (tape_of_rcursor c)) as -> by (cbv in H |- *; congruence).
    cbn in Hwf. rewrite (rcursor_is_tape k c Hwf). apply tape_stack_reads.
Qed.

Lemma bk_queue_reads b q : bk_wf b -> bk_queue b = Some q ->
  exists b', bk_reads Queue (S (length q)) b = Some (map RSome q ++ [RNone], b').
Proof.
  intros Hwf H. destruct b as [v|v|k c|b|f|f|cb|cb]; try (cbn in H; discriminate).
  - assert (q = below (tape_of_cursor c)) as -> by (cbv in H |- *; congruence).
    cbn in Hwf. rewrite (cursor_is_tape k c Hwf). apply tape_queue_reads.
  - destruct b as [v|v|k c|b|f|f|cb|cb]; try (cbn in H; discriminate).
    + assert (q = rev v) as -> by (cbn in H; unfold stack_of_vec in H; congruence).
      rewrite bk_reads_rev. cbn [flip_sem]. rewrite rev_length.
      rewrite bk_reads_vec. change (length v) with (vec_remaining v). rewrite vec_remaining_exact. eexists; reflexivity.
    + assert (q = rev v) as -> by (cbn in H; unfold stack_of_vec in H; congruence).
      rewrite bk_reads_rev. cbn [flip_sem]. rewrite rev_length.
      rewrite bk_reads_smallvec. change (length v) with (vec_remaining v). rewrite vec_remaining_exact. eexists; reflexivity.
    + assert (q = below (tape_of_rcursor c)) as -> by (cbv in H |- *; congruence).
      cbn in Hwf. rewrite (rcursor_is_tape k c Hwf). apply tape_queue_reads.
Qed.

(* ------------------------------------------------------------------ space_left is exact *)

Lemma bk_space_left_exact b n ws : bk_wf b -> bk_space_left b = Some (QVal n) -> length ws = S n ->
  exists b', bk_writes ws b = Some (repeat WOk n ++ [WOutOfSpace], b') /\ bk_wf b' /\
    bk_space_left b' = Some (QVal 0).
Proof.
  intros Hwf H Hl.
  assert (exists k fl t, b = bk_of_tape k fl t /\ buf_mutable k = true) as (k & fl & t & -> & Hk).
  { destruct b as [v|v|k c|b|f|f|cb|cb]; try (cbn in H; discriminate).
    - cbn in Hwf. exists k, false, (tape_of_cursor c). split; [now apply cursor_is_tape|].
      cbn in H. now destruct (buf_mutable k).
    - destruct b as [v|v|k c|b|f|f|cb|cb]; try (cbn in H; discriminate).
      cbn in Hwf. exists k, true, (tape_of_rcursor c). split; [now apply rcursor_is_tape|].
      cbn in H. now destruct (buf_mutable k). }
  rewrite bk_space_left_tape, Hk in H. inversion H; subst. clear H.
  destruct ws as [|w ws] using rev_ind; [discriminate|]. clear IHws.
  rewrite app_length in Hl. cbn in Hl. assert (Hl' : length ws = tape_space_left t) by lia.
  rewrite bk_writes_tape by assumption.
  destruct (tape_space_left_exact ws w t Hl') as (t' & H1 & H2).
  rewrite H1, Hl'. eexists. split; [reflexivity|]. split.
  - destruct fl; cbn; [apply rcursor_of_tape_inv|apply cursor_of_tape_inv].
  - cbn [snd]. rewrite bk_space_left_tape, Hk, H2. reflexivity.
Qed.

(* ------------------------------------------------------------------ positions *)

Lemma bk_seek_pos : forall b p, bk_wf b -> bk_pos b = Some p -> bk_seek p b = Some (SOk, b).
Proof.
  induction b as [v|v|k c|b IH|f|f|cb|cb]; intros p Hwf H; cbn in H; try discriminate.
  - inversion H; subst. cbn. now rewrite vec_seek_pos.
  - inversion H; subst. cbn. now rewrite vec_seek_pos.
  - inversion H; subst. cbn. now rewrite cursor_seek_pos.
  - cbn in Hwf |- *. now rewrite (IH _ Hwf H).
Qed.

(* out-of-range positions are refused and nothing changes; in-range positions are accepted and
   become the reported position *)
Lemma bk_seek_range : forall b p n, bk_len b = Some n ->
  (n < p -> bk_seek p b = Some (SErr, b)) /\
  (p <= n -> exists b', bk_seek p b = Some (SOk, b') /\ bk_pos b' = Some p).
Proof.
  induction b as [v|v|k c|b IH|f|f|cb|cb]; intros p n H; cbn in H; try discriminate.
  - inversion H; subst. split; intros Hp; cbn.
    + now rewrite vec_seek_refuses.
    + destruct (vec_seek_truncates p v Hp) as [H1 H2]. rewrite H1. eexists; split; [reflexivity|].
      cbn [snd bk_pos]. now rewrite H2.
  - inversion H; subst. split; intros Hp; cbn.
    + now rewrite vec_seek_refuses.
    + destruct (vec_seek_truncates p v Hp) as [H1 H2]. rewrite H1. eexists; split; [reflexivity|].
      cbn [snd bk_pos]. now rewrite H2.
  - inversion H; subst. destruct (cursor_seek_spec p c) as [H1 H2]. split; intros Hp; cbn.
    + now rewrite H2.
    + rewrite H1 by assumption. eexists; split; reflexivity.
  - destruct (IH p n H) as [H1 H2]. split; intros Hp; cbn.
    + now rewrite (H1 Hp).
    + destruct (H2 Hp) as (b' & H3 & H4). rewrite H3. exists (BRev b'). split; [reflexivity|exact H4].
Qed.

(* ------------------------------------------------------------------ LIFO / FIFO on backends *)

Lemma bk_stack_of_tape k fl t : bk_stack (bk_of_tape k fl t) = Some (above t).
Proof.
  destruct fl; cbn [bk_of_tape bk_stack].
  - now rewrite tape_of_rcursor_of_tape.
  - now rewrite tape_of_cursor_of_tape.
Qed.

Lemma bk_queue_of_tape k fl t : bk_queue (bk_of_tape k fl t) = Some (below t).
Proof.
  destruct fl; cbn [bk_of_tape bk_queue].
  - now rewrite tape_of_rcursor_of_tape.
  - now rewrite tape_of_cursor_of_tape.
Qed.

Lemma tape_bk_lifo k fl t ws : buf_mutable k = true -> length ws <= length (below t) ->
  exists t1 t2,
    bk_writes ws (bk_of_tape k fl t) = Some (repeat WOk (length ws), bk_of_tape k fl t1) /\
    above t1 = rev ws ++ above t /\
    bk_reads Stack (length ws) (bk_of_tape k fl t1) = Some (map RSome (rev ws), bk_of_tape k fl t2) /\
    above t2 = above t /\ tape_pos t2 fl = tape_pos t fl.
Proof.
  intros Hk Hl.
  exists {| above := rev ws ++ above t; below := skipn (length ws) (below t) |},
         {| above := above t; below := ws ++ skipn (length ws) (below t) |}.
  rewrite bk_writes_tape by assumption. unfold tape_writes. fold tape_writes.
  rewrite tape_writes_ok by assumption. split; [reflexivity|]. split; [reflexivity|].
  rewrite bk_reads_tape, tape_reads_stack. split; [reflexivity|]. split; [reflexivity|].
  destruct fl; cbn; [|reflexivity]. rewrite app_length, skipn_length. lia.
Qed.

(* writes accepted by a vector or a cursor-family sink are read back in reverse order with Stack
   semantics; afterwards the abstract stack and the position are as before *)
Lemma bk_lifo b ws st : bk_wf b -> bk_stack b = Some st ->
  (forall n, bk_space_left b = Some (QVal n) -> length ws <= n) ->
  bk_write 0%N b <> None ->
  exists b1 b2, bk_writes ws b = Some (repeat WOk (length ws), b1) /\
    bk_stack b1 = Some (rev ws ++ st) /\
    bk_reads Stack (length ws) b1 = Some (map RSome (rev ws), b2) /\
    bk_stack b2 = Some st /\ bk_pos b2 = bk_pos b.
Proof.
  intros Hwf Hst Hsp Hw.
  assert (Hcur : forall k fl t, b = bk_of_tape k fl t -> buf_mutable k = true ->
            exists b1 b2, bk_writes ws b = Some (repeat WOk (length ws), b1) /\
              bk_stack b1 = Some (rev ws ++ st) /\
              bk_reads Stack (length ws) b1 = Some (map RSome (rev ws), b2) /\
              bk_stack b2 = Some st /\ bk_pos b2 = bk_pos b).
  { intros k fl t -> Hk. rewrite bk_stack_of_tape in Hst. injection Hst as <-.
    rewrite bk_space_left_tape, Hk in Hsp. specialize (Hsp _ eq_refl). unfold tape_space_left in Hsp.
    destruct (tape_bk_lifo k fl t ws Hk Hsp) as (t1 & t2 & H1 & H2 & H3 & H4 & H5).
    exists (bk_of_tape k fl t1), (bk_of_tape k fl t2).
    rewrite !bk_stack_of_tape, !bk_pos_tape, H2, H4, H5. auto. }
  destruct b as [v|v|k c|b|f|f|cb|cb]; try (cbn in Hst; discriminate).
  - assert (st = rev v) as -> by (cbv in Hst |- *; congruence). destruct (vec_lifo ws v) as [H1 H2].
    exists (BVec (v ++ ws)), (BVec v). rewrite bk_writes_vec, H1, bk_reads_vec, H2. cbn.
    unfold stack_of_vec. rewrite rev_app_distr. auto.
  - assert (st = rev v) as -> by (cbv in Hst |- *; congruence). destruct (vec_lifo ws v) as [H1 H2].
    exists (BSmallVec (v ++ ws)), (BSmallVec v). rewrite bk_writes_smallvec, H1, bk_reads_smallvec, H2. cbn.
    unfold stack_of_vec. rewrite rev_app_distr. auto.
  - cbn in Hwf. apply (Hcur k false (tape_of_cursor c)); [now apply cursor_is_tape|].
    cbn in Hw. destruct (buf_mutable k); congruence.
  - destruct b as [v|v|k c|b|f|f|cb|cb]; try (cbn in Hst; discriminate).
    cbn in Hwf. apply (Hcur k true (tape_of_rcursor c)); [now apply rcursor_is_tape|].
    cbn in Hw. destruct (buf_mutable k); congruence.
Qed.

(* FIFO: words written to a cursor-family sink are read back IN ORDER with Queue semantics after
   seeking back to the position reported before the writes; this leaves the state as it was
   after the writes *)
Lemma tape_seek_back fl t ws : length ws <= length (below t) ->
  tape_seek (tape_pos t fl)
    {| above := rev ws ++ above t; below := skipn (length ws) (below t) |} fl =
    (SOk, {| above := above t; below := ws ++ skipn (length ws) (below t) |}).
Proof.
  intros Hl. destruct t as [a q]. cbn [above below] in *. unfold tape_seek, tape_pos, tape_all.
  cbn [above below].
  assert (Hq : q = firstn (length ws) q ++ skipn (length ws) q) by (symmetry; apply firstn_skipn).
  set (q2 := skipn (length ws) q) in *.
  assert (Hlen : length q = length ws + length q2)
    by (unfold q2; rewrite skipn_length; lia).
  rewrite rev_app_distr, rev_involutive, !app_length, !rev_length.
  destruct fl.
  - replace (length a + length ws + length q2 <? length q) with false
      by (symmetry; apply Nat.ltb_ge; lia).
    unfold tape_mirror, tape_goto, tape_all. cbn [above below].
    rewrite Hlen. replace (length ws + length q2) with (length (rev q2 ++ rev ws))
      by (rewrite app_length, !rev_length; lia).
    rewrite app_assoc, firstn_app_len, skipn_app_len, rev_app_distr, !rev_involutive. reflexivity.
  - replace (length a + length ws + length q2 <? length a) with false
      by (symmetry; apply Nat.ltb_ge; lia).
    unfold tape_goto, tape_all. cbn [above below].
    rewrite rev_app_distr, rev_involutive, <- app_assoc.
    replace (length a) with (length (rev a)) by apply rev_length.
    rewrite firstn_app_len, skipn_app_len, rev_involutive. reflexivity.
Qed.

Lemma bk_fifo b ws p n : bk_wf b -> bk_pos b = Some p ->
  bk_space_left b = Some (QVal n) -> length ws <= n ->
  exists b1 b1', bk_writes ws b = Some (repeat WOk (length ws), b1) /\
    bk_seek p b1 = Some (SOk, b1') /\
    bk_reads Queue (length ws) b1' = Some (map RSome ws, b1).
Proof.
  intros Hwf Hp Hsp Hl.
  assert (exists k fl t, b = bk_of_tape k fl t /\ buf_mutable k = true) as (k & fl & t & -> & Hk).
  { destruct b as [v|v|k c|b|f|f|cb|cb]; try (cbn in Hsp; discriminate).
    - cbn in Hwf. exists k, false, (tape_of_cursor c). split; [now apply cursor_is_tape|].
      cbn in Hsp. now destruct (buf_mutable k).
    - destruct b as [v|v|k c|b|f|f|cb|cb]; try (cbn in Hsp; discriminate).
      cbn in Hwf. exists k, true, (tape_of_rcursor c). split; [now apply rcursor_is_tape|].
      cbn in Hsp. now destruct (buf_mutable k). }
  rewrite bk_space_left_tape, Hk in Hsp. injection Hsp as <-.
  rewrite bk_pos_tape in Hp. injection Hp as <-. unfold tape_space_left in Hl.
  do 2 eexists. rewrite bk_writes_tape by assumption. unfold tape_writes. fold tape_writes.
  rewrite tape_writes_ok by assumption. split; [reflexivity|]. cbn [map_snd fst snd].
  rewrite bk_seek_tape, tape_seek_back by assumption. split; [reflexivity|]. cbn [map_snd fst snd].
  rewrite bk_reads_tape, tape_reads_queue. reflexivity.
Qed.

(* ------------------------------------------------------------------ adapters, on backends *)

(* the reads deliver exactly the items the wrapped iterator yields before its first None, in
   order, then end-of-data for ever (whatever the iterator would yield after that None) *)
Lemma bk_fallible_iter_reads s f :
  exists f', bk_reads s (S (length (fuse_rest f))) (BFallIter f) =
               Some (map rres_of_item_fallible (fuse_rest f) ++ [RNone], BFallIter f')
             /\ fuse_rest f' = [] /\ bk_read s (BFallIter f') = Some (RNone, BFallIter f').
Proof.
  rewrite (bk_reads_lift BFallIter fallible_iter_read) by reflexivity.
  destruct (iter_reads_exact fallible_iter_read rres_of_item_fallible fallible_iter_read_spec f)
    as (f' & H1 & H2 & H3).
  unfold iter_remaining in H1. rewrite fuse_len_rest in H1. rewrite H1. exists f'.
  split; [reflexivity|]. split; [assumption|]. cbn. now rewrite H3.
Qed.

Lemma bk_infallible_iter_reads s f :
  exists f', bk_reads s (S (length (fuse_rest f))) (BInfIter f) =
               Some (map rres_of_item_infallible (fuse_rest f) ++ [RNone], BInfIter f')
             /\ fuse_rest f' = [] /\ bk_read s (BInfIter f') = Some (RNone, BInfIter f').
Proof.
  rewrite (bk_reads_lift BInfIter infallible_iter_read) by reflexivity.
  destruct (iter_reads_exact infallible_iter_read rres_of_item_infallible infallible_iter_read_spec f)
    as (f' & H1 & H2 & H3).
  unfold iter_remaining in H1. rewrite fuse_len_rest in H1. rewrite H1. exists f'.
  split; [reflexivity|]. split; [assumption|]. cbn. now rewrite H3.
Qed.

Lemma bk_fallible_cb_writes ws cb :
  exists xs cb', bk_writes ws (BFallCb cb) = Some (xs, BFallCb cb') /\
    cb_log cb' = cb_log cb ++ ws /\
    xs = map (fun e => if Z.eqb e 0 then WOk else WErr e)
             (firstn (length ws) (cb_script cb ++ repeat 0%Z (length ws))).
Proof.
  rewrite (bk_writes_lift BFallCb fallible_cb_write) by reflexivity.
  destruct (fallible_cb_writes_log ws cb) as [H1 H2].
  destruct (iter_wr fallible_cb_write ws cb) as [xs cb']. cbn [fst snd] in *.
  exists xs, cb'. split; [reflexivity|]. split; assumption.
Qed.

Lemma bk_infallible_cb_writes ws cb :
  bk_writes ws (BInfCb cb) =
    Some (repeat WOk (length ws), BInfCb {| cb_log := cb_log cb ++ ws; cb_script := cb_script cb |}).
Proof.
  rewrite (bk_writes_lift BInfCb infallible_cb_write) by reflexivity.
  now rewrite infallible_cb_writes.
Qed.

(* Vec seek truncates *)
Lemma bk_vec_seek_truncates p v : p <= length v ->
  bk_seek p (BVec v) = Some (SOk, BVec (firstn p v)) /\
  bk_seek p (BSmallVec v) = Some (SOk, BSmallVec (firstn p v)).
Proof. intros H. cbn. destruct (vec_seek_truncates p v H) as [-> _]. split; reflexivity. Qed.

(* every contract at once, at every state reachable from a well-formed start by any interleaving *)
Definition bk_contracts (b : backend) : Prop :=
  (forall s b', bk_read s b = Some (RNone, b') -> bk_read s b' = Some (RNone, b')) /\
  (forall s n, bk_remaining s b = Some (QVal n) ->
     exists rs b', bk_reads s (S n) b = Some (rs ++ [RNone], b') /\ length rs = n /\ Forall rres_delivers rs) /\
  (forall n ws, bk_space_left b = Some (QVal n) -> length ws = S n ->
     exists b', bk_writes ws b = Some (repeat WOk n ++ [WOutOfSpace], b')) /\
  (forall p, bk_pos b = Some p -> bk_seek p b = Some (SOk, b)) /\
  (forall p n, bk_len b = Some n -> n < p -> bk_seek p b = Some (SErr, b)).

Lemma bk_contracts_wf b : bk_wf b -> bk_contracts b.
Proof.
  intros Hwf. repeat split.
  - intros s b'. now apply bk_eod_sticky.
  - intros s n H. destruct (bk_remaining_exact b s n Hwf H) as (rs & b' & H1 & H2 & H3 & _). eauto.
  - intros n ws H Hl. destruct (bk_space_left_exact b n ws Hwf H Hl) as (b' & H1 & _). eauto.
  - intros p. now apply bk_seek_pos.
  - intros p n H Hp. now apply (proj1 (bk_seek_range b p n H)).
Qed.

Lemma bk_contracts_reachable b0 ops : bk_wf b0 -> Forall op_safe ops ->
  bk_wf (fst (bk_run b0 ops)) /\ bk_contracts (fst (bk_run b0 ops)) /\
  Forall (fun x => ~ out_is_fault x) (snd (bk_run b0 ops)).
Proof.
  intros Hwf Hs. destruct (bk_run_wf ops b0 Hwf Hs) as [H1 H2].
  split; [assumption|]. split; [now apply bk_contracts_wf|assumption].
Qed.

(* the conversions: a Stack reader starts with the whole buffer as its stack (last word on top), a
   Queue reader with the whole buffer as its queue *)
Lemma into_read_words_spec k b :
  cursor_inv (into_read_words Stack b) /\ cursor_inv (into_read_words Queue b) /\
  bk_stack (BCursor k (into_read_words Stack b)) = Some (rev b) /\
  bk_queue (BCursor k (into_read_words Queue b)) = Some b.
Proof.
  split; [apply cursor_new_end_inv|]. split; [apply cursor_new_beginning_inv|].
  cbn. unfold tape_of_cursor; cbn. now rewrite firstn_all.
Qed.
