(* Proofs/Leaky_enc.v -- the encoder side of LeakilyQuantizedDistribution:
   exact cumulatives, tiling, iterator = encoder, symbols outside the support. *)
From CV Require Import Base.Bits Model.EModel Model.Leaky Proofs.Leaky_base.
From Coq Require Import ZArith Lia.
Set Default Timeout 30.
Open Scope Z_scope.

Fixpoint zseq (start : Z) (n : nat) : list Z :=
  match n with
  | O => []
  | S n' => start :: zseq (start + 1) n'
  end.

Lemma zseq_length start n : length (zseq start n) = n.
Proof. revert start. induction n; intros; cbn; [reflexivity|]. rewrite IHn. reflexivity. Qed.

Lemma zseq_in start n x : In x (zseq start n) <-> start <= x < start + Z.of_nat n.
Proof.
  revert start. induction n; intros start; cbn [zseq In].
  - lia.
  - rewrite IHn. lia.
Qed.

Lemma zseq_nodup start n : NoDup (zseq start n).
Proof.
  revert start. induction n; intros start; cbn [zseq]; constructor.
  - rewrite zseq_in. lia.
  - apply IHn.
Qed.

Section Enc.
Variable c : lcfg.
Hypothesis Hwf : wf_lcfg c.
Variable dbg : bool.
Variables lo hi : Z.
Variable nl : Z -> N.
Variable fw : N.
Hypothesis Hlo : in_sym c lo.
Hypothesis Hhi : in_sym c hi.
Hypothesis Hlt : lo < hi.
(* what an accepted support guarantees (Leaky_base.lq_new_some) *)
Hypothesis Hfw : Z.of_N fw + (hi - lo) <= 2 ^ Z.of_N (PR c) - 1.
(* documented precondition, part 1: cdf values in [0,1] *)
Hypothesis Hbd : forall x, lo < x <= hi -> (nl x <= fw)%N.

(* the ideal left cumulative of symbol s; LN (hi + 1) = 2^P is the right end *)
Definition LN (s : Z) : N :=
  if s <=? lo then 0%N
  else if hi <? s then (2 ^ PR c)%N
  else (nl s + Z.to_N (s - lo))%N.

Let PZ : Z.of_N (2 ^ PR c) = 2 ^ Z.of_N (PR c) := Npow2_Z (PR c).

Lemma LN_lo : LN lo = 0%N.
Proof. unfold LN. rewrite Z.leb_refl. reflexivity. Qed.

Lemma LN_top : LN (hi + 1) = (2 ^ PR c)%N.
Proof.
  unfold LN. destruct (Z.leb_spec (hi + 1) lo); [lia|].
  destruct (Z.ltb_spec hi (hi + 1)); [reflexivity|lia].
Qed.

Lemma LN_mid s : lo < s <= hi -> LN s = (nl s + Z.to_N (s - lo))%N.
Proof.
  intros. unfold LN. destruct (Z.leb_spec s lo); [lia|].
  destruct (Z.ltb_spec hi s); [lia|reflexivity].
Qed.

Lemma LN_mid_bound s : lo < s <= hi -> (1 <= LN s /\ LN s <= 2 ^ PR c - 1)%N.
Proof.
  intros H. rewrite (LN_mid s H). pose proof (Hbd s H). lia.
Qed.

Lemma LN_le_top s : (LN s <= 2 ^ PR c)%N.
Proof.
  unfold LN. destruct (Z.leb_spec s lo); [lia|].
  destruct (Z.ltb_spec hi s); [lia|].
  pose proof (LN_mid_bound s ltac:(lia)) as Hb. rewrite LN_mid in Hb by lia. lia.
Qed.

Lemma P_lt_pmod_mid s : lo < s <= hi -> (LN s < pmod c)%N.
Proof.
  intros H. pose proof (LN_mid_bound s H). pose proof (pow_P_le_PB c Hwf).
  assert (0 < 2 ^ PR c)%N by apply pow2_pos. lia.
Qed.

Lemma dist_small s : lo <= s <= hi ->
  0 <= s - lo /\ s - lo < smod c /\ s - lo < 2 ^ Z.of_N (PB c).
Proof.
  intros H. unfold in_sym, smax in *.
  pose proof (pow_P_le_PB c Hwf) as Hp. unfold pmod in Hp.
  assert (Z.of_N (2 ^ PB c) = 2 ^ Z.of_N (PB c)) by apply Npow2_Z.
  lia.
Qed.

Lemma slack_ok s : lo <= s <= hi -> slack c s lo = Z.to_N (s - lo).
Proof.
  intros H. destruct (dist_small s H) as (H1 & H2 & H3).
  apply slack_exact; assumption.
Qed.

(* the machine evaluations of the cumulatives are exact and never overflow *)
Lemma lcum_exact s : lo < s <= hi -> lcum c dbg lo nl s = Some (LN s).
Proof.
  intros H. unfold lcum. rewrite slack_ok by lia.
  pose proof (P_lt_pmod_mid s H) as Hb. rewrite LN_mid in * by assumption.
  apply addP_small. assumption.
Qed.

Lemma rsum_bound s : lo <= s < hi ->
  (nl (s + 1) + Z.to_N (s - lo) + 1 = LN (s + 1))%N.
Proof. intros H. rewrite LN_mid by lia. lia. Qed.

Lemma rcum_exact s : lo <= s < hi -> rcum c dbg lo nl s = Some (LN (s + 1)).
Proof.
  intros H. unfold rcum. rewrite slack_ok by lia.
  pose proof (rsum_bound s H) as Hs. pose proof (P_lt_pmod_mid (s + 1) ltac:(lia)).
  rewrite addP_small by lia. rewrite waddP_small by lia. f_equal. exact Hs.
Qed.

Lemma rcum_chk_exact s : lo <= s < hi -> rcum_chk c dbg lo nl s = Some (LN (s + 1)).
Proof.
  intros H. unfold rcum_chk. rewrite slack_ok by lia.
  pose proof (rsum_bound s H) as Hs. pose proof (P_lt_pmod_mid (s + 1) ltac:(lia)).
  rewrite addP_small by lia. rewrite addP_small by lia. f_equal. exact Hs.
Qed.

(* the machine value of the right end of symbol s *)
Definition RM (s : Z) : N := (LN (s + 1) mod pmod c)%N.

Lemma RM_mid s : lo <= s < hi -> RM s = LN (s + 1).
Proof. intros. unfold RM. apply N.mod_small. apply P_lt_pmod_mid. lia. Qed.

Lemma RM_hi : RM hi = wpow2 c (PR c).
Proof. unfold RM. rewrite LN_top. symmetry. apply wpow2_P. exact Hwf. Qed.

(* probability of s in wrapping arithmetic = the ideal difference *)
Lemma prob_exact s : lo <= s <= hi -> (LN s <= LN (s + 1))%N ->
  wsubP c (RM s) (LN s) = (LN (s + 1) - LN s)%N.
Proof.
  intros H Hle. unfold RM. apply wsubP_exact; [exact Hle| |].
  - pose proof (LN_le_top (s + 1)). pose proof (pow_P_le_PB c Hwf). lia.
  - destruct (Z.eq_dec s lo) as [->|Hne].
    + right. apply P_lt_pmod_mid. lia.
    + left. pose proof (LN_mid_bound s ltac:(lia)). lia.
Qed.

(* left_cumulative_and_probability on a symbol whose ideal interval is non-empty *)
Lemma enc_exact s : lo <= s <= hi -> (LN s < LN (s + 1))%N ->
  lq_enc c dbg lo hi nl s = EOk (LN s) (LN (s + 1) - LN s).
Proof.
  intros H Hne. unfold lq_enc.
  destruct (Z.ltb_spec s lo); [lia|]. destruct (Z.ltb_spec hi s); [lia|]. cbn [orb].
  assert (Hl : (if s =? lo then Some 0%N else lcum c dbg lo nl s) = Some (LN s)).
  { destruct (Z.eqb_spec s lo) as [->|]; [rewrite LN_lo; reflexivity|]. apply lcum_exact. lia. }
  assert (Hr : (if s =? hi then Some (wpow2 c (PR c)) else rcum_chk c dbg lo nl s) = Some (RM s)).
  { destruct (Z.eqb_spec s hi) as [->|]; [rewrite RM_hi; reflexivity|].
    rewrite rcum_chk_exact by lia. rewrite RM_mid by lia. reflexivity. }
  rewrite Hl, Hr. rewrite prob_exact by lia.
  destruct (N.eqb_spec (LN (s + 1) - LN s) 0); [lia|reflexivity].
Qed.

(* C09: the range check precedes every cast; no symbol outside gets a probability *)
Lemma enc_outside s : s < lo \/ hi < s -> lq_enc c dbg lo hi nl s = ENone.
Proof.
  intros H. unfold lq_enc.
  destruct (Z.ltb_spec s lo); [reflexivity|]. destruct (Z.ltb_spec hi s); [reflexivity|]. lia.
Qed.

Lemma enc_some_inside s cu p : lq_enc c dbg lo hi nl s = EOk cu p -> lo <= s <= hi.
Proof.
  intros H. destruct (Z.lt_ge_cases s lo); [rewrite enc_outside in H by lia; discriminate|].
  destruct (Z.lt_ge_cases hi s); [rewrite enc_outside in H by lia; discriminate|]. lia.
Qed.

(* ---- documented precondition, part 2: the cdf is monotone *)
Section Mono.
Hypothesis Hmono : forall x y, lo < x -> x <= y -> y <= hi -> (nl x <= nl y)%N.

Lemma LN_strict s s' : lo <= s -> s < s' -> s' <= hi + 1 -> (LN s < LN s')%N.
Proof.
  intros H1 H2 H3.
  destruct (Z.eq_dec s lo) as [->|Hs].
  - rewrite LN_lo. destruct (Z.eq_dec s' (hi + 1)) as [->|].
    + rewrite LN_top. apply pow2_pos.
    + pose proof (LN_mid_bound s' ltac:(lia)). lia.
  - destruct (Z.eq_dec s' (hi + 1)) as [->|].
    + rewrite LN_top. pose proof (LN_mid_bound s ltac:(lia)).
      assert (0 < 2 ^ PR c)%N by apply pow2_pos. lia.
    + rewrite !LN_mid by lia. pose proof (Hmono s s' ltac:(lia) ltac:(lia) ltac:(lia)). lia.
Qed.

Lemma LN_mono s s' : s <= s' -> (LN s <= LN s')%N.
Proof.
  intros H. destruct (Z.eq_dec s s') as [->|]; [lia|].
  destruct (Z.le_gt_cases s' lo).
  - unfold LN. destruct (Z.leb_spec s lo); [|lia]. destruct (Z.leb_spec s' lo); lia.
  - destruct (Z.lt_ge_cases hi s).
    + unfold LN. destruct (Z.leb_spec s lo); [lia|]. destruct (Z.leb_spec s' lo); [lia|].
      destruct (Z.ltb_spec hi s); [|lia]. destruct (Z.ltb_spec hi s'); lia.
    + destruct (Z.le_gt_cases s lo).
      * assert (LN s = 0%N) as -> by (unfold LN; destruct (Z.leb_spec s lo); [reflexivity|lia]). lia.
      * destruct (Z.le_gt_cases s' (hi + 1)).
        -- pose proof (LN_strict s s'). lia.
        -- assert (LN s' = (2 ^ PR c)%N) as ->.
           { unfold LN. destruct (Z.leb_spec s' lo); [lia|]. destruct (Z.ltb_spec hi s'); [reflexivity|lia]. }
           apply LN_le_top.
Qed.

Lemma enc_valid s : lo <= s <= hi ->
  lq_enc c dbg lo hi nl s = EOk (LN s) (LN (s + 1) - LN s)
  /\ (0 < LN (s + 1) - LN s)%N /\ (LN s + (LN (s + 1) - LN s) = LN (s + 1))%N
  /\ (LN (s + 1) - LN s < 2 ^ PR c)%N.
Proof.
  intros H. pose proof (LN_strict s (s + 1) ltac:(lia) ltac:(lia) ltac:(lia)) as Hs.
  split; [apply enc_exact; assumption|]. split; [lia|]. split; [lia|].
  (* no probability one: at least two symbols *)
  pose proof (LN_le_top (s + 1)).
  destruct (Z.eq_dec s lo) as [->|].
  - pose proof (LN_mid_bound (lo + 1) ltac:(lia)). rewrite LN_lo. lia.
  - pose proof (LN_mid_bound s ltac:(lia)). lia.
Qed.

(* a quantile lies in the interval of at most one symbol *)
Lemma interval_unique s s' q : lo <= s <= hi -> lo <= s' <= hi ->
  (LN s <= q < LN (s + 1))%N -> (LN s' <= q < LN (s' + 1))%N -> s = s'.
Proof.
  intros H1 H2 Hq Hq'.
  destruct (Z.lt_trichotomy s s') as [Hlt'|[->|Hgt]]; [|reflexivity|].
  - pose proof (LN_mono (s + 1) s' ltac:(lia)). lia.
  - pose proof (LN_mono (s' + 1) s ltac:(lia)). lia.
Qed.

(* ---- the symbol_table iterator *)
Definition entry (s : Z) : Z * N * N := (s, LN s, (LN (s + 1) - LN s)%N).

Lemma iter_exact fuel s : lo <= s <= hi -> (Z.to_nat (hi - s) < fuel)%nat ->
  lq_iter c dbg lo hi nl fuel s (LN s) = Some (map entry (zseq s (S (Z.to_nat (hi - s))))).
Proof.
  revert s. induction fuel as [|f IH]; intros s Hs Hf; [lia|].
  cbn [lq_iter]. destruct (Z.eqb_spec s hi) as [->|Hne].
  - replace (hi - hi) with 0 by lia. cbn [Z.to_nat zseq map]. unfold entry.
    rewrite <- RM_hi. rewrite prob_exact by (try lia; apply N.lt_le_incl, LN_strict; lia).
    pose proof (LN_strict hi (hi + 1) ltac:(lia) ltac:(lia) ltac:(lia)) as Hst.
    destruct (N.eqb_spec (LN (hi + 1) - LN hi) 0); [lia|reflexivity].
  - unfold caddS. rewrite chkS_in by (generalize Hlo Hhi; unfold in_sym; lia).
    rewrite lcum_exact by lia.
    pose proof (LN_strict s (s + 1) ltac:(lia) ltac:(lia) ltac:(lia)) as Hst.
    assert (Hp : wsubP c (LN (s + 1)) (LN s) = (LN (s + 1) - LN s)%N).
    { rewrite <- (RM_mid s) at 1 by lia. apply prob_exact; lia. }
    rewrite Hp.
    destruct (N.eqb_spec (LN (s + 1) - LN s) 0); [lia|].
    rewrite IH by lia.
    replace (Z.to_nat (hi - s)) with (S (Z.to_nat (hi - (s + 1)))) by lia.
    cbn [zseq map]. unfold entry at 3. reflexivity.
Qed.

Definition ideal_table : list (Z * N * N) := map entry (zseq lo (S (Z.to_nat (hi - lo)))).

Lemma table_exact : lq_table c dbg lo hi nl = Some ideal_table.
Proof.
  unfold lq_table, ideal_table. rewrite <- LN_lo. apply iter_exact; lia.
Qed.

Lemma tiles_from s n : lo <= s -> s + Z.of_nat n = hi + 1 ->
  tiles (LN s) (2 ^ PR c) (map entry (zseq s n)).
Proof.
  revert s. induction n as [|n IH]; intros s H1 H2; cbn [zseq map tiles].
  - replace s with (hi + 1) by lia. apply LN_top.
  - unfold entry at 1. destruct (enc_valid s ltac:(lia)) as (_ & Hp & Hsum & _).
    split; [reflexivity|]. split; [lia|]. rewrite Hsum. apply IH; lia.
Qed.

Lemma table_wf : wf_table (PR c) ideal_table.
Proof.
  unfold wf_table, ideal_table. destruct Hwf as (_ & HP & _).
  split; [exact HP|]. split.
  - rewrite <- LN_lo. apply tiles_from; lia.
  - split.
    + unfold syms. rewrite map_map. cbn [entry fst]. rewrite map_id. apply zseq_nodup.
    + rewrite map_length, zseq_length. lia.
Qed.

Lemma table_entries e : In e ideal_table <->
  exists s, lo <= s <= hi /\ e = entry s.
Proof.
  unfold ideal_table. rewrite in_map_iff. split.
  - intros (s & <- & Hin). apply zseq_in in Hin. exists s. split; [lia|reflexivity].
  - intros (s & Hs & ->). exists s. split; [reflexivity|]. apply zseq_in. lia.
Qed.

End Mono.
End Enc.
