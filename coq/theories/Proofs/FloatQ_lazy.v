(* Proofs/FloatQ_lazy.v -- the lazily evaluated categorical model equals the eager table (C05). *)
From Coq Require Import ZArith NArith List Bool Reals Lia Lra.
From Flocq Require Import Core IEEE754.BinarySingleNaN.
From CV Require Import Base.Bits Model.EModel Model.FloatQ Proofs.Table_lemmas Proofs.FloatQ_float
  Proofs.FloatQ_cdf.
Set Default Timeout 60.
Open Scope N_scope.

Section Lazy.
Variables prec emax : Z.
Context (Hprec : Prec_gt_0 prec) (Hmax : Prec_lt_emax prec emax).
Variables PB P : N.
Notation float := (binary_float prec emax).
Notation fadd := (fq_add prec emax Hprec Hmax).
Notation scaled := (fq_scaled prec emax Hprec Hmax PB).
Notation NN := (NN prec emax).
Notation fle := (fle prec emax).
Notation zeq := (zeq prec emax).
Notation nonneg_all := (nonneg_all prec emax).
Notation pzero := (fq_zero prec emax).

Hypothesis HP : 0 < P.
Hypothesis HPB : P <= PB.
Hypothesis HU : PB <= fq_USZ.

Variable ws : list float.
Variable scale : float.
Let n := N.of_nat (length ws).
Let fw := 2 ^ P - n.
Hypothesis Hn2 : 2 <= n.
Hypothesis Hn : n + 1 < 2 ^ P.
Hypothesis Hnn : nonneg_all ws.
Hypothesis Hsc : NN scale.

(* running sums: eager (from +0.0) and lazy (Iterator::sum, from -0.0) *)
Definition F (l : list float) : float := fold_left fadd l pzero.
Definition Fm (l : list float) : float := fold_left fadd l (fq_nzero prec emax).
(* the left cumulative of the symbol that follows the prefix l *)
Definition cum (l : list float) : N := scaled (F l) scale fw + N.of_nat (length l).

Lemma F_snoc l w : F (l ++ [w]) = fadd (F l) w.
Proof. unfold F. rewrite fold_left_app. reflexivity. Qed.

Lemma fold_zeq l : forall x y, zeq x y -> zeq (fold_left fadd l x) (fold_left fadd l y).
Proof. induction l as [|w r IH]; intros x y H; cbn; [exact H|]. apply IH, add_zeq, H. Qed.

Lemma Fm_zeq l : zeq (Fm l) (F l).
Proof. apply fold_zeq. right. exists true, false. split; reflexivity. Qed.

Lemma nonneg_app l1 l2 : nonneg_all (l1 ++ l2) -> nonneg_all l1 /\ nonneg_all l2.
Proof. unfold FloatQ_cdf.nonneg_all. rewrite Forall_app. tauto. Qed.

Lemma fold_nn l : forall c, NN c -> nonneg_all l -> NN (fold_left fadd l c).
Proof.
  induction l as [|w r IH]; intros c Hc Hl; cbn; [exact Hc|].
  inversion Hl as [|? ? [Hf H0] Hr]; subst.
  apply IH; [|exact Hr]. apply (add_nn prec emax Hprec Hmax); assumption.
Qed.

Lemma F_nn l : nonneg_all l -> NN (F l).
Proof. intros. apply fold_nn; [apply NN_zero|assumption]. Qed.

Lemma pow_bounds : 2 ^ P <= 2 ^ PB /\ 2 ^ PB <= 2 ^ fq_USZ.
Proof. split; apply pow2_le; assumption. Qed.

(* consecutive left cumulatives are strictly increasing, and stay below fw + length *)
Lemma cum_le l : cum l <= fw + N.of_nat (length l).
Proof. unfold cum. pose proof (scaled_le_fw prec emax Hprec Hmax PB (F l) scale fw). lia. Qed.

Lemma cum_lt_snoc l w : nonneg_all (l ++ [w]) -> cum l < cum (l ++ [w]).
Proof.
  intros Hl. destruct (nonneg_app _ _ Hl) as [H1 H2].
  inversion H2 as [|? ? [Hf H0] _]; subst.
  unfold cum. rewrite F_snoc, app_length. cbn [length].
  destruct (add_nn prec emax Hprec Hmax (F l) w (F_nn l H1) Hf H0) as [Hc' Hle].
  pose proof (scaled_mono prec emax Hprec Hmax PB (F l) (fadd (F l) w) scale fw (F_nn l H1) Hc' Hle Hsc).
  lia.
Qed.

Lemma cum_nil : cum [] = 0.
Proof. unfold cum, F. cbn [fold_left length]. unfold fq_zero. rewrite scaled_zero. reflexivity. Qed.

(* ------------------------------------------------------------------ the eager table, by prefixes *)

Fixpoint cums (pre rem : list float) : list N :=
  match rem with
  | [] => []
  | w :: r => cum pre :: cums (pre ++ [w]) r
  end.

Lemma cdf_ideal_cums : forall rem pre,
  cdf_ideal prec emax Hprec Hmax PB scale fw rem (F pre) (N.of_nat (length pre)) = cums pre rem.
Proof.
  induction rem as [|w r IH]; intros pre; [reflexivity|].
  cbn [cdf_ideal cums]. f_equal.
  rewrite <- F_snoc.
  replace (N.of_nat (length pre) + 1) with (N.of_nat (length (pre ++ [w])))
    by (rewrite app_length; cbn [length]; lia).
  apply IH.
Qed.

Definition right_of (pre : list float) (w : float) (B : list float) : N :=
  match B with [] => 2 ^ P | _ => cum (pre ++ [w]) end.

Fixpoint tbl_ws (pre rem : list float) : table :=
  match rem with
  | [] => []
  | w :: r => (Z.of_nat (length pre), cum pre, right_of pre w r - cum pre) :: tbl_ws (pre ++ [w]) r
  end.

Lemma tbl_of_cums : forall rem pre w,
  tbl_of (Z.of_nat (length pre)) (cum pre) (cums (pre ++ [w]) rem) (2 ^ P) = tbl_ws pre (w :: rem).
Proof.
  induction rem as [|w' r IH]; intros pre w.
  - reflexivity.
  - cbn [cums tbl_of]. cbn [tbl_ws]. unfold right_of at 1. f_equal.
    replace (Z.of_nat (length pre) + 1)%Z with (Z.of_nat (length (pre ++ [w])))
      by (rewrite app_length; cbn [length]; lia).
    rewrite IH. reflexivity.
Qed.

Lemma tbl_enc_ws : forall A pre w B,
  tbl_enc (tbl_ws pre (A ++ w :: B)) (Z.of_nat (length pre + length A))
  = Some (cum (pre ++ A), right_of (pre ++ A) w B - cum (pre ++ A)).
Proof.
  induction A as [|a A' IH]; intros pre w B.
  - cbn [app tbl_ws tbl_enc length]. rewrite Nat.add_0_r, Z.eqb_refl, app_nil_r. reflexivity.
  - cbn [app tbl_ws tbl_enc length].
    destruct (Z.eqb_spec (Z.of_nat (length pre + S (length A'))) (Z.of_nat (length pre))) as [He|_]; [lia|].
    replace (length pre + S (length A'))%nat with (length (pre ++ [a]) + length A')%nat
      by (rewrite app_length; cbn [length]; lia).
    rewrite IH. rewrite <- !app_assoc. reflexivity.
Qed.

Lemma tbl_enc_ws_none : forall rem pre z,
  (z < Z.of_nat (length pre) \/ Z.of_nat (length pre + length rem) <= z)%Z ->
  tbl_enc (tbl_ws pre rem) z = None.
Proof.
  induction rem as [|w r IH]; intros pre z Hz; [reflexivity|].
  cbn [tbl_ws tbl_enc]. cbn [length] in Hz.
  destruct (Z.eqb_spec z (Z.of_nat (length pre))) as [He|_]; [lia|].
  apply IH. rewrite app_length. cbn [length]. lia.
Qed.

(* ------------------------------------------------------------------ encoder *)

Lemma split_at (s : nat) : (s < length ws)%nat ->
  exists A w B, ws = A ++ w :: B /\ length A = s /\ firstn s ws = A /\ nth_error ws s = Some w.
Proof.
  intros Hs. destruct (nth_error ws s) as [w|] eqn:Hw.
  2:{ apply nth_error_None in Hw. lia. }
  destruct (nth_error_split ws s Hw) as (A & B & Hws & HA).
  exists A, w, B. split; [exact Hws|]. split; [exact HA|]. split; [|reflexivity].
  rewrite Hws, <- HA. rewrite firstn_app, firstn_all, Nat.sub_diag. cbn. apply app_nil_r.
Qed.

Let m := {| lz_pmf := ws; lz_scale := scale |}.

Lemma n_len A w B : ws = A ++ w :: B -> n = N.of_nat (length A) + 1 + N.of_nat (length B).
Proof. intros H. unfold n. rewrite H, app_length. cbn [length]. lia. Qed.

Lemma free_weight_fw : fq_free_weight PB P n = fw.
Proof. apply fq_free_weight_val; assumption. Qed.

Lemma lazy_enc_in A w B : ws = A ++ w :: B ->
  fq_lazy_enc prec emax Hprec Hmax PB P m (N.of_nat (length A))
  = FqOk (Some (cum A, right_of A w B - cum A)).
Proof.
  intros Hws. pose proof (n_len A w B Hws) as Hlen. destruct pow_bounds as [HPP HPU].
  assert (HnnA : nonneg_all (A ++ [w])).
  { rewrite Hws in Hnn. replace (A ++ w :: B) with ((A ++ [w]) ++ B) in Hnn by (rewrite <- app_assoc; reflexivity).
    apply nonneg_app in Hnn. tauto. }
  unfold fq_lazy_enc. cbn [lz_pmf lz_scale m]. fold n.
  destruct (N.leb_spec n (N.of_nat (length A))) as [Hge|_]; [lia|].
  rewrite Nat2N.id.
  assert (Hnth : nth_error ws (length A) = Some w).
  { rewrite Hws, nth_error_app2, Nat.sub_diag by lia. reflexivity. }
  rewrite Hnth.
  assert (Hfirst : firstn (length A) ws = A).
  { rewrite Hws, firstn_app, firstn_all, Nat.sub_diag. cbn. apply app_nil_r. }
  rewrite Hfirst, free_weight_fw. change (fq_sum prec emax Hprec Hmax A) with (Fm A).
  rewrite (scaled_zeq prec emax Hprec Hmax PB (Fm A) (F A) scale fw (Fm_zeq A)).
  rewrite (trunc_small PB (N.of_nat (length A))) by lia.
  pose proof (cum_le A) as HcA. fold (cum A).
  unfold fq_cadd at 1. unfold cum in HcA.
  destruct (N.ltb_spec (scaled (F A) scale fw + N.of_nat (length A)) (2 ^ PB)) as [_|Hov]; [|unfold fw in *; lia].
  fold (cum A).
  pose proof (cum_lt_snoc A w HnnA) as Hlt.
  assert (HR : scaled (fadd (Fm A) w) scale fw = scaled (F (A ++ [w])) scale fw).
  { rewrite F_snoc. apply scaled_zeq. apply add_zeq, Fm_zeq. }
  rewrite HR.
  destruct B as [|b B'].
  - (* last symbol *)
    assert (Hs : N.of_nat (length A) = n - 1) by (cbn [length] in Hlen; lia).
    rewrite Hs, N.eqb_refl. unfold right_of.
    assert (Hp : fq_wsub PB (fq_wpow2 PB P) (cum A) = 2 ^ P - cum A).
    { unfold cum in *. apply fq_total_minus; try assumption; unfold fw in *; lia. }
    rewrite Hp. unfold fq_nonzero.
    destruct (N.eqb_spec (2 ^ P - cum A) 0) as [He|_]; [unfold cum, fw in *; lia|]. reflexivity.
  - cbn [length] in Hlen.
    destruct (N.eqb_spec (N.of_nat (length A)) (n - 1)) as [He|_]; [lia|].
    pose proof (cum_le (A ++ [w])) as HcA'.
    unfold cum in HcA', Hlt. rewrite !app_length in HcA', Hlt. cbn [length] in HcA', Hlt.
    unfold fq_cadd.
    destruct (N.ltb_spec (scaled (F (A ++ [w])) scale fw + N.of_nat (length A)) (2 ^ PB)) as [_|Hov];
      [|unfold fw in *; lia].
    destruct (N.ltb_spec (scaled (F (A ++ [w])) scale fw + N.of_nat (length A) + 1) (2 ^ PB)) as [_|Hov];
      [|unfold fw in *; lia].
    unfold right_of, cum. rewrite app_length. cbn [length].
    replace (N.of_nat (length A + 1)) with (N.of_nat (length A) + 1) in * by lia.
    rewrite N.add_assoc.
    rewrite fq_wsub_val by (unfold fw in *; lia).
    unfold fq_nonzero.
    destruct (N.eqb_spec (scaled (F (A ++ [w])) scale fw + N.of_nat (length A) + 1
                          - (scaled (F A) scale fw + N.of_nat (length A))) 0) as [He|_]; [lia|].
    reflexivity.
Qed.

Theorem lazy_enc_eq_table (s : N) :
  fq_lazy_enc prec emax Hprec Hmax PB P m s = FqOk (tbl_enc (tbl_ws [] ws) (Z.of_N s)).
Proof.
  destruct (N.lt_ge_cases s n) as [Hlt|Hge].
  - destruct (split_at (N.to_nat s)) as (A & w & B & Hws & HA & _); [unfold n in Hlt; lia|].
    replace s with (N.of_nat (length A)) by lia.
    rewrite (lazy_enc_in A w B Hws). f_equal.
    rewrite Hws at 1. rewrite nat_N_Z.
    pose proof (tbl_enc_ws A [] w B) as H. cbn [length app Nat.add] in H. rewrite H. reflexivity.
  - unfold fq_lazy_enc. cbn [lz_pmf m]. fold n.
    destruct (N.leb_spec n s) as [_|Hc]; [|lia].
    rewrite tbl_enc_ws_none; [reflexivity|]. right. cbn [length]. unfold n in Hge. lia.
Qed.

(* ------------------------------------------------------------------ decoder *)

Lemma skip_spec lb : forall rem pre lf, ws = pre ++ rem -> rem <> [] ->
  exists mid w rest, rem = mid ++ w :: rest /\
    fq_skip prec emax Hprec Hmax lb rem (N.of_nat (length pre)) lf (F pre)
    = (rest, N.of_nat (length pre + length mid + 1), F (pre ++ mid), F (pre ++ mid ++ [w])).
Proof.
  destruct pow_bounds as [HPP HPU].
  induction rem as [|w r IH]; intros pre lf Hws Hne; [contradiction|].
  assert (Hlen : N.of_nat (length pre) + 1 + N.of_nat (length r) = n).
  { unfold n. rewrite Hws, app_length. cbn [length]. lia. }
  cbn [fq_skip].
  rewrite (trunc_small fq_USZ (N.of_nat (length pre) + 1)) by lia.
  rewrite <- F_snoc.
  assert (Hbase : exists mid w0 rest, w :: r = mid ++ w0 :: rest /\
            (r, N.of_nat (length pre) + 1, F pre, F (pre ++ [w]))
            = (rest, N.of_nat (length pre + length mid + 1), F (pre ++ mid), F (pre ++ mid ++ [w0]))).
  { exists [], w, r. split; [reflexivity|]. cbn [length app]. rewrite app_nil_r.
    replace (N.of_nat (length pre + 0 + 1)) with (N.of_nat (length pre) + 1) by lia. reflexivity. }
  destruct (fq_ge prec emax (F (pre ++ [w])) lb); [exact Hbase|].
  destruct r as [|w' r'].
  - cbn [fq_skip]. exact Hbase.
  - destruct (IH (pre ++ [w]) (F pre)) as (mid & w0 & rest & Hr & Hres).
    { rewrite Hws, <- app_assoc. reflexivity. }
    { discriminate. }
    exists (w :: mid), w0, rest. split; [cbn; rewrite Hr; reflexivity|].
    replace (N.of_nat (length pre) + 1) with (N.of_nat (length (pre ++ [w])))
      by (rewrite app_length; cbn [length]; lia).
    rewrite Hres. rewrite app_length. cbn [length app]. rewrite <- !app_assoc. cbn [app].
    replace (length pre + 1 + length mid + 1)%nat with (length pre + S (length mid) + 1)%nat by lia.
    reflexivity.
Qed.

Lemma search_spec q : forall rest pre0 w0, ws = (pre0 ++ [w0]) ++ rest ->
  exists A w B, ws = A ++ w :: B /\
    fq_search prec emax Hprec Hmax PB P scale fw q rest (N.of_nat (length (pre0 ++ [w0]))) (cum pre0)
              (F (pre0 ++ [w0]))
    = FqOk (N.of_nat (length A), cum A, right_of A w B - cum A)
    /\ 0 < right_of A w B - cum A
    /\ (cum pre0 <= q -> q < 2 ^ P -> cum A <= q < right_of A w B).
Proof.
  destruct pow_bounds as [HPP HPU].
  induction rest as [|w r IH]; intros pre0 w0 Hws.
  - rewrite app_nil_r in Hws. exists pre0, w0, []. split; [exact Hws|].
    pose proof (n_len pre0 w0 [] Hws) as Hlen. cbn [length] in Hlen.
    cbn [fq_search]. rewrite app_length. cbn [length].
    pose proof (cum_le pre0) as Hc.
    assert (Hp : fq_wsub PB (fq_wpow2 PB P) (cum pre0) = 2 ^ P - cum pre0).
    { unfold cum in *. apply fq_total_minus; try assumption; unfold fw in *; lia. }
    rewrite Hp. unfold fq_nonzero.
    destruct (N.eqb_spec (2 ^ P - cum pre0) 0) as [He|_]; [unfold cum, fw in *; lia|].
    assert (Hsym : fq_wsub fq_USZ (N.of_nat (length pre0 + 1)) 1 = N.of_nat (length pre0)).
    { rewrite fq_wsub_val by lia. lia. }
    rewrite Hsym. unfold right_of. split; [reflexivity|]. split; [unfold cum, fw in *; lia|].
    intros; unfold cum, fw in *; lia.
  - set (pre := pre0 ++ [w0]) in *.
    assert (Hws' : ws = pre0 ++ w0 :: (w :: r)).
    { rewrite Hws. unfold pre. rewrite <- app_assoc. reflexivity. }
    pose proof (n_len pre0 w0 (w :: r) Hws') as Hlen. cbn [length] in Hlen.
    assert (HnnA : nonneg_all (pre0 ++ [w0])).
    { rewrite Hws in Hnn. apply nonneg_app in Hnn. tauto. }
    pose proof (cum_lt_snoc pre0 w0 HnnA) as Hlt. fold pre in Hlt.
    pose proof (cum_le pre) as Hc.
    assert (Hlp : length pre = (length pre0 + 1)%nat) by (unfold pre; rewrite app_length; reflexivity).
    cbn [fq_search].
    rewrite (trunc_small PB (N.of_nat (length pre))) by lia.
    unfold fq_cadd. change (scaled (F pre) scale fw + N.of_nat (length pre)) with (cum pre).
    destruct (N.ltb_spec (cum pre) (2 ^ PB)) as [_|Hov]; [|unfold fw in *; lia].
    destruct (N.ltb_spec q (cum pre)) as [Hq|Hq].
    + exists pre0, w0, (w :: r). split; [exact Hws'|].
      assert (Hsym : fq_wsub fq_USZ (N.of_nat (length pre)) 1 = N.of_nat (length pre0)).
      { rewrite fq_wsub_val by lia. lia. }
      rewrite Hsym.
      rewrite fq_wsub_val by (unfold fw in *; lia).
      unfold fq_nonzero. destruct (N.eqb_spec (cum pre - cum pre0) 0) as [He|_]; [lia|]. unfold right_of. fold pre. split; [reflexivity|]. split; [lia|]. intros; lia.
    + rewrite (trunc_small fq_USZ (N.of_nat (length pre) + 1)) by lia.
      rewrite <- F_snoc.
      replace (N.of_nat (length pre) + 1) with (N.of_nat (length (pre ++ [w])))
        by (rewrite app_length; cbn [length]; lia).
      destruct (IH pre w) as (A & w1 & B & HA & Hres & Hpos & Hcont).
      { rewrite Hws. rewrite <- !app_assoc. reflexivity. }
      exists A, w1, B. split; [exact HA|]. split; [exact Hres|]. split; [exact Hpos|].
      intros _ HqP. apply Hcont; lia.
Qed.

Theorem lazy_dec_spec (q : N) :
  exists s c p,
    fq_lazy_dec prec emax Hprec Hmax PB P m q = FqOk (s, c, p)
    /\ tbl_enc (tbl_ws [] ws) (Z.of_N s) = Some (c, p) /\ 0 < p
    /\ (fq_skip_ok prec emax Hprec Hmax PB P m q -> q < 2 ^ P -> c <= q < c + p).
Proof.
  destruct pow_bounds as [HPP HPU].
  assert (Hne : ws <> []) by (intros H; unfold n in Hn2; rewrite H in Hn2; cbn in Hn2; lia).
  unfold fq_lazy_dec, fq_skip_ok. cbn [lz_pmf lz_scale m].
  set (lb := fq_lower_bound prec emax Hprec Hmax PB m q).
  destruct (skip_spec lb ws [] pzero eq_refl Hne) as (mid & w & rest & Hws & Hskip).
  cbn [length app Nat.add] in Hskip. change (F []) with pzero in Hskip.
  change (N.of_nat 0) with 0 in Hskip.
  rewrite Hskip. fold n. rewrite free_weight_fw.
  pose proof (n_len mid w rest Hws) as Hlen.
  assert (Hsym : fq_wsub fq_USZ (N.of_nat (length mid + 1)) 1 = N.of_nat (length mid)).
  { rewrite fq_wsub_val by lia. lia. }
  rewrite Hsym, (trunc_small PB (N.of_nat (length mid))) by lia.
  unfold fq_cadd.
  change (scaled (F mid) scale fw + N.of_nat (length mid)) with (cum mid). pose proof (cum_le mid) as Hc. destruct (N.ltb_spec (cum mid) (2 ^ PB)) as [_|Hov]; [|unfold fw in *; lia].
  destruct (search_spec q rest mid w) as (A & w1 & B & HA & Hres & Hpos & Hcont).
  { rewrite Hws, <- app_assoc. reflexivity. }
  rewrite app_length in Hres. cbn [length] in Hres. rewrite Hres.
  exists (N.of_nat (length A)), (cum A), (right_of A w1 B - cum A).
  split; [reflexivity|]. split.
  { rewrite HA at 1. rewrite nat_N_Z.
    pose proof (tbl_enc_ws A [] w1 B) as H. cbn [length app Nat.add] in H. exact H. }
  split; [exact Hpos|].
  intros Hok HqP.
  replace (N.of_nat (length mid + 1) - 1) with (N.of_nat (length mid)) in Hok by lia.
  fold (cum mid) in Hok.
  specialize (Hcont Hok HqP). lia.
Qed.

Lemma cums_tbl (l : list float) cs :
  cums [] l = 0 :: cs -> tbl_of 0%Z 0 cs (2 ^ P) = tbl_ws [] l.
Proof.
  destruct l as [|w0 rem0]; [discriminate|].
  cbn [cums]. intros Hc. injection Hc as H0 Hcs. subst cs.
  pose proof (tbl_of_cums rem0 [] w0) as Ht. cbn [length] in Ht.
  rewrite H0 in Ht. exact Ht.
Qed.

Lemma eager_table_ws cs :
  cdf_ideal prec emax Hprec Hmax PB scale fw ws pzero 0 = 0 :: cs ->
  tbl_of 0%Z 0 cs (2 ^ P) = tbl_ws [] ws.
Proof.
  intros H. pose proof (cdf_ideal_cums ws []) as Hc. cbn [length] in Hc.
  change (F []) with pzero in Hc. change (N.of_nat 0) with 0 in Hc. rewrite H in Hc.
  apply cums_tbl. symmetry. exact Hc.
Qed.

End Lazy.

(* ------------------------------------------------------------------ summary *)
Section LazyMain.
Variables prec emax : Z.
Context (Hprec : Prec_gt_0 prec) (Hmax : Prec_lt_emax prec emax).
Variables PB P : N.
Hypothesis HP : 0 < P.
Hypothesis HPB : P <= PB.
Hypothesis HU : PB <= fq_USZ.

Theorem lazy_eq_eager ws norm :
  2 <= N.of_nat (length ws) -> N.of_nat (length ws) + 1 < 2 ^ P ->
  fq_all_finite_nonneg prec emax ws = true ->
  fq_norm_ok prec emax (normalization_of prec emax Hprec Hmax ws norm) = true ->
  exists t m,
    fq_eager_table prec emax Hprec Hmax PB P ws norm = FqOk t
    /\ fq_lazy_new prec emax Hprec Hmax PB P ws norm = FqOk m
    /\ wf_table P t
    /\ (forall s, fq_lazy_enc prec emax Hprec Hmax PB P m s = FqOk (tbl_enc t (Z.of_N s)))
    /\ (forall q, exists s c p,
           fq_lazy_dec prec emax Hprec Hmax PB P m q = FqOk (s, c, p)
           /\ tbl_enc t (Z.of_N s) = Some (c, p) /\ p <> 0
           /\ (q < 2 ^ P -> fq_skip_ok prec emax Hprec Hmax PB P m q -> tbl_dec t q = (Z.of_N s, c, p))).
Proof.
  intros H2 Hn Hall Hnorm.
  destruct (eager_explicit prec emax Hprec Hmax PB P HP HPB HU ws norm H2 Hn Hall Hnorm)
    as (scale & cs & Hprep & Hsc & Hfw & Hcs & Hinc & Hlen & Hcdf & Htab).
  destruct (fast_cdf_valid prec emax Hprec Hmax PB P HP HPB HU ws norm H2 Hn Hall Hnorm)
    as (cdf' & t' & _ & _ & _ & Htab' & Hwf & _).
  rewrite Htab in Htab'. inversion Htab' as [Ht']. clear Htab'.
  pose proof (fq_all_finite_nonneg_spec prec emax ws Hall) as Hnn.
  pose proof (eager_table_ws prec emax Hprec Hmax PB P HP HPB HU ws scale H2 Hn cs Hcs) as Hws.
  exists (tbl_of 0%Z 0 cs (2 ^ P)), {| lz_pmf := ws; lz_scale := scale |}.
  split; [exact Htab|]. split; [unfold fq_lazy_new; rewrite Hprep; reflexivity|].
  split; [rewrite Ht'; exact Hwf|].
  split.
  - intros s. rewrite Hws.
    apply (lazy_enc_eq_table prec emax Hprec Hmax PB P HP HPB HU ws scale H2 Hn Hnn Hsc).
  - intros q.
    destruct (lazy_dec_spec prec emax Hprec Hmax PB P HP HPB HU ws scale H2 Hn Hnn Hsc q)
      as (s & c & p & Hdec & Henc & Hpos & Hcont).
    exists s, c, p. rewrite Hws. split; [exact Hdec|]. split; [exact Henc|]. split; [lia|].
    intros HqP Hok. specialize (Hcont Hok HqP).
    rewrite <- Hws in Henc. rewrite <- Hws.
    assert (Hwf2 : wf_table P (tbl_of 0%Z 0 cs (2 ^ P))) by (rewrite Ht'; exact Hwf).
    pose proof (table_model_wf P _ Hwf2) as Hm.
    destruct (wfm_enc _ Hm (Z.of_N s) c p Henc) as (_ & _ & Hd).
    apply (Hd q). exact Hcont.
Qed.

End LazyMain.
