"""property entries delivered by the range family (merged by tools/merge_shared.py)"""
PROPS = {
    "C02": dict(
        coq=["Props.C02", "Props.RangeExtra:C02_range"],
        # quick counts sit just above multiples of 150 (the model-evaluation shard size of lib/common.py)
        fams=[("fam_range", "gen_carry", 304, 12000), ("fam_range", "gen_roundtrip", 152, 6000), ("fam_range", "gen_clear", 120, 5000),
              ("fam_range", "gen_rawparts", 60, 2000)],
        anchors=["src/stream/queue.rs", "src/backends.rs", "notes/range-coding.md"],
        rule="the encoder reached an Inverted situation at least once (>= 1 word held back for a pending carry; "
             "observed in the situation field of into_raw_parts after an encode_symbol)",
        level_text="Machine-checked Coq theorems (unbounded: every message, every Word/State width with State a "
                   "multiple of Word and >= 2*Word, every per-symbol PRECISION <= Probability bits <= Word bits, every "
                   "exactly invertible model) about a line-by-line Gallina model of RangeEncoder/RangeDecoder with "
                   "wrapping State arithmetic: the concrete encoder refines an exact big-number interval "
                   "specification (all eight transitions of notes/range-coding.md incl. seal while inverted), the "
                   "concrete decoder refines the exact-arithmetic decoder, hence decode(seal(encode(msg))) = msg, "
                   "empty message -> no words, maybe_exhausted after the last symbol; no panic site is reachable. "
                   "The model is tied to the current source by a differential check (harness debug+release vs "
                   "vm_compute) with a dedicated carry forcer, and the model is diffed against the big-number "
                   "specification on every case.",
        level_note="Trusted: Coq kernel + vm_compute; the hand-written model (Model/Range.v) corresponds to "
                   "queue.rs only as far as the sampled correspondence shows; type menu of the harness; no axioms "
                   "(Closed under the global context). usize is 64 bit; Vec/Cursor backends are lists.",
        technique="Coq proof (refinement of the wrapping-arithmetic coder to an exact big-number interval spec) + "
                  "model/implementation correspondence + model/spec differential check",
        design_ref="DESIGN.md section 4, C02 and Appendix A",
    ),
    "C11": dict(
        coq=["Props.C11"],
        fams=[("fam_range", "gen_suffix_rt", 304, 10000), ("fam_range", "gen_seal_steer", 302, 10000)],
        anchors=["src/stream/queue.rs", "notes/range-coding.md"],
        rule="a non-empty suffix was appended to the sealed words and at least one symbol was decoded from the "
             "concatenation",
        level_text="Machine-checked Coq theorems: for State = 2*Word (all presets) the sealed words followed by ANY "
                   "suffix decode to the message (unbounded in message, suffix, width, precision); for State > 2*Word "
                   "the statement is refuted by a vm_compute witness (known finding range_seal_wide_state) and the "
                   "exact characterisation of the failing inputs is proved (decoding succeeds iff the window value "
                   "pinned by the seal words and the first State/Word-2 suffix words lies below the interval's upper "
                   "end). Tied to the source by the differential correspondence check with steered seals and "
                   "0xFF/0x00/0x80/random suffixes.",
        level_note="Trusted: Coq kernel + vm_compute; hand-written model tied to queue.rs by sampled correspondence; "
                   "no axioms. Known finding (not fixed): range_seal_wide_state, see known_findings.txt.",
        technique="Coq proof (seal lemma on the big-number spec + decoder refinement) + refutation witness + "
                  "correspondence",
        design_ref="DESIGN.md section 4, C11 and Appendix A",
    ),
}
