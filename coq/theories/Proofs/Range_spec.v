(* Proofs/Range_spec.v -- theorems about the big-number specification alone
   (DESIGN.md Appendix A): invariants A1/A2, nesting A3, and the exact-arithmetic
   decoder inverts the exact-arithmetic encoder on every text whose window lies in the
   final interval. *)
From CV Require Import Base.Bits Model.EModel Model.Range Model.RangeSpec Proofs.Range_base.
From Coq Require Import ZifyBool ZifyN.
Open Scope N_scope.
Set Default Timeout 30.

Section Spec.
Variable c : rcfg.
Hypothesis Hc : wf_rcfg c.

Local Notation W := (rWB c).
Local Notation SB := (rSB c).
Local Notation B := (Bw c).
Local Notation T := (Tw c).
Local Notation M := (Mw c).

(* A1 and A2 *)
Definition SInv (s : sstate) : Prop :=
  T <= sR s /\ sR s < M /\ sL s + sR s <= M * Bp W (sk s).

Definition step_ok (x : N * N * N) : Prop :=
  let '(P, cum, p) := x in prec_ok c P /\ wf_entry P cum p.

Lemma spec_init_inv : SInv (spec_init c).
Proof.
  unfold SInv, spec_init. cbn [sL sR sk]. fold M. rewrite Bp_0.
  pose proof (T_lt_M c Hc). lia.
Qed.

(* scale = R / 2^P *)
Lemma scale_bounds s P : SInv s -> prec_ok c P ->
  2 ^ (SB - W - P) <= sR s / 2 ^ P /\ sR s / 2 ^ P * 2 ^ P <= sR s /\ 0 < sR s / 2 ^ P.
Proof.
  intros (HT & HM & _) HP.
  pose proof (T_split_P c Hc P HP) as ET.
  pose proof (pow2_pos P) as HP0. pose proof (pow2_pos (SB - W - P)) as HK.
  assert (H1 : 2 ^ (SB - W - P) <= sR s / 2 ^ P).
  { apply div_ge_lower; [assumption|]. rewrite <- ET. assumption. }
  split; [assumption|]. split; [|lia].
  rewrite N.mul_comm. apply N.mul_div_le. lia.
Qed.

(* the two shapes of a step, uniformly: d = 1 iff a renormalisation happened *)
Lemma spec_step_shape s P cum p :
  let sc := sR s / 2 ^ P in
  exists d : nat,
    (d = 0%nat /\ T <= sc * p \/ d = 1%nat /\ sc * p < T) /\
    sL (spec_step c P cum p s) = (sL s + sc * cum) * Bp W d /\
    sR (spec_step c P cum p s) = sc * p * Bp W d /\
    sk (spec_step c P cum p s) = (sk s + d)%nat.
Proof.
  intros sc. unfold spec_step. fold sc. fold T.
  destruct (N.ltb_spec (sc * p) T) as [Hlt|Hge].
  - exists 1%nat. cbn [sL sR sk]. rewrite Bp_1.
    split; [right; split; [reflexivity|assumption]|]. repeat split; lia.
  - exists 0%nat. cbn [sL sR sk]. rewrite Bp_0.
    split; [left; split; [reflexivity|assumption]|]. repeat split; lia.
Qed.

Lemma spec_step_inv s P cum p :
  SInv s -> step_ok (P, cum, p) -> SInv (spec_step c P cum p s).
Proof.
  intros Hs [HP [Hp Hcp]].
  destruct (scale_bounds s P Hs HP) as (Hsc1 & Hsc2 & Hsc0).
  destruct Hs as (HT & HM & HA2).
  destruct (spec_step_shape s P cum p) as (d & Hd & EL & ER & Ek).
  set (sc := sR s / 2 ^ P) in *.
  unfold SInv. rewrite EL, ER, Ek, Bp_add.
  pose proof (M_eq_TB c Hc) as EM. pose proof (T_pos c) as HTp.
  pose proof (Bp_pos W (sk s)) as HBk.
  assert (Hscp : sc * p <= sR s) by nia.
  assert (Hsum : sc * cum + sc * p <= sR s) by nia.
  destruct Hd as [[-> Hge]|[-> Hlt]].
  - rewrite Bp_0, !N.mul_1_r. lia.
  - rewrite Bp_1. fold B.
    pose proof (T_split_P c Hc P HP) as ET.
    pose proof (powP_le_B c Hc P HP) as HPB.
    pose proof (B_pos c) as HB.
    assert (Hlow : T <= sc * p * B).
    { rewrite ET. transitivity (sc * 2 ^ P); [apply N.mul_le_mono_r; assumption|].
      replace (sc * p * B) with (sc * (p * B)) by lia. apply N.mul_le_mono_l.
      clear - Hp HPB. pnia. }
    split; [assumption|]. split.
    + rewrite EM. apply N.mul_lt_mono_pos_r; assumption.
    + replace (M * (Bp W (sk s) * B)) with (M * Bp W (sk s) * B) by lia.
      rewrite <- N.mul_add_distr_r. apply N.mul_le_mono_r. lia.
Qed.

(* the range never returns to its initial value 2^SB - 1 *)
Lemma spec_step_not_initial s P cum p :
  SInv s -> step_ok (P, cum, p) -> sR (spec_step c P cum p s) <> M - 1.
Proof.
  intros Hs [HP [Hp Hcp]].
  destruct (scale_bounds s P Hs HP) as (Hsc1 & Hsc2 & Hsc0).
  destruct Hs as (HT & HM & HA2).
  destruct (spec_step_shape s P cum p) as (d & Hd & EL & ER & Ek).
  set (sc := sR s / 2 ^ P) in *. rewrite ER.
  pose proof (powP_ge2 c P HP) as HP2.
  destruct Hd as [[-> Hge]|[-> Hlt]].
  - rewrite Bp_0.
    destruct (N.eq_dec p (2 ^ P)) as [->|Hne].
    + (* sc * 2^P is even, M - 1 is odd *)
      intros E.
      assert (Hev : (sc * 2 ^ P * 1) mod 2 = 0).
      { destruct HP as [HP0 _].
        replace P with (1 + (P - 1)) by lia. rewrite N.pow_add_r. change (2 ^ 1) with 2.
        replace (sc * (2 * 2 ^ (P - 1)) * 1) with (0 + (sc * 2 ^ (P - 1)) * 2) by lia.
        rewrite N.mod_add by lia. reflexivity. }
      rewrite E in Hev.
      assert (Hodd : (M - 1) mod 2 = 1).
      { unfold Mw. pose proof (W_pos c Hc). pose proof (W_le_S c Hc).
        replace SB with (1 + (SB - 1)) by lia. rewrite N.pow_add_r. change (2 ^ 1) with 2.
        pose proof (pow2_pos (SB - 1)).
        replace (2 * 2 ^ (SB - 1) - 1) with (1 + (2 ^ (SB - 1) - 1) * 2) by lia.
        rewrite N.mod_add by lia. reflexivity. }
      lia.
    + assert (p < 2 ^ P) by lia. nia.
  - rewrite Bp_1. fold B. intros E.
    (* a multiple of B = 2^W is even *)
    assert (Hev : (sc * p * B) mod 2 = 0).
    { unfold Bw. pose proof (W_pos c Hc).
      replace W with (1 + (W - 1)) by lia. rewrite N.pow_add_r. change (2 ^ 1) with 2.
      replace (sc * p * (2 * 2 ^ (W - 1))) with (0 + (sc * p * 2 ^ (W - 1)) * 2) by lia.
      rewrite N.mod_add by lia. reflexivity. }
    rewrite E in Hev.
    assert (Hodd : (M - 1) mod 2 = 1).
    { unfold Mw. pose proof (W_pos c Hc). pose proof (W_le_S c Hc).
      replace SB with (1 + (SB - 1)) by lia. rewrite N.pow_add_r. change (2 ^ 1) with 2.
      pose proof (pow2_pos (SB - 1)).
      replace (2 * 2 ^ (SB - 1) - 1) with (1 + (2 ^ (SB - 1) - 1) * 2) by lia.
      rewrite N.mod_add by lia. reflexivity. }
    lia.
Qed.

(* A3 for one step, as equalities: the new interval IS the symbol's sub-interval *)
Lemma spec_step_nest s P cum p :
  let sc := sR s / 2 ^ P in
  exists d : nat,
    sk (spec_step c P cum p s) = (sk s + d)%nat /\
    sL (spec_step c P cum p s) = (sL s + sc * cum) * Bp W d /\
    sL (spec_step c P cum p s) + sR (spec_step c P cum p s) = (sL s + sc * (cum + p)) * Bp W d.
Proof.
  intros sc. destruct (spec_step_shape s P cum p) as (d & _ & EL & ER & Ek).
  exists d. fold sc in EL, ER. rewrite EL, ER, Ek. repeat split; lia.
Qed.

Lemma spec_run_inv l : forall s, SInv s -> Forall step_ok l -> SInv (spec_run c l s).
Proof.
  induction l as [|[[P cum] p] r IH]; intros s Hs Hl; [exact Hs|].
  inversion Hl as [|? ? H1 Hr]; subst. cbn [spec_run].
  apply IH; [|assumption]. apply spec_step_inv; assumption.
Qed.

(* A3: nesting along a run *)
Lemma spec_run_nest l : forall s, SInv s -> Forall step_ok l ->
  exists d : nat,
    sk (spec_run c l s) = (sk s + d)%nat /\ (d <= length l)%nat /\
    sL s * Bp W d <= sL (spec_run c l s) /\
    sL (spec_run c l s) + sR (spec_run c l s) <= (sL s + sR s) * Bp W d.
Proof.
  induction l as [|[[P cum] p] r IH]; intros s Hs Hl.
  - exists 0%nat. cbn [spec_run length]. rewrite Bp_0. repeat split; lia.
  - inversion Hl as [|? ? H1 Hr]; subst. cbn [spec_run length].
    pose proof (spec_step_inv s P cum p Hs H1) as Hs1.
    destruct (IH _ Hs1 Hr) as (d2 & Ek2 & Hd2 & HL2 & HU2).
    destruct (spec_step_shape s P cum p) as (d1 & Hd1 & EL & ER & Ek).
    destruct H1 as [HP [Hp Hcp]].
    destruct (scale_bounds s P Hs HP) as (_ & Hsc2 & _).
    set (sc := sR s / 2 ^ P) in *.
    exists (d1 + d2)%nat. rewrite Ek2, Ek.
    split; [lia|]. split; [destruct Hd1 as [[-> _]|[-> _]]; lia|].
    rewrite EL in HL2. rewrite EL, ER in HU2. rewrite Bp_add.
    pose proof (Bp_pos W d1). pose proof (Bp_pos W d2).
    assert (Hsum : sc * cum + sc * p <= sR s) by (clear - Hsc2 Hcp; nia).
    split.
    + etransitivity; [|exact HL2]. rewrite N.mul_assoc.
      apply N.mul_le_mono_r, N.mul_le_mono_r. lia.
    + etransitivity; [exact HU2|]. rewrite <- N.mul_add_distr_r, N.mul_assoc.
      apply N.mul_le_mono_r, N.mul_le_mono_r. lia.
Qed.

Lemma spec_run_app l1 l2 s : spec_run c (l1 ++ l2) s = spec_run c l2 (spec_run c l1 s).
Proof. revert s. induction l1 as [|[[P cum] p] r IH]; intros s; cbn [app spec_run]; auto. Qed.

(* ---------- the window of a text ---------- *)
Lemma window_prefix t s s' d : text_ok W t -> sk s' = (sk s + d)%nat ->
  spec_window c t s = spec_window c t s' / Bp W d.
Proof.
  intros Ht Ek. unfold spec_window. rewrite Ek.
  replace (sk s + d + wps c)%nat with ((sk s + wps c) + d)%nat by lia.
  symmetry. apply tval_prefix. assumption.
Qed.

Lemma window_step t s s' : text_ok W t -> sk s' = Datatypes.S (sk s) ->
  spec_window c t s' = spec_window c t s * B + nth (sk s + wps c) t 0.
Proof.
  intros Ht Ek. unfold spec_window. rewrite Ek.
  replace (Datatypes.S (sk s) + wps c)%nat with (Datatypes.S (sk s + wps c)) by lia.
  apply tval_S.
Qed.

(* ---------- one decoding step ---------- *)

(* if the window lies in the sub-interval of (cum, p), the quantile lies in [cum, cum+p) *)
Lemma quantile_in s P cum p X :
  SInv s -> prec_ok c P -> wf_entry P cum p ->
  let sc := sR s / 2 ^ P in
  sL s + sc * cum <= X -> X < sL s + sc * (cum + p) ->
  cum <= (X - sL s) / sc < cum + p.
Proof.
  intros Hs HP [Hp Hcp] sc H1 H2.
  destruct (scale_bounds s P Hs HP) as (_ & _ & Hsc0). fold sc in Hsc0.
  apply div_sandwich; [assumption| |]; lia.
Qed.

(* and conversely: a quantile in [cum, cum+p) pins the window into the sub-interval *)
Lemma quantile_out s P cum p X :
  SInv s -> prec_ok c P -> sL s <= X ->
  let sc := sR s / 2 ^ P in
  cum <= (X - sL s) / sc < cum + p ->
  sL s + sc * cum <= X /\ X < sL s + sc * (cum + p).
Proof.
  intros Hs HP HX sc [H1 H2].
  destruct (scale_bounds s P Hs HP) as (_ & _ & Hsc0). fold sc in Hsc0.
  pose proof (N.div_mod (X - sL s) sc ltac:(lia)) as E.
  pose proof (N.mod_lt (X - sL s) sc ltac:(lia)) as Hr.
  split; nia.
Qed.

Lemma spec_decode_correct m x cum p t s :
  SInv s -> model_ok c m -> em_enc m x = Some (cum, p) ->
  let sc := sR s / 2 ^ em_prec m in
  sL s + sc * cum <= spec_window c t s -> spec_window c t s < sL s + sc * (cum + p) ->
  spec_decode c m t s = Some (x, spec_step c (em_prec m) cum p s).
Proof.
  intros Hs [Hm HPB] Henc sc H1 H2.
  destruct (wfm_enc m Hm x cum p Henc) as (Hwf & Hplt & Hdec).
  assert (HP : prec_ok c (em_prec m)) by (split; [apply (wfm_prec m Hm)|assumption]).
  pose proof (quantile_in s (em_prec m) cum p _ Hs HP Hwf H1 H2) as Hq.
  unfold spec_decode, spec_quantile. subst sc. cbv zeta in Hq.
  set (sc := sR s / 2 ^ em_prec m) in *.
  destruct Hwf as [Hp Hcp].
  destruct (N.leb_spec (2 ^ em_prec m) ((spec_window c t s - sL s) / sc)) as [Hbad|_]; [lia|].
  rewrite (Hdec _ Hq). reflexivity.
Qed.

(* whatever is decoded, the window stays inside the new interval (decoder invariant) *)
Lemma spec_decode_inv m t s x s' :
  SInv s -> model_ok c m -> text_ok W t ->
  sL s <= spec_window c t s ->
  spec_decode c m t s = Some (x, s') ->
  SInv s' /\ em_enc m x <> None /\
  sL s' <= spec_window c t s' /\ spec_window c t s' < sL s' + sR s'.
Proof.
  intros Hs [Hm HPB] Ht HX. unfold spec_decode, spec_quantile.
  set (P := em_prec m). set (sc := sR s / 2 ^ P).
  assert (HP : prec_ok c P) by (split; [apply (wfm_prec m Hm)|assumption]).
  destruct (N.leb_spec (2 ^ P) ((spec_window c t s - sL s) / sc)) as [|Hq]; [discriminate|].
  pose proof (wfm_dec m Hm _ Hq) as Hd.
  destruct (em_dec m ((spec_window c t s - sL s) / sc)) as [[y cum] p].
  destruct Hd as [Henc Hrange]. intros E. inversion E; subst y s'. clear E.
  destruct (wfm_enc m Hm x cum p Henc) as (Hwf & _ & _).
  assert (Hok : step_ok (P, cum, p)) by (split; assumption).
  split; [apply spec_step_inv; assumption|].
  split; [rewrite Henc; discriminate|].
  destruct (quantile_out s P cum p _ Hs HP HX Hrange) as [H1 H2]. fold sc in H1, H2.
  destruct (spec_step_shape s P cum p) as (d & Hd & EL & ER & Ek). fold P sc in EL, ER.
  rewrite EL, ER.
  destruct Hd as [[-> _]|[-> _]].
  - rewrite Bp_0.
    assert (EW : spec_window c t (spec_step c P cum p s) = spec_window c t s).
    { unfold spec_window. rewrite Ek, Nat.add_0_r. reflexivity. }
    rewrite EW. split; nia.
  - rewrite Bp_1. fold B.
    rewrite (window_step t s _ Ht) by (rewrite Ek; lia).
    pose proof (text_nth W t (sk s + wps c) Ht) as Hn. fold B in Hn.
    split; nia.
Qed.

(* InvalidData: exactly when the window lies in the unreachable tail of the interval *)
Lemma spec_decode_none m t s :
  SInv s -> model_ok c m -> sL s <= spec_window c t s ->
  spec_decode c m t s = None ->
  sL s + sR s / 2 ^ em_prec m * 2 ^ em_prec m <= spec_window c t s.
Proof.
  intros Hs [Hm HPB] HX. unfold spec_decode, spec_quantile.
  set (P := em_prec m). set (sc := sR s / 2 ^ P).
  assert (HP : prec_ok c P) by (split; [apply (wfm_prec m Hm)|assumption]).
  destruct (scale_bounds s P Hs HP) as (_ & _ & Hsc0). fold sc in Hsc0.
  destruct (N.leb_spec (2 ^ P) ((spec_window c t s - sL s) / sc)) as [Hq|Hq].
  - intros _.
    pose proof (N.div_mod (spec_window c t s - sL s) sc ltac:(lia)) as E.
    nia.
  - destruct (em_dec m ((spec_window c t s - sL s) / sc)) as [[y cum] p]. discriminate.
Qed.

(* ---------- whole messages ---------- *)
Definition msg_ok (l : list (emodel * Z)) : Prop :=
  Forall (fun mx => model_ok c (fst mx) /\ em_enc (fst mx) (snd mx) <> None) l.

Lemma msg_triples_ok l : msg_ok l ->
  exists tr, msg_triples l = Some tr /\ Forall step_ok tr /\ length tr = length l.
Proof.
  induction 1 as [|[m x] r [[Hm HPB] Hx] _ (tr & Etr & Htr & Hlen)].
  - exists []. cbn. auto.
  - cbn [fst snd] in *. cbn [msg_triples]. rewrite Etr.
    destruct (em_enc m x) as [[cum p]|] eqn:Henc; [|congruence].
    exists ((em_prec m, cum, p) :: tr). split; [reflexivity|]. split; [|cbn; lia].
    constructor; [|assumption].
    destruct (wfm_enc m Hm x cum p Henc) as (Hwf & _ & _).
    split; [split; [apply (wfm_prec m Hm)|assumption]|assumption].
Qed.

(* the exact-arithmetic decoder inverts the exact-arithmetic encoder on every text whose
   final window lies in the final interval *)
Theorem spec_roundtrip l : forall tr s t,
  msg_ok l -> msg_triples l = Some tr -> SInv s -> text_ok W t ->
  let sf := spec_run c tr s in
  sL sf <= spec_window c t sf -> spec_window c t sf < sL sf + sR sf ->
  spec_decode_all c (msg_models l) t s = Some (msg_symbols l, sf).
Proof.
  induction l as [|[m x] r IH]; intros tr s t Hl Etr Hs Ht sf HL HU.
  - cbn in Etr. inversion Etr; subst tr. reflexivity.
  - inversion Hl as [|? ? [[Hm HPB] Hx] Hr]; subst. cbn [fst snd] in *.
    cbn [msg_triples] in Etr.
    destruct (em_enc m x) as [[cum p]|] eqn:Henc; [|congruence].
    destruct (msg_triples r) as [tr'|] eqn:Etr'; [|discriminate].
    inversion Etr; subst tr. clear Etr.
    destruct (msg_triples_ok r Hr) as (tr2 & Etr2 & Htr2 & _).
    rewrite Etr' in Etr2. inversion Etr2; subst tr2. clear Etr2.
    set (P := em_prec m) in *.
    destruct (wfm_enc m Hm x cum p Henc) as (Hwf & _ & _).
    assert (HP : prec_ok c P) by (split; [apply (wfm_prec m Hm)|assumption]).
    assert (Hok : step_ok (P, cum, p)) by (split; assumption).
    set (s1 := spec_step c P cum p s).
    assert (Hs1 : SInv s1) by (apply spec_step_inv; assumption).
    cbn [spec_run] in sf. fold s1 in sf.
    (* nesting from s1 to the final state *)
    destruct (spec_run_nest tr' s1 Hs1 Htr2) as (d2 & Ek2 & _ & HL2 & HU2). fold sf in Ek2, HL2, HU2.
    pose proof (window_prefix t s1 sf d2 Ht Ek2) as EW1.
    pose proof (Bp_pos W d2) as HB2.
    assert (HX1 : sL s1 <= spec_window c t s1 /\ spec_window c t s1 < sL s1 + sR s1).
    { rewrite EW1. apply div_sandwich; [assumption| |]; nia. }
    (* from s1 back to s *)
    destruct (spec_step_nest s P cum p) as (d1 & Ek1 & EL1 & EU1). fold s1 in Ek1, EL1, EU1.
    set (sc := sR s / 2 ^ P) in *.
    pose proof (window_prefix t s s1 d1 Ht Ek1) as EW0.
    pose proof (Bp_pos W d1) as HB1.
    assert (HX0 : sL s + sc * cum <= spec_window c t s /\ spec_window c t s < sL s + sc * (cum + p)).
    { rewrite EW0. apply div_sandwich; [assumption| |]; nia. }
    cbn [msg_models msg_symbols map fst snd spec_decode_all].
    rewrite (spec_decode_correct m x cum p t s Hs (conj Hm HPB) Henc (proj1 HX0) (proj2 HX0)).
    fold P s1.
    fold (msg_models r) (msg_symbols r).
    rewrite (IH tr' s1 t Hr eq_refl Hs1 Ht HL HU). reflexivity.
Qed.

End Spec.
