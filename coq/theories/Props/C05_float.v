(* Props/C05_float.v -- C05 (floating-point part): the lazily evaluated categorical model is
   bit-for-bit the eagerly tabulated one.  Statements only. *)
From Coq Require Import ZArith NArith List Bool.
From Flocq Require Import Core IEEE754.BinarySingleNaN.
From CV Require Import Base.Bits Model.EModel Model.FloatQ.
From CV Require Import Proofs.Table_lemmas Proofs.FloatQ_float Proofs.FloatQ_cdf Proofs.FloatQ_lazy.
Open Scope N_scope.

(* Encoder side, FULL: for every input the constructors accept (they accept the same inputs and
   the eager table is valid), LazyContiguousCategoricalEntropyModel::left_cumulative_and_probability
   returns for EVERY symbol (in or out of range) exactly what the eager model's table says:
   the prefix sum started from -0.0 (Iterator::sum) and the iterator state started from +0.0 give
   the same fixed-point numbers, the special-cased last symbol included, without overflow or a
   zero probability. *)
Theorem C05_lazy_enc_eq_eager :
  forall prec emax (Hprec : Prec_gt_0 prec) (Hmax : Prec_lt_emax prec emax) PB P
         (ws : list (binary_float prec emax)) (norm : option (binary_float prec emax)),
  0 < P -> P <= PB -> PB <= fq_USZ ->
  2 <= N.of_nat (length ws) -> N.of_nat (length ws) + 1 < 2 ^ P ->
  fq_all_finite_nonneg prec emax ws = true ->
  fq_norm_ok prec emax (match norm with Some x => x | None => fq_sum prec emax Hprec Hmax ws end) = true ->
  exists t m,
    fq_eager_table prec emax Hprec Hmax PB P ws norm = FqOk t
    /\ fq_lazy_new prec emax Hprec Hmax PB P ws norm = FqOk m
    /\ wf_table P t
    /\ forall s, fq_lazy_enc prec emax Hprec Hmax PB P m s = FqOk (tbl_enc t (Z.of_N s)).
Proof.
  intros prec emax Hprec Hmax PB P ws norm HP HPB HU H2 Hn Hall Hnorm.
  destruct (lazy_eq_eager prec emax Hprec Hmax PB P HP HPB HU ws norm H2 Hn Hall Hnorm)
    as (t & m & Ht & Hm & Hwf & Henc & _).
  exists t, m. auto.
Qed.

(* Decoder side.  FULL statement (not proved):
     forall q, q < 2^P -> exists s c p, fq_lazy_dec m q = FqOk (s, c, p) /\ tbl_dec t q = (s, c, p).
   PROVED (_partial): the same with the additional hypothesis [fq_skip_ok m q], i.e. that the
   division-free first loop (lower bound from [enlarged_scale]) stopped no later than the symbol
   owning q.  Everything else -- the second loop, the casts shared with the encoder, the special
   cased last symbol, totality, non-zero probabilities, and that the result is always an entry of
   the eager table -- is unconditional.  Missing: the floating-point error analysis showing that
   (1 + 2 eps) * scale over-estimates enough (it must also cover the rounding of the quantile to
   a float, which for f32 and PRECISION > 24 is coarser than one quantum). *)
Theorem C05_lazy_dec_eq_eager_partial :
  forall prec emax (Hprec : Prec_gt_0 prec) (Hmax : Prec_lt_emax prec emax) PB P
         (ws : list (binary_float prec emax)) (norm : option (binary_float prec emax)),
  0 < P -> P <= PB -> PB <= fq_USZ ->
  2 <= N.of_nat (length ws) -> N.of_nat (length ws) + 1 < 2 ^ P ->
  fq_all_finite_nonneg prec emax ws = true ->
  fq_norm_ok prec emax (match norm with Some x => x | None => fq_sum prec emax Hprec Hmax ws end) = true ->
  exists t m,
    fq_eager_table prec emax Hprec Hmax PB P ws norm = FqOk t
    /\ fq_lazy_new prec emax Hprec Hmax PB P ws norm = FqOk m
    /\ forall q, exists s c p,
         fq_lazy_dec prec emax Hprec Hmax PB P m q = FqOk (s, c, p)
         /\ tbl_enc t (Z.of_N s) = Some (c, p) /\ p <> 0
         /\ (q < 2 ^ P -> fq_skip_ok prec emax Hprec Hmax PB P m q -> tbl_dec t q = (Z.of_N s, c, p)).
Proof.
  intros prec emax Hprec Hmax PB P ws norm HP HPB HU H2 Hn Hall Hnorm.
  destruct (lazy_eq_eager prec emax Hprec Hmax PB P HP HPB HU ws norm H2 Hn Hall Hnorm)
    as (t & m & Ht & Hm & _ & _ & Hdec).
  exists t, m. auto.
Qed.

Check C05_lazy_enc_eq_eager :
  forall prec emax (Hprec : Prec_gt_0 prec) (Hmax : Prec_lt_emax prec emax) PB P
         (ws : list (binary_float prec emax)) (norm : option (binary_float prec emax)),
  0 < P -> P <= PB -> PB <= fq_USZ ->
  2 <= N.of_nat (length ws) -> N.of_nat (length ws) + 1 < 2 ^ P ->
  fq_all_finite_nonneg prec emax ws = true ->
  fq_norm_ok prec emax (match norm with Some x => x | None => fq_sum prec emax Hprec Hmax ws end) = true ->
  exists t m,
    fq_eager_table prec emax Hprec Hmax PB P ws norm = FqOk t
    /\ fq_lazy_new prec emax Hprec Hmax PB P ws norm = FqOk m
    /\ wf_table P t
    /\ forall s, fq_lazy_enc prec emax Hprec Hmax PB P m s = FqOk (tbl_enc t (Z.of_N s)).

Check C05_lazy_dec_eq_eager_partial :
  forall prec emax (Hprec : Prec_gt_0 prec) (Hmax : Prec_lt_emax prec emax) PB P
         (ws : list (binary_float prec emax)) (norm : option (binary_float prec emax)),
  0 < P -> P <= PB -> PB <= fq_USZ ->
  2 <= N.of_nat (length ws) -> N.of_nat (length ws) + 1 < 2 ^ P ->
  fq_all_finite_nonneg prec emax ws = true ->
  fq_norm_ok prec emax (match norm with Some x => x | None => fq_sum prec emax Hprec Hmax ws end) = true ->
  exists t m,
    fq_eager_table prec emax Hprec Hmax PB P ws norm = FqOk t
    /\ fq_lazy_new prec emax Hprec Hmax PB P ws norm = FqOk m
    /\ forall q, exists s c p,
         fq_lazy_dec prec emax Hprec Hmax PB P m q = FqOk (s, c, p)
         /\ tbl_enc t (Z.of_N s) = Some (c, p) /\ p <> 0
         /\ (q < 2 ^ P -> fq_skip_ok prec emax Hprec Hmax PB P m q -> tbl_dec t q = (Z.of_N s, c, p)).

(* ---------------------------------------------------------------- examples (non-vacuity) *)

Definition ex_ws : list (binary_float 24 128) :=
  map fq_f32_of_bits [1101004800; 1079777437; 0; 1089773745; 1103749872; 2147483648; 8388608]%Z.
  (* 20.0, 3.439.., +0.0, 7.644.., 25.23.., -0.0, 1.17e-38 *)

Definition ex_lazy : fq_lazy 24 128 :=
  match fq_lazy_new 24 128 _ _ 16 12 ex_ws None with
  | FqOk m => m
  | _ => {| lz_pmf := []; lz_scale := B754_nan |}
  end.

Example ex_hypotheses :
  fq_all_finite_nonneg 24 128 ex_ws = true /\ fq_norm_ok 24 128 (fq_sum 24 128 _ _ ex_ws) = true
  /\ lz_pmf 24 128 ex_lazy = ex_ws.
Proof. vm_compute. repeat split. Qed.

(* the skip-ahead hypothesis holds for a quantile deep inside the table and the loop really
   skipped symbols (it stopped at next_symbol = 5, i.e. at symbol 4) *)
Example ex_skip_ok : fq_skip_ok 24 128 _ _ 16 12 ex_lazy 3000.
Proof. vm_compute. discriminate. Qed.

Example ex_skip_skipped :
  let '(_, next_symbol, _, _) :=
    fq_skip 24 128 _ _ (fq_lower_bound 24 128 _ _ 16 ex_lazy 3000) ex_ws 0 (fq_zero 24 128) (fq_zero 24 128)
  in next_symbol = 5.
Proof. vm_compute. reflexivity. Qed.

(* ... and for EVERY quantile of this model the lazy decoder equals the eager table (finite sweep) *)
Example ex_sweep :
  match fq_eager_table 24 128 _ _ 16 12 ex_ws None with
  | FqOk t =>
      forallb (fun q => match fq_lazy_dec 24 128 _ _ 16 12 ex_lazy q with
                        | FqOk (s, c, p) =>
                            let '(s', c', p') := tbl_dec t q in
                            Z.eqb (Z.of_N s) s' && N.eqb c c' && N.eqb p p'
                        | _ => false
                        end) (map N.of_nat (seq 0 4096))
  | _ => false
  end = true.
Proof. vm_compute. reflexivity. Qed.

Print Assumptions C05_lazy_enc_eq_eager.
Print Assumptions C05_lazy_dec_eq_eager_partial.

(* ---------------------------------------------------------------- decoder side, FULL
   (Proofs/FloatQ_skip.v discharges [fq_skip_ok] for every format with 3 <= prec, 66 <= emax;
   f32 = (24,128) and f64 = (53,1024), the only instantiations in the Rust crate, qualify) *)
From CV Require Import Proofs.FloatQ_skip.

Theorem C05_lazy_dec_eq_eager :
  forall prec emax (Hprec : Prec_gt_0 prec) (Hmax : Prec_lt_emax prec emax),
  fq_format_ok prec emax = true ->
  forall PB P (ws : list (binary_float prec emax)) (norm : option (binary_float prec emax)),
  0 < P -> P <= PB -> PB <= fq_USZ ->
  2 <= N.of_nat (length ws) -> N.of_nat (length ws) + 1 < 2 ^ P ->
  fq_all_finite_nonneg prec emax ws = true ->
  fq_norm_ok prec emax (match norm with Some x => x | None => fq_sum prec emax Hprec Hmax ws end) = true ->
  exists t m,
    fq_eager_table prec emax Hprec Hmax PB P ws norm = FqOk t
    /\ fq_lazy_new prec emax Hprec Hmax PB P ws norm = FqOk m
    /\ forall q, q < 2 ^ P -> exists s c p,
         fq_lazy_dec prec emax Hprec Hmax PB P m q = FqOk (s, c, p)
         /\ tbl_dec t q = (Z.of_N s, c, p).
Proof.
  intros prec emax Hprec Hmax Hfmt PB P ws norm HP HPB HU H2 Hn Hall Hnorm.
  destruct (fq_format_ok_spec prec emax Hfmt) as [Hp3 He66].
  destruct (lazy_dec_eq_eager_full prec emax Hprec Hmax Hp3 He66 PB P HP HPB HU ws norm H2 Hn Hall Hnorm)
    as (t & m & Ht & Hm & _ & _ & Hdec).
  exists t, m. auto.
Qed.

Example C05_format_f32 : fq_format_ok 24 128 = true := eq_refl.
Example C05_format_f64 : fq_format_ok 53 1024 = true := eq_refl.

Print Assumptions C05_lazy_dec_eq_eager.
