(* Props/C15.v -- Huffman codebooks (src/symbol/huffman.rs, codebook traits of
   src/symbol/mod.rs).  Statements only; proofs live in Proofs/Huffman_*.v.

   All theorems are about the model Model/Huffman.v and hold for EVERY weight
   type W with comparison [wcmp], addition [wadd] and NaN test [wnan] (integers
   of any width and IEEE floats are instances), every usize width USZ and every
   weight list; the theorems about the order (ties, minima) assume that [wcmp]
   is a total preorder, which is what Rust's [Ord] contract demands.

   [built ws en dn] := both constructors succeeded on the weight list ws and
   returned the arrays en (encoder) and dn (decoder).  Symbols are usize
   values (N); n = length ws. *)
From CV Require Import Base.Bits Model.Huffman.
From CV Require Import Proofs.Huffman_heap Proofs.Huffman_build Proofs.Huffman_code
  Proofs.Huffman_kraft Proofs.Huffman_main Proofs.Huffman_opt.
From CV Require Import Model.HuffmanFloat Proofs.Huffman_float.
From Flocq Require Import IEEE754.Binary IEEE754.Bits.
From Coq Require Import Permutation.
Open Scope N_scope.

(* both constructions perform the same merges; the encoder array is the array of
   the decoder's merge sequence, and they fail in the same way *)
Theorem C15_huff_same_tree : forall W wcmp wadd wnan USZ (ws : list W),
  N.of_nat (length ws) <= usize_max USZ / 4 ->
  match dec_build W wcmp wadd wnan USZ ws with
  | Ok ms => enc_build W wcmp wadd wnan USZ ws = Ok (enc_of_merges (N.of_nat (length ws)) ms)
  | Err e => enc_build W wcmp wadd wnan USZ ws = Err e
  end.
Proof. exact build_same_tree. Qed.

(* the merge sequence is a full binary tree on the nodes 0 .. 2n-2 with root 2n-2 *)
Theorem C15_huff_full_binary_tree : forall W wcmp wadd wnan USZ (ws : list W) ms,
  dec_build W wcmp wadd wnan USZ ws = Ok ms -> tree_ok (N.of_nat (length ws)) ms.
Proof. exact dec_build_ok. Qed.

(* decode (prefix codeword of s ++ anything) = s and leaves the rest untouched *)
Theorem C15_huff_roundtrip : forall W wcmp wadd wnan USZ (ws : list W) en dn s,
  built W wcmp wadd wnan USZ ws en dn -> s < N.of_nat (length ws) ->
  exists c, enc_prefix en s = Ok c /\ forall rest, dec_symbol dn (c ++ rest) = Ok (s, rest).
Proof. exact main_roundtrip. Qed.

(* stack coder: suffix form pushed bit by bit, decoding pops it and nothing else *)
Theorem C15_huff_roundtrip_stack : forall W wcmp wadd wnan USZ (ws : list W) en dn s,
  built W wcmp wadd wnan USZ ws en dn -> s < N.of_nat (length ws) ->
  exists c, enc_suffix en s = Ok c
    /\ forall stack, dec_symbol dn (fold_left bitstack_write c stack) = Ok (s, stack).
Proof. exact main_roundtrip_stack. Qed.

Theorem C15_huff_prefix_free : forall W wcmp wadd wnan USZ (ws : list W) en dn s s' c c' r,
  built W wcmp wadd wnan USZ ws en dn ->
  enc_prefix en s = Ok c -> enc_prefix en s' = Ok c' -> c' = c ++ r -> s = s' /\ r = [].
Proof. exact main_prefix_free. Qed.

(* Kraft equality, scaled by 2^L for any L >= the array length (which bounds all
   codeword lengths): sum_{s<n} 2^(L - len s) = 2^L.  Also true for n = 1 (empty
   codeword). *)
Theorem C15_huff_kraft : forall W wcmp wadd wnan USZ (ws : list W) en dn (L : nat),
  built W wcmp wadd wnan USZ ws en dn -> (length en <= L)%nat ->
  nsum (map (fun s => 2 ^ N.of_nat (L - code_len en s)) (nseq 0 (length ws))) = 2 ^ N.of_nat L.
Proof. exact main_kraft. Qed.

Theorem C15_huff_prefix_is_reversed_suffix : forall W wcmp wadd wnan USZ (ws : list W) en dn s,
  built W wcmp wadd wnan USZ ws en dn ->
  enc_prefix en s = (bits <- enc_suffix en s ;; Ok (rev bits)).
Proof. exact main_prefix_rev_suffix. Qed.

(* symbols outside the alphabet: ImpossibleSymbol, in both forms *)
Theorem C15_huff_reject : forall W wcmp wadd wnan USZ (ws : list W) en dn s,
  built W wcmp wadd wnan USZ ws en dn -> N.of_nat (length ws) <= s ->
  enc_suffix en s = Err E_Impossible /\ enc_prefix en s = Err E_Impossible.
Proof. exact main_reject. Qed.

Theorem C15_huff_num_symbols : forall W wcmp wadd wnan USZ (ws : list W) en dn,
  built W wcmp wadd wnan USZ ws en dn ->
  enc_num_symbols en = N.of_nat (length ws) /\ dec_num_symbols dn = N.of_nat (length ws).
Proof. exact main_num_symbols. Qed.

(* NaN weights, and nothing else, give NanError -- in both constructors *)
Theorem C15_huff_nan : forall W wcmp wadd wnan USZ (ws : list W),
  (existsb wnan ws = true ->
     enc_build W wcmp wadd wnan USZ ws = Err E_NaN /\ dec_build W wcmp wadd wnan USZ ws = Err E_NaN)
  /\ (existsb wnan ws = false ->
     enc_build W wcmp wadd wnan USZ ws <> Err E_NaN /\ dec_build W wcmp wadd wnan USZ ws <> Err E_NaN).
Proof. exact main_nan. Qed.

(* integer weights whose total fits the weight type: both trees are built *)
Theorem C15_huff_int_total : forall b USZ ws,
  ws <> [] -> N.of_nat (length ws) <= usize_max USZ / 4 -> nsum ws < 2 ^ b ->
  exists en dn, enc_build_int b USZ ws = Ok en /\ dec_build_int b USZ ws = Ok dn.
Proof. exact build_int_total. Qed.

(* determinism / ties: BinaryHeap is modelled by "pop the minimum"; whatever
   order the heap stores its elements in (ANY permutation of the collected
   vector), both loops return the same arrays, because indices are unique and
   therefore no two heap elements compare Equal *)
Theorem C15_huff_heap_order_irrelevant : forall W (wcmp : W -> W -> comparison) wadd wnan USZ,
  (forall a b, wcmp b a = CompOpp (wcmp a b)) ->
  (forall a b c, wcmp a b <> Gt -> wcmp b c <> Gt -> wcmp a c <> Gt) ->
  forall ws heap' f, Permutation (enumerate W 0 ws) heap' ->
  let n := N.of_nat (length ws) in
  dec_loop W wcmp wadd wnan f heap' [] n = dec_loop W wcmp wadd wnan f (enumerate W 0 ws) [] n
  /\ (n <= usize_max USZ / 4 ->
      enc_loop W wcmp wadd wnan USZ f heap' (repeat 0 (N.to_nat (n * 2 - 1))) n
      = enc_loop W wcmp wadd wnan USZ f (enumerate W 0 ws) (repeat 0 (N.to_nat (n * 2 - 1))) n).
Proof. exact heap_order_irrelevant. Qed.

(* every merge joins the two minima of the current heap under the (weight, index)
   order: index0 <= index1 <= everything that stays in the heap *)
Theorem C15_huff_ties_by_index : forall W (wcmp : W -> W -> comparison) wadd wnan,
  (forall a b, wcmp b a = CompOpp (wcmp a b)) ->
  (forall a b c, wcmp a b <> Gt -> wcmp b c <> Gt -> wcmp a c <> Gt) ->
  forall h next i0 i1 h',
  merge_step W wcmp wadd wnan h next = Some (Ok (i0, i1, h')) ->
  exists p0 p1 h2 s,
    Permutation h ((p0, i0) :: (p1, i1) :: h2) /\ h' = (s, next) :: h2 /\ wadd p0 p1 = Some s
    /\ item_le W wcmp (p0, i0) (p1, i1) /\ Forall (item_le W wcmp (p1, i1)) h2.
Proof. exact merge_step_minimal. Qed.

(* the hypotheses on wcmp are met by the integer comparison *)
Theorem C15_int_order :
  (forall a b, N.compare b a = CompOpp (N.compare a b))
  /\ (forall a b c, N.compare a b <> Gt -> N.compare b c <> Gt -> N.compare a c <> Gt).
Proof. split; [exact ncmp_sym|exact ncmp_trans]. Qed.

(* ... and by the IEEE comparison of the float instance (any format; f32 and f64
   in particular), so the two theorems above apply to from_float_probabilities.
   [fcmp] is the order BinaryHeap sees; on NaN (never compared) it is completed to
   a total preorder.  Uses Flocq's Bcompare_correct: standard real-number axioms. *)
Theorem C15_float_order : forall prec emax,
  (forall a b, fcmp prec emax b a = CompOpp (fcmp prec emax a b))
  /\ (forall a b c, fcmp prec emax a b <> Gt -> fcmp prec emax b c <> Gt -> fcmp prec emax a c <> Gt).
Proof. intros. split; [apply fcmp_sym|apply fcmp_trans]. Qed.

(* instance of the heap-order theorem for f64 weights (f32: same with 24 128) *)
Theorem C15_huff_heap_order_irrelevant_f64 : forall USZ ws heap' f,
  Permutation (enumerate binary64 0 ws) heap' ->
  let n := N.of_nat (length ws) in
  dec_loop binary64 (fcmp 53 1024) f64add (is_nan 53 1024) f heap' [] n
  = dec_loop binary64 (fcmp 53 1024) f64add (is_nan 53 1024) f (enumerate binary64 0 ws) [] n
  /\ (n <= usize_max USZ / 4 ->
      enc_loop binary64 (fcmp 53 1024) f64add (is_nan 53 1024) USZ f heap' (repeat 0 (N.to_nat (n * 2 - 1))) n
      = enc_loop binary64 (fcmp 53 1024) f64add (is_nan 53 1024) USZ f (enumerate binary64 0 ws)
          (repeat 0 (N.to_nat (n * 2 - 1))) n).
Proof.
  intros USZ. apply heap_order_irrelevant; [apply fcmp_sym|apply fcmp_trans].
Qed.

(* ---------- C20 (Huffman sites): no unchecked index is out of bounds, no loop
   runs away.  The constructors fail only with NaN / panic / weight overflow /
   NaN-sum, never with UB_enc_build_0, UB_enc_build_1 or E_Fuel. *)
Theorem C20_huffman_build_sites : forall W wcmp wadd wnan USZ (ws : list W) e,
  (enc_build W wcmp wadd wnan USZ ws = Err e -> build_error e)
  /\ (dec_build W wcmp wadd wnan USZ ws = Err e -> build_error e).
Proof. intros. split; [apply enc_build_err|apply dec_build_err]. Qed.

(* encode: a result for every symbol of the alphabet, ImpossibleSymbol otherwise;
   never UB_enc_walk *)
Theorem C20_huffman_encode_sites : forall W wcmp wadd wnan USZ (ws : list W) en dn s,
  built W wcmp wadd wnan USZ ws en dn ->
  (s < N.of_nat (length ws) -> exists bits, enc_suffix en s = Ok bits)
  /\ (N.of_nat (length ws) <= s -> enc_suffix en s = Err E_Impossible).
Proof. exact main_encode_total. Qed.

(* decode of ANY bit sequence: a symbol of the alphabet or OutOfCompressedData;
   never UB_dec_walk *)
Theorem C20_huffman_decode_sites : forall W wcmp wadd wnan USZ (ws : list W) en dn src,
  built W wcmp wadd wnan USZ ws en dn ->
  (exists s rest, dec_symbol dn src = Ok (s, rest) /\ s < N.of_nat (length ws))
  \/ dec_symbol dn src = Err E_OutOfData.
Proof. exact main_decode_total. Qed.

(* ---------- optimality (integer weights; additions exact because they did not
   overflow): the total weighted length is minimal among ALL prefix codes
   c : symbol -> bit list on the same alphabet.  (For float weights the sums are
   rounded, so the statement is about the exact-arithmetic instance only; the
   structural theorems above hold for floats as well.) *)
Theorem C15_huff_optimal : forall b USZ ws en dn (c : N -> list bool),
  built N N.compare (nw_add b) nw_nan USZ ws en dn ->
  (forall s s' r, s < N.of_nat (length ws) -> s' < N.of_nat (length ws) -> c s' = c s ++ r -> s = s') ->
  nsum (map (fun x => fst x * N.of_nat (code_len en (snd x))) (enumerate N 0 ws))
  <= nsum (map (fun x => fst x * N.of_nat (length (c (snd x)))) (enumerate N 0 ws)).
Proof. exact huff_optimal. Qed.

(* ... and it equals the sum of the weights of the internal nodes in creation order
   ([sums_loop] = the sums pushed by the loop) *)
Theorem C15_huff_cost_identity : forall b USZ ws en dn,
  built N N.compare (nw_add b) nw_nan USZ ws en dn ->
  exists ss,
    sums_loop N.compare (nw_add b) nw_nan (S (length ws)) (enumerate N 0 ws) (N.of_nat (length ws)) = Ok ss
    /\ length ss = length dn
    /\ nsum (map (fun x => fst x * N.of_nat (code_len en (snd x))) (enumerate N 0 ws)) = nsum ss.
Proof. exact main_cost. Qed.

(* the Kraft inequality for arbitrary prefix-free word lists, used for optimality *)
Theorem C15_prefix_free_kraft_inequality : forall L cs,
  Forall (fun c => (length c <= L)%nat) cs -> pfree cs -> wsum L cs <= 2 ^ N.of_nat L.
Proof. exact kraft_ineq. Qed.

(* ---------- pins *)
Check C15_huff_roundtrip : forall W wcmp wadd wnan USZ (ws : list W) en dn s,
  built W wcmp wadd wnan USZ ws en dn -> s < N.of_nat (length ws) ->
  exists c, enc_prefix en s = Ok c /\ forall rest, dec_symbol dn (c ++ rest) = Ok (s, rest).
Check C15_huff_prefix_free : forall W wcmp wadd wnan USZ (ws : list W) en dn s s' c c' r,
  built W wcmp wadd wnan USZ ws en dn ->
  enc_prefix en s = Ok c -> enc_prefix en s' = Ok c' -> c' = c ++ r -> s = s' /\ r = [].
Check C15_huff_kraft : forall W wcmp wadd wnan USZ (ws : list W) en dn (L : nat),
  built W wcmp wadd wnan USZ ws en dn -> (length en <= L)%nat ->
  nsum (map (fun s => 2 ^ N.of_nat (L - code_len en s)) (nseq 0 (length ws))) = 2 ^ N.of_nat L.
Check C15_huff_reject : forall W wcmp wadd wnan USZ (ws : list W) en dn s,
  built W wcmp wadd wnan USZ ws en dn -> N.of_nat (length ws) <= s ->
  enc_suffix en s = Err E_Impossible /\ enc_prefix en s = Err E_Impossible.
Check C15_huff_same_tree : forall W wcmp wadd wnan USZ (ws : list W),
  N.of_nat (length ws) <= usize_max USZ / 4 ->
  match dec_build W wcmp wadd wnan USZ ws with
  | Ok ms => enc_build W wcmp wadd wnan USZ ws = Ok (enc_of_merges (N.of_nat (length ws)) ms)
  | Err e => enc_build W wcmp wadd wnan USZ ws = Err e
  end.
Check C20_huffman_decode_sites : forall W wcmp wadd wnan USZ (ws : list W) en dn src,
  built W wcmp wadd wnan USZ ws en dn ->
  (exists s rest, dec_symbol dn src = Ok (s, rest) /\ s < N.of_nat (length ws))
  \/ dec_symbol dn src = Err E_OutOfData.

Check C15_huff_optimal : forall b USZ ws en dn (c : N -> list bool),
  built N N.compare (nw_add b) nw_nan USZ ws en dn ->
  (forall s s' r, s < N.of_nat (length ws) -> s' < N.of_nat (length ws) -> c s' = c s ++ r -> s = s') ->
  nsum (map (fun x => fst x * N.of_nat (code_len en (snd x))) (enumerate N 0 ws))
  <= nsum (map (fun x => fst x * N.of_nat (length (c (snd x)))) (enumerate N 0 ws)).

(* ---------- non-vacuity: [built] is inhabited (the crate's own test vector), and
   the quantities the theorems speak about are the expected ones *)
Example ex_built :
  built N N.compare (nw_add 32) nw_nan 64 [2; 2; 4; 1; 1]
    [12; 13; 15; 10; 11; 14; 16; 17; 0] [(3, 4); (0, 1); (5, 2); (6, 7)].
Proof. split; vm_compute; reflexivity. Qed.

Example ex_codewords :
  map (enc_prefix [12; 13; 15; 10; 11; 14; 16; 17; 0]) [0; 1; 2; 3; 4; 5]
  = [Ok [false; false]; Ok [false; true]; Ok [true; true]; Ok [true; false; false];
     Ok [true; false; true]; Err E_Impossible].
Proof. vm_compute. reflexivity. Qed.

Example ex_kraft :
  nsum (map (fun s => 2 ^ N.of_nat (9 - code_len [12; 13; 15; 10; 11; 14; 16; 17; 0] s)) (nseq 0 5)) = 2 ^ 9.
Proof. vm_compute. reflexivity. Qed.

Example ex_cost :
  sums_loop N.compare (nw_add 32) nw_nan 6 (enumerate N 0 [2; 2; 4; 1; 1]) 5 = Ok [2; 4; 6; 10]
  /\ nsum (map (fun x => fst x * N.of_nat (code_len [12; 13; 15; 10; 11; 14; 16; 17; 0] (snd x)))
            (enumerate N 0 [2; 2; 4; 1; 1])) = 22.
Proof. split; vm_compute; reflexivity. Qed.

(* a competing prefix code satisfying the hypothesis of C15_huff_optimal: the
   3-bit binary representation of s; its cost 30 is above the optimum 22 *)
Definition ex_fixed3 (s : N) : list bool := [N.testbit s 2; N.testbit s 1; N.testbit s 0].
Example ex_competitor :
  (forall s s', In s [0; 1; 2; 3; 4] -> In s' [0; 1; 2; 3; 4] ->
     (exists r, ex_fixed3 s' = ex_fixed3 s ++ r) -> s = s')
  /\ nsum (map (fun x => fst x * N.of_nat (length (ex_fixed3 (snd x)))) (enumerate N 0 [2; 2; 4; 1; 1])) = 30.
Proof.
  split; [|vm_compute; reflexivity].
  intros s s' Hs Hs' [r Hr]. cbn in Hs, Hs'.
  repeat (destruct Hs as [<-|Hs]; [repeat (destruct Hs' as [<-|Hs']; [first [reflexivity|vm_compute in Hr; discriminate]|]); contradiction|]).
  contradiction.
Qed.

(* the crate's float test vector [0.19, 0.2, 0.41, 0.1, 0.1] as f32 bit patterns *)
Example ex_float :
  let ws := map b32_of_bits [1044549468; 1045220557; 1053944709; 1036831949; 1036831949]%Z in
  enc_build_f32 64 ws = Ok [12; 13; 16; 10; 11; 14; 15; 17; 0]
  /\ dec_build_f32 64 ws = Ok [(3, 4); (0, 1); (5, 6); (2, 7)].
Proof. split; vm_compute; reflexivity. Qed.

Example ex_single : built N N.compare (nw_add 8) nw_nan 64 [7] [0] [].
Proof. split; vm_compute; reflexivity. Qed.

Example ex_overflow : enc_build_int 8 64 [200; 100] = Err E_Overflow.
Proof. vm_compute. reflexivity. Qed.

Print Assumptions C15_huff_same_tree.
Print Assumptions C15_huff_full_binary_tree.
Print Assumptions C15_huff_roundtrip.
Print Assumptions C15_huff_roundtrip_stack.
Print Assumptions C15_huff_prefix_free.
Print Assumptions C15_huff_kraft.
Print Assumptions C15_huff_prefix_is_reversed_suffix.
Print Assumptions C15_huff_reject.
Print Assumptions C15_huff_num_symbols.
Print Assumptions C15_huff_nan.
Print Assumptions C15_huff_int_total.
Print Assumptions C15_huff_heap_order_irrelevant.
Print Assumptions C15_huff_ties_by_index.
Print Assumptions C15_int_order.
Print Assumptions C15_float_order.
Print Assumptions C15_huff_heap_order_irrelevant_f64.
Print Assumptions C20_huffman_build_sites.
Print Assumptions C20_huffman_encode_sites.
Print Assumptions C20_huffman_decode_sites.
Print Assumptions C15_huff_optimal.
Print Assumptions C15_huff_cost_identity.
Print Assumptions C15_prefix_free_kraft_inequality.
