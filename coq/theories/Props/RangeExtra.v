(* Props/RangeExtra.v -- the range-coder parts of C06, C07, C08, C09, C10, C12, C18.
   ONLY statements (for the lead to merge into Props/C06.v ... C18.v); proofs in
   Proofs/Range_roundtrip.v and Proofs/Range_extra.v. *)
From CV Require Import Base.Bits Model.EModel Model.Range Model.RangeSpec.
From CV Require Import Proofs.Table_lemmas Proofs.Range_base Proofs.Range_spec Proofs.Range_enc
                       Proofs.Range_dec Proofs.Range_roundtrip Proofs.Range_extra.
Open Scope N_scope.

(* ------------------------------------------------------------------ C06 *)
(* the words of the concrete encoder (held-back words, carry resolution, one- or two-word seal)
   are exactly the base-2^WB digits the big-number specification prescribes *)
Theorem C06_range_words : forall c msg,
  wf_rcfg c -> msg_ok c msg -> N.of_nat (length msg) < 2 ^ USZ ->
  exists tr, msg_triples msg = Some tr /\ range_compress c msg = ROk (spec_words c tr).
Proof. exact compress_words. Qed.

(* The README vector [0x1C31EFEB; 0x87B430DA] is Props/C06_range_doc.v (C06_readme_range), computed from
   the (cum, p) pairs pinned in Corr/Docvec_run.v, which the harness re-derives from the crate on every run. *)

(* ------------------------------------------------------------------ C07 *)
Theorem C07_range_seek : forall c l1 l2 sfx e1 d,
  wf_rcfg c -> msg_ok c (l1 ++ l2) -> N.of_nat (length (l1 ++ l2)) < 2 ^ USZ -> text_ok (rWB c) sfx ->
  ~ range_known_class c (l1 ++ l2) sfx ->
  renc_encode_all c l1 (renc_new c) = ROk e1 ->
  exists ws, range_compress c (l1 ++ l2) = ROk ws /\
    (d_buf d = ws ++ sfx ->
     exists d' d'',
       rdec_seek c (fst (renc_pos e1)) (fst (snd (renc_pos e1))) (snd (snd (renc_pos e1))) d = Some d' /\
       rdec_decode_all c (msg_models l2) d' = ROk (msg_symbols l2, d'') /\
       (sfx = [] -> rdec_maybe_exhausted c d'' = true)).
Proof. intros c l1 l2 sfx e1 d Hc. exact (seek_resumes c Hc l1 l2 sfx e1 d). Qed.

(* seeking to the final position of the encoder leaves the decoder possibly exhausted *)
Theorem C07_range_seek_end : forall c msg e d,
  wf_rcfg c -> msg_ok c msg -> N.of_nat (length msg) < 2 ^ USZ ->
  renc_encode_all c msg (renc_new c) = ROk e ->
  exists ws, range_compress c msg = ROk ws /\
    (d_buf d = ws ->
     exists d', rdec_seek c (fst (renc_pos e)) (fst (snd (renc_pos e))) (snd (snd (renc_pos e))) d = Some d' /\
                rdec_maybe_exhausted c d' = true).
Proof. exact seek_end. Qed.

Theorem C07_range_seek_refused : forall c pos lo ra d,
  N.of_nat (length (d_buf d)) < pos -> rdec_seek c pos lo ra d = None.
Proof. exact seek_refused. Qed.

(* the snapshot counts held-back words: position = digit position of the specification *)
Theorem C07_range_pos : forall c e s, wf_rcfg c -> Renc c e s ->
  renc_pos e = (N.of_nat (sk s), (sL s mod Mw c, sR s)).
Proof. intros c e s _. exact (renc_pos_spec c e s). Qed.

(* A snapshot stored as plain numbers can be rebuilt: RangeCoderState::new(lower, range) accepts
   the (lower, range) of EVERY reachable encoder state, in particular while words are held back
   for a carry (Inverted, where lower + range exceeds the state type) *)
Theorem C07_range_snapshot_rebuildable : forall c e s, wf_rcfg c -> Renc c e s -> SInv c s ->
  rstate_ok c (snd (snd (renc_pos e))) = true.
Proof.
  intros c e s Hc He Hs. rewrite (renc_pos_spec c e s He). cbn [snd].
  destruct Hs as (HT & _). unfold rstate_ok, Tw in *. rewrite shr_div.
  assert (H0 : 2 ^ (rSB c - rWB c) <> 0) by (apply N.pow_nonzero; discriminate).
  pose proof (N.div_le_mono _ _ _ H0 HT) as Hd. rewrite N.div_same in Hd by exact H0.
  destruct (N.eqb_spec (sR s / 2 ^ (rSB c - rWB c)) 0) as [E|_]; [rewrite E in Hd; exfalso; apply (N.nle_succ_0 0); exact Hd|reflexivity].
Qed.

(* RangeEncoder::clear (as repaired, finding F18): the cleared encoder IS a new encoder, so it
   refines the initial specification state and every theorem about fresh encoders (round trip,
   stream format, sizes) applies to messages encoded after clear() *)
Theorem C02_range_clear_is_new : forall c e, renc_clear c e = renc_new c.
Proof. reflexivity. Qed.

Theorem C02_range_clear_refines_init : forall c e, wf_rcfg c -> Renc c (renc_clear c e) (spec_init c).
Proof. intros c e Hc. rewrite C02_range_clear_is_new. apply renc_new_refines. Qed.

(* ------------------------------------------------------------------ C08 *)
Theorem C08_range_guard_pure : forall c e view e', sit_wf (e_sit e) ->
  renc_get_compressed c e = ROk (view, e') -> e' = e /\ renc_into_compressed c e = ROk view.
Proof. exact get_compressed_pure. Qed.

Theorem C08_range_guard_total : forall c e s, wf_rcfg c -> Renc c e s -> SInv c s ->
  exists view, renc_get_compressed c e = ROk (view, e) /\ renc_into_compressed c e = ROk view.
Proof. intros c e s Hc. exact (get_compressed_total c Hc e s). Qed.

(* ------------------------------------------------------------------ C09 *)
Theorem C09_range_impossible_rejected : forall c m x e,
  em_enc m x = None -> renc_encode_sym c m x e = RErrImpossible.
Proof. exact impossible_symbol_rejected. Qed.

Theorem C09_range_impossible_iff : forall c e s m x, wf_rcfg c ->
  Renc c e s -> SInv c s -> model_ok c m -> N.of_nat (sk s) + 1 < 2 ^ USZ ->
  (renc_encode_sym c m x e = RErrImpossible <-> em_enc m x = None).
Proof. intros c e s m x Hc. exact (impossible_iff c Hc e s m x). Qed.

(* ------------------------------------------------------------------ C10 *)
Theorem C10_range_decode_total : forall c m d, wf_rcfg c -> dec_type_ok c d -> model_ok c m ->
  (exists x d', rdec_decode c m d = ROk (x, d') /\ em_enc m x <> None /\ dec_type_ok c d' /\ d_buf d' = d_buf d)
  \/ rdec_decode c m d = RErrInvalidData.
Proof. intros c m d Hc. exact (rdec_decode_total c Hc m d). Qed.

Theorem C10_range_decode_all_total : forall c ws ms, wf_rcfg c -> Forall (model_ok c) ms ->
  (exists xs d', rdec_decode_all c ms (rdec_from_compressed c ws) = ROk (xs, d') /\
                 Forall2 (fun m x => em_enc m x <> None) ms xs)
  \/ rdec_decode_all c ms (rdec_from_compressed c ws) = RErrInvalidData.
Proof. exact decode_all_total_from_compressed. Qed.

(* ------------------------------------------------------------------ C12 *)
Theorem C12_range_shrink : forall c s P cum p, wf_rcfg c -> SInv c s -> step_ok c (P, cum, p) ->
  exists d : nat, sk (spec_step c P cum p s) = (sk s + d)%nat /\ (d <= 1)%nat /\
    sR s * (p * Kof c P) * Bp (rWB c) d <= sR (spec_step c P cum p s) * (2 ^ P * (Kof c P + 1)).
Proof. intros c s P cum p Hc. exact (range_shrink c Hc s P cum p). Qed.

Theorem C12_range_size : forall c msg,
  wf_rcfg c -> msg_ok c msg -> N.of_nat (length msg) < 2 ^ USZ ->
  exists tr ws, msg_triples msg = Some tr /\ range_compress c msg = ROk ws /\
    (length ws <= length msg + 2)%nat /\
    Bp (rWB c) (length ws) * (Mw c - 1) * prod_in c tr <= Bw c * Bw c * Mw c * prod_out c tr.
Proof. intros c msg Hc. exact (range_size c Hc msg). Qed.

Theorem C12_range_one_word_per_symbol : forall c e s P cum p e', wf_rcfg c ->
  Renc c e s -> SInv c s -> step_ok c (P, cum, p) -> N.of_nat (sk s) + 1 < 2 ^ USZ ->
  renc_encode c P cum p e = ROk e' ->
  fst (renc_pos e) <= fst (renc_pos e') <= fst (renc_pos e) + 1.
Proof. intros c e s P cum p e' Hc. exact (pos_advances c Hc e s P cum p e'). Qed.

(* The logarithmic corollary (bits <= 2*WB + 1 + information content + rounding overhead) is
   Props/C12_range_bits.v (C12_range_bits), over Coq's reals. *)

(* ------------------------------------------------------------------ C18 *)
Theorem C18_range_num_words : forall c e ws, sit_wf (e_sit e) ->
  renc_into_compressed c e = ROk ws -> renc_num_words c e = N.of_nat (length ws).
Proof. exact num_words_exact. Qed.

Theorem C18_range_num_bits : forall c e, renc_num_bits c e = rWB c * renc_num_words c e.
Proof. exact num_bits_exact. Qed.

Theorem C18_range_is_empty : forall c e ws, sit_wf (e_sit e) ->
  renc_into_compressed c e = ROk ws -> (renc_is_empty c e = true <-> ws = []).
Proof. exact is_empty_exact. Qed.

Theorem C18_range_not_exhausted : forall c d, d_rest d <> [] -> rdec_maybe_exhausted c d = false.
Proof. exact not_exhausted. Qed.

(* (exhaustion after the last symbol is part of C02_roundtrip and C07_range_seek) *)

(* ---- non-vacuity ---- *)
Definition x_cfg : rcfg := {| rWB := 8; rSB := 32; rPB := 8 |}.
Definition x_m : emodel := table_model 8 [(0%Z, 0, 1); (1%Z, 1, 254); (2%Z, 255, 1)].
Definition x_msg : list (emodel * Z) := [(x_m, 1%Z); (x_m, 0%Z); (x_m, 1%Z); (x_m, 2%Z)].
Example x_cfg_wf : wf_rcfg x_cfg.
Proof. unfold wf_rcfg, x_cfg; cbn. repeat split; lia. Qed.
Example x_msg_ok : msg_ok x_cfg x_msg.
Proof.
  unfold msg_ok, x_msg.
  repeat (apply Forall_cons;
          [split; [split; [apply table_model_wf, wf_tableb_spec; vm_compute; reflexivity|cbn; lia]
                  |cbn; discriminate]|]).
  apply Forall_nil.
Qed.
Example x_seek_instance :
  exists e1 ws d' d'',
    renc_encode_all x_cfg (firstn 2 x_msg) (renc_new x_cfg) = ROk e1 /\
    range_compress x_cfg x_msg = ROk ws /\
    rdec_seek x_cfg (fst (renc_pos e1)) (fst (snd (renc_pos e1))) (snd (snd (renc_pos e1)))
              (rdec_from_compressed x_cfg ws) = Some d' /\
    rdec_decode_all x_cfg (msg_models (skipn 2 x_msg)) d' = ROk (msg_symbols (skipn 2 x_msg), d'').
Proof. eexists _, _, _, _. repeat split; vm_compute; reflexivity. Qed.
Example x_garbage_invalid :
  rdec_decode x_cfg x_m (rdec_from_compressed x_cfg [255; 255; 255; 255]) = RErrInvalidData.
Proof. vm_compute. reflexivity. Qed.

Print Assumptions C06_range_words.
Print Assumptions C07_range_seek.
Print Assumptions C07_range_seek_end.
Print Assumptions C07_range_seek_refused.
Print Assumptions C07_range_pos.
Print Assumptions C07_range_snapshot_rebuildable.
Print Assumptions C02_range_clear_is_new.
Print Assumptions C02_range_clear_refines_init.
Print Assumptions C08_range_guard_pure.
Print Assumptions C08_range_guard_total.
Print Assumptions C09_range_impossible_rejected.
Print Assumptions C09_range_impossible_iff.
Print Assumptions C10_range_decode_total.
Print Assumptions C10_range_decode_all_total.
Print Assumptions C12_range_shrink.
Print Assumptions C12_range_size.
Print Assumptions C12_range_one_word_per_symbol.
Print Assumptions C18_range_num_words.
Print Assumptions C18_range_num_bits.
Print Assumptions C18_range_is_empty.
Print Assumptions C18_range_not_exhausted.
