(* Proofs/Bit_stack.v -- the stack coder refines a LIFO list of bits; len; raw-level
   push/pop, export/import and guard identities up to the normal form. *)
From CV Require Import Base.Bits Model.BitCoder Proofs.Bit_core.
Set Default Timeout 30.
Open Scope N_scope.

Section Stack.
Variable WB : N.
Hypothesis HWB : 0 < WB.

Notation wordbits := (flat_map (bits_desc (N.to_nat WB))).

(* ---------- shapes of the abstraction ---------- *)
Lemma abs_A b cw : abs_stack WB {| bk := b; cur := cw; mask := 0 |} = wordbits b.
Proof. reflexivity. Qed.

Lemma abs_B b cw k :
  abs_stack WB {| bk := b; cur := cw; mask := 2 ^ k |}
  = N.testbit cw k :: bits_desc (N.to_nat k) cw ++ wordbits b.
Proof.
  unfold abs_stack, cur_nbits. cbn [bk cur mask].
  rewrite pow2_eq_0, log2_pow2, bits_desc_succ. reflexivity.
Qed.

Lemma abs_B' b cw k :
  abs_stack WB {| bk := b; cur := cw; mask := 2 ^ k |}
  = bits_desc (S (N.to_nat k)) cw ++ wordbits b.
Proof. rewrite abs_B, bits_desc_succ. reflexivity. Qed.

Lemma to_nat_pred k : 0 < k -> N.to_nat k = S (N.to_nat (k - 1)).
Proof. intros. lia. Qed.

Lemma bits_desc_WB w :
  bits_desc (N.to_nat WB) w = N.testbit w (WB - 1) :: bits_desc (N.to_nat (WB - 1)) w.
Proof. rewrite (to_nat_pred WB HWB). apply bits_desc_succ. Qed.

Lemma inv_A b : Forall (fun w => w < 2 ^ WB) b -> bc_inv WB {| bk := b; cur := 0; mask := 0 |}.
Proof. intros H. split; [exact H|]. left. split; reflexivity. Qed.

Lemma inv_B b cw k :
  Forall (fun w => w < 2 ^ WB) b -> k < WB -> cw < 2 ^ (k + 1) ->
  bc_inv WB {| bk := b; cur := cw; mask := 2 ^ k |}.
Proof. intros H Hk Hc. split; [exact H|]. right. exists k. repeat split; assumption. Qed.

Lemma low_bits_eq a b k :
  a < 2 ^ k -> b < 2 ^ k -> (forall i, i < k -> N.testbit a i = N.testbit b i) -> a = b.
Proof.
  intros Ha Hb H. apply N.bits_inj. intros i.
  destruct (N.lt_ge_cases i k) as [Hi|Hi]; [apply H; assumption|].
  rewrite (proj1 (lt_pow2_bits a k) Ha), (proj1 (lt_pow2_bits b k) Hb) by assumption. reflexivity.
Qed.

(* ---------- reading from a word ---------- *)
(* the state after taking the bit under mask 2^k out of the word cw *)
Definition after_read (b : list N) (cw k : N) : bitc :=
  {| bk := b; cur := N.lxor cw (N.land cw (2 ^ k)); mask := shr (2 ^ k) 1 |}.

Lemma after_read_spec b cw k :
  Forall (fun w => w < 2 ^ WB) b -> k < WB -> cw < 2 ^ (k + 1) ->
  bc_inv WB (after_read b cw k)
  /\ abs_stack WB (after_read b cw k) = bits_desc (N.to_nat k) cw ++ wordbits b.
Proof.
  intros Hb Hk Hc. unfold after_read.
  destruct (clear_bit cw k Hc) as [Hlt Hlow].
  destruct (N.eq_dec k 0) as [->|Hk0].
  - rewrite shr_pow2_0.
    assert (N.lxor cw (N.land cw (2 ^ 0)) = 0) as ->
      by (assert (2 ^ 0 = 1) as E1 by reflexivity; rewrite E1 in Hlt at 2; lia).
    split; [apply inv_A; assumption|]. rewrite abs_A. reflexivity.
  - rewrite shr_pow2 by lia. split.
    + apply inv_B; [assumption|lia|]. replace (k - 1 + 1) with k by lia. exact Hlt.
    + rewrite abs_B'. f_equal.
      rewrite <- to_nat_pred by lia.
      apply bits_desc_ext. intros i Hi. apply Hlow. lia.
Qed.

Lemma st_read_bit_B b cw k :
  st_read_bit WB {| bk := b; cur := cw; mask := 2 ^ k |}
  = (Some (N.testbit cw k), after_read b cw k).
Proof.
  unfold st_read_bit. cbn [bk cur mask]. rewrite pow2_eq_0, eg_bit_pow2. reflexivity.
Qed.

Lemma st_read_bit_A_cons w b cw :
  st_read_bit WB {| bk := w :: b; cur := cw; mask := 0 |}
  = (Some (N.testbit w (WB - 1)), after_read b w (WB - 1)).
Proof.
  unfold st_read_bit. cbn [bk cur mask]. rewrite N.eqb_refl, shl_one by lia.
  rewrite eg_bit_pow2. reflexivity.
Qed.

Lemma st_read_bit_A_nil cw :
  st_read_bit WB {| bk := []; cur := cw; mask := 0 |} = (None, {| bk := []; cur := cw; mask := 0 |}).
Proof. reflexivity. Qed.

(* LIFO: read_bit is uncons on the abstraction, None exactly on the empty stack *)
Lemma st_read_bit_spec c :
  bc_inv WB c ->
  match abs_stack WB c with
  | [] => st_read_bit WB c = (None, c)
  | b :: r => exists c', st_read_bit WB c = (Some b, c') /\ bc_inv WB c' /\ abs_stack WB c' = r
  end.
Proof.
  destruct c as [b cw m]. intros [Hb [[Hm Hc]|(k & Hk & Hm & Hc)]]; cbn [bk cur mask] in *; subst.
  - rewrite abs_A. destruct b as [|w b].
    + cbn [flat_map]. apply st_read_bit_A_nil.
    + cbn [flat_map]. rewrite bits_desc_WB.
      cbn [app]. eexists. split; [apply st_read_bit_A_cons|].
      inversion Hb; subst.
      apply after_read_spec; [assumption|lia|].
      replace (WB - 1 + 1) with WB by lia. assumption.
  - rewrite abs_B. eexists. split; [apply st_read_bit_B|].
    apply after_read_spec; assumption.
Qed.

(* ---------- writing ---------- *)
Lemma bc_write_bit_A bit b :
  bc_write_bit WB bit {| bk := b; cur := 0; mask := 0 |}
  = {| bk := b; cur := if bit then 1 else 0; mask := 2 ^ 0 |}.
Proof. unfold bc_write_bit. cbn [bk cur mask]. rewrite shl_zero. reflexivity. Qed.

Lemma bc_write_bit_B_mid bit b cw k :
  k + 1 < WB ->
  bc_write_bit WB bit {| bk := b; cur := cw; mask := 2 ^ k |}
  = {| bk := b; cur := N.lor cw (if bit then 2 ^ (k + 1) else 0); mask := 2 ^ (k + 1) |}.
Proof.
  intros Hk. unfold bc_write_bit. cbn [bk cur mask].
  rewrite shl_pow2 by assumption. rewrite pow2_eq_0. reflexivity.
Qed.

Lemma bc_write_bit_B_top bit b cw k :
  k + 1 = WB ->
  bc_write_bit WB bit {| bk := b; cur := cw; mask := 2 ^ k |}
  = {| bk := cw :: b; cur := if bit then 1 else 0; mask := 2 ^ 0 |}.
Proof.
  intros Hk. unfold bc_write_bit. cbn [bk cur mask].
  rewrite shl_pow2_top by assumption. rewrite pow2_eq_0. reflexivity.
Qed.

Lemma bit_word_lt (bit : bool) : (if bit then 1 else 0) < 2 ^ (0 + 1).
Proof. destruct bit; reflexivity. Qed.

Lemma bit_word_testbit (bit : bool) : N.testbit (if bit then 1 else 0) 0 = bit.
Proof. destruct bit; reflexivity. Qed.

(* write_bit is cons on the abstraction *)
Lemma bc_write_bit_spec bit c :
  bc_inv WB c ->
  bc_inv WB (bc_write_bit WB bit c) /\ abs_stack WB (bc_write_bit WB bit c) = bit :: abs_stack WB c.
Proof.
  destruct c as [b cw m]. intros [Hb [[Hm Hc]|(k & Hk & Hm & Hc)]]; cbn [bk cur mask] in *; subst.
  - rewrite bc_write_bit_A. split.
    + apply inv_B; [assumption|assumption|apply bit_word_lt].
    + rewrite abs_B, abs_A, bit_word_testbit. reflexivity.
  - destruct (N.eq_dec (k + 1) WB) as [Htop|Hmid].
    + rewrite bc_write_bit_B_top by assumption. split.
      * apply inv_B; [|assumption|apply bit_word_lt].
        constructor; [rewrite <- Htop|]; assumption.
      * rewrite abs_B, abs_B', bit_word_testbit. cbn [flat_map bits_desc app].
        replace (N.to_nat WB) with (S (N.to_nat k)) by lia. reflexivity.
    + rewrite bc_write_bit_B_mid by lia.
      destruct (set_bit cw (k + 1) bit Hc) as (Hlt & Htop & Hlow).
      split.
      * apply inv_B; [assumption|lia|assumption].
      * rewrite abs_B, abs_B', Htop. f_equal. f_equal.
        replace (N.to_nat (k + 1)) with (S (N.to_nat k)) by lia.
        apply bits_desc_ext. intros i Hi. apply Hlow. lia.
Qed.

Lemma bc_write_bits_spec bits c :
  bc_inv WB c ->
  bc_inv WB (bc_write_bits WB bits c)
  /\ abs_stack WB (bc_write_bits WB bits c) = rev bits ++ abs_stack WB c.
Proof.
  revert c. induction bits as [|bit r IH]; intros c Hinv.
  - split; [assumption|reflexivity].
  - cbn [bc_write_bits fold_left].
    destruct (bc_write_bit_spec bit c Hinv) as [Hi Ha].
    destruct (IH _ Hi) as [Hi' Ha'].
    split; [exact Hi'|].
    unfold bc_write_bits in Ha'. rewrite Ha', Ha. cbn [rev]. rewrite <- app_assoc. reflexivity.
Qed.

(* ---------- len ---------- *)
Lemma wordbits_length b : length (wordbits b) = (N.to_nat WB * length b)%nat.
Proof.
  induction b as [|w b IH]; cbn [flat_map length]; [lia|].
  rewrite app_length, bits_desc_length, IH. lia.
Qed.

Lemma bc_len_spec UB c : bc_inv WB c -> bc_len UB WB c = len_spec UB (abs_stack WB c).
Proof.
  destruct c as [b cw m]. intros [Hb [[Hm Hc]|(k & Hk & Hm & Hc)]]; cbn [bk cur mask] in *; subst.
  - unfold bc_len, len_spec, checked_mul, checked_add. cbn [bk cur mask].
    rewrite abs_A, wordbits_length. rewrite N.eqb_refl.
    replace (N.of_nat (N.to_nat WB * length b)) with (N.of_nat (length b) * WB) by lia.
    destruct (N.ltb_spec (N.of_nat (length b) * WB) (2 ^ UB)) as [H|H]; [|reflexivity].
    rewrite N.add_0_r. apply N.ltb_lt in H. rewrite H. reflexivity.
  - unfold bc_len, len_spec, checked_mul, checked_add. cbn [bk cur mask].
    rewrite abs_B'. rewrite app_length, bits_desc_length, wordbits_length.
    rewrite pow2_eq_0, ctz_pow2.
    replace (N.of_nat (S (N.to_nat k) + N.to_nat WB * length b)) with (N.of_nat (length b) * WB + (k + 1)) by lia.
    destruct (N.ltb_spec (N.of_nat (length b) * WB) (2 ^ UB)) as [H|H]; [reflexivity|].
    assert ((N.of_nat (length b) * WB + (k + 1) <? 2 ^ UB) = false) as -> by (apply N.ltb_ge; lia).
    reflexivity.
Qed.

Lemma bc_is_empty_spec c :
  bc_inv WB c -> bc_is_empty c = match abs_stack WB c with [] => true | _ => false end.
Proof.
  destruct c as [b cw m]. intros [Hb [[Hm Hc]|(k & Hk & Hm & Hc)]]; cbn [bk cur mask] in *; subst.
  - unfold bc_is_empty. cbn [bk mask]. rewrite abs_A, N.eqb_refl. cbn [andb].
    destruct b as [|w b]; [reflexivity|]. cbn [flat_map].
    rewrite bits_desc_WB. reflexivity.
  - unfold bc_is_empty. cbn [bk mask]. rewrite abs_B, pow2_eq_0. reflexivity.
Qed.

(* ---------- normal form ---------- *)
Lemma norm_A b cw : bc_norm WB {| bk := b; cur := cw; mask := 0 |} = {| bk := b; cur := cw; mask := 0 |}.
Proof.
  unfold bc_norm. cbn [mask]. assert (0 =? 2 ^ (WB - 1) = false) as ->; [|reflexivity].
  apply N.eqb_neq. pose proof (pow2_pos (WB - 1)). lia.
Qed.

Lemma norm_B_mid b cw k :
  k + 1 <> WB -> bc_norm WB {| bk := b; cur := cw; mask := 2 ^ k |} = {| bk := b; cur := cw; mask := 2 ^ k |}.
Proof.
  intros H. unfold bc_norm. cbn [mask].
  assert (2 ^ k =? 2 ^ (WB - 1) = false) as ->; [|reflexivity].
  apply N.eqb_neq. intros E. apply pow2_inj in E. lia.
Qed.

Lemma norm_B_top b cw k :
  k + 1 = WB -> bc_norm WB {| bk := b; cur := cw; mask := 2 ^ k |} = {| bk := cw :: b; cur := 0; mask := 0 |}.
Proof.
  intros H. unfold bc_norm. cbn [bk cur mask].
  replace (WB - 1) with k by lia. rewrite N.eqb_refl. reflexivity.
Qed.

Lemma bc_norm_spec c :
  bc_inv WB c -> bc_inv WB (bc_norm WB c) /\ abs_stack WB (bc_norm WB c) = abs_stack WB c.
Proof.
  destruct c as [b cw m]. intros [Hb [[Hm Hc]|(k & Hk & Hm & Hc)]]; cbn [bk cur mask] in *; subst.
  - rewrite norm_A. split; [apply inv_A; assumption|reflexivity].
  - destruct (N.eq_dec (k + 1) WB) as [Htop|Hmid].
    + rewrite norm_B_top by assumption. split.
      * apply inv_A. constructor; [rewrite <- Htop|]; assumption.
      * rewrite abs_A, abs_B'. cbn [flat_map]. replace (N.to_nat WB) with (S (N.to_nat k)) by lia. reflexivity.
    + rewrite norm_B_mid by assumption. split; [apply inv_B; assumption|reflexivity].
Qed.

Lemma bc_norm_idem c : bc_inv WB c -> bc_norm WB (bc_norm WB c) = bc_norm WB c.
Proof.
  destruct c as [b cw m]. intros [Hb [[Hm Hc]|(k & Hk & Hm & Hc)]]; cbn [bk cur mask] in *; subst.
  - rewrite !norm_A. reflexivity.
  - destruct (N.eq_dec (k + 1) WB) as [Htop|Hmid].
    + rewrite norm_B_top by assumption. apply norm_A.
    + rewrite !norm_B_mid by assumption. reflexivity.
Qed.

(* every operation sees only the normal form *)
Lemma write_norm bit c : bc_inv WB c -> bc_write_bit WB bit (bc_norm WB c) = bc_write_bit WB bit c.
Proof.
  destruct c as [b cw m]. intros [Hb [[Hm Hc]|(k & Hk & Hm & Hc)]]; cbn [bk cur mask] in *; subst.
  - rewrite norm_A. reflexivity.
  - destruct (N.eq_dec (k + 1) WB) as [Htop|Hmid].
    + rewrite norm_B_top, bc_write_bit_B_top by assumption. apply bc_write_bit_A.
    + rewrite norm_B_mid by assumption. reflexivity.
Qed.

Lemma read_norm c : bc_inv WB c ->
  fst (st_read_bit WB (bc_norm WB c)) = fst (st_read_bit WB c)
  /\ bc_norm WB (snd (st_read_bit WB (bc_norm WB c))) = bc_norm WB (snd (st_read_bit WB c)).
Proof.
  destruct c as [b cw m]. intros [Hb [[Hm Hc]|(k & Hk & Hm & Hc)]]; cbn [bk cur mask] in *; subst.
  - rewrite norm_A. split; reflexivity.
  - destruct (N.eq_dec (k + 1) WB) as [Htop|Hmid].
    + rewrite norm_B_top by assumption. rewrite st_read_bit_A_cons, st_read_bit_B.
      replace (WB - 1) with k by lia. split; reflexivity.
    + rewrite norm_B_mid by assumption. split; reflexivity.
Qed.

Lemma seal_norm c : bc_inv WB c -> st_seal WB (bc_norm WB c) = st_seal WB c.
Proof. intros H. unfold st_seal. rewrite write_norm by assumption. reflexivity. Qed.

Lemma len_norm UB c : bc_inv WB c -> bc_len UB WB (bc_norm WB c) = bc_len UB WB c.
Proof.
  intros H. destruct (bc_norm_spec c H) as [Hi Ha].
  rewrite !bc_len_spec by assumption. rewrite Ha. reflexivity.
Qed.

(* ---------- raw push / pop ---------- *)
Lemma st_push_pop_raw bit c :
  bc_inv WB c ->
  st_read_bit WB (bc_write_bit WB bit c) = (Some bit, bc_norm WB c).
Proof.
  destruct c as [b cw m]. intros [Hb [[Hm Hc]|(k & Hk & Hm & Hc)]]; cbn [bk cur mask] in *; subst.
  - rewrite bc_write_bit_A, st_read_bit_B, bit_word_testbit, norm_A.
    unfold after_read. rewrite shr_pow2_0. do 2 f_equal.
    destruct bit; reflexivity.
  - destruct (N.eq_dec (k + 1) WB) as [Htop|Hmid].
    + rewrite bc_write_bit_B_top, st_read_bit_B, bit_word_testbit, norm_B_top by assumption.
      unfold after_read. rewrite shr_pow2_0. do 2 f_equal. destruct bit; reflexivity.
    + rewrite bc_write_bit_B_mid, st_read_bit_B, norm_B_mid by lia.
      destruct (set_bit cw (k + 1) bit Hc) as (Hlt & Htop & Hlow).
      rewrite Htop. f_equal. unfold after_read.
      rewrite shr_pow2 by lia. replace (k + 1 - 1) with k by lia.
      f_equal.
      destruct (clear_bit _ (k + 1) Hlt) as [Hlt2 Hlow2].
      apply (low_bits_eq _ _ (k + 1)); [assumption|assumption|].
      intros i Hi. rewrite Hlow2 by assumption. apply Hlow. assumption.
Qed.

(* ---------- export / import ---------- *)
Lemma write_mask_nz bit c : (mask (bc_write_bit WB bit c) =? 0) = false.
Proof.
  unfold bc_write_bit.
  destruct (negb (shl WB (mask c) 1 =? 0)) eqn:E; cbn [mask].
  - apply negb_true_iff in E. exact E.
  - reflexivity.
Qed.

Lemma seal_shape c :
  let c1 := bc_write_bit WB true c in
  st_seal WB c = {| bk := cur c1 :: bk c1; cur := cur c1; mask := mask c1 |}.
Proof.
  intros c1. unfold st_seal. fold c1. subst c1. rewrite write_mask_nz. reflexivity.
Qed.

Lemma rev_snoc_eq {A} (l : list A) x : rev (rev l ++ [x]) = x :: l.
Proof. rewrite rev_app_distr, rev_involutive. reflexivity. Qed.

Lemma st_from_compressed_snoc init last :
  last <> 0 -> last < 2 ^ WB ->
  st_from_compressed WB (init ++ [last])
  = inl {| bk := rev init; cur := N.lxor last (2 ^ N.log2 last); mask := shr (2 ^ N.log2 last) 1 |}.
Proof.
  intros Hnz Hlt. unfold st_from_compressed.
  rewrite rev_app_distr. cbn [rev app].
  apply N.eqb_neq in Hnz. rewrite Hnz. apply N.eqb_neq in Hnz.
  rewrite msb_index by assumption.
  rewrite shl_one; [reflexivity|].
  apply N.log2_lt_pow2; [lia|assumption].
Qed.

(* import after export gives back the coder, in normal form, field by field *)
Lemma st_export_import_raw c :
  bc_inv WB c -> st_from_compressed WB (st_into_compressed WB c) = inl (bc_norm WB c).
Proof.
  intros Hinv. unfold st_into_compressed. rewrite seal_shape. cbn [bk].
  destruct c as [b cw m]. destruct Hinv as [Hb [[Hm Hc]|(k & Hk & Hm & Hc)]]; cbn [bk cur mask] in *; subst.
  - rewrite bc_write_bit_A, norm_A. cbn [bk cur mask rev].
    rewrite st_from_compressed_snoc; [|lia|].
    + change (N.log2 1) with 0. rewrite shr_pow2_0, rev_involutive. reflexivity.
    + apply (N.lt_le_trans _ (2 ^ 1)); [reflexivity|apply pow2_le; lia].
  - destruct (N.eq_dec (k + 1) WB) as [Htop|Hmid].
    + rewrite bc_write_bit_B_top, norm_B_top by assumption. cbn [bk cur mask rev].
      rewrite st_from_compressed_snoc; [|lia|].
      * change (N.log2 1) with 0. rewrite shr_pow2_0.
        change (rev b ++ [cw]) with (rev (cw :: b)). rewrite rev_involutive. reflexivity.
      * apply (N.lt_le_trans _ (2 ^ 1)); [reflexivity|apply pow2_le; lia].
    + rewrite bc_write_bit_B_mid, norm_B_mid by lia. cbn [bk cur mask rev].
      rewrite lor_pow2_add by assumption.
      rewrite st_from_compressed_snoc.
      * rewrite log2_pow2_add by assumption. rewrite lxor_pow2_sub by assumption.
        rewrite shr_pow2 by lia. replace (k + 1 - 1) with k by lia.
        rewrite rev_involutive. reflexivity.
      * pose proof (pow2_pos (k + 1)). lia.
      * apply (N.lt_le_trans _ (2 ^ (k + 1 + 1))).
        -- rewrite (N.pow_add_r 2 (k + 1) 1). change (2 ^ 1) with 2. lia.
        -- apply pow2_le. lia.
Qed.

(* words that do not end in a zero word import to a normal-form coder that exports to them *)
Lemma st_import_export init last :
  Forall (fun w => w < 2 ^ WB) (init ++ [last]) -> last <> 0 ->
  exists c, st_from_compressed WB (init ++ [last]) = inl c
    /\ bc_inv WB c /\ bc_norm WB c = c /\ st_into_compressed WB c = init ++ [last].
Proof.
  intros Hall Hnz.
  apply Forall_app in Hall. destruct Hall as [Hinit Hlast]. inversion Hlast as [|? ? Hlt _]; subst.
  rewrite st_from_compressed_snoc by assumption. eexists. split; [reflexivity|].
  set (j := N.log2 last).
  assert (Hj : j < WB) by (apply N.log2_lt_pow2; [lia|assumption]).
  destruct (N.log2_spec last ltac:(lia)) as [Hlo Hhi]. fold j in Hlo, Hhi.
  rewrite N.pow_succ_r in Hhi by lia.
  assert (Hsplit : last = 2 ^ j + (last - 2 ^ j)) by lia.
  assert (Hr : last - 2 ^ j < 2 ^ j) by lia.
  assert (Hx : N.lxor last (2 ^ j) = last - 2 ^ j).
  { rewrite Hsplit at 1. apply lxor_pow2_sub. assumption. }
  rewrite Hx.
  assert (Hrev : Forall (fun w => w < 2 ^ WB) (rev init)) by (apply Forall_rev; assumption).
  destruct (N.eq_dec j 0) as [Hj0|Hj0].
  - rewrite Hj0 in *. rewrite shr_pow2_0. rewrite N.pow_0_r in *.
    assert (last = 1) by lia. subst last.
    change (1 - 1) with 0. split; [apply inv_A; assumption|]. split; [apply norm_A|].
    unfold st_into_compressed. rewrite seal_shape.
    rewrite bc_write_bit_A. cbn [bk cur rev]. rewrite rev_involutive. reflexivity.
  - rewrite shr_pow2 by lia.
    assert (Hinv : bc_inv WB {| bk := rev init; cur := last - 2 ^ j; mask := 2 ^ (j - 1) |}).
    { apply inv_B; [assumption|lia|]. replace (j - 1 + 1) with j by lia. assumption. }
    split; [exact Hinv|]. split; [apply norm_B_mid; lia|].
    unfold st_into_compressed. rewrite seal_shape.
    rewrite bc_write_bit_B_mid by lia. cbn [bk cur rev]. rewrite rev_involutive.
    replace (j - 1 + 1) with j by lia.
    rewrite lor_pow2_add by assumption. do 2 f_equal. lia.
Qed.

Lemma st_import_zero init :
  st_from_compressed WB (init ++ [0]) = inr init.
Proof.
  unfold st_from_compressed. rewrite rev_app_distr. cbn [rev app].
  rewrite N.eqb_refl, rev_involutive. reflexivity.
Qed.

Lemma st_import_nil : st_from_compressed WB [] = inl bc_new.
Proof. reflexivity. Qed.

(* exported words are valid words and never end in zero *)
Lemma st_into_compressed_shape c :
  bc_inv WB c ->
  exists init last, st_into_compressed WB c = init ++ [last] /\ last <> 0
    /\ Forall (fun w => w < 2 ^ WB) (init ++ [last]).
Proof.
  intros Hinv.
  pose proof (st_export_import_raw c Hinv) as Hrt.
  unfold st_into_compressed in *. rewrite seal_shape in *. cbn [bk] in *.
  destruct (bc_write_bit_spec true c Hinv) as [[Hbk [[Hm _]|(k & Hk & Hm & Hc)]] _].
  - exfalso. pose proof (write_mask_nz true c) as E. rewrite Hm in E. discriminate.
  - cbn [rev]. exists (rev (bk (bc_write_bit WB true c))), (cur (bc_write_bit WB true c)).
    split; [reflexivity|]. split.
    + intros E0. rewrite E0 in Hrt. cbn [rev] in Hrt. rewrite st_import_zero in Hrt. discriminate.
    + apply Forall_app. split; [apply Forall_rev; assumption|].
      constructor; [|constructor].
      eapply N.lt_le_trans; [exact Hc|]. apply pow2_le. lia.
Qed.

(* ---------- guard ---------- *)
Lemma st_guard_roundtrip c :
  bc_inv WB c -> st_guard_drop WB (st_guard_new WB c) = bc_norm WB c.
Proof.
  intros Hinv. unfold st_guard_new, st_guard_drop.
  rewrite seal_shape. cbn [bk cur mask tl].
  destruct (bc_write_bit_spec true c Hinv) as [[_ [[Hm _]|(k & _ & Hm & _)]] _].
  - exfalso. pose proof (write_mask_nz true c) as E. rewrite Hm in E. discriminate.
  - rewrite Hm at 1. rewrite pow2_eq_0. cbn [negb].
    replace {| bk := bk (bc_write_bit WB true c); cur := cur (bc_write_bit WB true c);
               mask := mask (bc_write_bit WB true c) |} with (bc_write_bit WB true c)
      by (destruct (bc_write_bit WB true c); reflexivity).
    rewrite st_push_pop_raw by assumption. reflexivity.
Qed.

Lemma st_guard_view_eq c : bc_guard_view (st_guard_new WB c) = st_into_compressed WB c.
Proof. reflexivity. Qed.

(* ---------- draining ---------- *)
Lemma st_drain_spec fuel c :
  bc_inv WB c -> (length (abs_stack WB c) < fuel)%nat ->
  exists c', st_drain WB fuel c = (abs_stack WB c, c') /\ bc_inv WB c' /\ abs_stack WB c' = [].
Proof.
  revert c. induction fuel as [|fuel IH]; intros c Hinv Hlen; [lia|].
  pose proof (st_read_bit_spec c Hinv) as Hr.
  cbn [st_drain].
  destruct (abs_stack WB c) as [|b r] eqn:Ha.
  - rewrite Hr. exists c. split; [reflexivity|]. split; [exact Hinv|exact Ha].
  - destruct Hr as (c1 & Hr & Hi1 & Ha1). rewrite Hr.
    cbn [length] in Hlen.
    destruct (IH c1 Hi1) as (c2 & Hd & Hi2 & Ha2); [rewrite Ha1; lia|].
    rewrite Hd, Ha1. exists c2. split; [reflexivity|]. split; assumption.
Qed.

End Stack.
