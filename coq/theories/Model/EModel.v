(* Model/EModel.v -- entropy models as data.
   A model entry is (symbol, left cumulative, probability); a coder only ever
   sees the pair (cum, p) for encoding and the triple for decoding. *)
From CV Require Export Base.Bits.
Open Scope N_scope.

(* What a coder obtains from [EncoderModel::left_cumulative_and_probability]
   and [DecoderModel::quantile_function]. Symbols are Z. *)
Record emodel := {
  em_prec : N;                         (* PRECISION *)
  em_enc  : Z -> option (N * N);       (* symbol -> (cum, p) *)
  em_dec  : N -> (Z * N * N)           (* quantile -> (symbol, cum, p) *)
}.

Definition wf_entry (P cum p : N) : Prop := 0 < p /\ cum + p <= 2 ^ P.

(* "exactly invertible" : the statement of C03 for one model *)
Record wf_model (m : emodel) : Prop := {
  wfm_prec : 0 < em_prec m;
  wfm_enc  : forall s cum p, em_enc m s = Some (cum, p) ->
               wf_entry (em_prec m) cum p /\ p < 2 ^ em_prec m /\
               forall q, cum <= q < cum + p -> em_dec m q = (s, cum, p);
  wfm_dec  : forall q, q < 2 ^ em_prec m ->
               let '(s, cum, p) := em_dec m q in
               em_enc m s = Some (cum, p) /\ cum <= q < cum + p
}.

(* Table models: list of (symbol, cum, p) in increasing order of cum.          *)
Definition table := list (Z * N * N).

Fixpoint tbl_enc (t : table) (s : Z) : option (N * N) :=
  match t with
  | [] => None
  | (s', c, p) :: r => if Z.eqb s s' then Some (c, p) else tbl_enc r s
  end.

(* last entry whose left cumulative is <= q; the first entry is the fallback   *)
Fixpoint tbl_dec_from (cur : Z * N * N) (t : table) (q : N) : Z * N * N :=
  match t with
  | [] => cur
  | (s, c, p) :: r => if N.leb c q then tbl_dec_from (s, c, p) r q else cur
  end.

Definition tbl_dec (t : table) (q : N) : Z * N * N :=
  match t with
  | [] => (0%Z, 0, 1)
  | e :: r => tbl_dec_from e r q
  end.

Definition table_model (P : N) (t : table) : emodel :=
  {| em_prec := P; em_enc := tbl_enc t; em_dec := tbl_dec t |}.

(* consecutive tiling of [start, 2^P) by non-empty intervals, symbols distinct *)
Fixpoint tiles (start total : N) (t : table) : Prop :=
  match t with
  | [] => start = total
  | (s, c, p) :: r => c = start /\ 0 < p /\ tiles (start + p) total r
  end.

Fixpoint tilesb (start total : N) (t : table) : bool :=
  match t with
  | [] => N.eqb start total
  | (s, c, p) :: r => N.eqb c start && N.ltb 0 p && tilesb (start + p) total r
  end.

Definition syms (t : table) : list Z := map (fun e => fst (fst e)) t.

Definition wf_table (P : N) (t : table) : Prop :=
  0 < P /\ tiles 0 (2 ^ P) t /\ NoDup (syms t) /\ (2 <= length t)%nat.

Fixpoint nodupb (l : list Z) : bool :=
  match l with
  | [] => true
  | x :: r => negb (existsb (Z.eqb x) r) && nodupb r
  end.

Definition wf_tableb (P : N) (t : table) : bool :=
  N.ltb 0 P && tilesb 0 (2 ^ P) t && nodupb (syms t) && Nat.leb 2 (length t).
