#!/bin/bash
# usage: confirm_mutant.sh <dir with patch.diff demo.rs meta.json>
# Confirms in a fresh scratch worktree of /repo (removed afterwards): patch applies, the whole
# existing test-suite passes with it, the demo passes without and fails with the patch.
set -u
D="$1"
W=/tmp/confirm-$$
export CARGO_NET_OFFLINE=true
git -C /repo worktree add --detach "$W" HEAD >/dev/null 2>&1 || { echo "worktree failed"; exit 2; }
cleanup() { git -C /repo worktree remove --force "$W" >/dev/null 2>&1; rm -rf "$W" /tmp/confirm-demo-$$; }
trap cleanup EXIT
mkdir -p /tmp/confirm-demo-$$/src
cat > /tmp/confirm-demo-$$/Cargo.toml <<EOT
[package]
name = "demo"
version = "0.1.0"
edition = "2021"
[workspace]
[dependencies]
constriction = { path = "$W" }
probability = "0.20"
EOT
cp "$W/Cargo.lock" /tmp/confirm-demo-$$/
cp "$D/demo.rs" /tmp/confirm-demo-$$/src/main.rs
# reuse /repo's build cache where possible
export CARGO_TARGET_DIR=/tmp/confirm-target
( cd /tmp/confirm-demo-$$ && timeout 1800 cargo run --offline >/tmp/confirm-demo-$$/out0.txt 2>&1 ); R0=$?
( cd "$W" && git apply "$D/patch.diff" ) || { echo "PATCH DOES NOT APPLY"; exit 3; }
( cd /tmp/confirm-demo-$$ && timeout 1800 cargo run --offline >/tmp/confirm-demo-$$/out1.txt 2>&1 ); R1=$?
( cd "$W" && timeout 3000 cargo test --workspace --no-fail-fast --offline >/tmp/confirm-demo-$$/test.txt 2>&1 ); RT=$?
FAILED=$(grep -c "^test .* FAILED" /tmp/confirm-demo-$$/test.txt)
echo "demo without patch: exit=$R0 | demo with patch: exit=$R1 | test suite with patch: exit=$RT failed_tests=$FAILED"
if [ $R0 -eq 0 ] && [ $R1 -ne 0 ] && [ $RT -eq 0 ]; then echo CONFIRMED; exit 0; else
  tail -5 /tmp/confirm-demo-$$/out0.txt; tail -5 /tmp/confirm-demo-$$/out1.txt; grep -E "FAILED|panicked" /tmp/confirm-demo-$$/test.txt | head; echo NOT-CONFIRMED; exit 1; fi
