(* Model/AnsRef.v -- reference rANS in plain unbounded arithmetic (no shifts, masks, casts or
   truncation; compressed words kept in output order). This is the published algorithm with the
   documented word order and normalisation threshold, written without reference to the
   implementation's bookkeeping; C06 states that the machine-level model emits exactly these words. *)
From CV Require Export Base.Bits.
Open Scope N_scope.

Record rans := { r_out : list N; r_x : N }.

(* one symbol with cumulative [cum], probability [p] at precision [P];
   word size 2^W, state size 2^S: renormalise (emit the low word) iff x >= p * 2^(S-P) *)
Definition ref_step (W S : N) (r : rans) (e : N * N * N) : rans :=
  let '(P, cum, p) := e in
  let '(o, x) := if p * 2 ^ (S - P) <=? r_x r
                 then (r_out r ++ [r_x r mod 2 ^ W], r_x r / 2 ^ W)
                 else (r_out r, r_x r) in
  {| r_out := o; r_x := (x / p) * 2 ^ P + cum + x mod p |}.

(* base-2^W digits of x, least significant first, no leading zero digits; [n] = fuel *)
Fixpoint ref_digits (W : N) (n : nat) (x : N) : list N :=
  match n with
  | O => []
  | S n' => if x =? 0 then [] else x mod 2 ^ W :: ref_digits W n' (x / 2 ^ W)
  end.

Definition ans_ref (W S : N) (msg : list (N * N * N)) : list N :=
  let r := fold_left (ref_step W S) msg {| r_out := []; r_x := 0 |} in
  r_out r ++ ref_digits W (N.to_nat ((S + W - 1) / W)) (r_x r).
