"""Family `floatq`: float-to-fixed-point quantisation of categorical entropy models
(`fast_quantized_cdf`, eager / lazy / non-contiguous / lookup `_fast` constructors, input
validation of the `_perfect` constructor).  Floating-point parts of C03, C05, C19.

Input (ints):  fk pb P  n w_0..w_{n-1}  has_norm norm  flags  ns s_0..  nq q_0..  [k p_0..p_{k-1}]
   fk 0 = f32, 1 = f64; pb = Probability bits (8/16/32); P = PRECISION (menu below);
   weights and normalisation are IEEE-754 bit patterns; has_norm 0 = None;
   flags: 1 = also the non-contiguous / lookup `_fast` constructors (lookup only for pb <= 16),
          2 = also `from_floating_point_probabilities_perfect` (outcome class only),
          4 = sweep the lazy decoder over ALL quantiles (only honoured when P <= 12),
          8 = the trailing list of fixed-point probabilities is present and is pushed through
              from_nonzero_fixed_point_probabilities(.., false) (the validator behind `_perfect`);
   s_i = symbols queried through left_cumulative_and_probability (may be out of range);
   q_i = quantiles (< 2^P) queried through quantile_function.
Output (ints), status = 0 Ok | -1 Err(()) | -7 panic:
   E  eager ContiguousCategoricalEntropyModel: status; if 0: symbol_table as `n (sym cum p)*`
      (or -7), then per s_i `1 cum p` | `0`, then per q_i `sym cum p`
   V  (flag 1) NonContiguousCategoricalDecoderModel (symbols 3i+10): status, table, per q_i;
      NonContiguousCategoricalEncoderModel: status, per i in 0..=n `1 cum p` | `0`;
      (pb <= 16) ContiguousLookupDecoderModel: status, table, per q_i;
                 NonContiguousLookupDecoderModel: status, table, per q_i
   L  LazyContiguousCategoricalEntropyModel: status; if 0: per s_i `1 cum p` | `0` | -7,
      per q_i `sym cum p` | -7, (flag 4, P <= 12) run-length encoded sweep `k (sym cum p run)*`
   Pf (flag 2) `0 valid` | -1   (-1 = Err or panic; valid = 1 iff the returned model tiles [0,2^P))
   X  (flag 8) status; if 0: symbol_table of the validated fixed-point model
"""
import math
import struct

FAMILY = "floatq"
RUNNER = ("Corr.FloatQ_run", "run_floatq")

# (fk, pb) -> PRECISION values compiled into the harness
MENU = {
    8: [1, 2, 3, 7, 8],
    16: [1, 2, 8, 12, 15, 16],
    32: [1, 8, 12, 24, 31, 32],
}
ERR, PANICKED = -1, -7
SPECIAL = (-999999, -999998, -999997)

# ---------------------------------------------------------------- float helpers


def fbits(fk, x):
    """bit pattern of the Python float x rounded to the format"""
    if fk == 0:
        try:
            return struct.unpack("<I", struct.pack("<f", x))[0]
        except OverflowError:
            return 0x7F800000 if x > 0 else 0xFF800000
    return struct.unpack("<Q", struct.pack("<d", x))[0]


def fval(fk, b):
    if fk == 0:
        return struct.unpack("<f", struct.pack("<I", b & 0xFFFFFFFF))[0]
    return struct.unpack("<d", struct.pack("<Q", b & 0xFFFFFFFFFFFFFFFF))[0]


def fmt(fk):
    """(mantissa bits, exponent bits)"""
    return (23, 8) if fk == 0 else (52, 11)


def mk(fk, sign, e, m):
    mw, ew = fmt(fk)
    return (sign << (mw + ew)) | (e << mw) | m


def is_nan(fk, b):
    mw, ew = fmt(fk)
    return ((b >> mw) & ((1 << ew) - 1)) == (1 << ew) - 1 and (b & ((1 << mw) - 1)) != 0


def is_inf(fk, b):
    mw, ew = fmt(fk)
    return ((b >> mw) & ((1 << ew) - 1)) == (1 << ew) - 1 and (b & ((1 << mw) - 1)) == 0


def is_normal(fk, b):
    mw, ew = fmt(fk)
    e = (b >> mw) & ((1 << ew) - 1)
    return 0 < e < (1 << ew) - 1


def sign_neg(fk, b):
    mw, ew = fmt(fk)
    return (b >> (mw + ew)) & 1 == 1


def rnd(fk, x):
    """round a Python float to the format (double rounding is innocuous for one + of two
    format values because 53 >= 2*24+2)"""
    return fval(fk, fbits(fk, x)) if fk == 0 else x


def fsum(fk, bits):
    """Iterator::sum in the format: left fold from -0.0"""
    acc = -0.0
    for b in bits:
        acc = rnd(fk, acc + fval(fk, b))
    return acc


def special_values(fk):
    mw, ew = fmt(fk)
    emax = (1 << ew) - 1
    return dict(
        pzero=mk(fk, 0, 0, 0), nzero=mk(fk, 1, 0, 0),
        pden_min=mk(fk, 0, 0, 1), pden_max=mk(fk, 0, 0, (1 << mw) - 1), nden=mk(fk, 1, 0, 5),
        pnorm_min=mk(fk, 0, 1, 0), nnorm_min=mk(fk, 1, 1, 0),
        pmax=mk(fk, 0, emax - 1, (1 << mw) - 1), nmax=mk(fk, 1, emax - 1, (1 << mw) - 1),
        pinf=mk(fk, 0, emax, 0), ninf=mk(fk, 1, emax, 0),
        qnan=mk(fk, 0, emax, 1 << (mw - 1)), snan=mk(fk, 0, emax, 1), nnan=mk(fk, 1, emax, (1 << (mw - 1)) | 3),
        one=fbits(fk, 1.0), none=fbits(fk, -1.0), nsmall=fbits(fk, -1e-30),
    )


# ---------------------------------------------------------------- generators

def pick_instance(rng, want_small_p=False, min_n=2):
    fk = rng.choice([0, 1])
    pb = rng.choice([8, 16, 32])
    ps = MENU[pb]
    r = rng.random()
    if want_small_p:
        ps2 = [p for p in ps if p <= 12 and (1 << p) - 2 >= min_n] or ps
        P = rng.choice(ps2)
    elif r < 0.25:
        P = ps[-1]
    elif r < 0.40:
        P = ps[-2]
    else:
        P = rng.choice(ps)
    return fk, pb, P


def pick_n(rng, P, hi=300):
    """table size with 2 <= n < 2^P - 1 whenever possible"""
    top = min(hi, (1 << P) - 2)
    if top < 2:
        return 2
    r = rng.random()
    if r < 0.55:
        return rng.randint(2, min(top, 12))
    if r < 0.85:
        return rng.randint(2, min(top, 60))
    if r < 0.93:
        return top
    return rng.randint(2, top)


def rand_weight(rng, fk, style):
    mw, ew = fmt(fk)
    bias = (1 << (ew - 1)) - 1
    if style == "plain":
        return fbits(fk, rng.choice([rng.random(), rng.uniform(0, 100), rng.expovariate(1.0),
                                     float(rng.randint(0, 50))]))
    if style == "zeros":
        r = rng.random()
        if r < 0.55:
            return mk(fk, 0, 0, 0)
        if r < 0.65:
            return mk(fk, 1, 0, 0)          # -0.0 passes `>= 0`
        return fbits(fk, rng.uniform(0, 10))
    if style == "denormals":
        r = rng.random()
        if r < 0.6:
            return mk(fk, 0, 0, rng.choice([1, 2, 3, (1 << mw) - 1, rng.randrange(1, 1 << mw)]))
        if r < 0.8:
            return mk(fk, 0, rng.randint(1, 3), rng.randrange(1 << mw))
        return mk(fk, 0, 0, 0)
    if style == "tails":
        r = rng.random()
        if r < 0.2:
            return fbits(fk, rng.uniform(0.5, 1000.0))
        return fbits(fk, rng.uniform(0, 1) * 10.0 ** rng.randint(-40 if fk == 0 else -300, -8))
    if style == "range":
        # exponent anywhere, but leave head room so that the sum stays finite (mostly)
        top = 2 * bias - 10
        return mk(fk, 0, rng.randint(0, top), rng.randrange(1 << mw))
    if style == "equal":
        return None
    raise ValueError(style)


def gen_weights(rng, fk, n, style=None):
    style = style or rng.choice(["plain", "plain", "zeros", "denormals", "tails", "range", "equal", "zerotail"])
    if style == "equal":
        w = fbits(fk, rng.choice([1.0, 0.1, 3.0, 1e-3, rng.uniform(0, 5)]))
        return [w] * n
    if style == "zerotail":
        k = rng.randint(1, max(1, n // 2))
        head = [rand_weight(rng, fk, "plain") for _ in range(n - k)]
        if not any(fval(fk, b) > 0 for b in head):
            head[0] = fbits(fk, 1.5)
        z = mk(fk, 0, 0, 0)
        tail = [z if rng.random() < 0.9 else mk(fk, 1, 0, 0) for _ in range(k)]
        return head + tail
    ws = [rand_weight(rng, fk, style) for _ in range(n)]
    if style in ("zeros", "denormals") and rng.random() < 0.8 and not any(fval(fk, b) > 0 for b in ws):
        ws[rng.randrange(n)] = fbits(fk, rng.uniform(0.1, 2))
    return ws


def gen_norm(rng, fk, ws, malformed=False):
    """(has_norm, bits)"""
    sv = special_values(fk)
    r = rng.random()
    if not malformed:
        if r < 0.6:
            return 0, 0
        s = fsum(fk, ws)
        if not (s > 0) or math.isinf(s):
            return 0, 0
        if r < 0.75:
            return 1, fbits(fk, s)
        if r < 0.85:      # too small: the cap on the scaled cumulative is what keeps the model valid
            return 1, fbits(fk, s * rng.choice([0.999999, 0.99, 0.5, 0.01, 1e-6]))
        if r < 0.93:      # too large
            return 1, fbits(fk, s * rng.choice([1.000001, 1.01, 2.0, 100.0, 1e6]))
        return 1, rng.choice([sv["pnorm_min"], sv["pmax"], fbits(fk, 1.0)])
    return 1, rng.choice([sv["qnan"], sv["snan"], sv["nnan"], sv["pinf"], sv["ninf"], sv["pzero"], sv["nzero"],
                          sv["none"], sv["nmax"], sv["nnorm_min"], sv["pden_min"], sv["pden_max"], sv["nden"],
                          sv["pnorm_min"], sv["pmax"]])


def gen_queries(rng, P, n, nmax_sym=8, nmax_q=10):
    if n <= 10:
        syms = list(range(n)) + [n, n + 1, 1 << 40]
    else:
        syms = sorted({0, 1, n - 2, n - 1} | {rng.randrange(n) for _ in range(nmax_sym - 4)}) + [n, 1 << 33]
    top = (1 << P) - 1
    qs = {0, top, min(1, top), max(0, top - 1), min(n, top), min(n + 1, top), max(0, min(n - 1, top))}
    while len(qs) < nmax_q and len(qs) <= top:
        r = rng.random()
        if r < 0.3:
            qs.add(rng.randint(0, min(top, 4 * n)))
        elif r < 0.5:
            qs.add(rng.randint(max(0, top - 4 * n), top))
        else:
            qs.add(rng.randint(0, top))
    return syms, sorted(qs)


def perfect_predictable(fk, pb, P, ws):
    """The `_perfect` constructor is only run where its outcome class does not depend on the
    (unmodelled) optimisation loop: either its input validation must reject (fewer than 2 or more
    than 2^P entries, an entry < 0, f64 sum not normal and positive), or the weights are benign
    (zeros and values in [1e-6, 1e6], at most 2^P - 1 of them) and it is expected to succeed."""
    n = len(ws)
    vals = [fval(fk, b) for b in ws]
    if n < 2 or n > (1 << P) or n > (1 << pb) - 1:
        return True
    if any(v < 0 for v in vals):
        return True
    s = -0.0
    for v in vals:
        s = s + v
    if not (s > 0) or math.isinf(s) or s < 2.2250738585072014e-308:
        return True
    return n <= (1 << P) - 1 and all(v == 0 or 1e-6 <= v <= 1e6 for v in vals)


def gen_fixed(rng, pb, P):
    """fixed-point probabilities for the validator: exact tilings and every way of missing one"""
    total = 1 << P
    top = (1 << pb) - 1
    k = rng.randint(2, min(12, total)) if total >= 2 else 2
    cuts = sorted(rng.sample(range(1, total), k - 1)) if total > k else list(range(1, k))
    cs = [0] + cuts + [total]
    ps = [cs[i + 1] - cs[i] for i in range(len(cs) - 1)]
    kind = rng.choice(["ok", "ok", "zero", "plus1", "minus1", "single", "empty", "twolaps", "big", "onezero"])
    if kind == "zero":
        ps.insert(rng.randrange(len(ps) + 1), 0)
    elif kind == "plus1":
        ps[rng.randrange(len(ps))] += 1
    elif kind == "minus1":
        i = rng.randrange(len(ps))
        ps[i] -= 1
    elif kind == "single":
        ps = [total]
    elif kind == "empty":
        ps = []
    elif kind == "twolaps":
        ps = ps + ps
    elif kind == "big":
        ps[rng.randrange(len(ps))] = top
    elif kind == "onezero":
        ps = [0]
    return [min(max(p, 0), top) for p in ps]


def assemble(fk, pb, P, ws, has_norm, nb, flags, syms, qs, fixed=None):
    if flags & 2 and not perfect_predictable(fk, pb, P, ws):
        flags &= ~2
    tail = []
    if fixed is not None:
        flags |= 8
        tail = [len(fixed)] + fixed
    return [fk, pb, P, len(ws)] + ws + [has_norm, nb, flags, len(syms)] + syms + [len(qs)] + qs + tail


def pick_flags(rng, P, n, perfect_ok=True):
    flags = 0
    if n <= 40 and rng.random() < 0.4:
        flags |= 1
    if perfect_ok and n <= 40 and rng.random() < 0.25:
        flags |= 2
    if P <= 12 and rng.random() < 0.5:
        flags |= 4
    return flags


def gen_valid(rng):
    """Well-formed tables (finite, non-negative, positive finite sum) of every shape: zeros,
    denormals, tails below resolution, huge dynamic range, equal weights, zero tails (F9)."""
    fk, pb, P = pick_instance(rng)
    if rng.random() < 0.3:
        fk, pb, P = pick_instance(rng, want_small_p=True)
    n = pick_n(rng, P)
    ws = gen_weights(rng, fk, n)
    has_norm, nb = gen_norm(rng, fk, ws)
    syms, qs = gen_queries(rng, P, n)
    # the `_perfect` constructor is only exercised on inputs whose f64 sum is normal
    flags = pick_flags(rng, P, n, perfect_ok=(n <= (1 << P)))
    return assemble(fk, pb, P, ws, has_norm, nb, flags, syms, qs)


def gen_f9(rng):
    """The F9 shape: precision close to or above the float's mantissa width, zero (or
    sub-resolution) tail, so that rounding pushes scaled cumulatives to / past free_weight."""
    fk = 0 if rng.random() < 0.8 else 1
    pb = 32
    P = rng.choice([24, 24, 31, 32] if fk == 0 else [31, 32, 24])
    n = rng.choice([3, 5, 7, 9, 16, rng.randint(2, 40)])
    k = rng.randint(1, max(1, n - 2))
    head = [fbits(fk, round(rng.uniform(0.001, 100.0), 3)) for _ in range(n - k)]
    z = mk(fk, 0, 0, 0)
    tail = [z if rng.random() < 0.8 else fbits(fk, 1e-30) for _ in range(k)]
    ws = head + tail
    has_norm, nb = (0, 0)
    r = rng.random()
    if r < 0.25:
        s = fsum(fk, ws)
        has_norm, nb = 1, fbits(fk, s * rng.choice([1.0, 0.9999999, 0.999, 0.5]))
    syms, qs = gen_queries(rng, P, n)
    qs = sorted(set(qs) | {(1 << P) - 1 - i for i in range(0, min(6, n))})
    flags = 1 if rng.random() < 0.3 else 0
    return assemble(fk, pb, P, ws, has_norm, nb, flags, syms, qs)


def py_cdf(fk, pb, P, ws, has_norm, nb):
    """Python emulation of fast_quantized_cdf (only used to AIM quantiles at interval edges; a wrong
    emulation would merely blunt the generator, never change a verdict)."""
    n = len(ws)
    if n < 2 or n >= (1 << P) - 1:
        return None
    vals = [fval(fk, b) for b in ws]
    if any(not (v >= 0) or math.isinf(v) for v in vals):
        return None
    norm = fval(fk, nb) if has_norm else fsum(fk, ws)
    if not (norm > 0) or math.isinf(norm) or norm != norm:
        return None
    free = (1 << P) - n
    try:
        scale = rnd(fk, rnd(fk, float(free)) / norm)
    except (OverflowError, ZeroDivisionError):
        return None
    top = (1 << pb) - 1
    cdf, c = [], 0.0
    for i, v in enumerate(vals):
        x = rnd(fk, c * scale)
        if x != x or x <= 0:
            k = 0
        elif math.isinf(x) or x >= top:
            k = top
        else:
            k = int(x)
        cdf.append(min(k, free) + i)
        c = rnd(fk, c + v)
    return cdf + [1 << P]


def edge_quantiles(rng, cdf, P, count):
    """quantiles at and next to the ends of some symbols' intervals"""
    qs = set()
    n = len(cdf) - 1
    top = (1 << P) - 1
    for _ in range(count):
        i = rng.randrange(n)
        lo, hi = cdf[i], cdf[i + 1]
        for q in (lo, lo + 1, hi - 1, hi - 2, hi, (lo + hi) // 2):
            if 0 <= q <= top:
                qs.add(q)
    return qs


def gen_lazy(rng):
    """C05: small precisions with a full quantile sweep, and large tables at large precisions
    with quantiles aimed at the skip-ahead loop of the lazy decoder."""
    if rng.random() < 0.5:
        fk, pb, P = pick_instance(rng, want_small_p=True, min_n=3)
        n = pick_n(rng, P, hi=120)
        flags = 4 | (1 if n <= 30 and rng.random() < 0.5 else 0)
    else:
        fk = rng.choice([0, 1])
        pb = rng.choice([16, 32])
        P = rng.choice([p for p in MENU[pb] if p >= 12])
        n = rng.choice([rng.randint(2, 30), rng.randint(2, 30), rng.randint(30, 120), rng.randint(120, 300)])
        flags = 0
    ws = gen_weights(rng, fk, n)
    has_norm, nb = gen_norm(rng, fk, ws)
    syms, qs = gen_queries(rng, P, n, nmax_sym=10, nmax_q=16)
    cdf = py_cdf(fk, pb, P, ws, has_norm, nb)
    if cdf:
        # the skip-ahead loop of the lazy decoder can only go wrong just below a symbol's right
        # edge: aim there (this is what exposes a non-conservative skip bound when PRECISION
        # exceeds the float's mantissa width)
        qs = sorted(set(qs) | edge_quantiles(rng, cdf, P, 8))
    return assemble(fk, pb, P, ws, has_norm, nb, flags, syms, qs)


def gen_symcount(rng):
    """C19: well-formed weights, but the non-contiguous `_fast` constructors get one symbol too many
    or one too few (flags 16 / 32)."""
    fk = rng.choice([0, 1])
    pb = rng.choice([8, 16, 16, 32])
    P = rng.choice([p for p in MENU[pb] if p >= 3])
    n = rng.randint(2, min(12, (1 << P) - 3))
    ws = gen_weights(rng, fk, n, "plain")
    syms, qs = gen_queries(rng, P, n, nmax_sym=4, nmax_q=6)
    flags = 1 | rng.choice([16, 16, 32])
    return assemble(fk, pb, P, ws, 0, 0, flags, syms, qs)


def gen_malformed(rng):
    """C19: every IEEE class in every position, all-zero, empty / one entry, negative entries,
    NaN / inf / zero / negative / denormal / far too small / far too large normalisation,
    too many symbols for the precision, sums that overflow."""
    if rng.random() < 0.12:
        return gen_symcount(rng)
    fk, pb, P = pick_instance(rng)
    sv = special_values(fk)
    kind = rng.choice(["class_at", "class_at", "class_at", "allzero", "short", "negatives", "norm", "norm",
                       "toolong", "overflow", "extreme_norm"])
    has_norm, nb = 0, 0
    if kind == "toolong":
        fk, pb, P = pick_instance(rng, want_small_p=True)
        P = rng.choice([p for p in MENU[pb] if p <= 8])
        n = rng.choice([(1 << P) - 2, (1 << P) - 1, 1 << P, (1 << P) + 1, (1 << P) + rng.randint(2, 9)])
        r = rng.random()
        if r < 0.45:
            # far too long: more entries than the Probability type can count (a length narrowed to
            # Probability before the comparison would alias a short table)
            fk, pb = rng.choice([0, 1]), 8
            P = rng.choice(MENU[8])
            n = rng.choice([255, 256, 257, 258, 259, 256 + rng.randint(2, 254), 510, 511, 512, 513,
                            256 + (1 << P) - 2, 256 + (1 << P) - 1, 256 + (1 << P), 512 + rng.randint(0, 5)])
        elif r < 0.5:
            fk, pb = rng.choice([0, 1]), 16
            P = rng.choice(MENU[16])
            n = 65536 + rng.choice([0, 1, 2, 3, max(0, (1 << P) - 2)])
        n = max(n, 0)
        style = rng.choice(["plain", "plain", "zeros"]) if n <= 1000 else "plain"
        ws = gen_weights(rng, fk, n, style) if n else []
        if n >= 256 and rng.random() < 0.4:
            z = special_values(fk)["pzero"]
            ws[:256] = [z] * 256         # no weight on the first 256 entries
    elif kind == "short":
        n = rng.choice([0, 1, 1])
        ws = [fbits(fk, rng.uniform(0.1, 5)) for _ in range(n)]
        if rng.random() < 0.3:
            has_norm, nb = 1, fbits(fk, 1.0)
    elif kind == "allzero":
        n = rng.randint(2, min(12, max(2, (1 << P) - 2)))
        ws = [rng.choice([sv["pzero"], sv["pzero"], sv["nzero"]]) for _ in range(n)]
        if rng.random() < 0.3:
            has_norm, nb = 1, fbits(fk, 1.0)      # explicit normalisation: all-zero weights are accepted
    elif kind == "negatives":
        n = rng.randint(2, min(12, max(2, (1 << P) - 2)))
        ws = gen_weights(rng, fk, n, "plain")
        for _ in range(rng.randint(1, 3)):
            ws[rng.randrange(n)] = rng.choice([sv["none"], sv["nsmall"], sv["nden"], sv["nmax"], sv["nnorm_min"],
                                               fbits(fk, -rng.uniform(0, 3))])
        if rng.random() < 0.3:
            has_norm, nb = 1, fbits(fk, 10.0)
    elif kind in ("norm", "extreme_norm"):
        n = pick_n(rng, P, hi=20)
        ws = gen_weights(rng, fk, n, rng.choice(["plain", "zeros", "tails"]))
        if kind == "norm":
            has_norm, nb = gen_norm(rng, fk, ws, malformed=True)
        else:
            s = fsum(fk, ws)
            has_norm, nb = 1, fbits(fk, (s if s > 0 else 1.0) * 10.0 ** rng.choice([-30, -20, -9, 9, 20, 30]))
    elif kind == "overflow":
        n = rng.randint(2, min(8, max(2, (1 << P) - 2)))
        ws = [rng.choice([sv["pmax"], sv["pmax"], fbits(fk, 1.0), mk(fk, 0, (1 << fmt(fk)[1]) - 2, 0)]) for _ in range(n)]
        if rng.random() < 0.4:
            has_norm, nb = 1, rng.choice([sv["pmax"], fbits(fk, 1.0)])
    else:  # class_at
        n = rng.randint(2, min(10, max(2, (1 << P) - 2)))
        ws = gen_weights(rng, fk, n, rng.choice(["plain", "zeros"]))
        pos = rng.randrange(n)
        ws[pos] = sv[rng.choice(sorted(sv))]
        if rng.random() < 0.25:
            has_norm, nb = 1, fbits(fk, 7.0)
    n = len(ws)
    syms, qs = gen_queries(rng, P, max(n, 1), nmax_sym=6, nmax_q=6)
    flags = (1 if rng.random() < 0.5 else 0) | (2 if n <= 40 and rng.random() < 0.6 else 0)
    fixed = gen_fixed(rng, pb, P) if rng.random() < 0.5 else None
    return assemble(fk, pb, P, ws, has_norm, nb, flags, syms, qs, fixed)


# ---------------------------------------------------------------- output walking

def split_input(inp):
    fk, pb, P, n = inp[0:4]
    ws = inp[4:4 + n]
    i = 4 + n
    has_norm, nb, flags, ns = inp[i:i + 4]
    i += 4
    syms = inp[i:i + ns]
    i += ns
    nq = inp[i]
    qs = inp[i + 1:i + 1 + nq]
    i += 1 + nq
    fixed = inp[i + 1:i + 1 + inp[i]] if flags & 8 else None
    return dict(fk=fk, pb=pb, P=P, n=n, ws=ws, has_norm=has_norm, nb=nb, flags=flags, syms=syms, qs=qs,
                fixed=fixed)


class Walk:
    def __init__(self, out):
        self.o, self.i = out, 0

    def peek(self):
        return self.o[self.i]

    def take(self, k=1):
        r = self.o[self.i:self.i + k]
        if len(r) != k:
            raise IndexError("output too short")
        self.i += k
        return r

    def status(self):
        return self.take()[0]

    def table(self):
        if self.peek() == PANICKED:
            self.take()
            return None
        n = self.take()[0]
        return [tuple(self.take(3)) for _ in range(n)]

    def enc(self):
        t = self.take()[0]
        if t == 1:
            return tuple(self.take(2))
        if t == 0:
            return None
        return "panic"

    def dec(self):
        if self.peek() == PANICKED:
            self.take()
            return "panic"
        return tuple(self.take(3))


def parse(inp, out):
    """Structured view of an implementation output; None if the whole case panicked / aborted."""
    if len(out) == 1 and out[0] in SPECIAL:
        return None
    c = split_input(inp)
    w = Walk(out)
    res = dict(c=c)
    e = dict(status=w.status())
    if e["status"] == 0:
        e["table"] = w.table()
        if e["table"] is not None:
            e["enc"] = [w.enc() for _ in c["syms"]]
            e["dec"] = [w.dec() for _ in c["qs"]]
    res["E"] = e
    if c["flags"] & 1:
        v = {}
        d = dict(status=w.status())
        if d["status"] == 0:
            d["table"] = w.table()
            d["dec"] = [w.dec() for _ in c["qs"]]
        v["ncd"] = d
        d = dict(status=w.status())
        if d["status"] == 0:
            d["enc"] = [w.enc() for _ in range(c["n"] + 1)]
        v["nce"] = d
        if c["pb"] <= 16:
            for key in ("cl", "ncl"):
                d = dict(status=w.status())
                if d["status"] == 0:
                    d["table"] = w.table()
                    d["dec"] = [w.dec() for _ in c["qs"]]
                v[key] = d
        res["V"] = v
    lz = dict(status=w.status())
    if lz["status"] == 0:
        lz["enc"] = [w.enc() for _ in c["syms"]]
        lz["dec"] = [w.dec() for _ in c["qs"]]
        if c["flags"] & 4 and c["P"] <= 12:
            if w.peek() == PANICKED:
                w.take()
                lz["sweep"] = "panic"
            else:
                k = w.take()[0]
                lz["sweep"] = [tuple(w.take(4)) for _ in range(k)]
    res["L"] = lz
    if c["flags"] & 2:
        st = w.status()
        res["Pf"] = (st, w.take()[0] if st == 0 else None)
    if c["flags"] & 8:
        x = dict(status=w.status())
        if x["status"] == 0:
            x["table"] = w.table()
        res["X"] = x
    if w.i != len(out):
        raise IndexError("output too long")
    return res


def table_problem(t, n, P, relabelled=False):
    """C03's predicate on a dumped symbol table: None if it tiles [0, 2^P) with n >= 2 non-empty
    consecutive intervals for the symbols 0..n-1 (or 3i+10)."""
    if t is None:
        return "symbol_table panicked"
    if len(t) != n or n < 2:
        return "table has %d entries for %d weights" % (len(t), n)
    acc = 0
    for i, (s, c, p) in enumerate(t):
        want = 3 * i + 10 if relabelled else i
        if s != want:
            return "entry %d has symbol %d" % (i, s)
        if c != acc:
            return "entry %d: left cumulative %d, expected %d" % (i, c, acc)
        if p < 1:
            return "entry %d: probability %d" % (i, p)
        acc += p
    if acc != 1 << P:
        return "probabilities sum to %d, not 2^%d" % (acc, P)
    return None


def _parse_or_msg(inp, out):
    try:
        r = parse(inp, out)
    except (IndexError, ValueError) as ex:
        return None, "malformed harness output: %s" % ex
    if r is None:
        return None, "the whole case ended in a panic/abort/timeout (code %d)" % out[0]
    return r, None


def _lookup(t, q):
    for e in t:
        if e[1] <= q < e[1] + e[2]:
            return e
    return None


def oracle_c03(inp, out):
    """Every model that a `_fast` constructor returned is valid and exactly invertible: the dumped
    table tiles [0,2^P); every direct query (eager and lazy) is consistent with it."""
    r, msg = _parse_or_msg(inp, out)
    if msg:
        return msg
    c = r["c"]
    n, P = c["n"], c["P"]
    e = r["E"]
    if e["status"] == PANICKED:
        return "eager constructor panicked"
    t = None
    if e["status"] == 0:
        t = e["table"]
        m = table_problem(t, n, P)
        if m:
            return "eager model: " + m
        for s, got in zip(c["syms"], e["enc"]):
            want = (t[s][1], t[s][2]) if s < n else None
            if got != want:
                return "eager left_cumulative_and_probability(%d) = %r, table says %r" % (s, got, want)
        for q, got in zip(c["qs"], e["dec"]):
            if got != _lookup(t, q):
                return "eager quantile_function(%d) = %r, table says %r" % (q, got, _lookup(t, q))
    for key, d in r.get("V", {}).items():
        if d["status"] == PANICKED:
            return "%s constructor panicked" % key
        if d["status"] == 0 and "table" in d:
            m = table_problem(d["table"], n, P, relabelled=key in ("ncd", "ncl"))
            if m:
                return "%s model: %s" % (key, m)
            for q, got in zip(c["qs"], d["dec"]):
                if got != _lookup(d["table"], q):
                    return "%s quantile_function(%d) = %r" % (key, q, got)
    lz = r["L"]
    if lz["status"] == PANICKED:
        return "lazy constructor panicked"
    if lz["status"] == 0:
        encs = {}
        for s, got in zip(c["syms"], lz["enc"]):
            if got == "panic":
                return "lazy left_cumulative_and_probability(%d) panicked" % s
            if (got is None) != (s >= n):
                return "lazy left_cumulative_and_probability(%d) = %r with %d symbols" % (s, got, n)
            if got is not None:
                if got[1] < 1 or got[0] + got[1] > (1 << P) or got[1] >= (1 << P):
                    return "lazy entry for symbol %d is (%d, %d)" % (s, got[0], got[1])
                encs[s] = got
        for q, got in zip(c["qs"], lz["dec"]):
            if got == "panic":
                return "lazy quantile_function(%d) panicked" % q
            s, cum, p = got
            if not (0 <= s < n and cum <= q < cum + p):
                return "lazy quantile_function(%d) = %r does not contain the quantile" % (q, got)
            if s in encs and encs[s] != (cum, p):
                return "lazy quantile_function(%d) = %r but encoding symbol %d reports %r" % (q, got, s, encs[s])
        sw = lz.get("sweep")
        if sw is not None:
            if sw == "panic":
                return "lazy quantile sweep panicked"
            m = table_problem([x[:3] for x in sw], n, P)
            if m:
                return "lazy decoder swept over all quantiles: " + m
            if any(x[3] != x[2] for x in sw):
                return "lazy decoder: an interval is hit by a different number of quantiles than its probability"
    return None


def oracle_c05(inp, out):
    """All representations built by the same-named constructor from the same input are the same
    model: same accept/reject decision and identical (cum, p) for every symbol / quantile dumped."""
    r, msg = _parse_or_msg(inp, out)
    if msg:
        return msg
    c = r["c"]
    n = c["n"]
    e, lz = r["E"], r["L"]
    if e["status"] != lz["status"]:
        return "eager constructor status %d, lazy constructor status %d" % (e["status"], lz["status"])
    for key, d in r.get("V", {}).items():
        if d["status"] != e["status"]:
            return "eager constructor status %d, %s constructor status %d" % (e["status"], key, d["status"])
    if e["status"] != 0:
        return None
    t = e["table"]
    if t is None:
        return "eager symbol_table panicked"
    for s, a, b in zip(c["syms"], e["enc"], lz["enc"]):
        if a != b:
            return "symbol %d: eager %r, lazy %r" % (s, a, b)
        want = (t[s][1], t[s][2]) if s < len(t) else None
        if a != want:
            return "symbol %d: direct query %r, symbol_table %r" % (s, a, want)
    for q, a, b in zip(c["qs"], e["dec"], lz["dec"]):
        if a != b:
            return "quantile %d: eager %r, lazy %r" % (q, a, b)
    sw = lz.get("sweep")
    if sw is not None and sw != [(s, cum, p, p) for (s, cum, p) in t]:
        return "lazy decoder swept over all quantiles differs from the eager symbol table"
    rt = [(3 * s + 10, cum, p) for (s, cum, p) in t]
    for key, d in r.get("V", {}).items():
        if "table" in d:
            want = rt if key in ("ncd", "ncl") else t
            if d["table"] != want:
                return "%s symbol_table differs from the eager model's" % key
            for q, a, b in zip(c["qs"], e["dec"], d["dec"]):
                a2 = (3 * a[0] + 10, a[1], a[2]) if key in ("ncd", "ncl") else a
                if a2 != b:
                    return "quantile %d: eager %r, %s %r" % (q, a, key, b)
        if key == "nce":
            want = [(cum, p) for (_, cum, p) in t] + [None]
            if d["enc"] != want:
                return "non-contiguous encoder model differs from the eager model's table"
    return None


def oracle_c19(inp, out):
    """Every constructor either fails cleanly (Err or panic) or returns a model satisfying C03."""
    r, msg = _parse_or_msg(inp, out)
    if msg:
        # a process abort (unsafe-precondition check) or hang is not a clean failure
        return msg if out and out[0] in (-999998, -999997) else None
    c = r["c"]
    n, P = c["n"], c["P"]
    if r["E"]["status"] == 0:
        m = table_problem(r["E"]["table"], n, P)
        if m:
            return "eager constructor accepted the input but: " + m
    if c["flags"] & 48:
        for key in ("ncd", "nce", "ncl"):
            d = r.get("V", {}).get(key)
            if d and d["status"] == 0:
                return ("%s `_fast` constructor accepted %d symbols for %d probabilities"
                        % (key, n + (1 if c["flags"] & 16 else -1), n))
    for key, d in r.get("V", {}).items():
        if c["flags"] & 48 and key != "cl":
            continue
        if d["status"] == 0 and "table" in d:
            m = table_problem(d["table"], n, P, relabelled=key in ("ncd", "ncl"))
            if m:
                return "%s constructor accepted the input but: %s" % (key, m)
        if d["status"] == 0 and key == "nce":
            acc = 0
            for i, x in enumerate(d["enc"][:-1]):
                if x is None or x == "panic" or x[0] != acc or x[1] < 1:
                    return "encoder model accepted the input but symbol %d reports %r" % (i, x)
                acc += x[1]
            if acc != 1 << P or n < 2:
                return "encoder model accepted the input but probabilities sum to %d" % acc
    lz = r["L"]
    if lz["status"] == 0:
        if n < 2:
            return "lazy constructor accepted %d entries" % n
        if oracle_c03(inp, out):
            return "lazy/eager constructor accepted the input but: " + oracle_c03(inp, out)
    pf = r.get("Pf")
    if pf and pf[0] == 0 and pf[1] != 1:
        return "`_perfect` constructor returned a model that does not tile [0, 2^P)"
    x = r.get("X")
    if x and x["status"] == 0:
        m = table_problem(x["table"], len(c["fixed"]), P)
        if m:
            return "from_nonzero_fixed_point_probabilities accepted %r but: %s" % (c["fixed"], m)
        if [e[2] for e in x["table"]] != c["fixed"]:
            return "from_nonzero_fixed_point_probabilities changed the probabilities"
    return None


def oracle_c09(inp, out):
    """symbols outside 0..n-1 are impossible under every representation of the float-built model
    (eager table and lazy model): the encoder answers None, never some other symbol's interval"""
    r, msg = _parse_or_msg(inp, out)
    if msg:
        return msg if out and out[0] in (-999998, -999997) else None
    c = r["c"]
    n = c["n"]
    for key in ("E", "L"):
        d = r.get(key)
        if not d or d["status"] != 0 or "enc" not in d:
            continue
        for s, x in zip(c["syms"], d["enc"]):
            if s >= n and x is not None:
                return "%s model of %d symbols: symbol %d outside the support got %r" % (
                    "eager" if key == "E" else "lazy", n, s, x)
    return None


ORACLES = {"C09": oracle_c09, "C03_float": oracle_c03, "C05_float": oracle_c05, "C19_float": oracle_c19,
           "C03": oracle_c03, "C05": oracle_c05, "C19": oracle_c19}


def nontrivial(inp, out, prop):
    try:
        r = parse(inp, out)
    except (IndexError, ValueError):
        return False
    if r is None:
        return False
    if prop.startswith("C19"):
        sts = [r["E"]["status"], r["L"]["status"]] + [d["status"] for d in r.get("V", {}).values()]
        if "Pf" in r:
            sts.append(r["Pf"][0])
        if "X" in r:
            sts.append(r["X"]["status"])
        return any(s != 0 for s in sts)
    if prop.startswith("C05"):
        return r["E"]["status"] == 0 and r["L"]["status"] == 0 and len(r["L"].get("dec", [])) >= 1
    return r["E"]["status"] == 0 and r["c"]["n"] >= 2


def describe(inp):
    c = split_input(inp)
    vals = [fval(c["fk"], b) for b in c["ws"][:8]]
    return "%s Probability=u%d PRECISION=%d n=%d weights=%s%s norm=%s flags=%d, %d symbol / %d quantile queries" % (
        "f32" if c["fk"] == 0 else "f64", c["pb"], c["P"], c["n"], vals, "..." if c["n"] > 8 else "",
        fval(c["fk"], c["nb"]) if c["has_norm"] else None, c["flags"], len(c["syms"]), len(c["qs"])) + (
        " fixed=%r" % c["fixed"] if c["fixed"] is not None else "")
