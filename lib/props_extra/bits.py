"""property entries delivered by the bits family (merged by tools/merge_shared.py)"""
PROPS = {
    "C16": dict(
        coq=["Props.C16"],
        fams=[("fam_bits", "gen_fill", 180, 6000), ("fam_bits", "gen_stack", 160, 5000),
              ("fam_bits", "gen_import", 152, 4000), ("fam_bits", "gen_queue", 152, 4000),
              ("fam_bits", "gen_eg", 220, 6000), ("fam_bits", "gen_eg_garbage", 152, 4000),
              ("fam_bits", "gen_free", 152, 4000)],
        anchors=["src/symbol/mod.rs", "src/symbol/exp_golomb.rs", "src/backends.rs"],
        rule="a bit or Exp-Golomb symbol read back with the value the list-level simulation predicts AND (stack "
             "content > 1 word, or export+re-import with a partially filled last word, or an Exp-Golomb value "
             ">= 7 round-tripped, or > WB bits read from a queue decoder)",
        level_text="Machine-checked Coq theorems (unbounded: every word width WB > 0, every usize width, every "
                   "coder state satisfying the documented invariant, every finite interleaving of write / read / "
                   "len / export+import / guard inspection; Exp-Golomb for every integer width 0 < BITS < 2^32 and "
                   "every n < 2^BITS incl. 2^BITS-1) about a field-by-field Gallina model (backend, current_word, "
                   "mask) of StackCoder / QueueEncoder / QueueDecoder and ExpGolomb: refinement to list bool "
                   "(write = cons/snoc, stack read = LIFO uncons with None on empty, queue decoder = FIFO then zero "
                   "padding then None, len = |content|), export/import of the stack at every fill level (raw: "
                   "from_compressed(into_compressed c) = normal form of c; import/export mutually inverse; zero "
                   "last word rejected), observational equivalence = equal content, Exp-Golomb code = ideal code, "
                   "decode(encode n) = n on list / stack / queue sources, over-long / non-canonical / truncated "
                   "codes rejected. Tied to the source by the differential correspondence check (u8..u64, usize, "
                   "Default aliases; ExpGolomb<u8..u64>).",
        level_note="Trusted: Coq kernel + vm_compute; the hand-written model (Model/BitCoder.v, Model/ExpGolomb.v) "
                   "corresponds to symbol/mod.rs and exp_golomb.rs only as far as the sampled correspondence shows "
                   "(raw fields observed through the public Debug impl); only Vec / Cursor<Vec> backends are "
                   "modelled (infallible writes); as_decoder / iter / into_decoder are the identity in a pure "
                   "model; no axioms (Closed under the global context). The theorems are about the code after "
                   "the fix: commit for F4 (end marker = highest set bit).",
        technique="Coq proof (bit-level invariant + refinement to list bool + normal-form equivalence) + "
                  "model/implementation correspondence",
        design_ref="DESIGN.md section 4, C16 (and the bit-coder parts of C08, C18)",
    ),
}
