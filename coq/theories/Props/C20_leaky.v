(* Props/C20_leaky.v -- C20 ("no zero value inside a non-zero probability type") for
   LeakilyQuantizedDistribution, for EVERY distribution: [nl] (the integers
   [(free_weight * cdf(x - 0.5)) as Probability] the quantiser observes) is an arbitrary function --
   not monotone, not bounded -- so a buggy or adversarial safe implementation of the
   `probability::distribution::Distribution` trait is covered.  Statements only. *)
From CV Require Import Base.Bits Model.EModel Model.Leaky.
From CV Require Import Proofs.Leaky_nonzero.
From Coq Require Import ZArith List.
Import ListNotations.
Open Scope Z_scope.

(* DecoderModel::quantile_function: whenever it returns (no panic), the probability is non-zero *)
Theorem C20_leaky_quantile_nonzero : forall c dbg lo hi (nl : Z -> N) hintv q s cu p,
  lq_quantile c dbg lo hi nl hintv q = DOk s cu p -> p <> 0%N.
Proof. exact lq_quantile_nonzero. Qed.

(* IterableEntropyModel::symbol_table: every entry that is yielded has a non-zero probability *)
Theorem C20_leaky_table_nonzero : forall c dbg lo hi (nl : Z -> N) t,
  lq_table c dbg lo hi nl = Some t -> Forall (fun e => snd e <> 0%N) t.
Proof. exact lq_table_nonzero. Qed.

Check C20_leaky_quantile_nonzero : forall c dbg lo hi (nl : Z -> N) hintv q s cu p,
  lq_quantile c dbg lo hi nl hintv q = DOk s cu p -> p <> 0%N.
Check C20_leaky_table_nonzero : forall c dbg lo hi (nl : Z -> N) t,
  lq_table c dbg lo hi nl = Some t -> Forall (fun e => snd e <> 0%N) t.

(* Finding F16 (repaired): LeakyQuantizer::<f64, i8, u8, 4>::new(-4..=4) with a CDF that DROPS by
   one quantum between -0.5 and 0.5 (free_weight = 7; 7*0.5 -> 3, 7*0.3 -> 2).  The iterator used
   to yield (0, 7, NonZero(0)); it now panics like the encoder side always did. *)
Definition f16_cfg := {| SYMB := 8; sgn := true; PB := 8; PR := 4 |}.
Definition f16_nl (x : Z) : N := if x <? 0 then 0%N else if x <? 1 then 3%N else if x <? 2 then 2%N else 7%N.

Example ex_f16_table_panics : lq_table f16_cfg true (-4) 4 f16_nl = None
                           /\ lq_table f16_cfg false (-4) 4 f16_nl = None.
Proof. vm_compute. split; reflexivity. Qed.

(* non-vacuity: on the same garbage CDF other queries do return, with non-zero probabilities *)
Example ex_f16_quantile_returns :
  lq_quantile f16_cfg true (-4) 4 f16_nl 0 3 = DOk (-1) 3 4.
Proof. vm_compute. reflexivity. Qed.

Print Assumptions C20_leaky_quantile_nonzero.
Print Assumptions C20_leaky_table_nonzero.
