#!/usr/bin/env python3
"""usage: merge_shared.py <agent-name>
Merges the additive changes an agent made to shared files of its copy /var/tmp/cv-<name> into /verif:
_CoqProject lines, harness main.rs mods/arms, Cargo.toml deps, props.py entries (-> lib/props_extra/<name>.py),
known_findings.txt lines."""
import os, re, sys
name = sys.argv[1]
S = "/var/tmp/cv-%s" % name
V = "/verif"

def lines(p):
    return open(p).read().split("\n") if os.path.exists(p) else []

# _CoqProject
mine = lines(V + "/coq/_CoqProject")
add = [l for l in lines(S + "/coq/_CoqProject") if l.strip() and l not in mine]
if add:
    open(V + "/coq/_CoqProject", "w").write("\n".join([l for l in mine if l.strip()] + add) + "\n")
    print("_CoqProject +", add)

# main.rs
m = open(V + "/harness/src/main.rs").read()
theirs = open(S + "/harness/src/main.rs").read()
for mod in re.findall(r"^mod (fam_\w+);", theirs, re.M):
    if "mod %s;" % mod not in m:
        m = m.replace("mod fam_ans;\n", "mod fam_ans;\nmod %s;\n" % mod, 1)
        print("main.rs + mod", mod)
for arm in re.findall(r'^\s*"(\w+)" => (fam_\w+)::run\(&mut r, &mut out\),', theirs, re.M):
    if '"%s" =>' % arm[0] not in m:
        m = m.replace('        "ans" => fam_ans::run(&mut r, &mut out),\n',
                      '        "ans" => fam_ans::run(&mut r, &mut out),\n        "%s" => %s::run(&mut r, &mut out),\n' % arm, 1)
        print("main.rs + arm", arm)
open(V + "/harness/src/main.rs", "w").write(m)

# Cargo.toml deps
c = open(V + "/harness/Cargo.toml").read()
for l in lines(S + "/harness/Cargo.toml"):
    if re.match(r"^[\w-]+\s*=", l) and l not in c and not l.startswith(("name", "version", "edition", "opt-level", "overflow", "debug")):
        c = c.replace("\n[profile.dev]", l + "\n\n[profile.dev]", 1) if "\n\n[profile.dev]" not in c else c.replace("\n\n[profile.dev]", "\n" + l + "\n\n[profile.dev]", 1)
        print("Cargo.toml +", l)
open(V + "/harness/Cargo.toml", "w").write(c)

# props.py entries
src = open(S + "/lib/props.py").read()
mine_src = open(V + "/lib/props.py").read()
entries = re.findall(r'^    "(C\w+)": dict\(\n(.*?)^    \),\n', src, re.M | re.S)
new = [(k, body) for k, body in entries if ('    "%s": dict(' % k) not in mine_src]
if new:
    with open(V + "/lib/props_extra/%s.py" % name, "w") as f:
        f.write('"""property entries delivered by the %s family (merged by tools/merge_shared.py)"""\nPROPS = {\n' % name)
        for k, body in new:
            f.write('    "%s": dict(\n%s    ),\n' % (k, body))
        f.write("}\n")
    print("props_extra/%s.py:" % name, [k for k, _ in new])

# known findings
kf = open(V + "/known_findings.txt").read()
for l in lines(S + "/known_findings.txt"):
    if l.startswith(("known:", "fixed:")) and l not in kf:
        kf += l + "\n"
        print("known_findings +", l[:100])
open(V + "/known_findings.txt", "w").write(kf)
