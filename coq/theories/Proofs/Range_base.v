(* Proofs/Range_base.v -- arithmetic facts shared by the range-coder proofs:
   powers of the word base, wrapping add/sub, shifts on State, digit strings. *)
From CV Require Import Base.Bits Model.EModel Model.Range Model.RangeSpec.
From Coq Require Import ZifyBool ZifyN.
Open Scope N_scope.
Set Default Timeout 30.

(* ---------- generic div / mod helpers ---------- *)
Lemma div_sandwich a b D X : 0 < D -> a * D <= X -> X < b * D -> a <= X / D < b.
Proof.
  intros HD H1 H2. split.
  - apply div_ge_lower; assumption.
  - apply div_lt_upper; assumption.
Qed.

Lemma mod_add_mul a b M : M <> 0 -> (a + b * M) mod M = a mod M.
Proof. intros. apply N.mod_add. assumption. Qed.

Lemma mod_sub_small X L M : M <> 0 -> L <= X -> X - L < M ->
  (X mod M + (M - L mod M)) mod M = X - L.
Proof.
  intros HM HL Hd.
  pose proof (N.mod_lt X M HM) as HX. pose proof (N.mod_lt L M HM) as HLm.
  pose proof (N.div_mod X M HM) as EX. pose proof (N.div_mod L M HM) as EL.
  assert (Hq : L / M <= X / M) by (apply N.div_le_mono; assumption).
  (* X - L = (X/M - L/M) * M + (X mod M - L mod M)  with the difference < M *)
  destruct (N.le_gt_cases (L mod M) (X mod M)) as [Hle|Hgt].
  - assert (X / M = L / M) by nia.
    replace (X mod M + (M - L mod M)) with ((X mod M - L mod M) + 1 * M) by lia.
    rewrite N.mod_add by assumption. rewrite N.mod_small by lia. nia.
  - assert (X / M = L / M + 1) by nia.
    rewrite N.mod_small by lia. nia.
Qed.

(* ---------- wrapping operations ---------- *)
Lemma wadd_small s a b : a + b < 2 ^ s -> wadd s a b = a + b.
Proof. intros. unfold wadd. apply trunc_small. assumption. Qed.

Lemma wadd_wrap s a b : 2 ^ s <= a + b -> a + b < 2 * 2 ^ s -> wadd s a b = a + b - 2 ^ s.
Proof.
  intros H1 H2. unfold wadd, trunc.
  replace (a + b) with ((a + b - 2 ^ s) + 1 * 2 ^ s) at 1 by lia.
  rewrite N.mod_add by apply pow2_nz. apply N.mod_small. lia.
Qed.

Lemma wadd_lt s a b : wadd s a b < 2 ^ s.
Proof. apply trunc_lt. Qed.

Lemma wadd_mod s a b : wadd s a b = (a + b) mod 2 ^ s.
Proof. reflexivity. Qed.

Lemma wsub_mod s X L : L <= X -> X - L < 2 ^ s ->
  wsub s (X mod 2 ^ s) (L mod 2 ^ s) = X - L.
Proof.
  intros HL Hd. unfold wsub, trunc.
  rewrite N.mod_mod by apply pow2_nz.
  apply mod_sub_small; [apply pow2_nz|assumption|assumption].
Qed.

(* the test [x < x (+) r] of the code: "the addition did not wrap" *)
Lemma wadd_gt_iff s x r : x < 2 ^ s -> 0 < r -> r < 2 ^ s ->
  (x <? wadd s x r) = (x + r <? 2 ^ s).
Proof.
  intros Hx Hr Hr2.
  destruct (N.ltb_spec (x + r) (2 ^ s)) as [Hlt|Hge].
  - rewrite wadd_small by assumption. apply N.ltb_lt. lia.
  - rewrite wadd_wrap by lia. apply N.ltb_ge. lia.
Qed.

(* ---------- word / state geometry ---------- *)
Section Geometry.
Variable c : rcfg.
Hypothesis Hc : wf_rcfg c.

Local Notation W := (rWB c).
Local Notation S := (rSB c).

Definition Bw : N := 2 ^ rWB c.               (* word base B *)
Definition Tw : N := 2 ^ (rSB c - rWB c).     (* renormalisation threshold T *)
Definition Mw : N := 2 ^ rSB c.               (* M = 2^SB = T * B *)

Lemma W_pos : 0 < W. Proof. destruct Hc as (? & _). assumption. Qed.
Lemma W_le_S : 2 * W <= S. Proof. destruct Hc as (_ & ? & _). assumption. Qed.

Lemma M_eq_TB : Mw = Tw * Bw.
Proof. unfold Mw, Tw, Bw. apply pow2_split. pose proof W_le_S. lia. Qed.

Lemma B_ge2 : 2 <= Bw.
Proof.
  unfold Bw. pose proof W_pos. 
  replace 2 with (2 ^ 1) at 1 by reflexivity. apply pow2_le. lia.
Qed.

Lemma B_le_T : Bw <= Tw.
Proof. unfold Bw, Tw. apply pow2_le. pose proof W_le_S. lia. Qed.

Lemma T_pos : 0 < Tw. Proof. apply pow2_pos. Qed.
Lemma B_pos : 0 < Bw. Proof. apply pow2_pos. Qed.
Lemma M_pos : 0 < Mw. Proof. apply pow2_pos. Qed.

Lemma T_lt_M : Tw < Mw.
Proof. rewrite M_eq_TB. pose proof B_ge2. pose proof T_pos. nia. Qed.

Lemma rthr_eq : rthr c = Tw.
Proof.
  unfold rthr, shl, Tw. rewrite shiftl_mul, N.mul_1_l.
  apply trunc_small. apply pow2_lt. pose proof W_pos. pose proof W_le_S. lia.
Qed.

Lemma smax_eq : smax c = Mw - 1. Proof. reflexivity. Qed.
Lemma wmax_eq : wmax c = Bw - 1. Proof. reflexivity. Qed.

(* precision facts: 0 < P <= PB <= W *)
Lemma P_le_W P : prec_ok c P -> P <= W.
Proof. intros [_ HP]. destruct Hc as (_ & _ & _ & _ & HPB). lia. Qed.

Lemma powP_le_B P : prec_ok c P -> 2 ^ P <= Bw.
Proof. intros HP. apply pow2_le. apply P_le_W. assumption. Qed.

Lemma powP_ge2 P : prec_ok c P -> 2 <= 2 ^ P.
Proof.
  intros [HP _]. replace 2 with (2 ^ 1) at 1 by reflexivity. apply pow2_le. lia.
Qed.

Lemma T_split_P P : prec_ok c P -> Tw = 2 ^ (S - W - P) * 2 ^ P.
Proof.
  intros HP. unfold Tw.  apply pow2_split.
  pose proof (P_le_W P HP). pose proof W_le_S. lia.
Qed.

Lemma shl1P P : prec_ok c P -> shl S 1 P = 2 ^ P.
Proof.
  intros HP. unfold shl. rewrite shiftl_mul, N.mul_1_l. apply trunc_small.
  apply pow2_lt. pose proof (P_le_W P HP). pose proof W_le_S. pose proof W_pos. lia.
Qed.

(* State << Word::BITS *)
Lemma shl_W x : shl S x W = (x * Bw) mod Mw.
Proof. unfold shl, trunc. rewrite shiftl_mul. reflexivity. Qed.

Lemma shl_W_small x : x < Tw -> shl S x W = x * Bw.
Proof.
  intros Hx. rewrite shl_W. apply N.mod_small. rewrite M_eq_TB.
  pose proof B_pos. nia.
Qed.

Lemma mulB_mod x : (x * Bw) mod Mw = (x mod Tw) * Bw.
Proof.
  rewrite M_eq_TB.
  pose proof T_pos. pose proof B_pos.
  rewrite N.mul_mod_distr_r by lia. reflexivity.
Qed.

(* ((x << W) | w): the low word of a shifted State is free *)
Lemma lor_low_word x w : w < Bw -> N.lor ((x * Bw) mod Mw) w = (x * Bw + w) mod Mw.
Proof.
  intros Hw. rewrite mulB_mod.
  change (x mod Tw * Bw) with (x mod Tw * 2 ^ W). rewrite lor_disjoint by exact Hw. fold Bw.
  pose proof T_pos as HT. pose proof B_pos as HB. pose proof M_eq_TB as EM.
  pose proof (N.div_mod x Tw ltac:(lia)) as Ex.
  pose proof (N.mod_lt x Tw ltac:(lia)) as Hr.
  assert (E : x * Bw + w = (x mod Tw * Bw + w) + (x / Tw) * Mw).
  { rewrite EM. set (q := x / Tw) in *. set (r := x mod Tw) in *. clearbody q r. nia. }
  rewrite E, N.mod_add by lia. symmetry. apply N.mod_small.
  rewrite EM. set (r := x mod Tw) in *. clearbody r. nia.
Qed.

(* most significant word of a State: (x >> (S - W)).as_() *)
Lemma top_word x : x < Mw -> trunc W (shr x (S - W)) = x / Tw.
Proof.
  intros Hx. rewrite shr_div. fold Tw. apply trunc_small. fold Bw.
  apply div_lt_upper; [apply T_pos|]. rewrite N.mul_comm, <- M_eq_TB. assumption.
Qed.

Lemma top_word_lt x : x < Mw -> x / Tw < Bw.
Proof.
  intros Hx. apply div_lt_upper; [apply T_pos|]. rewrite N.mul_comm, <- M_eq_TB. assumption.
Qed.

(* words per state *)
Lemma wps_spec : S = N.of_nat (wps c) * W.
Proof.
  unfold wps. rewrite N2Nat.id. destruct Hc as (HW & _ & Hmod & _). 
  pose proof (N.div_mod S W ltac:(lia)) as E. rewrite Hmod in E. lia.
Qed.

Lemma wps_ge2 : (2 <= wps c)%nat.
Proof.
  pose proof wps_spec as E. pose proof W_le_S. pose proof W_pos.
  assert (2 <= N.of_nat (wps c)) by nia. lia.
Qed.

Lemma wps_N : N.of_nat (wps c) = S / W.
Proof. unfold wps. apply N2Nat.id. Qed.

End Geometry.

(* ---------- powers of the word base indexed by nat ---------- *)
Definition Bp (wb : N) (k : nat) : N := 2 ^ (wb * N.of_nat k).

Lemma Bp_0 wb : Bp wb 0 = 1.
Proof. unfold Bp. rewrite N.mul_0_r. reflexivity. Qed.

Lemma Bp_S wb k : Bp wb (Datatypes.S k) = Bp wb k * 2 ^ wb.
Proof.
  unfold Bp. rewrite <- N.pow_add_r. f_equal. lia.
Qed.

Lemma Bp_add wb a b : Bp wb (a + b) = Bp wb a * Bp wb b.
Proof. unfold Bp. rewrite <- N.pow_add_r. f_equal. lia. Qed.

Lemma Bp_pos wb k : 0 < Bp wb k.
Proof. apply pow2_pos. Qed.

Lemma Bp_1 wb : Bp wb 1 = 2 ^ wb.
Proof. unfold Bp. f_equal. lia. Qed.

Lemma Bp_wps c : wf_rcfg c -> Bp (rWB c) (wps c) = 2 ^ rSB c.
Proof.
  intros Hc. unfold Bp. f_equal. pose proof (wps_spec c Hc). nia.
Qed.

Lemma Bp_wps_pred c : wf_rcfg c -> Bp (rWB c) (wps c - 1) = Tw c.
Proof.
  intros Hc. unfold Bp, Tw. f_equal.
  pose proof (wps_spec c Hc). pose proof (wps_ge2 c Hc).
  replace (N.of_nat (wps c - 1)) with (N.of_nat (wps c) - 1) by lia. nia.
Qed.

(* ---------- val_rev : value of a digit list, least significant first ---------- *)
Lemma val_rev_cons wb x l : val_rev wb (x :: l) = val_rev wb l * 2 ^ wb + x.
Proof. cbn [val_rev]. rewrite shiftl_mul. reflexivity. Qed.

Lemma val_rev_nil wb : val_rev wb [] = 0.
Proof. reflexivity. Qed.

Lemma val_rev_app wb l1 l2 :
  val_rev wb (l1 ++ l2) = val_rev wb l2 * Bp wb (length l1) + val_rev wb l1.
Proof.
  induction l1 as [|x r IH].
  - cbn [app length]. rewrite Bp_0, val_rev_nil. lia.
  - cbn [app length]. rewrite !val_rev_cons, IH, Bp_S. lia.
Qed.

Lemma val_rev_repeat_max wb j : val_rev wb (repeat (2 ^ wb - 1) j) = Bp wb j - 1.
Proof.
  induction j as [|j IH].
  - rewrite Bp_0. reflexivity.
  - cbn [repeat]. rewrite val_rev_cons, IH, Bp_S.
    pose proof (pow2_pos wb). pose proof (Bp_pos wb j). nia.
Qed.

Lemma val_rev_repeat_zero wb j : val_rev wb (repeat 0 j) = 0.
Proof.
  induction j as [|j IH]; [reflexivity|].
  cbn [repeat]. rewrite val_rev_cons, IH. lia.
Qed.

Lemma val_rev_lt wb l : Forall (fun w => w < 2 ^ wb) l -> val_rev wb l < Bp wb (length l).
Proof.
  induction 1 as [|x r Hx _ IH].
  - rewrite Bp_0. cbn. lia.
  - cbn [length]. rewrite val_rev_cons, Bp_S. pose proof (pow2_pos wb). nia.
Qed.

(* ---------- digits ---------- *)
Lemma digits_rev_length B n v : length (digits_rev B n v) = n.
Proof. revert v. induction n; intros; cbn; auto. Qed.

Lemma digits_rev_val wb l : Forall (fun w => w < 2 ^ wb) l ->
  digits_rev (2 ^ wb) (length l) (val_rev wb l) = l.
Proof.
  induction 1 as [|x r Hx _ IH]; [reflexivity|].
  cbn [length digits_rev]. rewrite val_rev_cons.
  rewrite mod_mul_add_small, div_mul_add_small by assumption.
  rewrite IH. reflexivity.
Qed.

Lemma digits_rev_lt wb n v : Forall (fun w => w < 2 ^ wb) (digits_rev (2 ^ wb) n v).
Proof.
  revert v. induction n as [|n IH]; intros v; cbn [digits_rev]; constructor.
  - apply N.mod_lt, pow2_nz.
  - apply IH.
Qed.

Lemma val_rev_digits_rev wb n v : v < Bp wb n -> val_rev wb (digits_rev (2 ^ wb) n v) = v.
Proof.
  revert v. induction n as [|n IH]; intros v Hv.
  - rewrite Bp_0 in Hv. cbn. lia.
  - cbn [digits_rev]. rewrite val_rev_cons, IH.
    + pose proof (N.div_mod v (2 ^ wb) (pow2_nz wb)). lia.
    + rewrite Bp_S in Hv. apply div_lt_upper; [apply pow2_pos|]. lia.
Qed.

(* ---------- tval : value of the first j words of a text, zero filled ---------- *)
Lemma tval_S wb t j : tval wb t (Datatypes.S j) = tval wb t j * 2 ^ wb + nth j t 0.
Proof. cbn [tval]. rewrite shiftl_mul. reflexivity. Qed.

Definition text_ok (wb : N) (t : list N) : Prop := Forall (fun w => w < 2 ^ wb) t.

Lemma text_nth wb t j : text_ok wb t -> nth j t 0 < 2 ^ wb.
Proof.
  intros Ht. destruct (Nat.lt_ge_cases j (length t)) as [Hlt|Hge].
  - apply (proj1 (Forall_forall _ _) Ht). apply nth_In. assumption.
  - rewrite nth_overflow by assumption. apply pow2_pos.
Qed.

Lemma tval_lt wb t j : text_ok wb t -> tval wb t j < Bp wb j.
Proof.
  intros Ht. induction j as [|j IH].
  - rewrite Bp_0. cbn. lia.
  - rewrite tval_S, Bp_S. pose proof (text_nth wb t j Ht). pose proof (pow2_pos wb). nia.
Qed.

(* a prefix of the digits is the quotient *)
Lemma tval_prefix wb t j i : text_ok wb t -> tval wb t (j + i) / Bp wb i = tval wb t j.
Proof.
  intros Ht. induction i as [|i IH].
  - rewrite Nat.add_0_r, Bp_0. apply N.div_1_r.
  - replace (j + Datatypes.S i)%nat with (Datatypes.S (j + i)) by lia.
    rewrite tval_S, Bp_S.
    rewrite (N.mul_comm (Bp wb i)), <- N.div_div by (try apply pow2_nz; pose proof (Bp_pos wb i); lia).
    rewrite div_mul_add_small by (apply text_nth; assumption).
    exact IH.
Qed.

Lemma nth_skipn_add (t : list N) j i : nth i (skipn j t) 0 = nth (j + i) t 0.
Proof.
  revert t. induction j as [|j IH]; intros t; [reflexivity|].
  destruct t as [|x r]; [destruct i; reflexivity|].
  cbn [skipn]. apply IH.
Qed.

Lemma skipn_add (l : list N) a b : skipn a (skipn b l) = skipn (b + a) l.
Proof.
  revert l. induction b as [|b IH]; intros l; [reflexivity|].
  destruct l as [|x r]; [destruct a; reflexivity|].
  cbn [skipn Nat.add]. apply IH.
Qed.

Lemma tval_split wb t j i : tval wb t (j + i) = tval wb t j * Bp wb i + tval wb (skipn j t) i.
Proof.
  induction i as [|i IH].
  - rewrite Nat.add_0_r, Bp_0. cbn [tval]. lia.
  - replace (j + Datatypes.S i)%nat with (Datatypes.S (j + i)) by lia.
    rewrite !tval_S, IH, Bp_S.
    replace (nth i (skipn j t) 0) with (nth (j + i) t 0).
    + lia.
    + rewrite nth_skipn_add. reflexivity.
Qed.

Lemma tval_app_l wb a b j : (j <= length a)%nat -> tval wb (a ++ b) j = tval wb a j.
Proof.
  induction j as [|j IH]; intros Hj; [reflexivity|].
  rewrite !tval_S, IH by lia. rewrite app_nth1 by lia. reflexivity.
Qed.

Lemma tval_rev_digits wb l : tval wb (rev l) (length l) = val_rev wb l.
Proof.
  induction l as [|x r IH]; [reflexivity|].
  cbn [rev length]. rewrite tval_S, val_rev_cons.
  rewrite tval_app_l by (rewrite rev_length; lia).
  rewrite IH. rewrite app_nth2 by (rewrite rev_length; lia).
  rewrite rev_length, Nat.sub_diag. reflexivity.
Qed.

Lemma text_ok_app wb a b : text_ok wb a -> text_ok wb b -> text_ok wb (a ++ b).
Proof. intros. apply Forall_app. auto. Qed.

Lemma text_ok_skipn wb t j : text_ok wb t -> text_ok wb (skipn j t).
Proof.
  revert t. induction j as [|j IH]; intros t Ht; [exact Ht|].
  destruct t as [|x r]; [constructor|].
  cbn [skipn]. apply IH. inversion Ht; assumption.
Qed.

Lemma tval_nil wb j : tval wb [] j = 0.
Proof.
  induction j as [|j IH]; [reflexivity|].
  rewrite tval_S, IH. destruct j; reflexivity.
Qed.
