(* Props/C04.v -- ANS decoding is invertible on arbitrary bits. Statements only. *)
From CV Require Import Base.Bits Model.EModel Model.Ans.
From CV Require Import Proofs.Ans_lemmas Proofs.Ans_binary Proofs.Ans_history.
Open Scope N_scope.

(* surjectivity, one step: pop then push restores the coder *)
Theorem C04_push_pop : forall c m s a a',
  wf_cfg c -> wf_model m -> em_prec m <= WB c -> ans_inv c a ->
  ans_decode_sym c m a = (s, a') ->
  ans_inv c a' /\ ans_encode_sym c m s a' = Some a.
Proof. intros c m s a a' Hc. exact (ans_push_pop c Hc m s a a'). Qed.

(* raw binary data of ANY content (also ending in zero words) is exported word
   for word by both accessors, and the reported payload size is exact *)
Theorem C04_binary_export : forall c data,
  wf_cfg c -> Forall (fun w => w < 2 ^ WB c) data ->
  let a := ans_from_binary c data in
  ans_inv c a
  /\ ans_into_binary c a = Some data
  /\ ans_get_binary c a = Some data
  /\ ans_num_valid_bits c a = WB c * N.of_nat (length data).
Proof. intros c data Hc. exact (ans_binary_roundtrip c Hc data). Qed.

(* bits-back: decode any number of symbols with any models from any data, encode
   them back in reverse order: the coder, hence its binary export, is restored *)
Theorem C04_bitsback : forall c data ms ss a',
  wf_cfg c -> Forall (fun w => w < 2 ^ WB c) data -> Forall (model_ok c) ms ->
  ans_decode_all c ms (ans_from_binary c data) = (ss, a') ->
  exists a'', ans_encode_all c (rev (combine ms ss)) a' = Some a''
    /\ ans_into_binary c a'' = Some data /\ ans_get_binary c a'' = Some data.
Proof.
  intros c data ms ss a' Hc Hd Hms Hdec.
  destruct (ans_binary_roundtrip c Hc data Hd) as (Hinv & Hib & Hgb & _).
  destruct (ans_bitsback c Hc ms _ ss a' Hms Hinv Hdec) as (_ & _ & Hback).
  eexists. split; [exact Hback|]. split; assumption.
Qed.

(* decoding never fails and stays in the model's support, for EVERY state *)
Theorem C04_decode_total : forall c m a, wf_model m ->
  let '(s, _) := ans_decode_sym c m a in exists cum p, em_enc m s = Some (cum, p).
Proof. exact ans_decode_in_support. Qed.

Check C04_binary_export : forall c data,
  wf_cfg c -> Forall (fun w => w < 2 ^ WB c) data ->
  let a := ans_from_binary c data in
  ans_inv c a /\ ans_into_binary c a = Some data /\ ans_get_binary c a = Some data
  /\ ans_num_valid_bits c a = WB c * N.of_nat (length data).

(* non-vacuity *)
Example ex_binary : ans_into_binary {| WB := 8; SB := 32 |}
                      (ans_from_binary {| WB := 8; SB := 32 |} [5; 0; 0; 0; 7; 0]) = Some [5; 0; 0; 0; 7; 0].
Proof. vm_compute. reflexivity. Qed.

Print Assumptions C04_push_pop.
Print Assumptions C04_binary_export.
Print Assumptions C04_bitsback.
Print Assumptions C04_decode_total.
