#!/bin/bash
# usage: merge_agent.sh <name>   -- copies files that exist only in /var/tmp/cv-<name> into /verif
# and lists files that exist in both and differ (to merge by hand)
S=/var/tmp/cv-$1
cd $S || exit 1
find . -type f \( -name '*.v' -o -name '*.rs' -o -name '*.py' -o -name '*.txt' -o -name '*.md' -o -name '*.toml' -o -name '_CoqProject' -o -name 'Cargo.lock' \) \
  -not -path './.cache/*' -not -path './repo/*' -not -path './replay/*' -not -path './.git/*' | sort | while read f; do
  if [ ! -e "/verif/$f" ]; then mkdir -p "/verif/$(dirname $f)"; cp "$f" "/verif/$f"; echo "NEW  $f";
  elif ! cmp -s "$f" "/verif/$f"; then echo "DIFF $f"; fi
done
