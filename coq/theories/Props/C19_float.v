(* Props/C19_float.v -- C19 (floating-point part): the float constructors of categorical models
   reject invalid input; what they accept is valid.  Statements only. *)
From Coq Require Import ZArith NArith List Bool.
From Flocq Require Import Core IEEE754.BinarySingleNaN.
From CV Require Import Base.Bits Model.EModel Model.FloatQ.
From CV Require Import Proofs.Table_lemmas Proofs.FloatQ_float Proofs.FloatQ_cdf Proofs.FloatQ_validator
  Proofs.FloatQ_rejects.
Open Scope N_scope.

(* fast_quantized_cdf (hence every eager `_fast` constructor: contiguous, non-contiguous, lookup)
   and the lazy constructor return Err(()) when
   - there are fewer than 2 entries, or at least 2^P - 1 of them,
   - some entry is NaN, +-infinite or strictly negative ([bad_entry]; -0.0 is accepted),
   - the normalisation (given, or summed left to right from -0.0) is not normal or not positive
     (NaN, +-inf, +-0, subnormal, negative: see C19_norm_special). *)
Theorem C19_float_ctor_rejects :
  forall prec emax (Hprec : Prec_gt_0 prec) (Hmax : Prec_lt_emax prec emax) PB P
         (ws : list (binary_float prec emax)) (norm : option (binary_float prec emax)),
  0 < P -> P <= fq_USZ -> N.of_nat (length ws) < 2 ^ fq_USZ ->
  (N.of_nat (length ws) < 2 \/ 2 ^ P <= N.of_nat (length ws) + 1
   \/ Exists (bad_entry prec emax) ws
   \/ fq_norm_ok prec emax (match norm with Some x => x | None => fq_sum prec emax Hprec Hmax ws end) = false) ->
  fq_fast_cdf prec emax Hprec Hmax PB P ws norm = FqErr
  /\ fq_eager_table prec emax Hprec Hmax PB P ws norm = FqErr
  /\ fq_lazy_new prec emax Hprec Hmax PB P ws norm = FqErr.
Proof.
  intros prec emax Hprec Hmax PB P ws norm HP HPU Hlen Hbad.
  exact (float_ctor_rejects prec emax Hprec Hmax PB P HP HPU ws norm Hlen Hbad).
Qed.

Theorem C19_norm_special :
  forall prec emax (x : binary_float prec emax),
  is_finite_strict x = false \/ Bsign x = true -> fq_norm_ok prec emax x = false.
Proof. exact fq_norm_ok_special. Qed.

Theorem C19_norm_ok_inv :
  forall prec emax (x : binary_float prec emax),
  fq_norm_ok prec emax x = true ->
  exists m e Hb, x = B754_finite false m e Hb /\ Z.pos (SpecFloat.digits2_pos m) = prec.
Proof. exact fq_norm_ok_inv. Qed.

(* For ANY input whatsoever: either both constructors return Err, or both return Ok and the
   eager table is an exactly invertible model; a panic / overflow / zero probability is never
   the outcome. *)
Theorem C19_float_ctor_err_or_valid :
  forall prec emax (Hprec : Prec_gt_0 prec) (Hmax : Prec_lt_emax prec emax) PB P
         (ws : list (binary_float prec emax)) (norm : option (binary_float prec emax)),
  0 < P -> P <= PB -> PB <= fq_USZ -> N.of_nat (length ws) < 2 ^ fq_USZ ->
  (fq_eager_table prec emax Hprec Hmax PB P ws norm = FqErr
   /\ fq_lazy_new prec emax Hprec Hmax PB P ws norm = FqErr)
  \/ (exists t scale, fq_eager_table prec emax Hprec Hmax PB P ws norm = FqOk t /\ wf_table P t
      /\ fq_lazy_new prec emax Hprec Hmax PB P ws norm = FqOk {| lz_pmf := ws; lz_scale := scale |}).
Proof.
  intros prec emax Hprec Hmax PB P ws norm HP HPB HU Hlen.
  apply (float_ctor_decides prec emax Hprec Hmax PB P HP); try assumption.
  apply N.le_trans with PB; assumption.
Qed.

(* `_perfect` constructors: the input validation (length, negative entries, f64 sum normal and
   positive) rejects with Err whatever the optimisation loop would do ... *)
Theorem C19_perfect_rejects :
  forall prec emax prec2 emax2 (Hprec2 : Prec_gt_0 prec2) (Hmax2 : Prec_lt_emax prec2 emax2)
         (optimise : list (binary_float prec emax) -> fq_res (list N)) PB P
         (ws : list (binary_float prec emax)),
  (N.of_nat (length ws) < 2 \/ 2 ^ PB - 1 < N.of_nat (length ws)
   \/ Exists (fun w => fq_lt prec emax w (fq_zero prec emax) = true) ws
   \/ fq_norm_ok prec2 emax2
        (fq_sum prec2 emax2 Hprec2 Hmax2 (map (fq_widen prec emax prec2 emax2 Hprec2 Hmax2) ws)) = false) ->
  fq_perfect_table prec emax prec2 emax2 Hprec2 Hmax2 optimise PB P ws = FqErr.
Proof.
  intros. apply perfect_rejects. apply perfect_validate_rejects. assumption.
Qed.

(* ... and whatever they return was accepted by the fixed-point validator
   (accumulate_nonzero_probabilities, infer_last_probability = false) applied to the optimiser's
   weights, for EVERY optimiser (the libm-based loop is not modelled). *)
Theorem C19_perfect_through_validator :
  forall prec emax prec2 emax2 (Hprec2 : Prec_gt_0 prec2) (Hmax2 : Prec_lt_emax prec2 emax2)
         (optimise : list (binary_float prec emax) -> fq_res (list N)) PB P
         (ws : list (binary_float prec emax)) t,
  fq_perfect_table prec emax prec2 emax2 Hprec2 Hmax2 optimise PB P ws = FqOk t ->
  fq_perfect_validate prec emax prec2 emax2 Hprec2 Hmax2 PB ws = true /\
  exists weights cdf, optimise ws = FqOk weights
    /\ fq_validate_fixed PB P (map (trunc PB) weights) = Some cdf
    /\ fq_table_of_ext PB (fq_extend PB P cdf) = Some t.
Proof. exact perfect_through_validator. Qed.

(* ... and the validator only accepts exact tilings (integer proof, wrapping arithmetic at
   P = PB included): every model a `_perfect` constructor returns is exactly invertible and its
   probabilities are the optimiser's weights. *)
Theorem C19_perfect_ok_valid :
  forall prec emax prec2 emax2 (Hprec2 : Prec_gt_0 prec2) (Hmax2 : Prec_lt_emax prec2 emax2)
         (optimise : list (binary_float prec emax) -> fq_res (list N)) PB P
         (ws : list (binary_float prec emax)) t,
  0 < P -> P <= PB ->
  fq_perfect_table prec emax prec2 emax2 Hprec2 Hmax2 optimise PB P ws = FqOk t ->
  wf_table P t /\ wf_model (table_model P t)
  /\ exists weights, optimise ws = FqOk weights /\ map (fun e => snd e) t = map (trunc PB) weights.
Proof.
  intros prec emax prec2 emax2 Hprec2 Hmax2 optimise PB P ws t HP HPB H.
  destruct (perfect_ok_valid prec emax prec2 emax2 Hprec2 Hmax2 optimise PB P ws t HP HPB H) as [Hwf Hw].
  split; [exact Hwf|]. split; [apply table_model_wf; exact Hwf|exact Hw].
Qed.

(* the validator itself *)
Theorem C19_validate_fixed_sound :
  forall PB P ps cdf,
  0 < P -> P <= PB -> Forall (fun p => p < 2 ^ PB) ps ->
  fq_validate_fixed PB P ps = Some cdf ->
  exists t, fq_table_of_ext PB (fq_extend PB P cdf) = Some t /\ wf_table P t
            /\ map (fun e => snd e) t = ps.
Proof. exact fq_validate_fixed_sound. Qed.

Check C19_float_ctor_rejects :
  forall prec emax (Hprec : Prec_gt_0 prec) (Hmax : Prec_lt_emax prec emax) PB P
         (ws : list (binary_float prec emax)) (norm : option (binary_float prec emax)),
  0 < P -> P <= fq_USZ -> N.of_nat (length ws) < 2 ^ fq_USZ ->
  (N.of_nat (length ws) < 2 \/ 2 ^ P <= N.of_nat (length ws) + 1
   \/ Exists (bad_entry prec emax) ws
   \/ fq_norm_ok prec emax (match norm with Some x => x | None => fq_sum prec emax Hprec Hmax ws end) = false) ->
  fq_fast_cdf prec emax Hprec Hmax PB P ws norm = FqErr
  /\ fq_eager_table prec emax Hprec Hmax PB P ws norm = FqErr
  /\ fq_lazy_new prec emax Hprec Hmax PB P ws norm = FqErr.

Check C19_float_ctor_err_or_valid :
  forall prec emax (Hprec : Prec_gt_0 prec) (Hmax : Prec_lt_emax prec emax) PB P
         (ws : list (binary_float prec emax)) (norm : option (binary_float prec emax)),
  0 < P -> P <= PB -> PB <= fq_USZ -> N.of_nat (length ws) < 2 ^ fq_USZ ->
  (fq_eager_table prec emax Hprec Hmax PB P ws norm = FqErr
   /\ fq_lazy_new prec emax Hprec Hmax PB P ws norm = FqErr)
  \/ (exists t scale, fq_eager_table prec emax Hprec Hmax PB P ws norm = FqOk t /\ wf_table P t
      /\ fq_lazy_new prec emax Hprec Hmax PB P ws norm = FqOk {| lz_pmf := ws; lz_scale := scale |}).

(* ---------------------------------------------------------------- examples *)

(* every kind of bad entry exists (non-vacuity of [bad_entry]) and is rejected by evaluation *)
Example ex_bad_entries :
  let nan := fq_f32_of_bits 2143289344 in let inf := fq_f32_of_bits 2139095040 in
  let neg := fq_f32_of_bits 3204448256 (* -0.5 *) in let one := fq_f32_of_bits 1065353216 in
  bad_entry 24 128 nan /\ bad_entry 24 128 inf /\ bad_entry 24 128 neg
  /\ fq_eager_table 24 128 _ _ 32 24 [one; nan; one] None = FqErr
  /\ fq_eager_table 24 128 _ _ 32 24 [one; inf; one] None = FqErr
  /\ fq_eager_table 24 128 _ _ 32 24 [one; neg; one] None = FqErr           (* the F10 witness *)
  /\ fq_lazy_new 24 128 _ _ 32 24 [one; neg; one] None = FqErr
  /\ fq_eager_table 24 128 _ _ 32 24 [one] None = FqErr
  /\ fq_eager_table 24 128 _ _ 8 2 [one; one; one] None = FqErr              (* 3 >= 2^2 - 1 *)
  /\ fq_eager_table 24 128 _ _ 32 24 [fq_zero 24 128; fq_zero 24 128] None = FqErr (* sum = 0 *)
  /\ fq_eager_table 24 128 _ _ 32 24 [one; one] (Some (fq_f32_of_bits 1)) = FqErr  (* subnormal *)
  /\ fq_eager_table 24 128 _ _ 32 24 [one; one] (Some neg) = FqErr.
Proof. vm_compute. repeat split; try reflexivity; try (left; reflexivity); right; reflexivity. Qed.

(* -0.0 entries are accepted (they pass `>= 0`) and give a valid model *)
Example ex_negative_zero_accepted :
  fq_eager_table 24 128 _ _ 8 8 [fq_f32_of_bits 2147483648; fq_f32_of_bits 1065353216] None
  = FqOk [(0%Z, 0, 1); (1%Z, 1, 255)].
Proof. vm_compute. reflexivity. Qed.

(* the validator accepts a lap-exact table at P = PB and rejects a single entry, a zero, a
   total that is off by one and two laps *)
Example ex_validator :
  fq_validate_fixed 8 8 [100; 100; 56] = Some [0; 100; 200]
  /\ fq_validate_fixed 8 8 [0] = None /\ fq_validate_fixed 8 4 [16] = None
  /\ fq_validate_fixed 8 4 [8; 0; 8] = None /\ fq_validate_fixed 8 4 [8; 7] = None
  /\ fq_validate_fixed 8 8 [200; 200; 112] = None.
Proof. vm_compute. repeat split. Qed.

Print Assumptions C19_float_ctor_rejects.
Print Assumptions C19_norm_special.
Print Assumptions C19_norm_ok_inv.
Print Assumptions C19_float_ctor_err_or_valid.
Print Assumptions C19_perfect_rejects.
Print Assumptions C19_perfect_through_validator.
Print Assumptions C19_perfect_ok_valid.
Print Assumptions C19_validate_fixed_sound.
