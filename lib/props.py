"""Per-property configuration: Coq modules holding the theorems, correspondence families with
generators and case counts (quick, thorough), anchored source files."""

# family module name -> generator name -> (quick cases, thorough cases)
PROPS = {
    "C01": dict(
        coq=["Props.C01"],
        fams=[("fam_ans", "gen_stack", 600, 40000), ("fam_ans", "gen_free", 150, 5000),
              ("fam_ans", "gen_sweep", 16, 0)],
        anchors=["src/stream/stack.rs", "src/stream/mod.rs", "src/backends.rs", "src/lib.rs"],
        rule="ans history with >=1 decode and >=1 word flushed to bulk (observed in exported words / raw parts)",
        level_text="Machine-checked Coq theorems (unbounded: every state satisfying the documented invariant, every "
                   "Word/State width with State >= 2*Word, every PRECISION <= Word bits, every exactly invertible "
                   "model, every finite stack-disciplined history incl. reloads) about a Gallina model of "
                   "AnsCoder; the model is tied to the current source by a differential check (harness vs "
                   "vm_compute) on seeded histories incl. batch/reverse/fallible forms.",
        level_note="Trusted: Coq kernel + vm_compute; the hand-written model (Model/Ans.v) corresponds to "
                   "stack.rs only as far as the sampled correspondence shows; type menu of the harness; "
                   "no axioms (Closed under the global context). clone is the identity in a pure model.",
        technique="Coq proof (invariant + refinement to an abstract stack) + model/implementation correspondence",
        design_ref="DESIGN.md section 4, C01",
    ),
    "C04": dict(
        coq=["Props.C04"],
        fams=[("fam_ans", "gen_binary", 500, 30000), ("fam_ans", "gen_free", 100, 3000)],
        anchors=["src/stream/stack.rs", "src/lib.rs"],
        rule="from_binary data of >=1 word, >=1 symbol decoded and pushed back",
        level_text="Machine-checked Coq theorems: pop-then-push restores every valid coder (surjectivity), "
                   "from_binary of ANY word list is exported word for word by into_binary and get_binary "
                   "(trailing zero words included), num_valid_bits is exact, decoding is total; for all widths "
                   "and precisions. Tied to the source by the differential correspondence check.",
        level_note="Trusted: Coq kernel + vm_compute; hand-written model tied to stack.rs by sampled "
                   "correspondence; no axioms. The theorem is about the code after the fix: commit for F1.",
        technique="Coq proof (div/mod identities, induction over the word list) + correspondence",
        design_ref="DESIGN.md section 4, C04",
    ),

    "C06": dict(
        coq=["Props.C06_ans"],
        fams=[("fam_ans", "gen_encode_only", 500, 30000), ("fam_ans", "gen_stack", 200, 10000),
              ("fam_docvec", "gen_doc", 2, 2)],
        anchors=["src/stream/stack.rs", "src/stream/queue.rs", "README-rust.md", "tests/readme.rs", "src/lib.rs"],
        rule="message of >=3 symbols whose export has more words than the state holds (>=1 flush), or a documented example vector",
        level_text="Coq theorem: for every message and every width/precision the machine-level ANS model exports "
                   "exactly the words of a reference rANS written in plain unbounded arithmetic (Model/AnsRef.v); "
                   "README vector re-computed by vm_compute from pinned (cum,p) pairs which the harness re-derives "
                   "from the real Gaussian models on every run. The implementation's words are compared exactly with "
                   "the model AND with an independent Python reference.",
        level_note=""
                   "Trusted: Coq kernel + vm_compute; model tied to the source by sampled correspondence; Gaussian CDF "
                   "values are pinned constants re-derived from the implementation, not verified.",
        technique="Coq proof (machine model = arithmetic reference) + exact word-for-word correspondence",
        design_ref="DESIGN.md section 4, C06",
    ),
    "C07": dict(
        coq=["Props.C07_ans", "Props.C01"],
        fams=[("fam_ansseek", "gen_seek", 600, 40000)],
        anchors=["src/stream/stack.rs", "src/stream/queue.rs", "src/backends.rs", "src/lib.rs"],
        rule="message of >=3 symbols, >=1 seek and >=1 decode after a seek",
        level_text="Coq theorem: a (position,state) snapshot taken at any symbol boundary, handed to a decoder over "
                   "the final bulk whatever its previous state, restores the coder exactly as it was (encoding only "
                   "appends to the bulk); with C01 this gives the decoded symbols; out-of-range positions refused. "
                   "Correspondence over borrowed, owned and consuming (Vec) seekable decoders.",
        level_note="Reverse<Cursor> decoders are not exercised (position remapping is not "
                   "documented). Trusted: Coq kernel + vm_compute; sampled correspondence.",
        technique="Coq proof (prefix stability of the bulk) + correspondence",
        design_ref="DESIGN.md section 4, C07",
    ),
    "C08": dict(
        coq=["Props.C08_ans"],
        fams=[("fam_ans", "gen_twin", 600, 40000)],
        anchors=["src/stream/stack.rs", "src/stream/queue.rs", "src/symbol/mod.rs"],
        rule="twin history with >=1 inspection and >=1 encode after it",
        level_text="Coq theorems: opening and dropping the get_compressed / get_binary guards is the identity on "
                   "every coder, the view equals the export, a refused raw-binary view writes nothing. Twin runs on "
                   "the implementation (inspected coder vs never-inspected twin) compared result by result.",
        level_note="iter_compressed, num_*, is_empty, clone are pure "
                   "functions in the model; their effect-freeness in the code is established by the twin runs only.",
        technique="Coq proof (guard round trip) + twin-run correspondence",
        design_ref="DESIGN.md section 4, C08",
    ),
    "C09": dict(
        coq=["Props.C09_ans"],
        fams=[("fam_ans", "gen_impossible", 500, 30000), ("fam_ansb", "gen_bounded", 400, 20000),
              ("fam_ans", "gen_stack", 200, 10000)],
        anchors=["src/stream/stack.rs", "src/stream/queue.rs", "src/stream/chain.rs", "src/lib.rs"],
        rule="history with >=1 rejected symbol (or >=1 failed write) followed by >=1 successful operation",
        level_text="Coq theorems: an out-of-support symbol yields ImpossibleSymbol without touching the coder; with a "
                   "bounded sink the only outcomes are Ok (= unbounded result), ImpossibleSymbol, BackendFull, the "
                   "capacity is never exceeded and with room left nothing changes. Correspondence with out-of-support "
                   "symbols incl. 2^16+i, 2^32+i and a bounded Cursor sink of every capacity.",
        level_note="Trusted: Coq kernel + vm_compute; sampled "
                   "correspondence.",
        technique="Coq proof + correspondence with failure injection",
        design_ref="DESIGN.md section 4, C09",
    ),
    "C10": dict(
        coq=["Props.C10_ans"],
        fams=[("fam_ans", "gen_free", 600, 40000)],
        anchors=["src/stream/stack.rs", "src/stream/queue.rs", "src/stream/chain.rs"],
        rule="history starting from imported garbage words with >=1 decode",
        level_text="Coq theorems: ANS decoding of EVERY state returns a symbol of the model's support, its arithmetic "
                   "cannot overflow the State type, any imported word list yields a valid coder or is refused. "
                   "Debug-build harness (overflow + unsafe-precondition checks) on garbage streams.",
        level_note="Out-of-bounds reads of compiled "
                   "code are runtime truth (see C20).",
        technique="Coq proof (totality, no overflow) + debug-build correspondence on garbage",
        design_ref="DESIGN.md section 4, C10",
    ),
    "C12": dict(
        coq=["Props.C12_ans", "Props.C12_ans_bits"],
        fams=[("fam_ans", "gen_encode_only", 500, 20000)],
        anchors=["src/stream/stack.rs", "src/stream/queue.rs", "src/stream/mod.rs"],
        rule="message of >=10 symbols with the size bound evaluated at >=1 point",
        level_text="Coq theorem in exact integer form: from the empty coder, (2^WB)^(words-1) * prod(p_i K_i) <= "
                   "2^(SB-WB) * prod(2^P_i (K_i+1)) with K_i = 2^(SB-WB-P_i), i.e. bits <= SB + sum(P_i - log2 p_i) + "
                   "sum log2(1+1/K_i); and words <= n + ceil(SB/WB). The same inequality is evaluated with exact "
                   "integers on the implementation's word counts.",
        level_note="The bit-count reading (C12_ans_bits, over Coq's reals) and the "
                   "0.006 bit figure of the default preset (C12_default_overhead, by CoqInterval) depend on the "
                   "standard library's real-number axioms and primitive int/float declarations, listed in the "
                   "evidence; the integer theorems are axiom-free. The docs' 0.1% figure is not claimed.",
        technique="Coq proof (potential-function induction) + exact-integer oracle on the implementation",
        design_ref="DESIGN.md section 4, C12",
    ),
    "C18": dict(
        coq=["Props.C18_ans"],
        fams=[("fam_ans", "gen_encode_only", 300, 10000), ("fam_ans", "gen_free", 300, 10000),
              ("fam_ans", "gen_binary", 200, 10000)],
        anchors=["src/stream/stack.rs", "src/stream/queue.rs", "src/symbol/mod.rs", "src/stream/model.rs"],
        rule="history in which a size query is immediately followed by an export",
        level_text="Coq theorems: num_words = length of the export, is_empty <=> empty export (on valid coders), "
                   "num_valid_bits of from_binary data = data size. Sizes compared with exports at every query point "
                   "on the implementation.",
        level_note="",
        technique="Coq proof + correspondence",
        design_ref="DESIGN.md section 4, C18",
    ),
}

PROPS["C20"] = dict(
    coq=["Props.C20_cursor", "Props.C20_models", "Props.C15:C20_huffman", "Props.C03_float:C20_float",
         "Props.C10_ans:C10_ans_decode_fits", "Props.C13:C13_decode_no_overflow,C13_encode_no_overflow",
         "Props.C03_leaky:C03_leaky_step_guard,C10_leaky", "Props.C20_leaky"],
    fams=[("fam_ans", "gen_free", 150, 2500), ("fam_ans", "gen_stack", 100, 2500),
          ("fam_ansseek", "gen_seek", 100, 2000), ("fam_ansb", "gen_bounded", 60, 1500),
          ("fam_backend", "gen_cursor", 150, 4000), ("fam_backend", "gen_adapter", 60, 1500),
          ("fam_backend", "gen_bufmut", 6, 30),
          ("fam_bits", "gen_free", 100, 2000), ("fam_bits", "gen_eg_garbage", 60, 1500),
          ("fam_chain", "gen_free", 120, 2500), ("fam_chain", "gen_boundary", 60, 1500),
          ("fam_huff", "gen_edge", 30, 750), ("fam_huff", "gen_overflow", 6, 30),
          ("fam_models", "gen_malformed", 150, 4000), ("fam_models", "gen_valid", 100, 2500),
          ("fam_models", "gen_conv", 120, 2500),
          ("fam_floatq", "gen_malformed", 80, 2000), ("fam_floatq", "gen_f9", 40, 1000),
          ("fam_leaky", "gen_step", 50, 2000), ("fam_leaky", "gen_f13", 15, 500), ("fam_leaky", "gen_f16", 40, 1500),
          ("fam_leaky", "gen_new", 40, 1500)],
    anchors=["src/lib.rs", "src/backends.rs", "src/stream/model/categorical/contiguous.rs",
             "src/stream/model/categorical/non_contiguous.rs", "src/stream/model/categorical/lookup_contiguous.rs",
             "src/stream/model/categorical/lookup_noncontiguous.rs", "src/stream/model/quantize.rs",
             "src/stream/model/uniform.rs", "src/stream/queue.rs", "src/stream/chain.rs", "src/symbol/huffman.rs"],
    rule="case of any family that reaches an unsafe site's precondition boundary: rejected/malformed constructor input, "
         "garbage stream, boundary position, or a listed known class",
    level_text="PARTIAL by nature. What is proved: in the Gallina models every `get_unchecked`, `into_nonzero_unchecked`, "
               "`unreachable_unchecked` site and every plain (non-wrapping) arithmetic operation is a CHECKED operation "
               "with a distinct UB_*/overflow result, and theorems show these results unreachable from the safe API: "
               "cursor index sites and usize subtractions (C20_cursor_*), table / lookup / uniform model sites "
               "(C20_models_*), Huffman array sites (C20_huffman_*), non-zero probabilities of the float constructors "
               "(C20_float_nonzero), non-zero probabilities of the leaky quantiser for EVERY distribution, monotone or not "
               "(C20_leaky_*, true after the F16 repair), no overflow in ANS and chain coder steps, the leaky search's "
               "step guard. "
               "What is run: every family's cases in a DEBUG build (overflow checks, debug assertions, std's "
               "unsafe-precondition checks) in a child process; a process abort, an arithmetic panic or a hang anywhere "
               "is a violation.",
    level_note="The model cannot exhibit compiled-code behaviour (aliasing, uninitialised memory, what LLVM does after UB); "
               "everything that is not an index / non-zero / unreachable / overflow obligation is outside. The thorough "
               "tier adds an AddressSanitizer build of harness + crate (nightly, release profile, pre-built std); Miri "
               "is not part of the check. Known classes (printed as KNOWN-FINDING, see known_findings.txt): "
               "cursor_buf_mut_shrink (witness theorem C20_cursor_buf_mut_refuted), huffman_weight_sum_overflow. "
               "Flocq-based theorems use the four allow-listed standard-library axioms.",
    technique="Coq proof of the preconditions of every unsafe site in the models + debug-build correspondence runs",
    design_ref="DESIGN.md section 4, C20",
)

_PENDING = "not claimed yet: the model/theorems for this property are still being built (see DESIGN.md staging)"
NOT_APPLICABLE = {("C%02d" % i): _PENDING for i in range(1, 21)}


# ---- entries delivered by the per-family developments (lib/props_extra/*.py) --------------------
# Keys of the form "Cxx_<part>" are PARTS of property Cxx: their Coq modules and families are
# folded into the entry "Cxx" (created if missing); the part's texts are appended.
import glob as _glob
import importlib.util as _ilu
import os as _os

PARTS = {}
for _f in sorted(_glob.glob(_os.path.join(_os.path.dirname(_os.path.abspath(__file__)), "props_extra", "*.py"))):
    _spec = _ilu.spec_from_file_location("props_extra_" + _os.path.basename(_f)[:-3], _f)
    _m = _ilu.module_from_spec(_spec)
    _spec.loader.exec_module(_m)
    for _k, _v in _m.PROPS.items():
        if "_" in _k:
            PARTS[_k] = _v
        elif _k in PROPS:
            PARTS[_k + "_" + _os.path.basename(_f)[:-3]] = _v
        else:
            PROPS[_k] = _v


def _fold(base, part, partname):
    base["coq"] = base["coq"] + [m for m in part["coq"] if m not in base["coq"]]
    base["fams"] = base["fams"] + [f for f in part["fams"] if f not in base["fams"]]
    base["anchors"] = sorted(set(base["anchors"]) | set(part.get("anchors", [])))
    base["rule"] = base["rule"] + " | " + part["rule"]
    base["level_text"] = base["level_text"] + " || [" + partname + "] " + part["level_text"]
    base["level_note"] = base["level_note"] + " || [" + partname + "] " + part["level_note"]
    base["technique"] = base["technique"] if part["technique"] in base["technique"] else base["technique"] + "; " + part["technique"]


for _k in sorted(PARTS):
    _pid = _k.split("_")[0]
    if _pid in PROPS:
        _fold(PROPS[_pid], PARTS[_k], _k)
    else:
        PROPS[_pid] = dict(PARTS[_k])
