//! Family `ansb`: AnsCoder over a bounded sink `Cursor<Word, Vec<Word>>` with `cap` slots (C09:
//! a failed write leaves the coder intact).
//! Input: wb sb pb <models> cap ops..;  ops: 1 m sym -> 0 | -1 | -5 (backend full);
//!   2 m -> sym;  12 -> len bulk.. state.   Final raw parts appended.
use crate::common::*;
use constriction::backends::Cursor;
use constriction::stream::stack::AnsCoder;
use constriction::stream::{Decode, Encode};
use constriction::CoderError;

pub const ERR_IMPOSSIBLE: Int = -1;
pub const ERR_FULL: Int = -5;

macro_rules! with_p {
    ($Pr:ty, $p:expr, [$($lit:literal),*], |$tm:ident| $body:expr, $t:expr) => {
        match $p {
            $( $lit => { let $tm = TM::<$Pr, $lit>::new($t); $body } )*
            other => panic!("harness: precision {} not in menu", other),
        }
    };
}

macro_rules! ansb_impl {
    ($name:ident, $W:ty, $S:ty, $Pr:ty, $plist:tt) => {
        pub fn $name(r: &mut Reader, out: &mut Vec<Int>) {
            let models = read_models(r);
            let cap = r.us();
            let cursor = Cursor::new_at_write_beginning(vec![0 as $W; cap]);
            let mut coder: AnsCoder<$W, $S, Cursor<$W, Vec<$W>>> = AnsCoder::from_raw_parts(cursor, 0);
            while !r.done() {
                match r.next() {
                    1 => {
                        let m = &models[r.us()];
                        let sym = r.next() as i64;
                        let res = with_p!($Pr, m.p, $plist, |tm| coder.encode_symbol(sym, tm), &m.t);
                        out.push(match res {
                            Ok(()) => 0,
                            Err(CoderError::Frontend(_)) => ERR_IMPOSSIBLE,
                            Err(CoderError::Backend(_)) => ERR_FULL,
                        });
                    }
                    2 => {
                        let m = &models[r.us()];
                        let s = with_p!($Pr, m.p, $plist, |tm| coder.decode_symbol(tm), &m.t).unwrap();
                        out.push(s as Int);
                    }
                    9 => {
                        // batch form on the bounded sink: stops at the first failure, keeps the prefix
                        let m = &models[r.us()];
                        let syms: Vec<i64> = r.list().into_iter().map(|x| x as i64).collect();
                        let res = with_p!($Pr, m.p, $plist, |tm| coder.encode_iid_symbols(syms.iter(), tm), &m.t);
                        out.push(match res {
                            Ok(()) => 0,
                            Err(CoderError::Frontend(_)) => ERR_IMPOSSIBLE,
                            Err(CoderError::Backend(_)) => ERR_FULL,
                        });
                    }
                    12 => push_raw(&coder, out),
                    other => panic!("harness: unknown ansb op {}", other),
                }
            }
            push_raw(&coder, out);

            fn push_raw(coder: &AnsCoder<$W, $S, Cursor<$W, Vec<$W>>>, out: &mut Vec<Int>) {
                let (bulk, state) = coder.clone().into_raw_parts();
                let (buf, pos) = bulk.into_buf_and_pos();
                out.push(pos as Int);
                out.extend(buf[..pos].iter().map(|&w| w as Int));
                out.push(state as Int);
            }
        }
    };
}

ansb_impl!(ansb_8_16_8, u8, u16, u8, [1, 2, 3, 4, 5, 6, 7, 8]);
ansb_impl!(ansb_8_32_8, u8, u32, u8, [1, 2, 3, 4, 5, 6, 7, 8]);
ansb_impl!(ansb_16_32_16, u16, u32, u16, [1, 2, 3, 4, 5, 6, 7, 8, 9, 10, 11, 12, 13, 14, 15, 16]);
ansb_impl!(ansb_32_64_32, u32, u64, u32, [1, 2, 7, 8, 12, 16, 23, 24, 25, 31, 32]);

pub fn run(r: &mut Reader, out: &mut Vec<Int>) {
    let wb = r.next();
    let sb = r.next();
    let pb = r.next();
    match (wb, sb, pb) {
        (8, 16, 8) => ansb_8_16_8(r, out),
        (8, 32, 8) => ansb_8_32_8(r, out),
        (16, 32, 16) => ansb_16_32_16(r, out),
        (32, 64, 32) => ansb_32_64_32(r, out),
        _ => panic!("harness: ansb instance ({},{},{}) not in menu", wb, sb, pb),
    }
}
