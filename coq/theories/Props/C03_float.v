(* Props/C03_float.v -- C03 (floating-point part): every categorical model built by a `_fast`
   float constructor is valid and exactly invertible; C20 non-zero obligations of these paths.
   Statements only.  Float formats are Flocq's; (24,128) = f32, (53,1024) = f64. *)
From Coq Require Import ZArith NArith List Bool.
From Flocq Require Import Core IEEE754.BinarySingleNaN.
From CV Require Import Base.Bits Model.EModel Model.FloatQ.
From CV Require Import Proofs.Table_lemmas Proofs.FloatQ_float Proofs.FloatQ_cdf Proofs.FloatQ_lazy.
Open Scope N_scope.

(* For EVERY float format, every Probability width PB <= 64, every PRECISION P <= PB (P = PB:
   wrapping arithmetic), every list of finite non-negative floats of length n with
   2 <= n < 2^P - 1, and every normal positive normalisation (given, or the left-to-right sum):
   fast_quantized_cdf returns (no Err, no integer overflow) a cdf that starts at 0, is strictly
   increasing and stays below 2^P; the symbol table built from it (final entry 2^P, wrapped) is a
   consecutive tiling of [0, 2^P) by n >= 2 non-empty intervals for the symbols 0..n-1, i.e. an
   exactly invertible model. *)
Theorem C03_fast_cdf_valid :
  forall prec emax (Hprec : Prec_gt_0 prec) (Hmax : Prec_lt_emax prec emax) PB P
         (ws : list (binary_float prec emax)) (norm : option (binary_float prec emax)),
  0 < P -> P <= PB -> PB <= fq_USZ ->
  2 <= N.of_nat (length ws) -> N.of_nat (length ws) + 1 < 2 ^ P ->
  fq_all_finite_nonneg prec emax ws = true ->
  fq_norm_ok prec emax (match norm with Some x => x | None => fq_sum prec emax Hprec Hmax ws end) = true ->
  exists cdf t,
    fq_fast_cdf prec emax Hprec Hmax PB P ws norm = FqOk cdf
    /\ length cdf = length ws /\ fq_cdf_ok P cdf
    /\ fq_eager_table prec emax Hprec Hmax PB P ws norm = FqOk t
    /\ wf_table P t /\ wf_model (table_model P t)
    /\ syms t = fq_seqZ 0 (length ws).
Proof.
  intros prec emax Hprec Hmax PB P ws norm HP HPB HU H2 Hn Hall Hnorm.
  destruct (fast_cdf_valid prec emax Hprec Hmax PB P HP HPB HU ws norm H2 Hn Hall Hnorm)
    as (cdf & t & H1 & H3 & H4 & H5 & H6 & H7 & _).
  exists cdf, t. split; [exact H1|]. split; [exact H3|]. split; [exact H4|]. split; [exact H5|].
  split; [exact H6|]. split; [apply table_model_wf; exact H6|exact H7].
Qed.

(* the two Rust float types, every Probability type u8..u64, every PRECISION *)
Theorem C03_fast_cdf_valid_f32 :
  forall PB P (ws : list (binary_float 24 128)) norm,
  0 < P -> P <= PB -> PB <= 64 ->
  2 <= N.of_nat (length ws) -> N.of_nat (length ws) + 1 < 2 ^ P ->
  fq_all_finite_nonneg 24 128 ws = true ->
  fq_norm_ok 24 128 (match norm with Some x => x | None => fq_sum 24 128 _ _ ws end) = true ->
  exists t, fq_eager_table 24 128 _ _ PB P ws norm = FqOk t /\ wf_model (table_model P t).
Proof.
  intros PB P ws norm HP HPB HU H2 Hn Hall Hnorm.
  destruct (C03_fast_cdf_valid 24 128 _ _ PB P ws norm HP HPB HU H2 Hn Hall Hnorm)
    as (cdf & t & _ & _ & _ & Ht & _ & Hm & _).
  exists t. split; assumption.
Qed.

Theorem C03_fast_cdf_valid_f64 :
  forall PB P (ws : list (binary_float 53 1024)) norm,
  0 < P -> P <= PB -> PB <= 64 ->
  2 <= N.of_nat (length ws) -> N.of_nat (length ws) + 1 < 2 ^ P ->
  fq_all_finite_nonneg 53 1024 ws = true ->
  fq_norm_ok 53 1024 (match norm with Some x => x | None => fq_sum 53 1024 _ _ ws end) = true ->
  exists t, fq_eager_table 53 1024 _ _ PB P ws norm = FqOk t /\ wf_model (table_model P t).
Proof.
  intros PB P ws norm HP HPB HU H2 Hn Hall Hnorm.
  destruct (C03_fast_cdf_valid 53 1024 _ _ PB P ws norm HP HPB HU H2 Hn Hall Hnorm)
    as (cdf & t & _ & _ & _ & Ht & _ & Hm & _).
  exists t. split; assumption.
Qed.

(* C20, non-zero obligations on these paths: every probability that goes through
   into_nonzero().expect(..) / into_nonzero_unchecked() is non-zero and no plain `+` overflows
   (FqPanic is never the outcome): symbol_table of the eager model, and both query functions of
   the lazy model for EVERY symbol and EVERY quantile (no side condition on the skip-ahead). *)
Theorem C20_float_nonzero :
  forall prec emax (Hprec : Prec_gt_0 prec) (Hmax : Prec_lt_emax prec emax) PB P
         (ws : list (binary_float prec emax)) (norm : option (binary_float prec emax)),
  0 < P -> P <= PB -> PB <= fq_USZ ->
  2 <= N.of_nat (length ws) -> N.of_nat (length ws) + 1 < 2 ^ P ->
  fq_all_finite_nonneg prec emax ws = true ->
  fq_norm_ok prec emax (match norm with Some x => x | None => fq_sum prec emax Hprec Hmax ws end) = true ->
  exists t m,
    fq_eager_table prec emax Hprec Hmax PB P ws norm = FqOk t
    /\ Forall (fun e => snd e <> 0) t
    /\ fq_lazy_new prec emax Hprec Hmax PB P ws norm = FqOk m
    /\ (forall s, exists r, fq_lazy_enc prec emax Hprec Hmax PB P m s = FqOk r
                            /\ forall c p, r = Some (c, p) -> p <> 0)
    /\ (forall q, exists s c p, fq_lazy_dec prec emax Hprec Hmax PB P m q = FqOk (s, c, p) /\ p <> 0).
Proof.
  intros prec emax Hprec Hmax PB P ws norm HP HPB HU H2 Hn Hall Hnorm.
  destruct (fast_cdf_valid prec emax Hprec Hmax PB P HP HPB HU ws norm H2 Hn Hall Hnorm)
    as (cdf & t0 & _ & _ & _ & Ht0 & _ & _ & Hnz).
  destruct (lazy_eq_eager prec emax Hprec Hmax PB P HP HPB HU ws norm H2 Hn Hall Hnorm)
    as (t & m & Ht & Hm & _ & Henc & Hdec).
  rewrite Ht in Ht0. inversion Ht0; subst t0.
  exists t, m. split; [exact Ht|]. split; [exact Hnz|]. split; [exact Hm|]. split.
  - intros s. eexists. split; [apply Henc|]. intros c p Hr. apply tbl_enc_in in Hr.
    rewrite Forall_forall in Hnz. exact (Hnz _ Hr).
  - intros q. destruct (Hdec q) as (s & c & p & H1 & _ & H3 & _). exists s, c, p. auto.
Qed.

Check C03_fast_cdf_valid :
  forall prec emax (Hprec : Prec_gt_0 prec) (Hmax : Prec_lt_emax prec emax) PB P
         (ws : list (binary_float prec emax)) (norm : option (binary_float prec emax)),
  0 < P -> P <= PB -> PB <= fq_USZ ->
  2 <= N.of_nat (length ws) -> N.of_nat (length ws) + 1 < 2 ^ P ->
  fq_all_finite_nonneg prec emax ws = true ->
  fq_norm_ok prec emax (match norm with Some x => x | None => fq_sum prec emax Hprec Hmax ws end) = true ->
  exists cdf t,
    fq_fast_cdf prec emax Hprec Hmax PB P ws norm = FqOk cdf
    /\ length cdf = length ws /\ fq_cdf_ok P cdf
    /\ fq_eager_table prec emax Hprec Hmax PB P ws norm = FqOk t
    /\ wf_table P t /\ wf_model (table_model P t)
    /\ syms t = fq_seqZ 0 (length ws).

(* ---------------------------------------------------------------- examples *)

(* the historical F9 witness: f32, u32, PRECISION = 24 (the default preset),
   weights [69.56, 19.935, 24.087, 19.548, 95.695, 9.987, 0.0] *)
Definition f9_weights : list (binary_float 24 128) :=
  map fq_f32_of_bits [1116413624; 1100970721; 1103147565; 1100767822; 1119839191; 1092602561; 0]%Z.

(* the hypotheses of C03_fast_cdf_valid hold for it (non-vacuity) *)
Example f9_hypotheses :
  fq_all_finite_nonneg 24 128 f9_weights = true
  /\ fq_norm_ok 24 128 (fq_sum 24 128 _ _ f9_weights) = true
  /\ 2 <= N.of_nat (length f9_weights) /\ N.of_nat (length f9_weights) + 1 < 2 ^ 24.
Proof. vm_compute. repeat split; try reflexivity; discriminate. Qed.

(* the scaled cumulative of the last (zero-weight) symbol exceeds free_weight = 2^24 - 7 by
   rounding: without the cap the last left cumulative would be 16777210 + 6 = 2^24 *)
Example f9_uncapped_overshoots :
  let scale := fq_div 24 128 _ _ (fq_of_N 24 128 _ _ (fq_free_weight 32 24 7)) (fq_sum 24 128 _ _ f9_weights) in
  fq_free_weight 32 24 7 = 16777209
  /\ fq_to_N 24 128 32 (fq_mul 24 128 _ _ (fq_sum 24 128 _ _ f9_weights) scale) = 16777210.
Proof. vm_compute. split; reflexivity. Qed.

(* with the cap (the code as it is now) the last cumulative stays below 2^24 = 16777216 *)
Example f9_now_valid :
  fq_fast_cdf 24 128 _ _ 32 24 f9_weights None
  = FqOk [0; 4886785; 6287275; 7979455; 9352758; 16075600; 16777215]
  /\ fq_eager_table 24 128 _ _ 32 24 f9_weights None
     = FqOk [(0%Z, 0, 4886785); (1%Z, 4886785, 1400490); (2%Z, 6287275, 1692180);
             (3%Z, 7979455, 1373303); (4%Z, 9352758, 6722842); (5%Z, 16075600, 701615);
             (6%Z, 16777215, 1)].
Proof. vm_compute. split; reflexivity. Qed.

(* a run at PRECISION = Probability::BITS (wrapping arithmetic), f64, u8 *)
Example full_precision_u8 :
  fq_eager_table 53 1024 _ _ 8 8
    (map fq_f64_of_bits [4591870180066957722; 4596373779694328218; 0; 4604480259023595110]%Z) None
  = FqOk [(0%Z, 0, 26); (1%Z, 26, 51); (2%Z, 77, 1); (3%Z, 78, 178)].
Proof. vm_compute. reflexivity. Qed.

Print Assumptions C03_fast_cdf_valid.
Print Assumptions C03_fast_cdf_valid_f32.
Print Assumptions C03_fast_cdf_valid_f64.
Print Assumptions C20_float_nonzero.
