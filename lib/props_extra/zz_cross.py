"""Cross-property assignments: theorem groups that live in another property's Props file and
families that serve several properties (merged by lib/props.py like every other part)."""


def _part(coq, fams, rule, text, note, tech):
    return dict(coq=coq, fams=fams, anchors=[], rule=rule, level_text=text, level_note=note, technique=tech,
                design_ref="DESIGN.md section 4")


_LEAKY_NOTE = ("Leaky quantizer part: the floating-point CDF is not modelled; the theorems quantify over every "
               "integer table nl that is bounded by free_weight (and monotone where stated) and over EVERY inverse "
               "hint; the harness feeds the nl values it observes to the model. No axioms.")

PROPS = {
    "C03_lazy": _part(
        ["Props.C05_float"], [("fam_floatq", "gen_lazy", 120, 8000)],
        "lazy categorical model decoded at quantiles next to interval edges",
        "The lazy model's decoder returns exactly the eager table's entry for every quantile (C05_lazy_dec_eq_eager, "
        "full since Proofs/FloatQ_skip.v discharged the skip-ahead hypothesis fq_skip_ok for f32 and f64; also "
        "exercised by edge-aimed quantiles incl. f32 at PRECISION 31/32).",
        "Flocq-based; standard-library axioms classic, sig_forall_dec, sig_not_dec, functional_extensionality_dep.",
        "Coq proof + correspondence"),
    "C05_leaky": _part(
        ["Props.C03_leaky:C05_"], [("fam_leaky", "gen_step", 120, 10000), ("fam_leaky", "gen_real", 60, 8000)],
        "leaky model whose full symbol table was dumped and compared with direct queries",
        "C05_leaky_table_eq_direct: the iterated symbol table of a leakily quantized distribution equals the "
        "encoder's answers on exactly the symbols lo..hi.", _LEAKY_NOTE, "Coq proof + correspondence"),
    "C09_leaky": _part(
        ["Props.C03_leaky:C09_"], [("fam_leaky", "gen_step", 120, 10000)],
        "leaky model queried for >=1 symbol outside its support",
        "C09_leaky_outside: every symbol outside [lo,hi] gets None from the leaky encoder, for any CDF table.",
        _LEAKY_NOTE, "Coq proof + correspondence"),
    "C10_leaky": _part(
        ["Props.C03_leaky:C10_"], [("fam_leaky", "gen_step", 120, 10000), ("fam_leaky", "gen_f13", 30, 2000)],
        "leaky model decoded on >=3 quantiles with adversarial hints (F13 shapes included)",
        "C10_leaky_decode_total: the three-phase quantile search terminates within 2*bits+8 iterations for every "
        "hint and returns an in-support triple, for signed and unsigned symbol types of every width.",
        _LEAKY_NOTE, "Coq proof (explicit termination measure) + correspondence with watchdog"),
    "C19_leaky": _part(
        ["Props.C03_leaky:C19_"], [("fam_leaky", "gen_new", 150, 10000)],
        "LeakyQuantizer::new on an empty / single-element / too large / sign-extended support",
        "C19_leaky_new_rejects: empty, single-element and too large supports are rejected (panic), also beyond the "
        "Probability range (after fix 642e4b6); accepted supports get free_weight + size <= 2^P.",
        _LEAKY_NOTE, "Coq proof + correspondence"),
    "C08_bits": _part(
        ["Props.C16:C08_bits"], [("fam_bits", "gen_fill", 250, 5000), ("fam_bits", "gen_free", 200, 5000)],
        "bit coder history with an inspection (get_compressed view) followed by further writes/reads",
        "C08_bits_*: the view of a bit stack/queue coder equals what finishing it would return; dropping the guard "
        "leaves an observationally equal coder (normal form), twin-history theorems over all interleavings.",
        "No axioms. The stack guard may turn `current word full` into `word flushed`: equivalence is observational.",
        "Coq proof (refinement to list bool) + correspondence"),
    "C18_bits": _part(
        ["Props.C16:C18_bits"], [("fam_bits", "gen_fill", 250, 5000), ("fam_bits", "gen_queue", 150, 4000)],
        "bit coder history with a len / is_empty / maybe_exhausted query",
        "C18_bits_*: len = number of bits held (None exactly on usize overflow), is_empty, queue maybe_exhausted.",
        "No axioms.", "Coq proof + correspondence"),
    "C09_chain": _part(
        ["Props.C13:C13_encode_err,C13_out_of_remainders"], [("fam_chain", "gen_free", 200, 8000)],
        "chain coder history with an impossible symbol or an OutOfRemainders encode",
        "C13_encode_err: the chain coder's only encode errors are ImpossibleSymbol and OutOfRemainders, returned "
        "without a new coder state.", "No axioms. C09 oracle of the family: refusal codes per symbol, state unchanged.",
        "Coq proof + correspondence"),
    "C09_huff": _part(
        ["Props.C15:C15_huff_reject"], [("fam_huff", "gen_int", 60, 3000)],
        "Huffman tree queried with symbols outside the alphabet",
        "C15_huff_reject: symbols >= n are rejected with ImpossibleSymbol in both codeword forms.",
        "No axioms. C09 oracle of the family: rejection by both codeword forms and the message forms.",
        "Coq proof + correspondence"),
    "C10_chain": _part(
        ["Props.C13:C13_decode_err,C13_out_of_data,C13_decode_no_overflow", "Props.C14:C14_oom_independent"],
        [("fam_chain", "gen_free", 250, 8000), ("fam_chain", "gen_local", 100, 4000)],
        "chain coder decoding arbitrary data until it runs out",
        "C13_decode_err / C13_out_of_data / C13_decode_no_overflow: the chain coder's only decode error is "
        "OutOfCompressedData with an exact condition, and no modelled wrap is ever taken.",
        "No axioms. No direct C10 oracle for this family: a panic/abort/hang shows as a correspondence failure.",
        "Coq proof + debug-build correspondence"),
    "C10_models": _part(
        ["Props.C20_models:C20_models_queries_sound"], [("fam_models", "gen_valid", 200, 8000)],
        "lookup / searched model queried on listed or all quantiles",
        "C20_models_queries_sound: every quantile < 2^P of an accepted lookup or searched model is answered from "
        "inside the table (the checked get_unchecked / unreachable sites never fire).",
        "No axioms.", "Coq proof + correspondence"),
    "C06_range": _part(
        ["Props.RangeExtra:C06_range", "Props.C02:C02_encoder_refines,C02_seal_refines", "Props.C06_range_doc"],
        [("fam_range", "gen_roundtrip", 152, 6000), ("fam_range", "gen_carry", 152, 6000)],
        "range-coded message whose encoder held back >= 1 word (carry bookkeeping visible in the words)",
        "C06_range_words: for every message the sealed words of the machine-level range encoder are exactly the "
        "base-2^WB digits of the seal point of the exact interval [L, L+R) (carry-propagating range coding written "
        "without the implementation's bookkeeping); README vector [0x1C31EFEB, 0x87B430DA] recomputed by vm_compute.",
        'Range coder part: theorems about Model/Range.v (machine level, wrapping SB-bit arithmetic, six modelled panic sites proved unreachable) refined to the exact big-number spec Model/RangeSpec.v; messages shorter than 2^64 symbols (usize counter of held-back words). No axioms.', "Coq proof (refinement to a big-number spec) + exact word-for-word correspondence"),
    "C07_range": _part(
        ["Props.RangeExtra:C07_range"],
        [("fam_range", "gen_roundtrip", 152, 6000), ("fam_range", "gen_carry", 152, 6000)],
        "range decoder seeked to >= 1 snapshot (also snapshots taken while words were held back)",
        "C07_range_seek / _seek_end / _seek_refused / _pos: a snapshot (pos, state) taken at any symbol boundary, "
        "also while Inverted, handed to a decoder in ANY prior state yields the remaining symbols; seeking to the "
        "final position leaves the decoder possibly exhausted; positions beyond the data are refused.",
        'Range coder part: theorems about Model/Range.v (machine level, wrapping SB-bit arithmetic, six modelled panic sites proved unreachable) refined to the exact big-number spec Model/RangeSpec.v; messages shorter than 2^64 symbols (usize counter of held-back words). No axioms.', "Coq proof (modular decoder invariant) + correspondence"),
    "C08_range": _part(
        ["Props.RangeExtra:C08_range"],
        [("fam_range", "gen_roundtrip", 152, 6000), ("fam_range", "gen_carry", 100, 4000)],
        "range encoder inspected (get_compressed / decoder()) and then continued",
        "C08_range_guard_pure / _total: seal-view-unseal returns the encoder unchanged in both situations and the "
        "view is what into_compressed would return.", 'Range coder part: theorems about Model/Range.v (machine level, wrapping SB-bit arithmetic, six modelled panic sites proved unreachable) refined to the exact big-number spec Model/RangeSpec.v; messages shorter than 2^64 symbols (usize counter of held-back words). No axioms.', "Coq proof + correspondence"),
    "C09_range": _part(
        ["Props.RangeExtra:C09_range"], [("fam_range", "gen_roundtrip", 152, 6000)],
        "range encoder asked to encode an out-of-support symbol",
        "C09_range_impossible_rejected / _iff: ImpossibleSymbol exactly for symbols outside the support, with no new "
        "encoder state.", 'Range coder part: theorems about Model/Range.v (machine level, wrapping SB-bit arithmetic, six modelled panic sites proved unreachable) refined to the exact big-number spec Model/RangeSpec.v; messages shorter than 2^64 symbols (usize counter of held-back words). No axioms.', "Coq proof + correspondence"),
    "C10_range": _part(
        ["Props.RangeExtra:C10_range", "Props.C02:C02_decoder_refines"],
        [("fam_range", "gen_garbage", 300, 10000)],
        "range decoder over arbitrary words",
        "C10_range_decode_total / _all_total: on every word sequence the range decoder returns an in-support symbol "
        "or InvalidData, never a panic (expect(\"TODO\") and the division by scale are unreachable).",
        'Range coder part: theorems about Model/Range.v (machine level, wrapping SB-bit arithmetic, six modelled panic sites proved unreachable) refined to the exact big-number spec Model/RangeSpec.v; messages shorter than 2^64 symbols (usize counter of held-back words). No axioms.', "Coq proof + debug-build correspondence on garbage"),
    "C12_range": _part(
        ["Props.RangeExtra:C12_range", "Props.C12_range_bits"], [("fam_range", "gen_roundtrip", 152, 6000)],
        "range-coded message with the size bound evaluated",
        "C12_range_shrink / _size / _one_word_per_symbol: words <= n + 2 and B^words (M-1) prod(p_i K_i) <= "
        "B^2 M prod(2^P_i (K_i+1)) in exact integers.",
        'Range coder part: theorems about Model/Range.v (machine level, wrapping SB-bit arithmetic, six modelled panic sites proved unreachable) refined to the exact big-number spec Model/RangeSpec.v; messages shorter than 2^64 symbols (usize counter of held-back words). No axioms.' + " The logarithmic reading of the range-coder bound is not a separate theorem.",
        "Coq proof + exact-integer oracle"),
    "C18_range": _part(
        ["Props.RangeExtra:C18_range", "Props.C02:C02_roundtrip,C02_empty,C02_exhausted_empty"],
        [("fam_range", "gen_roundtrip", 152, 6000), ("fam_range", "gen_carry", 100, 4000),
         ("fam_range", "gen_clear", 60, 3000)],
        "range encoder size query followed by an export; decoder exhaustion queries",
        "C18_range_num_words / _num_bits / _is_empty / _not_exhausted and C02_roundtrip (maybe_exhausted after the "
        "last symbol).", 'Range coder part: theorems about Model/Range.v (machine level, wrapping SB-bit arithmetic, six modelled panic sites proved unreachable) refined to the exact big-number spec Model/RangeSpec.v; messages shorter than 2^64 symbols (usize counter of held-back words). No axioms.', "Coq proof + correspondence"),
    "C20_range": _part(
        ["Props.C02:C02_encoder_refines,C02_decoder_refines"], [("fam_range", "gen_garbage", 100, 4000),
                                                                 ("fam_range", "gen_carry", 100, 4000),
                                                                 ("fam_range", "gen_clear", 40, 2000)],
        "range coder case reaching a modelled panic site's boundary",
        "C02_encoder_refines / C02_decoder_refines: none of the six modelled panic / overflow sites of queue.rs is "
        "reachable from new() / from_compressed().", 'Range coder part: theorems about Model/Range.v (machine level, wrapping SB-bit arithmetic, six modelled panic sites proved unreachable) refined to the exact big-number spec Model/RangeSpec.v; messages shorter than 2^64 symbols (usize counter of held-back words). No axioms.', "Coq proof + debug-build correspondence"),
    "C11_rare": _part(
        ["Props.C11:C11_seal_pins_two_word_state,C11_one_word_seal_pins"],
        [("fam_range", "gen_seal_rare", 300, 12000)],
        "two-word-state message whose final interval was solved into a corner of the sealing rule",
        "Same theorems as C11; this part only adds the generator that SOLVES for the last symbol so that the final "
        "interval lies in the measure-zero corners of the sealing rule (low word of lower+range all ones; sealed "
        "while Inverted with the seal point wrapping), which random messages reach with probability 2^-WordBits.",
        "Generator strength only; no additional trust.", "Coq proof + steered correspondence"),
    "C06_rare": _part(
        ["Props.RangeExtra:C06_range"], [("fam_range", "gen_seal_rare", 150, 6000)],
        "sealed words of a message ending in a corner of the sealing rule",
        "Seal words in the corners of the sealing rule are compared word for word.", "-", "correspondence"),
    "C09_float": _part(
        ["Props.C05_float:C05_lazy_enc_eq_eager"],
        [("fam_floatq", "gen_lazy", 120, 8000), ("fam_floatq", "gen_valid", 80, 5000)],
        "float-built categorical model (eager and lazy) queried for symbols n, n+1, 2^40 outside its support",
        "C05_lazy_enc_eq_eager: for EVERY symbol, in or out of range, the lazy encoder returns exactly the eager "
        "table's answer (None outside 0..n-1).", "Flocq-based; the four allow-listed standard-library axioms.",
        "Coq proof + correspondence"),
}
