(* Model/Leaky.v -- LeakyQuantizer / LeakilyQuantizedDistribution
   (src/stream/model/quantize.rs), definitions only.

   The floating point distribution is NOT modelled.  The two places where the
   code talks to it are abstracted:
     nl x   = the integer [non_leaky] the code obtains for the boundary x - 0.5,
              i.e. [(free_weight * cdf(x - 0.5)) as Probability]; the code
              evaluates the cdf at [symbol - 0.5] (-> nl symbol) and at
              [symbol + 0.5] (-> nl (symbol + 1); for symbols of at most 32 bits
              both f64 expressions denote the same exactly representable number);
     hint   = the value [inverse(..) as Symbol] seeds the search with.
   Symbols are Z, always kept as the representative inside the symbol type's
   range [smin, smax]; every wrapping / checked / shifted symbol operation and
   every cast is written out.  Probabilities are N below 2^PB.

   [dbg] selects the build profile: plain [+]/[-] panic on overflow in a debug
   build and wrap in a release build. *)
From CV Require Export Base.Bits Model.EModel.
Open Scope Z_scope.

Record lcfg := {
  SYMB : N;       (* bits of the Symbol type, 8 * size_of::<Symbol>() *)
  sgn  : bool;    (* Symbol is a signed type *)
  PB   : N;       (* Probability::BITS *)
  PR   : N        (* PRECISION *)
}.

(* generic_static_asserts of LeakyQuantizer::new, plus a symbol type with at
   least the values 0 and 1 *)
Definition wf_lcfg (c : lcfg) : Prop :=
  (2 <= SYMB c)%N /\ (0 < PR c)%N /\ (PR c <= PB c)%N.

(* ---------------------------------------------------------------- symbols *)

Definition smod (c : lcfg) : Z := Z.of_N (2 ^ SYMB c).
Definition smin (c : lcfg) : Z := if sgn c then - Z.of_N (2 ^ (SYMB c - 1)) else 0.
Definition smax (c : lcfg) : Z := smin c + smod c - 1.
Definition in_sym (c : lcfg) (z : Z) : Prop := smin c <= z <= smax c.
Definition in_symb (c : lcfg) (z : Z) : bool := (smin c <=? z) && (z <=? smax c).

(* two's complement wrap into the symbol type *)
Definition wrapS (c : lcfg) (z : Z) : Z := (z - smin c) mod smod c + smin c.
(* float -> Symbol cast ([as]): saturating (NaN -> 0 is done by the caller) *)
Definition satS (c : lcfg) (z : Z) : Z := Z.max (smin c) (Z.min (smax c) z).

Definition wsubS (c : lcfg) (a b : Z) : Z := wrapS c (a - b).   (* wrapping_sub *)
Definition waddS (c : lcfg) (a b : Z) : Z := wrapS c (a + b).   (* wrapping_add *)
(* plain [a + b] / [a - b] on Symbol: None = overflow panic (debug build) *)
Definition chkS (c : lcfg) (dbg : bool) (r : Z) : option Z :=
  if in_symb c r then Some r else if dbg then None else Some (wrapS c r).
Definition caddS c dbg (a b : Z) := chkS c dbg (a + b).
Definition csubS c dbg (a b : Z) := chkS c dbg (a - b).
Definition shl1S (c : lcfg) (a : Z) : Z := wrapS c (2 * a).      (* a << 1 *)
Definition shr1S (a : Z) : Z := a / 2.   (* a >> 1: logical on unsigned, arithmetic
                                            on signed types = floor division *)

(* ---------------------------------------------------------- probabilities *)

Definition pmod (c : lcfg) : N := (2 ^ PB c)%N.
(* [Symbol as Probability]: sign- or zero-extension, then truncation *)
Definition castP (c : lcfg) (z : Z) : N := Z.to_N (z mod Z.of_N (pmod c)).
Definition waddP (c : lcfg) (a b : N) : N := ((a + b) mod pmod c)%N.
Definition wsubP (c : lcfg) (a b : N) : N := ((a + pmod c - b) mod pmod c)%N.
(* plain [a + b] on Probability *)
Definition addP (c : lcfg) (dbg : bool) (a b : N) : option N :=
  if (a + b <? pmod c)%N then Some (a + b)%N
  else if dbg then None else Some ((a + b) mod pmod c)%N.
(* wrapping_pow2::<Probability>(e) *)
Definition wpow2 (c : lcfg) (e : N) : N := if (PB c <=? e)%N then 0%N else (2 ^ e)%N.
(* Probability::max_value() >> (Probability::BITS - PRECISION) *)
Definition maxprob (c : lcfg) : N := ((pmod c - 1) / 2 ^ (PB c - PR c))%N.

(* fn slack *)
Definition pmask (c : lcfg) : N := wsubP c (wpow2 c (SYMB c)) 1.
Definition slack (c : lcfg) (sym lo : Z) : N :=
  N.land (castP c (wsubS c sym lo)) (pmask c).

(* ---------------------------------------------------- LeakyQuantizer::new *)

(* None = panic (assert / expect); Some free_weight otherwise.  [free_weight]
   is stored as an f64 holding this integer exactly (Probability: Into<f64>). *)
Definition lq_new (c : lcfg) (lo hi : Z) : option N :=
  if lo <? hi then                                (* assert!(end > start) *)
    let ssm1 := castP c (wsubS c hi lo) in       (* NO mask here *)
    (* exact_support_size_minus_one: (end as i128).wrapping_sub(start as i128) as u128,
       exact for every symbol type of at most 128 bits (fix 642e4b6) *)
    if (Z.to_N (hi - lo) <=? maxprob c)%N then
      (* max_probability.checked_sub(&support_size_minus_one).expect(..) *)
      if (ssm1 <=? maxprob c)%N then Some (maxprob c - ssm1)%N else None
    else None
  else None.

(* ------------------------------------------------------------ the encoder *)

Section Dist.
Variable c : lcfg.
Variable dbg : bool.
Variables lo hi : Z.          (* min_symbol_inclusive, max_symbol_inclusive *)
Variable nl : Z -> N.

(* non_leaky + slack(symbol, min) for the boundary below [s] *)
Definition lcum (s : Z) : option N := addP c dbg (nl s) (slack c s lo).
(* (non_leaky + slack(symbol, min)).wrapping_add(1) for the boundary above [s] *)
Definition rcum (s : Z) : option N :=
  match addP c dbg (nl (s + 1)) (slack c s lo) with
  | Some t => Some (waddP c t 1)
  | None => None
  end.
(* non_leaky + slack + 1 with plain additions (encoder) *)
Definition rcum_chk (s : Z) : option N :=
  match addP c dbg (nl (s + 1)) (slack c s lo) with
  | Some t => addP c dbg t 1
  | None => None
  end.

Inductive eres := EOk (cum p : N) | ENone | EPanic.

(* left_cumulative_and_probability: the range check precedes every cast *)
Definition lq_enc (s : Z) : eres :=
  if (s <? lo) || (hi <? s) then ENone else
  match (if s =? lo then Some 0%N else lcum s) with
  | None => EPanic
  | Some lft =>
    match (if s =? hi then Some (wpow2 c (PR c)) else rcum_chk s) with
    | None => EPanic
    | Some rgt =>
        let p := wsubP c rgt lft in
        if (p =? 0)%N then EPanic else EOk lft p
    end
  end.

(* ------------------------------------------------------- quantile_function *)

Record sst := { s_sym : Z; s_step : Z; s_left : N; s_found : bool }.
Inductive sres :=
| Cont (st : sst)
| Ret (s : Z) (lft rgt : N)
| Fail                          (* a panic *)
| Div.                          (* out of fuel *)

(* inner loop of the downward search *)
Fixpoint down_inner (fuel : nat) (symbol step : Z) : option (Z * Z) :=
  match fuel with
  | O => None
  | S f =>
      let new := wsubS c symbol step in
      if (lo <=? new) && (new <=? symbol) then Some (new, step)
      else down_inner f symbol (shr1S step)
  end.

(* inner loop of the upward search *)
Fixpoint up_inner (fuel : nat) (symbol step : Z) : option (Z * Z) :=
  match fuel with
  | O => None
  | S f =>
      let new := waddS c symbol step in
      if (new <=? hi) && (symbol <=? new) then Some (new, step)
      else up_inner f symbol (shr1S step)
  end.

(* the doubling guard introduced by the fix *)
Definition dbl_step (step : Z) : Z :=
  if step <=? shr1S (smax c) then shl1S c step else step.

Variable q : N.               (* the quantile *)
Variable ifuel : nat.         (* fuel of the inner loops *)

(* one iteration of the first [loop] (initial guess too high) *)
Definition down_step (st : sst) : sres :=
  let symbol := s_sym st in
  let step := s_step st in
  let old_left := s_left st in
  let at_lo := symbol =? lo in
  if at_lo && (step <=? 1) then Ret symbol 0%N old_left else
  match (if at_lo then Some 0%N else lcum symbol) with
  | None => Fail
  | Some lft =>
    if (lft <=? q)%N then
      (* found_lower_bound = true *)
      if step <=? 1 then
        match (if symbol =? hi then Some (wpow2 c (PR c)) else rcum symbol) with
        | None => Fail
        | Some rgt => Ret symbol lft rgt
        end
      else
        let step' := shr1S step in
        match caddS c dbg symbol step' with
        | None => Fail
        | Some sy => Cont {| s_sym := sy; s_step := step'; s_left := lft; s_found := true |}
        end
    else if s_found st then
      let step' := if 1 <? step then shr1S step else step in
      match csubS c dbg symbol step' with
      | None => Fail
      | Some sy => Cont {| s_sym := sy; s_step := step'; s_left := lft; s_found := true |}
      end
    else
      match down_inner ifuel symbol (dbl_step step) with
      | None => Div
      | Some (sy, step') =>
          Cont {| s_sym := sy; s_step := step'; s_left := lft; s_found := false |}
      end
  end.

(* one iteration of the second [loop] (initial guess rgt or too low) *)
Definition up_step (st : sst) : sres :=
  let symbol := s_sym st in
  let step := s_step st in
  let at_hi := symbol =? hi in
  if at_hi && (step <=? 1) then
    match lcum symbol with
    | None => Fail
    | Some lft =>
        if (wpow2 c (PR c) =? lft)%N then Fail    (* panic!("Invalid underlying ...") *)
        else Ret symbol lft (wpow2 c (PR c))
    end
  else
  match (if at_hi then Some (wpow2 c (PR c)) else rcum symbol) with
  | None => Fail
  | Some rgt =>
    if (q <? rgt)%N || (rgt =? 0)%N then
      (* found_upper_bound = true *)
      if step <=? 1 then
        match (if symbol =? lo then Some 0%N else lcum symbol) with
        | None => Fail
        | Some lft =>
            if (lft <=? q)%N || (symbol =? lo) then Ret symbol lft rgt
            else
              match csubS c dbg symbol step with
              | None => Fail
              | Some sy => Cont {| s_sym := sy; s_step := step; s_left := lft; s_found := true |}
              end
        end
      else
        let step' := shr1S step in
        match csubS c dbg symbol step' with
        | None => Fail
        | Some sy => Cont {| s_sym := sy; s_step := step'; s_left := s_left st; s_found := true |}
        end
    else if s_found st then
      let step' := if 1 <? step then shr1S step else step in
      match caddS c dbg symbol step' with
      | None => Fail
      | Some sy => Cont {| s_sym := sy; s_step := step'; s_left := s_left st; s_found := true |}
      end
    else
      match up_inner ifuel symbol (dbl_step step) with
      | None => Div
      | Some (sy, step') =>
          Cont {| s_sym := sy; s_step := step'; s_left := s_left st; s_found := false |}
      end
  end.

Fixpoint sloop (step : sst -> sres) (fuel : nat) (st : sst) : sres :=
  match fuel with
  | O => Div
  | S f => match step st with
           | Cont st' => sloop step f st'
           | r => r
           end
  end.

Inductive dres := DOk (s : Z) (cum p : N) | DPanic | DDiverged.

Definition finish (r : sres) : dres :=
  match r with
  | Ret s lft rgt =>                (* into_nonzero().expect(..): a zero probability panics *)
      let p := wsubP c rgt lft in if (p =? 0)%N then DPanic else DOk s lft p
  | Fail => DPanic
  | _ => DDiverged
  end.

(* [hint] = the symbol obtained from [inverse(..).as_()], already of Symbol type *)
Definition lq_dec (fuel : nat) (hint : Z) : dres :=
  if (maxprob c <? q)%N then DPanic else         (* assert!(quantile <= max_probability) *)
  match (if hint <=? lo then Some (lo, 0%N)
         else let sy := if hi <? hint then hi else hint in
              match lcum sy with Some l => Some (sy, l) | None => None end) with
  | None => DPanic
  | Some (sy, lft) =>
      if (q <? lft)%N then
        match csubS c dbg sy 1 with
        | None => DPanic
        | Some sy' =>
            finish (sloop down_step fuel
                      {| s_sym := sy'; s_step := 1; s_left := lft; s_found := false |})
        end
      else
        finish (sloop up_step fuel
                  {| s_sym := sy; s_step := 1; s_left := lft; s_found := false |})
  end.

End Dist.

(* fuel shown sufficient in Proofs/Leaky_dec.v *)
Definition dec_fuel (c : lcfg) : nat := N.to_nat (2 * SYMB c + 8).
Definition inner_fuel (c : lcfg) : nat := N.to_nat (SYMB c + 1).

(* quantile_function; [hintv] is the (integer part of the) float returned by
   [inverse], cast to Symbol by a saturating [as] *)
Definition lq_quantile (c : lcfg) (dbg : bool) (lo hi : Z) (nl : Z -> N)
           (hintv : Z) (q : N) : dres :=
  lq_dec c dbg lo hi nl q (inner_fuel c) (dec_fuel c) (satS c hintv).

(* ------------------------------------------------------ symbol_table iterator *)

(* state: (Some symbol, left_sided_cumulative); None = a panic in [next], which includes a
   zero probability (into_nonzero().expect(..)) *)
Fixpoint lq_iter (c : lcfg) (dbg : bool) (lo hi : Z) (nl : Z -> N)
         (fuel : nat) (symbol : Z) (lft : N) : option (list (Z * N * N)) :=
  match fuel with
  | O => Some []
  | S f =>
      if symbol =? hi then
        let p := wsubP c (wpow2 c (PR c)) lft in
        if (p =? 0)%N then None else Some [(symbol, lft, p)]
      else
        match caddS c dbg symbol 1 with
        | None => None
        | Some nx =>
            match lcum c dbg lo nl nx with
            | None => None
            | Some rgt =>
                let p := wsubP c rgt lft in
                if (p =? 0)%N then None else
                match lq_iter c dbg lo hi nl f nx rgt with
                | None => None
                | Some r => Some ((symbol, lft, p) :: r)
                end
            end
        end
  end.

Definition lq_table (c : lcfg) (dbg : bool) (lo hi : Z) (nl : Z -> N)
  : option (list (Z * N * N)) :=
  lq_iter c dbg lo hi nl (S (Z.to_nat (hi - lo))) lo 0%N.

(* ------------------------------------------------- as an entropy model (EModel) *)
(* what a coder sees of a LeakilyQuantizedDistribution; [hintf q] is the value the
   distribution's [inverse] returns for the quantile q.  The defaults are never
   reached for a valid quantizer (Proofs/Leaky_main.v). *)
Definition leaky_emodel (c : lcfg) (dbg : bool) (lo hi : Z) (nl : Z -> N) (hintf : N -> Z) : emodel :=
  {| em_prec := PR c;
     em_enc := fun s => match lq_enc c dbg lo hi nl s with
                        | EOk cu p => Some (cu, p)
                        | _ => None
                        end;
     em_dec := fun q => match lq_quantile c dbg lo hi nl (hintf q) q with
                        | DOk s cu p => (s, cu, p)
                        | _ => (0%Z, 0%N, 0%N)
                        end |}.
