"""Family `ansb` (C09): AnsCoder over a bounded sink with `cap` slots; see fam_ansb.rs."""
from gen_models import pick_precision, gen_table, enc_models

FAMILY = "ansb"
RUNNER = ("Corr.AnsB_run", "run_ansb")
MENU = [(8, 16, 8), (8, 32, 8), (16, 32, 16), (32, 64, 32)]


def gen_bounded(rng):
    wb, sb, pb = rng.choice(MENU)
    ms = []
    for _ in range(rng.randint(1, 3)):
        P = pick_precision(rng, pb, wb, sb)
        ms.append((P, gen_table(rng, P)))
    cap = rng.choice([0, 0, 1, 2, 3, rng.randint(0, 12)])
    ops = []
    pending = []
    for _ in range(rng.randint(5, 150)):
        r = rng.random()
        m = rng.randrange(len(ms))
        if r < 0.15:
            # batch form: per-symbol loop that stops at the first failure and keeps the prefix
            t = ms[m][1]
            k = rng.randint(1, 8)
            syms = [(min(t, key=lambda x: x[2]) if rng.random() < 0.5 else rng.choice(t))[0] for _ in range(k)]
            ops += [12, 9, m, k] + syms + [12]
            pending.append(("batch", m, syms))
        elif r < 0.7 or not pending:
            # prefer improbable symbols: they fill the sink quickly
            t = ms[m][1]
            e = min(t, key=lambda x: x[2]) if rng.random() < 0.5 else rng.choice(t)
            ops += [12, 1, m, e[0], 12]
            pending.append((m, e[0]))
        else:
            top = pending.pop()
            if top[0] == "batch":
                # how much of a batch was kept is only known at run time: pop once with its model
                # (also right when nothing of it was kept but older pushes used the same model)
                ops += [2, top[1]]
                continue
            pm, s = top
            ops += [2, pm]
    return [wb, sb, pb] + enc_models(ms) + [cap] + ops


def _parse(inp):
    i = 3
    nm = inp[i]; i += 1
    ms = []
    for _ in range(nm):
        P, k = inp[i], inp[i + 1]
        ms.append((P, [tuple(inp[i + 2 + 3 * j:i + 5 + 3 * j]) for j in range(k)]))
        i += 2 + 3 * k
    return ms, inp[i], inp[i + 1:]


def oracle_C09(inp, out):
    """a failed write (-5) leaves the raw parts unchanged; successful pushes are popped back in
    LIFO order afterwards (everything encoded before the failure still decodes; encoding goes on).
    A failed BATCH keeps some prefix of its symbols (how many is not observable here), so the
    oracle tracks every possible prefix length and demands that at least one stays consistent
    with all later decodes."""
    if any(x in (-999999, -999998, -999997, -999996) for x in out):
        return "panic/abort/timeout"
    ms, cap, ops = _parse(inp)
    cands = [[]]          # candidate stacks of (model, symbol), top at the end
    try:
        o, j = 0, 0
        prev = None
        while j < len(ops):
            op = ops[j]
            if op == 12:
                n = out[o]
                raw = out[o:o + 2 + n]
                if n > cap:
                    return "more words than the sink can hold"
                if prev == "failed" and raw != prev_raw:
                    return "failed write changed the coder"
                prev_raw, prev = raw, None
                o += 2 + n; j += 1
            elif op == 1:
                m, s = ops[j + 1], ops[j + 2]
                if out[o] == 0:
                    cands = [c + [(m, s)] for c in cands]
                elif out[o] == -5:
                    prev = "failed"
                else:
                    return "unexpected encode result %d" % out[o]
                o += 1; j += 3
            elif op == 9:
                m, k = ops[j + 1], ops[j + 2]
                syms = ops[j + 3:j + 3 + k]
                if out[o] == 0:
                    cands = [c + [(m, x) for x in syms] for c in cands]
                elif out[o] == -5:
                    cands = [c + [(m, x) for x in syms[:q]] for c in cands for q in range(k)]
                else:
                    return "unexpected batch result %d" % out[o]
                if len(cands) > 4096:
                    return None
                o += 1; j += 3 + k
            elif op == 2:
                m = ops[j + 1]
                nxt = []
                for c in cands:
                    if not c or c[-1][0] != m:
                        return None          # a pop of something never pushed: out of scope
                    if c[-1][1] == out[o]:
                        nxt.append(c[:-1])
                if not nxt:
                    return "decode returned %d, which is not the most recent pushed symbol under any prefix a " \
                           "failed batch may have kept" % out[o]
                cands = nxt
                o += 1; j += 2
            else:
                return None
    except (IndexError, UnboundLocalError):
        return "malformed output"
    return None


ORACLES = {"C09": oracle_C09}


def nontrivial(inp, out, prop=None):
    return -5 in out and out.count(0) >= 2


def describe(inp):
    ms, cap, ops = _parse(inp)
    return "ansb W=%d S=%d PB=%d models=%s cap=%d ops=%d ints" % (
        inp[0], inp[1], inp[2], [(P, len(t)) for P, t in ms], cap, len(ops))
