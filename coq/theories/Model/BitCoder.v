(* Model/BitCoder.v -- machine-level model of the bit-level coders of
   src/symbol/mod.rs:  SymbolCoder<Word, S, Vec<Word>> (= StackCoder / QueueEncoder)
   and QueueDecoder<Word, Cursor<Word, Vec<Word>>>.  Definitions only.

   State exactly as in the Rust structs: (backend, current_word, mask_last_written)
   resp. (backend, current_word, mask_next_to_read).
     bk  : the head of the list is the TOP of the Vec (= its END); the words in Vec
           order are [rev bk].
     qws : the words a queue decoder has not read yet, head = next word.
   WB = Word::BITS, UB = usize::BITS (only [len] depends on it).
   Every Rust operator carries the truncation of the type:
     m << 1        ==> shl WB m 1        (the bit shifted out is lost, no panic)
     m >> 1        ==> shr m 1
     checked_mul / checked_add(..).expect(..)  ==> option, None = panic
   The backend is a Vec: write = push (infallible), read = pop (Ok(None) if empty). *)
From CV Require Export Base.Bits.
Open Scope N_scope.

(* u32 count of trailing / leading zeros of a b-bit value *)
Fixpoint ctz_pos (p : positive) : N :=
  match p with xO q => N.succ (ctz_pos q) | _ => 0 end.
Definition ctz (b x : N) : N := match x with 0 => b | Npos p => ctz_pos p end.
Definition clz (b x : N) : N := b - N.size x.

Definition checked_mul (ub a b : N) : option N := if a * b <? 2 ^ ub then Some (a * b) else None.
Definition checked_add (ub a b : N) : option N := if a + b <? 2 ^ ub then Some (a + b) else None.

Record bitc := { bk : list N; cur : N; mask : N }.

(* SymbolCoder::new / Default *)
Definition bc_new : bitc := {| bk := []; cur := 0; mask := 0 |}.

(* mod.rs:377-392 (Queue) and mod.rs:604-619 (Stack): the two bodies are identical *)
Definition bc_write_bit (WB : N) (bit : bool) (c : bitc) : bitc :=
  let write_mask := shl WB (mask c) 1 in
  if negb (write_mask =? 0) then
    let new_bit := if bit then write_mask else 0 in
    {| bk := bk c; cur := N.lor (cur c) new_bit; mask := write_mask |}
  else
    {| bk := if negb (mask c =? 0) then cur c :: bk c else bk c;
       cur := if bit then 1 else 0;
       mask := 1 |}.

(* mod.rs:646-661  StackCoder::read_bit; at the end of the data the coder is untouched *)
Definition st_read_bit (WB : N) (c : bitc) : option bool * bitc :=
  let fetched :=
    if mask c =? 0 then
      match bk c with
      | [] => None
      | w :: r => Some (r, w, shl WB 1 (WB - 1))
      end
    else Some (bk c, cur c, mask c) in
  match fetched with
  | None => (None, c)
  | Some (b, cw, m) =>
      let bit := N.land cw m in
      (Some (negb (bit =? 0)), {| bk := b; cur := N.lxor cw bit; mask := shr m 1 |})
  end.

(* mod.rs:206-220; None = the `expect` panics *)
Definition bc_len (UB WB : N) (c : bitc) : option N :=
  match checked_mul UB (N.of_nat (length (bk c))) WB with
  | None => None
  | Some x => checked_add UB x (if mask c =? 0 then 0 else ctz WB (mask c) + 1)
  end.

(* mod.rs:223-228 *)
Definition bc_is_empty (c : bitc) : bool :=
  (mask c =? 0) && match bk c with [] => true | _ => false end.

(* ---- stack: export / import (mod.rs:479-512) ---- *)

(* the shared prefix of into_compressed and StackCoderGuard::new: seal bit, then
   push the partial word if there is one (there always is one after a write) *)
Definition st_seal (WB : N) (c : bitc) : bitc :=
  let c1 := bc_write_bit WB true c in
  if negb (mask c1 =? 0) then {| bk := cur c1 :: bk c1; cur := cur c1; mask := mask c1 |} else c1.

(* into_compressed: the words in Vec order *)
Definition st_into_compressed (WB : N) (c : bitc) : list N := rev (bk (st_seal WB c)).

(* from_compressed(ws), ws in Vec order.  inr = Err(CoderError::Frontend(compressed)):
   the returned Vec has already lost its last (zero) word, because it was read. *)
Definition st_from_compressed (WB : N) (ws : list N) : bitc + list N :=
  match rev ws with
  | [] => inl bc_new
  | last :: r =>
      if last =? 0 then inr (rev r)
      else
        let mask_end_bit := shl WB 1 (WB - 1 - clz WB last) in
        inl {| bk := r; cur := N.lxor last mask_end_bit; mask := shr mask_end_bit 1 |}
  end.

(* ---- stack guard (mod.rs:260-291) ---- *)
Definition st_guard_new (WB : N) (c : bitc) : bitc := st_seal WB c.
Definition bc_guard_view (g : bitc) : list N := rev (bk g).
Definition st_guard_drop (WB : N) (g : bitc) : bitc :=
  let g1 := if negb (mask g =? 0) then {| bk := tl (bk g); cur := cur g; mask := mask g |} else g in
  snd (st_read_bit WB g1).

(* as_decoder / iter / into_decoder / into_iterator: the same three fields over a
   Cursor positioned at the end of the same words: the identity in this model. *)
Definition st_as_decoder (c : bitc) : bitc := c.

(* ---- queue encoder (mod.rs:298-357) ---- *)
Definition qe_from_compressed (ws : list N) : bitc := {| bk := rev ws; cur := 0; mask := 0 |}.

Definition qe_flush (c : bitc) : bitc :=
  if negb (mask c =? 0) then {| bk := cur c :: bk c; cur := cur c; mask := mask c |} else c.

Definition qe_into_compressed (c : bitc) : list N := rev (bk (qe_flush c)).

Definition qe_guard_new (c : bitc) : bitc := qe_flush c.
Definition qe_guard_drop (g : bitc) : bitc :=
  if negb (mask g =? 0) then {| bk := tl (bk g); cur := cur g; mask := mask g |} else g.

(* ---- queue decoder (mod.rs:408-464) ---- *)
Record qdec := { qws : list N; qcur : N; qmask : N }.

Definition qd_from_compressed (ws : list N) : qdec := {| qws := ws; qcur := 0; qmask := 0 |}.

Definition qe_into_decoder (c : bitc) : qdec := qd_from_compressed (qe_into_compressed c).

Definition qd_read_bit (WB : N) (d : qdec) : option bool * qdec :=
  let fetched :=
    if qmask d =? 0 then
      match qws d with
      | [] => None
      | w :: r => Some (r, w, 1)
      end
    else Some (qws d, qcur d, qmask d) in
  match fetched with
  | None => (None, d)
  | Some (ws, cw, m) =>
      (Some (negb (N.land cw m =? 0)), {| qws := ws; qcur := cw; qmask := shl WB m 1 |})
  end.

(* mod.rs:419-425: !(mask.wrapping_sub(1)) on a WB-bit word *)
Definition qd_maybe_exhausted (WB : N) (d : qdec) : bool :=
  let m1 := trunc WB (qmask d + 2 ^ WB - 1) in
  let mask_remaining_bits := N.lxor m1 (2 ^ WB - 1) in
  (N.land (qcur d) mask_remaining_bits =? 0) && match qws d with [] => true | _ => false end.

(* ---- sequences of bits ---- *)
Definition bc_write_bits (WB : N) (bits : list bool) (c : bitc) : bitc :=
  fold_left (fun c b => bc_write_bit WB b c) bits c.

(* read until the end of the data (Iterator::collect); fuel bounds the recursion *)
Fixpoint st_drain (WB : N) (fuel : nat) (c : bitc) : list bool * bitc :=
  match fuel with
  | O => ([], c)
  | S f => match st_read_bit WB c with
           | (None, c') => ([], c')
           | (Some b, c') => let '(l, c'') := st_drain WB f c' in (b :: l, c'')
           end
  end.

Fixpoint qd_drain (WB : N) (fuel : nat) (d : qdec) : list bool * qdec :=
  match fuel with
  | O => ([], d)
  | S f => match qd_read_bit WB d with
           | (None, d') => ([], d')
           | (Some b, d') => let '(l, d'') := qd_drain WB f d' in (b :: l, d'')
           end
  end.

(* ================= abstraction to lists of bits ================= *)

(* the [n] low bits of [w], most significant first *)
Fixpoint bits_desc (n : nat) (w : N) : list bool :=
  match n with
  | O => []
  | S n' => N.testbit w (N.of_nat n') :: bits_desc n' w
  end.

(* [n] bits of [w] starting at position [k], least significant first *)
Fixpoint bits_from (n : nat) (k : N) (w : N) : list bool :=
  match n with
  | O => []
  | S n' => N.testbit w k :: bits_from n' (N.succ k) w
  end.

Definition cur_nbits (c : bitc) : nat :=
  if mask c =? 0 then O else S (N.to_nat (N.log2 (mask c))).

(* content of a stack coder, head = the bit written last (= read next) *)
Definition abs_stack (WB : N) (c : bitc) : list bool :=
  bits_desc (cur_nbits c) (cur c) ++ flat_map (bits_desc (N.to_nat WB)) (bk c).

(* content of a queue encoder, head = the bit written first *)
Definition abs_queue (WB : N) (c : bitc) : list bool := rev (abs_stack WB c).

(* bits a queue decoder will still deliver (padding included), head = next *)
Definition abs_qdec (WB : N) (d : qdec) : list bool :=
  (if qmask d =? 0 then []
   else bits_from (N.to_nat (WB - N.log2 (qmask d))) (N.log2 (qmask d)) (qcur d))
  ++ flat_map (bits_from (N.to_nat WB) 0) (qws d).

(* documented invariant (mod.rs:165-173) made precise *)
Definition bc_inv (WB : N) (c : bitc) : Prop :=
  Forall (fun w => w < 2 ^ WB) (bk c)
  /\ ((mask c = 0 /\ cur c = 0)
      \/ exists k, k < WB /\ mask c = 2 ^ k /\ cur c < 2 ^ (k + 1)).

Definition qd_inv (WB : N) (d : qdec) : Prop :=
  qmask d = 0 \/ exists k, k < WB /\ qmask d = 2 ^ k.

(* normal form: a completely filled current word is the same content as that word
   flushed to the backend (this is all a stack guard or an export/import changes) *)
Definition bc_norm (WB : N) (c : bitc) : bitc :=
  if mask c =? 2 ^ (WB - 1) then {| bk := cur c :: bk c; cur := 0; mask := 0 |} else c.

Definition bc_equiv (WB : N) (c1 c2 : bitc) : Prop := bc_norm WB c1 = bc_norm WB c2.

(* ---------- histories ---------- *)
Inductive sop := SWrite (b : bool) | SRead | SLen | SReimport | SInspect.
Inductive sout :=
  SoUnit | SoBit (o : option bool) | SoLen (n : option N) | SoWords (ws : list N) | SoErr.

Definition st_step (UB WB : N) (c : bitc) (o : sop) : bitc * sout :=
  match o with
  | SWrite b => (bc_write_bit WB b c, SoUnit)
  | SRead => let '(r, c') := st_read_bit WB c in (c', SoBit r)
  | SLen => (c, SoLen (bc_len UB WB c))
  | SReimport => match st_from_compressed WB (st_into_compressed WB c) with
                 | inl c' => (c', SoUnit)
                 | inr _ => (c, SoErr)
                 end
  | SInspect => let g := st_guard_new WB c in (st_guard_drop WB g, SoWords (bc_guard_view g))
  end.

Fixpoint st_run (UB WB : N) (c : bitc) (h : list sop) : bitc * list sout :=
  match h with
  | [] => (c, [])
  | o :: r => let '(c', x) := st_step UB WB c o in
              let '(c'', xs) := st_run UB WB c' r in (c'', x :: xs)
  end.

Definition len_spec (UB : N) (l : list bool) : option N :=
  if N.of_nat (length l) <? 2 ^ UB then Some (N.of_nat (length l)) else None.

(* the abstract LIFO container the stack coder must behave like (head = top) *)
Inductive st_spec (UB WB : N) : list bool -> list sop -> list bool -> list sout -> Prop :=
| SS_nil l : st_spec UB WB l [] l []
| SS_write l b h l' o :
    st_spec UB WB (b :: l) h l' o -> st_spec UB WB l (SWrite b :: h) l' (SoUnit :: o)
| SS_read l b h l' o :
    st_spec UB WB l h l' o -> st_spec UB WB (b :: l) (SRead :: h) l' (SoBit (Some b) :: o)
| SS_read_empty h l' o :
    st_spec UB WB [] h l' o -> st_spec UB WB [] (SRead :: h) l' (SoBit None :: o)
| SS_len l h l' o :
    st_spec UB WB l h l' o -> st_spec UB WB l (SLen :: h) l' (SoLen (len_spec UB l) :: o)
| SS_reimport l h l' o :
    st_spec UB WB l h l' o -> st_spec UB WB l (SReimport :: h) l' (SoUnit :: o)
| SS_inspect l ws c h l' o :
    st_from_compressed WB ws = inl c -> abs_stack WB c = l ->
    st_spec UB WB l h l' o -> st_spec UB WB l (SInspect :: h) l' (SoWords ws :: o).

Inductive qop := QWrite (b : bool) | QLen | QInspect.

Definition qe_step (UB WB : N) (c : bitc) (o : qop) : bitc * sout :=
  match o with
  | QWrite b => (bc_write_bit WB b c, SoUnit)
  | QLen => (c, SoLen (bc_len UB WB c))
  | QInspect => let g := qe_guard_new c in (qe_guard_drop g, SoWords (bc_guard_view g))
  end.

Fixpoint qe_run (UB WB : N) (c : bitc) (h : list qop) : bitc * list sout :=
  match h with
  | [] => (c, [])
  | o :: r => let '(c', x) := qe_step UB WB c o in
              let '(c'', xs) := qe_run UB WB c' r in (c'', x :: xs)
  end.

(* zero padding up to the next multiple of WB bits *)
Definition qpad (WB : N) (l : list bool) : list bool :=
  repeat false (N.to_nat ((WB - N.of_nat (length l) mod WB) mod WB)).

(* the abstract FIFO container (head = oldest bit) *)
Inductive qe_spec (UB WB : N) : list bool -> list qop -> list bool -> list sout -> Prop :=
| QS_nil l : qe_spec UB WB l [] l []
| QS_write l b h l' o :
    qe_spec UB WB (l ++ [b]) h l' o -> qe_spec UB WB l (QWrite b :: h) l' (SoUnit :: o)
| QS_len l h l' o :
    qe_spec UB WB l h l' o -> qe_spec UB WB l (QLen :: h) l' (SoLen (len_spec UB l) :: o)
| QS_inspect l ws h l' o :
    abs_qdec WB (qd_from_compressed ws) = l ++ qpad WB l ->
    qe_spec UB WB l h l' o -> qe_spec UB WB l (QInspect :: h) l' (SoWords ws :: o).
