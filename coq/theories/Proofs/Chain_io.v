(* Proofs/Chain_io.v -- constructors and exports of the chain coder:
   ChainCoderHeads::new, from_binary / into_binary, from_compressed / into_compressed,
   into_remainders / from_remainders, and the headline restore theorems of C13. *)
From CV Require Import Base.Bits Model.EModel Model.Chain Proofs.Chain_bits Proofs.Chain_rem
  Proofs.Chain_step Proofs.Chain_local Proofs.Chain_prec Proofs.Chain_history.
From Coq Require Import ZifyBool ZifyN.
Open Scope N_scope.
Set Default Timeout 30.

(* ---------- [while s > lim { write(s as Word); s >>= Word::BITS }] ---------- *)
Lemma size_pos s : 1 <= s -> N.size s = N.succ (N.log2 s).
Proof. intros. apply N.size_log2. lia. Qed.

Lemma size_div_lt s k : 1 <= s -> 0 < k -> N.size (s / 2 ^ k) < N.size s.
Proof.
  intros Hs Hk. rewrite (size_pos s Hs).
  remember (s / 2 ^ k) as d eqn:Ed.
  destruct (N.eq_dec d 0) as [->|Hnz]; [change (N.size 0) with 0; lia|].
  rewrite (size_pos d) by lia.
  assert (Hge : 2 ^ k <= s).
  { destruct (N.le_gt_cases (2 ^ k) s) as [?|Hlt]; [assumption|].
    rewrite N.div_small in Ed by exact Hlt. contradiction. }
  assert (k <= N.log2 s) by (apply N.log2_le_pow2; lia).
  subst d. rewrite log2_div. lia.
Qed.

Lemma words_until_fuel wb lim f1 : 0 < wb -> forall f2 s,
  N.size s <= N.of_nat f1 -> N.size s <= N.of_nat f2 ->
  words_until wb lim f1 s = words_until wb lim f2 s.
Proof.
  intros Hwb. induction f1 as [|f1 IH]; intros f2 s H1 H2.
  - assert (s = 0) by (destruct s; [reflexivity|cbn in H1; lia]). subst s.
    destruct f2; [reflexivity|]. cbn [words_until]. destruct (N.leb_spec 0 lim); [reflexivity|lia].
  - destruct f2 as [|f2].
    + assert (s = 0) by (destruct s; [reflexivity|cbn in H2; lia]). subst s.
      cbn [words_until]. destruct (N.leb_spec 0 lim); [reflexivity|lia].
    + cbn [words_until]. destruct (N.leb_spec s lim) as [|Hgt]; [reflexivity|].
      f_equal. rewrite shr_div.
      pose proof (size_div_lt s wb ltac:(lia) Hwb).
      apply IH; lia.
Qed.

Section IO.
Variable c : ccfg.
Variable P : N.
Hypothesis Hwf : wf_ccfg c P.

Let W := cWB c.
Let S := cSB c.
Let L := 2 ^ (S - W - P).
Let U := 2 ^ (S - P).

Lemma W_pos : 0 < W.
Proof. destruct Hwf as (? & ? & ? & ?). unfold W. lia. Qed.

Lemma UL : U = L * 2 ^ W. Proof. exact (U_eq c P Hwf). Qed.
Lemma SU : 2 ^ S = U * 2 ^ P. Proof. exact (S_eq c P Hwf). Qed.

Lemma two_le_W : 2 <= 2 ^ W.
Proof. pose proof W_pos. change 2 with (2 ^ 1) at 1. apply pow2_le. lia. Qed.

Lemma W_le_U : 2 ^ W <= U.
Proof. apply pow2_le. destruct Hwf as (? & ? & ? & ?). unfold W, S. lia. Qed.

Lemma head_words_le lim s : s <= lim -> head_words c lim s = [].
Proof.
  intros H. unfold head_words. destruct (N.to_nat (N.size s)); [reflexivity|].
  cbn [words_until]. destruct (N.leb_spec s lim); [reflexivity|lia].
Qed.

Lemma head_words_gt lim s :
  lim < s -> head_words c lim s = s mod 2 ^ W :: head_words c lim (s / 2 ^ W).
Proof.
  intros H. unfold head_words. fold W.
  assert (Hs : 1 <= s) by lia.
  pose proof (size_pos s Hs) as Hsz.
  destruct (N.to_nat (N.size s)) as [|f] eqn:Ef; [lia|].
  cbn [words_until]. destruct (N.leb_spec s lim); [lia|].
  f_equal. rewrite shr_div.
  pose proof (size_div_lt s W Hs W_pos).
  apply words_until_fuel; [exact W_pos| |]; lia.
Qed.

(* ---------- ChainCoderHeads::new ---------- *)
Lemma shl_L : shl S 1 (S - W - P) = L.
Proof.
  unfold shl. rewrite shiftl_mul, N.mul_1_l. apply trunc_small. apply pow2_lt.
  pose proof W_pos. destruct Hwf as (? & ? & ? & ?). unfold W, S in *. lia.
Qed.

Lemma fill_stop src a : L <= a -> heads_fill c P src a = (src, Some a).
Proof.
  intros H. destruct src; cbn [heads_fill]; fold S W; rewrite shl_L;
    destruct (N.ltb_spec a L); try lia; reflexivity.
Qed.

Lemma fill_nil a : a < L -> heads_fill c P [] a = ([], None).
Proof.
  intros H. cbn [heads_fill]. fold S W. rewrite shl_L.
  destruct (N.ltb_spec a L); [reflexivity|lia].
Qed.

Lemma fill_step w r a :
  a < L -> w < 2 ^ W -> heads_fill c P (w :: r) a = heads_fill c P r (a * 2 ^ W + w).
Proof.
  intros Ha Hw. cbn [heads_fill]. fold S W. rewrite shl_L.
  destruct (N.ltb_spec a L); [|lia].
  f_equal. unfold shl. rewrite shiftl_mul, trunc_small; [apply lor_disjoint; exact Hw|].
  rewrite SU, UL. pose proof (pow2_pos W). pose proof (pow2_pos P).
  assert ((a + 1) * 2 ^ W <= L * 2 ^ W) by (apply N.mul_le_mono_r; lia).
  assert (L * 2 ^ W * 1 <= L * 2 ^ W * 2 ^ P) by (apply N.mul_le_mono_l; lia).
  lia.
Qed.

(* what was read can be written back: the words consumed by [heads_fill] are the
   words [head_words] produces for the new head beyond those of the old head *)
Lemma fill_words lim src : lim <= 1 -> forall a src' rh,
  1 <= a -> wordsok c src -> heads_fill c P src a = (src', Some rh) ->
  rev src' ++ head_words c lim rh = rev src ++ head_words c lim a
  /\ wordsok c src' /\ L <= rh /\ (a < U -> rh < U)
  /\ exists n, N.log2 rh = N.log2 a + W * n.
Proof.
  intros Hlim. induction src as [|w r IH]; intros a src' rh Ha Hok Hf.
  - destruct (N.lt_ge_cases a L) as [Hlt|Hge].
    + rewrite (fill_nil a Hlt) in Hf. discriminate.
    + rewrite (fill_stop [] a Hge) in Hf. inversion Hf; subst.
      split; [reflexivity|]. split; [exact Hok|]. split; [exact Hge|]. split; [auto|].
      exists 0. lia.
  - destruct (N.lt_ge_cases a L) as [Hlt|Hge].
    + apply Forall_cons_iff in Hok. destruct Hok as [Hw Hok]. fold W in Hw.
      rewrite (fill_step w r a Hlt Hw) in Hf.
      pose proof two_le_W.
      assert (Ha' : 1 <= a * 2 ^ W + w) by nia.
      destruct (IH _ _ _ Ha' Hok Hf) as (Hwords & Hok' & HL & HU & n & Hlog).
      split; [|split; [exact Hok'|split; [exact HL|split]]].
      * rewrite Hwords. cbn [rev]. rewrite <- app_assoc. f_equal.
        rewrite (head_words_gt lim (a * 2 ^ W + w)) by nia.
        rewrite mod_mul_add_small, div_mul_add_small by exact Hw. reflexivity.
      * intros _. apply HU. rewrite UL.
        assert ((a + 1) * 2 ^ W <= L * 2 ^ W) by (apply N.mul_le_mono_r; lia). lia.
      * exists (N.succ n). rewrite Hlog. rewrite log2_shift_add by assumption.
        rewrite N.mul_succ_r. lia.
    + rewrite (fill_stop _ a Hge) in Hf. inversion Hf; subst.
      split; [reflexivity|]. split; [exact Hok|]. split; [exact Hge|]. split; [auto|].
      exists 0. lia.
Qed.

(* reading back the words of a head that satisfies the invariant stops exactly at
   its last word: every proper prefix is below the threshold, the head itself is not *)
Lemma fill_own_words n : forall v rest,
  N.size v <= N.of_nat n -> 1 <= v -> v / 2 ^ W < L ->
  heads_new c P (rev (head_words c 0 v) ++ rest) false = heads_fill c P rest v.
Proof.
  induction n as [|n IH]; intros v rest Hsz Hv Hpre.
  - rewrite (size_pos v Hv) in Hsz. lia.
  - rewrite (head_words_gt 0 v) by lia. cbn [rev]. rewrite <- app_assoc. cbn [app].
    destruct (N.eq_dec (v / 2 ^ W) 0) as [Hz|Hnz].
    + rewrite Hz, (head_words_le 0 0) by lia. cbn [rev app].
      assert (Hsmall : v < 2 ^ W).
      { destruct (N.lt_ge_cases v (2 ^ W)) as [?|Hge]; [assumption|].
        assert (1 <= v / 2 ^ W) by (apply div_ge_lower; [apply pow2_pos|lia]). lia. }
      rewrite N.mod_small by exact Hsmall.
      unfold heads_new. destruct (N.eqb_spec v 0); [lia|reflexivity].
    + pose proof (size_div_lt v W Hv W_pos) as Hszd.
      assert (Hpre' : v / 2 ^ W / 2 ^ W < L).
      { pose proof (div_le_self (v / 2 ^ W) (2 ^ W)). lia. }
      assert (Hd1 : 1 <= v / 2 ^ W).
      { revert Hnz. generalize (v / 2 ^ W). intros d Hd. lia. }
      assert (Hsz' : N.size (v / 2 ^ W) <= N.of_nat n).
      { revert Hszd Hsz. generalize (N.size (v / 2 ^ W)) (N.size v). intros; lia. }
      rewrite (IH (v / 2 ^ W) (v mod 2 ^ W :: rest) Hsz' Hd1 Hpre').
      rewrite fill_step; [|exact Hpre|apply N.mod_lt, pow2_nz].
      f_equal. rewrite (div_mod_eq v (2 ^ W)) at 3 by apply pow2_nz. lia.
Qed.

Lemma fill_own_head rh rest :
  remok c P rh -> heads_new c P (rev (head_words c 0 rh) ++ rest) false = (rest, Some rh).
Proof.
  intros [Hlo Hhi]. fold S W L U in Hlo, Hhi.
  assert (1 <= rh) by (pose proof (pow2_pos (S - W - P)); unfold L in *; lia).
  rewrite (fill_own_words (N.to_nat (N.size rh))); [|lia|assumption|].
  - apply fill_stop. exact Hlo.
  - apply div_lt_upper; [apply pow2_pos|]. rewrite <- UL. exact Hhi.
Qed.

(* ---------- constructors establish the invariant ---------- *)
Lemma wordsok_rev l : wordsok c l -> wordsok c (rev l).
Proof. apply Forall_rev. Qed.

Lemma one_lt_U : 1 < U.
Proof. pose proof two_le_W. pose proof W_le_U. lia. Qed.

Lemma headok_one : headok c 1.
Proof. pose proof two_le_W. unfold headok. fold W. lia. Qed.

Lemma from_binary_spec data ch :
  wordsok c data -> chain_from_binary c P data = inl ch ->
  chain_inv c P ch /\ rems ch = [] /\ hc ch = 1
  /\ rev (comp ch) ++ head_words c 1 (hr ch) = data
  /\ exists n, N.log2 (hr ch) = W * n.
Proof.
  intros Hd. unfold chain_from_binary, heads_new.
  destruct (heads_fill c P (rev data) 1) as [src [rh|]] eqn:Ef; [|discriminate].
  intros E; inversion E; subst ch; clear E. cbn [comp rems hc hr].
  destruct (fill_words 1 (rev data) ltac:(lia) 1 src rh ltac:(lia) (wordsok_rev _ Hd) Ef)
    as (Hwords & Hok & HL & HU & n & Hlog).
  split; [|split; [reflexivity|split; [reflexivity|split]]].
  - apply chain_inv_parts. cbn [comp rems hc hr].
    split; [exact headok_one|]. split; [|split; [exact Hok|constructor]].
    split; [exact HL|]. apply HU. exact one_lt_U.
  - rewrite Hwords, rev_involutive, (head_words_le 1 1) by lia. apply app_nil_r.
  - exists n. rewrite Hlog. cbn. lia.
Qed.

Lemma from_compressed_spec data ch :
  wordsok c data -> chain_from_compressed c P data = inl ch ->
  chain_inv c P ch /\ rems ch = [] /\ hc ch = 1
  /\ rev (comp ch) ++ head_words c 0 (hr ch) = data.
Proof.
  intros Hd. unfold chain_from_compressed, heads_new.
  destruct (rev data) as [|w r] eqn:Er; [discriminate|].
  destruct (N.eqb_spec w 0) as [|Hnz]; [discriminate|].
  destruct (heads_fill c P r w) as [src [rh|]] eqn:Ef; [|discriminate].
  intros E; inversion E; subst ch; clear E. cbn [comp rems hc hr].
  pose proof (wordsok_rev _ Hd) as Hrd. rewrite Er in Hrd.
  apply Forall_cons_iff in Hrd. destruct Hrd as [Hw Hr]. fold W in Hw.
  destruct (fill_words 0 r ltac:(lia) w src rh ltac:(lia) Hr Ef)
    as (Hwords & Hok & HL & HU & _).
  split; [|split; [reflexivity|split; [reflexivity|]]].
  - apply chain_inv_parts. cbn [comp rems hc hr].
    split; [exact headok_one|]. split; [|split; [exact Hok|constructor]].
    split; [exact HL|]. apply HU. pose proof W_le_U. lia.
  - rewrite Hwords. rewrite (head_words_gt 0 w) by lia.
    rewrite N.mod_small, N.div_small by exact Hw. rewrite (head_words_le 0 0) by lia.
    rewrite <- (rev_involutive data), Er. reflexivity.
Qed.

(* failures of the constructors: the data is too short (everything was consumed), or
   -- from_compressed only -- the top word is zero *)
Lemma fill_none src : forall a src', heads_fill c P src a = (src', None) -> src' = [].
Proof.
  induction src as [|w r IH]; intros a src' Hf; cbn [heads_fill] in Hf.
  - destruct (a <? shl (cSB c) 1 (cSB c - cWB c - P)); inversion Hf; reflexivity.
  - destruct (a <? shl (cSB c) 1 (cSB c - cWB c - P)); [eauto|discriminate].
Qed.

Lemma from_binary_err data rest : chain_from_binary c P data = inr rest -> rest = [].
Proof.
  unfold chain_from_binary, heads_new.
  destruct (heads_fill c P (rev data) 1) as [src [rh|]] eqn:Ef; [discriminate|].
  intros E; inversion E. rewrite (fill_none _ _ _ Ef). reflexivity.
Qed.

Lemma from_compressed_err data rest :
  chain_from_compressed c P data = inr rest ->
  rest = [] \/ data = rest ++ [0].
Proof.
  unfold chain_from_compressed, heads_new.
  destruct (rev data) as [|w r] eqn:Er.
  - intros E; inversion E. auto.
  - destruct (N.eqb_spec w 0) as [->|Hnz].
    + intros E; inversion E. right. rewrite <- (rev_involutive data), Er. reflexivity.
    + destruct (heads_fill c P r w) as [src [rh|]] eqn:Ef; [discriminate|].
      intros E; inversion E. rewrite (fill_none _ _ _ Ef). auto.
Qed.

(* ---------- into_binary / into_compressed on a restored coder ---------- *)
Lemma into_binary_ok cm r rh n :
  1 <= rh -> N.log2 rh = W * n ->
  chain_into_binary c {| comp := cm; rems := r; hc := 1; hr := rh |}
  = Some (rev r, rev cm ++ head_words c 1 rh).
Proof.
  intros Hrh Hlog. unfold chain_into_binary. cbn [comp rems hc hr]. fold W.
  destruct (N.eqb_spec rh 0); [lia|].
  rewrite (size_pos rh Hrh), Hlog.
  replace (N.succ (W * n) - 1) with (n * W) by lia.
  rewrite N.mod_mul by (pose proof W_pos; lia). reflexivity.
Qed.

(* ---------- remainders round trip ---------- *)
(* from_remainders (x ++ suffix) where (_, suffix) = into_remainders(coder): the reader
   stops at the right word whatever lies underneath *)
Lemma remainders_roundtrip ch x :
  chain_inv c P ch -> wordsok c x ->
  chain_from_remainders c P (x ++ snd (chain_into_remainders c ch)) = inl (reframe [] (rev x) ch).
Proof.
  intros Hinv Hx. apply chain_inv_parts in Hinv. destruct Hinv as ([Hh1 Hh2] & Hr & Hcm & Hrm).
  unfold chain_from_remainders, chain_into_remainders. cbn [snd].
  rewrite !rev_app_distr. cbn [rev app]. rewrite rev_involutive.
  destruct (N.eqb_spec (hc ch) 0); [lia|].
  rewrite <- app_assoc, (fill_own_head (hr ch) _ Hr). reflexivity.
Qed.

Lemma into_compressed_ok cm r rh :
  chain_into_compressed c {| comp := cm; rems := r; hc := 1; hr := rh |}
  = Some (rev r, rev cm ++ head_words c 0 rh).
Proof. unfold chain_into_compressed. cbn [comp rems hc hr]. rewrite N.eqb_refl. reflexivity. Qed.

End IO.

(* ---------- the headline of C13 ---------- *)
Section Restore.
Variable c : ccfg.

(* core: whatever the export is, the three documented routes lead to coders that differ
   from the original one only in how the unused prefix and the re-encoded words are
   distributed over the two backends *)
Lemma chain_restore_routes P ch0 ops P1 ch1 u :
  wf_ccfg c P -> ops_ok c P ops -> chain_inv c P ch0 ->
  chain_forward c P ch0 ops [] = Ok (P1, ch1, u) ->
  chain_inv c P1 ch1
  /\ chain_undo c P1 ch1 u = Ok (P, ch0)
  /\ exists pushed, comp ch0 = pushed ++ comp ch1
     /\ chain_from_remainders c P1 (fst (chain_into_remainders c ch1) ++ snd (chain_into_remainders c ch1))
          = inl (reframe [] (comp ch1) ch1)
     /\ chain_undo c P1 (reframe [] (comp ch1) ch1) u = Ok (P, reframe pushed (comp ch1) ch0)
     /\ chain_from_remainders c P1 (snd (chain_into_remainders c ch1)) = inl (reframe [] [] ch1)
     /\ chain_undo c P1 (reframe [] [] ch1) u = Ok (P, reframe pushed [] ch0).
Proof.
  intros Hwf Hok Hinv Hf.
  destruct (chain_forward_undo c ops P ch0 [] P1 ch1 u Hwf Hok Hinv Hf) as (Hwf1 & Hinv1 & Hu).
  specialize (Hu _ eq_refl). cbn [chain_undo] in Hu.
  split; [exact Hinv1|]. split; [exact Hu|].
  destruct (chain_undo_frame c u P1 ch1 P ch0 Hu) as (pushed & Hc & Hfr).
  exists pushed. split; [exact Hc|].
  pose proof Hinv1 as Hparts. apply chain_inv_parts in Hparts. destruct Hparts as (_ & _ & Hcm & _).
  split; [|split; [|split]].
  - pose proof (remainders_roundtrip c P1 Hwf1 ch1 (rev (comp ch1)) Hinv1 (Forall_rev Hcm)) as H.
    rewrite rev_involutive in H. exact H.
  - rewrite (Hfr [] (comp ch1)), app_nil_r. reflexivity.
  - exact (remainders_roundtrip c P1 Hwf1 ch1 [] Hinv1 (Forall_nil _)).
  - rewrite (Hfr [] []), app_nil_r. reflexivity.
Qed.

Theorem chain_restore_binary P data ops ch0 P1 ch1 u :
  wf_ccfg c P -> Forall (fun w => w < 2 ^ cWB c) data -> ops_ok c P ops ->
  chain_from_binary c P data = inl ch0 ->
  chain_forward c P ch0 ops [] = Ok (P1, ch1, u) ->
  let pre := fst (chain_into_remainders c ch1) in
  let suf := snd (chain_into_remainders c ch1) in
  (exists ch2, chain_undo c P1 ch1 u = Ok (P, ch2) /\ chain_into_binary c ch2 = Some ([], data))
  /\ (exists ch1' ch2 p s,
        chain_from_remainders c P1 (pre ++ suf) = inl ch1' /\ chain_undo c P1 ch1' u = Ok (P, ch2)
        /\ chain_into_binary c ch2 = Some (p, s) /\ p ++ s = data)
  /\ (exists ch1' ch2 p s,
        chain_from_remainders c P1 suf = inl ch1' /\ chain_undo c P1 ch1' u = Ok (P, ch2)
        /\ chain_into_binary c ch2 = Some (p, s) /\ pre ++ p ++ s = data).
Proof.
  intros Hwf Hd Hok Hfb Hf.
  destruct (from_binary_spec c P Hwf data ch0 Hd Hfb) as (Hinv & Hrems & Hhc & Hdata & n & Hlog).
  destruct (chain_restore_routes P ch0 ops P1 ch1 u Hwf Hok Hinv Hf)
    as (Hinv1 & Hu & pushed & Hc & Hr2 & Hu2 & Hr3 & Hu3).
  pose proof Hinv as Hparts. apply chain_inv_parts in Hparts. destruct Hparts as (_ & [Hlo _] & _ & _).
  assert (Hrh : 1 <= hr ch0).
  { pose proof (pow2_pos (cSB c - cWB c - P)). lia. }
  assert (Hexp : forall x br, chain_into_binary c (reframe x br ch0)
                   = Some (rev br, rev x ++ head_words c 1 (hr ch0))).
  { intros x br. unfold reframe. rewrite Hrems, Hhc. cbn [app].
    apply (into_binary_ok c P Hwf x br (hr ch0) n Hrh Hlog). }
  cbv zeta. split; [|split].
  - exists ch0. split; [exact Hu|].
    replace ch0 with (reframe (comp ch0) [] ch0).
    + rewrite Hexp. cbn [rev]. rewrite Hdata. reflexivity.
    + unfold reframe. rewrite app_nil_r. apply chain_eta.
  - eexists _, _, _, _. split; [exact Hr2|]. split; [exact Hu2|]. split; [apply Hexp|].
    rewrite <- Hdata, Hc, rev_app_distr, <- app_assoc. reflexivity.
  - eexists _, _, _, _. split; [exact Hr3|]. split; [exact Hu3|]. split; [apply Hexp|].
    cbn [rev app fst chain_into_remainders].
    rewrite <- Hdata, Hc, rev_app_distr, <- app_assoc. reflexivity.
Qed.

Theorem chain_restore_compressed P data ops ch0 P1 ch1 u :
  wf_ccfg c P -> Forall (fun w => w < 2 ^ cWB c) data -> ops_ok c P ops ->
  chain_from_compressed c P data = inl ch0 ->
  chain_forward c P ch0 ops [] = Ok (P1, ch1, u) ->
  let pre := fst (chain_into_remainders c ch1) in
  let suf := snd (chain_into_remainders c ch1) in
  (exists ch2, chain_undo c P1 ch1 u = Ok (P, ch2) /\ chain_into_compressed c ch2 = Some ([], data))
  /\ (exists ch1' ch2 p s,
        chain_from_remainders c P1 (pre ++ suf) = inl ch1' /\ chain_undo c P1 ch1' u = Ok (P, ch2)
        /\ chain_into_compressed c ch2 = Some (p, s) /\ p ++ s = data)
  /\ (exists ch1' ch2 p s,
        chain_from_remainders c P1 suf = inl ch1' /\ chain_undo c P1 ch1' u = Ok (P, ch2)
        /\ chain_into_compressed c ch2 = Some (p, s) /\ pre ++ p ++ s = data).
Proof.
  intros Hwf Hd Hok Hfb Hf.
  destruct (from_compressed_spec c P Hwf data ch0 Hd Hfb) as (Hinv & Hrems & Hhc & Hdata).
  destruct (chain_restore_routes P ch0 ops P1 ch1 u Hwf Hok Hinv Hf)
    as (Hinv1 & Hu & pushed & Hc & Hr2 & Hu2 & Hr3 & Hu3).
  assert (Hexp : forall x br, chain_into_compressed c (reframe x br ch0)
                   = Some (rev br, rev x ++ head_words c 0 (hr ch0))).
  { intros x br. unfold reframe. rewrite Hrems, Hhc. cbn [app]. apply into_compressed_ok. }
  cbv zeta. split; [|split].
  - exists ch0. split; [exact Hu|].
    replace ch0 with (reframe (comp ch0) [] ch0).
    + rewrite Hexp. cbn [rev]. rewrite Hdata. reflexivity.
    + unfold reframe. rewrite app_nil_r. apply chain_eta.
  - eexists _, _, _, _. split; [exact Hr2|]. split; [exact Hu2|]. split; [apply Hexp|].
    rewrite <- Hdata, Hc, rev_app_distr, <- app_assoc. reflexivity.
  - eexists _, _, _, _. split; [exact Hr3|]. split; [exact Hu3|]. split; [apply Hexp|].
    cbn [rev app fst chain_into_remainders].
    rewrite <- Hdata, Hc, rev_app_distr, <- app_assoc. reflexivity.
Qed.

Lemma chain_schedule_undone ops P ch P1 ch1 u :
  wf_ccfg c P -> ops_ok c P ops -> chain_inv c P ch ->
  chain_forward c P ch ops [] = Ok (P1, ch1, u) ->
  wf_ccfg c P1 /\ chain_inv c P1 ch1 /\ chain_undo c P1 ch1 u = Ok (P, ch).
Proof.
  intros Hwf Hok Hinv Hf.
  destruct (chain_forward_undo c ops P ch [] P1 ch1 u Hwf Hok Hinv Hf) as (H1 & H2 & H3).
  split; [exact H1|]. split; [exact H2|]. exact (H3 _ eq_refl).
Qed.

Lemma chain_start_binary P data ch :
  wf_ccfg c P -> Forall (fun w => w < 2 ^ cWB c) data ->
  chain_from_binary c P data = inl ch ->
  chain_inv c P ch /\ chain_into_binary c ch = Some ([], data).
Proof.
  intros Hwf Hd Hfb.
  destruct (chain_restore_binary P data [] ch P ch [] Hwf Hd I Hfb eq_refl) as ((ch2 & Hu & Hb) & _).
  cbn in Hu. inversion Hu; subst ch2.
  destruct (from_binary_spec c P Hwf data ch Hd Hfb) as (Hinv & _). auto.
Qed.

Lemma chain_start_compressed P data ch :
  wf_ccfg c P -> Forall (fun w => w < 2 ^ cWB c) data ->
  chain_from_compressed c P data = inl ch ->
  chain_inv c P ch /\ chain_into_compressed c ch = Some ([], data).
Proof.
  intros Hwf Hd Hfb.
  destruct (chain_restore_compressed P data [] ch P ch [] Hwf Hd I Hfb eq_refl) as ((ch2 & Hu & Hb) & _).
  cbn in Hu. inversion Hu; subst ch2.
  destruct (from_compressed_spec c P Hwf data ch Hd Hfb) as (Hinv & _). auto.
Qed.

End Restore.

(* ---------- C14 at the level of the data ---------- *)
Section Data.
Variable c : ccfg.
Variable P : N.
Hypothesis Hwf : wf_ccfg c P.

Lemma chunks_from_binary data ch :
  chain_from_binary c P data = inl ch -> chunks c P data = chain_chunks c P ch.
Proof. intros H. unfold chunks. rewrite H. reflexivity. Qed.

(* symbol i = what model i assigns to chunk i of the data; quantile i = chunk i *)
Theorem chain_local_binary data ms ch :
  Forall (fun w => w < 2 ^ cWB c) data -> Forall (fun m => em_prec m = P) ms ->
  chain_from_binary c P data = inl ch ->
  fst (chain_decode_all c ms ch) = local_outputs ms (chunks c P data)
  /\ chain_quantiles c ms ch = pad_chunks (length ms) (chunks c P data).
Proof.
  intros Hd Hms Hfb. rewrite (chunks_from_binary data ch Hfb).
  destruct (from_binary_spec c P Hwf data ch Hd Hfb) as (Hinv & _).
  apply chain_inv_parts in Hinv. destruct Hinv as (Hh & _ & Hcm & _).
  apply chain_decode_all_local; assumption.
Qed.

(* whether the constructor succeeds and how many words it leaves on the compressed
   backend depends on the NUMBER of words alone *)
Lemma fill_shape src1 : forall src2 a1 a2,
  length src1 = length src2 -> 1 <= a1 -> 1 <= a2 -> N.log2 a1 = N.log2 a2 ->
  wordsok c src1 -> wordsok c src2 ->
  match heads_fill c P src1 a1, heads_fill c P src2 a2 with
  | (s1, Some _), (s2, Some _) => length s1 = length s2
  | (_, None), (_, None) => True
  | _, _ => False
  end.
Proof.
  induction src1 as [|w1 r1 IH]; intros src2 a1 a2 Hlen H1 H2 Hlog Hk1 Hk2.
  - destruct src2; [|discriminate].
    destruct (N.lt_ge_cases a1 (2 ^ (cSB c - cWB c - P))) as [L1|L1];
    destruct (N.lt_ge_cases a2 (2 ^ (cSB c - cWB c - P))) as [L2|L2].
    + rewrite !(fill_nil c P Hwf) by assumption. exact I.
    + apply (lt_pow_log2 c a1 _ H1) in L1.
      assert (~ a2 < 2 ^ (cSB c - cWB c - P)) by lia. rewrite (lt_pow_log2 c a2 _ H2) in H. lia.
    + apply (lt_pow_log2 c a2 _ H2) in L2.
      assert (~ a1 < 2 ^ (cSB c - cWB c - P)) by lia. rewrite (lt_pow_log2 c a1 _ H1) in H. lia.
    + rewrite !(fill_stop c P Hwf) by assumption. reflexivity.
  - destruct src2 as [|w2 r2]; [discriminate|].
    apply Forall_cons_iff in Hk1. destruct Hk1 as [Hw1 Hk1].
    apply Forall_cons_iff in Hk2. destruct Hk2 as [Hw2 Hk2].
    destruct (N.lt_ge_cases a1 (2 ^ (cSB c - cWB c - P))) as [L1|L1];
    destruct (N.lt_ge_cases a2 (2 ^ (cSB c - cWB c - P))) as [L2|L2].
    + rewrite !(fill_step c P Hwf) by assumption.
      pose proof (two_le_W c P Hwf) as H2W. cbv zeta in H2W.
      apply IH; try assumption.
      * cbn in Hlen. lia.
      * nia.
      * nia.
      * rewrite !log2_shift_add by assumption. lia.
    + apply (lt_pow_log2 c a1 _ H1) in L1.
      assert (~ a2 < 2 ^ (cSB c - cWB c - P)) by lia. rewrite (lt_pow_log2 c a2 _ H2) in H. lia.
    + apply (lt_pow_log2 c a2 _ H2) in L2.
      assert (~ a1 < 2 ^ (cSB c - cWB c - P)) by lia. rewrite (lt_pow_log2 c a1 _ H1) in H. lia.
    + rewrite !(fill_stop c P Hwf) by assumption. exact Hlen.
Qed.

Theorem chunks_length_shape data data' :
  Forall (fun w => w < 2 ^ cWB c) data -> Forall (fun w => w < 2 ^ cWB c) data' ->
  length data = length data' ->
  length (chunks c P data) = length (chunks c P data')
  /\ ((exists ch, chain_from_binary c P data = inl ch) <-> (exists ch, chain_from_binary c P data' = inl ch)).
Proof.
  intros Hd Hd' Hlen.
  pose proof (fill_shape (rev data) (rev data') 1 1 ltac:(rewrite !rev_length; exact Hlen)
                ltac:(lia) ltac:(lia) eq_refl (Forall_rev Hd) (Forall_rev Hd')) as Hs.
  destruct (chain_from_binary c P data) as [ch|rest] eqn:E1;
  destruct (chain_from_binary c P data') as [ch'|rest'] eqn:E2.
  - split; [|split; eauto].
    rewrite (chunks_from_binary _ _ E1), (chunks_from_binary _ _ E2).
    destruct (from_binary_spec c P Hwf data ch Hd E1) as (Hi & _ & Hh & _).
    destruct (from_binary_spec c P Hwf data' ch' Hd' E2) as (Hi' & _ & Hh' & _).
    apply chain_inv_parts in Hi, Hi'.
    destruct Hi as (Hk & _ & Hcm & _). destruct Hi' as (Hk' & _ & Hcm' & _).
    rewrite !chain_chunks_of. apply chunks_of_shape; try assumption.
    + revert E1 E2 Hs. unfold chain_from_binary, heads_new.
      destruct (heads_fill c P (rev data) 1) as [s1 [x1|]]; [|discriminate].
      destruct (heads_fill c P (rev data') 1) as [s2 [x2|]]; [|discriminate].
      intros A B; inversion A; inversion B; subst. cbn [comp]. auto.
    + rewrite Hh, Hh'. reflexivity.
  - exfalso. revert E1 E2 Hs. unfold chain_from_binary, heads_new.
    destruct (heads_fill c P (rev data) 1) as [s1 [x1|]]; [|discriminate].
    destruct (heads_fill c P (rev data') 1) as [s2 [x2|]]; [discriminate|]. auto.
  - exfalso. revert E1 E2 Hs. unfold chain_from_binary, heads_new.
    destruct (heads_fill c P (rev data) 1) as [s1 [x1|]]; [discriminate|].
    destruct (heads_fill c P (rev data') 1) as [s2 [x2|]]; [|discriminate]. auto.
  - unfold chunks. rewrite E1, E2. split; [reflexivity|].
    split; intros [ch H]; discriminate.
Qed.

(* from_remainders of ANY words establishes the invariant *)
Lemma from_remainders_inv data ch :
  Forall (fun w => w < 2 ^ cWB c) data -> chain_from_remainders c P data = inl ch -> chain_inv c P ch.
Proof.
  intros Hd. unfold chain_from_remainders.
  pose proof (Forall_rev Hd) as Hrd.
  destruct (rev data) as [|w0 r0]; [discriminate|].
  apply Forall_cons_iff in Hrd. destruct Hrd as [Hw0 Hr0].
  destruct (N.eqb_spec w0 0) as [|Hnz]; [discriminate|].
  unfold heads_new. destruct r0 as [|w r]; [discriminate|].
  apply Forall_cons_iff in Hr0. destruct Hr0 as [Hw Hr].
  destruct (N.eqb_spec w 0) as [|Hwnz]; [discriminate|].
  destruct (heads_fill c P r w) as [src [rh|]] eqn:Ef; [|discriminate].
  intros E; inversion E; subst ch; clear E.
  destruct (fill_words c P Hwf 0 r ltac:(lia) w src rh ltac:(lia) Hr Ef) as (_ & Hok & HL & HU & _).
  apply chain_inv_parts. cbn [comp rems hc hr].
  split; [unfold headok; lia|]. split; [|split; [constructor|exact Hok]].
  split; [exact HL|]. apply HU. pose proof (W_le_U c P Hwf) as H. cbv zeta in H. lia.
Qed.

(* replace the model of position j: every other output is unchanged, and the positions
   that report OutOfCompressedData are the same (j included) *)
Theorem chain_model_swap data ms ms' ch j :
  Forall (fun w => w < 2 ^ cWB c) data ->
  Forall (fun m => em_prec m = P) ms -> Forall (fun m => em_prec m = P) ms' ->
  length ms = length ms' -> (forall i, i <> j -> nth_error ms i = nth_error ms' i) ->
  chain_from_binary c P data = inl ch ->
  let o := fst (chain_decode_all c ms ch) in
  let o' := fst (chain_decode_all c ms' ch) in
  forall i, (i <> j -> nth_error o i = nth_error o' i)
            /\ is_err (nth_error o i) = is_err (nth_error o' i).
Proof.
  intros Hd Hms Hms' Hlen Hsame Hfb. cbv zeta.
  destruct (chain_local_binary data ms ch Hd Hms Hfb) as [-> _].
  destruct (chain_local_binary data ms' ch Hd Hms' Hfb) as [-> _].
  apply local_model_swap; assumption.
Qed.

(* change the data so that only chunk j differs (bits flipped inside chunk j): likewise *)
Theorem chain_chunk_flip data data' ms ch ch' j :
  Forall (fun w => w < 2 ^ cWB c) data -> Forall (fun w => w < 2 ^ cWB c) data' ->
  Forall (fun m => em_prec m = P) ms ->
  length (chunks c P data) = length (chunks c P data') ->
  (forall i, i <> j -> nth_error (chunks c P data) i = nth_error (chunks c P data') i) ->
  chain_from_binary c P data = inl ch -> chain_from_binary c P data' = inl ch' ->
  let o := fst (chain_decode_all c ms ch) in
  let o' := fst (chain_decode_all c ms ch') in
  forall i, (i <> j -> nth_error o i = nth_error o' i)
            /\ is_err (nth_error o i) = is_err (nth_error o' i).
Proof.
  intros Hd Hd' Hms Hlen Hsame Hfb Hfb'. cbv zeta.
  destruct (chain_local_binary data ms ch Hd Hms Hfb) as [-> _].
  destruct (chain_local_binary data' ms ch' Hd' Hms Hfb') as [-> _].
  apply local_chunk_change; assumption.
Qed.

(* whether and when the coder runs out of data: a function of the number of data words,
   the precision and the position -- no model, no bit of the data is involved *)
Theorem chain_oom_independent data data' ms ms' ch ch' i :
  Forall (fun w => w < 2 ^ cWB c) data -> Forall (fun w => w < 2 ^ cWB c) data' ->
  Forall (fun m => em_prec m = P) ms -> Forall (fun m => em_prec m = P) ms' ->
  length data = length data' -> length ms = length ms' ->
  chain_from_binary c P data = inl ch -> chain_from_binary c P data' = inl ch' ->
  is_err (nth_error (fst (chain_decode_all c ms ch)) i)
  = is_err (nth_error (fst (chain_decode_all c ms' ch')) i)
  /\ (is_err (nth_error (fst (chain_decode_all c ms ch)) i) = true
      <-> (i < length ms)%nat /\ (length (chunks c P data) <= i)%nat).
Proof.
  intros Hd Hd' Hms Hms' Hlen Hlm Hfb Hfb'.
  destruct (chain_local_binary data ms ch Hd Hms Hfb) as [-> _].
  destruct (chain_local_binary data' ms' ch' Hd' Hms' Hfb') as [-> _].
  destruct (chunks_length_shape data data' Hd Hd' Hlen) as [Hcl _].
  split; [|apply local_outputs_err].
  apply eq_true_iff_eq. rewrite !local_outputs_err, Hcl, Hlm. reflexivity.
Qed.

End Data.
