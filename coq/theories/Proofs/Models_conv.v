(* Proofs/Models_conv.v -- the conversion graph: every representation reachable from an
   accepted model answers every query exactly like the model's symbol table. *)
From CV Require Import Base.Bits Model.EModel Model.MBase Model.Uniform Model.Tables Model.Lookup Model.Convert.
From CV Require Import Proofs.Table_lemmas Proofs.Models_base Proofs.Models_validator Proofs.Models_tables
  Proofs.Models_ctor Proofs.Models_uniform Proofs.Models_lookup.
Open Scope N_scope.
Set Default Timeout 30.

Definition tprobs (t : table) : list N := map snd t.

Lemma table_of_self : forall t s T, tiles s T t -> table_of s (syms t) (tprobs t) = t.
Proof.
  induction t as [|[[sy cu] p] r IH]; intros s T H; [reflexivity|].
  cbn in H. destruct H as (-> & _ & Hr). unfold syms, tprobs in *. cbn [map fst snd table_of].
  rewrite (IH _ _ Hr). reflexivity.
Qed.

Lemma tiles_sum : forall t s T, tiles s T t -> s + sumN (tprobs t) = T /\ all_pos (tprobs t).
Proof.
  induction t as [|[[sy cu] p] r IH]; intros s T H; cbn in H.
  - cbn. split; [lia|constructor].
  - destruct H as (_ & Hp & Hr). destruct (IH _ _ Hr) as [Hs Ha]. unfold tprobs in *. cbn [map snd sumN].
    split; [lia|]. constructor; assumption.
Qed.

Lemma syms_length (t : table) : length (syms t) = length t.
Proof. unfold syms. apply map_length. Qed.
Lemma tprobs_length (t : table) : length (tprobs t) = length t.
Proof. unfold tprobs. apply map_length. Qed.

Lemma wf_table_parts P t : wf_table P t ->
  valid_probs P (tprobs t) /\ length (syms t) = length (tprobs t) /\ NoDup (syms t) /\
  table_of 0 (syms t) (tprobs t) = t.
Proof.
  intros (HP & Ht & Hnd & Hlen). destruct (tiles_sum _ _ _ Ht) as [Hs Ha].
  split; [split; [exact Ha|split; [lia|rewrite tprobs_length; exact Hlen]]|].
  split; [rewrite syms_length, tprobs_length; reflexivity|]. split; [exact Hnd|].
  eapply table_of_self; eauto.
Qed.

(* ------------------------------------------------------------------ conversions from a table *)
Lemma ncenc_from_table_get : forall t (m0 : ncenc) s,
  NoDup (syms t) ->
  map_get (fold_left (fun m '(s, cum, p) => map_insert m s (cum, p)) t m0) s =
  match tbl_enc t s with Some v => Some v | None => map_get m0 s end.
Proof.
  induction t as [|[[s' cu] p] r IH]; intros m0 s Hnd; [reflexivity|].
  cbn [fold_left tbl_enc]. unfold syms in Hnd. cbn [map fst] in Hnd.
  inversion Hnd as [|? ? Hnotin Hnd']; subst. rewrite IH by exact Hnd'.
  rewrite map_get_insert. destruct (Z.eqb_spec s s') as [->|Hne]; [|reflexivity].
  rewrite tbl_enc_notin by exact Hnotin. reflexivity.
Qed.

Lemma ncenc_from_table_len : forall t (m0 : ncenc),
  NoDup (syms t) -> (forall s, In s (syms t) -> map_get m0 s = None) ->
  length (fold_left (fun m '(s, cum, p) => map_insert m s (cum, p)) t m0) = (length m0 + length t)%nat.
Proof.
  induction t as [|[[s' cu] p] r IH]; intros m0 Hnd Hfr; cbn [fold_left length]; [lia|].
  unfold syms in Hnd, Hfr. cbn [map fst] in Hnd, Hfr. inversion Hnd as [|? ? Hnotin Hnd']; subst.
  rewrite IH; [|exact Hnd'|].
  - rewrite map_insert_length_new by (apply Hfr; left; reflexivity). lia.
  - intros s Hs. rewrite map_get_insert. destruct (Z.eqb_spec s s') as [->|_]; [contradiction|].
    apply Hfr. right. exact Hs.
Qed.

Lemma table_of_pairs : forall ps ss S, length ss = length ps ->
  map (fun '(s, cum, _) => (cum, s)) (table_of S ss ps) = combine (cums S ps) ss.
Proof.
  induction ps as [|p r IH]; intros [|s ss] S H; cbn in *; try discriminate; try reflexivity.
  rewrite IH by lia. reflexivity.
Qed.

Section FromTable.
  Variable c : mcfg.
  Hypothesis Hc : wf_mcfg c.
  Variable t : table.
  Hypothesis Ht : wf_table (PR c) t.
  Local Notation T := (2 ^ PR c).

  Lemma ncdec_from_table_spec :
    ncdec_from_table c t = Ok (ecdf c (syms t) (tprobs t) (last (syms t) 0%Z)).
  Proof.
    destruct (wf_table_parts _ _ Ht) as (Hv & Hlen & Hnd & Hself).
    unfold ncdec_from_table. rewrite <- Hself at 1. rewrite table_of_pairs by exact Hlen.
    unfold ncdec_close.
    assert (Hne : combine (cums 0 (tprobs t)) (syms t) <> []).
    { destruct Hv as (_ & _ & Hl). destruct (tprobs t); [cbn in Hl; lia|].
      destruct (syms t); [discriminate|]. discriminate. }
    rewrite (last_opt_last _ (0, 0%Z) Hne).
    assert (Hl2 : length (cums 0 (tprobs t)) = length (syms t)) by (rewrite cums_length; lia).
    pose proof (last_combine_snd (cums 0 (tprobs t)) (syms t) 0 0%Z Hl2) as Hls.
    destruct (last _ (0, 0%Z)) as [lc ls]. cbn [snd] in Hls. subst ls. reflexivity.
  Qed.

  Lemma ncenc_from_table_spec :
    (forall s, map_get (ncenc_from_table t) s = tbl_enc t s) /\ lenN (ncenc_from_table t) = lenN t.
  Proof.
    destruct (wf_table_parts _ _ Ht) as (_ & _ & Hnd & _). unfold ncenc_from_table. split.
    - intros s. rewrite ncenc_from_table_get by exact Hnd. destruct (tbl_enc t s); reflexivity.
    - unfold lenN. rewrite ncenc_from_table_len; [reflexivity|exact Hnd|reflexivity].
  Qed.

  Hypothesis Hlk : wf_mcfg_lookup c.

  Lemma lkn_loop : forall ps ss cdf tbl S,
    all_pos ps -> length ss = length ps -> lenN tbl = S -> S + sumN ps <= T ->
    lkn_from_table_loop c (table_of S ss ps) (cdf, tbl) =
    Ok (cdf ++ combine (cums S ps) ss, tbl ++ blocks c (lenN cdf) ps).
  Proof.
    pose proof (lk_T_le_M c Hlk) as HTM. pose proof (lk_T_lt_U c Hlk) as HTU.
    induction ps as [|p r IH]; intros [|s ss] cdf tbl S Hpos Hlen Hl Hsum; cbn in Hlen; try discriminate.
    - cbn. rewrite !app_nil_r. reflexivity.
    - inversion Hpos as [|? ? Hp Hpos']; subst. cbn [sumN] in Hsum.
      cbn [table_of lkn_from_table_loop snd].
      rewrite (trunc_small (PB c) (lenN tbl)) by lia. rewrite N.eqb_refl. cbn [negb].
      unfold nz_get, nonzero_unchecked. destruct (N.eqb_spec p 0) as [|_]; [lia|]. cbn [bind].
      unfold lkn_push. rewrite (trunc_small (PB c) (lenN tbl)) by lia.
      unfold cadd. destruct (N.ltb_spec (lenN tbl + p) (2 ^ UB c)) as [_|]; [|lia]. cbn [bind].
      rewrite resize_grow. rewrite IH; [|exact Hpos'|lia| |lia].
      2:{ rewrite lenN_app. unfold lenN at 2. rewrite repeat_length. lia. }
      cbn [cums combine blocks]. rewrite <- !app_assoc. cbn [app]. rewrite lenN_app.
      unfold lenN at 3. cbn [length]. reflexivity.
  Qed.

  Lemma lkn_from_table_spec : lkn_from_table c t = Ok (lkn_of c (syms t) (tprobs t)).
  Proof.
    destruct (wf_table_parts _ _ Ht) as (Hv & Hlen & Hnd & Hself).
    unfold lkn_from_table. rewrite <- Hself at 1.
    destruct Hv as (Hpos & Hsum & Hl).
    rewrite (lkn_loop _ _ [] [] 0 Hpos Hlen eq_refl ltac:(lia)). cbn [bind app].
    unfold lkn_close, ncdec_close.
    assert (Hne : combine (cums 0 (tprobs t)) (syms t) <> []).
    { destruct (tprobs t); [cbn in Hl; lia|]. destruct (syms t); [discriminate|]. discriminate. }
    rewrite (last_opt_last _ (0, 0%Z) Hne).
    assert (Hl2 : length (cums 0 (tprobs t)) = length (syms t)) by (rewrite cums_length; lia).
    pose proof (last_combine_snd (cums 0 (tprobs t)) (syms t) 0 0%Z Hl2) as Hls.
    destruct (last _ (0, 0%Z)) as [lc ls]. cbn [snd] in Hls. subst ls. reflexivity.
  Qed.
End FromTable.

(* From<&ContiguousCategoricalEntropyModel> for the contiguous lookup model *)
Fixpoint rights (S : N) (qs : list N) : list N :=
  match qs with [] => [] | q :: r => (S + q) :: rights (S + q) r end.

Lemma lkc_fill_spec c : forall qs i tbl S,
  lenN tbl = S ->
  lkc_fill c (rights S qs) i tbl = tbl ++ blocks c i qs.
Proof.
  induction qs as [|q r IH]; intros i tbl S Hl; cbn [rights lkc_fill blocks].
  - rewrite app_nil_r. reflexivity.
  - rewrite <- Hl, resize_grow. rewrite IH.
    + rewrite <- app_assoc. reflexivity.
    + rewrite lenN_app. unfold lenN at 2. rewrite repeat_length. lia.
Qed.

Lemma tl_cums_rights : forall qs S x, tl (cums S (qs ++ [x])) = rights S qs.
Proof.
  induction qs as [|q r IH]; intros S x; [reflexivity|].
  cbn [app cums tl rights]. rewrite <- IH with (x := x).
  destruct (r ++ [x]) eqn:E; [destruct r; discriminate|]. reflexivity.
Qed.

Section LkcFromContig.
  Variable c : mcfg.
  Hypothesis Hlk : wf_mcfg_lookup c.
  Variable probs : list N.
  Hypothesis Hv : valid_probs (PR c) probs.

  Lemma lkc_from_contig_spec : lkc_from_contig c (cdf_of c probs) = Ok (lkc_of c probs).
  Proof.
    destruct Hv as (Hpos & Hsum & Hlen). pose proof (lk_T_le_M c Hlk) as HTM. pose proof (lk_T_lt_U c Hlk) as HTU.
    destruct Hlk as [[HP0 HPle] [HPU HBU]].
    unfold lkc_from_contig. unfold lenN. rewrite (cdf_of_length c probs). rewrite csub_succ. cbn [bind].
    destruct (N.leb_spec 1 (N.of_nat (length probs))) as [_|]; [|lia]. cbn [bind].
    destruct (exists_last (l := probs)) as (qs & x & Hqx); [intros ->; cbn in Hlen; lia|].
    assert (Hinner : removelast (tl (cdf_of c probs)) = rights 0 qs).
    { unfold cdf_of. rewrite Hqx. rewrite <- (tl_cums_rights qs 0 x).
      destruct (cums 0 (qs ++ [x])) as [|c0 cr] eqn:Ec; [destruct qs; discriminate|].
      cbn [app tl]. apply removelast_snoc. }
    rewrite Hinner, (lkc_fill_spec c qs 0 [] 0 eq_refl). cbn [app].
    unfold csub. destruct (N.leb_spec 2 (N.of_nat (S (length probs)))) as [_|]; [|lia]. cbn [bind].
    unfold cshl1. destruct (N.ltb_spec (PR c) (UB c)) as [_|]; [|lia]. cbn [bind].
    unfold lkc_of. f_equal. f_equal.
    rewrite Hqx, blocks_app. cbn [blocks]. rewrite app_nil_r.
    rewrite Hqx, sumN_app in Hsum. cbn [sumN] in Hsum.
    replace (2 ^ PR c) with (lenN (blocks c 0 qs) + x) by (rewrite blocks_length; lia).
    rewrite resize_grow. f_equal. f_equal. f_equal.
    rewrite app_length. cbn [length]. unfold lenN. lia.
  Qed.
End LkcFromContig.

(* ------------------------------------------------------------------ good representations *)
Definition rep_good (c : mcfg) (t : table) (r : rep) : Prop :=
  match r with
  | RUniform m =>
      wf_mcfg_uniform c /\
      exists range, 2 <= range <= 2 ^ PR c /\ range < 2 ^ UB c /\
        m = {| u_ppb := 2 ^ PR c / range; u_last := range - 1 |} /\
        t = utable (2 ^ PR c) (2 ^ PR c / range) (range - 1) (N.to_nat range)
  | RContig m => syms t = iotaZ (length t) /\ m = cdf_of c (tprobs t)
  | RNcDec m => m = ecdf c (syms t) (tprobs t) (last (syms t) 0%Z)
  | RNcEnc m => (forall s, map_get m s = tbl_enc t s) /\ lenN m = lenN t
  | RLkC m => wf_mcfg_lookup c /\ syms t = iotaZ (length t) /\ m = lkc_of c (tprobs t)
  | RLkN m => wf_mcfg_lookup c /\ m = lkn_of c (syms t) (tprobs t)
  end.

Section Good.
  Variable c : mcfg.
  Hypothesis Hc : wf_mcfg c.
  Variable t : table.
  Hypothesis Ht : wf_table (PR c) t.
  Local Notation T := (2 ^ PR c).

  Lemma contig_table_good : syms t = iotaZ (length t) -> contig_table c (cdf_of c (tprobs t)) = Ok t.
  Proof.
    intros Hs. destruct (wf_table_parts _ _ Ht) as (Hv & Hlen & Hnd & Hself).
    rewrite (contig_table_spec c (tprobs t) Hc Hv). rewrite tprobs_length, <- Hs. rewrite Hself. reflexivity.
  Qed.

  Theorem rep_table_good r rt : rep_good c t r -> rep_table c r = Some rt -> rt = Ok t.
  Proof.
    destruct (wf_table_parts _ _ Ht) as (Hv & Hlen & Hnd & Hself).
    destruct r as [m|m|m|m|m|m]; cbn [rep_good rep_table]; intros Hg H; inversion H; subst; clear H.
    - destruct Hg as (Hu & range & Hr & Hru & -> & ->). apply uniform_table_spec; try assumption; lia.
    - destruct Hg as (Hs & ->). apply contig_table_good. exact Hs.
    - rewrite (ncdec_table_spec c (tprobs t) Hc Hv (syms t) Hlen). rewrite Hself. reflexivity.
    - destruct Hg as (_ & Hs & ->). unfold lkc_table_of. cbn [lkc_of lkc_cdf]. apply contig_table_good. exact Hs.
    - destruct Hg as (_ & ->). unfold lkn_table_of. cbn [lkn_of lkn_cdf].
      rewrite (ncdec_table_spec c (tprobs t) Hc Hv (syms t) Hlen). rewrite Hself. reflexivity.
  Qed.

  Theorem rep_lcp_good r s rr : rep_good c t r -> rep_lcp c r s = Some rr ->
    match r with RNcEnc _ => True | _ => sym_ok (UB c) SyUsize s = true end ->
    rr = Ok (tbl_enc t s).
  Proof.
    destruct (wf_table_parts _ _ Ht) as (Hv & Hlen & Hnd & Hself).
    destruct r as [m|m|m|m|m|m]; cbn [rep_good rep_lcp]; intros Hg H Hok; inversion H; subst; clear H.
    - destruct Hg as (Hu & range & Hr & Hru & -> & ->).
      cbn [sym_ok] in Hok. apply andb_true_iff in Hok. destruct Hok as [H0 H1].
      apply Z.leb_le in H0. apply Z.ltb_lt in H1.
      rewrite (uniform_lcp_spec c Hu range) by lia. rewrite Z2N.id by exact H0. reflexivity.
    - destruct Hg as (Hs & ->).
      cbn [sym_ok] in Hok. apply andb_true_iff in Hok. destruct Hok as [H0 _]. apply Z.leb_le in H0.
      rewrite (contig_lcp_spec c (tprobs t) Hc Hv). rewrite Z2N.id by exact H0.
      rewrite tprobs_length, <- Hs, Hself. reflexivity.
    - destruct Hg as (Hg & _). unfold ncenc_lcp. rewrite Hg. reflexivity.
  Qed.

  Theorem rep_quant_good r q rr : rep_good c t r -> rep_quant c r q = Some rr -> q < T ->
    rr = Ok (tbl_dec t q).
  Proof.
    destruct (wf_table_parts _ _ Ht) as (Hv & Hlen & Hnd & Hself).
    destruct r as [m|m|m|m|m|m]; cbn [rep_good rep_quant]; intros Hg H Hq; inversion H; subst; clear H.
    - destruct Hg as (Hu & range & Hr & Hru & -> & ->). apply uniform_quant_spec; try assumption; lia.
    - destruct Hg as (Hs & ->). rewrite (contig_quant_spec c (tprobs t) Hc Hv).
      rewrite tprobs_length, <- Hs, Hself. reflexivity.
    - rewrite (ncdec_quant_spec c (tprobs t) Hc Hv (syms t) Hlen). rewrite Hself. reflexivity.
    - destruct Hg as (Hl & Hs & ->). rewrite (lkc_quant_spec c Hl (tprobs t) Hv q Hq).
      rewrite tprobs_length, <- Hs, Hself. reflexivity.
    - destruct Hg as (Hl & ->). rewrite (lkn_quant_spec c Hl (tprobs t) Hv (syms t) Hlen q Hq).
      rewrite Hself. reflexivity.
  Qed.

  Theorem rep_support_good r rn : rep_good c t r -> rep_support_size r = Some rn -> rn = Ok (lenN t).
  Proof.
    destruct (wf_table_parts _ _ Ht) as (Hv & Hlen & Hnd & Hself).
    destruct r as [m|m|m|m|m|m]; cbn [rep_good rep_support_size]; intros Hg H; inversion H; subst; clear H.
    - destruct Hg as (Hs & ->). rewrite contig_support_spec. unfold lenN. rewrite tprobs_length. reflexivity.
    - rewrite (ncdec_support_spec c (tprobs t) (syms t) Hlen). unfold lenN. rewrite tprobs_length. reflexivity.
    - destruct Hg as (_ & Hl). unfold ncenc_support_size. rewrite Hl. reflexivity.
  Qed.

  (* conversions never fail on a good representation and produce a good representation of the
     SAME table *)
  Theorem rep_conv_good lookup_ok k r :
    (lookup_ok = true -> wf_mcfg_lookup c) -> rep_good c t r ->
    exists o, rep_conv c lookup_ok k r = Ok o /\ forall r', o = Some r' -> rep_good c t r'.
  Proof.
    intros Hlk Hg. destruct (wf_table_parts _ _ Ht) as (Hv & Hlen & Hnd & Hself).
    assert (Htab : forall f, (forall rt, rep_table c r = Some rt -> rt = Ok t) ->
              (exists r', f t = Ok r' /\ rep_good c t r') ->
              exists o, with_table c r f = Ok o /\ forall r', o = Some r' -> rep_good c t r').
    { intros f Hrt (r' & Hf & Hg'). unfold with_table. destruct (rep_table c r) as [rt|] eqn:E.
      - rewrite (Hrt rt eq_refl). cbn [bind]. rewrite Hf. cbn [bind]. eexists. split; [reflexivity|].
        intros r2 H2. inversion H2; subst. exact Hg'.
      - eexists. split; [reflexivity|]. discriminate. }
    assert (Hrt : forall rt, rep_table c r = Some rt -> rt = Ok t) by (intros rt; apply rep_table_good; exact Hg).
    assert (Hnone : exists o : option rep, Ok None = Ok o /\ forall r', o = Some r' -> rep_good c t r').
    { eexists. split; [reflexivity|discriminate]. }
    assert (Hsame : exists o : option rep, Ok (Some r) = Ok o /\ forall r', o = Some r' -> rep_good c t r').
    { eexists. split; [reflexivity|]. intros r' H; inversion H; subst; exact Hg. }
    assert (Hgenenc : exists o, with_table c r (fun t0 => Ok (RNcEnc (ncenc_from_table t0))) = Ok o /\
                        forall r', o = Some r' -> rep_good c t r').
    { apply Htab; [exact Hrt|]. eexists. split; [reflexivity|]. cbn [rep_good]. apply (ncenc_from_table_spec c t Ht). }
    assert (Hgendec : exists o, with_table c r (fun t0 => ncdec_from_table c t0 >>= fun m => Ok (RNcDec m)) = Ok o /\
                        forall r', o = Some r' -> rep_good c t r').
    { apply Htab; [exact Hrt|]. rewrite (ncdec_from_table_spec c t Ht). cbn [bind].
      eexists. split; [reflexivity|]. reflexivity. }
    assert (Hgenlk : lookup_ok = true ->
              exists o, with_table c r (fun t0 => lkn_from_table c t0 >>= fun m => Ok (RLkN m)) = Ok o /\
                        forall r', o = Some r' -> rep_good c t r').
    { intros Hl. apply Htab; [exact Hrt|]. rewrite (lkn_from_table_spec c t Ht (Hlk Hl)). cbn [bind].
      eexists. split; [reflexivity|]. cbn [rep_good]. split; [apply Hlk; exact Hl|reflexivity]. }
    destruct k; cbn [rep_conv]; try exact Hgenenc; try exact Hgendec.
    - destruct r; try exact Hnone; exact Hsame.
    - destruct lookup_ok; [apply Hgenlk; reflexivity|exact Hnone].
    - destruct r as [m|m|m|m|m|m]; try exact Hnone.
      + destruct lookup_ok eqn:El; [|exact Hnone]. destruct Hg as (Hs & ->).
        rewrite (lkc_from_contig_spec c (Hlk eq_refl) (tprobs t) Hv). cbn [bind].
        eexists. split; [reflexivity|]. intros r' H; inversion H; subst. cbn [rep_good].
        split; [apply Hlk; reflexivity|]. split; [exact Hs|reflexivity].
      + destruct lookup_ok eqn:El; [apply Hgenlk; reflexivity|exact Hnone].
    - destruct r as [m|m|m|m|m|m]; try exact Hnone.
      + destruct Hg as (_ & Hs & ->). eexists. split; [reflexivity|]. intros r' H; inversion H; subst.
        cbn [rep_good lkc_as_contig lkc_of lkc_cdf]. split; [exact Hs|reflexivity].
      + destruct Hg as (_ & ->). eexists. split; [reflexivity|]. intros r' H; inversion H; subst. reflexivity.
    - destruct r as [m|m|m|m|m|m]; try exact Hnone.
      + destruct Hg as (_ & Hs & ->). eexists. split; [reflexivity|]. intros r' H; inversion H; subst.
        cbn [rep_good lkc_as_contig lkc_of lkc_cdf]. split; [exact Hs|reflexivity].
      + destruct Hg as (_ & ->). eexists. split; [reflexivity|]. intros r' H; inversion H; subst. reflexivity.
    - exact Hsame.
  Qed.

  Theorem rep_convs_good lookup_ok ks : forall r,
    (lookup_ok = true -> wf_mcfg_lookup c) -> rep_good c t r ->
    exists o, rep_convs c lookup_ok ks r = Ok o /\ forall r', o = Some r' -> rep_good c t r'.
  Proof.
    induction ks as [|k ks IH]; intros r Hlk Hg; cbn [rep_convs].
    - eexists. split; [reflexivity|]. intros r' H; inversion H; subst; exact Hg.
    - destruct (rep_conv_good lookup_ok k r Hlk Hg) as (o & Ho & Hgo). rewrite Ho. cbn [bind].
      destruct o as [r1|]; [apply IH; [exact Hlk|apply Hgo; reflexivity]|].
      eexists. split; [reflexivity|discriminate].
  Qed.
End Good.
