(* Proofs/Huffman_build.v -- the two constructors.
   Both loops are instances of one sequence of merges [(index0, index1); ...]
   (huff_same_tree); the sequence is a full binary tree on the nodes 0 .. 2n-2
   with root 2n-2 (tree_ok); no get_unchecked_mut index is out of bounds. *)
From CV Require Import Base.Bits Model.Huffman Proofs.Huffman_heap.
From Coq Require Import Permutation.
Set Default Timeout 30.
Open Scope N_scope.

(* ------------------------------------------------------------ arrays *)
Lemma nthN_lt {A} (l : list A) i x : nthN l i = Some x -> i < N.of_nat (length l).
Proof.
  unfold nthN. intros H.
  assert (nth_error l (N.to_nat i) <> None) as H' by congruence.
  apply nth_error_Some in H'. lia.
Qed.

Lemma nthN_some {A} (l : list A) i : i < N.of_nat (length l) -> exists x, nthN l i = Some x.
Proof.
  unfold nthN. intros H. destruct (nth_error l (N.to_nat i)) eqn:E; [eauto|].
  apply nth_error_None in E. lia.
Qed.

Lemma nthN_none {A} (l : list A) i : N.of_nat (length l) <= i -> nthN l i = None.
Proof. unfold nthN. intros H. apply nth_error_None. lia. Qed.

Lemma upd_nat_length {A} (l : list A) : forall i v, length (upd_nat l i v) = length l.
Proof. induction l as [|x r IH]; intros [|i] v; cbn; auto. Qed.

Lemma updN_length {A} (l : list A) i v : length (updN l i v) = length l.
Proof. apply upd_nat_length. Qed.

Lemma upd_nat_same {A} (l : list A) : forall i v, (i < length l)%nat -> nth_error (upd_nat l i v) i = Some v.
Proof.
  induction l as [|x r IH]; intros [|i] v H; cbn in *; try lia; auto.
  apply IH. lia.
Qed.

Lemma upd_nat_other {A} (l : list A) : forall i j v, i <> j -> nth_error (upd_nat l i v) j = nth_error l j.
Proof.
  induction l as [|x r IH]; intros [|i] [|j] v H; cbn in *; try congruence; auto.
Qed.

Lemma nthN_updN_same {A} (l : list A) i v : i < N.of_nat (length l) -> nthN (updN l i v) i = Some v.
Proof. intros H. apply upd_nat_same. lia. Qed.

Lemma nthN_updN_other {A} (l : list A) i j v : i <> j -> nthN (updN l i v) j = nthN l j.
Proof. intros H. apply upd_nat_other. lia. Qed.

Lemma nthN_repeat {A} (x : A) k i : i < N.of_nat k -> nthN (repeat x k) i = Some x.
Proof.
  intros H. unfold nthN.
  destruct (nth_error (repeat x k) (N.to_nat i)) eqn:E.
  - apply nth_error_In, repeat_spec in E. congruence.
  - apply nth_error_None in E. rewrite repeat_length in E. lia.
Qed.

Lemma nthN_0 {A} (x : A) r : nthN (x :: r) 0 = Some x.
Proof. reflexivity. Qed.

Lemma nthN_succ {A} (x : A) r k : nthN (x :: r) (k + 1) = nthN r k.
Proof. unfold nthN. replace (N.to_nat (k + 1)) with (S (N.to_nat k)) by lia. reflexivity. Qed.

Lemma nthN_app_r {A} (l : list A) x : nthN (l ++ [x]) (N.of_nat (length l)) = Some x.
Proof.
  unfold nthN. rewrite Nat2N.id, nth_error_app2 by lia. rewrite Nat.sub_diag. reflexivity.
Qed.

Lemma nthN_in {A} (l : list A) i x : nthN l i = Some x -> In x l.
Proof. apply nth_error_In. Qed.

(* ------------------------------------------------------------ s, s+1, ..., s+len-1 *)
Fixpoint nseq (s : N) (len : nat) : list N :=
  match len with O => [] | S l => s :: nseq (s + 1) l end.

Lemma in_nseq len : forall s x, In x (nseq s len) <-> s <= x < s + N.of_nat len.
Proof.
  induction len as [|l IH]; intros s x; cbn [nseq In].
  - lia.
  - rewrite IH. lia.
Qed.

Lemma nseq_nodup len : forall s, NoDup (nseq s len).
Proof.
  induction len as [|l IH]; intros s; cbn; constructor; [|apply IH].
  rewrite in_nseq. lia.
Qed.

Lemma nseq_length len : forall s, length (nseq s len) = len.
Proof. induction len; intros; cbn; auto. Qed.

Lemma nseq_snoc len : forall s, nseq s (S len) = nseq s len ++ [s + N.of_nat len].
Proof.
  induction len as [|l IH]; intros s.
  - cbn. f_equal. lia.
  - change (nseq s (S (S l))) with (s :: nseq (s + 1) (S l)). rewrite IH. cbn. do 3 f_equal. lia.
Qed.

Lemma nseq_app a : forall s b, nseq s (a + b) = nseq s a ++ nseq (s + N.of_nat a) b.
Proof.
  induction a as [|a IH]; intros s b.
  - cbn. f_equal. lia.
  - cbn [nseq Nat.add app]. rewrite IH. do 3 f_equal. lia.
Qed.

(* ------------------------------------------------------------ merge sequences *)
Definition children (ms : list (N * N)) : list N := flat_map (fun m => [fst m; snd m]) ms.

(* children of the k-th merge are existing nodes: below next + k, and distinct *)
Fixpoint bounded (next : N) (ms : list (N * N)) : Prop :=
  match ms with
  | [] => True
  | (a, b) :: r => a < next /\ b < next /\ a <> b /\ bounded (next + 1) r
  end.

(* what both constructors compute: merge k joins nodes a_k, b_k into node n + k.
   A full binary tree on the nodes 0 .. 2n-2 whose root is 2n-2: every other
   node is a child exactly once. *)
Record tree_ok (n : N) (ms : list (N * N)) : Prop := {
  t_n : 1 <= n;
  t_len : N.of_nat (length ms) = n - 1;
  t_bounded : bounded n ms;
  t_perm : Permutation (children ms ++ [2 * n - 2]) (nseq 0 (N.to_nat (2 * n - 1)))
}.

(* the encoder's array for a merge sequence *)
Fixpoint write_merges (nodes : list N) (next : N) (ms : list (N * N)) : list N :=
  match ms with
  | [] => nodes
  | (a, b) :: r => write_merges (updN (updN nodes a (2 * next)) b (2 * next + 1)) (next + 1) r
  end.

Definition enc_of_merges (n : N) (ms : list (N * N)) : list N :=
  write_merges (repeat 0 (N.to_nat (2 * n - 1))) n ms.

Lemma write_merges_length ms : forall nodes next, length (write_merges nodes next ms) = length nodes.
Proof.
  induction ms as [|[a b] r IH]; intros; cbn; [reflexivity|].
  rewrite IH, !updN_length. reflexivity.
Qed.

Section Build.
  Variable W : Type.
  Variable wcmp : W -> W -> comparison.
  Variable wadd : W -> W -> option W.
  Variable wnan : W -> bool.
  Variable USZ : N.
  Notation item := (W * N)%type.
  Notation merge_step := (merge_step W wcmp wadd wnan).
  Notation enc_loop := (enc_loop W wcmp wadd wnan USZ).
  Notation dec_loop := (dec_loop W wcmp wadd wnan).
  Notation enc_build := (enc_build W wcmp wadd wnan USZ).
  Notation dec_build := (dec_build W wcmp wadd wnan USZ).

  (* the sequence of merges, shared by both loops *)
  Fixpoint merges_loop (fuel : nat) (heap : list item) (next : N) : res (list (N * N)) :=
    match fuel with
    | O => Err E_Fuel
    | S f =>
        match merge_step heap next with
        | None => Ok []
        | Some r =>
            x <- r ;;
            let '(i0, i1, heap') := x in
            ms <- merges_loop f heap' (next + 1) ;;
            Ok ((i0, i1) :: ms)
        end
    end.

  Lemma idx_enumerate ws : forall i, idx (enumerate W i ws) = nseq i (length ws).
  Proof. induction ws as [|w r IH]; intros i; cbn; [reflexivity|]. f_equal. apply IH. Qed.

  Lemma enumerate_length ws : forall i, length (enumerate W i ws) = length ws.
  Proof. induction ws as [|w r IH]; intros i; cbn; auto. Qed.

  Lemma heap_ok_enumerate ws : heap_ok (enumerate W 0 ws) (N.of_nat (length ws)).
  Proof.
    split; rewrite idx_enumerate.
    - apply nseq_nodup.
    - apply Forall_forall. intros x Hx. apply in_nseq in Hx. lia.
  Qed.

  (* one iteration, as seen by the invariants *)
  Lemma merge_step_ok h next i0 i1 (h' : list item) :
    heap_ok h next -> merge_step h next = Some (Ok (i0, i1, h')) ->
    exists h2 : list item, Permutation (idx h) (i0 :: i1 :: idx h2) /\ idx h' = next :: idx h2
      /\ heap_ok h' (next + 1) /\ i0 < next /\ i1 < next /\ i0 <> i1
      /\ length h = S (length h') .
  Proof.
    intros Hok H. unfold Huffman.merge_step in H.
    destruct (pop_min W wcmp h) as [[[p0 j0] h1]|] eqn:E1; [|discriminate].
    destruct (pop_min W wcmp h1) as [[[p1 j1] h2]|] eqn:E2; [|discriminate].
    destruct (heap_ok_pop _ _ _ _ _ _ Hok E1) as (Hok1 & L0 & N0).
    destruct (heap_ok_pop _ _ _ _ _ _ Hok1 E2) as (Hok2 & L1 & N1).
    pose proof (pop_min_perm _ _ _ _ _ E1) as P1. pose proof (pop_min_perm _ _ _ _ _ E2) as P2.
    cbn [fst snd] in *.
    destruct (wadd p0 p1) as [s|]; [|discriminate].
    destruct (wnan s && _); inversion H; subst. clear H.
    exists h2.
    split.
    { unfold idx. rewrite P1. cbn. constructor. change (Permutation (idx h1) (idx ((p1, i1) :: h2))).
      apply Permutation_map. exact P2. }
    split; [reflexivity|].
    split; [apply (heap_ok_push W wcmp h2 next s Hok2)|].
    split; [exact L0|]. split; [exact L1|].
    split.
    - intros ->. apply N0. unfold idx. rewrite P2. left. reflexivity.
    - apply Permutation_length in P1, P2. unfold Huffman.item in *. cbn [length] in *. lia.
  Qed.

  Lemma merge_step_none_len h next : merge_step h next = None -> (length h <= 1)%nat.
  Proof.
    unfold Huffman.merge_step.
    destruct (pop_min W wcmp h) as [[[p0 j0] h1]|] eqn:E1.
    - destruct (pop_min W wcmp h1) as [[[p1 j1] h2]|] eqn:E2; [discriminate|].
      intros _. apply pop_min_none in E2. apply pop_min_length in E1. subst. cbn in E1. lia.
    - intros _. apply pop_min_none in E1. subst. cbn. lia.
  Qed.

  Lemma merge_step_some_len h next r : merge_step h next = Some r -> (2 <= length h)%nat.
  Proof.
    unfold Huffman.merge_step.
    destruct (pop_min W wcmp h) as [[[p0 j0] h1]|] eqn:E1; [|discriminate].
    destruct (pop_min W wcmp h1) as [[[p1 j1] h2]|] eqn:E2; [|discriminate].
    intros _. apply pop_min_length in E1, E2. lia.
  Qed.

  Lemma merge_step_inv h next i0 i1 (h' : list item) :
    merge_step h next = Some (Ok (i0, i1, h')) ->
    exists p0 p1 h1 h2 s,
      pop_min W wcmp h = Some ((p0, i0), h1) /\ pop_min W wcmp h1 = Some ((p1, i1), h2)
      /\ wadd p0 p1 = Some s /\ h' = (s, next) :: h2.
  Proof.
    unfold Huffman.merge_step.
    destruct (pop_min W wcmp h) as [[[p0 j0] h1]|] eqn:E1; [|discriminate].
    destruct (pop_min W wcmp h1) as [[[p1 j1] h2]|] eqn:E2; [|discriminate].
    destruct (wadd p0 p1) as [s|] eqn:Ea; [|discriminate].
    destruct (wnan s && _); intros H; inversion H; subst.
    exists p0, p1, h1, h2, s. auto.
  Qed.

  (* ---------- the decoder loop is the merge sequence *)
  Lemma dec_loop_merges f : forall h acc next,
    dec_loop f h acc next = (ms <- merges_loop f h next ;; Ok (acc ++ ms)).
  Proof.
    induction f as [|f IH]; intros h acc next; cbn; [reflexivity|].
    destruct (merge_step h next) as [[[[i0 i1] h']|e]|]; cbn.
    - rewrite IH. destruct (merges_loop f h' (next + 1)); cbn; [|reflexivity].
      rewrite <- app_assoc. reflexivity.
    - reflexivity.
    - rewrite app_nil_r. reflexivity.
  Qed.

  (* ---------- the encoder loop writes the same merge sequence; its unchecked
     writes are in bounds and [<< 1] loses no bit *)
  Lemma node_val_small next b : 2 * next + 1 < 2 ^ USZ ->
    node_val USZ next b = 2 * next + (if b then 1 else 0).
  Proof.
    intros H. unfold node_val, shl. rewrite shiftl_mul.
    rewrite trunc_small by (change (2 ^ 1) with 2; lia).
    change (2 ^ 1) with 2.
    destruct b.
    - change 2 with (2 ^ 1) at 1. rewrite lor_disjoint by (cbn; lia). change (2 ^ 1) with 2. lia.
    - rewrite N.lor_0_r. lia.
  Qed.

  Lemma enc_loop_merges f : forall h nodes next,
    heap_ok h next ->
    next + N.of_nat (length h) = N.of_nat (length nodes) + 1 ->
    2 * N.of_nat (length nodes) < 2 ^ USZ ->
    enc_loop f h nodes next = (ms <- merges_loop f h next ;; Ok (write_merges nodes next ms)).
  Proof.
    induction f as [|f IH]; intros h nodes next Hok Hlen Hsz; cbn; [reflexivity|].
    destruct (merge_step h next) as [[[[i0 i1] h']|e]|] eqn:E; cbn; try reflexivity.
    destruct (merge_step_ok _ _ _ _ _ Hok E) as (h2 & P & Hidx & Hok' & L0 & L1 & Hne & Hl).
    pose proof (merge_step_some_len _ _ _ E) as H2.
    unfold Huffman.item in *.
    assert (next < N.of_nat (length nodes)) as Hn by lia.
    unfold set_chk.
    assert (i0 <? N.of_nat (length nodes) = true) as -> by (apply N.ltb_lt; lia).
    cbn. rewrite updN_length.
    assert (i1 <? N.of_nat (length nodes) = true) as -> by (apply N.ltb_lt; lia).
    cbn. rewrite IH.
    - rewrite !node_val_small by lia.
      destruct (merges_loop f h' (next + 1)); cbn; [|reflexivity].
      rewrite N.add_0_r. reflexivity.
    - exact Hok'.
    - rewrite !updN_length. lia.
    - rewrite !updN_length. exact Hsz.
  Qed.

  (* ---------- shape of the merge sequence *)
  Lemma merges_shape f : forall h next ms,
    merges_loop f h next = Ok ms -> heap_ok h next -> h <> [] ->
    exists root,
      Permutation (children ms ++ [root]) (idx h ++ nseq next (length ms))
      /\ S (length ms) = length h
      /\ bounded next ms
      /\ ((ms = [] /\ idx h = [root]) \/ (ms <> [] /\ root + 1 = next + N.of_nat (length ms))).
  Proof.
    induction f as [|f IH]; intros h next ms H Hok Hne; [discriminate|].
    cbn in H. destruct (merge_step h next) as [[[[i0 i1] h']|e]|] eqn:E; cbn in H; try discriminate.
    - destruct (merges_loop f h' (next + 1)) as [ms'|] eqn:E'; cbn in H; [|discriminate].
      inversion H; subst ms. clear H.
      destruct (merge_step_ok _ _ _ _ _ Hok E) as (h2 & P & Hidx & Hok' & L0 & L1 & Hd & Hl).
      assert (h' <> []) as Hne' by (intros ->; discriminate).
      destruct (IH _ _ _ E' Hok' Hne') as (root & P' & Hlen' & Hb' & Hroot).
      exists root. repeat split; try assumption.
      + cbn [children flat_map app fst snd length nseq].
        change (flat_map (fun m => [fst m; snd m]) ms') with (children ms').
        rewrite P'. rewrite Hidx, P.
        cbn [app]. do 2 constructor.
        rewrite <- Permutation_middle. reflexivity.
      + cbn [length]. lia.
      + right. split; [discriminate|].
        destruct Hroot as [[-> Hi]|[_ Hr]].
        * rewrite Hidx in Hi. inversion Hi. cbn. lia.
        * cbn [length]. lia.
    - inversion H; subst ms. clear H.
      pose proof (merge_step_none_len _ _ E) as Hl.
      destruct h as [|[w i] [|? ?]]; [congruence| |cbn in Hl; lia].
      exists i. cbn. repeat split; auto.
  Qed.

  Lemma merge_step_err h next e : merge_step h next = Some (Err e) -> e = E_Overflow \/ e = E_HeapNaN.
  Proof.
    unfold Huffman.merge_step.
    destruct (pop_min W wcmp h) as [[[p0 j0] h1]|]; [|discriminate].
    destruct (pop_min W wcmp h1) as [[[p1 j1] h2]|]; [|discriminate].
    destruct (wadd p0 p1) as [s|].
    - destruct (wnan s && _); intros H; inversion H; auto.
    - intros H; inversion H; auto.
  Qed.

  (* the loops never run out of fuel and fail only for the two documented reasons *)
  Lemma merges_err f : forall h next e,
    (length h < f)%nat -> heap_ok h next -> merges_loop f h next = Err e ->
    e = E_Overflow \/ e = E_HeapNaN.
  Proof.
    induction f as [|f IH]; intros h next e Hf Hok; [lia|].
    cbn. destruct (merge_step h next) as [[[[i0 i1] h']|e']|] eqn:E; cbn; try discriminate.
    - destruct (merge_step_ok _ _ _ _ _ Hok E) as (h2 & P & Hidx & Hok' & L0 & L1 & Hd & Hl).
      specialize (IH h' (next + 1)).
      destruct (merges_loop f h' (next + 1)) as [ms'|e''] eqn:E'; cbn; [discriminate|].
      intros X. inversion X; subst. apply IH; [lia|exact Hok'|reflexivity].
    - intros X. inversion X; subst. eapply merge_step_err. exact E.
  Qed.

  (* ---------- the constructors *)
  Lemma merges_of_enumerate ws ms :
    ws <> [] ->
    merges_loop (S (length (enumerate W 0 ws))) (enumerate W 0 ws) (N.of_nat (length ws)) = Ok ms ->
    tree_ok (N.of_nat (length ws)) ms.
  Proof.
    intros Hne H.
    assert (enumerate W 0 ws <> []) as Hne' by (destruct ws; [congruence|discriminate]).
    destruct (merges_shape _ _ _ _ H (heap_ok_enumerate ws) Hne') as (root & P & Hlen & Hb & Hroot).
    rewrite enumerate_length in Hlen. rewrite idx_enumerate in P, Hroot.
    assert (length ws <> O) as Hn by (destruct ws; [congruence|discriminate]).
    constructor.
    - lia.
    - lia.
    - exact Hb.
    - assert (root = 2 * N.of_nat (length ws) - 2) as <-.
      { destruct Hroot as [[-> Hi]|[_ Hr]].
        - cbn in Hlen. rewrite <- Hlen in Hi. cbn in Hi. inversion Hi. lia.
        - lia. }
      rewrite P. replace (N.of_nat (length ws)) with (0 + N.of_nat (length ws)) at 1 by lia.
      rewrite <- nseq_app. replace (N.to_nat (2 * N.of_nat (length ws) - 1)) with (length ws + length ms)%nat by lia.
      reflexivity.
  Qed.

  Definition build_error (e : herr) : Prop :=
    e = E_NaN \/ e = E_Panic \/ e = E_Overflow \/ e = E_HeapNaN.

  Theorem dec_build_ok ws ms : dec_build ws = Ok ms -> tree_ok (N.of_nat (length ws)) ms.
  Proof.
    unfold Huffman.dec_build. destruct (existsb wnan ws); [discriminate|].
    destruct (_ || _) eqn:Ep; [discriminate|].
    rewrite dec_loop_merges. rewrite enumerate_length.
    destruct (merges_loop _ _ _) as [ms'|] eqn:E; cbn; [|discriminate].
    intros H. inversion H; subst. apply merges_of_enumerate.
    - intros ->. cbn in Ep. discriminate.
    - rewrite enumerate_length. exact E.
  Qed.

  Theorem dec_build_err ws e : dec_build ws = Err e -> build_error e.
  Proof.
    unfold Huffman.dec_build, build_error. destruct (existsb wnan ws); [intros H; inversion H; auto|].
    destruct (_ || _) eqn:Ep; [intros H; inversion H; auto|].
    rewrite dec_loop_merges.
    destruct (merges_loop _ _ _) as [ms'|e'] eqn:E; cbn; [discriminate|].
    intros H. inversion H; subst.
    apply merges_err in E; [tauto|unfold Huffman.item; lia|].
    rewrite enumerate_length. apply heap_ok_enumerate.
  Qed.

  (* huff_same_tree: both constructors perform the same merges; the encoder's
     array is the array of that merge sequence; the errors coincide.
     (The two constructors refuse different sizes: > usize::MAX/4 vs > usize::MAX/2.) *)
  Theorem build_same_tree ws :
    N.of_nat (length ws) <= usize_max USZ / 4 ->
    match dec_build ws with
    | Ok ms => enc_build ws = Ok (enc_of_merges (N.of_nat (length ws)) ms)
    | Err e => enc_build ws = Err e
    end.
  Proof.
    intros Hsz. unfold Huffman.dec_build, Huffman.enc_build.
    destruct (existsb wnan ws); [reflexivity|].
    rewrite enumerate_length.
    assert (usize_max USZ / 4 <= usize_max USZ / 2) as Hdiv.
    { apply N.div_le_lower_bound; [lia|].
      pose proof (N.mul_div_le (usize_max USZ) 4 ltac:(lia)). lia. }
    destruct (N.of_nat (length ws) =? 0) eqn:E0; cbn [orb]; [reflexivity|].
    assert (usize_max USZ / 2 <? N.of_nat (length ws) = false) as -> by (apply N.ltb_ge; lia).
    assert (usize_max USZ / 4 <? N.of_nat (length ws) = false) as -> by (apply N.ltb_ge; lia).
    apply N.eqb_neq in E0.
    rewrite dec_loop_merges, enc_loop_merges.
    - replace (N.of_nat (length ws) * 2 - 1) with (2 * N.of_nat (length ws) - 1) by lia.
      destruct (merges_loop _ _ _); reflexivity.
    - apply heap_ok_enumerate.
    - rewrite enumerate_length, repeat_length. lia.
    - rewrite repeat_length.
      pose proof (N.mul_div_le (usize_max USZ) 4 ltac:(lia)).
      unfold usize_max in *. pose proof (pow2_pos USZ). lia.
  Qed.

  Corollary enc_build_err ws e : enc_build ws = Err e -> build_error e.
  Proof.
    destruct (N.le_gt_cases (N.of_nat (length ws)) (usize_max USZ / 4)) as [Hs|Hs].
    - pose proof (build_same_tree ws Hs) as H.
      destruct (dec_build ws) as [ms|e'] eqn:E; rewrite H; [discriminate|].
      intros X. inversion X; subst. eapply dec_build_err. exact E.
    - unfold Huffman.enc_build, build_error. destruct (existsb wnan ws); [intros H; inversion H; auto|].
      rewrite enumerate_length.
      assert (usize_max USZ / 4 <? N.of_nat (length ws) = true) as -> by (apply N.ltb_lt; lia).
      rewrite orb_true_r. intros H; inversion H; auto.
  Qed.

  Corollary enc_build_ok ws nodes : enc_build ws = Ok nodes ->
    exists ms, dec_build ws = Ok ms /\ tree_ok (N.of_nat (length ws)) ms
      /\ nodes = enc_of_merges (N.of_nat (length ws)) ms.
  Proof.
    intros H.
    assert (N.of_nat (length ws) <= usize_max USZ / 4) as Hs.
    { unfold Huffman.enc_build in H. destruct (existsb wnan ws); [discriminate|].
      rewrite enumerate_length in H.
      destruct (usize_max USZ / 4 <? N.of_nat (length ws)) eqn:E.
      - rewrite orb_true_r in H. discriminate.
      - apply N.ltb_ge in E. exact E. }
    pose proof (build_same_tree ws Hs) as H'.
    destruct (dec_build ws) as [ms|e'] eqn:E; rewrite H' in H; [|discriminate].
    inversion H; subst. exists ms. split; [reflexivity|]. split; [|reflexivity].
    apply dec_build_ok. exact E.
  Qed.

  (* ---------- ties cannot matter: the heap's internal order is irrelevant *)
  Section Order.
    Hypothesis wcmp_sym : forall a b, wcmp b a = CompOpp (wcmp a b).
    Hypothesis wcmp_trans : forall a b c, wcmp a b <> Gt -> wcmp b c <> Gt -> wcmp a c <> Gt.

    Lemma merge_step_perm_inv (h h' : list item) next :
      Permutation h h' -> heap_ok h next ->
      match merge_step h next with
      | None => merge_step h' next = None
      | Some (Err e) => merge_step h' next = Some (Err e)
      | Some (Ok (i0, i1, h3)) =>
          exists h3', merge_step h' next = Some (Ok (i0, i1, h3')) /\ Permutation h3 h3'
      end.
    Proof.
      intros P Hok. unfold Huffman.merge_step.
      destruct (pop_min W wcmp h) as [[[p0 j0] h1]|] eqn:E1.
      - destruct (pop_min_perm_inv W wcmp wcmp_sym wcmp_trans _ _ _ _ P (proj1 Hok) E1) as (h1' & E1' & P1).
        rewrite E1'.
        destruct (heap_ok_pop _ _ _ _ _ _ Hok E1) as (Hok1 & _ & _).
        destruct (pop_min W wcmp h1) as [[[p1 j1] h2]|] eqn:E2.
        + destruct (pop_min_perm_inv W wcmp wcmp_sym wcmp_trans _ _ _ _ P1 (proj1 Hok1) E2) as (h2' & E2' & P2).
          rewrite E2'.
          destruct (wadd p0 p1) as [s|]; [|reflexivity].
          assert (match h2 with [] => true | _ => false end
                  = match h2' with [] => true | _ => false end) as <-.
          { destruct h2, h2'; try reflexivity.
            - apply Permutation_nil in P2. discriminate.
            - apply Permutation_sym, Permutation_nil in P2. discriminate. }
          destruct (wnan s && _); [reflexivity|].
          eexists. split; [reflexivity|]. constructor. exact P2.
        + apply pop_min_none in E2. subst h1. apply Permutation_nil in P1. subst h1'. reflexivity.
      - apply pop_min_none in E1. subst h. apply Permutation_nil in P. subst h'. reflexivity.
    Qed.

    (* every merge takes the two current minima under the (weight, index) order *)
    Lemma merge_step_minimal h next i0 i1 (h' : list item) :
      merge_step h next = Some (Ok (i0, i1, h')) ->
      exists p0 p1 h2 s,
        Permutation h ((p0, i0) :: (p1, i1) :: h2) /\ h' = (s, next) :: h2 /\ wadd p0 p1 = Some s
        /\ item_le W wcmp (p0, i0) (p1, i1) /\ Forall (item_le W wcmp (p1, i1)) h2.
    Proof.
      intros H. destruct (merge_step_inv _ _ _ _ _ H) as (p0 & p1 & h1 & h2 & s & E1 & E2 & Ea & ->).
      exists p0, p1, h2, s.
      pose proof (pop_min_perm _ _ _ _ _ E1) as P1. pose proof (pop_min_perm _ _ _ _ _ E2) as P2.
      pose proof (pop_min_minimal W wcmp wcmp_sym wcmp_trans _ _ _ E1) as M1.
      pose proof (pop_min_minimal W wcmp wcmp_sym wcmp_trans _ _ _ E2) as M2.
      split; [rewrite P1; constructor; exact P2|].
      split; [reflexivity|]. split; [exact Ea|]. split; [|exact M2].
      rewrite Forall_forall in M1. apply M1.
      eapply Permutation_in; [symmetry; exact P2|]. left. reflexivity.
    Qed.

    Lemma merges_loop_perm_inv f : forall (h h' : list item) next,
      Permutation h h' -> heap_ok h next -> merges_loop f h' next = merges_loop f h next.
    Proof.
      induction f as [|f IH]; intros h h' next P Hok; [reflexivity|].
      cbn. pose proof (merge_step_perm_inv h h' next P Hok) as H.
      destruct (merge_step h next) as [[[[i0 i1] h3]|e]|] eqn:E.
      - destruct H as (h3' & -> & P3). cbn.
        destruct (merge_step_ok _ _ _ _ _ Hok E) as (h2 & _ & _ & Hok' & _).
        rewrite (IH h3 h3' (next + 1) P3 Hok'). reflexivity.
      - rewrite H. reflexivity.
      - rewrite H. reflexivity.
    Qed.

    (* whatever order std's heap keeps its elements in (any permutation of the
       collected vector), both constructors return the same arrays *)
    Theorem heap_order_irrelevant ws (heap' : list item) f :
      Permutation (enumerate W 0 ws) heap' ->
      let n := N.of_nat (length ws) in
      dec_loop f heap' [] n = dec_loop f (enumerate W 0 ws) [] n
      /\ (n <= usize_max USZ / 4 ->
          enc_loop f heap' (repeat 0 (N.to_nat (n * 2 - 1))) n
          = enc_loop f (enumerate W 0 ws) (repeat 0 (N.to_nat (n * 2 - 1))) n).
    Proof.
      intros P n. pose proof (heap_ok_enumerate ws) as Hok. fold n in Hok.
      split.
      - rewrite !dec_loop_merges. rewrite (merges_loop_perm_inv f _ _ n P Hok). reflexivity.
      - intros Hn.
        assert (length heap' = length ws) as Hl.
        { apply Permutation_length in P. rewrite enumerate_length in P. unfold Huffman.item in *; congruence. }
        destruct (length ws) as [|k] eqn:Ek.
        { destruct heap'; [|discriminate]. destruct ws; [|discriminate]. reflexivity. }
        assert (2 * N.of_nat (length (repeat 0 (N.to_nat (n * 2 - 1)))) < 2 ^ USZ) as Hsz.
        { rewrite repeat_length.
          pose proof (N.mul_div_le (usize_max USZ) 4 ltac:(lia)).
          unfold usize_max in *. pose proof (pow2_pos USZ). lia. }
        rewrite !enc_loop_merges; try assumption.
        + rewrite (merges_loop_perm_inv f _ _ n P Hok). reflexivity.
        + rewrite enumerate_length, repeat_length. lia.
        + eapply heap_ok_perm; eassumption.
        + rewrite repeat_length. unfold Huffman.item in *. lia.
    Qed.
  End Order.
End Build.
