(* Corr/Ans_run.v -- runs an integer-encoded ANS history on Model/Ans.v.
   Mirror of harness/src/fam_ans.rs. *)
From CV Require Import Corr.Parse Model.Ans.
Open Scope Z_scope.

Definition ERR_IMPOSSIBLE := -1.
Definition ERR_IMPORT := -2.
Definition ERR_BINARY := -3.
Definition ERR_INVALID_MODEL := -4.

Definition out_words (ws : list N) : list Z := Z.of_nat (length ws) :: map nZ ws.

Definition out_raw (a : ans) : list Z :=
  Z.of_nat (length (bulk a)) :: map nZ (rev (bulk a)) ++ [nZ (st a)].

(* batch forms of the model, one model for all symbols (iid) *)
Definition enc_iid (c : cfg) (m : emodel) (ss : list Z) (a : ans) : ans * Z :=
  let '(a', e) := ans_encode_batch c (map (fun s => (m, s)) ss) a in
  (a', match e with None => 0 | Some _ => ERR_IMPOSSIBLE end).

Definition enc_iid_rev (c : cfg) (m : emodel) (ss : list Z) (a : ans) : ans * Z :=
  let '(a', e) := ans_encode_batch_reverse c (map (fun s => (m, s)) ss) a in
  (a', match e with None => 0 | Some _ => ERR_IMPOSSIBLE end).

Fixpoint try_items (m : emodel) (ss : list Z) (i fail_at : nat) : list (option (emodel * Z)) :=
  match ss with
  | [] => []
  | s :: r => (if Nat.eqb i fail_at then None else Some (m, s)) :: try_items m r (S i) fail_at
  end.

Definition try_enc (c : cfg) (m : emodel) (ss : list Z) (fail_at : nat) (a : ans) : ans * Z :=
  let '(a', e) := ans_try_encode c (try_items m ss 0 fail_at) a in
  (a', match e with TryOk => 0 | TryImpossible _ => ERR_IMPOSSIBLE | TryInvalidModel _ => ERR_INVALID_MODEL end).

Fixpoint dec_iid (c : cfg) (m : emodel) (k : nat) (a : ans) : ans * list Z :=
  match k with
  | O => (a, [])
  | S k' => let '(s, a') := ans_decode_sym c m a in
            let '(a'', ss) := dec_iid c m k' a' in (a'', s :: ss)
  end.

(* op 15: decode with a sequence of models, then push the symbols back in reverse *)
Fixpoint dec_seq (c : cfg) (ms : list rmodel) (seq : list Z) (a : ans) : ans * list Z :=
  match seq with
  | [] => (a, [])
  | m :: r => let '(s, a') := ans_decode_sym c (get_model ms m) a in
              let '(a'', ss) := dec_seq c ms r a' in (a'', s :: ss)
  end.

Fixpoint enc_seq (c : cfg) (ms : list rmodel) (l : list (Z * Z)) (a : ans) : ans * list Z :=
  match l with
  | [] => (a, [])
  | (m, s) :: r =>
      match ans_encode_sym c (get_model ms m) s a with
      | Some a' => let '(a'', es) := enc_seq c ms r a' in (a'', 0 :: es)
      | None => let '(a'', es) := enc_seq c ms r a in (a'', ERR_IMPOSSIBLE :: es)
      end
  end.

(* op 17: exhaustive single-step sweep folded into a checksum (see fam_ans.rs) *)
Definition mixN (acc x : N) : N := N.land (N.lxor (acc * 1000003) x) 0x1FFFFFFFFFFFFFFF%N.

Definition sweep_entry (c : cfg) (m : emodel) (s : N) (acc : N) (e : Z * N * N) : N :=
  let bulk0 := if N.leb (thr c) s then [0xA5%N] else [] in
  let a0 := {| bulk := bulk0; st := s |} in
  match ans_encode_sym c m (fst (fst e)) a0 with
  | None => acc
  | Some a1 =>
      let acc := mixN acc 1%N in
      let acc := mixN acc (N.of_nat (length (bulk a1))) in
      let acc := fold_left mixN (rev (bulk a1)) acc in
      let acc := mixN acc (st a1) in
      let '(d, a2) := ans_decode_sym c m a1 in
      let acc := mixN acc (Z.to_N d) in
      let acc := mixN acc (N.of_nat (length (bulk a2))) in
      mixN acc (st a2)
  end.

Fixpoint sweep_states (c : cfg) (m : emodel) (t : table) (n : nat) (s : N) (acc : N) : N :=
  match n with
  | O => acc
  | S n' => sweep_states c m t n' (N.succ s) (fold_left (sweep_entry c m s) t acc)
  end.

(* [tw] : the twin forked by op 16 (receives encodes/decodes, no inspections) *)
Fixpoint ans_loop (fuel : nat) (c : cfg) (ms : list rmodel) (l : list Z) (a : ans) (tw : option ans)
  : list Z :=
  let fin := out_raw a ++ match tw with Some t => out_raw t | None => [] end in
  match fuel with
  | O => fin
  | S fuel' =>
    match l with
    | [] => fin
    | 1 :: m :: s :: r =>
        let '(a', e) := match ans_encode_sym c (get_model ms m) s a with
                        | Some a' => (a', 0) | None => (a, ERR_IMPOSSIBLE) end in
        match tw with
        | None => e :: ans_loop fuel' c ms r a' None
        | Some t =>
            let '(t', e') := match ans_encode_sym c (get_model ms m) s t with
                             | Some t' => (t', 0) | None => (t, ERR_IMPOSSIBLE) end in
            e :: e' :: ans_loop fuel' c ms r a' (Some t')
        end
    | 2 :: m :: r =>
        let '(s, a') := ans_decode_sym c (get_model ms m) a in
        match tw with
        | None => s :: ans_loop fuel' c ms r a' None
        | Some t => let '(s', t') := ans_decode_sym c (get_model ms m) t in
                    s :: s' :: ans_loop fuel' c ms r a' (Some t')
        end
    | 16 :: r => 0 :: ans_loop fuel' c ms r a (Some a)
    | 3 :: r =>
        match ans_from_compressed c (ans_words c a) with
        | Some a' => 0 :: ans_loop fuel' c ms r a' tw
        | None => ERR_IMPORT :: ans_loop fuel' c ms r {| bulk := rev (ans_words c a); st := 0 |} tw
        end
    | 4 :: r => out_words (ans_words c a) ++ ans_loop fuel' c ms r a tw
    | 5 :: r =>
        (* get_compressed: open the guard, show the view, drop it *)
        let g := ans_guard_open c a in
        out_words (ans_guard_view g) ++ ans_loop fuel' c ms r (ans_guard_close c g) tw
    | 6 :: r =>
        match ans_sealed_open c a with
        | Some g => out_words (ans_guard_view g) ++ ans_loop fuel' c ms r (ans_sealed_close c g) tw
        | None => ERR_BINARY :: ans_loop fuel' c ms r a tw
        end
    | 7 :: r =>
        nZ (ans_num_words c a) :: nZ (WB c * ans_num_words c a) :: nZ (ans_num_valid_bits c a)
          :: (if ans_is_empty a then 1 else 0) :: ans_loop fuel' c ms r a tw
    | 8 :: r =>
        match ans_into_binary c a with
        | Some ws => out_words ws ++ ans_loop fuel' c ms r a tw
        | None => ERR_BINARY :: ans_loop fuel' c ms r a tw
        end
    | 9 :: m :: r =>
        let '(ss, r') := read_list r in
        let '(a', e) := enc_iid c (get_model ms m) ss a in
        e :: ans_loop fuel' c ms r' a' tw
    | 10 :: m :: r =>
        let '(ss, r') := read_list r in
        let '(a', e) := enc_iid_rev c (get_model ms m) ss a in
        e :: ans_loop fuel' c ms r' a' tw
    | 11 :: m :: r =>
        let '(ss, r') := read_list r in
        let '(a', e) := try_enc c (get_model ms m) ss (Z.to_nat (hdz r')) a in
        e :: ans_loop fuel' c ms (tl r') a' tw
    | 18 :: m :: r =>
        let '(ss, r') := read_list r in
        let '(a', e) := ans_try_encode c (rev (try_items (get_model ms m) ss 0 (Z.to_nat (hdz r')))) a in
        (match e with TryOk => 0 | TryImpossible _ => ERR_IMPOSSIBLE | TryInvalidModel _ => ERR_INVALID_MODEL end)
          :: ans_loop fuel' c ms (tl r') a' tw
    | 19 :: m :: r =>
        let '(ss, r') := read_list r in
        let '(a', e) := enc_iid_rev c (get_model ms m) ss a in
        e :: ans_loop fuel' c ms r' a' tw
    | 20 :: m :: r =>
        let '(ss, r') := read_list r in
        let '(a', e) := enc_iid c (get_model ms m) ss a in
        e :: ans_loop fuel' c ms r' a' tw
    | 21 :: m :: k :: r =>
        let '(a', ss) := dec_iid c (get_model ms m) (Z.to_nat k) a in
        k :: ss ++ ans_loop fuel' c ms r a' tw
    | 22 :: m :: k :: f :: r =>
        let md := get_model ms m in
        let n := Z.to_nat k in
        let fa := Z.to_nat f in
        (* items before and after the failing index are decoded; the failing one yields an error
           item and leaves the coder alone *)
        if Nat.ltb fa n then
          let '(a1, s1) := dec_iid c md fa a in
          let '(a2, s2) := dec_iid c md (n - fa - 1) a1 in
          k :: s1 ++ [ERR_INVALID_MODEL * 1000] ++ s2 ++ ans_loop fuel' c ms r a2 tw
        else
          let '(a1, s1) := dec_iid c md n a in
          k :: s1 ++ ans_loop fuel' c ms r a1 tw
    | 12 :: r => out_raw a ++ ans_loop fuel' c ms r a tw
    | 13 :: m :: k :: r =>
        let '(a', ss) := dec_iid c (get_model ms m) (Z.to_nat k) a in
        ss ++ ans_loop fuel' c ms r a' tw
    | 23 :: m :: k :: r =>     (* op 13 on a cursor that is flipped twice and turned back: same *)
        let '(a', ss) := dec_iid c (get_model ms m) (Z.to_nat k) a in
        ss ++ ans_loop fuel' c ms r a' tw
    | 14 :: r => 0 :: ans_loop fuel' c ms r a tw
    | 17 :: m :: lo :: hi :: r =>
        let '(P, t) := nth (Z.to_nat m) ms (1%N, []) in
        nZ (sweep_states c (table_model P t) t (Z.to_nat (hi - lo)) (zN lo) 0%N) :: ans_loop fuel' c ms r a tw
    | 15 :: r =>
        let '(seq, r') := read_list r in
        let '(a1, ss) := dec_seq c ms seq a in
        let '(a2, es) := enc_seq c ms (rev (combine seq ss)) a1 in
        ss ++ es ++ ans_loop fuel' c ms r' a2 tw
    | _ => [PANIC]
    end
  end.

Definition run_ans (inp : list Z) : list Z :=
  match inp with
  | wb :: sb :: pb :: r =>
      let c := {| WB := zN wb; SB := zN sb |} in
      let '(ms, r1) := read_models r in
      match r1 with
      | kind :: r2 =>
          let '(ws, r3) := read_list r2 in
          let ws := map zN ws in
          match kind mod 10 with       (* +10: the iterator-backed route to the same constructor *)
          | 0 => ans_loop (length r3) c ms r3 ans_empty None
          | 1 => match ans_from_compressed c ws with
                 | Some a => ans_loop (length r3) c ms r3 a None
                 | None => [ERR_IMPORT]
                 end
          | _ => ans_loop (length r3) c ms r3 (ans_from_binary c ws) None
          end
      | [] => [PANIC]
      end
  | _ => [PANIC]
  end.
