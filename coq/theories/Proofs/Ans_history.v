(* Proofs/Ans_history.v -- ANS coder over whole histories (C01, C04). *)
From CV Require Import Base.Bits Model.EModel Model.Ans Proofs.Ans_core Proofs.Ans_lemmas
  Proofs.Ans_words Proofs.Ans_binary.
Open Scope N_scope.
Set Default Timeout 30.

Section History.
Variable c : cfg.
Hypothesis Hc : wf_cfg c.

Definition model_ok (m : emodel) : Prop := wf_model m /\ em_prec m <= WB c.

Lemma ans_encode_all_app l1 l2 a :
  ans_encode_all c (l1 ++ l2) a =
  match ans_encode_all c l1 a with Some a' => ans_encode_all c l2 a' | None => None end.
Proof.
  revert a. induction l1 as [|[m s] r IH]; intros a; cbn; [reflexivity|].
  destruct (ans_encode_sym c m s a); [apply IH|reflexivity].
Qed.

(* batch forms are the per-symbol loop *)
Lemma ans_encode_batch_from_ok l : forall i a a',
  ans_encode_all c l a = Some a' -> ans_encode_batch_from c i l a = (a', None).
Proof.
  induction l as [|[m s] r IH]; intros i a a' H; cbn in *.
  - inversion H; reflexivity.
  - destruct (ans_encode_sym c m s a); [apply IH; exact H|discriminate].
Qed.

Lemma ans_encode_batch_from_err l1 : forall i a a1 m s l2,
  ans_encode_all c l1 a = Some a1 -> ans_encode_sym c m s a1 = None ->
  ans_encode_batch_from c i (l1 ++ (m, s) :: l2) a = (a1, Some (i + length l1)%nat).
Proof.
  induction l1 as [|[m0 s0] r IH]; intros i a a1 m s l2 H Hn; cbn in *.
  - inversion H; subst. rewrite Hn. f_equal. f_equal. lia.
  - destruct (ans_encode_sym c m0 s0 a) as [a0|]; [|discriminate].
    rewrite (IH (S i) a0 a1 m s l2 H Hn). f_equal. f_equal. lia.
Qed.

Lemma ans_try_encode_from_ok l : forall i a a',
  ans_encode_all c l a = Some a' -> ans_try_encode_from c i (map Some l) a = (a', TryOk).
Proof.
  induction l as [|[m s] r IH]; intros i a a' H; cbn in *.
  - inversion H; reflexivity.
  - destruct (ans_encode_sym c m s a); [apply IH; exact H|discriminate].
Qed.

(* a fallible iterator that fails at item k leaves exactly the first k symbols encoded *)
Lemma ans_try_encode_from_invalid l1 : forall i a a1 l2,
  ans_encode_all c l1 a = Some a1 ->
  ans_try_encode_from c i (map Some l1 ++ None :: l2) a = (a1, TryInvalidModel (i + length l1)%nat).
Proof.
  induction l1 as [|[m0 s0] r IH]; intros i a a1 l2 H; cbn in *.
  - inversion H; subst. f_equal. f_equal. lia.
  - destruct (ans_encode_sym c m0 s0 a) as [a0|]; [|discriminate].
    rewrite (IH (S i) a0 a1 l2 H). f_equal. f_equal. lia.
Qed.

(* C04: decode any number of symbols, encode them back in reverse order *)
Lemma ans_bitsback ms : forall a ss a',
  Forall model_ok ms -> ans_inv c a ->
  ans_decode_all c ms a = (ss, a') ->
  ans_inv c a' /\ length ss = length ms
  /\ ans_encode_all c (rev (combine ms ss)) a' = Some a.
Proof.
  induction ms as [|m r IH]; intros a ss a' Hms Hinv Hdec; cbn in Hdec.
  - inversion Hdec; subst. auto.
  - inversion Hms as [|? ? [Hm HP] Hr]; subst.
    destruct (ans_decode_sym c m a) as [s a1] eqn:E1.
    destruct (ans_decode_all c r a1) as [ss1 a2] eqn:E2.
    inversion Hdec; subst; clear Hdec.
    destruct (ans_push_pop c Hc m s a a1 Hm HP Hinv E1) as [Hinv1 Henc].
    destruct (IH a1 ss1 a' Hr Hinv1 E2) as (Hinv' & Hlen & Hback).
    split; [exact Hinv'|]. split; [cbn; congruence|].
    cbn [combine rev]. rewrite ans_encode_all_app, Hback. cbn. rewrite Henc. reflexivity.
Qed.

(* C01: refinement to the abstract stack *)
Definition pend_ok (p : pending) : Prop := Forall (fun e => model_ok (fst e)) p.

Lemma push_all_inv a0 p : forall a,
  ans_inv c a0 -> pend_ok p -> push_all c p a0 = Some a -> ans_inv c a.
Proof.
  induction p as [|[m s] r IH]; intros a Hinv Hok Hpush; cbn in Hpush.
  - inversion Hpush; subst. exact Hinv.
  - inversion Hok as [|? ? [Hm HP] Hok']; subst. cbn in Hm, HP.
    destruct (push_all c r a0) as [a1|] eqn:E1; [|discriminate].
    pose proof (IH a1 Hinv Hok' eq_refl) as Hinv1.
    destruct (ans_pop_push c Hc m s a1 a Hm HP Hinv1 Hpush) as [Hi _]. exact Hi.
Qed.

Lemma ans_refines_stack a0 p h p' o :
  ans_inv c a0 ->
  ans_spec p h p' o ->
  Forall (op_model_ok c) h -> pend_ok p ->
  forall a, push_all c p a0 = Some a ->
  exists a', ans_run c a h = (a', o) /\ push_all c p' a0 = Some a' /\ pend_ok p'.
Proof.
  intros Hinv0.
  induction 1 as [p | p m s cum pr h p' o Henc _ IH | p m s h p' o Henc _ IH
                  | p m s h p' o _ IH | p h p' o _ IH];
    intros Hok Hpok a Hpush.
  - exists a. cbn. auto.
  - inversion Hok as [|? ? Hmo Hok']; subst. cbn in Hmo. destruct Hmo as [Hm HP].
    cbn [ans_run ans_step].
    destruct (ans_encode_sym c m s a) as [a1|] eqn:E.
    2:{ unfold ans_encode_sym in E. rewrite Henc in E. discriminate. }
    destruct (IH Hok') with (a := a1) as (a' & Hrun & Hp' & Hpok').
    { constructor; [split; assumption|exact Hpok]. }
    { cbn [push_all]. rewrite Hpush. exact E. }
    exists a'. rewrite Hrun. auto.
  - inversion Hok as [|? ? _ Hok']; subst.
    cbn [ans_run ans_step]. rewrite (ans_encode_impossible c m s a Henc).
    destruct (IH Hok' Hpok a Hpush) as (a' & Hrun & Hp' & Hpok').
    exists a'. rewrite Hrun. auto.
  - inversion Hok as [|? ? Hmo Hok']; subst. cbn in Hmo. destruct Hmo as [Hm HP].
    inversion Hpok as [|? ? _ Hpok1]; subst.
    cbn [push_all] in Hpush.
    destruct (push_all c p a0) as [a1|] eqn:E1; [|discriminate].
    pose proof (push_all_inv a0 p a1 Hinv0 Hpok1 E1) as Hinv1.
    destruct (ans_pop_push c Hc m s a1 a Hm HP Hinv1 Hpush) as [_ Hdec].
    cbn [ans_run ans_step]. rewrite Hdec.
    destruct (IH Hok' Hpok1 a1 eq_refl) as (a' & Hrun & Hp' & Hpok').
    exists a'. rewrite Hrun. auto.
  - inversion Hok as [|? ? _ Hok']; subst.
    pose proof (push_all_inv a0 p a Hinv0 Hpok Hpush) as Hinva.
    cbn [ans_run ans_step]. rewrite (ans_import_export c Hc a Hinva).
    destruct (IH Hok' Hpok a Hpush) as (a' & Hrun & Hp' & Hpok').
    exists a'. rewrite Hrun. auto.
Qed.

(* headline: run any stack-disciplined history from a valid coder; every decode
   returns the matching pushed symbol (that is what [ans_spec] says about [o]),
   and when everything pushed has been popped the coder IS the initial coder, so
   in particular its exported words are the initial ones. *)
Theorem ans_stack_history a0 h o :
  ans_inv c a0 -> Forall (op_model_ok c) h ->
  ans_spec [] h [] o ->
  ans_run c a0 h = (a0, o).
Proof.
  intros Hinv Hok Hspec.
  destruct (ans_refines_stack a0 [] h [] o Hinv Hspec Hok (Forall_nil _) a0 eq_refl)
    as (a' & Hrun & Hp & _).
  cbn in Hp. inversion Hp; subst. exact Hrun.
Qed.

End History.
