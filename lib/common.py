"""Shared machinery of /verif/check: Coq build + hygiene + assumptions, Rust harness build and
runs, model runs inside Coq (vm_compute), comparison, evidence, verdict."""
import fcntl
import hashlib
import json
import os
import re
import subprocess
import sys
import time

VERIF = os.path.dirname(os.path.dirname(os.path.abspath(__file__)))
REPO = os.environ.get("VERIF_REPO", "/repo")
COQ = os.path.join(VERIF, "coq")
CACHE = os.path.join(VERIF, ".cache")
WORK = os.path.join(CACHE, "work")
TARGET = os.path.join(CACHE, "cargo-target")
HARNESS = os.path.join(VERIF, "harness")
NPROC = int(os.environ.get("VERIF_JOBS", "16"))

PANIC = -999999
ABORT = -999998
TIMEOUT = -999997
PANIC_ARITH = -999996

ALLOWED_AXIOMS = {
    # standard-library axioms that Flocq / Reals bring in (only float / real files)
    "Classical_Prop.classic",
    "ClassicalDedekindReals.sig_forall_dec",
    "ClassicalDedekindReals.sig_not_dec",
    "FunctionalExtensionality.functional_extensionality_dep",
}

# primitive 63-bit integers / floats of the standard library (used by the `interval` tactic of
# CoqInterval); declared by Coq itself, listed per theorem in the evidence
ALLOWED_PREFIXES = ("Uint63.", "PrimInt63.", "PrimFloat.", "FloatAxioms.", "FloatClass.", "Sint63.")


def axiom_allowed(a):
    return a in ALLOWED_AXIOMS or a.startswith(ALLOWED_PREFIXES)


FORBIDDEN = re.compile(
    r"\b(Admitted|admit|Axiom|Axioms|Parameter|Parameters|Conjecture|Conjectures)\b"
    r"|Unset\s+Guard|bypass_check|type-in-type|impredicative-set|Admit\s+Obligations"
    r"|Unset\s+Positivity|Unset\s+Universe"
)


class CheckError(Exception):
    pass


def log(*a):
    print(*a, file=sys.stderr, flush=True)


def _raise_stack():
    # coqc parses big list literals recursively ("Error: Stack overflow." at ~10^5 elements with the
    # default 8 MiB stack); children get the hard limit
    import resource
    try:
        soft, hard = resource.getrlimit(resource.RLIMIT_STACK)
        resource.setrlimit(resource.RLIMIT_STACK, (hard, hard))
    except (ValueError, OSError):
        pass


def sh(cmd, timeout, cwd=None, env=None, check=True):
    e = dict(os.environ)
    e["CARGO_NET_OFFLINE"] = "true"
    if env:
        e.update(env)
    try:
        p = subprocess.run(cmd, cwd=cwd, env=e, timeout=timeout, stdout=subprocess.PIPE,
                           stderr=subprocess.STDOUT, text=True, preexec_fn=_raise_stack)
    except subprocess.TimeoutExpired as ex:
        out = ex.stdout if isinstance(ex.stdout, str) else (ex.stdout or b"").decode("utf8", "replace")
        return 124, out + "\n[timeout after %ss]" % timeout
    if check and p.returncode != 0:
        return p.returncode, p.stdout
    return p.returncode, p.stdout


class Lock:
    def __init__(self, name):
        os.makedirs(CACHE, exist_ok=True)
        self.path = os.path.join(CACHE, name + ".lock")

    def __enter__(self):
        self.f = open(self.path, "w")
        fcntl.flock(self.f, fcntl.LOCK_EX)
        return self

    def __exit__(self, *a):
        fcntl.flock(self.f, fcntl.LOCK_UN)
        self.f.close()


# ------------------------------------------------------------------ Coq side (A)

def coq_files():
    res = []
    for root, _, files in os.walk(os.path.join(COQ, "theories")):
        for f in files:
            if f.endswith(".v"):
                res.append(os.path.join(root, f))
    return sorted(res)


def strip_comments(src):
    out, depth, i = [], 0, 0
    while i < len(src):
        if src.startswith("(*", i):
            depth += 1
            i += 2
        elif src.startswith("*)", i) and depth > 0:
            depth -= 1
            i += 2
        else:
            if depth == 0:
                out.append(src[i])
            i += 1
    return "".join(out)


def hygiene():
    """No Admitted/admit/Axiom/... anywhere in the development (comments stripped)."""
    bad = []
    for f in coq_files():
        src = strip_comments(open(f).read())
        for m in FORBIDDEN.finditer(src):
            line = src.count("\n", 0, m.start()) + 1
            bad.append("%s:%d: %s" % (os.path.relpath(f, VERIF), line, m.group(0)))
        # Variable / Hypothesis outside a section
        depth = 0
        for ln, line in enumerate(src.split("\n"), 1):
            s = line.strip()
            if re.match(r"Section\s+\w+", s):
                depth += 1
            elif re.match(r"End\s+\w+\s*\.", s) and depth > 0:
                depth -= 1
            elif depth == 0 and re.match(r"(Variable|Variables|Hypothesis|Hypotheses|Context)\b", s):
                bad.append("%s:%d: %s outside a section" % (os.path.relpath(f, VERIF), ln, s.split()[0]))
    proj = open(os.path.join(COQ, "_CoqProject")).read()
    for flag in ("-type-in-type", "-impredicative-set", "-noinit", "-vos", "-vok", "-native"):
        if flag in proj:
            bad.append("_CoqProject: " + flag)
    return bad


def coq_make(targets, timeout=3000, clean=False):
    """Full .vo build of the given targets (paths relative to coq/)."""
    with Lock("coq"):
        if not os.path.exists(os.path.join(COQ, "Makefile")) or \
                os.path.getmtime(os.path.join(COQ, "Makefile")) < os.path.getmtime(os.path.join(COQ, "_CoqProject")):
            rc, out = sh(["coq_makefile", "-f", "_CoqProject", "-o", "Makefile"], 120, cwd=COQ)
            if rc != 0:
                return rc, out
        if clean:
            sh(["make", "clean"], 300, cwd=COQ)
        return sh(["make", "-j%d" % NPROC] + targets, timeout, cwd=COQ)


def theorem_names(props_file):
    src = strip_comments(open(props_file).read())
    return re.findall(r"^\s*Theorem\s+(\w+)", src, re.M)


def pinned_names(props_file):
    src = strip_comments(open(props_file).read())
    return re.findall(r"^\s*Check\s+(\w+)\s*:", src, re.M)


def print_assumptions(module, names, workdir):
    """Returns {name: [axioms]} using a throw-away file compiled against the built .vo files."""
    os.makedirs(workdir, exist_ok=True)
    path = os.path.join(workdir, "PA_%s.v" % module.replace(".", "_"))
    with open(path, "w") as f:
        f.write("From CV Require Import %s.\n" % module)
        for n in names:
            f.write('Goal True. idtac "@@BEGIN %s". Abort.\nPrint Assumptions %s.\n' % (n, n))
        f.write('Goal True. idtac "@@END". Abort.\n')
    rc, out = sh(["coqc", "-Q", os.path.join(COQ, "theories"), "CV", path], 600, cwd=workdir)
    if rc != 0:
        raise CheckError("Print Assumptions failed for %s:\n%s" % (module, out[-2000:]))
    res = {}
    cur = None
    for line in out.split("\n"):
        m = re.match(r"@@BEGIN (\w+)", line)
        if m:
            cur = m.group(1)
            res[cur] = []
            continue
        if line.startswith("@@END"):
            cur = None
            continue
        if cur is None:
            continue
        if "Closed under the global context" in line or line.strip() in ("", "Axioms:"):
            continue
        # an axiom is printed as `Name : type` or, for long types, as `Name` on its own line
        # followed by indented `  : type` lines
        if line.startswith((" ", "\t")):
            continue
        m = re.match(r"^([A-Za-z_][\w']*(?:\.[A-Za-z_][\w']*)*)\s*(:.*)?$", line.rstrip())
        if m:
            res[cur].append(m.group(1))
        else:
            res[cur].append("UNPARSED:" + line.strip()[:80])
    return res


def proof_obligations(prop_modules, tier, workdir):
    """Step A.  prop_modules: list like ['Props.C01'].  Returns dict with obligations, discharged,
    failures (list of str), axioms."""
    t0 = time.time()
    failures = []
    bad = hygiene()
    if bad:
        failures.append("hygiene: " + "; ".join(bad[:10]))
    # a module may be given as "Props.X:prefix1,prefix2": only its theorems with these name
    # prefixes are obligations of this property (the module holds groups for several properties)
    filters = {}
    mods = []
    for spec in prop_modules:
        m, _, pf = spec.partition(":")
        if m not in mods:
            mods.append(m)
        if not pf:
            filters[m] = None                      # unfiltered once = all theorems of the module
        elif m not in filters:
            filters[m] = pf.split(",")
        elif filters[m] is not None:
            filters[m].extend(pf.split(","))
    prop_modules = mods

    def names_of(m):
        vfile = os.path.join(COQ, "theories", m.replace(".", "/") + ".v")
        ns = theorem_names(vfile)
        if filters.get(m):
            ns = [n for n in ns if n.startswith(tuple(filters[m]))]
        return ns
    targets = ["theories/%s.vo" % m.replace(".", "/") for m in prop_modules]
    rc, out = coq_make(targets, timeout=3000 if tier == "quick" else 6000)
    obligations, discharged = 0, 0
    axioms = {}
    theorems = []
    for m in prop_modules:
        names = names_of(m)
        obligations += len(names)
        theorems += ["%s.%s" % (m, n) for n in names]
    if rc != 0:
        failures.append("coq build failed: " + out[-1500:])
    else:
        for m in prop_modules:
            names = names_of(m)
            if not names:
                continue
            try:
                pa = print_assumptions(m, names, workdir)
            except CheckError as ex:
                failures.append(str(ex))
                continue
            for n in names:
                ax = pa.get(n)
                if ax is None:
                    failures.append("no Print Assumptions output for %s" % n)
                    continue
                axioms["%s.%s" % (m, n)] = ax
                extra = [a for a in ax if not axiom_allowed(a)]
                if extra:
                    failures.append("theorem %s depends on non-allow-listed axioms %s" % (n, extra))
                else:
                    discharged += 1
    coqchk = None
    if tier == "thorough" and rc == 0:
        libs = ["CV." + m for m in prop_modules]
        rc2, out2 = sh(["coqchk", "-silent", "-o", "-Q", os.path.join(COQ, "theories"), "CV"] + libs,
                       3000, cwd=COQ)
        coqchk = out2[-1500:]
        if rc2 != 0:
            failures.append("coqchk failed: " + out2[-1500:])
    return dict(obligations=obligations, discharged=discharged, failures=failures, axioms=axioms,
                theorems=theorems, coqchk=coqchk, wall=time.time() - t0)


# ------------------------------------------------------------------ implementation side (B)

def cargo_build(profile):
    args = ["cargo", "build", "--offline"] + (["--release"] if profile == "release" else [])
    with Lock("cargo"):
        # registered checks always build against /repo itself; VERIF_REPO (used only by background
        # validation runs on a snapshot) redirects the path dependency of the harness
        toml = os.path.join(HARNESS, "Cargo.toml")
        txt = open(toml).read()
        want = 'constriction = { path = "%s" }' % REPO
        cur = re.search(r'constriction = \{ path = "[^"]*" \}', txt)
        if cur and cur.group(0) != want:
            open(toml, "w").write(txt.replace(cur.group(0), want))
        lock = os.path.join(HARNESS, "Cargo.lock")
        if not os.path.exists(lock):
            import shutil
            shutil.copy(os.path.join(REPO, "Cargo.lock"), lock)
        rc, out = sh(args, 3000, cwd=HARNESS,
                     env={"CARGO_TARGET_DIR": TARGET, "RUSTFLAGS": "--cfg constriction_verif"})
    if rc != 0:
        raise CheckError("harness build (%s) failed:\n%s" % (profile, out[-3000:]))
    return os.path.join(TARGET, "release" if profile == "release" else "debug", "cvharness")


def cargo_build_asan():
    """C20, thorough tier: the harness and constriction compiled by the nightly toolchain with
    AddressSanitizer, release profile (no debug assertions: an out-of-bounds access behind
    get_unchecked is then seen by ASan instead of std's precondition checks).  std itself is the
    pre-built, uninstrumented one; the allocator is ASan's.  Returns None when no nightly toolchain
    with the sanitizer runtime is installed (recorded in the evidence)."""
    tgt = TARGET + "-asan"
    with Lock("cargo"):
        toml = os.path.join(HARNESS, "Cargo.toml")
        txt = open(toml).read()
        want = 'constriction = { path = "%s" }' % REPO
        cur = re.search(r'constriction = \{ path = "[^"]*" \}', txt)
        if cur and cur.group(0) != want:
            open(toml, "w").write(txt.replace(cur.group(0), want))
        rc, out = sh(["cargo", "+nightly", "build", "--offline", "--release", "--target", "x86_64-unknown-linux-gnu"],
                     3000, cwd=HARNESS,
                     env={"CARGO_TARGET_DIR": tgt,
                          "RUSTFLAGS": "-Zsanitizer=address --cfg constriction_verif"})
    if rc != 0:
        return None
    return os.path.join(tgt, "x86_64-unknown-linux-gnu", "release", "cvharness")


def _run_harness_shard(binary, path, n_lines, per_case_timeout):
    """Runs one shard with a per-case watchdog; restarts after an abort or hang.
    Returns {id: output-list}."""
    import selectors
    res = {}
    skip = 0
    ids = [l.split()[1] for l in open(path) if l.strip()]
    while skip < n_lines:
        p = subprocess.Popen([binary, path, str(skip)], stdout=subprocess.PIPE, stderr=subprocess.DEVNULL)
        sel = selectors.DefaultSelector()
        sel.register(p.stdout, selectors.EVENT_READ)
        os.set_blocking(p.stdout.fileno(), False)
        buf = b""
        announced = None
        done_here = 0
        timed_out = False
        last_progress = time.time()
        while True:
            ev = sel.select(timeout=1.0)
            chunk = b""
            if ev:
                try:
                    chunk = p.stdout.read() or b""
                except BlockingIOError:
                    chunk = b""
                if chunk:
                    buf += chunk
                    last_progress = time.time()
            while b"\n" in buf:
                line, buf = buf.split(b"\n", 1)
                line = line.decode("utf8", "replace")
                if line.startswith("# "):
                    announced = line[2:].strip()
                    last_progress = time.time()
                elif line.strip():
                    parts = line.split()
                    if parts[1:] == ["PANIC"]:
                        res[parts[0]] = [PANIC]
                    elif parts[1:] == ["PANIC_ARITH"]:
                        res[parts[0]] = [PANIC_ARITH]
                    else:
                        res[parts[0]] = [int(x) for x in parts[1:]]
                    done_here += 1
            if p.poll() is not None and not chunk:
                # drain what is left
                try:
                    rest = p.stdout.read() or b""
                except BlockingIOError:
                    rest = b""
                if rest:
                    buf += rest
                    continue
                break
            if time.time() - last_progress > per_case_timeout:
                timed_out = True
                p.kill()
                p.wait()
                break
        sel.close()
        try:
            p.stdout.close()
        except Exception:
            pass
        if skip + done_here >= n_lines:
            break
        # the case after the last completed one did not produce a result line: abort or hang
        bad = ids[skip + done_here]
        res[bad] = [TIMEOUT] if timed_out else [ABORT]
        skip = skip + done_here + 1
    return res


def run_harness(binary, cases, workdir, tag, per_case_timeout=20):
    """cases: list of (family, id, [ints]).  Returns {id: [ints]}."""
    from concurrent.futures import ThreadPoolExecutor
    os.makedirs(workdir, exist_ok=True)
    nshard = max(1, min(NPROC, (len(cases) + 49) // 50))
    shards = [cases[i::nshard] for i in range(nshard)]
    jobs = []
    for k, sh_cases in enumerate(shards):
        path = os.path.join(workdir, "in_%s_%d.txt" % (tag, k))
        with open(path, "w") as f:
            for fam, cid, ints in sh_cases:
                f.write("%s %s %s\n" % (fam, cid, " ".join(str(x) for x in ints)))
        jobs.append((path, len(sh_cases)))
    res = {}
    with ThreadPoolExecutor(max_workers=NPROC) as ex:
        for r in ex.map(lambda j: _run_harness_shard(binary, j[0], j[1], per_case_timeout), jobs):
            res.update(r)
    return res


# ------------------------------------------------------------------ model side (inside Coq)

def zlist(l):
    return "[" + ";".join(("(%d)" % x) if x < 0 else str(x) for x in l) + "]"


def run_model_compare(runner_module, runner_fn, pairs, workdir, tag, want_outputs=False):
    """pairs: list of (input, expected).  Evaluates the model inside Coq with vm_compute.
    Returns (mismatch_indices, model_outputs_for_mismatches{idx: list})."""
    from concurrent.futures import ThreadPoolExecutor
    os.makedirs(workdir, exist_ok=True)
    if not pairs:
        return [], {}
    # shard by the amount of literal data (Coq parses big list literals slowly), at least NPROC
    # shards when there is enough work
    weight = sum(len(a) + len(b) + sum(len(str(x)) // 6 for x in a) for a, b in pairs)
    nshard = max(1, min(len(pairs), max(min(NPROC, len(pairs) // 8), weight // 40000)))
    idx_shards = [list(range(len(pairs)))[i::nshard] for i in range(nshard)]

    def one(k):
        idxs = idx_shards[k]
        path = os.path.join(workdir, "cases_%s_%d.v" % (tag, k))
        with open(path, "w") as f:
            f.write("From CV Require Import Corr.Parse %s.\nOpen Scope Z_scope.\n" % runner_module)
            f.write("Definition cs : list (list Z * list Z) := [\n")
            f.write(";\n".join("(%s,%s)" % (zlist(pairs[i][0]), zlist(pairs[i][1])) for i in idxs))
            f.write("].\n")
            f.write("Eval vm_compute in (mismatches %s cs).\n" % runner_fn)
        rc, out = sh(["coqc", "-noglob", "-Q", os.path.join(COQ, "theories"), "CV", path], 1500, cwd=workdir)
        if rc != 0:
            raise CheckError("model evaluation failed (%s):\n%s" % (path, out[-2000:]))
        flat = " ".join(out.split())
        m = re.search(r"=\s*\[(.*?)\]\s*:\s*list N", flat)
        if not m:
            raise CheckError("cannot parse model output: " + flat[:500])
        body = m.group(1).strip()
        local = [int(x.replace("%N", "").strip()) for x in body.split(";")] if body else []
        return [idxs[j] for j in local]

    mism = []
    with ThreadPoolExecutor(max_workers=NPROC) as ex:
        for r in ex.map(one, range(nshard)):
            mism += r
    mism.sort()
    outs = {}
    if mism and want_outputs:
        outs = run_model_outputs(runner_module, runner_fn, [pairs[i][0] for i in mism[:20]], workdir, tag + "_mm")
        outs = {mism[j]: v for j, v in outs.items()}
    return mism, outs


def run_model_outputs(runner_module, runner_fn, inputs, workdir, tag):
    """Returns {j: output list} for each input (small numbers of inputs only)."""
    os.makedirs(workdir, exist_ok=True)
    path = os.path.join(workdir, "outs_%s.v" % tag)
    with open(path, "w") as f:
        f.write("From CV Require Import Corr.Parse %s.\nOpen Scope Z_scope.\n" % runner_module)
        for j, inp in enumerate(inputs):
            f.write('Goal True. idtac "@@OUT %d". Abort.\nEval vm_compute in (%s %s).\n' % (j, runner_fn, zlist(inp)))
        f.write('Goal True. idtac "@@END". Abort.\n')
    rc, out = sh(["coqc", "-noglob", "-Q", os.path.join(COQ, "theories"), "CV", path], 900, cwd=workdir)
    if rc != 0:
        raise CheckError("model evaluation failed (%s):\n%s" % (path, out[-2000:]))
    res = {}
    chunks = re.split(r"@@OUT (\d+)", out)
    for i in range(1, len(chunks), 2):
        j = int(chunks[i])
        flat = " ".join(chunks[i + 1].split("@@END")[0].split())
        m = re.search(r"=\s*\[(.*?)\]\s*:\s*list Z", flat)
        if m:
            body = m.group(1).strip()
            res[j] = [int(x.replace("%Z", "").replace("(", "").replace(")", "").strip())
                      for x in body.split(";")] if body else []
    return res


# ------------------------------------------------------------------ known findings

def load_known():
    known, fixed = [], []
    path = os.path.join(VERIF, "known_findings.txt")
    if not os.path.exists(path):
        return known, fixed
    for line in open(path):
        line = line.strip()
        if line.startswith("known:"):
            m = re.match(r"known:\s+property=(\w+)\s+class=(\w+)\s+(.*)", line)
            if m:
                known.append(dict(prop=m.group(1), cls=m.group(2), text=m.group(3)))
        elif line.startswith("fixed:"):
            fixed.append(line)
    return known, fixed


def source_digests(files):
    res = {}
    for f in files:
        p = os.path.join(REPO, f)
        if os.path.exists(p):
            res[f] = hashlib.sha256(open(p, "rb").read()).hexdigest()[:16]
    return res


def write_evidence(prop, data):
    os.makedirs(os.path.join(VERIF, "evidence"), exist_ok=True)
    path = os.path.join(VERIF, "evidence", "%s.json" % prop)
    with open(path, "w") as f:
        json.dump(data, f, indent=1, sort_keys=True)
    return path
