(* Props/C05.v -- all representations of one entropy model are the same model.
   Statements only.  GROUP of the fixed-point model families (lazy-vs-eager and the leaky
   quantiser's symbol table are added by their owners):
     C05_all_representations (symbol_table = direct queries, lookup = searched, generic
       encoder / decoder / lookup conversions, view = owner, for EVERY chain of conversions),
     C05_view_eq_owner, C05_noncontig_identity_relabel, C05_lookup_eq_searched. *)
From CV Require Import Base.Bits Model.EModel Model.MBase Model.Uniform Model.Tables Model.Lookup Model.Convert.
From CV Require Import Proofs.Table_lemmas Proofs.Models_base Proofs.Models_validator Proofs.Models_tables
  Proofs.Models_conv Proofs.Models_valid Proofs.Models_props.
Open Scope N_scope.

(* headline: take ANY accepted model of ANY family ([accepted c base t], t = the table its input
   denotes) and ANY chain [ks] of conversions of the conversion graph.  The chain never fails;
   if it is type-correct ([Some r]) then the resulting representation answers
     symbol_table                      with exactly t,
     left_cumulative_and_probability   with t's entry for the symbol / None,
     quantile_function (q < 2^P)       with t's entry containing q,
     support_size                      with the number of entries of t.
   With ks = [] this is "symbol_table = direct queries"; with ks = [CToLookup] "lookup =
   searched"; with CGenEnc / CGenDec / CGenLookup the generic conversions of model.rs. *)
Theorem C05_all_representations : forall c lookup_ok base t ks,
  wf_mcfg c -> (lookup_ok = true -> wf_mcfg_lookup c) -> accepted c base t ->
  exists o, rep_convs c lookup_ok ks base = Ok o /\
    forall r, o = Some r ->
      (forall rt, rep_table c r = Some rt -> rt = Ok t) /\
      (forall s rr, rep_lcp c r s = Some rr ->
         match r with RNcEnc _ => True | _ => sym_ok (UB c) SyUsize s = true end ->
         rr = Ok (tbl_enc t s)) /\
      (forall q rr, rep_quant c r q = Some rr -> q < 2 ^ PR c -> rr = Ok (tbl_dec t q)) /\
      (forall rn, rep_support_size r = Some rn -> rn = Ok (lenN t)).
Proof. exact p_all_representations. Qed.

(* as_view and clone are the identity on the model's data *)
Theorem C05_view_eq_owner : forall c lookup_ok r,
  match r with RContig _ | RNcDec _ | RLkC _ | RLkN _ => True | _ => False end ->
  rep_conv c lookup_ok CView r = Ok (Some r) /\ rep_conv c lookup_ok CClone r = Ok (Some r).
Proof. exact p_view_eq_owner. Qed.

(* a non-contiguous decoder over the symbols 0..n with the same fixed-point table is the same
   model as the contiguous one (both are good representations of the same table, so every query
   agrees by C05_all_representations / rep_*_good) *)
Theorem C05_noncontig_identity_relabel : forall c probs infer m,
  wf_mcfg c -> probs_typed c probs -> contig_from_probs c probs infer = Ok m ->
  let full := full_probs c probs infer in
  let t := table_of 0 (iotaZ (length full)) full in
  exists d, ncdec_from_probs c (iotaZ (length full)) probs infer = Ok d /\
            wf_table (PR c) t /\ rep_good c t (RContig m) /\ rep_good c t (RNcDec d).
Proof. exact p_identity_relabel. Qed.

(* the lookup table built by From<&Contiguous...> equals the one built by the fixed-point
   constructor, and its decoder equals the binary search on every quantile *)
Theorem C05_lookup_eq_searched : forall c probs infer m,
  wf_mcfg_lookup c -> probs_typed c probs -> contig_from_probs c probs infer = Ok m ->
  exists l, lkc_from_contig c m = Ok l /\ lkc_from_probs c probs infer = Ok l /\
    forall q, q < 2 ^ PR c -> lkc_quant c l q = contig_quant c m q.
Proof. exact p_lookup_eq_searched. Qed.

(* the invariant behind the headline: what a "good representation of table t" is, and that
   every conversion preserves it *)
Theorem C05_conversions_preserve : forall c t lookup_ok k r,
  wf_mcfg c -> wf_table (PR c) t -> (lookup_ok = true -> wf_mcfg_lookup c) -> rep_good c t r ->
  exists o, rep_conv c lookup_ok k r = Ok o /\ forall r', o = Some r' -> rep_good c t r'.
Proof. intros c t lookup_ok k r Hc Ht. exact (rep_conv_good c Hc t Ht lookup_ok k r). Qed.

Check C05_all_representations : forall c lookup_ok base t ks,
  wf_mcfg c -> (lookup_ok = true -> wf_mcfg_lookup c) -> accepted c base t ->
  exists o, rep_convs c lookup_ok ks base = Ok o /\
    forall r, o = Some r ->
      (forall rt, rep_table c r = Some rt -> rt = Ok t) /\
      (forall s rr, rep_lcp c r s = Some rr ->
         match r with RNcEnc _ => True | _ => sym_ok (UB c) SyUsize s = true end ->
         rr = Ok (tbl_enc t s)) /\
      (forall q rr, rep_quant c r q = Some rr -> q < 2 ^ PR c -> rr = Ok (tbl_dec t q)) /\
      (forall rn, rep_support_size r = Some rn -> rn = Ok (lenN t)).

(* ---- non-vacuity ---- *)
Definition c16_12 : mcfg := {| PB := 16; UB := 64; PR := 12 |}.
Example ex_accepted : exists m, accepted c16_12 (RContig m)
  (table_of 0 (iotaZ 3) [1; 4094; 1]).
Proof.
  eexists. right. left. exists [1; 4094], true. eexists.
  split; [repeat constructor|]. split; [vm_compute; reflexivity|]. split; reflexivity.
Qed.
Example ex_chain : exists m r, contig_from_probs c16_12 [1; 4094] true = Ok m /\
  rep_convs c16_12 true [CToLookup; CView; CGenDec; CGenEnc] (RContig m) = Ok (Some r) /\
  rep_lcp c16_12 r 2%Z = Some (Ok (Some (4095, 1))).
Proof.
  eexists. eexists. split; [vm_compute; reflexivity|]. split; [vm_compute; reflexivity|].
  vm_compute. reflexivity.
Qed.

Print Assumptions C05_all_representations.
Print Assumptions C05_view_eq_owner.
Print Assumptions C05_noncontig_identity_relabel.
Print Assumptions C05_lookup_eq_searched.
Print Assumptions C05_conversions_preserve.
