(* Props/C10_ans.v -- ANS decoding of arbitrary data is total and stays inside the model. *)
From CV Require Import Base.Bits Model.EModel Model.Ans Proofs.Ans_lemmas Proofs.Ans_words Proofs.Ans_extra.
Open Scope N_scope.

(* EVERY state (no invariant), every exactly invertible model: a symbol of the support *)
Theorem C10_ans_decode_in_support : forall c m a, wf_model m ->
  let '(s, _) := ans_decode_sym c m a in exists cum p, em_enc m s = Some (cum, p).
Proof. exact ans_decode_in_support. Qed.

(* no arithmetic of the decoder can overflow the State type *)
Theorem C10_ans_decode_fits : forall c P cum p s,
  wf_cfg c -> 0 < P -> P <= WB c -> wf_entry P cum p -> s < 2 ^ SB c ->
  cum <= s mod 2 ^ P < cum + p ->
  shr s P * p + (s mod 2 ^ P - cum) < 2 ^ SB c.
Proof. exact ans_decode_fits. Qed.

(* any word sequence either is refused by from_compressed (last word zero) or gives a coder
   satisfying the invariant; from_binary always does (C04) *)
Theorem C10_ans_import_total : forall c ws a,
  wf_cfg c -> Forall (fun w => w < 2 ^ WB c) ws ->
  ans_from_compressed c ws = Some a -> ans_inv c a.
Proof. intros c ws a Hc. exact (ans_from_compressed_inv c Hc ws a). Qed.

Print Assumptions C10_ans_decode_in_support.
Print Assumptions C10_ans_decode_fits.
Print Assumptions C10_ans_import_total.
