#!/usr/bin/env python3
"""Regenerates the `checks` array of MANIFEST.json from lib/props.py (keeps the rest)."""
import json, os, sys
HERE = os.path.dirname(os.path.abspath(__file__))
sys.path.insert(0, HERE)
from props import PROPS, NOT_APPLICABLE
path = os.path.join(os.path.dirname(HERE), "MANIFEST.json")
m = json.load(open(path))
checks = []
for pid in sorted(PROPS):
    c = PROPS[pid]
    checks.append(dict(
        property_id=pid,
        quick_cmd="./check %s --tier quick" % pid,
        thorough_cmd="./check %s --tier thorough" % pid,
        evidence_file="/verif/evidence/%s.json" % pid,
        replay_cmd_template="./check %s --replay {path}" % pid,
        engine="check",
        level_claimed=dict(category="proof", text=c["level_text"], design_ref=c["design_ref"]),
        level_note=c["level_note"],
        technique=c["technique"],
    ))
m["checks"] = checks
m["engines"][0]["serves_properties"] = sorted(PROPS)
m["not_applicable"] = [dict(property_id=k, reason=v) for k, v in sorted(NOT_APPLICABLE.items()) if k not in PROPS]
json.dump(m, open(path, "w"), indent=1)
print("MANIFEST: %d checks, %d not claimed" % (len(checks), len(m["not_applicable"])))
