(* Props/C01.v -- ANS coder is a lossless stack under any history.
   This file contains ONLY statements; all proofs live in Proofs/. *)
From CV Require Import Base.Bits Model.EModel Model.Ans.
From CV Require Import Proofs.Table_lemmas Proofs.Ans_lemmas Proofs.Ans_words Proofs.Ans_history.
Open Scope N_scope.

(* one push followed by one pop, for every state satisfying the documented
   invariant, every width, every precision <= Word bits, every exactly
   invertible model (probabilities of 1 and 2^P-1 quanta included) *)
Theorem C01_pop_push : forall c m s a a',
  wf_cfg c -> wf_model m -> em_prec m <= WB c -> ans_inv c a ->
  ans_encode_sym c m s a = Some a' ->
  ans_inv c a' /\ ans_decode_sym c m a' = (s, a).
Proof. intros c m s a a' Hc. exact (ans_pop_push c Hc m s a a'). Qed.

(* export followed by re-import is the identity, on every reachable coder *)
Theorem C01_reload : forall c a,
  wf_cfg c -> ans_inv c a -> ans_from_compressed c (ans_words c a) = Some a.
Proof. intros c a Hc. exact (ans_import_export c Hc a). Qed.

Theorem C01_export_no_trailing_zero : forall c a,
  wf_cfg c -> ans_inv c a -> ans_words c a = [] \/ last (ans_words c a) 0 <> 0.
Proof. intros c a Hc. exact (ans_words_last_nz c Hc a). Qed.

(* start states: the empty coder and ANY imported word sequence *)
Theorem C01_start_empty : forall c, ans_inv c ans_empty.
Proof. exact ans_empty_inv. Qed.

Theorem C01_start_imported : forall c ws a,
  wf_cfg c -> Forall (fun w => w < 2 ^ WB c) ws ->
  ans_from_compressed c ws = Some a -> ans_inv c a.
Proof. intros c ws a Hc. exact (ans_from_compressed_inv c Hc ws a). Qed.

(* headline: any history that respects the stack discipline *)
Theorem C01_stack_history : forall c a0 h o,
  wf_cfg c -> ans_inv c a0 -> Forall (op_model_ok c) h ->
  ans_spec [] h [] o ->
  ans_run c a0 h = (a0, o).
Proof. intros c a0 h o Hc. exact (ans_stack_history c Hc a0 h o). Qed.

(* and its general form: after ANY prefix the coder equals "initial coder with
   the pending symbols pushed" *)
Theorem C01_refines_stack : forall c a0 p h p' o,
  wf_cfg c -> ans_inv c a0 -> ans_spec p h p' o ->
  Forall (op_model_ok c) h -> pend_ok c p ->
  forall a, push_all c p a0 = Some a ->
  exists a', ans_run c a h = (a', o) /\ push_all c p' a0 = Some a' /\ pend_ok c p'.
Proof. intros c a0 p h p' o Hc. exact (ans_refines_stack c Hc a0 p h p' o). Qed.

(* batch / reverse / fallible-iterator forms equal the per-symbol loop, including the position
   at which they stop and the symbols that stay encoded *)
Theorem C01_batch_ok : forall c l a a',
  ans_encode_all c l a = Some a' -> ans_encode_batch c l a = (a', None).
Proof. intros c l a a'. exact (ans_encode_batch_from_ok c l 0 a a'). Qed.

Theorem C01_batch_reverse_ok : forall c l a a',
  ans_encode_all c (rev l) a = Some a' -> ans_encode_batch_reverse c l a = (a', None).
Proof. intros c l a a'. exact (ans_encode_batch_from_ok c (rev l) 0 a a'). Qed.

Theorem C01_batch_stops_at_error : forall c l1 a a1 m s l2,
  ans_encode_all c l1 a = Some a1 -> ans_encode_sym c m s a1 = None ->
  ans_encode_batch c (l1 ++ (m, s) :: l2) a = (a1, Some (length l1)).
Proof. intros c l1 a a1 m s l2. exact (ans_encode_batch_from_err c l1 0 a a1 m s l2). Qed.

Theorem C01_try_batch_ok : forall c l a a',
  ans_encode_all c l a = Some a' -> ans_try_encode c (map Some l) a = (a', TryOk).
Proof. intros c l a a'. exact (ans_try_encode_from_ok c l 0 a a'). Qed.

Theorem C01_try_batch_stops : forall c l1 a a1 l2,
  ans_encode_all c l1 a = Some a1 ->
  ans_try_encode c (map Some l1 ++ None :: l2) a = (a1, TryInvalidModel (length l1)).
Proof. intros c l1 a a1 l2. exact (ans_try_encode_from_invalid c l1 0 a a1 l2). Qed.

(* the hypothesis [wf_model] is met by every explicit table that tiles [0,2^P) *)
Theorem C01_tables_are_models : forall P t, wf_table P t -> wf_model (table_model P t).
Proof. exact table_model_wf. Qed.

Check C01_pop_push : forall c m s a a',
  wf_cfg c -> wf_model m -> em_prec m <= WB c -> ans_inv c a ->
  ans_encode_sym c m s a = Some a' ->
  ans_inv c a' /\ ans_decode_sym c m a' = (s, a).
Check C01_reload : forall c a,
  wf_cfg c -> ans_inv c a -> ans_from_compressed c (ans_words c a) = Some a.
Check C01_stack_history : forall c a0 h o,
  wf_cfg c -> ans_inv c a0 -> Forall (op_model_ok c) h ->
  ans_spec [] h [] o -> ans_run c a0 h = (a0, o).

(* ---- non-vacuity: a concrete instance meeting every hypothesis ---- *)
Definition ex_cfg : cfg := {| WB := 8; SB := 16 |}.
Definition ex_tbl : table := [(0%Z, 0, 1); (1%Z, 1, 254); (2%Z, 255, 1)].
Definition ex_m : emodel := table_model 8 ex_tbl.

Example ex_cfg_wf : wf_cfg ex_cfg.
Proof. unfold wf_cfg, ex_cfg; cbn; lia. Qed.
Example ex_m_wf : wf_model ex_m /\ em_prec ex_m <= WB ex_cfg.
Proof. split; [apply table_model_wf, wf_tableb_spec; vm_compute; reflexivity|cbn; lia]. Qed.
Example ex_start_inv : exists a, ans_from_compressed ex_cfg [0x12; 0x34; 0x56] = Some a /\ ans_inv ex_cfg a.
Proof.
  eexists. split; [vm_compute; reflexivity|].
  unfold ans_inv; cbn. split; [right; vm_compute; discriminate|].
  split; [vm_compute; reflexivity|]. repeat constructor.
Qed.
Example ex_history_spec :
  ans_spec [] [AEnc ex_m 2; AEnc ex_m 1; AReload; ADec ex_m; AEnc ex_m 0; ADec ex_m; ADec ex_m] []
              [ONone; ONone; ONone; OSym 1; ONone; OSym 0; OSym 2].
Proof. repeat (econstructor; try (vm_compute; reflexivity)). Qed.

Print Assumptions C01_pop_push.
Print Assumptions C01_reload.
Print Assumptions C01_export_no_trailing_zero.
Print Assumptions C01_start_empty.
Print Assumptions C01_start_imported.
Print Assumptions C01_stack_history.
Print Assumptions C01_refines_stack.
Print Assumptions C01_tables_are_models.
Print Assumptions C01_batch_ok.
Print Assumptions C01_batch_reverse_ok.
Print Assumptions C01_batch_stops_at_error.
Print Assumptions C01_try_batch_ok.
Print Assumptions C01_try_batch_stops.
