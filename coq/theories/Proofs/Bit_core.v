(* Proofs/Bit_core.v -- single bits of machine words: masks with one set bit,
   testbit views of land / lor / lxor / shifts, bit lists of words. *)
From CV Require Import Base.Bits Model.BitCoder.
Set Default Timeout 30.
Open Scope N_scope.

(* ---------- bounds as statements about bits ---------- *)
Lemma lt_pow2_bits x k : x < 2 ^ k <-> (forall n, k <= n -> N.testbit x n = false).
Proof.
  split.
  - intros Hx n Hn.
    destruct (N.eq_dec x 0) as [->|Hnz]; [apply N.bits_0|].
    apply N.bits_above_log2.
    apply N.log2_lt_pow2; [lia|].
    eapply N.lt_le_trans; [exact Hx|]. apply pow2_le; assumption.
  - intros H.
    destruct (N.eq_dec x 0) as [->|Hnz]; [apply pow2_pos|].
    apply N.log2_lt_pow2; [lia|].
    destruct (N.lt_ge_cases (N.log2 x) k) as [Hlt|Hge]; [assumption|].
    specialize (H _ Hge). rewrite N.bit_log2 in H by assumption. discriminate.
Qed.

Lemma testbit_pow2 k n : N.testbit (2 ^ k) n = (k =? n).
Proof. apply N.pow2_bits_eqb. Qed.

Lemma land_pow2 w k : N.land w (2 ^ k) = if N.testbit w k then 2 ^ k else 0.
Proof.
  apply N.bits_inj. intros n.
  rewrite N.land_spec, testbit_pow2.
  destruct (N.eqb_spec k n) as [->|Hne].
  - destruct (N.testbit w n); [rewrite testbit_pow2, N.eqb_refl|rewrite N.bits_0]; reflexivity.
  - rewrite andb_false_r.
    destruct (N.testbit w k); [rewrite testbit_pow2|rewrite N.bits_0]; [|reflexivity].
    symmetry. apply N.eqb_neq. assumption.
Qed.

Lemma eg_bit_pow2 w k : negb (N.land w (2 ^ k) =? 0) = N.testbit w k.
Proof.
  rewrite land_pow2. destruct (N.testbit w k).
  - pose proof (pow2_nz k) as H. apply N.eqb_neq in H. rewrite H. reflexivity.
  - reflexivity.
Qed.

Lemma shl_pow2 WB k : k + 1 < WB -> shl WB (2 ^ k) 1 = 2 ^ (k + 1).
Proof.
  intros H. unfold shl. rewrite shiftl_mul, <- pow2_add.
  apply trunc_small. apply pow2_lt. assumption.
Qed.

Lemma shl_pow2_top WB k : k + 1 = WB -> shl WB (2 ^ k) 1 = 0.
Proof.
  intros H. unfold shl, trunc. rewrite shiftl_mul, <- pow2_add, H.
  apply N.mod_same, pow2_nz.
Qed.

Lemma shl_one WB k : k < WB -> shl WB 1 k = 2 ^ k.
Proof.
  intros H. unfold shl. rewrite shiftl_mul, N.mul_1_l.
  apply trunc_small, pow2_lt. assumption.
Qed.

Lemma shl_zero WB k : shl WB 0 k = 0.
Proof.
  unfold shl, trunc. rewrite N.shiftl_0_l. apply N.mod_0_l, pow2_nz.
Qed.

Lemma shr_pow2 k : 0 < k -> shr (2 ^ k) 1 = 2 ^ (k - 1).
Proof.
  intros H. rewrite shr_div.
  replace (2 ^ k) with (2 ^ (k - 1) * 2 ^ 1) by (rewrite <- pow2_add; f_equal; lia).
  apply N.div_mul, pow2_nz.
Qed.

Lemma shr_pow2_0 : shr (2 ^ 0) 1 = 0.
Proof. reflexivity. Qed.

Lemma log2_pow2 k : N.log2 (2 ^ k) = k.
Proof. apply N.log2_pow2. lia. Qed.

Lemma pow2_eq_0 k : (2 ^ k =? 0) = false.
Proof. apply N.eqb_neq, pow2_nz. Qed.

Lemma pow2_inj a b : 2 ^ a = 2 ^ b -> a = b.
Proof. intros H. apply N.pow_inj_r in H; [assumption|lia]. Qed.

Lemma ctz_double b x : x <> 0 -> ctz b (2 * x) = N.succ (ctz b x).
Proof. destruct x as [|p]; [congruence|]. intros _. reflexivity. Qed.

Lemma ctz_pow2 b k : ctz b (2 ^ k) = k.
Proof.
  induction k as [|k IH] using N.peano_ind; [reflexivity|].
  rewrite N.pow_succ_r by lia. rewrite ctz_double by apply pow2_nz. rewrite IH. reflexivity.
Qed.

(* highest set bit: Word::BITS - 1 - leading_zeros *)
Lemma msb_index WB w : w <> 0 -> w < 2 ^ WB -> WB - 1 - clz WB w = N.log2 w.
Proof.
  intros Hnz Hlt. unfold clz. rewrite N.size_log2 by assumption.
  assert (N.log2 w < WB) by (apply N.log2_lt_pow2; [lia|assumption]).
  lia.
Qed.

(* ---------- one read step on a word ---------- *)
Lemma clear_bit w k :
  w < 2 ^ (k + 1) ->
  let bit := N.land w (2 ^ k) in
  N.lxor w bit < 2 ^ k
  /\ (forall i, i < k -> N.testbit (N.lxor w bit) i = N.testbit w i).
Proof.
  intros Hw bit. subst bit. rewrite land_pow2. split.
  - apply lt_pow2_bits. intros n Hn. rewrite N.lxor_spec.
    destruct (N.eq_dec n k) as [->|Hne].
    + destruct (N.testbit w k) eqn:E.
      * rewrite testbit_pow2, N.eqb_refl. reflexivity.
      * rewrite N.bits_0. reflexivity.
    + assert (N.testbit w n = false) as ->.
      { apply (proj1 (lt_pow2_bits w (k + 1)) Hw). lia. }
      destruct (N.testbit w k).
      * rewrite testbit_pow2. assert (k =? n = false) as -> by (apply N.eqb_neq; lia). reflexivity.
      * rewrite N.bits_0. reflexivity.
  - intros i Hi. rewrite N.lxor_spec.
    destruct (N.testbit w k).
    + rewrite testbit_pow2. assert (k =? i = false) as -> by (apply N.eqb_neq; lia).
      apply xorb_false_r.
    + rewrite N.bits_0. apply xorb_false_r.
Qed.

(* one write step on a word *)
Lemma set_bit w k (b : bool) :
  w < 2 ^ k ->
  let w' := N.lor w (if b then 2 ^ k else 0) in
  w' < 2 ^ (k + 1) /\ N.testbit w' k = b
  /\ (forall i, i < k -> N.testbit w' i = N.testbit w i).
Proof.
  intros Hw w'. subst w'.
  pose proof (proj1 (lt_pow2_bits w k) Hw) as Hbits.
  split; [|split].
  - apply lt_pow2_bits. intros n Hn. rewrite N.lor_spec.
    rewrite Hbits by lia.
    destruct b; [rewrite testbit_pow2|rewrite N.bits_0]; [|reflexivity].
    apply N.eqb_neq. lia.
  - rewrite N.lor_spec, Hbits by lia.
    destruct b; [rewrite testbit_pow2, N.eqb_refl|rewrite N.bits_0]; reflexivity.
  - intros i Hi. rewrite N.lor_spec.
    destruct b; [rewrite testbit_pow2|rewrite N.bits_0]; [|apply orb_false_r].
    assert (k =? i = false) as -> by (apply N.eqb_neq; lia). apply orb_false_r.
Qed.

Lemma lor_pow2_add w k : w < 2 ^ k -> N.lor w (2 ^ k) = 2 ^ k + w.
Proof.
  intros H. rewrite N.lor_comm.
  pose proof (lor_disjoint 1 w k H) as E. rewrite N.mul_1_l in E. exact E.
Qed.

Lemma lxor_pow2_sub w k : w < 2 ^ k -> N.lxor (2 ^ k + w) (2 ^ k) = w.
Proof.
  intros H. rewrite <- lor_pow2_add by assumption.
  apply N.bits_inj. intros n. rewrite N.lxor_spec, N.lor_spec, testbit_pow2.
  destruct (N.eqb_spec k n) as [<-|Hne].
  - rewrite (proj1 (lt_pow2_bits w k) H) by lia. reflexivity.
  - rewrite orb_false_r. apply xorb_false_r.
Qed.

Lemma log2_pow2_add w k : w < 2 ^ k -> N.log2 (2 ^ k + w) = k.
Proof.
  intros H. apply N.log2_unique; [lia|].
  rewrite N.pow_succ_r by lia. lia.
Qed.

(* ---------- lists of bits of a word ---------- *)
Lemma bits_desc_length n w : length (bits_desc n w) = n.
Proof. induction n; cbn [bits_desc length]; congruence. Qed.

Lemma bits_from_length n k w : length (bits_from n k w) = n.
Proof. revert k. induction n; intros k; cbn [bits_from length]; [reflexivity|]. rewrite IHn. reflexivity. Qed.

Lemma bits_desc_ext n a b :
  (forall i, i < N.of_nat n -> N.testbit a i = N.testbit b i) -> bits_desc n a = bits_desc n b.
Proof.
  induction n as [|n IH]; intros H; cbn [bits_desc]; [reflexivity|].
  f_equal; [apply H; lia|apply IH; intros i Hi; apply H; lia].
Qed.

Lemma bits_from_ext n k a b :
  (forall i, k <= i < k + N.of_nat n -> N.testbit a i = N.testbit b i) ->
  bits_from n k a = bits_from n k b.
Proof.
  revert k. induction n as [|n IH]; intros k H; cbn [bits_from]; [reflexivity|].
  f_equal; [apply H; lia|apply IH; intros i Hi; apply H; lia].
Qed.

Lemma bits_desc_succ k w :
  bits_desc (S (N.to_nat k)) w = N.testbit w k :: bits_desc (N.to_nat k) w.
Proof. cbn [bits_desc]. rewrite N2Nat.id. reflexivity. Qed.

Lemma bits_from_snoc n k w :
  bits_from (S n) k w = bits_from n k w ++ [N.testbit w (k + N.of_nat n)].
Proof.
  revert k. induction n as [|n IH]; intros k.
  - cbn [bits_from app]. rewrite N.add_0_r. reflexivity.
  - change (bits_from (S (S n)) k w) with (N.testbit w k :: bits_from (S n) (N.succ k) w).
    rewrite IH. cbn [bits_from app]. do 4 f_equal. lia.
Qed.

Lemma bits_from_rev n w : bits_from n 0 w = rev (bits_desc n w).
Proof.
  induction n as [|n IH]; [reflexivity|].
  rewrite bits_from_snoc, IH. cbn [bits_desc rev]. rewrite N.add_0_l. reflexivity.
Qed.

Lemma bits_from_split n m k w :
  bits_from (n + m) k w = bits_from n k w ++ bits_from m (k + N.of_nat n) w.
Proof.
  revert k. induction n as [|n IH]; intros k.
  - cbn [bits_from app Nat.add]. rewrite N.add_0_r. reflexivity.
  - cbn [bits_from app Nat.add]. rewrite IH. do 3 f_equal. lia.
Qed.

Lemma bits_desc_zero n : bits_desc n 0 = repeat false n.
Proof. induction n; cbn [bits_desc repeat]; [reflexivity|]. rewrite N.bits_0, IHn. reflexivity. Qed.

Lemma bits_from_zero n k : bits_from n k 0 = repeat false n.
Proof. revert k. induction n; intros k; cbn [bits_from repeat]; [reflexivity|]. rewrite N.bits_0, IHn. reflexivity. Qed.

(* a word below 2^n is determined by its n low bits *)
Lemma bits_desc_inj n a b :
  a < 2 ^ N.of_nat n -> b < 2 ^ N.of_nat n -> bits_desc n a = bits_desc n b -> a = b.
Proof.
  intros Ha Hb H. apply N.bits_inj. intros i.
  destruct (N.lt_ge_cases i (N.of_nat n)) as [Hi|Hi].
  - clear Ha Hb. revert i Hi. induction n as [|n IH]; intros i Hi; [lia|].
    cbn [bits_desc] in H. injection H as H0 H1.
    destruct (N.eq_dec i (N.of_nat n)) as [->|Hne]; [assumption|].
    apply IH; [assumption|lia].
  - rewrite (proj1 (lt_pow2_bits a _) Ha), (proj1 (lt_pow2_bits b _) Hb) by assumption. reflexivity.
Qed.

(* value of a bit list, most significant first, continuing [acc] *)
Definition b2n (b : bool) : N := if b then 1 else 0.

Fixpoint val_desc (l : list bool) (acc : N) : N :=
  match l with
  | [] => acc
  | b :: r => val_desc r (2 * acc + b2n b)
  end.

Lemma testbit_b2n w k : b2n (N.testbit w k) = (w / 2 ^ k) mod 2.
Proof. rewrite N.testbit_spec' . reflexivity. Qed.

Lemma val_desc_bits n w acc :
  val_desc (bits_desc n w) acc = acc * 2 ^ N.of_nat n + w mod 2 ^ N.of_nat n.
Proof.
  revert acc. induction n as [|n IH]; intros acc.
  - cbn [bits_desc val_desc]. change (N.of_nat 0) with 0. rewrite N.pow_0_r, N.mod_1_r. lia.
  - cbn [bits_desc val_desc]. rewrite IH, testbit_b2n.
    rewrite Nat2N.inj_succ, N.pow_succ_r by lia.
    set (p := 2 ^ N.of_nat n).
    assert (Hp : 0 < p) by apply pow2_pos.
    (* w mod (2p) = p * ((w/p) mod 2) + w mod p *)
    rewrite (N.mul_comm 2 p), N.mod_mul_r by lia.
    lia.
Qed.
