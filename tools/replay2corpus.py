#!/usr/bin/env python3
"""Adds the (shrunk) failing inputs found while testing the seeded changes to the regression corpus
corpus/<family>.<generator>.txt (one case per line, `# seeded <id>` comment). Corpus cases run first
in every check that uses that generator."""
import json, os, re, sys
root = "/verif/seeded"
added = 0
for name in sorted(os.listdir(root)):
    cf = os.path.join(root, name, "checks.txt")
    if not os.path.exists(cf):
        continue
    for line in open(cf):
        m = re.match(r"VIOLATION property=(\w+) replay=(\S+)", line)
        if not m or not os.path.exists(m.group(2)):
            continue
        d = json.load(open(m.group(2)))
        if "input" not in d or "generator" not in d or len(d["input"]) > 3000:
            continue
        path = "/verif/corpus/%s.%s.txt" % (d["family"], d["generator"])
        os.makedirs("/verif/corpus", exist_ok=True)
        line_txt = " ".join(map(str, d["input"]))
        existing = open(path).read() if os.path.exists(path) else ""
        if line_txt in existing:
            continue
        with open(path, "a") as f:
            f.write("%s  # seeded %s (%s)\n" % (line_txt, name, m.group(1)))
        added += 1
print("added", added, "corpus cases")
