(* Proofs/Backend_tape.v -- laws of the abstract stack / queue (the tape of Model/Backend.v) and
   list helpers shared by the backend proofs. *)
From CV Require Import Model.Backend.
Open Scope nat_scope.
Set Default Timeout 30.

(* ------------------------------------------------------------------ lists *)

Lemma list_set_length i w l : length (list_set i w l) = length l.
Proof.
  revert i; induction l as [|x l IH]; intros [|i]; cbn; auto.
Qed.

Lemma list_set_app_len a w x b : list_set (length a) w (a ++ x :: b) = a ++ w :: b.
Proof. induction a as [|y a IH]; cbn; [reflexivity|]. now rewrite IH. Qed.

Lemma nth_error_app_len {A} (a : list A) x b : nth_error (a ++ x :: b) (length a) = Some x.
Proof. induction a; cbn; auto. Qed.

Lemma nth_error_len_none {A} (l : list A) i : length l <= i -> nth_error l i = None.
Proof. intros. now apply nth_error_None. Qed.

Lemma firstn_app_len {A} (a b : list A) : firstn (length a) (a ++ b) = a.
Proof.
  rewrite firstn_app, Nat.sub_diag, firstn_all. cbn. now rewrite app_nil_r.
Qed.

Lemma skipn_app_len {A} (a b : list A) : skipn (length a) (a ++ b) = b.
Proof.
  rewrite skipn_app, Nat.sub_diag, skipn_all. reflexivity.
Qed.

Lemma removelast_snoc {A} (l : list A) x : removelast (l ++ [x]) = l.
Proof. apply removelast_last. Qed.

Lemma last_snoc {A} (l : list A) x d : last (l ++ [x]) d = x.
Proof. apply last_last. Qed.

Lemma rev_cons_snoc {A} (x : A) l : rev (x :: l) = rev l ++ [x].
Proof. reflexivity. Qed.

(* ------------------------------------------------------------------ tape laws *)

Lemma tape_eta t : {| above := above t; below := below t |} = t.
Proof. now destruct t. Qed.

(* --- one step *)

(* a read that reports end-of-data changes nothing *)
Lemma tape_read_none s t t' : tape_read s t = (RNone, t') -> t' = t.
Proof.
  destruct t as [a b], s; cbn; [destruct a|destruct b]; intros H; inversion H; reflexivity.
Qed.

Lemma tape_read_none_iff s t : fst (tape_read s t) = RNone <-> tape_remaining s t = 0.
Proof.
  destruct t as [a b], s; cbn; [destruct a|destruct b]; cbn; split; intros H; try reflexivity; discriminate.
Qed.

(* LIFO, one step: the word just written is the next word a Stack read returns, and that read
   puts the abstract stack back *)
Lemma tape_write_read_stack w t t1 :
  tape_write w t = (WOk, t1) ->
  exists t2, tape_read Stack t1 = (RSome w, t2) /\ above t2 = above t /\ length (below t2) = length (below t).
Proof.
  destruct t as [a [|x b]]; cbn; intros H; inversion H; subst; clear H.
  cbn. eexists; repeat split.
Qed.

(* a write is refused exactly when there is no cell ahead, and then nothing changes *)
Lemma tape_write_full w t : below t = [] -> tape_write w t = (WOutOfSpace, t).
Proof. destruct t as [a b]; cbn; intros ->; reflexivity. Qed.

Lemma tape_write_ok w t : below t <> [] ->
  tape_write w t = (WOk, {| above := w :: above t; below := tl (below t) |}).
Proof. destruct t as [a [|x b]]; cbn; intros H; [congruence|reflexivity]. Qed.

(* --- n steps *)

(* writing [ws] (there is room for all of them) pushes them on the stack ... *)
Lemma tape_writes_ok ws : forall t, length ws <= length (below t) ->
  tape_writes ws t =
    (repeat WOk (length ws), {| above := rev ws ++ above t; below := skipn (length ws) (below t) |}).
Proof.
  induction ws as [|w ws IH]; intros [a b] H; cbn in *.
  - reflexivity.
  - destruct b as [|x b]; cbn in *; [lia|].
    rewrite IH by (cbn; lia). cbn. rewrite <- app_assoc. reflexivity.
Qed.

(* ... and the next [length ws] Stack reads return them in REVERSE order, restoring the stack;
   the cells they occupied now hold [ws] (in queue order) *)
Lemma tape_reads_stack ws : forall a b,
  tape_reads Stack (length ws) {| above := rev ws ++ a; below := b |} =
    (map RSome (rev ws), {| above := a; below := ws ++ b |}).
Proof.
  induction ws as [|w ws IH] using rev_ind; intros a b; cbn.
  - reflexivity.
  - rewrite rev_app_distr, app_length, Nat.add_comm. cbn.
    rewrite IH. rewrite <- app_assoc. reflexivity.
Qed.

(* Queue reads return the words ahead in order and push them on the stack side *)
Lemma tape_reads_queue ws : forall a b,
  tape_reads Queue (length ws) {| above := a; below := ws ++ b |} =
    (map RSome ws, {| above := rev ws ++ a; below := b |}).
Proof.
  induction ws as [|w ws IH]; intros a b; cbn.
  - reflexivity.
  - rewrite IH. rewrite <- app_assoc. reflexivity.
Qed.

(* LIFO: write [ws], read them back with Stack semantics *)
Lemma tape_lifo ws t : length ws <= length (below t) ->
  exists t1, tape_writes ws t = (repeat WOk (length ws), t1) /\
    tape_reads Stack (length ws) t1 =
      (map RSome (rev ws), {| above := above t; below := ws ++ skipn (length ws) (below t) |}).
Proof.
  intros H. eexists; split; [apply tape_writes_ok; assumption|].
  apply tape_reads_stack.
Qed.

(* FIFO: write [ws], go back to where the first of them was written, read with Queue semantics:
   the words come back in the order written and the tape is again as it was after the writes *)
Lemma tape_goto_back ws a b :
  tape_goto (length a) {| above := rev ws ++ a; below := b |} = {| above := a; below := ws ++ b |}.
Proof.
  unfold tape_goto, tape_all. cbn.
  rewrite rev_app_distr, rev_involutive, <- app_assoc.
  replace (length a) with (length (rev a)) by apply rev_length.
  rewrite firstn_app_len, skipn_app_len, rev_involutive. reflexivity.
Qed.

Lemma tape_fifo ws t : length ws <= length (below t) ->
  exists t1, tape_writes ws t = (repeat WOk (length ws), t1) /\
    tape_reads Queue (length ws) (tape_goto (length (above t)) t1) = (map RSome ws, t1).
Proof.
  intros H. eexists; split; [apply tape_writes_ok; assumption|].
  rewrite tape_goto_back. apply tape_reads_queue.
Qed.

Lemma iter_rd_app {X} (rd : X -> rres * X) n m : forall x,
  iter_rd rd (n + m) x =
    let '(rs1, x1) := iter_rd rd n x in
    let '(rs2, x2) := iter_rd rd m x1 in (rs1 ++ rs2, x2).
Proof.
  induction n as [|n IH]; intros x; cbn.
  - destruct (iter_rd rd m x); reflexivity.
  - destruct (rd x) as [r x1]. rewrite IH.
    destruct (iter_rd rd n x1) as [rs1 x2]. destruct (iter_rd rd m x2). reflexivity.
Qed.

Lemma tape_reads_app s n m t :
  tape_reads s (n + m) t =
    let '(rs1, t1) := tape_reads s n t in
    let '(rs2, t2) := tape_reads s m t1 in (rs1 ++ rs2, t2).
Proof. apply iter_rd_app. Qed.

(* remaining is exact: exactly [tape_remaining s t] reads return a word, the next one (and, by
   [tape_read_none], every later one) reports end-of-data *)
Lemma tape_remaining_exact s t :
  exists ws t', length ws = tape_remaining s t /\
    tape_reads s (S (tape_remaining s t)) t = (map RSome ws ++ [RNone], t') /\
    tape_remaining s t' = 0.
Proof.
  destruct t as [a b], s; cbn [tape_remaining above below].
  - exists a, {| above := []; below := rev a ++ b |}.
    split; [reflexivity|].
    replace (S (length a)) with (length (rev a) + 1) by (rewrite rev_length; lia).
    rewrite tape_reads_app.
    pose proof (tape_reads_stack (rev a) [] b) as H. rewrite rev_involutive, app_nil_r in H.
    rewrite H. cbn. auto.
  - exists b, {| above := rev b ++ a; below := [] |}. split; [reflexivity|].
    replace (S (length b)) with (length b + 1) by lia.
    rewrite tape_reads_app.
    pose proof (tape_reads_queue b a []) as H. rewrite app_nil_r in H.
    rewrite H. cbn. auto.
Qed.

Lemma iter_wr_app {X} (wr : N -> X -> wres * X) ws1 ws2 : forall x,
  iter_wr wr (ws1 ++ ws2) x =
    let '(ys1, x1) := iter_wr wr ws1 x in
    let '(ys2, x2) := iter_wr wr ws2 x1 in (ys1 ++ ys2, x2).
Proof.
  induction ws1 as [|w ws1 IH]; intros x; cbn.
  - destruct (iter_wr wr ws2 x); reflexivity.
  - destruct (wr w x) as [y x1]. rewrite IH.
    destruct (iter_wr wr ws1 x1) as [ys1 x2]. destruct (iter_wr wr ws2 x2). reflexivity.
Qed.

Lemma tape_writes_app ws1 ws2 t :
  tape_writes (ws1 ++ ws2) t =
    let '(xs1, t1) := tape_writes ws1 t in
    let '(xs2, t2) := tape_writes ws2 t1 in (xs1 ++ xs2, t2).
Proof. apply iter_wr_app. Qed.

(* space_left is exact: exactly [tape_space_left t] writes are accepted, the next one is refused *)
Lemma tape_space_left_exact ws w t : length ws = tape_space_left t ->
  exists t', tape_writes (ws ++ [w]) t = (repeat WOk (length ws) ++ [WOutOfSpace], t') /\
    tape_space_left t' = 0.
Proof.
  unfold tape_space_left. intros H.
  rewrite tape_writes_app, tape_writes_ok by lia.
  cbn. rewrite H, skipn_all. cbn. eexists; split; reflexivity.
Qed.
