(* Proofs/Backend_vec.v -- Vec / SmallVec refine the abstract stack; iterator adapters refine the
   abstract queue of the wrapped iterator's items up to its first None; callback adapters pass
   every word to the callback exactly once and in order. *)
From CV Require Import Model.Backend Proofs.Backend_tape.
Open Scope nat_scope.
Set Default Timeout 30.
Local Arguments Nat.ltb : simpl never.
Local Arguments Nat.leb : simpl never.

(* ------------------------------------------------------------------ Vec *)

Lemma vec_read_nil : vec_read [] = (RNone, []).
Proof. reflexivity. Qed.

Lemma vec_read_snoc v w : vec_read (v ++ [w]) = (RSome w, v).
Proof.
  unfold vec_read. destruct (v ++ [w]) eqn:E.
  - destruct v; discriminate.
  - rewrite <- E, last_snoc, removelast_snoc. reflexivity.
Qed.

(* refinement to the abstract stack [stack_of_vec v] (head = top) *)
Lemma vec_write_stack w v : vec_write w v = (WOk, v ++ [w]) /\ stack_of_vec (v ++ [w]) = w :: stack_of_vec v.
Proof. split; [reflexivity|]. unfold stack_of_vec. now rewrite rev_app_distr. Qed.

Lemma vec_read_stack v :
  match stack_of_vec v with
  | [] => vec_read v = (RNone, v)
  | w :: s => exists v', vec_read v = (RSome w, v') /\ stack_of_vec v' = s
  end.
Proof.
  unfold stack_of_vec. destruct v as [|x v] using rev_ind.
  - reflexivity.
  - rewrite rev_app_distr. cbn. exists v. split; [apply vec_read_snoc|reflexivity].
Qed.

Definition vec_reads : nat -> vec -> list rres * vec := iter_rd vec_read.
Definition vec_writes : list N -> vec -> list wres * vec := iter_wr vec_write.

Lemma vec_writes_spec ws : forall v, vec_writes ws v = (repeat WOk (length ws), v ++ ws).
Proof.
  induction ws as [|w ws IH]; intros v; cbn.
  - now rewrite app_nil_r.
  - unfold vec_writes in IH. rewrite IH, <- app_assoc. reflexivity.
Qed.

Lemma vec_reads_spec ws : forall v, vec_reads (length ws) (v ++ ws) = (map RSome (rev ws), v).
Proof.
  induction ws as [|w ws IH] using rev_ind; intros v; cbn.
  - now rewrite app_nil_r.
  - rewrite app_length, Nat.add_comm, rev_app_distr. cbn.
    rewrite app_assoc, vec_read_snoc. unfold vec_reads in IH. rewrite IH. reflexivity.
Qed.

(* LIFO *)
Lemma vec_lifo ws v :
  vec_writes ws v = (repeat WOk (length ws), v ++ ws) /\
  vec_reads (length ws) (v ++ ws) = (map RSome (rev ws), v).
Proof. split; [apply vec_writes_spec|apply vec_reads_spec]. Qed.

(* extend = the writes one by one *)
Lemma vec_extend_writes ws v : snd (vec_extend ws v) = snd (vec_writes ws v).
Proof. now rewrite vec_writes_spec. Qed.

(* remaining is exact; end-of-data is sticky *)
Lemma vec_remaining_exact v :
  vec_reads (S (vec_remaining v)) v = (map RSome (rev v) ++ [RNone], []).
Proof.
  unfold vec_remaining. replace (S (length v)) with (length v + 1) by lia.
  unfold vec_reads. rewrite iter_rd_app.
  pose proof (vec_reads_spec v []) as H. cbn in H. unfold vec_reads in H. rewrite H. reflexivity.
Qed.

Lemma vec_read_none v v' : vec_read v = (RNone, v') -> v = [] /\ v' = [].
Proof. destruct v; cbn; intros H; inversion H; auto. Qed.

(* seek *)
Lemma vec_seek_pos v : vec_seek (vec_pos v) v = (SOk, v).
Proof. unfold vec_seek, vec_pos. now rewrite Nat.leb_refl, firstn_all. Qed.

Lemma vec_seek_truncates p v : p <= length v ->
  vec_seek p v = (SOk, firstn p v) /\ vec_pos (firstn p v) = p.
Proof.
  intros H. unfold vec_seek, vec_pos. rewrite (proj2 (Nat.leb_le _ _) H), firstn_length_le by assumption.
  auto.
Qed.

Lemma vec_seek_refuses p v : length v < p -> vec_seek p v = (SErr, v).
Proof.
  intros H. unfold vec_seek. now replace (p <=? length v) with false by (symmetry; apply Nat.leb_gt; lia).
Qed.

(* ------------------------------------------------------------------ Fuse and the iterator adapters *)

Lemma fuse_len_rest f : fuse_len f = length (fuse_rest f).
Proof.
  destruct f as [[s|]]; cbn; [|reflexivity].
  induction s as [|[x|] s IH]; cbn; auto.
Qed.

(* refinement to the abstract queue [fuse_rest f] *)
Lemma fuse_next_spec f :
  match fuse_rest f with
  | [] => exists f', fuse_next f = (None, f') /\ fuse_rest f' = [] /\ fuse_next f' = (None, f')
  | x :: r => exists f', fuse_next f = (Some x, f') /\ fuse_rest f' = r
  end.
Proof.
  destruct f as [[s|]]; cbn.
  - destruct s as [|[x|] s]; cbn; eexists; repeat split.
  - eexists; repeat split.
Qed.

(* the first None fuses: afterwards the wrapped iterator is never asked again *)
Lemma fuse_next_none f f' : fuse_next f = (None, f') -> fuse_next f' = (None, f') /\ fuse_rest f' = [].
Proof.
  destruct f as [[s|]]; cbn.
  - destruct s as [|[x|] s]; cbn; intros H; inversion H; subst; auto.
  - intros H; inversion H; subst; auto.
Qed.

Lemma fallible_iter_read_spec f :
  match fuse_rest f with
  | [] => exists f', fallible_iter_read f = (RNone, f') /\ fuse_rest f' = [] /\ fallible_iter_read f' = (RNone, f')
  | x :: r => exists f', fallible_iter_read f = (rres_of_item_fallible x, f') /\ fuse_rest f' = r
  end.
Proof.
  pose proof (fuse_next_spec f) as H. unfold fallible_iter_read.
  destruct (fuse_rest f) as [|x r].
  - destruct H as (f' & H1 & H2 & H3). exists f'. rewrite H1, H3. auto.
  - destruct H as (f' & H1 & H2). exists f'. rewrite H1. destruct x; auto.
Qed.

Lemma infallible_iter_read_spec f :
  match fuse_rest f with
  | [] => exists f', infallible_iter_read f = (RNone, f') /\ fuse_rest f' = [] /\ infallible_iter_read f' = (RNone, f')
  | x :: r => exists f', infallible_iter_read f = (rres_of_item_infallible x, f') /\ fuse_rest f' = r
  end.
Proof.
  pose proof (fuse_next_spec f) as H. unfold infallible_iter_read.
  destruct (fuse_rest f) as [|x r].
  - destruct H as (f' & H1 & H2 & H3). exists f'. rewrite H1, H3. auto.
  - destruct H as (f' & H1 & H2). exists f'. rewrite H1. destruct x; auto.
Qed.

(* all items in order, then end-of-data; remaining = number of items *)
Lemma iter_reads_exact (rd : fuse -> rres * fuse) (conv : item -> rres) :
  (forall f, match fuse_rest f with
             | [] => exists f', rd f = (RNone, f') /\ fuse_rest f' = [] /\ rd f' = (RNone, f')
             | x :: r => exists f', rd f = (conv x, f') /\ fuse_rest f' = r
             end) ->
  forall f, exists f', iter_rd rd (S (iter_remaining f)) f = (map conv (fuse_rest f) ++ [RNone], f')
                       /\ fuse_rest f' = [] /\ rd f' = (RNone, f').
Proof.
  intros Hrd f. unfold iter_remaining. rewrite fuse_len_rest.
  remember (fuse_rest f) as q eqn:E. revert f E.
  induction q as [|x q IH]; intros f E; cbn.
  - specialize (Hrd f). rewrite <- E in Hrd. destruct Hrd as (f' & H1 & H2 & H3).
    exists f'. rewrite H1. auto.
  - pose proof (Hrd f) as H. rewrite <- E in H. destruct H as (f1 & H1 & H2).
    rewrite H1. destruct (IH f1 (eq_sym H2)) as (f' & H3 & H4 & H5).
    exists f'. cbn in H3. rewrite H3. auto.
Qed.

(* ------------------------------------------------------------------ callback adapters *)

Lemma fallible_cb_write_log w cb :
  cb_log (snd (fallible_cb_write w cb)) = cb_log cb ++ [w] /\
  fst (fallible_cb_write w cb) =
    (let e := hd 0%Z (cb_script cb) in if Z.eqb e 0 then WOk else WErr e) /\
  cb_script (snd (fallible_cb_write w cb)) = tl (cb_script cb).
Proof.
  unfold fallible_cb_write, cb_call. destruct cb as [l [|e r]]; cbn; auto.
Qed.

Lemma infallible_cb_write_log w cb :
  infallible_cb_write w cb = (WOk, {| cb_log := cb_log cb ++ [w]; cb_script := cb_script cb |}).
Proof. reflexivity. Qed.

Lemma infallible_cb_writes ws : forall cb,
  iter_wr infallible_cb_write ws cb =
    (repeat WOk (length ws), {| cb_log := cb_log cb ++ ws; cb_script := cb_script cb |}).
Proof.
  induction ws as [|w ws IH]; intros [l sc]; cbn.
  - now rewrite app_nil_r.
  - rewrite IH. cbn. now rewrite <- app_assoc.
Qed.

Lemma firstn_pad n : forall (r : list Z) m, n <= m ->
  firstn n (r ++ repeat 0%Z m) = firstn n (r ++ repeat 0%Z n).
Proof.
  induction n as [|n IH]; intros r m H; [reflexivity|].
  destruct r as [|x r].
  - destruct m as [|m]; [lia|]. cbn. f_equal. apply (IH [] m). lia.
  - cbn. f_equal. rewrite (IH r m) by lia. symmetry. apply (IH r (S n)). lia.
Qed.

(* every word is handed to the callback exactly once, in order, whatever it answers; the answers
   are returned verbatim (the script, then Ok forever) *)
Lemma fallible_cb_writes_log ws : forall cb,
  cb_log (snd (iter_wr fallible_cb_write ws cb)) = cb_log cb ++ ws /\
  fst (iter_wr fallible_cb_write ws cb) =
    map (fun e => if Z.eqb e 0 then WOk else WErr e)
        (firstn (length ws) (cb_script cb ++ repeat 0%Z (length ws))).
Proof.
  induction ws as [|w ws IH]; intros cb; cbn [iter_wr length].
  - cbn. now rewrite app_nil_r.
  - destruct (fallible_cb_write w cb) as [y cb1] eqn:E.
    pose proof (fallible_cb_write_log w cb) as (H1 & H2 & H3). rewrite E in H1, H2, H3. cbn in H1, H2, H3.
    destruct (iter_wr fallible_cb_write ws cb1) as [ys cb2] eqn:E2.
    destruct (IH cb1) as [H4 H5]. rewrite E2 in H4, H5. cbn [fst snd] in *.
    rewrite H4, H1, <- app_assoc. split; [reflexivity|].
    rewrite H5, H2, H3. destruct (cb_script cb) as [|e r].
    + cbn. reflexivity.
    + cbn [hd tl app firstn map]. f_equal. f_equal. symmetry. apply firstn_pad. lia.
Qed.
