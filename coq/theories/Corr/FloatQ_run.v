(* Corr/FloatQ_run.v -- runs an integer-encoded float-quantisation case on Model/FloatQ.v.
   Mirror of harness/src/fam_floatq.rs (format documented in lib/fam_floatq.py). *)
From Coq Require Import ZArith NArith List Bool.
From Flocq Require Import Core IEEE754.BinarySingleNaN.
From Flocq Require IEEE754.Binary IEEE754.Bits.
From CV Require Import Corr.Parse Model.FloatQ.
Open Scope Z_scope.

Definition FQ_ERR := -1.
Definition FQ_PANICKED := -7.

Definition f32_of_bits := fq_f32_of_bits.
Definition f64_of_bits := fq_f64_of_bits.

Definition fq_relabel (s : Z) : Z := 3 * s + 10.

Definition out_table (t : table) : list Z :=
  Z.of_nat (length t) :: flat_map (fun e => let '(s, c, p) := e in [s; nZ c; nZ p]) t.

Definition out_enc (r : option (N * N)) : list Z :=
  match r with
  | Some (c, p) => [1; nZ c; nZ p]
  | None => [0]
  end.

Definition out_dec (e : Z * N * N) : list Z := let '(s, c, p) := e in [s; nZ c; nZ p].

Definition relabel_table (t : table) : table :=
  map (fun e => let '(s, c, p) := e in (fq_relabel s, c, p)) t.

Section Run.
Variables prec emax : Z.
Context (Hprec : Prec_gt_0 prec) (Hmax : Prec_lt_emax prec emax).
Variable of_bits : Z -> binary_float prec emax.
(* validation of the `_perfect` constructor (sums in binary64) *)
Variable perfect_validate : N -> list (binary_float prec emax) -> bool.

Definition run_fmt (pb P : N) (wbits : list Z) (has_norm normb flags : Z) (syms quants fixed : list Z) : list Z :=
  let ws := map of_bits wbits in
  let norm := if Z.eqb has_norm 0 then None else Some (of_bits normb) in
  let n := length ws in
  let fl := zN flags in
  let tb := match fq_fast_cdf prec emax Hprec Hmax pb P ws norm with
            | FqOk cdf => fq_table_of_ext pb (fq_extend pb P cdf)
            | _ => None
            end in
  (* E *)
  let secE :=
    match fq_fast_cdf prec emax Hprec Hmax pb P ws norm with
    | FqErr => [FQ_ERR]
    | FqPanic => [FQ_PANICKED]
    | FqOk _ =>
        0 :: match tb with
             | None => [FQ_PANICKED]
             | Some t =>
                 out_table t
                 ++ flat_map (fun s => out_enc (tbl_enc t s)) syms
                 ++ flat_map (fun q => out_dec (tbl_dec t (zN q))) quants
             end
    end in
  (* V *)
  let secV :=
    if N.testbit fl 0 then
      match fq_fast_cdf prec emax Hprec Hmax pb P ws norm with
      | FqErr => [FQ_ERR; FQ_ERR] ++ (if N.leb pb 16 then [FQ_ERR; FQ_ERR] else [])
      | FqPanic => [FQ_PANICKED; FQ_PANICKED] ++ (if N.leb pb 16 then [FQ_PANICKED; FQ_PANICKED] else [])
      | FqOk _ =>
          if N.testbit fl 4 || N.testbit fl 5 then
            (* wrong number of symbols: every non-contiguous constructor must refuse; the
               contiguous lookup model takes no symbols and is unaffected *)
            match tb with
            | None => [PANIC]
            | Some t =>
                [FQ_ERR; FQ_ERR]
                ++ (if N.leb pb 16 then
                      (0 :: out_table t ++ flat_map (fun q => out_dec (tbl_dec t (zN q))) quants) ++ [FQ_ERR]
                    else [])
            end
          else
          match tb with
          | None =>
              [0; FQ_PANICKED; FQ_ERR] ++ (if N.leb pb 16 then [0; FQ_PANICKED; FQ_PANICKED] else [])
          | Some t =>
              let rt := relabel_table t in
              let dq := flat_map (fun q => out_dec (tbl_dec rt (zN q))) quants in
              (0 :: out_table rt ++ dq)
              ++ (0 :: flat_map (fun e => out_enc (Some (snd (fst e), snd e))) rt ++ [0])
              ++ (if N.leb pb 16 then
                    (0 :: out_table t ++ flat_map (fun q => out_dec (tbl_dec t (zN q))) quants)
                    ++ (0 :: out_table rt ++ dq)
                  else [])
          end
      end
    else [] in
  (* L *)
  let secL :=
    match fq_lazy_new prec emax Hprec Hmax pb P ws norm with
    | FqErr => [FQ_ERR]
    | FqPanic => [FQ_PANICKED]
    | FqOk m =>
        0 :: flat_map (fun s => match fq_lazy_enc prec emax Hprec Hmax pb P m (zN s) with
                                | FqOk r => out_enc r
                                | _ => [FQ_PANICKED]
                                end) syms
          ++ flat_map (fun q => match fq_lazy_dec prec emax Hprec Hmax pb P m (zN q) with
                                | FqOk (s, c, p) => [nZ s; nZ c; nZ p]
                                | _ => [FQ_PANICKED]
                                end) quants
          ++ (if N.testbit fl 2 && N.leb P 12 then
                (* the sweep over all quantiles, run-length encoded: by C05 it is the eager table *)
                match tb with
                | Some t => Z.of_nat (length t)
                            :: flat_map (fun e => let '(s, c, p) := e in [s; nZ c; nZ p; nZ p]) t
                | None => [FQ_PANICKED]
                end
              else [])
    end in
  (* Pf *)
  let secP :=
    if N.testbit fl 1 then
      if perfect_validate pb ws && N.leb (N.of_nat n) (2 ^ P) then [0; 1] else [FQ_ERR]
    else [] in
  (* X *)
  let secX :=
    if N.testbit fl 3 then
      match fq_validate_fixed pb P (map (fun z => trunc pb (zN z)) fixed) with
      | None => [FQ_ERR]
      | Some cdf =>
          0 :: match fq_table_of_ext pb (fq_extend pb P cdf) with
               | Some t => out_table t
               | None => [FQ_PANICKED]
               end
      end
    else [] in
  secE ++ secV ++ secL ++ secP ++ secX.

End Run.

Definition run_floatq (inp : list Z) : list Z :=
  match inp with
  | fk :: pb :: P :: r =>
      let '(wbits, r1) := read_list r in
      match r1 with
      | has_norm :: normb :: flags :: r2 =>
          let '(syms, r3) := read_list r2 in
          let '(quants, r4) := read_list r3 in
          let fixed := if N.testbit (zN flags) 3 then fst (read_list r4) else [] in
          if Z.eqb fk 0 then
            run_fmt 24 128 _ _ f32_of_bits
              (fun pb ws => fq_perfect_validate 24 128 53 1024 _ _ pb ws)
              (zN pb) (zN P) wbits has_norm normb flags syms quants fixed
          else
            run_fmt 53 1024 _ _ f64_of_bits
              (fun pb ws => fq_perfect_validate 53 1024 53 1024 _ _ pb ws)
              (zN pb) (zN P) wbits has_norm normb flags syms quants fixed
      | _ => [PANIC]
      end
  | _ => [PANIC]
  end.
