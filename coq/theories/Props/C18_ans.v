(* Props/C18_ans.v -- size and emptiness queries of the ANS coder. Statements only. *)
From CV Require Import Base.Bits Model.EModel Model.Ans Proofs.Ans_extra Proofs.Ans_binary.
Open Scope N_scope.

Theorem C18_ans_num_words : forall c a, ans_num_words c a = N.of_nat (length (ans_words c a)).
Proof. exact ans_num_words_exact. Qed.

Theorem C18_ans_is_empty : forall c a,
  wf_cfg c -> ans_inv c a -> (ans_is_empty a = true <-> ans_words c a = []).
Proof. exact ans_is_empty_exact. Qed.

(* payload bits of a coder loaded from raw binary data = size of that data *)
Theorem C18_ans_valid_bits : forall c data,
  wf_cfg c -> Forall (fun w => w < 2 ^ WB c) data ->
  ans_num_valid_bits c (ans_from_binary c data) = WB c * N.of_nat (length data).
Proof. intros c data Hc Hd. exact (proj2 (proj2 (proj2 (ans_binary_roundtrip c Hc data Hd)))). Qed.

Print Assumptions C18_ans_num_words.
Print Assumptions C18_ans_is_empty.
Print Assumptions C18_ans_valid_bits.
