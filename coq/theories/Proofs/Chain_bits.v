(* Proofs/Chain_bits.v -- the compressed side of the chain coder: the bit buffer
   [hc] with its leading-1 marker.  [chain_take] (decode) and [chain_put] (encode)
   are mutually inverse; neither mentions a model or the remainders. *)
From CV Require Import Base.Bits Model.EModel Model.Chain.
From Coq Require Import ZifyBool ZifyN.
Open Scope N_scope.
Set Default Timeout 30.

Definition wordsok (c : ccfg) (l : list N) : Prop := Forall (fun w => w < 2 ^ cWB c) l.
Definition headok (c : ccfg) (h : N) : Prop := 1 <= h /\ h < 2 ^ cWB c.

Section Bits.
Variable c : ccfg.
Variable P : N.
Hypothesis Hwf : wf_ccfg c P.

Let W := cWB c.

Lemma P_pos : 0 < P. Proof. destruct Hwf; assumption. Qed.
Lemma P_le_W : P <= W. Proof. unfold W. destruct Hwf as (? & ? & ? & ?). lia. Qed.
Lemma P_le_PB : P <= cPB c. Proof. destruct Hwf as (? & ? & ? & ?). lia. Qed.

Lemma W_split : 2 ^ W = 2 ^ (W - P) * 2 ^ P.
Proof. apply pow2_split. apply P_le_W. Qed.

Lemma one_shl_P : P <> W -> shl W 1 P = 2 ^ P.
Proof.
  intros Hne. unfold shl. rewrite shiftl_mul, N.mul_1_l. apply trunc_small.
  apply pow2_lt. pose proof P_le_W. lia.
Qed.

Lemma one_shl_WP : shl W 1 (W - P) = 2 ^ (W - P).
Proof.
  unfold shl. rewrite shiftl_mul, N.mul_1_l. apply trunc_small.
  apply pow2_lt. pose proof P_pos. pose proof P_le_W. lia.
Qed.

(* the quantile handed to the model fits the Probability type *)
Lemma trunc_PB_small q : q < 2 ^ P -> trunc (cPB c) q = q.
Proof.
  intros Hq. apply trunc_small. eapply N.lt_le_trans; [exact Hq|]. apply pow2_le, P_le_PB.
Qed.

(* ---------- truncation-free forms ---------- *)
Definition take_i (cm : list N) (h : N) : option (N * list N * N) :=
  if P =? W then match cm with [] => None | w :: cm' => Some (w, cm', h) end
  else if h <? 2 ^ P then
         match cm with
         | [] => None
         | w :: cm' => Some (w mod 2 ^ P, cm', h * 2 ^ (W - P) + w / 2 ^ P)
         end
       else Some (h mod 2 ^ P, cm, h / 2 ^ P).

Definition put_i (q : N) (cm : list N) (h : N) : list N * N :=
  if P =? W then (q :: cm, h)
  else if h <? 2 ^ (W - P) then (cm, h * 2 ^ P + q)
       else ((h mod 2 ^ (W - P)) * 2 ^ P + q :: cm, h / 2 ^ (W - P)).

Lemma take_eq_i cm h : headok c h -> wordsok c cm -> chain_take c P cm h = take_i cm h.
Proof.
  intros [Hh1 Hh2] Hcm. unfold chain_take, take_i. fold W.
  destruct (N.eqb_spec P W) as [HPW|HPW]; cbn [orb].
  - destruct cm; reflexivity.
  - rewrite (one_shl_P HPW).
    destruct (N.ltb_spec h (2 ^ P)) as [Hlt|Hge].
    + destruct cm as [|w cm']; [reflexivity|].
      apply Forall_cons_iff in Hcm; destruct Hcm as [Hw _]. fold W in Hw.
      f_equal. f_equal. rewrite shr_div. unfold shl. rewrite shiftl_mul, trunc_small.
      * apply lor_disjoint. apply div_lt_upper; [apply pow2_pos|]. rewrite <- W_split. exact Hw.
      * rewrite W_split. clear - Hlt. pnia.
    + rewrite shr_div. reflexivity.
Qed.

Lemma shl_high_bits h q : h < 2 ^ W -> q < 2 ^ P ->
  N.lor (shl W h P) q = (h mod 2 ^ (W - P)) * 2 ^ P + q.
Proof.
  intros Hh Hq. unfold shl, trunc. rewrite shiftl_mul.
  rewrite W_split at 1.
  rewrite N.mul_mod_distr_r by apply pow2_nz.
  apply lor_disjoint. exact Hq.
Qed.

Lemma put_eq_i q cm h : headok c h -> q < 2 ^ P -> chain_put c P q cm h = put_i q cm h.
Proof.
  intros [Hh1 Hh2] Hq. unfold chain_put, put_i. fold W.
  destruct (N.eqb_spec P W) as [HPW|HPW]; cbn [negb andb]; [reflexivity|].
  rewrite one_shl_WP.
  destruct (N.ltb_spec h (2 ^ (W - P))) as [Hlt|Hge].
  - f_equal. unfold shl. rewrite shiftl_mul, trunc_small.
    + apply lor_disjoint. exact Hq.
    + rewrite W_split. clear - Hlt. pnia.
  - rewrite shr_div. rewrite (shl_high_bits h q Hh2 Hq). reflexivity.
Qed.

(* ---------- what one take / put does to the invariants ---------- *)
Lemma take_i_ok cm h q cm' h' :
  headok c h -> wordsok c cm -> take_i cm h = Some (q, cm', h') ->
  q < 2 ^ P /\ headok c h' /\ wordsok c cm'.
Proof.
  intros [Hh1 Hh2] Hcm. unfold take_i. fold W in Hh2.
  destruct (N.eqb_spec P W) as [HPW|HPW].
  - destruct cm as [|w r]; [discriminate|]. intros H; inversion H; subst q cm' h'.
    apply Forall_cons_iff in Hcm; destruct Hcm as [Hw Hr]. fold W in Hw. rewrite HPW.
    split; [exact Hw|]. split; [split; assumption|exact Hr].
  - destruct (N.ltb_spec h (2 ^ P)) as [Hlt|Hge].
    + destruct cm as [|w r]; [discriminate|]. intros H; inversion H; subst q cm' h'.
      apply Forall_cons_iff in Hcm; destruct Hcm as [Hw Hr]. fold W in Hw.
      split; [apply N.mod_lt, pow2_nz|]. split; [|exact Hr].
      assert (Hd : w / 2 ^ P < 2 ^ (W - P)).
      { apply div_lt_upper; [apply pow2_pos|]. rewrite <- W_split. exact Hw. }
      unfold headok. fold W. rewrite W_split. split; [clear - Hh1; pnia|].
      assert ((h + 1) * 2 ^ (W - P) <= 2 ^ P * 2 ^ (W - P)) by (apply N.mul_le_mono_r; lia).
      plia.
    + intros H; inversion H; subst q cm' h'.
      split; [apply N.mod_lt, pow2_nz|]. split; [|exact Hcm].
      unfold headok. fold W. split.
      * apply div_ge_lower; [apply pow2_pos|]. lia.
      * pose proof (div_le_self h (2 ^ P)). lia.
Qed.

Lemma put_i_ok q cm h :
  headok c h -> wordsok c cm -> q < 2 ^ P ->
  headok c (snd (put_i q cm h)) /\ wordsok c (fst (put_i q cm h)).
Proof.
  intros [Hh1 Hh2] Hcm Hq. unfold put_i. fold W in Hh2.
  destruct (N.eqb_spec P W) as [HPW|HPW]; cbn [fst snd].
  - split; [split; assumption|]. constructor; [|exact Hcm]. fold W. rewrite <- HPW. exact Hq.
  - destruct (N.ltb_spec h (2 ^ (W - P))) as [Hlt|Hge]; cbn [fst snd].
    + split; [|exact Hcm]. unfold headok. fold W. rewrite W_split. split; [clear - Hh1; pnia|].
      assert ((h + 1) * 2 ^ P <= 2 ^ (W - P) * 2 ^ P) by (apply N.mul_le_mono_r; lia).
      plia.
    + split.
      * unfold headok. fold W. split.
        -- apply div_ge_lower; [apply pow2_pos|]. lia.
        -- pose proof (div_le_self h (2 ^ (W - P))). lia.
      * constructor; [|exact Hcm]. fold W. rewrite W_split.
        assert (Hm : h mod 2 ^ (W - P) < 2 ^ (W - P)) by (apply N.mod_lt, pow2_nz).
        assert ((h mod 2 ^ (W - P) + 1) * 2 ^ P <= 2 ^ (W - P) * 2 ^ P) by (apply N.mul_le_mono_r; lia).
        plia.
Qed.

(* ---------- the two inverse laws ---------- *)
Lemma take_put_i q cm h :
  headok c h -> q < 2 ^ P ->
  let '(cm', h') := put_i q cm h in take_i cm' h' = Some (q, cm, h).
Proof.
  intros [Hh1 Hh2] Hq. unfold put_i. fold W in Hh2.
  destruct (N.eqb_spec P W) as [HPW|HPW].
  - unfold take_i. destruct (N.eqb_spec P W); [reflexivity|contradiction].
  - destruct (N.ltb_spec h (2 ^ (W - P))) as [Hlt|Hge]; unfold take_i;
      destruct (N.eqb_spec P W) as [?|_]; try contradiction.
    + (* absorbed into the buffer: the decoder takes it from the buffer *)
      destruct (N.ltb_spec (h * 2 ^ P + q) (2 ^ P)) as [Hx|_]; [clear - Hh1 Hx; pnia|].
      rewrite mod_mul_add_small, div_mul_add_small by exact Hq. reflexivity.
    + (* a word was written: the decoder reads it back *)
      assert (Hd : h / 2 ^ (W - P) < 2 ^ P).
      { apply div_lt_upper; [apply pow2_pos|]. rewrite N.mul_comm, <- W_split. exact Hh2. }
      destruct (N.ltb_spec (h / 2 ^ (W - P)) (2 ^ P)) as [_|?]; [|lia].
      rewrite mod_mul_add_small, div_mul_add_small by exact Hq.
      f_equal. f_equal.
      rewrite (div_mod_eq h (2 ^ (W - P))) at 3 by apply pow2_nz. lia.
Qed.

Lemma put_take_i cm h q cm' h' :
  headok c h -> wordsok c cm ->
  take_i cm h = Some (q, cm', h') -> put_i q cm' h' = (cm, h).
Proof.
  intros [Hh1 Hh2] Hcm. unfold take_i. fold W in Hh2.
  destruct (N.eqb_spec P W) as [HPW|HPW].
  - destruct cm as [|w r]; [discriminate|]. intros H; inversion H; subst q cm' h'.
    unfold put_i. destruct (N.eqb_spec P W); [reflexivity|contradiction].
  - destruct (N.ltb_spec h (2 ^ P)) as [Hlt|Hge].
    + destruct cm as [|w r]; [discriminate|]. intros H; inversion H; subst q cm' h'.
      apply Forall_cons_iff in Hcm; destruct Hcm as [Hw _]. fold W in Hw.
      assert (Hd : w / 2 ^ P < 2 ^ (W - P)).
      { apply div_lt_upper; [apply pow2_pos|]. rewrite <- W_split. exact Hw. }
      unfold put_i. destruct (N.eqb_spec P W) as [?|_]; [contradiction|].
      destruct (N.ltb_spec (h * 2 ^ (W - P) + w / 2 ^ P) (2 ^ (W - P))) as [Hx|_]; [clear - Hh1 Hx; set (d := w / 2 ^ P) in *; clearbody d; pnia|].
      rewrite mod_mul_add_small, div_mul_add_small by exact Hd.
      f_equal. f_equal. rewrite (div_mod_eq w (2 ^ P)) at 3 by apply pow2_nz. lia.
    + intros H; inversion H; subst q cm' h'.
      unfold put_i. destruct (N.eqb_spec P W) as [?|_]; [contradiction|].
      assert (Hd : h / 2 ^ P < 2 ^ (W - P)).
      { apply div_lt_upper; [apply pow2_pos|]. rewrite <- W_split. exact Hh2. }
      destruct (N.ltb_spec (h / 2 ^ P) (2 ^ (W - P))) as [_|?]; [|lia].
      f_equal. rewrite (div_mod_eq h (2 ^ P)) at 3 by apply pow2_nz. lia.
Qed.

(* ---------- machine-level statements ---------- *)
Lemma chain_take_ok cm h q cm' h' :
  headok c h -> wordsok c cm -> chain_take c P cm h = Some (q, cm', h') ->
  q < 2 ^ P /\ headok c h' /\ wordsok c cm'.
Proof. intros Hh Hcm. rewrite (take_eq_i cm h Hh Hcm). apply take_i_ok; assumption. Qed.

Lemma chain_put_ok q cm h cm' h' :
  headok c h -> wordsok c cm -> q < 2 ^ P -> chain_put c P q cm h = (cm', h') ->
  headok c h' /\ wordsok c cm'.
Proof.
  intros Hh Hcm Hq. rewrite (put_eq_i q cm h Hh Hq). intros E.
  pose proof (put_i_ok q cm h Hh Hcm Hq) as H. rewrite E in H. exact H.
Qed.

Lemma chain_take_put q cm h cm' h' :
  headok c h -> wordsok c cm -> q < 2 ^ P ->
  chain_put c P q cm h = (cm', h') -> chain_take c P cm' h' = Some (q, cm, h).
Proof.
  intros Hh Hcm Hq E.
  destruct (chain_put_ok q cm h cm' h' Hh Hcm Hq E) as [Hh' Hcm'].
  rewrite (take_eq_i cm' h' Hh' Hcm').
  rewrite (put_eq_i q cm h Hh Hq) in E.
  pose proof (take_put_i q cm h Hh Hq) as H. rewrite E in H. exact H.
Qed.

Lemma chain_put_take cm h q cm' h' :
  headok c h -> wordsok c cm ->
  chain_take c P cm h = Some (q, cm', h') -> chain_put c P q cm' h' = (cm, h).
Proof.
  intros Hh Hcm E.
  destruct (chain_take_ok cm h q cm' h' Hh Hcm E) as (Hq & Hh' & Hcm').
  rewrite (put_eq_i q cm' h' Hh' Hq).
  rewrite (take_eq_i cm h Hh Hcm) in E.
  exact (put_take_i cm h q cm' h' Hh Hcm E).
Qed.

(* running out of data: exactly when the backend is empty and the buffer holds
   fewer than P bits; nothing else is consulted *)
Lemma chain_take_none cm h :
  chain_take c P cm h = None <-> cm = [] /\ (P = W \/ h < shl W 1 P).
Proof.
  unfold chain_take. fold W.
  destruct (N.eqb_spec P W) as [HPW|HPW]; cbn [orb].
  - destruct cm; split; try discriminate; intuition congruence.
  - destruct (N.ltb_spec h (shl W 1 P)) as [Hlt|Hge].
    + destruct cm; split; try discriminate; intuition congruence.
    + split; [discriminate|]. intros [_ [?|?]]; [contradiction|lia].
Qed.

(* put only pushes onto the backend; what lies underneath is irrelevant *)
Lemma chain_put_frame q cm h :
  exists pushed, forall base,
    chain_put c P q (cm ++ base) h = (pushed ++ cm ++ base, snd (chain_put c P q cm h))
    /\ fst (chain_put c P q cm h) = pushed ++ cm.
Proof.
  unfold chain_put.
  destruct (negb (P =? cWB c) && (h <? shl (cWB c) 1 (cWB c - P))).
  - exists []. intros base. cbn. auto.
  - destruct (P =? cWB c).
    + exists [q]. intros base. cbn. auto.
    + eexists [_]. intros base. cbn. auto.
Qed.

End Bits.
