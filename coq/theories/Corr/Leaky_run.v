(* Corr/Leaky_run.v -- runs an integer-encoded leaky-quantizer case on Model/Leaky.v.
   Mirror of harness/src/fam_leaky.rs; format described in lib/fam_leaky.py.

   Model input = [dbg; K; s1; v1; ...; sK; vK] ++ case     (prefix = what the harness
   OBSERVED: build profile and the run-length encoded table of non_leaky values)
   case        = [symb; sgn; pb; P; lo; hi; dkind; n; params(n)...] ++ ops *)
From CV Require Import Corr.Parse Model.Leaky.
Open Scope Z_scope.

Definition ABORT : Z := -999998.
Definition TIMEOUT : Z := -999997.
Definition E_NONE : Z := -1.
Definition E_PANIC : Z := -5.

(* ---- predecessor lookup in the run-length encoded table (balanced tree) *)
Inductive bst := Leaf | Node (l : bst) (k : Z) (v : N) (r : bst).

Fixpoint bst_build (fuel n : nat) (l : list (Z * N)) : bst * list (Z * N) :=
  match fuel with
  | O => (Leaf, l)
  | S f =>
      match n with
      | O => (Leaf, l)
      | _ =>
          let nl := Nat.div2 n in
          let '(lt, l1) := bst_build f nl l in
          match l1 with
          | [] => (lt, [])
          | (k, v) :: l2 =>
              let '(rt, l3) := bst_build f (n - nl - 1) l2 in
              (Node lt k v rt, l3)
          end
      end
  end.

Fixpoint bst_pred (t : bst) (x : Z) (acc : N) : N :=
  match t with
  | Leaf => acc
  | Node l k v r => if k <=? x then bst_pred r x v else bst_pred l x acc
  end.

Fixpoint read_pairs (k : nat) (l : list Z) : list (Z * N) * list Z :=
  match k with
  | O => ([], l)
  | S k' => match l with
            | s :: v :: r => let '(t, rest) := read_pairs k' r in ((s, zN v) :: t, rest)
            | _ => ([], [])
            end
  end.

Fixpoint sortedb (prev : N) (l : list (Z * N)) : bool :=
  match l with
  | [] => true
  | (_, v) :: r => (prev <=? v)%N && sortedb v r
  end.

(* the oracle hypotheses on the observed table: monotone, bounded by free_weight *)
Definition hyp_ok (fw : N) (tbl : list (Z * N)) : bool :=
  sortedb 0%N tbl && forallb (fun e => (snd e <=? fw)%N) tbl.

(* ---- results *)
Inductive rout := Out (l : list Z) | RAbort | RTimeout.

Definition rcons (h : list Z) (r : rout) : rout :=
  match r with Out l => Out (h ++ l) | x => x end.

(* ---- run-length compression of record sequences (st, s, c, p) *)
Definition rec4 := (Z * Z * Z * Z)%type.

(* arithmetic-progression runs for tables: a record extends the run (count, st, s0, c0, p)
   iff it has the same st and p, the next symbol and the left cumulative c0 + count * p *)
Fixpoint ap_runs (l : list rec4) (cur : option (Z * rec4)) : list (Z * rec4) :=
  match l with
  | [] => match cur with Some r => [r] | None => [] end
  | (st, s, cu, p) :: r =>
      match cur with
      | None => ap_runs r (Some (1, (st, s, cu, p)))
      | Some (n, (st0, s0, c0, p0)) =>
          if (st =? st0) && (p =? p0) && (s =? s0 + n) && (cu =? c0 + n * p0)
          then ap_runs r (Some (n + 1, (st0, s0, c0, p0)))
          else (n, (st0, s0, c0, p0)) :: ap_runs r (Some (1, (st, s, cu, p)))
      end
  end.

(* runs of identical records for quantile sweeps *)
Fixpoint eq_runs (l : list rec4) (cur : option (Z * rec4)) : list (Z * rec4) :=
  match l with
  | [] => match cur with Some r => [r] | None => [] end
  | (st, s, cu, p) :: r =>
      match cur with
      | None => eq_runs r (Some (1, (st, s, cu, p)))
      | Some (n, (st0, s0, c0, p0)) =>
          if (st =? st0) && (p =? p0) && (s =? s0) && (cu =? c0)
          then eq_runs r (Some (n + 1, (st0, s0, c0, p0)))
          else (n, (st0, s0, c0, p0)) :: eq_runs r (Some (1, (st, s, cu, p)))
      end
  end.

Definition out_runs (rs : list (Z * rec4)) : list Z :=
  Z.of_nat (length rs) ::
  flat_map (fun e => let '(n, (st, s, cu, p)) := e in [n; st; s; cu; p]) rs.

Definition rec_enc (s : Z) (r : eres) : rec4 :=
  match r with
  | EOk cu p => (0, s, nZ cu, nZ p)
  | ENone => (E_NONE, s, 0, 0)
  | EPanic => (E_PANIC, s, 0, 0)
  end.

(* Before the repair of finding F16 a zero probability could end up inside NonZero (debug
   builds abort: std's unsafe precondition check is a non-unwinding panic; release builds carry
   the zero along).  The model now panics there (Proofs/Leaky_nonzero.v), so the DAbort branches
   below are dead; they are kept so that a return of the defect shows up as a mismatch. *)
Inductive drec := DRec (r : rec4) | DAbort | DTimeout.
Definition rec_dec (dbg : bool) (r : dres) : drec :=
  match r with
  | DOk s cu p => if dbg && (p =? 0)%N then DAbort else DRec (0, s, nZ cu, nZ p)
  | DPanic => DRec (E_PANIC, 0, 0, 0)
  | DDiverged => DTimeout
  end.

(* float -> Symbol cast of the hint: kind 0 = integer-valued float, 1 = NaN,
   2 = +inf, 3 = -inf, 4 = v + 0.5 (truncation towards zero) *)
Definition hint_val (c : lcfg) (kind v : Z) : Z :=
  match kind with
  | 0 => v
  | 1 => 0
  | 2 => smax c
  | 3 => smin c
  | _ => if 0 <=? v then v else v + 1
  end.

Definition tbl_recs (l : list (Z * N * N)) : list rec4 :=
  map (fun e => let '(s, cu, p) := e in (0, s, nZ cu, nZ p)) l.

Fixpoint enc_all (c : lcfg) (dbg : bool) (lo hi : Z) (nl : Z -> N) (n : nat) (s : Z) : list rec4 :=
  match n with
  | O => []
  | S n' => rec_enc s (lq_enc c dbg lo hi nl s) :: enc_all c dbg lo hi nl n' (s + 1)
  end.

Section Run.
Variables (c : lcfg) (dbg : bool) (lo hi : Z) (nl : Z -> N) (skipdec : bool).

(* None = abort / timeout seen *)
Fixpoint dec_all (n : nat) (q : N) (a b cc d m : Z) : list rec4 * option rout :=
  match n with
  | O => ([], None)
  | S n' =>
      let h := cc + ((a * nZ q + b) / d) mod m in
      match rec_dec dbg (lq_quantile c dbg lo hi nl h q) with
      | DRec r => let '(l, e) := dec_all n' (q + 1)%N a b cc d m in (r :: l, e)
      | DAbort => ([], Some RAbort)
      | DTimeout => ([], Some RTimeout)
      end
  end.

Fixpoint leaky_loop (fuel : nat) (l : list Z) : rout :=
  match fuel with
  | O => Out [0]
  | S f =>
    match l with
    | [] => Out [0]                  (* number of cdf evaluations off the boundaries *)
    | 1 :: s :: r =>
        let '(st, _, cu, p) := rec_enc s (lq_enc c dbg lo hi nl s) in
        rcons [st; cu; p] (leaky_loop f r)
    | 2 :: q :: hk :: hv :: r =>
        if skipdec then leaky_loop f r else
        match rec_dec dbg (lq_quantile c dbg lo hi nl (hint_val c hk hv) (zN q)) with
        | DRec (st, s, cu, p) => rcons [st; s; cu; p] (leaky_loop f r)
        | DAbort => RAbort
        | DTimeout => RTimeout
        end
    | 3 :: a :: b :: cc :: d :: m :: r =>
        if skipdec then leaky_loop f r else
        match dec_all (N.to_nat (2 ^ PR c)) 0%N a b cc d m with
        | (recs, None) => rcons (out_runs (eq_runs recs None)) (leaky_loop f r)
        | (_, Some e) => e
        end
    | 4 :: r =>
        match lq_table c dbg lo hi nl with
        | None => rcons [E_PANIC] (leaky_loop f r)
        | Some t =>
            if dbg && existsb (fun e => (snd e =? 0)%N) t then RAbort
            else rcons (Z.of_nat (length t) :: out_runs (ap_runs (tbl_recs t) None)) (leaky_loop f r)
        end
    | 6 :: r =>
        let n := Z.to_nat (hi - lo + 1) in
        rcons (out_runs (ap_runs (enc_all c dbg lo hi nl n lo) None)) (leaky_loop f r)
    | _ => Out [PANIC]
    end
  end.
End Run.

Definition run_leaky (inp : list Z) : list Z :=
  match inp with
  | dbgz :: k :: r0 =>
      let dbg := negb (dbgz =? 0) in
      let '(tbl, r1) := read_pairs (Z.to_nat k) r0 in
      match r1 with
      | symb :: sg :: pb :: p :: lo :: hi :: dkind :: r2 =>
          let c := {| SYMB := zN symb; sgn := negb (sg =? 0); PB := zN pb; PR := zN p |} in
          let '(_, ops) := read_list r2 in
          match lq_new c lo hi with
          | None => [dbgz; E_PANIC]
          | Some fw =>
              if (symb =? 64) || (dkind =? -1) then [dbgz; nZ fw] else   (* constructor only *)
              let t := fst (bst_build 64 (length tbl) tbl) in
              let nl := fun x => bst_pred t x 0%N in
              let hyp := hyp_ok fw tbl in
              let skipdec := negb (dkind =? 0) && negb hyp in
              let hdr := [dbgz; nZ fw; if hyp then 1 else 0] in
              match leaky_loop c dbg lo hi nl skipdec (length ops) ops with
              | Out l => hdr ++ l
              | RAbort => [ABORT]
              | RTimeout => [TIMEOUT]
              end
          end
      | _ => [PANIC]
      end
  | _ => [PANIC]
  end.
