(* Props/C12_range_bits.v -- C12 for the range coder in bits (real logarithms). Statements only. *)
From CV Require Import Base.Bits Model.EModel Model.Range Model.RangeSpec Proofs.Range_spec Proofs.Range_extra
  Proofs.Ans_size_real Proofs.Range_size_real.
From Coq Require Import Reals.
Open Scope R_scope.

(* bits of the sealed stream after n symbols
     <= 2 * WordBits + 1 + sum_i (P_i - log2 p_i) + sum_i log2 (1 + 2^-(StateBits - WordBits - P_i)) *)
Theorem C12_range_bits : forall c msg,
  wf_rcfg c -> msg_ok c msg -> (N.of_nat (length msg) < 2 ^ USZ)%N ->
  exists tr ws, msg_triples msg = Some tr /\ range_compress c msg = ROk ws /\
    RN (rWB c * N.of_nat (length ws)) <= 2 * RN (rWB c) + 1 + info_bits tr + roverhead_bits c tr.
Proof. intros c msg Hc. exact (range_size_bits c Hc msg). Qed.

Print Assumptions C12_range_bits.
