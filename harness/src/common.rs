//! Shared helpers: integer-list reader, explicit table models.
use constriction::stream::model::{DecoderModel, EncoderModel, EntropyModel};
use constriction::BitArray;
use core::marker::PhantomData;
use num_traits::AsPrimitive;

pub type Int = i128;

pub struct Reader<'a> {
    pub v: &'a [Int],
    pub i: usize,
}

impl<'a> Reader<'a> {
    pub fn new(v: &'a [Int]) -> Self {
        Self { v, i: 0 }
    }
    pub fn next(&mut self) -> Int {
        let x = self.v[self.i];
        self.i += 1;
        x
    }
    pub fn u(&mut self) -> u64 {
        self.next() as u64
    }
    pub fn us(&mut self) -> usize {
        self.next() as usize
    }
    pub fn done(&self) -> bool {
        self.i >= self.v.len()
    }
    pub fn list(&mut self) -> Vec<Int> {
        let n = self.us();
        (0..n).map(|_| self.next()).collect()
    }
}

/// raw table: (symbol, left cumulative, probability)
pub type RawTable = Vec<(i64, u64, u64)>;

pub struct RawModel {
    pub p: usize,
    pub t: RawTable,
}

pub fn read_models(r: &mut Reader) -> Vec<RawModel> {
    let n = r.us();
    (0..n)
        .map(|_| {
            let p = r.us();
            let k = r.us();
            let t = (0..k)
                .map(|_| {
                    let s = r.next() as i64;
                    let c = r.u();
                    let q = r.u();
                    (s, c, q)
                })
                .collect();
            RawModel { p, t }
        })
        .collect()
}

/// An entropy model given by an explicit table, injected through the crate's public
/// traits. Mirrors `table_model` in Model/EModel.v: encoding = first entry with that
/// symbol; decoding = last entry whose left cumulative is <= quantile (entries are sorted).
#[derive(Clone, Copy)]
pub struct TM<'a, Pr, const P: usize> {
    pub t: &'a [(i64, u64, u64)],
    ph: PhantomData<Pr>,
}

impl<'a, Pr, const P: usize> TM<'a, Pr, P> {
    pub fn new(t: &'a [(i64, u64, u64)]) -> Self {
        Self { t, ph: PhantomData }
    }
}

impl<'a, Pr: BitArray, const P: usize> EntropyModel<P> for TM<'a, Pr, P> {
    type Symbol = i64;
    type Probability = Pr;
}

impl<'a, Pr: BitArray, const P: usize> EncoderModel<P> for TM<'a, Pr, P>
where
    u64: AsPrimitive<Pr>,
{
    fn left_cumulative_and_probability(
        &self,
        symbol: impl core::borrow::Borrow<i64>,
    ) -> Option<(Pr, Pr::NonZero)> {
        let s = *symbol.borrow();
        for &(sym, c, p) in self.t {
            if sym == s {
                let pr: Pr = p.as_();
                return Some((c.as_(), pr.into_nonzero().expect("table probability is zero")));
            }
        }
        None
    }
}

impl<'a, Pr: BitArray, const P: usize> DecoderModel<P> for TM<'a, Pr, P>
where
    u64: AsPrimitive<Pr>,
    Pr: Into<u64>,
{
    fn quantile_function(&self, quantile: Pr) -> (i64, Pr, Pr::NonZero) {
        let q: u64 = quantile.into();
        let mut cur = self.t[0];
        for &e in &self.t[1..] {
            if e.1 <= q {
                cur = e;
            } else {
                break;
            }
        }
        let pr: Pr = cur.2.as_();
        (cur.0, cur.1.as_(), pr.into_nonzero().expect("table probability is zero"))
    }
}
