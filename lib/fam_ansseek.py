"""Family `ansseek` (C07, stack coder): see harness/src/fam_ansseek.rs for the format."""
from gen_models import pick_precision, gen_table, enc_models

FAMILY = "ansseek"
RUNNER = ("Corr.AnsSeek_run", "run_ansseek")
MENU = [(8, 16, 8), (8, 32, 8), (16, 32, 16), (32, 64, 32), (32, 64, 16)]


def gen_seek(rng):
    wb, sb, pb = rng.choice(MENU)
    ms = []
    for _ in range(rng.randint(1, 3)):
        P = pick_precision(rng, pb, wb, sb)
        ms.append((P, gen_table(rng, P)))
    n = rng.choice([0, 1, 2, 3, rng.randint(0, 60)])
    msg = []
    for _ in range(n):
        m = rng.randrange(len(ms))
        msg.append((m, rng.choice(ms[m][1])[0]))
    kind = rng.choice([0, 0, 1, 1, 2, 3, 3, 4, 4, 5])
    ops = []
    cur = n          # which snapshot the decoder currently corresponds to (None if unknown)
    lowest = n       # for the Vec backend: data above the lowest position reached is gone
    for _ in range(rng.randint(1, 40)):
        r = rng.random()
        if r < 0.35:
            i = rng.choice([0, 1, n, max(0, n - 1), rng.randint(0, n)])
            i = min(i, n)
            ops += [1, i]
            if rng.random() < 0.3:          # repeated seek to the same place
                ops += [1, i]
            cur = i
        elif r < 0.8:
            if cur is not None and cur > 0 and rng.random() < 0.9:
                cur -= 1
                ops += [2, msg[cur][0]]
            else:
                ops += [2, rng.randrange(len(ms))]   # decoding beyond / with another model
                cur = None
        elif r < 0.85:
            # out-of-range or arbitrary position
            ops += [3, rng.choice([n + 5, 10 ** 6, 2 ** 40, rng.randint(0, n + 3)]), rng.randrange(1 << sb)]
            cur = None
        elif r < 0.93:
            ops += [4]
        else:
            ops += [5]
    flat = []
    for m, s in msg:
        flat += [m, s]
    return [wb, sb, pb] + enc_models(ms) + [n] + flat + [kind] + ops


def _parse(inp):
    i = 3
    nm = inp[i]; i += 1
    ms = []
    for _ in range(nm):
        P, k = inp[i], inp[i + 1]
        ms.append((P, [tuple(inp[i + 2 + 3 * j:i + 5 + 3 * j]) for j in range(k)]))
        i += 2 + 3 * k
    n = inp[i]; i += 1
    msg = [(inp[i + 2 * j], inp[i + 2 * j + 1]) for j in range(n)]
    i += 2 * n
    kind = inp[i]; i += 1
    return ms, msg, kind, inp[i:]


def oracle_C07(inp, out):
    """After seeking to snapshot i, decoding with the models of symbols i-1, i-2, ... returns
    exactly those symbols; positions beyond the data are refused; pos() reports the snapshot."""
    if any(x in (-999999, -999998, -999997, -999996) for x in out):
        return "panic/abort/timeout"
    ms, msg, kind, ops = _parse(inp)
    n = len(msg)
    try:
        snaps = [(out[2 * j], out[2 * j + 1]) for j in range(n + 1)]
        o = 2 * (n + 1)
        cur = n
        maxpos = snaps[n][0]      # length of the bulk
        lowest = maxpos
        if kind in (3, 5):
            return _oracle_reversed(ms, msg, ops, snaps, out, o)
        if kind == 4:
            # a plain cursor again, but over all words: those of the state lie beyond the bulk
            maxpos += inp[1] // inp[0]
        j = 0
        while j < len(ops):
            op = ops[j]
            if op == 1:
                i = ops[j + 1]
                ok_expected = snaps[i][0] <= (lowest if kind == 2 else maxpos)
                if ok_expected and out[o] != 0:
                    return "seek to a recorded position was refused"
                if out[o] == 0:
                    cur = i
                    if kind == 2:
                        lowest = snaps[i][0]
                j += 2; o += 1
            elif op == 2:
                m = ops[j + 1]
                if cur is not None and cur > 0 and msg[cur - 1][0] == m:
                    if out[o] != msg[cur - 1][1]:
                        return "after seek: decoded %d, expected %d" % (out[o], msg[cur - 1][1])
                    cur -= 1
                    if kind == 2:
                        lowest = min(lowest, snaps[cur][0])
                else:
                    cur = None
                    if kind == 2:
                        lowest = -1      # a Vec backend may have consumed words we cannot track
                j += 2; o += 1
            elif op == 3:
                p = ops[j + 1]
                # (Vec backend: after an untracked decode the remaining length is unknown (-1): no claim)
                if out[o] == 0 and not (kind == 2 and lowest < 0) and p > (lowest if kind == 2 else maxpos):
                    return "seek beyond the data was accepted"
                if out[o] == 0:
                    cur = None
                    if kind == 2:
                        lowest = min(lowest, p)
                j += 3; o += 1
            elif op == 4:
                if cur is not None and (out[o], out[o + 1]) != snaps[cur]:
                    return "pos() differs from the snapshot the decoder is at"
                j += 1; o += 2
            elif op == 5:
                j += 1; o += 1
            else:
                return None
    except IndexError:
        return "malformed output"
    return None


def _oracle_reversed(ms, msg, ops, snaps, out, o):
    """reversed decoder: seeking to a recorded snapshot always succeeds and decoding then yields
    the symbols pushed before it, newest first"""
    n = len(msg)
    cur = n
    j = 0
    while j < len(ops):
        op = ops[j]
        if op == 1:
            if out[o] != 0:
                return "reversed decoder: seek to a recorded position was refused"
            cur = ops[j + 1]
            j += 2; o += 1
        elif op == 2:
            m = ops[j + 1]
            if cur is not None and cur > 0 and msg[cur - 1][0] == m:
                if out[o] != msg[cur - 1][1]:
                    return "reversed decoder: decoded %d, expected %d" % (out[o], msg[cur - 1][1])
                cur -= 1
            else:
                cur = None
            j += 2; o += 1
        elif op == 3:
            if out[o] == 0:
                cur = None
            j += 3; o += 1
        elif op == 4:
            if cur is not None and out[o + 1] != snaps[cur][1]:
                return "reversed decoder: pos() state differs from the snapshot"
            j += 1; o += 2
        elif op == 5:
            j += 1; o += 1
        else:
            return None
    return None


ORACLES = {"C07": oracle_C07}


def nontrivial(inp, out, prop=None):
    ms, msg, kind, ops = _parse(inp)
    return len(msg) >= 3 and ops.count(1) >= 1 and ops.count(2) >= 1


def describe(inp):
    ms, msg, kind, ops = _parse(inp)
    return "ansseek W=%d S=%d PB=%d models=%s n=%d kind=%d ops=%d ints" % (
        inp[0], inp[1], inp[2], [(P, len(t)) for P, t in ms], len(msg), kind, len(ops))
