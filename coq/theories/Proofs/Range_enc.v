(* Proofs/Range_enc.v -- the concrete encoder (wrapping State arithmetic, held-back words)
   refines the big-number specification: relation Renc of DESIGN.md Appendix A, one lemma
   per transition of notes/range-coding.md, and the seal. *)
From CV Require Import Base.Bits Model.EModel Model.Range Model.RangeSpec.
From CV Require Import Proofs.Range_base Proofs.Range_spec.
From Coq Require Import ZifyBool ZifyN.
Open Scope N_scope.
Set Default Timeout 30.

Section Enc.
Variable c : rcfg.
Hypothesis Hc : wf_rcfg c.

Local Notation W := (rWB c).
Local Notation SB := (rSB c).
Local Notation B := (Bw c).
Local Notation T := (Tw c).
Local Notation M := (Mw c).

Definition Renc (e : renc) (s : sstate) : Prop :=
  e_range e = sR s /\ e_lower e < M /\
  sL s = val_rev W (held_rev c (e_sit e) ++ e_bulk e) * M + e_lower e /\
  sk s = length (held_rev c (e_sit e) ++ e_bulk e) /\
  Forall (fun w => w < B) (e_bulk e) /\
  match e_sit e with
  | Normal => e_lower e + e_range e < M
  | Inverted n w => M <= e_lower e + e_range e /\ w + 2 <= B /\ 1 <= n
  end.

Lemma renc_new_refines : Renc (renc_new c) (spec_init c).
Proof.
  unfold Renc, renc_new, spec_init. cbn [e_bulk e_lower e_range e_sit sL sR sk held_rev app length].
  rewrite val_rev_nil, smax_eq. fold M. pose proof (M_pos c).
  repeat split; try lia. constructor.
Qed.

(* ---------- held-back words ---------- *)
Lemma held_length n w : 1 <= n -> length (held_rev c (Inverted n w)) = N.to_nat n.
Proof.
  intros Hn. cbn [held_rev]. rewrite app_length, repeat_length. cbn [length]. lia.
Qed.

Lemma held_lt n w : w < B -> Forall (fun x => x < B) (held_rev c (Inverted n w)).
Proof.
  intros Hw. cbn [held_rev]. apply Forall_app. split.
  - apply Forall_forall. intros x Hx. apply repeat_spec in Hx. subst x.
    unfold Bw. pose proof (pow2_pos W). lia.
  - repeat constructor. assumption.
Qed.

Lemma flush_nocarry n w b : flush_held w (wmax c) n b = held_rev c (Inverted n w) ++ b.
Proof.
  unfold flush_held. cbn [held_rev]. rewrite wmax_eq. unfold Bw.
  rewrite <- app_assoc. reflexivity.
Qed.

Lemma flush_length f x n b : 1 <= n -> length (flush_held f x n b) = (N.to_nat n + length b)%nat.
Proof.
  intros Hn. unfold flush_held. rewrite app_length, repeat_length. cbn [length]. lia.
Qed.

Lemma flush_lt f x n b : f < B -> x < B -> Forall (fun w => w < B) b ->
  Forall (fun w => w < B) (flush_held f x n b).
Proof.
  intros Hf Hx Hb. unfold flush_held. apply Forall_app. split.
  - apply Forall_forall. intros y Hy. apply repeat_spec in Hy. subst y. assumption.
  - constructor; assumption.
Qed.

(* the carry: w, B-1, .., B-1  + 1  =  w+1, 0, .., 0 *)
Lemma flush_carry_val n w b :
  val_rev W (flush_held (w + 1) 0 n b) = val_rev W (held_rev c (Inverted n w) ++ b) + 1.
Proof.
  unfold flush_held. cbn [held_rev].
  set (j := N.to_nat (n - 1)).
  rewrite <- app_assoc. cbn [app].
  rewrite !val_rev_app, !repeat_length, !val_rev_cons.
  rewrite val_rev_repeat_zero, val_rev_repeat_max.
  pose proof (Bp_pos W j). nia.
Qed.

(* ---------- top word arithmetic ---------- *)
Lemma top_of_sum D y : ((D * M + y) / T) mod B = (y mod M) / T.
Proof.
  pose proof (T_pos c) as HT. pose proof (B_pos c) as HB.
  rewrite (M_eq_TB c Hc).
  replace (D * (T * B) + y) with (y + (D * B) * T) by lia.
  rewrite N.div_add by lia.
  rewrite N.add_mod by lia. rewrite N.mod_mul by lia. rewrite N.add_0_r, N.mod_mod by lia.
  rewrite N.mod_mul_r by lia.
  rewrite (N.mul_comm T), N.div_add by lia.
  rewrite (N.div_small (y mod T)) by (apply N.mod_lt; lia). reflexivity.
Qed.

Lemma div_of_sum D y : (D * M + y) / T = D * B + y / T.
Proof.
  pose proof (T_pos c) as HT.
  rewrite (M_eq_TB c Hc).
  replace (D * (T * B) + y) with (y + (D * B) * T) by lia.
  rewrite N.div_add by lia. lia.
Qed.

(* ---------- part 1 : transitions 1-4 ---------- *)
Lemma part1_refines e s a r1 :
  Renc e s -> 0 < r1 -> a + r1 <= sR s -> sR s < M ->
  exists b1 sit1,
    renc_part1 c e (wadd SB (e_lower e) a) r1 = ROk (b1, sit1) /\
    Renc {| e_bulk := b1; e_lower := wadd SB (e_lower e) a; e_range := r1; e_sit := sit1 |}
         {| sL := sL s + a; sR := r1; sk := sk s |}.
Proof.
  intros (ER & HlM & EL & Ek & Hb & Hsit) Hr1 Hsum HRM.
  unfold renc_part1. fold M.
  destruct (e_sit e) as [|n w] eqn:Esit.
  - (* transition 1: Normal -> Normal *)
    rewrite ER in Hsit.
    assert (Enl : wadd SB (e_lower e) a = e_lower e + a) by (apply wadd_small; fold M; lia).
    rewrite Enl. eexists _, _. split; [reflexivity|].
    unfold Renc. cbn [e_bulk e_lower e_range e_sit sL sR sk held_rev app] in *.
    repeat split; try assumption; lia.
  - destruct Hsit as (Hinv & Hw & Hn). rewrite ER in Hinv.
    assert (HaM : a < M) by lia.
    assert (Hr1M : r1 < M) by lia.
    destruct (N.lt_ge_cases (e_lower e + a) M) as [Hnw|Hwrap].
    + (* lower + scale*cum does not wrap *)
      assert (Enl : wadd SB (e_lower e) a = e_lower e + a) by (apply wadd_small; fold M; assumption).
      rewrite Enl.
      rewrite (wadd_gt_iff SB (e_lower e + a) r1) by (fold M; lia). fold M.
      destruct (N.ltb_spec (e_lower e + a + r1) M) as [Hnorm|Hstill].
      * (* transition 3: Inverted -> Normal, no carry *)
        destruct (N.ltb_spec (e_lower e + a) (e_lower e)) as [Hbad|_]; [lia|].
        eexists _, _. split; [reflexivity|].
        rewrite flush_nocarry.
        unfold Renc. cbn [e_bulk e_lower e_range e_sit sL sR sk held_rev app] in *.
        split; [reflexivity|]. split; [assumption|]. split; [lia|]. split; [assumption|].
        split; [|lia].
        apply Forall_app. split; [apply held_lt; lia|assumption].
      * (* transition 2: Inverted -> Inverted *)
        eexists _, _. split; [reflexivity|].
        unfold Renc. cbn [e_bulk e_lower e_range e_sit sL sR sk] in *.
        repeat split; try assumption; lia.
    + (* transition 4: lower + scale*cum wraps: carry into the held-back words *)
      assert (Enl : wadd SB (e_lower e) a = e_lower e + a - M) by (apply wadd_wrap; fold M; lia).
      rewrite Enl.
      rewrite (wadd_gt_iff SB (e_lower e + a - M) r1) by (fold M; lia). fold M.
      destruct (N.ltb_spec (e_lower e + a - M + r1) M) as [_|Hbad]; [|lia].
      destruct (N.ltb_spec (e_lower e + a - M) (e_lower e)) as [_|Hbad]; [|lia].
      fold B. destruct (N.leb_spec B (w + 1)) as [Hbad|_]; [lia|].
      eexists _, _. split; [reflexivity|].
      unfold Renc. cbn [e_bulk e_lower e_range e_sit sL sR sk held_rev app].
      split; [reflexivity|]. split; [lia|].
      split.
      { change (repeat (2 ^ W - 1) (N.to_nat (n - 1)) ++ [w]) with (held_rev c (Inverted n w)) in EL.
        rewrite flush_carry_val. rewrite EL. nia. }
      split.
      { rewrite flush_length by assumption. rewrite Ek, app_length, held_length by assumption. reflexivity. }
      split; [|lia].
      apply flush_lt; [lia|apply B_pos|assumption].
Qed.

(* ---------- part 2 : transitions 5-7 ---------- *)
Lemma part2_refines e1 s1 :
  Renc e1 s1 -> 0 < sR s1 -> N.of_nat (sk s1) + 1 < 2 ^ USZ ->
  exists e2,
    renc_part2 c (e_bulk e1) (e_sit e1) (e_lower e1) (e_range e1) = ROk e2 /\
    Renc e2 (if sR s1 <? T then {| sL := sL s1 * B; sR := sR s1 * B; sk := Datatypes.S (sk s1) |} else s1).
Proof.
  intros (ER & HlM & EL & Ek & Hb & Hsit) Hr1 Husz.
  unfold renc_part2. rewrite (rthr_eq c Hc), ER.
  destruct (N.ltb_spec (sR s1) T) as [Hlt|Hge].
  2:{ exists e1. split; [destruct e1 as [b0 l0 r0 s0]; cbn [e_bulk e_lower e_range e_sit] in *; rewrite ER; reflexivity|].
      unfold Renc. repeat split; assumption. }
  set (r1 := sR s1) in *. set (nl := e_lower e1) in *.
  pose proof (T_pos c) as HT. pose proof (B_pos c) as HB. pose proof (M_eq_TB c Hc) as EM.
  pose proof (B_ge2 c Hc) as HB2.
  assert (Er2 : shl SB r1 W = r1 * B) by (apply shl_W_small; assumption).
  assert (Elw : trunc W (shr nl (SB - W)) = nl / T) by (apply top_word; assumption).
  assert (El2 : shl SB nl W = (nl mod T) * B) by (rewrite shl_W; apply mulB_mod; assumption).
  rewrite Er2, Elw, El2.
  pose proof (N.div_mod nl T ltac:(lia)) as Enl.
  pose proof (N.mod_lt nl T ltac:(lia)) as Hmod.
  pose proof (top_word_lt c Hc nl HlM) as Hlw.
  assert (Hr2M : r1 * B < M) by (rewrite EM; nia).
  assert (Hl2M : nl mod T * B < M) by (rewrite EM; nia).
  (* the digit equation shared by all three transitions *)
  assert (EL2 : forall D, sL s1 = D * M + nl -> sL s1 * B = (D * B + nl / T) * M + nl mod T * B).
  { intros D E. rewrite E. rewrite EM. nia. }
  destruct (e_sit e1) as [|n w] eqn:Esit.
  - (* from Normal *)
    rewrite ER in Hsit. fold r1 in Hsit.
    rewrite (wadd_gt_iff SB (nl mod T * B) (r1 * B)) by (fold M; nia). fold M.
    cbn [held_rev app] in EL, Ek.
    destruct (N.ltb_spec (nl mod T * B + r1 * B) M) as [Hnorm|Hinv].
    + (* transition 5: Normal -> Normal, the top word is emitted *)
      eexists. split; [reflexivity|].
      unfold Renc. cbn [e_bulk e_lower e_range e_sit sL sR sk held_rev app].
      split; [reflexivity|]. split; [assumption|].
      split; [rewrite val_rev_cons; fold B; apply EL2; assumption|].
      split; [cbn [length]; lia|].
      split; [constructor; assumption|]. assumption.
    + (* transition 6: Normal -> Inverted 1 (top word) *)
      eexists. split; [reflexivity|].
      unfold Renc. cbn [e_bulk e_lower e_range e_sit sL sR sk held_rev app].
      change (N.to_nat (1 - 1)) with 0%nat. cbn [repeat app].
      split; [reflexivity|]. split; [assumption|].
      split; [rewrite val_rev_cons; fold B; apply EL2; assumption|].
      split; [cbn [length]; lia|].
      split; [assumption|].
      split; [assumption|]. split; [|lia].
      (* (lw + 1) * T <= nl + r1 < M = B * T *)
      assert (nl mod T + r1 >= T) by (rewrite EM in Hinv; nia).
      assert ((nl / T + 1) * T < B * T) by (rewrite EM in Hsit; nia).
      nia.
  - (* transition 7: Inverted -> Inverted, one more held-back word (all ones) *)
    destruct Hsit as (Hinv & Hw & Hn). rewrite ER in Hinv. fold r1 nl in Hinv.
    assert (Hlen : length (held_rev c (Inverted n w) ++ e_bulk e1) = (N.to_nat n + length (e_bulk e1))%nat)
      by (rewrite app_length, held_length by assumption; reflexivity).
    assert (Hn1 : n + 1 < 2 ^ USZ) by lia.
    assert (En' : trunc USZ (n + 1) = n + 1) by (apply trunc_small; assumption).
    rewrite En'. destruct (N.eqb_spec (n + 1) 0) as [Hbad|_]; [lia|].
    eexists. split; [reflexivity|].
    (* the top word of lower is B - 1 *)
    assert (Etop : nl / T = B - 1).
    { assert (B - 1 <= nl / T).
      { apply div_ge_lower; [assumption|]. rewrite EM in Hinv. nia. }
      lia. }
    assert (Eheld : held_rev c (Inverted (n + 1) w) = (B - 1) :: held_rev c (Inverted n w)).
    { cbn [held_rev]. replace (N.to_nat (n + 1 - 1)) with (Datatypes.S (N.to_nat (n - 1))) by lia.
      reflexivity. }
    unfold Renc. cbn [e_bulk e_lower e_range e_sit sL sR sk].
    rewrite Eheld. cbn [app].
    split; [reflexivity|]. split; [assumption|].
    split; [rewrite val_rev_cons; fold B; rewrite <- Etop; apply EL2; assumption|].
    split; [cbn [length]; lia|].
    split; [assumption|].
    split; [|split; [assumption|lia]].
    rewrite EM in Hinv |- *. nia.
Qed.

(* ---------- one symbol ---------- *)
Lemma renc_step e s P cum p :
  Renc e s -> SInv c s -> step_ok c (P, cum, p) -> N.of_nat (sk s) + 1 < 2 ^ USZ ->
  exists e', renc_encode c P cum p e = ROk e' /\ Renc e' (spec_step c P cum p s).
Proof.
  intros HR Hs [HP [Hp Hcp]] Husz.
  destruct (scale_bounds c Hc s P Hs HP) as (_ & Hsc2 & Hsc0).
  pose proof HR as (ER & _).
  destruct Hs as (HT & HM & _).
  unfold renc_encode. rewrite shr_div, ER. fold M.
  set (sc := sR s / 2 ^ P) in *.
  assert (Hr1 : 0 < sc * p) by nia.
  assert (Hsum : sc * cum + sc * p <= sR s) by nia.
  destruct (N.leb_spec M (sc * p)) as [Hbad|_]; [lia|].
  destruct (N.eqb_spec (sc * p) 0) as [Hbad|_]; [lia|].
  destruct (N.leb_spec M (sc * cum)) as [Hbad|_]; [lia|].
  destruct (part1_refines e s (sc * cum) (sc * p) HR Hr1 Hsum HM) as (b1 & sit1 & E1 & HR1).
  rewrite E1.
  destruct (part2_refines _ _ HR1) as (e2 & E2 & HR2); cbn [sR sk]; try assumption.
  cbn [e_bulk e_lower e_range e_sit] in E2. rewrite E2.
  exists e2. split; [reflexivity|].
  cbn [sL sR sk] in HR2. unfold spec_step. fold sc. fold T B. exact HR2.
Qed.

(* ---------- whole messages ---------- *)
Fixpoint enc_triples (l : list (N * N * N)) (e : renc) : rres renc :=
  match l with
  | [] => ROk e
  | (P, cum, p) :: r =>
      match renc_encode c P cum p e with
      | ROk e' => enc_triples r e'
      | other => other
      end
  end.

Lemma renc_encode_all_triples l : forall tr e,
  msg_triples l = Some tr -> renc_encode_all c l e = enc_triples tr e.
Proof.
  induction l as [|[m x] r IH]; intros tr e Etr.
  - cbn in Etr. inversion Etr. reflexivity.
  - cbn [msg_triples] in Etr.
    destruct (em_enc m x) as [[cum p]|] eqn:Henc; [|discriminate].
    destruct (msg_triples r) as [tr'|] eqn:Etr'; [|discriminate].
    inversion Etr; subst tr. cbn [renc_encode_all enc_triples].
    unfold renc_encode_sym. rewrite Henc.
    destruct (renc_encode c (em_prec m) cum p e); try reflexivity.
    apply IH. reflexivity.
Qed.

Lemma spec_run_k_le l : forall s, (sk (spec_run c l s) <= sk s + length l)%nat.
Proof.
  induction l as [|[[P cum] p] r IH]; intros s; cbn [spec_run length]; [lia|].
  specialize (IH (spec_step c P cum p s)).
  destruct (spec_step_shape c s P cum p) as (d & [[-> _]|[-> _]] & _ & _ & Ek); rewrite Ek in IH; lia.
Qed.

Lemma enc_triples_refines tr : forall e s,
  Renc e s -> SInv c s -> Forall (step_ok c) tr ->
  N.of_nat (sk s + length tr) < 2 ^ USZ ->
  exists e', enc_triples tr e = ROk e' /\ Renc e' (spec_run c tr s).
Proof.
  induction tr as [|[[P cum] p] r IH]; intros e s HR Hs Htr Husz.
  - exists e. split; [reflexivity|assumption].
  - inversion Htr as [|? ? H1 Hr]; subst. cbn [enc_triples spec_run length] in *.
    destruct (renc_step e s P cum p HR Hs H1) as (e1 & E1 & HR1); [lia|].
    rewrite E1. apply IH; try assumption.
    + apply spec_step_inv; assumption.
    + destruct (spec_step_shape c s P cum p) as (d & [[-> _]|[-> _]] & _ & _ & Ek); rewrite Ek; lia.
Qed.

(* ---------- seal : transition 8 ---------- *)
Lemma seal_refines e s :
  Renc e s -> SInv c s -> sR s <> M - 1 ->
  exists b, renc_seal c e = ROk b /\ rev b = spec_seal_digits c s /\
            (length b = Datatypes.S (sk s) \/ length b = Datatypes.S (Datatypes.S (sk s))).
Proof.
  intros (ER & HlM & EL & Ek & Hb & Hsit) (HTR & HRM & _) Hne.
  pose proof (T_pos c) as HT. pose proof (B_pos c) as HB. pose proof (M_eq_TB c Hc) as EM.
  pose proof (B_ge2 c Hc) as HB2. pose proof (T_lt_M c Hc) as HTM.
  unfold renc_seal. rewrite smax_eq, ER.
  destruct (N.eqb_spec (sR s) (M - 1)) as [Hbad|_]; [contradiction|].
  unfold seal_point_word, seal_upper_word, seal_point. rewrite (rthr_eq c Hc), ?ER.
  set (pt := wadd SB (e_lower e) (T - 1)).
  assert (HptM : pt < M) by apply wadd_lt.
  rewrite (top_word c Hc pt HptM).
  rewrite (top_word c Hc) by apply wadd_lt.
  rewrite wadd_mod. fold M.
  (* the held-back words resolve to a digit list hb with value D' such that
     L + T - 1 = D' * M + pt *)
  assert (Hheld : exists hb,
            match e_sit e with
            | Inverted n w =>
                if pt <? e_lower e then
                  if 2 ^ W <=? w + 1 then RPanic Panic_word_add_overflow
                  else ROk (flush_held (w + 1) 0 n (e_bulk e))
                else ROk (flush_held w (wmax c) n (e_bulk e))
            | Normal => ROk (e_bulk e)
            end = ROk hb /\
            sL s + T - 1 = val_rev W hb * M + pt /\ length hb = sk s /\ Forall (fun w => w < B) hb).
  { destruct (e_sit e) as [|n w] eqn:Esit.
    - rewrite ER in Hsit. cbn [held_rev app] in EL, Ek.
      exists (e_bulk e). split; [reflexivity|].
      assert (Ept : pt = e_lower e + (T - 1)) by (apply wadd_small; fold M; lia).
      split; [rewrite EL, Ept; lia|]. split; [lia|assumption].
    - destruct Hsit as (Hinv & Hw & Hn).
      destruct (N.lt_ge_cases (e_lower e + (T - 1)) M) as [Hnw|Hwrap].
      + assert (Ept : pt = e_lower e + (T - 1)) by (apply wadd_small; fold M; assumption).
        destruct (N.ltb_spec pt (e_lower e)) as [Hbad|_]; [lia|].
        rewrite flush_nocarry. eexists. split; [reflexivity|].
        split; [rewrite EL, Ept; lia|]. split; [lia|].
        apply Forall_app. split; [apply held_lt; lia|assumption].
      + assert (Ept : pt = e_lower e + (T - 1) - M) by (apply wadd_wrap; fold M; lia).
        destruct (N.ltb_spec pt (e_lower e)) as [_|Hbad]; [|lia].
        fold B. destruct (N.leb_spec B (w + 1)) as [Hbad|_]; [lia|].
        eexists. split; [reflexivity|].
        split; [rewrite flush_carry_val, EL, Ept; nia|].
        split; [rewrite flush_length by assumption; rewrite Ek, app_length, held_length by assumption; reflexivity|].
        apply flush_lt; [lia|assumption|assumption]. }
  destruct Hheld as (hb & -> & EPt & Hlen & Hhb).
  (* the seal value and the two tests in terms of the concrete state *)
  assert (Ev : spec_seal_value c s = val_rev W hb * B + pt / T).
  { unfold spec_seal_value. fold T. rewrite EPt. apply div_of_sum. }
  assert (Hpw : pt / T < B) by (apply top_word_lt; assumption).
  assert (Etwo : spec_seal_two c s = ((e_lower e + sR s) mod M / T =? pt / T)).
  { unfold spec_seal_two. fold T B. rewrite Ev.
    rewrite EL. rewrite <- N.add_assoc, top_of_sum.
    rewrite mod_mul_add_small by assumption. reflexivity. }
  assert (Hdig : rev (pt / T :: hb) = digits B (Datatypes.S (sk s)) (spec_seal_value c s)).
  { unfold digits. f_equal. rewrite Ev, <- Hlen.
    change (Datatypes.S (length hb)) with (length (pt / T :: hb)).
    assert (E2 : val_rev W hb * B + pt / T = val_rev W (pt / T :: hb))
      by (rewrite val_rev_cons; reflexivity).
    rewrite E2. symmetry. apply (digits_rev_val W). constructor; assumption. }
  unfold spec_seal_digits. fold B. rewrite Etwo.
  destruct ((e_lower e + sR s) mod M / T =? pt / T).
  - eexists. split; [reflexivity|]. split.
    + cbn [rev]. cbn [rev] in Hdig. rewrite Hdig. reflexivity.
    + right. cbn [length]. lia.
  - eexists. split; [reflexivity|]. split.
    + rewrite app_nil_r. exact Hdig.
    + left. cbn [length]. lia.
Qed.

End Enc.
