(* Model/Uniform.v -- machine-level model of UniformModel<Probability, PRECISION>
   (src/stream/model/uniform.rs, after fix e50109e).  Definitions only.
   Symbols are usize values (N below 2^UB). *)
From CV Require Export Model.MBase.
Open Scope N_scope.

Record umodel := { u_ppb : N;      (* probability_per_bin : Probability::NonZero *)
                   u_last : N }.   (* last_symbol : Probability *)

(* uniform.rs:31-79  UniformModel::new(range: usize) *)
Definition uniform_new (c : mcfg) (range : N) : res umodel :=
  if negb (1 <? range) then Fail E_PANIC else                     (* assert!(range > 1) *)
  nonzero_unchecked UB_uniform_new_range range >>= fun range =>
  csub range 1 >>= fun last_usize =>                              (* usize *)
  let last := trunc (PB c) last_usize in                          (* .as_() *)
  let bound := wsub (PB c) (wpow2 (PB c) (PR c)) 1 in
  if negb ((last <=? bound) && (trunc (UB c) last =? last_usize)) then Fail E_PANIC else
  if PR c =? PB c then
    let q := wsub (UB c) (wpow2 (UB c) (PR c)) range / range in   (* divisor is a NonZero *)
    cadd (PB c) (trunc (PB c) q) 1 >>= fun ppb =>
    nonzero_unchecked UB_uniform_new_ppb ppb >>= fun ppb =>
    Ok {| u_ppb := ppb; u_last := last |}
  else
    cshl1 (PB c) (PR c) >>= fun one_shl =>
    cdiv one_shl (trunc (PB c) range) >>= fun ppb =>
    match into_nonzero ppb with
    | None => Fail E_PANIC                                        (* expect("range <= ...") *)
    | Some ppb => Ok {| u_ppb := ppb; u_last := last |}
    end.

(* uniform.rs:91-119  left_cumulative_and_probability(symbol: usize) *)
Definition uniform_lcp (c : mcfg) (m : umodel) (symbol_usize : N) : res (option (N * N)) :=
  let symbol := trunc (PB c) symbol_usize in
  (* symbol.to_usize() != Some(symbol_usize) *)
  if negb ((symbol <? 2 ^ UB c) && (symbol =? symbol_usize)) then Ok None else
  nz_get (u_ppb m) >>= fun ppb =>
  let lft := wmul (PB c) symbol ppb in
  if symbol <? u_last m then Ok (Some (lft, u_ppb m))
  else if symbol =? u_last m then
    let prob := wsub (PB c) (wpow2 (PB c) (PR c)) lft in
    nonzero_unchecked UB_uniform_lcp_prob prob >>= fun prob => Ok (Some (lft, prob))
  else Ok None.

(* uniform.rs:121-150  quantile_function(quantile: Probability) *)
Definition uniform_quant (c : mcfg) (m : umodel) (quantile : N) : res (N * N * N) :=
  nz_get (u_ppb m) >>= fun ppb =>
  cdiv quantile ppb >>= fun guess =>
  cmod quantile ppb >>= fun remainder =>
  if guess <? u_last m then
    csub quantile remainder >>= fun lft => Ok (trunc (UB c) guess, lft, u_ppb m)
  else
    cmul (PB c) (u_last m) ppb >>= fun lft =>
    let prob := wsub (PB c) (wpow2 (PB c) (PR c)) lft in
    nonzero_unchecked UB_uniform_quant_prob prob >>= fun prob =>
    Ok (trunc (UB c) (u_last m), lft, prob).

(* uniform.rs:152-190  symbol_table() *)
Definition uniform_table_entry (c : mcfg) (m : umodel) (last_symbol symbol : N) : res (Z * N * N) :=
  nz_get (u_ppb m) >>= fun ppb =>
  cmul (PB c) (trunc (PB c) symbol) ppb >>= fun lft =>
  (if negb (symbol =? last_symbol) then Ok (u_ppb m)
   else nonzero_unchecked UB_uniform_table_prob (wsub (PB c) (wpow2 (PB c) (PR c)) lft))
  >>= fun prob => Ok (Z.of_N symbol, lft, prob).

Definition uniform_table (c : mcfg) (m : umodel) : res table :=
  let last_symbol := trunc (UB c) (u_last m) in
  cadd (UB c) last_symbol 1 >>= fun range =>
  mapM (uniform_table_entry c m last_symbol) (iotaN (N.to_nat range)).

(* the coder-facing view; Symbol = usize *)
Definition uniform_emodel (c : mcfg) (m : umodel) : emodel :=
  {| em_prec := PR c;
     em_enc := fun s => if sym_ok (UB c) SyUsize s
                        then enc_of_res (uniform_lcp c m (Z.to_N s)) else None;
     em_dec := fun q => dec_of_res (uniform_quant c m q >>= fun '(s, cu, p) => Ok (Z.of_N s, cu, p)) |}.
