#!/usr/bin/env python3
"""Markdown table of the seeded changes and which checks caught them (from seeded/*/meta.json)."""
import json, os
root = "/verif/seeded"
print("| id | breaks | what it changes | needs to manifest | checks run -> result |")
print("|----|--------|-----------------|-------------------|----------------------|")
for name in sorted(os.listdir(root)):
    p = os.path.join(root, name, "meta.json")
    if not os.path.exists(p):
        continue
    m = json.load(open(p))
    def cut(s, n):
        s = " ".join(str(s).split())
        return (s[:n] + "…") if len(s) > n else s
    res = "; ".join("%s: %s" % kv for kv in sorted(m.get("check_results", {}).items())) or "not run"
    print("| %s | %s | %s | %s | %s |" % (name, m.get("property_broken"), cut(m.get("summary", ""), 150).replace("|", "/"),
                                          cut(m.get("needs_to_manifest", ""), 150).replace("|", "/"), res))
