(* Proofs/Chain_step.v -- one decode_symbol / encode_symbol of the chain coder. *)
From CV Require Import Base.Bits Model.EModel Model.Chain Proofs.Chain_bits Proofs.Chain_rem.
From Coq Require Import ZifyBool ZifyN.
Open Scope N_scope.
Set Default Timeout 30.

Lemma chain_inv_parts c P ch :
  chain_inv c P ch <->
  headok c (hc ch) /\ remok c P (hr ch) /\ wordsok c (comp ch) /\ wordsok c (rems ch).
Proof. unfold chain_inv, headok, remok, wordsok. tauto. Qed.

Lemma chain_eta ch : {| comp := comp ch; rems := rems ch; hc := hc ch; hr := hr ch |} = ch.
Proof. destruct ch; reflexivity. Qed.

Section Step.
Variable c : ccfg.
Variable m : emodel.
Hypothesis Hm : wf_model m.
Let P := em_prec m.
Hypothesis Hwf : wf_ccfg c P.

(* what the model answers for a quantile below 2^P *)
Lemma model_answer q s cum p :
  q < 2 ^ P -> em_dec m q = (s, cum, p) ->
  em_enc m s = Some (cum, p) /\ wf_entry P cum p /\ p < 2 ^ P /\ cum <= q < cum + p.
Proof.
  intros Hq E. pose proof (wfm_dec m Hm q Hq) as H. fold P in H. rewrite E in H.
  destruct H as [Henc Hin]. destruct (wfm_enc m Hm s cum p Henc) as (He & Hp & _).
  auto.
Qed.

(* ---------- decode, then encode the decoded symbol: the coder is restored ---------- *)
Lemma chain_enc_dec ch s ch' :
  chain_inv c P ch -> chain_decode c m ch = Ok (s, ch') ->
  chain_inv c P ch' /\ chain_encode c m s ch' = Ok ch.
Proof.
  intros Hinv. apply chain_inv_parts in Hinv. destruct Hinv as (Hh & Hr & Hcm & Hrm).
  unfold chain_decode. fold P.
  destruct (chain_take c P (comp ch) (hc ch)) as [[[qw cm'] h']|] eqn:Et; [|discriminate].
  destruct (chain_take_ok c P Hwf _ _ _ _ _ Hh Hcm Et) as (Hq & Hh' & Hcm').
  rewrite (trunc_PB_small c P Hwf qw Hq).
  destruct (em_dec m qw) as [[s0 cum] p] eqn:Ed.
  destruct (model_answer qw s0 cum p Hq Ed) as (Henc & He & HpP & Hin).
  rewrite (absorb_eq_i c P Hwf cum p qw (rems ch) (hr ch) He Hin Hr).
  destruct (absorb_i_ok c P Hwf cum p qw (rems ch) (hr ch) He Hin Hr Hrm) as [Hr' Hrm'].
  pose proof (release_absorb_i c P Hwf cum p qw (rems ch) (hr ch) He Hin Hr) as Hback.
  destruct (absorb_i c P cum p qw (rems ch) (hr ch)) as [r' rh'] eqn:Ea. cbn [fst snd] in *.
  intros H; inversion H; subst s0 ch'; clear H.
  split; [apply chain_inv_parts; cbn [comp rems hc hr]; auto|].
  unfold chain_encode. fold P. cbn [comp rems hc hr]. rewrite Henc.
  destruct He as [Hp Hcp].
  destruct (release_eq_i c P Hwf p r' rh' Hp (N.lt_le_incl _ _ HpP) Hr' Hrm') as [-> _].
  rewrite Hback.
  replace (cum + (qw - cum)) with qw by lia.
  rewrite (trunc_PB_small c P Hwf qw Hq).
  rewrite (chain_put_take c P Hwf _ _ _ _ _ Hh Hcm Et).
  rewrite chain_eta. reflexivity.
Qed.

(* ---------- encode, then decode: the symbol comes back, the coder is restored ---------- *)
Lemma chain_dec_enc ch s ch' :
  chain_inv c P ch -> chain_encode c m s ch = Ok ch' ->
  chain_inv c P ch' /\ chain_decode c m ch' = Ok (s, ch).
Proof.
  intros Hinv. apply chain_inv_parts in Hinv. destruct Hinv as (Hh & Hr & Hcm & Hrm).
  unfold chain_encode. fold P.
  destruct (em_enc m s) as [[cum p]|] eqn:Henc; [|discriminate].
  destruct (wfm_enc m Hm s cum p Henc) as (He & HpP & Hdec). fold P in He, HpP.
  pose proof He as [Hp Hcp].
  destruct (release_eq_i c P Hwf p (rems ch) (hr ch) Hp (N.lt_le_incl _ _ HpP) Hr Hrm) as [-> Hrem].
  destruct (release_i c P p (rems ch) (hr ch)) as [[[rem r'] rh']|] eqn:Er; [|discriminate].
  pose proof (Hrem _ _ _ eq_refl) as Hremp.
  destruct (release_i_ok c P Hwf p _ _ _ _ _ Hp HpP Hr Hrm Er) as [Hr' Hrm'].
  assert (Hq : cum + rem < 2 ^ P) by lia.
  rewrite (trunc_PB_small c P Hwf _ Hq).
  destruct (chain_put c P (cum + rem) (comp ch) (hc ch)) as [cm' h'] eqn:Ep.
  destruct (chain_put_ok c P Hwf _ _ _ _ _ Hh Hcm Hq Ep) as [Hh' Hcm'].
  intros H; inversion H; subst ch'; clear H.
  split; [apply chain_inv_parts; cbn [comp rems hc hr]; auto|].
  unfold chain_decode. fold P. cbn [comp rems hc hr].
  rewrite (chain_take_put c P Hwf _ _ _ _ _ Hh Hcm Hq Ep).
  rewrite (trunc_PB_small c P Hwf _ Hq).
  rewrite (Hdec (cum + rem)) by lia.
  assert (Hin : cum <= cum + rem < cum + p) by lia.
  rewrite (absorb_eq_i c P Hwf cum p (cum + rem) r' rh' He Hin Hr').
  rewrite (absorb_release_i c P Hwf cum p (rems ch) (hr ch) rem r' rh' Hp Hr Hrm Er).
  rewrite chain_eta. reflexivity.
Qed.

(* ---------- invariant preservation alone ---------- *)
Lemma chain_decode_inv ch s ch' :
  chain_inv c P ch -> chain_decode c m ch = Ok (s, ch') -> chain_inv c P ch'.
Proof. intros Hi Hd. exact (proj1 (chain_enc_dec ch s ch' Hi Hd)). Qed.

Lemma chain_encode_inv ch s ch' :
  chain_inv c P ch -> chain_encode c m s ch = Ok ch' -> chain_inv c P ch'.
Proof. intros Hi He. exact (proj1 (chain_dec_enc ch s ch' Hi He)). Qed.

(* ---------- the decoded symbol lies in the model's support ---------- *)
Lemma chain_decode_in_support ch s ch' :
  chain_inv c P ch -> chain_decode c m ch = Ok (s, ch') -> exists cum p, em_enc m s = Some (cum, p).
Proof.
  intros Hinv. apply chain_inv_parts in Hinv. destruct Hinv as (Hh & Hr & Hcm & Hrm).
  unfold chain_decode. fold P.
  destruct (chain_take c P (comp ch) (hc ch)) as [[[qw cm'] h']|] eqn:Et; [|discriminate].
  destruct (chain_take_ok c P Hwf _ _ _ _ _ Hh Hcm Et) as (Hq & _).
  rewrite (trunc_PB_small c P Hwf qw Hq).
  destruct (em_dec m qw) as [[s0 cum] p] eqn:Ed.
  destruct (model_answer qw s0 cum p Hq Ed) as (Henc & _).
  destruct (chain_absorb c P cum p qw (rems ch) (hr ch)).
  intros H; inversion H; subst. eauto.
Qed.

(* ---------- no wrap / no debug-build panic on the decode path ---------- *)
Lemma chain_decode_no_overflow ch qw cm' h' :
  chain_inv c P ch -> chain_take c P (comp ch) (hc ch) = Some (qw, cm', h') ->
  let q := trunc (cPB c) qw in
  let '(_, cum, p) := em_dec m q in
  qw < 2 ^ cPB c                                (* quantile.as_() keeps every bit *)
  /\ cum <= q                                   (* quantile - left_sided_cumulative *)
  /\ hr ch * p < 2 ^ cSB c                      (* remainders * probability *)
  /\ hr ch * p + (q - cum) < 2 ^ cSB c.         (* ... + remainder *)
Proof.
  intros Hinv Et. apply chain_inv_parts in Hinv. destruct Hinv as (Hh & Hr & Hcm & Hrm).
  destruct (chain_take_ok c P Hwf _ _ _ _ _ Hh Hcm Et) as (Hq & _).
  cbv zeta. rewrite (trunc_PB_small c P Hwf qw Hq).
  destruct (em_dec m qw) as [[s0 cum] p] eqn:Ed.
  destruct (model_answer qw s0 cum p Hq Ed) as (_ & He & _ & Hin).
  destruct (absorb_no_overflow c P Hwf cum p qw (hr ch) He Hin Hr) as (H1 & H2 & H3).
  split.
  - eapply N.lt_le_trans; [exact Hq|]. apply pow2_le. destruct Hwf as (? & ? & ? & ?). lia.
  - split; [lia|]. split; [exact H1|lia].
Qed.

(* ---------- no wrap on the encode path ---------- *)
Lemma chain_encode_no_overflow ch s cum p :
  chain_inv c P ch -> em_enc m s = Some (cum, p) ->
  p * 2 ^ (cSB c - cWB c - P) < 2 ^ cSB c        (* probability << (State::BITS - Word::BITS - PRECISION) *)
  /\ (hr ch < p * 2 ^ (cSB c - cWB c - P) -> hr ch * 2 ^ cWB c < 2 ^ cSB c)   (* refill shift *)
  /\ (forall x, cum + x mod p < 2 ^ cPB c).     (* left_sided_cumulative + remainder *)
Proof.
  intros Hinv Henc. apply chain_inv_parts in Hinv. destruct Hinv as (Hh & Hr & Hcm & Hrm).
  destruct (wfm_enc m Hm s cum p Henc) as ([Hp Hcp] & HpP & _). fold P in Hcp, HpP.
  pose proof (S_eq c P Hwf) as HS. pose proof (U_eq c P Hwf) as HU.
  pose proof (P_W c P Hwf) as HPW. cbv zeta in HS, HU, HPW.
  set (L := 2 ^ (cSB c - cWB c - P)) in *.
  assert (HL : 0 < L) by apply pow2_pos.
  assert (HpL : p * L * 2 ^ cWB c < 2 ^ cSB c).
  { rewrite HS, HU. pose proof (pow2_pos (cWB c)).
    assert (p * (L * 2 ^ cWB c) < 2 ^ P * (L * 2 ^ cWB c)) by (apply N.mul_lt_mono_pos_r; nia).
    nia. }
  split; [|split].
  - pose proof (pow2_pos (cWB c)). nia.
  - intros Hlt. assert ((hr ch + 1) * 2 ^ cWB c <= p * L * 2 ^ cWB c) by (apply N.mul_le_mono_r; lia).
    nia.
  - intros x. assert (x mod p < p) by (apply N.mod_lt; lia).
    assert (2 ^ P <= 2 ^ cPB c) by (apply pow2_le; destruct Hwf as (? & ? & ? & ?); lia). lia.
Qed.

(* ---------- errors ---------- *)
(* the only failure of decode_symbol is OutOfCompressedData; it occurs exactly when the
   backend is empty and the bit buffer holds fewer than PRECISION bits -- neither the
   model nor the remainders are consulted; the result carries no coder: nothing changed *)
Lemma chain_decode_err ch e :
  chain_decode c m ch = Err e <->
  e = OutOfCompressedData /\ chain_take c P (comp ch) (hc ch) = None.
Proof.
  unfold chain_decode. fold P.
  destruct (chain_take c P (comp ch) (hc ch)) as [[[qw cm'] h']|].
  - destruct (em_dec m (trunc (cPB c) qw)) as [[s0 cum] p].
    destruct (chain_absorb c P cum p (trunc (cPB c) qw) (rems ch) (hr ch)).
    split; [discriminate|]. intros [_ ?]; discriminate.
  - split; [intros H; inversion H; auto|]. intros [-> _]. reflexivity.
Qed.

(* the only failures of encode_symbol: ImpossibleSymbol (the model has no such symbol)
   and OutOfRemainders (a refill is needed and the remainders backend is empty); both
   are decided before anything is written *)
Lemma chain_encode_err ch s e :
  chain_encode c m s ch = Err e <->
  (e = ImpossibleSymbol /\ em_enc m s = None)
  \/ (e = OutOfRemainders /\ exists cum p, em_enc m s = Some (cum, p)
        /\ chain_release c P p (rems ch) (hr ch) = None).
Proof.
  unfold chain_encode. fold P.
  destruct (em_enc m s) as [[cum p]|].
  - destruct (chain_release c P p (rems ch) (hr ch)) as [[[rem r'] rh']|] eqn:Er.
    + destruct (chain_put c P (trunc (cPB c) (cum + rem)) (comp ch) (hc ch)).
      split; [discriminate|]. intros [[_ ?]|[_ (? & ? & H & ?)]]; [discriminate|].
      inversion H; subst. congruence.
    + split.
      * intros H; inversion H. right. split; [reflexivity|]. eauto.
      * intros [[_ ?]|[-> _]]; [discriminate|reflexivity].
  - split.
    + intros H; inversion H. left. auto.
    + intros [[-> _]|[_ (? & ? & ? & _)]]; [reflexivity|discriminate].
Qed.

End Step.
