(* Proofs/Ans_extra.v -- guards (C08), seeking (C07), bounded sinks (C09), queries (C18),
   size (C12), reference form (C06) for the ANS coder. *)
From CV Require Import Base.Bits Model.EModel Model.Ans Proofs.Ans_core Proofs.Ans_lemmas
  Proofs.Ans_words Proofs.Ans_binary Proofs.Ans_history.
From Coq Require Import ZifyBool ZifyN ZifyNat.
Open Scope N_scope.
Set Default Timeout 30.

(* ---------------- guards ---------------- *)
Lemma pop_n_app (l1 l2 : list N) : pop_n (length l1) (l1 ++ l2) = l2.
Proof. induction l1; cbn; auto. Qed.

Lemma ans_guard_roundtrip c a : ans_guard_close c (ans_guard_open c a) = a.
Proof.
  unfold ans_guard_close, ans_guard_open. cbn [bulk st].
  rewrite <- (rev_length (state_chunks c (st a))), pop_n_app. destruct a; reflexivity.
Qed.

Lemma ans_guard_view_words c a : ans_guard_view (ans_guard_open c a) = ans_words c a.
Proof.
  unfold ans_guard_view, ans_guard_open, ans_words. cbn [bulk].
  rewrite rev_app_distr, rev_involutive. reflexivity.
Qed.

Lemma ans_sealed_roundtrip c a a' :
  ans_sealed_open c a = Some a' ->
  ans_sealed_close c a' = a /\ Some (ans_guard_view a') = ans_get_binary c a.
Proof.
  unfold ans_sealed_open, ans_sealed_close, ans_get_binary, ans_guard_view.
  destruct (rev (state_chunks c (st a))) as [|top rest] eqn:E; [discriminate|].
  destruct (top =? 1); [|discriminate]. intros H; inversion H; subst; clear H. cbn [bulk st].
  assert (Hlen : (length (state_chunks c (st a)) - 1 = length rest)%nat).
  { rewrite <- (rev_length (state_chunks c (st a))), E. cbn. lia. }
  rewrite Hlen, pop_n_app. split; [destruct a; reflexivity|].
  rewrite rev_app_distr. reflexivity.
Qed.

(* a failed sealed guard writes nothing: there is no new state at all *)
Lemma ans_sealed_fail c a : ans_sealed_open c a = None -> ans_get_binary c a = None.
Proof.
  unfold ans_sealed_open, ans_get_binary.
  destruct (rev (state_chunks c (st a))) as [|top rest]; [reflexivity|].
  destruct (top =? 1); [discriminate|reflexivity].
Qed.

(* ---------------- seeking ---------------- *)
(* encoding only ever pushes onto the bulk: every earlier bulk is a suffix (= a prefix of the Vec) *)
Lemma ans_encode_bulk_suffix c P cum p a :
  exists extra, bulk (ans_encode c P cum p a) = extra ++ bulk a.
Proof.
  unfold ans_encode. destruct (p <=? shr (st a) (SB c - P)); cbn [bulk].
  - eexists [_]. reflexivity.
  - exists []. reflexivity.
Qed.

Lemma ans_encode_all_bulk_suffix c l : forall a a',
  ans_encode_all c l a = Some a' -> exists extra, bulk a' = extra ++ bulk a.
Proof.
  induction l as [|[m s] r IH]; intros a a' H; cbn in H.
  - inversion H; subst. exists []. reflexivity.
  - unfold ans_encode_sym in H. destruct (em_enc m s) as [[cum p]|]; [|discriminate].
    destruct (IH _ _ H) as [e1 He1].
    destruct (ans_encode_bulk_suffix c (em_prec m) cum p a) as [e2 He2].
    exists (e1 ++ e2). rewrite He1, He2, app_assoc. reflexivity.
Qed.

(* headline for C07 (stack coder): a snapshot taken at ANY point of the encoding, handed to a
   decoder over the FINAL compressed bulk -- whatever that decoder did before -- reproduces the
   coder as it was at the snapshot, exactly. What it then decodes is given by C01. *)
Lemma ans_seek_snapshot c a_k l a_fin :
  ans_encode_all c l a_k = Some a_fin ->
  ans_seek (rev (bulk a_fin)) (ans_pos a_k) = Some a_k.
Proof.
  intros H. destruct (ans_encode_all_bulk_suffix c l a_k a_fin H) as [extra He].
  unfold ans_seek, ans_pos. cbn [fst snd]. rewrite rev_length, He, app_length.
  destruct (N.leb_spec (N.of_nat (length (bulk a_k))) (N.of_nat (length extra + length (bulk a_k))));
    [|lia].
  rewrite Nat2N.id, rev_app_distr.
  rewrite <- (rev_length (bulk a_k)), firstn_app, Nat.sub_diag, firstn_all. cbn [firstn].
  rewrite app_nil_r, rev_involutive. destruct a_k; reflexivity.
Qed.

Lemma ans_seek_refuse buf p : N.of_nat (length buf) < fst p -> ans_seek buf p = None.
Proof. intros H. unfold ans_seek. destruct (N.leb_spec (fst p) (N.of_nat (length buf))); [lia|reflexivity]. Qed.

(* ---------------- bounded sink ---------------- *)
Lemma ans_encode_cap_ok c cap m s a a' :
  ans_encode_cap c cap m s a = EncOk a' -> ans_encode_sym c m s a = Some a'.
Proof.
  unfold ans_encode_cap, ans_encode_sym. destruct (em_enc m s) as [[cum p]|]; [|discriminate].
  destruct (_ && _); [discriminate|]. intros H; inversion H; reflexivity.
Qed.

(* with enough room the bounded coder is the unbounded one *)
Lemma ans_encode_cap_room c cap m s a :
  N.of_nat (length (bulk a)) < cap ->
  ans_encode_cap c cap m s a =
  match ans_encode_sym c m s a with Some a' => EncOk a' | None => EncImpossible end.
Proof.
  intros H. unfold ans_encode_cap, ans_encode_sym. destruct (em_enc m s) as [[cum p]|]; [|reflexivity].
  destruct (N.leb_spec cap (N.of_nat (length (bulk a)))); [lia|].
  rewrite andb_false_r. reflexivity.
Qed.

(* a backend failure happens only when a word had to be written and the sink was full, and it
   never exceeds the capacity *)
Lemma ans_encode_cap_bound c cap m s a a' :
  N.of_nat (length (bulk a)) <= cap ->
  ans_encode_cap c cap m s a = EncOk a' -> N.of_nat (length (bulk a')) <= cap.
Proof.
  unfold ans_encode_cap. destruct (em_enc m s) as [[cum p]|]; [|discriminate].
  unfold ans_encode.
  destruct (N.leb_spec p (shr (st a) (SB c - em_prec m))) as [Hf|Hf]; cbn [andb].
  - destruct (N.leb_spec cap (N.of_nat (length (bulk a)))) as [?|Hroom]; [discriminate|].
    intros _ He; inversion He; subst; cbn [bulk length]. lia.
  - intros Hb He; inversion He; subst; cbn [bulk]. exact Hb.
Qed.

(* ---------------- queries ---------------- *)
Lemma ans_num_words_exact c a : ans_num_words c a = N.of_nat (length (ans_words c a)).
Proof. unfold ans_num_words, ans_words. rewrite app_length, rev_length. lia. Qed.

Lemma state_chunks_nil_iff c s : wf_cfg c -> s < 2 ^ SB c -> (state_chunks c s = [] <-> s = 0).
Proof.
  intros Hc Hs. unfold state_chunks. split.
  - intros H. destruct (N.eq_dec s 0) as [?|Hnz]; [assumption|exfalso].
    assert (Hpos : 0 < s) by lia.
    destruct (chunks_spec c (nchunks c) s Hpos (nchunks_enough c Hc s Hs)) as (top & rest & Hrev & _).
    rewrite H in Hrev. discriminate.
  - intros ->. apply chunks_zero.
Qed.

Lemma ans_is_empty_exact c a :
  wf_cfg c -> ans_inv c a -> (ans_is_empty a = true <-> ans_words c a = []).
Proof.
  intros Hc (Hinv & Hst & _). unfold ans_is_empty, ans_words. rewrite N.eqb_eq. split.
  - intros Hz. rewrite Hz in *.
    destruct Hinv as [->|Hge].
    + rewrite (proj2 (state_chunks_nil_iff c 0 Hc Hst) eq_refl). reflexivity.
    + exfalso. unfold thr in Hge. pose proof (pow2_pos (SB c - WB c)). lia.
  - intros H. apply app_eq_nil in H. destruct H as [_ H].
    apply (state_chunks_nil_iff c (st a) Hc Hst). exact H.
Qed.

(* ---------------- no overflow in decode (C10 / C20) ---------------- *)
Lemma ans_decode_fits c P cum p s :
  wf_cfg c -> 0 < P -> P <= WB c -> wf_entry P cum p -> s < 2 ^ SB c ->
  cum <= s mod 2 ^ P < cum + p ->
  shr s P * p + (s mod 2 ^ P - cum) < 2 ^ SB c.
Proof.
  intros Hc HP0 HPW [Hp Hcp] Hs Hq. rewrite shr_div.
  pose proof (dec_state_bound c Hc P HP0 HPW s cum p Hp Hcp Hs Hq) as Hb.
  rewrite (SB_split_P c Hc P HP0 HPW). assert (p <= 2 ^ P) by lia.
  eapply N.lt_le_trans; [exact Hb|]. rewrite N.mul_comm. apply N.mul_le_mono_l. exact H.
Qed.
