(* Model/Huffman.v -- model of src/symbol/huffman.rs (EncoderHuffmanTree,
   DecoderHuffmanTree) and of the default codebook methods of
   src/symbol/mod.rs:725-755.  Definitions only.

   Weights.  [try_from_probabilities] is generic in [P : Ord + Clone + Add].
   The model is generic in the same way: a type [W] with
     wcmp : W -> W -> comparison     the order of P as BinaryHeap uses it (integers:
                                     N.compare; floats: NonNanFloatCore's derived
                                     PartialOrd = IEEE partial_cmp of the inner float,
                                     -0 = +0.  std's sift-up/down only call [<=], [>=],
                                     so [Ord::cmp] with its expect() is never executed)
     wadd : W -> W -> option W       P::add     (integers: CHECKED addition on a
                                     b-bit type -- debug builds panic, release builds
                                     wrap, the model refuses both: None = Err E_Overflow;
                                     floats: IEEE addition, round to nearest even)
     wnan : W -> bool                is_nan     (integers: false)
   Instances: [enc_build_int b] / [dec_build_int b] below (u8/u32/u64 by
   b = 8/32/64), and Flocq binary32 / binary64 in Model/HuffmanFloat.v.

   BinaryHeap.  std's [BinaryHeap<Reverse<(P, usize)>>] is modelled by its
   SPECIFICATION: a finite collection (a list, order irrelevant) whose [pop]
   removes the minimum under the lexicographic order on (weight, index)
   (derived [Ord] of tuples, reversed by [Reverse]).  That std implements this
   specification is part of the trusted base.  Proofs/Huffman_heap.v shows that
   the list order is irrelevant because indices are unique (no two items ever
   compare Equal).
   A NaN that is created INSIDE the loop by [prob0 + prob1] (inf + -inf) and pushed
   onto a non-empty heap is compared with [PartialOrd::le] (derived, no panic)
   by std's sift-up; the resulting order depends on the heap's internal layout
   and is outside the specification: the model answers Err E_HeapNaN.

   usize.  [USZ] = usize::BITS.  [x << 1] drops the bits shifted out, [|] is
   N.lor.  [next_node_index += 1] and [2 * num_nodes] cannot overflow after the
   constructor's size check (C20_huffman_* theorems); they are plain N.

   get_unchecked.  Every unchecked index is a CHECKED access that answers a
   distinct [UB_*] error when out of bounds. *)
From CV Require Export Base.Bits.
Open Scope N_scope.

Inductive herr :=
| E_NaN            (* Err(NanError) *)
| E_Panic          (* panic!() : empty input or too many symbols *)
| E_Overflow       (* P::add overflowed (integer weights) *)
| E_HeapNaN        (* NaN sum pushed onto a non-empty heap: outside the heap's spec *)
| E_Impossible     (* DefaultEncoderFrontendError::ImpossibleSymbol *)
| E_OutOfData      (* SymbolCodeError::OutOfCompressedData *)
| E_Fuel           (* model artefact; proved unreachable *)
| UB_enc_build_0   (* huffman.rs:109  nodes.get_unchecked_mut(index0) *)
| UB_enc_build_1   (* huffman.rs:110  nodes.get_unchecked_mut(index1) *)
| UB_enc_walk      (* huffman.rs:146  nodes.get_unchecked(node_index) *)
| UB_dec_walk.     (* huffman.rs:268  nodes.get_unchecked(node_index - num_symbols) *)

Inductive res (A : Type) := Ok (a : A) | Err (e : herr).
Arguments Ok {A} a.
Arguments Err {A} e.

Definition rbind {A B} (r : res A) (f : A -> res B) : res B :=
  match r with Ok a => f a | Err e => Err e end.
Notation "x <- r ;; k" := (rbind r (fun x => k)) (at level 61, r at next level, right associativity).

(* checked array access / update, index = usize value *)
Definition nthN {A} (l : list A) (i : N) : option A := nth_error l (N.to_nat i).

Fixpoint upd_nat {A} (l : list A) (i : nat) (v : A) : list A :=
  match l, i with
  | [], _ => []
  | _ :: r, O => v :: r
  | x :: r, S i' => x :: upd_nat r i' v
  end.
Definition updN {A} (l : list A) (i : N) (v : A) : list A := upd_nat l (N.to_nat i) v.

Definition get_chk {A} (ub : herr) (l : list A) (i : N) : res A :=
  match nthN l i with Some x => Ok x | None => Err ub end.

Definition set_chk {A} (ub : herr) (l : list A) (i : N) (v : A) : res (list A) :=
  if i <? N.of_nat (length l) then Ok (updN l i v) else Err ub.

Section Huffman.
  Variable W : Type.
  Variable wcmp : W -> W -> comparison.
  Variable wadd : W -> W -> option W.
  Variable wnan : W -> bool.
  Variable USZ : N.

  Definition usize_max : N := 2 ^ USZ - 1.

  (* heap element Reverse((weight, index)) *)
  Definition item := (W * N)%type.

  (* (a < b) under the derived lexicographic Ord of (P, usize) *)
  Definition item_lt (a b : item) : bool :=
    match wcmp (fst a) (fst b) with
    | Lt => true
    | Gt => false
    | Eq => snd a <? snd b
    end.

  (* BinaryHeap::pop of a min-heap: the minimum and the remaining collection *)
  Fixpoint pop_min (h : list item) : option (item * list item) :=
    match h with
    | [] => None
    | x :: r =>
        match pop_min r with
        | None => Some (x, [])
        | Some (m, r') => if item_lt m x then Some (m, x :: r') else Some (x, r)
        end
    end.

  (* .enumerate().map(|(i, s)| s.map(|s| Reverse((s, i)))) *)
  Fixpoint enumerate (i : N) (ws : list W) : list item :=
    match ws with
    | [] => []
    | w :: r => (w, i) :: enumerate (i + 1) r
    end.

  (* the part of the loop body both constructors share (huffman.rs:83-86 / 221-224):
     two pops, one push.  Result: index0, index1, heap after the push. *)
  Definition merge_step (heap : list item) (next : N) : option (res (N * N * list item)) :=
    match pop_min heap with
    | None => None
    | Some ((p0, i0), h1) =>
        match pop_min h1 with
        | None => None
        | Some ((p1, i1), h2) =>
            Some (match wadd p0 p1 with
                  | None => Err E_Overflow
                  | Some s =>
                      if wnan s && negb (match h2 with [] => true | _ => false end)
                      then Err E_HeapNaN
                      else Ok (i0, i1, (s, next) :: h2)
                  end)
        end
    end.

  (* ---------------- EncoderHuffmanTree::try_from_probabilities (62-116) *)

  (* next_node_index << 1  and  (next_node_index << 1) | 1  on usize *)
  Definition node_val (next : N) (bit : bool) : N :=
    N.lor (shl USZ next 1) (if bit then 1 else 0).

  Fixpoint enc_loop (fuel : nat) (heap : list item) (nodes : list N) (next : N) : res (list N) :=
    match fuel with
    | O => Err E_Fuel
    | S f =>
        match merge_step heap next with
        | None => Ok nodes
        | Some r =>
            x <- r ;;
            let '(i0, i1, heap') := x in
            nodes1 <- set_chk UB_enc_build_0 nodes i0 (node_val next false) ;;
            nodes2 <- set_chk UB_enc_build_1 nodes1 i1 (node_val next true) ;;
            enc_loop f heap' nodes2 (next + 1)
        end
    end.

  Definition enc_build (ws : list W) : res (list N) :=
    if existsb wnan ws then Err E_NaN else
    let heap := enumerate 0 ws in
    let len := N.of_nat (length heap) in
    if (len =? 0) || (usize_max / 4 <? len) then Err E_Panic else
    enc_loop (S (length heap)) heap (repeat 0 (N.to_nat (len * 2 - 1))) len.

  (* ---------------- DecoderHuffmanTree::try_from_probabilities (200-230) *)

  Fixpoint dec_loop (fuel : nat) (heap : list item) (nodes : list (N * N)) (next : N)
    : res (list (N * N)) :=
    match fuel with
    | O => Err E_Fuel
    | S f =>
        match merge_step heap next with
        | None => Ok nodes
        | Some r =>
            x <- r ;;
            let '(i0, i1, heap') := x in
            dec_loop f heap' (nodes ++ [(i0, i1)]) (next + 1)
        end
    end.

  Definition dec_build (ws : list W) : res (list (N * N)) :=
    if existsb wnan ws then Err E_NaN else
    let heap := enumerate 0 ws in
    let len := N.of_nat (length heap) in
    if (len =? 0) || (usize_max / 2 <? len) then Err E_Panic else
    dec_loop (S (length heap)) heap [] len.
End Huffman.

(* ---------------- EncoderCodebook for EncoderHuffmanTree (128-156) *)

Definition enc_num_symbols (nodes : list N) : N := N.of_nat (length nodes) / 2 + 1.

(* the loop; bits in the order in which [emit] is called (leaf to root) *)
Fixpoint enc_walk (fuel : nat) (nodes : list N) (node_index : N) : res (list bool) :=
  match fuel with
  | O => Err E_Fuel
  | S f =>
      node <- get_chk UB_enc_walk nodes node_index ;;
      if node =? 0 then Ok []
      else (rest <- enc_walk f nodes (shr node 1) ;;
            Ok (negb (N.land node 1 =? 0) :: rest))
  end.

Definition enc_suffix (nodes : list N) (symbol : N) : res (list bool) :=
  if N.of_nat (length nodes) / 2 <? symbol then Err E_Impossible
  else enc_walk (S (length nodes)) nodes symbol.

(* EncoderCodebook::encode_symbol_prefix, default method (mod.rs:726-739):
   every bit of the suffix form is pushed on a SmallBitStack, which is then
   drained.  The bit stack is the abstract LIFO list (its word-level
   representation is the subject of C16). *)
Definition bitstack_write (stack : list bool) (bit : bool) : list bool := bit :: stack.
Definition bitstack_drain (stack : list bool) : list bool := stack.

Definition enc_prefix (nodes : list N) (symbol : N) : res (list bool) :=
  bits <- enc_suffix nodes symbol ;;
  Ok (bitstack_drain (fold_left bitstack_write bits [])).

(* ---------------- DecoderCodebook for DecoderHuffmanTree (244-273)
   [source] is the sequence of bits the iterator will deliver; the result is
   the symbol and the bits not consumed. *)
Definition dec_num_symbols (nodes : list (N * N)) : N := N.of_nat (length nodes) + 1.

Fixpoint dec_walk (nodes : list (N * N)) (num_symbols node_index : N) (source : list bool)
  : res (N * list bool) :=
  match source with
  | [] => if node_index <? num_symbols then Ok (node_index, []) else Err E_OutOfData
  | bit :: rest =>
      if node_index <? num_symbols then Ok (node_index, source)
      else (pr <- get_chk UB_dec_walk nodes (node_index - num_symbols) ;;
            dec_walk nodes num_symbols (if bit then snd pr else fst pr) rest)
  end.

Definition dec_symbol (nodes : list (N * N)) (source : list bool) : res (N * list bool) :=
  let num_nodes := N.of_nat (length nodes) in
  dec_walk nodes (num_nodes + 1) (2 * num_nodes) source.

(* ---------------- integer weights: u8 / u32 / u64 by b = 8 / 32 / 64 *)
Definition nw_add (b : N) (x y : N) : option N :=
  if x + y <? 2 ^ b then Some (x + y) else None.
Definition nw_nan (x : N) : bool := false.

Definition enc_build_int (b USZ : N) := enc_build N N.compare (nw_add b) nw_nan USZ.
Definition dec_build_int (b USZ : N) := dec_build N N.compare (nw_add b) nw_nan USZ.
