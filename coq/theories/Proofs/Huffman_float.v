(* Proofs/Huffman_float.v -- the IEEE comparison used for float weights is a total
   preorder (hypotheses of the order theorems in Huffman_heap.v / Huffman_build.v).
   Uses Flocq's Bcompare_correct, hence the standard axioms of Coq's real numbers. *)
From Coq Require Import ZArith Reals Lra.
From Flocq Require Import Core.Raux IEEE754.BinarySingleNaN IEEE754.Binary IEEE754.Bits.
From CV Require Import Model.HuffmanFloat.
Set Default Timeout 60.

Section F.
  Variables prec emax : Z.
  Notation bf := (binary_float prec emax).
  Notation fcmp := (fcmp prec emax).

  Lemma fcmp_sym (a b : bf) : fcmp b a = CompOpp (fcmp a b).
  Proof.
    unfold HuffmanFloat.fcmp. rewrite (Bcompare_swap prec emax a b).
    destruct (Bcompare prec emax a b) eqn:E; [reflexivity|].
    destruct a, b; try discriminate E; try reflexivity.
  Qed.

  Lemma fcmp_fin (a b : bf) : is_finite prec emax a = true -> is_finite prec emax b = true ->
    fcmp a b = Rcompare (B2R prec emax a) (B2R prec emax b).
  Proof. intros. unfold HuffmanFloat.fcmp. rewrite Bcompare_correct by assumption. reflexivity. Qed.

  Lemma fcmp_trans (a b c : bf) : fcmp a b <> Gt -> fcmp b c <> Gt -> fcmp a c <> Gt.
  Proof.
    destruct (is_finite prec emax a) eqn:Fa, (is_finite prec emax b) eqn:Fb, (is_finite prec emax c) eqn:Fc.
    - rewrite !fcmp_fin by assumption.
      destruct (Rcompare_spec (B2R prec emax a) (B2R prec emax b)),
        (Rcompare_spec (B2R prec emax b) (B2R prec emax c)),
        (Rcompare_spec (B2R prec emax a) (B2R prec emax c)); try congruence; intros; exfalso; lra.
    - destruct c as [| [|] | |]; try discriminate Fc; destruct a as [| | |], b as [| | |];
        try discriminate; cbn; congruence.
    - destruct b as [| [|] | |]; try discriminate Fb; destruct a as [| | |], c as [| | |];
        try discriminate; cbn; congruence.
    - destruct b as [| [|] | |]; try discriminate Fb; destruct c as [| [|] | |]; try discriminate Fc;
        destruct a as [| | |]; try discriminate; cbn; congruence.
    - destruct a as [| [|] | |]; try discriminate Fa; destruct b as [| | |], c as [| | |];
        try discriminate; cbn; congruence.
    - destruct a as [| [|] | |]; try discriminate Fa; destruct c as [| [|] | |]; try discriminate Fc;
        destruct b as [| | |]; try discriminate; cbn; congruence.
    - destruct a as [| [|] | |]; try discriminate Fa; destruct b as [| [|] | |]; try discriminate Fb;
        destruct c as [| | |]; try discriminate; cbn; congruence.
    - destruct a as [| [|] | |]; try discriminate Fa; destruct b as [| [|] | |]; try discriminate Fb;
        destruct c as [| [|] | |]; try discriminate Fc; cbn; congruence.
  Qed.
End F.
