(* Proofs/Backend_cursor.v -- Cursor and Reverse<Cursor> refine the tape (abstract stack/queue);
   the position invariant is preserved; the unchecked accesses are in bounds. *)
From CV Require Import Model.Backend Proofs.Backend_tape.
Open Scope nat_scope.
Set Default Timeout 30.
Local Arguments Nat.ltb : simpl never.
Local Arguments Nat.leb : simpl never.
Local Arguments Nat.sub : simpl never.

Lemma cursor_of_tape_inv t : cursor_inv (cursor_of_tape t).
Proof. unfold cursor_inv, cursor_of_tape; cbn. rewrite app_length, rev_length. lia. Qed.

Lemma rcursor_of_tape_inv t : cursor_inv (rcursor_of_tape t).
Proof. unfold cursor_inv, rcursor_of_tape; cbn. rewrite app_length, rev_length. lia. Qed.

Lemma tape_of_cursor_of_tape t : tape_of_cursor (cursor_of_tape t) = t.
Proof.
  destruct t as [a b]. unfold tape_of_cursor, cursor_of_tape; cbn.
  replace (length a) with (length (rev a)) by apply rev_length.
  rewrite firstn_app_len, skipn_app_len, rev_involutive. reflexivity.
Qed.

Lemma tape_of_rcursor_of_tape t : tape_of_rcursor (rcursor_of_tape t) = t.
Proof.
  destruct t as [a b]. unfold tape_of_rcursor, rcursor_of_tape; cbn.
  replace (length b) with (length (rev b)) by apply rev_length.
  rewrite firstn_app_len, skipn_app_len, rev_involutive. reflexivity.
Qed.

(* under the invariant the abstraction loses nothing *)
Lemma cursor_of_tape_of_cursor c : cursor_inv c -> cursor_of_tape (tape_of_cursor c) = c.
Proof.
  destruct c as [b p]. unfold cursor_inv, cursor_of_tape, tape_of_cursor; cbn. intros H.
  rewrite rev_involutive, firstn_skipn, rev_length, firstn_length_le by assumption. reflexivity.
Qed.

Lemma rcursor_of_tape_of_rcursor c : cursor_inv c -> rcursor_of_tape (tape_of_rcursor c) = c.
Proof.
  destruct c as [b p]. unfold cursor_inv, rcursor_of_tape, tape_of_rcursor; cbn. intros H.
  rewrite rev_involutive, firstn_skipn, rev_length, firstn_length_le by assumption. reflexivity.
Qed.

(* every cursor satisfying the invariant IS the representation of a tape *)
Lemma cursor_inv_repr c : cursor_inv c -> exists t, c = cursor_of_tape t.
Proof. intros H. exists (tape_of_cursor c). symmetry. now apply cursor_of_tape_of_cursor. Qed.
Lemma rcursor_inv_repr c : cursor_inv c -> exists t, c = rcursor_of_tape t.
Proof. intros H. exists (tape_of_rcursor c). symmetry. now apply rcursor_of_tape_of_rcursor. Qed.


(* ------------------------------------------------------------------ Cursor: every operation commutes
   with the representation *)

Lemma cursor_read_stack_tape t :
  cursor_read_stack (cursor_of_tape t) = map_snd cursor_of_tape (tape_read Stack t).
Proof.
  destruct t as [[|w a] b]; unfold cursor_read_stack, cursor_of_tape, map_snd; cbn.
  - reflexivity.
  - rewrite <- app_assoc. cbn.
    replace (length a) with (length (rev a)) by apply rev_length.
    rewrite nth_error_app_len. unfold with_pos; cbn. reflexivity.
Qed.

Lemma cursor_read_queue_tape t :
  cursor_read_queue (cursor_of_tape t) = map_snd cursor_of_tape (tape_read Queue t).
Proof.
  destruct t as [a [|w b]]; unfold cursor_read_queue, cursor_of_tape, map_snd; cbn.
  - rewrite nth_error_len_none by (rewrite app_nil_r, rev_length; lia). reflexivity.
  - replace (length a) with (length (rev a)) at 1 by apply rev_length.
    rewrite nth_error_app_len. unfold with_pos; cbn. rewrite <- app_assoc. reflexivity.
Qed.

Lemma cursor_write_tape w t :
  cursor_write w (cursor_of_tape t) = map_snd cursor_of_tape (tape_write w t).
Proof.
  destruct t as [a [|x b]]; unfold cursor_write, cursor_of_tape, map_snd; cbn.
  - rewrite app_nil_r, rev_length, Nat.ltb_irrefl. reflexivity.
  - rewrite app_length, rev_length. cbn.
    replace (length a <? length a + S (length b)) with true by (symmetry; apply Nat.ltb_lt; lia).
    replace (length a) with (length (rev a)) at 1 by apply rev_length.
    rewrite list_set_app_len, <- app_assoc. reflexivity.
Qed.

Lemma cursor_remaining_stack_tape t :
  cursor_remaining_stack (cursor_of_tape t) = QVal (tape_remaining Stack t).
Proof. reflexivity. Qed.

Lemma checked_sub_ok f a b : b <= a -> checked_sub f a b = QVal (a - b).
Proof. intros H. unfold checked_sub. now rewrite (proj2 (Nat.leb_le b a) H). Qed.

Lemma cursor_remaining_queue_tape t :
  cursor_remaining_queue (cursor_of_tape t) = QVal (tape_remaining Queue t).
Proof.
  destruct t as [a b]; unfold cursor_remaining_queue, cursor_of_tape; cbn.
  rewrite app_length, rev_length, checked_sub_ok by lia. f_equal; lia.
Qed.

Lemma cursor_space_left_tape t :
  cursor_space_left (cursor_of_tape t) = QVal (tape_space_left t).
Proof.
  destruct t as [a b]; unfold cursor_space_left, cursor_of_tape, tape_space_left; cbn.
  rewrite app_length, rev_length, checked_sub_ok by lia. f_equal; lia.
Qed.

Lemma tape_all_length t : length (tape_all t) = length (above t) + length (below t).
Proof. unfold tape_all. now rewrite app_length, rev_length. Qed.

Lemma cursor_of_tape_goto p t : p <= length (tape_all t) ->
  cursor_of_tape (tape_goto p t) = {| buf := tape_all t; pos := p |}.
Proof.
  intros H. unfold cursor_of_tape, tape_goto; cbn.
  rewrite rev_involutive, firstn_skipn, rev_length, firstn_length_le by assumption. reflexivity.
Qed.

Lemma cursor_seek_tape p t :
  cursor_seek p (cursor_of_tape t) =
    if length (tape_all t) <? p then (SErr, cursor_of_tape t) else (SOk, cursor_of_tape (tape_goto p t)).
Proof.
  unfold cursor_seek. change (buf (cursor_of_tape t)) with (tape_all t).
  destruct (length (tape_all t) <? p) eqn:E; [reflexivity|].
  apply Nat.ltb_ge in E. rewrite cursor_of_tape_goto by assumption. reflexivity.
Qed.

Lemma cursor_pos_tape t : cursor_pos (cursor_of_tape t) = length (above t).
Proof. reflexivity. Qed.

(* ------------------------------------------------------------------ Reverse<Cursor> *)
(* Stack reads of the wrapper are Queue reads of the cursor and vice versa (Model: bk_read) *)

Lemma rcursor_read_stack_tape t :
  cursor_read_queue (rcursor_of_tape t) = map_snd rcursor_of_tape (tape_read Stack t).
Proof.
  destruct t as [[|w a] b]; unfold cursor_read_queue, rcursor_of_tape, map_snd; cbn.
  - rewrite nth_error_len_none by (rewrite app_nil_r, rev_length; lia). reflexivity.
  - replace (length b) with (length (rev b)) at 1 by apply rev_length.
    rewrite nth_error_app_len. unfold with_pos; cbn. rewrite <- app_assoc. reflexivity.
Qed.

Lemma rcursor_read_queue_tape t :
  cursor_read_stack (rcursor_of_tape t) = map_snd rcursor_of_tape (tape_read Queue t).
Proof.
  destruct t as [a [|w b]]; unfold cursor_read_stack, rcursor_of_tape, map_snd; cbn.
  - reflexivity.
  - rewrite <- app_assoc. cbn.
    replace (length b) with (length (rev b)) by apply rev_length.
    rewrite nth_error_app_len. unfold with_pos; cbn. reflexivity.
Qed.

Lemma rcursor_write_tape w t :
  rcursor_write w (rcursor_of_tape t) = map_snd rcursor_of_tape (tape_write w t).
Proof.
  destruct t as [a [|x b]]; unfold rcursor_write, rcursor_of_tape, map_snd; cbn.
  - reflexivity.
  - rewrite !app_length, rev_length. cbn.
    replace (length b <? length b + 1 + length a) with true by (symmetry; apply Nat.ltb_lt; lia).
    rewrite <- app_assoc. cbn.
    replace (length b) with (length (rev b)) by apply rev_length.
    rewrite list_set_app_len. reflexivity.
Qed.

Lemma rcursor_remaining_stack_tape t :
  cursor_remaining_queue (rcursor_of_tape t) = QVal (tape_remaining Stack t).
Proof.
  destruct t as [a b]; unfold cursor_remaining_queue, rcursor_of_tape; cbn.
  rewrite app_length, rev_length, checked_sub_ok by lia. f_equal; lia.
Qed.

Lemma rcursor_remaining_queue_tape t :
  cursor_remaining_stack (rcursor_of_tape t) = QVal (tape_remaining Queue t).
Proof. reflexivity. Qed.

Lemma rcursor_space_left_tape t :
  rcursor_space_left (rcursor_of_tape t) = QVal (tape_space_left t).
Proof. reflexivity. Qed.

Lemma rcursor_is_mirror t : rcursor_of_tape t = cursor_of_tape (tape_mirror t).
Proof. reflexivity. Qed.

Lemma rcursor_seek_tape p t :
  cursor_seek p (rcursor_of_tape t) =
    if length (tape_all t) <? p then (SErr, rcursor_of_tape t)
    else (SOk, rcursor_of_tape (tape_mirror (tape_goto p (tape_mirror t)))).
Proof.
  rewrite rcursor_is_mirror, cursor_seek_tape.
  replace (length (tape_all (tape_mirror t))) with (length (tape_all t))
    by (rewrite !tape_all_length; cbn; lia).
  destruct (length (tape_all t) <? p); reflexivity.
Qed.

(* ------------------------------------------------------------------ in-place reversal *)

Lemma reverse_cursor_tape t :
  cursor_reverse_in_place (cursor_of_tape t) = (QVal (length (below t)), rcursor_of_tape t).
Proof.
  destruct t as [a b]; unfold cursor_reverse_in_place, cursor_of_tape, rcursor_of_tape; cbn.
  rewrite rev_length, app_length, rev_length, checked_sub_ok by lia.
  rewrite rev_app_distr, rev_involutive.
  replace (length a + length b - length a) with (length b) by lia. reflexivity.
Qed.

Lemma reverse_rcursor_tape t :
  cursor_reverse_in_place (rcursor_of_tape t) = (QVal (length (above t)), cursor_of_tape t).
Proof. rewrite rcursor_is_mirror, reverse_cursor_tape. reflexivity. Qed.

(* ------------------------------------------------------------------ the same facts on cursors *)

(* into_reversed mirrors data and position, keeps the invariant, and the reversed cursor
   represents the SAME abstract stack and queue *)
Lemma into_reversed_tape c : cursor_inv c ->
  exists p c', cursor_reverse_in_place c = (QVal p, c') /\ cursor_inv c' /\
    tape_of_rcursor c' = tape_of_cursor c /\
    buf c' = rev (buf c) /\ pos c' = length (buf c) - pos c.
Proof.
  intros H. destruct (cursor_inv_repr c H) as [t ->].
  rewrite reverse_cursor_tape. do 2 eexists. split; [reflexivity|].
  split; [apply rcursor_of_tape_inv|]. split.
  - now rewrite tape_of_rcursor_of_tape, tape_of_cursor_of_tape.
  - destruct t as [a b]; unfold rcursor_of_tape, cursor_of_tape; cbn.
    rewrite rev_app_distr, rev_involutive, app_length, rev_length. split; [reflexivity|lia].
Qed.

Lemma into_reversed_back_tape c : cursor_inv c ->
  exists p c', cursor_reverse_in_place c = (QVal p, c') /\ cursor_inv c' /\
    tape_of_cursor c' = tape_of_rcursor c.
Proof.
  intros H. destruct (rcursor_inv_repr c H) as [t ->].
  rewrite reverse_rcursor_tape. do 2 eexists. split; [reflexivity|].
  split; [apply cursor_of_tape_inv|].
  now rewrite tape_of_rcursor_of_tape, tape_of_cursor_of_tape.
Qed.

(* twice = identity *)
Lemma into_reversed_twice c : cursor_inv c ->
  exists p q c', cursor_reverse_in_place c = (QVal p, c') /\ cursor_reverse_in_place c' = (QVal q, c).
Proof.
  intros H. destruct (cursor_inv_repr c H) as [t ->].
  rewrite reverse_cursor_tape. do 3 eexists. split; [reflexivity|]. apply reverse_rcursor_tape.
Qed.

(* reversal commutes with seeking to the mirrored position *)
Lemma into_reversed_seek c p : cursor_inv c -> p <= length (buf c) ->
  snd (cursor_reverse_in_place (snd (cursor_seek p c))) =
  snd (cursor_seek (length (buf c) - p) (snd (cursor_reverse_in_place c))).
Proof.
  intros Hc Hp. destruct c as [b q]. unfold cursor_inv in Hc; cbn in *.
  unfold cursor_seek, cursor_reverse_in_place, with_pos; cbn.
  replace (length b <? p) with false by (symmetry; apply Nat.ltb_ge; lia). cbn.
  rewrite rev_length, !checked_sub_ok by lia. cbn.
  rewrite rev_length.
  replace (length b <? length b - p) with false by (symmetry; apply Nat.ltb_ge; lia). reflexivity.
Qed.

(* ------------------------------------------------------------------ invariant and faults, directly *)

Lemma cursor_read_stack_inv c : cursor_inv c ->
  cursor_inv (snd (cursor_read_stack c)) /\ forall f, fst (cursor_read_stack c) <> RFault f.
Proof.
  intros H. destruct (cursor_inv_repr c H) as [t ->]. rewrite cursor_read_stack_tape.
  unfold map_snd; cbn. split; [apply cursor_of_tape_inv|].
  destruct t as [[|w a] b]; cbn; discriminate.
Qed.

Lemma cursor_read_queue_inv c : cursor_inv c ->
  cursor_inv (snd (cursor_read_queue c)) /\ forall f, fst (cursor_read_queue c) <> RFault f.
Proof.
  intros H. destruct (cursor_inv_repr c H) as [t ->]. rewrite cursor_read_queue_tape.
  unfold map_snd; cbn. split; [apply cursor_of_tape_inv|].
  destruct t as [a [|w b]]; cbn; discriminate.
Qed.

Lemma cursor_write_inv w c : cursor_inv c ->
  cursor_inv (snd (cursor_write w c)) /\ forall f, fst (cursor_write w c) <> WFault f.
Proof.
  intros H. destruct (cursor_inv_repr c H) as [t ->]. rewrite cursor_write_tape.
  unfold map_snd; cbn. split; [apply cursor_of_tape_inv|].
  destruct t as [a [|x b]]; cbn; discriminate.
Qed.

Lemma rcursor_write_inv w c : cursor_inv c ->
  cursor_inv (snd (rcursor_write w c)) /\ forall f, fst (rcursor_write w c) <> WFault f.
Proof.
  intros H. destruct (rcursor_inv_repr c H) as [t ->]. rewrite rcursor_write_tape.
  unfold map_snd; cbn. split; [apply rcursor_of_tape_inv|].
  destruct t as [a [|x b]]; cbn; discriminate.
Qed.

Lemma cursor_seek_inv p c : cursor_inv c -> cursor_inv (snd (cursor_seek p c)).
Proof.
  unfold cursor_seek, cursor_inv. intros H.
  destruct (length (buf c) <? p) eqn:E; cbn; [assumption|]. now apply Nat.ltb_ge in E.
Qed.

Lemma cursor_reverse_inv c : cursor_inv c ->
  cursor_inv (snd (cursor_reverse_in_place c)) /\ forall f, fst (cursor_reverse_in_place c) <> QFault f.
Proof.
  intros H. destruct (into_reversed_tape c H) as (p & c' & E & Hi & _). rewrite E. cbn.
  split; [assumption|discriminate].
Qed.

Lemma cursor_space_left_ok c : cursor_inv c -> cursor_space_left c = QVal (length (buf c) - pos c).
Proof. intros H. unfold cursor_space_left. now apply checked_sub_ok. Qed.

Lemma cursor_remaining_queue_ok c : cursor_inv c ->
  cursor_remaining_queue c = QVal (length (buf c) - pos c).
Proof. intros H. unfold cursor_remaining_queue. now apply checked_sub_ok. Qed.

(* constructors establish the invariant *)
Lemma cursor_new_beginning_inv b : cursor_inv (cursor_new_at_write_beginning b).
Proof. unfold cursor_inv; cbn; lia. Qed.
Lemma cursor_new_end_inv b : cursor_inv (cursor_new_at_write_end b).
Proof. unfold cursor_inv; cbn; lia. Qed.
Lemma cursor_new_at_pos_inv b p c : cursor_new_at_pos b p = Some c -> cursor_inv c /\ buf c = b /\ pos c = p.
Proof.
  unfold cursor_new_at_pos. destruct (length b <? p) eqn:E; intros H; inversion H; subst.
  apply Nat.ltb_ge in E. unfold cursor_inv; cbn. auto.
Qed.
Lemma cursor_new_at_pos_refuses b p : length b < p <-> cursor_new_at_pos b p = None.
Proof.
  unfold cursor_new_at_pos. destruct (length b <? p) eqn:E.
  - apply Nat.ltb_lt in E. split; auto.
  - apply Nat.ltb_ge in E. split; [lia|discriminate].
Qed.

(* seek *)
Lemma cursor_seek_pos c : cursor_inv c -> cursor_seek (cursor_pos c) c = (SOk, c).
Proof.
  unfold cursor_inv, cursor_seek, cursor_pos, with_pos. intros H.
  replace (length (buf c) <? pos c) with false by (symmetry; apply Nat.ltb_ge; lia).
  now destruct c.
Qed.

Lemma cursor_seek_spec p c :
  (p <= length (buf c) -> cursor_seek p c = (SOk, {| buf := buf c; pos := p |})) /\
  (length (buf c) < p -> cursor_seek p c = (SErr, c)).
Proof.
  unfold cursor_seek, with_pos. split; intros H.
  - now replace (length (buf c) <? p) with false by (symmetry; apply Nat.ltb_ge; lia).
  - now replace (length (buf c) <? p) with true by (symmetry; apply Nat.ltb_lt; lia).
Qed.
