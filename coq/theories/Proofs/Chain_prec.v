(* Proofs/Chain_prec.v -- increase_precision / decrease_precision / change_precision
   re-establish the head invariant at the new PRECISION and undo each other. *)
From CV Require Import Base.Bits Model.EModel Model.Chain Proofs.Chain_bits Proofs.Chain_rem
  Proofs.Chain_step.
From Coq Require Import ZifyBool ZifyN.
Open Scope N_scope.
Set Default Timeout 30.

Section Prec.
Variable c : ccfg.
Let W := cWB c.
Let S := cSB c.

Definition Lo (P : N) : N := 2 ^ (S - W - P).
Definition Up (P : N) : N := 2 ^ (S - P).

Lemma wfP P : wf_ccfg c P -> 0 < P /\ P <= W /\ W + P <= S.
Proof. intros (? & ? & ? & ?). unfold W, S. lia. Qed.

Lemma Up_Lo P : wf_ccfg c P -> Up P = Lo P * 2 ^ W.
Proof. intros H. exact (U_eq c P H). Qed.

Lemma Up_mono P P' : P <= P' -> Up P' <= Up P.
Proof. intros. apply pow2_le. lia. Qed.

Lemma Lo_mono P P' : P <= P' -> Lo P' <= Lo P.
Proof. intros. apply pow2_le. lia. Qed.

(* the two ranges always overlap: 2^(S-W-P) <= 2^(S-P') because P' <= W *)
Lemma Lo_le_Up P P' : wf_ccfg c P -> wf_ccfg c P' -> Lo P <= Up P'.
Proof. intros H H'. apply wfP in H, H'. apply pow2_le. lia. Qed.

Lemma shl_Up P : wf_ccfg c P -> shl S 1 (S - P) = Up P.
Proof. intros H. exact (one_shl_U c P H). Qed.

Lemma shl_Lo P : wf_ccfg c P -> shl S 1 (S - P - W) = Lo P.
Proof.
  intros H. apply wfP in H. unfold shl, Lo. rewrite shiftl_mul, N.mul_1_l.
  replace (S - P - W) with (S - W - P) by lia.
  apply trunc_small. apply pow2_lt. lia.
Qed.

Lemma remok_LU P rh : remok c P rh <-> Lo P <= rh /\ rh < Up P.
Proof. reflexivity. Qed.

(* ---------- truncation-free forms ---------- *)
Definition increase_i (P' : N) (ch : chain) : chain :=
  if Up P' <=? hr ch
  then {| comp := comp ch; rems := hr ch mod 2 ^ W :: rems ch; hc := hc ch; hr := hr ch / 2 ^ W |}
  else ch.

Definition decrease_i (P' : N) (ch : chain) : res chain :=
  if hr ch <? Lo P' then
    match rems ch with
    | [] => Err OutOfRemainders
    | w :: r => Ok {| comp := comp ch; rems := r; hc := hc ch; hr := hr ch * 2 ^ W + w |}
    end
  else Ok ch.

Lemma increase_eq_i P' ch : wf_ccfg c P' -> chain_increase c P' ch = increase_i P' ch.
Proof.
  intros H'. unfold chain_increase, increase_i. fold S W. rewrite (shl_Up P' H'), shr_div.
  reflexivity.
Qed.

Lemma decrease_eq_i P' ch :
  wf_ccfg c P' -> wordsok c (rems ch) -> chain_decrease c P' ch = decrease_i P' ch.
Proof.
  intros H' Hw. unfold chain_decrease, decrease_i. fold S W. rewrite (shl_Lo P' H').
  destruct (N.ltb_spec (hr ch) (Lo P')) as [Hlt|Hge]; [|reflexivity].
  destruct (rems ch) as [|w r]; [reflexivity|].
  apply Forall_cons_iff in Hw. destruct Hw as [Hw _]. fold W in Hw.
  f_equal. f_equal. unfold shl. rewrite shiftl_mul, trunc_small; [apply lor_disjoint; exact Hw|].
  pose proof (Up_Lo P' H') as HU. pose proof (S_eq c P' H') as HS. cbv zeta in HS. fold S in HS.
  fold (Up P') in HS. rewrite HS, HU.
  assert ((hr ch + 1) * 2 ^ W <= Lo P' * 2 ^ W) by (apply N.mul_le_mono_r; lia).
  pose proof (pow2_pos W). pose proof (pow2_pos P').
  assert (Lo P' * 2 ^ W * 1 <= Lo P' * 2 ^ W * 2 ^ P') by (apply N.mul_le_mono_l; lia).
  lia.
Qed.

(* ---------- invariants ---------- *)
Lemma increase_i_inv P P' ch :
  wf_ccfg c P -> wf_ccfg c P' -> P <= P' ->
  chain_inv c P ch -> chain_inv c P' (increase_i P' ch).
Proof.
  intros H H' Hle Hinv. apply chain_inv_parts in Hinv. destruct Hinv as (Hh & Hr & Hcm & Hrm).
  destruct (proj1 (remok_LU P _) Hr) as [Hlo Hhi].
  apply chain_inv_parts. unfold increase_i.
  destruct (N.leb_spec (Up P') (hr ch)) as [Hfl|Hnf]; cbn [comp rems hc hr].
  - split; [exact Hh|]. split; [|split; [exact Hcm|]].
    + apply remok_LU. split.
      * apply div_ge_lower; [apply pow2_pos|]. rewrite <- (Up_Lo P' H'). exact Hfl.
      * eapply N.lt_le_trans; [|exact (Lo_le_Up P P' H H')].
        apply div_lt_upper; [apply pow2_pos|]. rewrite <- (Up_Lo P H). exact Hhi.
    + constructor; [|exact Hrm]. fold W. apply N.mod_lt, pow2_nz.
  - split; [exact Hh|]. split; [|split; assumption].
    apply remok_LU. pose proof (Lo_mono P P' Hle). lia.
Qed.

Lemma decrease_i_inv P P' ch ch' :
  wf_ccfg c P -> wf_ccfg c P' -> P' <= P ->
  chain_inv c P ch -> decrease_i P' ch = Ok ch' -> chain_inv c P' ch'.
Proof.
  intros H H' Hle Hinv. apply chain_inv_parts in Hinv. destruct Hinv as (Hh & Hr & Hcm & Hrm).
  destruct (proj1 (remok_LU P _) Hr) as [Hlo Hhi].
  unfold decrease_i.
  destruct (N.ltb_spec (hr ch) (Lo P')) as [Hlt|Hge].
  - destruct (rems ch) as [|w r] eqn:Er; [discriminate|]. intros E; inversion E; subst ch'; clear E.
    apply Forall_cons_iff in Hrm. destruct Hrm as [Hw Hrm]. fold W in Hw.
    apply chain_inv_parts. cbn [comp rems hc hr].
    split; [exact Hh|]. split; [|split; assumption].
    apply remok_LU. rewrite (Up_Lo P' H'). pose proof (Lo_le_Up P' P H' H) as HLU.
    rewrite (Up_Lo P H) in HLU.
    assert (Lo P * 2 ^ W <= hr ch * 2 ^ W) by (apply N.mul_le_mono_r; exact Hlo).
    assert ((hr ch + 1) * 2 ^ W <= Lo P' * 2 ^ W) by (apply N.mul_le_mono_r; lia).
    lia.
  - intros E; inversion E; subst ch'; clear E.
    apply chain_inv_parts. split; [exact Hh|]. split; [|split; assumption].
    apply remok_LU. pose proof (Up_mono P' P Hle). lia.
Qed.

(* ---------- decrease . increase = id  and  increase . decrease = id ---------- *)
Lemma decrease_increase_i P P' ch :
  wf_ccfg c P -> wf_ccfg c P' -> P <= P' ->
  chain_inv c P ch -> decrease_i P (increase_i P' ch) = Ok ch.
Proof.
  intros H H' Hle Hinv. apply chain_inv_parts in Hinv. destruct Hinv as (Hh & Hr & Hcm & Hrm).
  destruct (proj1 (remok_LU P _) Hr) as [Hlo Hhi].
  unfold increase_i.
  destruct (N.leb_spec (Up P') (hr ch)) as [Hfl|Hnf]; unfold decrease_i; cbn [comp rems hc hr].
  - assert (Hlt : hr ch / 2 ^ W < Lo P).
    { apply div_lt_upper; [apply pow2_pos|]. rewrite <- (Up_Lo P H). exact Hhi. }
    destruct (N.ltb_spec (hr ch / 2 ^ W) (Lo P)) as [_|?]; [|lia].
    replace (hr ch / 2 ^ W * 2 ^ W + hr ch mod 2 ^ W) with (hr ch)
      by (rewrite (div_mod_eq (hr ch) (2 ^ W)) at 1 by apply pow2_nz; lia).
    rewrite chain_eta. reflexivity.
  - destruct (N.ltb_spec (hr ch) (Lo P)) as [?|_]; [lia|]. reflexivity.
Qed.

Lemma increase_decrease_i P P' ch ch' :
  wf_ccfg c P -> wf_ccfg c P' -> P' <= P ->
  chain_inv c P ch -> decrease_i P' ch = Ok ch' -> increase_i P ch' = ch.
Proof.
  intros H H' Hle Hinv. apply chain_inv_parts in Hinv. destruct Hinv as (Hh & Hr & Hcm & Hrm).
  destruct (proj1 (remok_LU P _) Hr) as [Hlo Hhi].
  unfold decrease_i.
  destruct (N.ltb_spec (hr ch) (Lo P')) as [Hlt|Hge].
  - destruct (rems ch) as [|w r] eqn:Er; [discriminate|]. intros E; inversion E; subst ch'; clear E.
    apply Forall_cons_iff in Hrm. destruct Hrm as [Hw Hrm]. fold W in Hw.
    unfold increase_i. cbn [comp rems hc hr].
    assert (Up P <= hr ch * 2 ^ W + w).
    { rewrite (Up_Lo P H).
      assert (Lo P * 2 ^ W <= hr ch * 2 ^ W) by (apply N.mul_le_mono_r; exact Hlo). lia. }
    destruct (N.leb_spec (Up P) (hr ch * 2 ^ W + w)) as [_|?]; [|lia].
    rewrite mod_mul_add_small, div_mul_add_small by exact Hw.
    rewrite <- Er. apply chain_eta.
  - intros E; inversion E; subst ch'; clear E. unfold increase_i.
    destruct (N.leb_spec (Up P) (hr ch)) as [?|_]; [lia|]. reflexivity.
Qed.

(* ---------- machine-level statements ---------- *)
(* change_precision P -> P' followed by change_precision P' -> P restores the coder *)
Lemma chain_change_undo P P' ch ch' :
  wf_ccfg c P -> wf_ccfg c P' ->
  chain_inv c P ch -> chain_change c P P' ch = Ok ch' ->
  chain_inv c P' ch' /\ chain_change c P' P ch' = Ok ch.
Proof.
  intros H H' Hinv. pose proof Hinv as Hparts. apply chain_inv_parts in Hparts.
  destruct Hparts as (Hh & Hr & Hcm & Hrm).
  unfold chain_change.
  destruct (N.ltb_spec P P') as [Hlt|Hge].
  - intros E; inversion E; subst ch'; clear E.
    rewrite (increase_eq_i P' ch H').
    assert (Hinv' : chain_inv c P' (increase_i P' ch)) by (apply (increase_i_inv P P'); auto; lia).
    split; [exact Hinv'|].
    destruct (N.ltb_spec P' P) as [?|_]; [lia|].
    apply chain_inv_parts in Hinv'. destruct Hinv' as (_ & _ & _ & Hrm').
    rewrite (decrease_eq_i P _ H Hrm').
    apply (decrease_increase_i P P'); auto; lia.
  - rewrite (decrease_eq_i P' ch H' Hrm). intros E.
    assert (Hinv' : chain_inv c P' ch') by (apply (decrease_i_inv P P' ch); auto).
    split; [exact Hinv'|].
    destruct (N.ltb_spec P' P) as [Hlt|Hge'].
    + rewrite (increase_eq_i P ch' H). f_equal. apply (increase_decrease_i P P'); auto.
    + assert (P' = P) by lia. subst P'.
      (* same precision: nothing is refilled either way *)
      destruct (proj1 (remok_LU P _) Hr) as [Hlo Hhi].
      revert E. unfold decrease_i.
      destruct (N.ltb_spec (hr ch) (Lo P)) as [?|_]; [lia|]. intros E; inversion E; subst ch'.
      rewrite (decrease_eq_i P ch H Hrm). unfold decrease_i.
      destruct (N.ltb_spec (hr ch) (Lo P)) as [?|_]; [lia|]. reflexivity.
Qed.

(* the two directions, in the form of the design document *)
Lemma chain_prec_roundtrip P P' ch :
  wf_ccfg c P -> wf_ccfg c P' -> P <= P' -> chain_inv c P ch ->
  chain_inv c P' (chain_increase c P' ch)
  /\ chain_decrease c P (chain_increase c P' ch) = Ok ch.
Proof.
  intros H H' Hle Hinv. rewrite (increase_eq_i P' ch H').
  assert (Hinv' : chain_inv c P' (increase_i P' ch)) by (apply (increase_i_inv P P'); auto).
  split; [exact Hinv'|].
  apply chain_inv_parts in Hinv'. destruct Hinv' as (_ & _ & _ & Hrm').
  rewrite (decrease_eq_i P _ H Hrm'). apply (decrease_increase_i P P'); auto.
Qed.

Lemma chain_prec_roundtrip' P P' ch ch' :
  wf_ccfg c P -> wf_ccfg c P' -> P' <= P -> chain_inv c P ch ->
  chain_decrease c P' ch = Ok ch' ->
  chain_inv c P' ch' /\ chain_increase c P ch' = ch.
Proof.
  intros H H' Hle Hinv. pose proof Hinv as Hparts. apply chain_inv_parts in Hparts.
  destruct Hparts as (_ & _ & _ & Hrm).
  rewrite (decrease_eq_i P' ch H' Hrm). intros E.
  split; [apply (decrease_i_inv P P' ch); auto|].
  rewrite (increase_eq_i P ch' H). apply (increase_decrease_i P P'); auto.
Qed.

(* the only failure: OutOfRemainders, when lowering the precision needs a refill
   and the remainders backend is empty *)
Lemma chain_change_err P P' ch e :
  chain_change c P P' ch = Err e <->
  e = OutOfRemainders /\ P' <= P /\ rems ch = [] /\ hr ch < shl S 1 (S - P' - W).
Proof.
  unfold chain_change, chain_decrease. fold S W.
  destruct (N.ltb_spec P P') as [Hlt|Hge].
  - split; [discriminate|]. intros (_ & ? & _). lia.
  - destruct (N.ltb_spec (hr ch) (shl S 1 (S - P' - W))) as [Hl|Hg].
    + destruct (rems ch).
      * split; [intros E; inversion E; auto|]. intros (-> & _). reflexivity.
      * split; [discriminate|]. intros (_ & _ & ? & _). discriminate.
    + split; [discriminate|]. intros (_ & _ & _ & ?). lia.
Qed.

(* precision changes never touch the compressed side *)
Lemma chain_change_comp P P' ch ch' :
  chain_change c P P' ch = Ok ch' -> comp ch' = comp ch /\ hc ch' = hc ch.
Proof.
  unfold chain_change, chain_increase, chain_decrease.
  destruct (P <? P').
  - intros E; inversion E; subst ch'; clear E.
    destruct (shl (cSB c) 1 (cSB c - P') <=? hr ch); cbn; auto.
  - destruct (hr ch <? shl (cSB c) 1 (cSB c - P' - cWB c)).
    + destruct (rems ch); [discriminate|]. intros E; inversion E; subst ch'. cbn; auto.
    + intros E; inversion E; subst ch'. auto.
Qed.

End Prec.
