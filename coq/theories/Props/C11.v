(* Props/C11.v -- Range-coded data is unaffected by whatever words follow it.
   ONLY statements; proofs in Proofs/Range_roundtrip.v.

   The property as worded ("for all (Word,State) including State wider than two Words") is
   FALSE of the code: C11_refuted_wide.  What is true, and proved here for all messages,
   suffixes, widths and precisions:
     * State = 2 * Word (all presets of the crate): every suffix is harmless;
     * any State: decoding sealed ++ suffix returns the message IF AND ONLY IF the input is
       outside the class range_known_class (= known finding range_seal_wide_state), whose
       members all have State > 2 * Word, a two-word seal and a non-empty suffix. *)
From CV Require Import Base.Bits Model.EModel Model.Range Model.RangeSpec.
From CV Require Import Proofs.Table_lemmas Proofs.Range_base Proofs.Range_spec Proofs.Range_enc
                       Proofs.Range_dec Proofs.Range_roundtrip Proofs.Range_frame.
Open Scope N_scope.

Theorem C11_seal_pins_two_word_state : forall c msg sfx,
  wf_rcfg c -> rSB c = 2 * rWB c -> msg_ok c msg -> N.of_nat (length msg) < 2 ^ USZ ->
  text_ok (rWB c) sfx ->
  exists ws d',
    range_compress c msg = ROk ws /\
    rdec_decode_all c (msg_models msg) (rdec_from_compressed c (ws ++ sfx)) = ROk (msg_symbols msg, d').
Proof. exact range_suffix_two_word_state. Qed.

(* strongest true statement for arbitrary widths: outside the known class everything decodes *)
Theorem C11_outside_known_class : forall c msg sfx,
  wf_rcfg c -> msg_ok c msg -> N.of_nat (length msg) < 2 ^ USZ -> text_ok (rWB c) sfx ->
  ~ range_known_class c msg sfx ->
  exists ws d',
    range_compress c msg = ROk ws /\
    rdec_decode_all c (msg_models msg) (rdec_from_compressed c (ws ++ sfx)) = ROk (msg_symbols msg, d').
Proof. exact range_outside_known_class. Qed.

(* ... and the class is exact: inside it decoding never returns the message *)
Theorem C11_known_class_fails : forall c msg sfx,
  wf_rcfg c -> msg_ok c msg -> N.of_nat (length msg) < 2 ^ USZ -> text_ok (rWB c) sfx ->
  range_known_class c msg sfx ->
  exists ws, range_compress c msg = ROk ws /\
    forall d', rdec_decode_all c (msg_models msg) (rdec_from_compressed c (ws ++ sfx)) <> ROk (msg_symbols msg, d').
Proof. exact range_known_class_fails. Qed.

(* the class only contains wide states, two-word seals and non-empty suffixes; this is what the
   input predicate of lib/fam_range.py (StateBits > 2*WordBits) over-approximates *)
Theorem C11_known_class_is_wide : forall c msg sfx,
  wf_rcfg c -> msg_ok c msg -> text_ok (rWB c) sfx -> range_known_class c msg sfx ->
  2 * rWB c < rSB c /\ sfx <> [] /\
  exists tr, msg_triples msg = Some tr /\ spec_seal_two c (spec_run c tr (spec_init c)) = true.
Proof. exact range_known_class_is_wide. Qed.

(* corollaries named in the property text *)
(* a one-word seal pins the interval against any continuation, for every width *)
Theorem C11_one_word_seal_pins : forall c s sfx,
  wf_rcfg c -> SInv c s -> text_ok (rWB c) sfx -> spec_seal_two c s = false -> seal_pins c s sfx.
Proof. intros c s sfx Hc. exact (pins_one_word c Hc s sfx). Qed.

(* back to back: what follows a sealed message may be another sealed message; the second one is
   found by a decoder started right behind the first (State = 2 * Word) *)
Theorem C11_back_to_back : forall c msg1 msg2,
  wf_rcfg c -> rSB c = 2 * rWB c -> msg_ok c msg1 -> msg_ok c msg2 ->
  N.of_nat (length msg1) < 2 ^ USZ -> N.of_nat (length msg2) < 2 ^ USZ ->
  exists ws1 ws2 d1 d2,
    range_compress c msg1 = ROk ws1 /\ range_compress c msg2 = ROk ws2 /\
    rdec_decode_all c (msg_models msg1) (rdec_from_compressed c (ws1 ++ ws2)) = ROk (msg_symbols msg1, d1) /\
    rdec_decode_all c (msg_models msg2) (rdec_from_compressed c (skipn (length ws1) (ws1 ++ ws2)))
      = ROk (msg_symbols msg2, d2).
Proof. exact back_to_back. Qed.

(* a range encoder may be started on a sink that already holds data (RangeEncoder::with_backend):
   the old words stay in front, untouched, and a decoder started right behind them returns the message *)
Theorem C11_with_backend_appends : forall c old msg ws,
  range_compress c msg = ROk ws ->
  match renc_encode_all c msg (on_top (rev old) (renc_new c)) with
  | ROk e => renc_into_compressed c e = ROk (old ++ ws)
  | _ => False
  end.
Proof. exact with_backend_appends. Qed.

Theorem C11_with_backend_roundtrip : forall c old msg sfx,
  wf_rcfg c -> rSB c = 2 * rWB c -> msg_ok c msg -> N.of_nat (length msg) < 2 ^ USZ ->
  text_ok (rWB c) sfx ->
  exists e all d',
    renc_encode_all c msg (on_top (rev old) (renc_new c)) = ROk e /\
    renc_into_compressed c e = ROk all /\ firstn (length old) all = old /\
    rdec_decode_all c (msg_models msg) (rdec_from_compressed c (skipn (length old) (all ++ sfx)))
      = ROk (msg_symbols msg, d').
Proof. exact with_backend_roundtrip. Qed.

(* REFUTATION for State wider than two Words (known finding F6 / range_seal_wide_state):
   RangeEncoder<u8, u32>, PRECISION = 8, four symbols, sealed words [102; 223; 0]; followed by
   0xFF 0xFF 0xFF 0xFF the last symbol decodes as 2 instead of 1.  The same input fails on the
   real crate (corpus/range.gen_seal_steer.txt, replayed by ./check C11 on every run). *)
Definition w_cfg : rcfg := {| rWB := 8; rSB := 32; rPB := 8 |}.
Definition w_m1 : emodel := table_model 8 [(0%Z, 0, 31); (1%Z, 31, 73); (2%Z, 104, 152)].
Definition w_m2 : emodel := table_model 8 [(0%Z, 0, 252); (1%Z, 252, 4)].
Definition w_m3 : emodel := table_model 8 [(0%Z, 0, 225); (1%Z, 225, 31)].
Definition w_m4 : emodel := table_model 8 [(0%Z, 0, 2); (1%Z, 2, 1); (2%Z, 3, 253)].
Definition w_msg : list (emodel * Z) := [(w_m1, 1%Z); (w_m2, 1%Z); (w_m3, 0%Z); (w_m4, 1%Z)].
Definition w_sfx : list N := [255; 255; 255; 255].

Example w_cfg_wf : wf_rcfg w_cfg.
Proof. unfold wf_rcfg, w_cfg; cbn. repeat split; lia. Qed.
Example w_msg_ok : msg_ok w_cfg w_msg.
Proof.
  unfold msg_ok, w_msg.
  repeat (apply Forall_cons;
          [split; [split; [apply table_model_wf, wf_tableb_spec; vm_compute; reflexivity|cbn; lia]
                  |cbn; discriminate]|]).
  apply Forall_nil.
Qed.
Example w_sfx_ok : text_ok (rWB w_cfg) w_sfx.
Proof. unfold text_ok, w_sfx. repeat constructor. Qed.

Theorem C11_refuted_wide :
  exists c msg sfx,
    wf_rcfg c /\ msg_ok c msg /\ N.of_nat (length msg) < 2 ^ USZ /\ text_ok (rWB c) sfx /\
    rSB c = 4 * rWB c /\
    exists ws, range_compress c msg = ROk ws /\
      forall d', rdec_decode_all c (msg_models msg) (rdec_from_compressed c (ws ++ sfx)) <> ROk (msg_symbols msg, d').
Proof.
  exists w_cfg, w_msg, w_sfx.
  split; [exact w_cfg_wf|]. split; [exact w_msg_ok|]. split; [vm_compute; reflexivity|].
  split; [exact w_sfx_ok|]. split; [reflexivity|].
  exists [102; 223; 0]. split; [vm_compute; reflexivity|].
  intros d'.
  assert (E : exists d, rdec_decode_all w_cfg (msg_models w_msg) (rdec_from_compressed w_cfg ([102; 223; 0] ++ w_sfx))
                         = ROk ([1; 1; 0; 2]%Z, d)) by (eexists; vm_compute; reflexivity).
  destruct E as (d & ->). intros H. inversion H.
Qed.

(* the witness is a member of the class (so the two theorems above meet on it) *)
Example w_in_known_class : range_known_class w_cfg w_msg w_sfx.
Proof. eexists. split; [vm_compute; reflexivity|]. split; [discriminate|]. vm_compute. discriminate. Qed.

(* non-vacuity of the positive theorems: with State = 2 * Word the same kind of input decodes *)
Definition n_cfg : rcfg := {| rWB := 8; rSB := 16; rPB := 8 |}.
Example n_suffix_decodes :
  exists ws d, range_compress n_cfg w_msg = ROk ws /\
    rdec_decode_all n_cfg (msg_models w_msg) (rdec_from_compressed n_cfg (ws ++ w_sfx)) = ROk (msg_symbols w_msg, d).
Proof. eexists _, _. split; vm_compute; reflexivity. Qed.
Example w_outside_class_nonempty : ~ range_known_class w_cfg w_msg [0; 0; 0; 0].
Proof.
  intros (tr & Etr & _ & Hk). vm_compute in Etr. inversion Etr; subst tr. vm_compute in Hk. apply Hk. reflexivity.
Qed.

Check C11_seal_pins_two_word_state : forall c msg sfx,
  wf_rcfg c -> rSB c = 2 * rWB c -> msg_ok c msg -> N.of_nat (length msg) < 2 ^ USZ ->
  text_ok (rWB c) sfx ->
  exists ws d',
    range_compress c msg = ROk ws /\
    rdec_decode_all c (msg_models msg) (rdec_from_compressed c (ws ++ sfx)) = ROk (msg_symbols msg, d').
Check C11_outside_known_class : forall c msg sfx,
  wf_rcfg c -> msg_ok c msg -> N.of_nat (length msg) < 2 ^ USZ -> text_ok (rWB c) sfx ->
  ~ range_known_class c msg sfx ->
  exists ws d',
    range_compress c msg = ROk ws /\
    rdec_decode_all c (msg_models msg) (rdec_from_compressed c (ws ++ sfx)) = ROk (msg_symbols msg, d').
Check C11_known_class_fails : forall c msg sfx,
  wf_rcfg c -> msg_ok c msg -> N.of_nat (length msg) < 2 ^ USZ -> text_ok (rWB c) sfx ->
  range_known_class c msg sfx ->
  exists ws, range_compress c msg = ROk ws /\
    forall d', rdec_decode_all c (msg_models msg) (rdec_from_compressed c (ws ++ sfx)) <> ROk (msg_symbols msg, d').

Print Assumptions C11_seal_pins_two_word_state.
Print Assumptions C11_outside_known_class.
Print Assumptions C11_known_class_fails.
Print Assumptions C11_known_class_is_wide.
Print Assumptions C11_one_word_seal_pins.
Print Assumptions C11_back_to_back.
Print Assumptions C11_with_backend_appends.
Print Assumptions C11_with_backend_roundtrip.
Print Assumptions C11_refuted_wide.
