(* Props/C07_ans.v -- random access on the stack coder. Statements only. *)
From CV Require Import Base.Bits Model.EModel Model.Ans Proofs.Ans_extra.
Open Scope N_scope.

(* a (position, state) snapshot taken between two symbols, handed to a decoder over the
   finished compressed bulk -- wherever that decoder was before, however often -- restores the
   coder exactly as it was at the snapshot; by C01 it then decodes the symbols pushed before
   that point, newest first. *)
Theorem C07_ans_seek_snapshot : forall c a_k l a_fin,
  ans_encode_all c l a_k = Some a_fin ->
  ans_seek (rev (bulk a_fin)) (ans_pos a_k) = Some a_k.
Proof. exact ans_seek_snapshot. Qed.

(* positions beyond the data are rejected *)
Theorem C07_ans_seek_refuse : forall buf p,
  N.of_nat (length buf) < fst p -> ans_seek buf p = None.
Proof. exact ans_seek_refuse. Qed.

Check C07_ans_seek_snapshot : forall c a_k l a_fin,
  ans_encode_all c l a_k = Some a_fin -> ans_seek (rev (bulk a_fin)) (ans_pos a_k) = Some a_k.

Print Assumptions C07_ans_seek_snapshot.
Print Assumptions C07_ans_seek_refuse.
