(* Props/C19.v -- model constructors reject invalid input instead of building a broken model.
   Statements only.  GROUP of the fixed-point constructors and UniformModel::new (float
   constructors and the leaky quantiser's support check are added by their owners):
     C19_validator_sound, C19_validator_complete, C19_*_accepts_iff, C19_*_rejects_*,
     C19_ncdec_accepts_duplicates_refuted (known finding noncontig_decoder_duplicate_symbols).
   [valid_probs P ps] = every entry > 0, the UNBOUNDED sum is exactly 2^P, at least two entries
   (hence every entry < 2^P: no symbol with probability one).
   [full_probs c ps infer] = ps, resp. ps ++ [2^P - sum ps] for infer_last_probability. *)
From CV Require Import Base.Bits Model.EModel Model.MBase Model.Uniform Model.Tables Model.Lookup Model.Convert.
From CV Require Import Proofs.Models_base Proofs.Models_validator Proofs.Models_tables Proofs.Models_ctor
  Proofs.Models_uniform Proofs.Models_lookup Proofs.Models_props.
Open Scope N_scope.

(* ---- the validator itself (accumulate_nonzero_probabilities), for EVERY closure [op] ---- *)
Theorem C19_validator_sound : forall c St (op : St -> Z -> N -> N -> res St) probs syms infer st r,
  wf_mcfg c -> probs_typed c probs ->
  accumulate c op probs syms infer st = Ok r ->
  valid_probs (PR c) (full_probs c probs infer).
Proof. intros c St op probs syms infer st r Hc. exact (accumulate_accepts_valid c op Hc probs syms infer st r). Qed.

Theorem C19_validator_never_probability_one : forall P probs,
  valid_probs P probs -> Forall (fun p => 0 < p < 2 ^ P) probs /\ (2 <= length probs)%nat.
Proof. intros P probs H. split; [apply valid_probs_lt; exact H|apply H]. Qed.

(* every well-formed table passes the checks -- with and without infer_last_probability, at
   every precision incl. PRECISION = Probability::BITS (wf_mcfg: 0 < P <= PB) -- and the
   closure sees every probability with its exact left cumulative *)
Theorem C19_validator_complete : forall c St (op : St -> Z -> N -> N -> res St) probs syms infer st,
  wf_mcfg c -> valid_probs (PR c) (full_probs c probs infer) ->
  accumulate c op probs syms infer st = fold_op op st syms 0 (full_probs c probs infer).
Proof. intros c St op probs syms infer st Hc. exact (accumulate_valid_eq c op Hc probs syms infer st). Qed.

(* ---- per constructor: accepted  <->  well-formed (and what is built) ---- *)
Theorem C19_contiguous_accepts_iff : forall c probs infer m,
  wf_mcfg c -> probs_typed c probs ->
  (contig_from_probs c probs infer = Ok m <->
   valid_probs (PR c) (full_probs c probs infer) /\ m = cdf_of c (full_probs c probs infer)).
Proof. intros c probs infer m Hc. exact (contig_from_probs_iff c Hc probs infer m). Qed.

Theorem C19_contiguous_rejects_invalid : forall c probs infer,
  wf_mcfg c -> probs_typed c probs -> ~ valid_probs (PR c) (full_probs c probs infer) ->
  contig_from_probs c probs infer = Fail E_ERR.
Proof. exact p_rejects_invalid_contig. Qed.

Theorem C19_noncontiguous_decoder_accepts_iff : forall c ss probs infer m,
  wf_mcfg c -> probs_typed c probs ->
  (ncdec_from_probs c ss probs infer = Ok m <->
   valid_probs (PR c) (full_probs c probs infer) /\
   length ss = length (full_probs c probs infer) /\
   m = ecdf c ss (full_probs c probs infer) (last ss 0%Z)).
Proof. intros c ss probs infer m Hc. exact (ncdec_from_probs_iff c Hc ss probs infer m). Qed.

(* invalid table or symbol/probability count mismatch (either direction) *)
Theorem C19_noncontiguous_decoder_rejects : forall c ss probs infer,
  wf_mcfg c -> probs_typed c probs ->
  ~ (valid_probs (PR c) (full_probs c probs infer) /\ length ss = length (full_probs c probs infer)) ->
  ncdec_from_probs c ss probs infer = Fail E_ERR.
Proof. exact p_ncdec_rejects. Qed.

Theorem C19_noncontiguous_encoder_accepts_iff : forall c ss probs infer,
  wf_mcfg c -> probs_typed c probs ->
  ((exists m, ncenc_from_probs c ss probs infer = Ok m) <->
   valid_probs (PR c) (full_probs c probs infer) /\
   length ss = length (full_probs c probs infer) /\ NoDup ss).
Proof. intros c ss probs infer Hc. exact (ncenc_from_probs_iff c Hc ss probs infer). Qed.

(* invalid table, count mismatch, or a symbol listed twice *)
Theorem C19_noncontiguous_encoder_rejects : forall c ss probs infer,
  wf_mcfg c -> probs_typed c probs ->
  ~ (valid_probs (PR c) (full_probs c probs infer) /\
     length ss = length (full_probs c probs infer) /\ NoDup ss) ->
  ncenc_from_probs c ss probs infer = Fail E_ERR.
Proof. exact p_ncenc_rejects. Qed.

Theorem C19_lookup_accepts_iff : forall c probs infer m,
  wf_mcfg_lookup c -> probs_typed c probs ->
  (lkc_from_probs c probs infer = Ok m <->
   valid_probs (PR c) (full_probs c probs infer) /\ m = lkc_of c (full_probs c probs infer)).
Proof. intros c probs infer m Hc. exact (lkc_from_probs_iff c Hc probs infer m). Qed.

Theorem C19_lookup_noncontiguous_accepts_iff : forall c ss probs infer m,
  wf_mcfg_lookup c -> probs_typed c probs ->
  (lkn_from_probs c ss probs infer = Ok m <->
   valid_probs (PR c) (full_probs c probs infer) /\
   length ss = length (full_probs c probs infer) /\
   m = lkn_of c ss (full_probs c probs infer)).
Proof. intros c ss probs infer m Hc. exact (lkn_from_probs_iff c Hc ss probs infer m). Qed.

(* UniformModel::new: exactly the ranges 2 .. 2^P; everything else panics (assert!) *)
Theorem C19_uniform_accepts_iff : forall c range m,
  wf_mcfg_uniform c -> range < 2 ^ UB c ->
  (uniform_new c range = Ok m <->
   2 <= range <= 2 ^ PR c /\ m = {| u_ppb := 2 ^ PR c / range; u_last := range - 1 |}).
Proof. intros c range m Hc. exact (uniform_new_iff c Hc range m). Qed.

Theorem C19_uniform_rejects : forall c range e,
  wf_mcfg_uniform c -> range < 2 ^ UB c -> uniform_new c range = Fail e ->
  e = E_PANIC /\ ~ (2 <= range <= 2 ^ PR c).
Proof. intros c range e Hc. exact (uniform_new_reject c Hc range e). Qed.

(* ---- REFUTED as worded ("duplicate symbols are rejected by every constructor"):
   the decoder-only constructors accept a symbol list with duplicates ---- *)
Theorem C19_ncdec_accepts_duplicates_refuted :
  exists c ss probs m l,
    wf_mcfg_lookup c /\ probs_typed c probs /\ ~ NoDup ss /\
    ncdec_from_probs c ss probs false = Ok m /\ lkn_from_probs c ss probs false = Ok l /\
    ncdec_table c m = Ok [(7%Z, 0, 128); (7%Z, 128, 128)].
Proof.
  exists {| PB := 8; UB := 64; PR := 8 |}, [7%Z; 7%Z], [128; 128]. eexists. eexists.
  split; [unfold wf_mcfg_lookup, wf_mcfg; cbn; lia|].
  split; [repeat constructor|].
  split; [intros H; inversion H as [|? ? Hn _]; apply Hn; left; reflexivity|].
  split; [vm_compute; reflexivity|]. split; [vm_compute; reflexivity|]. vm_compute. reflexivity.
Qed.

Check C19_validator_sound : forall c St (op : St -> Z -> N -> N -> res St) probs syms infer st r,
  wf_mcfg c -> probs_typed c probs ->
  accumulate c op probs syms infer st = Ok r -> valid_probs (PR c) (full_probs c probs infer).
Check C19_validator_complete : forall c St (op : St -> Z -> N -> N -> res St) probs syms infer st,
  wf_mcfg c -> valid_probs (PR c) (full_probs c probs infer) ->
  accumulate c op probs syms infer st = fold_op op st syms 0 (full_probs c probs infer).
Check C19_contiguous_accepts_iff : forall c probs infer m,
  wf_mcfg c -> probs_typed c probs ->
  (contig_from_probs c probs infer = Ok m <->
   valid_probs (PR c) (full_probs c probs infer) /\ m = cdf_of c (full_probs c probs infer)).

(* ---- non-vacuity / the malformed classes on concrete inputs (u8: P = 8 = BITS and P = 5) ---- *)
Definition c8_8 : mcfg := {| PB := 8; UB := 64; PR := 8 |}.
Definition c8_5 : mcfg := {| PB := 8; UB := 64; PR := 5 |}.
Definition rejected (r : res contig) : Prop := r = Fail E_ERR.
Example ex_valid_full_precision : valid_probs 8 [100; 100; 56] /\ valid_probs 8 (full_probs c8_8 [100; 100] true).
Proof. split; apply valid_probsb_spec; vm_compute; reflexivity. Qed.
Example ex_accept : contig_from_probs c8_8 [100; 100; 56] false = Ok [0; 100; 200; 0]
  /\ contig_from_probs c8_8 [100; 100] true = Ok [0; 100; 200; 0]
  /\ contig_from_probs c8_5 [31] true = Ok [0; 31; 32].
Proof. repeat split; vm_compute; reflexivity. Qed.
Example ex_reject_zero : rejected (contig_from_probs c8_8 [100; 0; 156] false).
Proof. vm_compute. reflexivity. Qed.
Example ex_reject_oversize : rejected (contig_from_probs c8_5 [33; 1] false).
Proof. vm_compute. reflexivity. Qed.
Example ex_reject_wrap_to_total : rejected (contig_from_probs c8_5 [250; 38] false).   (* 288 = 256 + 32 *)
Proof. vm_compute. reflexivity. Qed.
Example ex_reject_total_plus1 : rejected (contig_from_probs c8_5 [16; 17] false).
Proof. vm_compute. reflexivity. Qed.
Example ex_reject_total_minus1 : rejected (contig_from_probs c8_8 [128; 127] false).
Proof. vm_compute. reflexivity. Qed.
Example ex_reject_two_laps : rejected (contig_from_probs c8_8 [128; 128; 128; 128] false).
Proof. vm_compute. reflexivity. Qed.
Example ex_reject_single : rejected (contig_from_probs c8_5 [32] false) /\ rejected (contig_from_probs c8_8 [0] false)
  /\ rejected (contig_from_probs c8_8 [] true) /\ rejected (contig_from_probs c8_8 [] false).
Proof. repeat split; vm_compute; reflexivity. Qed.
Example ex_reject_infer_full : rejected (contig_from_probs c8_5 [16; 16] true).
Proof. vm_compute. reflexivity. Qed.
Example ex_reject_dup_count : ncenc_from_probs c8_8 [7; 7]%Z [128; 128] false = Fail E_ERR
  /\ ncenc_from_probs c8_8 [7; 8; 9]%Z [128; 128] false = Fail E_ERR
  /\ ncdec_from_probs c8_8 [7]%Z [128; 128] false = Fail E_ERR
  /\ ncdec_from_probs c8_8 [7; 8; 9]%Z [128; 128] false = Fail E_ERR.
Proof. repeat split; vm_compute; reflexivity. Qed.
Example ex_reject_uniform : uniform_new c8_5 1 = Fail E_PANIC /\ uniform_new c8_5 33 = Fail E_PANIC
  /\ uniform_new c8_8 257 = Fail E_PANIC /\ uniform_new c8_8 (256 + 5) = Fail E_PANIC.
Proof. repeat split; vm_compute; reflexivity. Qed.

Print Assumptions C19_validator_sound.
Print Assumptions C19_validator_never_probability_one.
Print Assumptions C19_validator_complete.
Print Assumptions C19_contiguous_accepts_iff.
Print Assumptions C19_contiguous_rejects_invalid.
Print Assumptions C19_noncontiguous_decoder_accepts_iff.
Print Assumptions C19_noncontiguous_decoder_rejects.
Print Assumptions C19_noncontiguous_encoder_accepts_iff.
Print Assumptions C19_noncontiguous_encoder_rejects.
Print Assumptions C19_lookup_accepts_iff.
Print Assumptions C19_lookup_noncontiguous_accepts_iff.
Print Assumptions C19_uniform_accepts_iff.
Print Assumptions C19_uniform_rejects.
Print Assumptions C19_ncdec_accepts_duplicates_refuted.
