(* Proofs/Chain_flip.v -- every alteration of ONE chunk is realised by data of the
   same length: the chunk stream is a bijective re-arrangement of the data bits
   (built from put . take = id and take . put = id of Chain_bits.v). *)
From CV Require Import Base.Bits Model.EModel Model.Chain Proofs.Chain_bits Proofs.Chain_rem
  Proofs.Chain_step Proofs.Chain_local Proofs.Chain_io.
From Coq Require Import ZifyBool ZifyN.
Open Scope N_scope.
Set Default Timeout 30.

Section Flip.
Variable c : ccfg.
Variable P : N.
Hypothesis Hwf : wf_ccfg c P.

Let W := cWB c.

(* the effect of a put on (number of words, bit length of the buffer) does not depend
   on the quantile, and only on the shape of the state it is applied to *)
Lemma put_i_shape q1 q2 cm1 h1 cm2 h2 :
  headok c h1 -> headok c h2 -> q1 < 2 ^ P -> q2 < 2 ^ P ->
  length cm1 = length cm2 -> N.log2 h1 = N.log2 h2 ->
  length (fst (put_i c P q1 cm1 h1)) = length (fst (put_i c P q2 cm2 h2))
  /\ N.log2 (snd (put_i c P q1 cm1 h1)) = N.log2 (snd (put_i c P q2 cm2 h2)).
Proof.
  intros [Ha _] [Hb _] Hq1 Hq2 Hlen Hlog. unfold put_i. fold W.
  destruct (P =? W); cbn [fst snd length].
  - split; [f_equal; exact Hlen|exact Hlog].
  - destruct (N.ltb_spec h1 (2 ^ (W - P))) as [L1|L1];
    destruct (N.ltb_spec h2 (2 ^ (W - P))) as [L2|L2]; cbn [fst snd length].
    + split; [exact Hlen|]. rewrite !(log2_shift_add c) by assumption. lia.
    + apply (lt_pow_log2 c h1 _ Ha) in L1. assert (~ h2 < 2 ^ (W - P)) by lia.
      rewrite (lt_pow_log2 c h2 _ Hb) in H. lia.
    + apply (lt_pow_log2 c h2 _ Hb) in L2. assert (~ h1 < 2 ^ (W - P)) by lia.
      rewrite (lt_pow_log2 c h1 _ Ha) in H. lia.
    + split; [f_equal; exact Hlen|]. rewrite !log2_div. lia.
Qed.

Lemma chain_put_shape' q1 q2 cm1 h1 cm2 h2 :
  headok c h1 -> headok c h2 -> q1 < 2 ^ P -> q2 < 2 ^ P ->
  length cm1 = length cm2 -> N.log2 h1 = N.log2 h2 ->
  length (fst (chain_put c P q1 cm1 h1)) = length (fst (chain_put c P q2 cm2 h2))
  /\ N.log2 (snd (chain_put c P q1 cm1 h1)) = N.log2 (snd (chain_put c P q2 cm2 h2)).
Proof.
  intros H1 H2 Hq1 Hq2. rewrite (put_eq_i c P Hwf q1 cm1 h1 H1 Hq1), (put_eq_i c P Hwf q2 cm2 h2 H2 Hq2).
  apply put_i_shape; assumption.
Qed.

Lemma chunks_update j : forall cm h q',
  headok c h -> wordsok c cm -> (j < length (chunks_of c P cm h))%nat -> q' < 2 ^ P ->
  exists cm' h', headok c h' /\ wordsok c cm' /\ length cm' = length cm /\ N.log2 h' = N.log2 h
    /\ chunks_of c P cm' h' = replace_nth j q' (chunks_of c P cm h).
Proof.
  induction j as [|j IH]; intros cm h q' Hh Hcm Hj Hq'.
  - rewrite (chunks_of_unfold c P Hwf cm h Hh Hcm) in Hj |- *.
    destruct (chain_take c P cm h) as [[[qw cm1] h1]|] eqn:Et; [|cbn in Hj; lia].
    destruct (chain_take_ok c P Hwf _ _ _ _ _ Hh Hcm Et) as (Hqw & Hh1 & Hcm1).
    destruct (chain_put c P q' cm1 h1) as [cm' h'] eqn:Ep.
    destruct (chain_put_ok c P Hwf _ _ _ _ _ Hh1 Hcm1 Hq' Ep) as [Hh' Hcm'].
    pose proof (chain_take_put c P Hwf _ _ _ _ _ Hh1 Hcm1 Hq' Ep) as Et'.
    pose proof (chain_put_take c P Hwf _ _ _ _ _ Hh Hcm Et) as Eback.
    pose proof (chain_put_shape' q' qw cm1 h1 cm1 h1 Hh1 Hh1 Hq' Hqw eq_refl eq_refl) as Hs.
    rewrite Ep, Eback in Hs. cbn [fst snd] in Hs. destruct Hs as [Hs1 Hs2].
    exists cm', h'. split; [exact Hh'|]. split; [exact Hcm'|]. split; [exact Hs1|]. split; [exact Hs2|].
    rewrite (chunks_of_unfold c P Hwf cm' h' Hh' Hcm'), Et'.
    rewrite (trunc_PB_small c P Hwf q' Hq'). reflexivity.
  - rewrite (chunks_of_unfold c P Hwf cm h Hh Hcm) in Hj |- *.
    destruct (chain_take c P cm h) as [[[qw cm1] h1]|] eqn:Et; [|cbn in Hj; lia].
    destruct (chain_take_ok c P Hwf _ _ _ _ _ Hh Hcm Et) as (Hqw & Hh1 & Hcm1).
    cbn [length] in Hj.
    destruct (IH cm1 h1 q' Hh1 Hcm1 ltac:(lia) Hq') as (cm1' & h1' & Hh1' & Hcm1' & Hl & Hg & Hch).
    destruct (chain_put c P qw cm1' h1') as [cm' h'] eqn:Ep.
    destruct (chain_put_ok c P Hwf _ _ _ _ _ Hh1' Hcm1' Hqw Ep) as [Hh' Hcm'].
    pose proof (chain_take_put c P Hwf _ _ _ _ _ Hh1' Hcm1' Hqw Ep) as Et'.
    pose proof (chain_put_take c P Hwf _ _ _ _ _ Hh Hcm Et) as Eback.
    pose proof (chain_put_shape' qw qw cm1' h1' cm1 h1 Hh1' Hh1 Hqw Hqw Hl Hg) as Hs.
    rewrite Ep, Eback in Hs. cbn [fst snd] in Hs. destruct Hs as [Hs1 Hs2].
    exists cm', h'. split; [exact Hh'|]. split; [exact Hcm'|]. split; [exact Hs1|]. split; [exact Hs2|].
    rewrite (chunks_of_unfold c P Hwf cm' h' Hh' Hcm'), Et', Hch. reflexivity.
Qed.

(* the words consumed by ChainCoderHeads::new form a prefix of the source that is
   consumed in the same way whatever follows it *)
Lemma fill_prefix s : forall a s' rh,
  heads_fill c P s a = (s', Some rh) ->
  exists pre, s = pre ++ s' /\ forall x, heads_fill c P (pre ++ x) a = (x, Some rh).
Proof.
  induction s as [|w r IH]; intros a s' rh Hf; cbn [heads_fill] in Hf.
  - destruct (a <? shl (cSB c) 1 (cSB c - cWB c - P)) eqn:E; [discriminate|].
    inversion Hf; subst. exists []. split; [reflexivity|].
    intros x. destruct x; cbn [app heads_fill]; rewrite E; reflexivity.
  - destruct (a <? shl (cSB c) 1 (cSB c - cWB c - P)) eqn:E.
    + destruct (IH _ _ _ Hf) as (pre & Hs & Hx).
      exists (w :: pre). split; [cbn; rewrite Hs; reflexivity|].
      intros x. cbn [app heads_fill]. rewrite E. apply Hx.
    + inversion Hf; subst. exists []. split; [reflexivity|].
      intros x. destruct x; cbn [app heads_fill]; rewrite E; reflexivity.
Qed.

Lemma log2_zero_one h : 1 <= h -> N.log2 h = 0 -> h = 1.
Proof.
  intros Hh Hl. destruct (N.log2_spec h ltac:(lia)) as [_ Hhi]. rewrite Hl in Hhi.
  change (2 ^ N.succ 0) with 2 in Hhi. lia.
Qed.

(* data-level statement: any chunk of from_binary data can be set to any value by
   changing data bits only -- same number of words, same remainders head, every other
   chunk untouched *)
Theorem chain_chunk_update data ch j q' :
  Forall (fun w => w < 2 ^ cWB c) data -> chain_from_binary c P data = inl ch ->
  (j < length (chunks c P data))%nat -> q' < 2 ^ P ->
  exists data' ch',
    length data' = length data /\ Forall (fun w => w < 2 ^ cWB c) data'
    /\ chain_from_binary c P data' = inl ch' /\ hr ch' = hr ch
    /\ chunks c P data' = replace_nth j q' (chunks c P data).
Proof.
  intros Hd Hfb Hj Hq'.
  destruct (from_binary_spec c P Hwf data ch Hd Hfb) as (Hinv & _ & Hhc & _).
  apply chain_inv_parts in Hinv. destruct Hinv as (Hh & _ & Hcm & _).
  rewrite (chunks_from_binary c P data ch Hfb) in Hj |- *. rewrite chain_chunks_of in Hj |- *.
  rewrite Hhc in Hj, Hh |- *.
  destruct (chunks_update j (comp ch) 1 q' Hh Hcm Hj Hq') as (cm' & h' & Hh' & Hcm' & Hl & Hg & Hch).
  assert (h' = 1) by (apply log2_zero_one; [destruct Hh'; assumption|exact Hg]). subst h'.
  revert Hfb. unfold chain_from_binary, heads_new.
  destruct (heads_fill c P (rev data) 1) as [src [rh|]] eqn:Ef; [|discriminate].
  intros E; inversion E; subst ch; clear E. cbn [comp hr] in *.
  destruct (fill_prefix _ _ _ _ Ef) as (pre & Hs & Hx).
  exists (rev (pre ++ cm')), {| comp := cm'; rems := []; hc := 1; hr := rh |}.
  split; [|split; [|split; [|split]]].
  - rewrite rev_length, app_length, Hl, <- app_length, <- Hs, rev_length. reflexivity.
  - apply Forall_rev. apply Forall_app. split; [|exact Hcm'].
    pose proof (Forall_rev Hd) as Hrd. rewrite Hs in Hrd. apply Forall_app in Hrd. tauto.
  - unfold chain_from_binary, heads_new. rewrite rev_involutive, Hx. reflexivity.
  - reflexivity.
  - unfold chunks, chain_from_binary, heads_new. rewrite rev_involutive, Hx.
    rewrite chain_chunks_of. cbn [comp hc]. exact Hch.
Qed.

End Flip.
