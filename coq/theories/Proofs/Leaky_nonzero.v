(* Proofs/Leaky_nonzero.v -- C20 for the leaky quantiser: whatever the distribution's CDF returns
   (no monotonicity, no range assumption: [nl] is an arbitrary function), no probability handed
   out by quantile_function or by the symbol_table iterator is zero.  (True of the model after the
   repair of finding F16; before it both sites used into_nonzero_unchecked.) *)
From CV Require Import Base.Bits Model.EModel Model.Leaky.
From Coq Require Import ZArith List Lia.
Import ListNotations.
Set Default Timeout 60.
Open Scope Z_scope.

Lemma finish_nonzero c r s cu p : finish c r = DOk s cu p -> p <> 0%N.
Proof.
  destruct r as [st|s' l rr| |]; cbn [finish]; try discriminate.
  destruct (N.eqb_spec (wsubP c rr l) 0) as [|Hne]; [discriminate|].
  intros H. injection H as _ _ <-. exact Hne.
Qed.

Lemma lq_dec_nonzero c dbg lo hi nl q ifuel fuel hint s cu p :
  lq_dec c dbg lo hi nl q ifuel fuel hint = DOk s cu p -> p <> 0%N.
Proof.
  unfold lq_dec.
  destruct (maxprob c <? q)%N; [discriminate|].
  destruct (hint <=? lo).
  - destruct (q <? 0)%N.
    + destruct (csubS c dbg lo 1); [|discriminate]. apply finish_nonzero.
    + apply finish_nonzero.
  - destruct (lcum c dbg lo nl (if hi <? hint then hi else hint)) as [l|]; [|discriminate].
    destruct (q <? l)%N.
    + destruct (csubS c dbg (if hi <? hint then hi else hint) 1); [|discriminate]. apply finish_nonzero.
    + apply finish_nonzero.
Qed.

Theorem lq_quantile_nonzero c dbg lo hi nl hintv q s cu p :
  lq_quantile c dbg lo hi nl hintv q = DOk s cu p -> p <> 0%N.
Proof. unfold lq_quantile. apply lq_dec_nonzero. Qed.

Lemma lq_iter_nonzero c dbg lo hi nl fuel : forall s lft t,
  lq_iter c dbg lo hi nl fuel s lft = Some t -> Forall (fun e => snd e <> 0%N) t.
Proof.
  induction fuel as [|f IH]; intros s lft t; cbn [lq_iter].
  - intros H. injection H as <-. constructor.
  - destruct (s =? hi).
    + destruct (N.eqb_spec (wsubP c (wpow2 c (PR c)) lft) 0) as [|Hne]; [discriminate|].
      intros H. injection H as <-. constructor; [exact Hne|constructor].
    + destruct (caddS c dbg s 1) as [nx|]; [|discriminate].
      destruct (lcum c dbg lo nl nx) as [rgt|]; [|discriminate].
      destruct (N.eqb_spec (wsubP c rgt lft) 0) as [|Hne]; [discriminate|].
      destruct (lq_iter c dbg lo hi nl f nx rgt) as [r|] eqn:Hr; [|discriminate].
      intros H. injection H as <-. constructor; [exact Hne|]. exact (IH _ _ _ Hr).
Qed.

Theorem lq_table_nonzero c dbg lo hi nl t :
  lq_table c dbg lo hi nl = Some t -> Forall (fun e => snd e <> 0%N) t.
Proof. unfold lq_table. apply lq_iter_nonzero. Qed.
