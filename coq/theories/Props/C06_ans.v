(* Props/C06_ans.v -- the ANS coder's bit stream is the published rANS format. Statements only. *)
From CV Require Import Base.Bits Model.EModel Model.Ans Model.AnsRef.
From CV Require Import Proofs.Ans_core Proofs.Ans_size Proofs.Ans_ref Corr.Docvec_run.
Open Scope N_scope.

(* one step of the shift/or/cast machine model is the arithmetic rANS step
   x -> (x / p) * 2^P + cum + x mod p, preceded by emitting the low word iff x >= p * 2^(S-P) *)
Theorem C06_ans_step_arith : forall c P cum p a,
  wf_cfg c -> 0 < P -> P <= WB c -> wf_entry P cum p -> st a < 2 ^ SB c ->
  ans_encode c P cum p a = enc_ideal c P cum p a /\ st (enc_ideal c P cum p a) < 2 ^ SB c.
Proof. intros c P cum p a Hc HP0 HPW. exact (enc_eq_ideal c Hc P HP0 HPW cum p a). Qed.

(* whole messages: the exported words equal the reference implementation's words
   (least significant word of the final state first, no leading zero words) *)
Theorem C06_ans_stream : forall c l,
  wf_cfg c -> Forall (entry_ok c) l ->
  ans_words c (encode_entries c l ans_empty) = ans_ref (WB c) (SB c) l.
Proof. intros c l Hc. exact (ans_emits_reference c Hc l). Qed.

Check C06_ans_stream : forall c l,
  wf_cfg c -> Forall (entry_ok c) l ->
  ans_words c (encode_entries c l ans_empty) = ans_ref (WB c) (SB c) l.

(* the byte-exact example of README-rust.md / src/lib.rs *)
Example C06_readme_ans : readme_ans_words = [0x421C7EC3; 0x000B8ED1].
Proof. vm_compute. reflexivity. Qed.

Example C06_readme_entries_ok : Forall (entry_ok {| WB := 32; SB := 64 |}) (rev readme_entries).
Proof. repeat constructor; vm_compute; try reflexivity; try discriminate. Qed.

Print Assumptions C06_ans_step_arith.
Print Assumptions C06_ans_stream.
