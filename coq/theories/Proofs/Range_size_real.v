(* Proofs/Range_size_real.v -- the range coder's size bound (C12) read in bits. *)
From CV Require Import Base.Bits Model.EModel Model.Range Model.RangeSpec Proofs.Range_base Proofs.Range_spec
  Proofs.Range_enc Proofs.Range_dec Proofs.Range_roundtrip Proofs.Range_extra Proofs.Ans_size_real.
From Coq Require Import Reals Lra.
Open Scope R_scope.
Set Default Timeout 30.

Section RBits.
Variable c : rcfg.
Hypothesis Hc : wf_rcfg c.

Fixpoint roverhead_bits (l : list (N * N * N)) : R :=
  match l with [] => 0 | (P, _, _) :: r => (lg (Kof c P + 1) - lg (Kof c P)) + roverhead_bits r end.

Lemma rKof_pos P : (0 < Kof c P)%N.
Proof. apply pow2_pos. Qed.

Lemma prod_in_pos l : Forall (step_ok c) l -> (0 < prod_in c l)%N.
Proof.
  induction l as [|[[P cum] p] r IH]; intros Hl; cbn [prod_in]; [lia|].
  inversion Hl as [|? ? He Hr]; subst. cbn in He. destruct He as (_ & Hp & _).
  specialize (IH Hr). pose proof (rKof_pos P). nia.
Qed.

Lemma prod_out_pos l : (0 < prod_out c l)%N.
Proof.
  induction l as [|[[P cum] p] r IH]; cbn [prod_out]; [lia|].
  pose proof (pow2_pos P). pose proof (rKof_pos P). nia.
Qed.

Lemma lg_out_in l :
  Forall (step_ok c) l ->
  lg (prod_out c l) - lg (prod_in c l) = info_bits l + roverhead_bits l.
Proof.
  induction l as [|[[P cum] p] r IH]; intros Hl; cbn [prod_in prod_out info_bits roverhead_bits].
  - unfold lg, log2, RN. cbn. rewrite ln_1. lra.
  - inversion Hl as [|? ? He Hr]; subst. cbn in He. destruct He as (_ & Hp & _).
    pose proof (rKof_pos P) as HK. pose proof (pow2_pos P) as H2.
    pose proof (prod_in_pos r Hr) as Hd. pose proof (prod_out_pos r) as Hn.
    rewrite !lg_mul by nia. rewrite lg_pow2. specialize (IH Hr). lra.
Qed.

(* bits of the sealed stream <= 2 words + 1 + information content + rounding overhead *)
Theorem range_size_bits msg :
  msg_ok c msg -> (N.of_nat (length msg) < 2 ^ USZ)%N ->
  exists tr ws, msg_triples msg = Some tr /\ range_compress c msg = ROk ws /\
    RN (rWB c * N.of_nat (length ws)) <= 2 * RN (rWB c) + 1 + info_bits tr + roverhead_bits tr.
Proof.
  intros Hmsg Hlen.
  destruct (compress_spec c Hc msg Hmsg Hlen) as (tr0 & e & Etr0 & Htr0 & _).
  destruct (range_size c Hc msg Hmsg Hlen) as (tr & ws & Etr & Ecomp & _ & Hprod).
  assert (tr0 = tr) by congruence. subst tr0.
  exists tr, ws. split; [assumption|]. split; [assumption|].
  pose proof (prod_in_pos tr Htr0) as Hin. pose proof (prod_out_pos tr) as Hout.
  unfold Bp, Bw, Mw in Hprod.
  set (W := rWB c) in *. set (S := rSB c) in *.
  assert (HS1 : (1 <= S)%N).
  { destruct Hc as (HW & H2 & _). subst S W. lia. }
  assert (HM1 : (2 ^ (S - 1) <= 2 ^ S - 1)%N).
  { replace S with (S - 1 + 1)%N at 2 by lia. rewrite N.pow_add_r, N.pow_1_r.
    pose proof (pow2_pos (S - 1)). lia. }
  assert (Hpos1 : (0 < 2 ^ (W * N.of_nat (length ws)))%N) by apply pow2_pos.
  assert (Hpos2 : (0 < 2 ^ (S - 1))%N) by apply pow2_pos.
  assert (HposB : (0 < 2 ^ W)%N) by apply pow2_pos.
  assert (HposM : (0 < 2 ^ S)%N) by apply pow2_pos.
  (* weaken M - 1 to 2^(S-1) on the left *)
  assert (Hweak : (2 ^ (W * N.of_nat (length ws)) * 2 ^ (S - 1) * prod_in c tr
                   <= 2 ^ W * 2 ^ W * 2 ^ S * prod_out c tr)%N).
  { eapply N.le_trans; [|exact Hprod].
    apply N.mul_le_mono_r. apply N.mul_le_mono_l. exact HM1. }
  assert (Hlg : lg (2 ^ (W * N.of_nat (length ws)) * 2 ^ (S - 1) * prod_in c tr)
                <= lg (2 ^ W * 2 ^ W * 2 ^ S * prod_out c tr)).
  { apply lg_le; [nia|exact Hweak]. }
  rewrite !lg_mul in Hlg by nia. rewrite !lg_pow2 in Hlg.
  pose proof (lg_out_in tr Htr0) as Hdn.
  assert (HS : RN S = RN (S - 1) + 1).
  { unfold RN. replace 1 with (IZR 1) by reflexivity. rewrite <- plus_IZR. f_equal. lia. }
  lra.
Qed.

End RBits.
