(* Props/C06_range_doc.v -- the range coder's documented byte-exact example. Statements only. *)
From CV Require Import Base.Bits Model.EModel Model.Range Model.RangeSpec Corr.Docvec_run.
Open Scope N_scope.

(* README-rust.md / src/lib.rs: assert_eq!(compressed, [0x1C31EFEB, 0x87B430DA]).
   [readme_range_words] are the base-2^32 digits of the seal point of the exact big-number interval
   (Model/RangeSpec.v) for the pinned (cum, p) pairs; C06_range_words (Props/RangeExtra.v) states that
   the machine-level encoder emits exactly these digits for every message. *)
Theorem C06_readme_range : readme_range_words = [0x1C31EFEB; 0x87B430DA].
Proof. vm_compute. reflexivity. Qed.

Print Assumptions C06_readme_range.
