(* Corr/Bits_run.v -- runs an integer-encoded history of the bit-level coders on
   Model/BitCoder.v + Model/ExpGolomb.v.  Mirror of harness/src/fam_bits.rs; the
   format is documented in lib/fam_bits.py. *)
From CV Require Import Corr.Parse Model.BitCoder Model.ExpGolomb.
Open Scope Z_scope.

Definition ERR_EOF := -1.
Definition ERR_IMPORT := -2.
Definition ERR_CODEWORD := -5.

Definition UBITS : N := 64%N.

Definition wb_of (ti : Z) : N :=
  match ti with
  | 33 => 32%N
  | 65 => 64%N
  | _ => zN ti
  end.

Definition zb (z : Z) : bool := negb (z =? 0).
Definition bZ (b : bool) : Z := if b then 1 else 0.
Definition obZ (o : option bool) : Z := match o with Some b => bZ b | None => ERR_EOF end.
Definition out_ws (ws : list N) : list Z := Z.of_nat (length ws) :: map nZ ws.

(* bit lists travel packed: the count, then chunks of 60 bits, least significant bit first *)
Fixpoint take_bits (n : nat) (l : list bool) : list bool * list bool :=
  match n with
  | O => ([], l)
  | S n' => match l with
            | [] => ([], [])
            | b :: r => let '(a, t) := take_bits n' r in (b :: a, t)
            end
  end.
Fixpoint bits_val (l : list bool) : Z :=
  match l with [] => 0 | b :: r => bZ b + 2 * bits_val r end.
Fixpoint pack_chunks (fuel : nat) (l : list bool) : list Z :=
  match fuel with
  | O => []
  | S f => match l with
           | [] => []
           | _ => let '(a, r) := take_bits 60 l in bits_val a :: pack_chunks f r
           end
  end.
Definition out_bits (l : list bool) : list Z := Z.of_nat (length l) :: pack_chunks (length l) l.

Fixpoint unpack (n : nat) (z : Z) : list bool :=
  match n with O => [] | S n' => Z.odd z :: unpack n' (Z.div2 z) end.
Fixpoint unpack_chunks (l : list Z) (k : nat) : list bool * list Z :=
  match k with
  | O => ([], l)
  | _ => match l with
         | [] => ([], [])
         | z :: r => let n := Nat.min k 60 in
                     let '(bs, r') := unpack_chunks r (k - n) in (unpack n z ++ bs, r')
         end
  end.
(* count-prefixed packed bit list in the input *)
Definition read_bits (l : list Z) : list bool * list Z :=
  match l with
  | [] => ([], [])
  | k :: r => unpack_chunks r (Z.to_nat k)
  end.

(* results of k reads: the leading delivered bits packed, the rest (end-of-data marks) raw *)
Fixpoint leading_bits (l : list Z) : list bool * list Z :=
  match l with
  | x :: r => if (x =? 0) || (x =? 1) then let '(a, t) := leading_bits r in (zb x :: a, t) else ([], l)
  | [] => ([], [])
  end.
Definition out_reads (l : list Z) : list Z :=
  let '(a, t) := leading_bits l in out_bits a ++ t.
Definition out_len (o : option N) : Z := match o with Some n => nZ n | None => PANIC end.
Definition out_eg (r : egres) : Z :=
  match r with EgOk n => nZ n | EgInvalid => ERR_CODEWORD | _ => PANIC end.

Definition raw_bc (c : bitc) : list Z := out_ws (rev (bk c)) ++ [nZ (cur c); nZ (mask c)].
Definition raw_qd (d : qdec) : list Z := out_ws (qws d) ++ [nZ (qcur d); nZ (qmask d)].

Definition st_fuel (wb : N) (c : bitc) : nat := ((length (bk c) + 2) * N.to_nat wb + 2)%nat.
Definition qd_fuel (wb : N) (d : qdec) : nat := ((length (qws d) + 2) * N.to_nat wb + 2)%nat.

Fixpoint st_reads (wb : N) (k : nat) (c : bitc) : list Z * bitc :=
  match k with
  | O => ([], c)
  | S k' => let '(o, c') := st_read_bit wb c in
            let '(l, c'') := st_reads wb k' c' in (obZ o :: l, c'')
  end.

Fixpoint qd_reads (wb : N) (k : nat) (d : qdec) : list Z * qdec :=
  match k with
  | O => ([], d)
  | S k' => let '(o, d') := qd_read_bit wb d in
            let '(l, d'') := qd_reads wb k' d' in (obZ o :: l, d'')
  end.

Fixpoint st_decs (wb vt : N) (k : nat) (c : bitc) : list Z * bitc :=
  match k with
  | O => ([], c)
  | S k' => let '(r, c') := st_decode_eg wb vt (st_fuel wb c) c in
            let '(l, c'') := st_decs wb vt k' c' in (out_eg r :: l, c'')
  end.

Fixpoint qd_decs (wb vt : N) (k : nat) (d : qdec) : list Z * qdec :=
  match k with
  | O => ([], d)
  | S k' => let '(r, d') := qd_decode_eg wb vt (qd_fuel wb d) d in
            let '(l, d'') := qd_decs wb vt k' d' in (out_eg r :: l, d'')
  end.

Definition st_encs (wb vt : N) (ns : list Z) (c : bitc) : bitc :=
  fold_left (fun c n => st_encode_eg wb vt (zN n) c) ns c.
Definition qe_encs (wb vt : N) (ns : list Z) (c : bitc) : bitc :=
  fold_left (fun c n => qe_encode_eg wb vt (zN n) c) ns c.

Fixpoint bits_loop (fuel : nat) (wb : N) (l : list Z) (s q : bitc) (d : qdec) : list Z :=
  match fuel with
  | O => raw_bc s ++ raw_bc q ++ raw_qd d
  | S f =>
    match l with
    | [] => raw_bc s ++ raw_bc q ++ raw_qd d
    (* ---- stack coder ---- *)
    | 1 :: b :: r => 0 :: bits_loop f wb r (bc_write_bit wb (zb b) s) q d
    | 2 :: r => let '(o, s') := st_read_bit wb s in obZ o :: bits_loop f wb r s' q d
    | 3 :: r => out_len (bc_len UBITS wb s) :: bZ (bc_is_empty s) :: bits_loop f wb r s q d
    | 4 :: r =>
        let ws := st_into_compressed wb s in
        match st_from_compressed wb ws with
        | inl s' => out_ws ws ++ 0 :: bits_loop f wb r s' q d
        | inr _ => out_ws ws ++ ERR_IMPORT :: bits_loop f wb r bc_new q d
        end
    | 5 :: r =>
        let g := st_guard_new wb s in
        out_ws (bc_guard_view g) ++ bits_loop f wb r (st_guard_drop wb g) q d
    | 6 :: r =>
        let dc := st_as_decoder s in
        out_len (bc_len UBITS wb dc) :: out_bits (fst (st_drain wb (st_fuel wb dc) dc))
          ++ bits_loop f wb r s q d
    | 7 :: k :: r =>
        let '(os, s') := st_reads wb (Z.to_nat k) s in out_reads os ++ bits_loop f wb r s' q d
    | 8 :: vt :: n :: r => 0 :: bits_loop f wb r (st_encode_eg wb (zN vt) (zN n) s) q d
    | 9 :: vt :: r =>
        let '(res, s') := st_decode_eg wb (zN vt) (st_fuel wb s) s in
        out_eg res :: bits_loop f wb r s' q d
    | 10 :: r =>
        let '(ws, r') := read_list r in
        match st_from_compressed wb (map zN ws) with
        | inl s' => 0 :: bits_loop f wb r' s' q d
        | inr back => ERR_IMPORT :: out_ws back ++ bits_loop f wb r' s q d
        end
    | 11 :: r => raw_bc s ++ bits_loop f wb r s q d
    | 12 :: r => out_bits (fst (st_drain wb (st_fuel wb s) s)) ++ bits_loop f wb r bc_new q d
    | 13 :: vt :: r =>
        let '(ns, r') := read_list r in
        0 :: bits_loop f wb r' (st_encs wb (zN vt) (rev ns) s) q d
    | 14 :: vt :: k :: r =>
        let '(os, s') := st_decs wb (zN vt) (Z.to_nat k) s in os ++ bits_loop f wb r s' q d
    | 15 :: k :: r => 0 :: bits_loop f wb r bc_new q d
    | 16 :: r =>
        out_len (bc_len UBITS wb s) :: bZ (bc_is_empty s)
          :: out_bits (fst (st_drain wb (st_fuel wb s) s)) ++ bits_loop f wb r bc_new q d
    | 17 :: r =>
        let '(bs, r') := read_bits r in
        0 :: bits_loop f wb r' (bc_write_bits wb bs s) q d
    (* ---- queue encoder ---- *)
    | 21 :: b :: r => 0 :: bits_loop f wb r s (bc_write_bit wb (zb b) q) d
    | 23 :: r => out_len (bc_len UBITS wb q) :: bZ (bc_is_empty q) :: bits_loop f wb r s q d
    | 24 :: r =>
        let ws := qe_into_compressed q in
        out_ws ws ++ bits_loop f wb r s (qe_from_compressed ws) d
    | 25 :: r =>
        let g := qe_guard_new q in
        out_ws (bc_guard_view g) ++ bits_loop f wb r s (qe_guard_drop g) d
    | 28 :: vt :: n :: r => 0 :: bits_loop f wb r s (qe_encode_eg wb (zN vt) (zN n) q) d
    | 29 :: vt :: r =>
        let '(ns, r') := read_list r in
        0 :: bits_loop f wb r' s (qe_encs wb (zN vt) ns q) d
    | 30 :: r =>
        let '(ws, r') := read_list r in
        0 :: bits_loop f wb r' s (qe_from_compressed (map zN ws)) d
    | 31 :: r => raw_bc q ++ bits_loop f wb r s q d
    | 32 :: k :: r => 0 :: bits_loop f wb r s bc_new d
    | 33 :: r => 0 :: bits_loop f wb r s bc_new (qe_into_decoder q)
    | 34 :: r =>
        let g := qe_guard_new q in
        0 :: bits_loop f wb r s (qe_guard_drop g) (qd_from_compressed (bc_guard_view g))
    | 35 :: r =>
        let d0 := qe_into_decoder q in
        out_bits (fst (qd_drain wb (qd_fuel wb d0) d0)) ++ bits_loop f wb r s bc_new d
    | 37 :: r =>
        let '(bs, r') := read_bits r in
        0 :: bits_loop f wb r' s (bc_write_bits wb bs q) d
    (* ---- queue decoder ---- *)
    | 41 :: r => let '(o, d') := qd_read_bit wb d in obZ o :: bits_loop f wb r s q d'
    | 42 :: k :: r =>
        let '(os, d') := qd_reads wb (Z.to_nat k) d in out_reads os ++ bits_loop f wb r s q d'
    | 43 :: vt :: r =>
        let '(res, d') := qd_decode_eg wb (zN vt) (qd_fuel wb d) d in
        out_eg res :: bits_loop f wb r s q d'
    | 44 :: r => bZ (qd_maybe_exhausted wb d) :: bits_loop f wb r s q d
    | 45 :: r =>
        let '(ws, r') := read_list r in
        0 :: bits_loop f wb r' s q (qd_from_compressed (map zN ws))
    | 46 :: r => out_bits (fst (qd_drain wb (qd_fuel wb d) d)) ++ bits_loop f wb r s q d
    | 47 :: vt :: k :: r =>
        let '(os, d') := qd_decs wb (zN vt) (Z.to_nat k) d in os ++ bits_loop f wb r s q d'
    | 48 :: r => raw_qd d ++ bits_loop f wb r s q d
    | _ => [PANIC]
    end
  end.

Definition run_bits (inp : list Z) : list Z :=
  match inp with
  | ti :: r => bits_loop (S (length r)) (wb_of ti) r bc_new bc_new (qd_from_compressed [])
  | [] => [PANIC]
  end.
