//! Family `docvec`: the byte-exact example outputs printed in the project's documentation
//! (README-rust.md / src/lib.rs).  kind 0: ANS example, kind 1: range coding example.
//! Output: for every symbol its (left cumulative, probability) under the documented Gaussian
//! model (so that the constants pinned in the Coq file are re-derived from the implementation on
//! every run), followed by the compressed words.
use crate::common::*;
use constriction::stream::model::{DefaultLeakyQuantizer, EncoderModel};
use constriction::stream::queue::DefaultRangeEncoder;
use constriction::stream::stack::DefaultAnsCoder;
use constriction::stream::Encode;
use probability::distribution::Gaussian;

pub fn run(r: &mut Reader, out: &mut Vec<Int>) {
    let kind = r.next();
    let symbols = [23i32, -15, 78, 43, -69];
    let quantizer = DefaultLeakyQuantizer::new(-100..=100);
    let means = [35.2f64, -1.7, 30.1, 71.2, -75.1];
    let stds = [10.1f64, 25.3, 23.8, 35.4, 3.9];
    for i in 0..5 {
        let m = quantizer.quantize(Gaussian::new(means[i], stds[i]));
        let (c, p) = m.left_cumulative_and_probability(symbols[i]).unwrap();
        out.push(c as Int);
        out.push(p.get() as Int);
    }
    let models = means
        .iter()
        .zip(&stds)
        .map(|(&mean, &std)| quantizer.quantize(Gaussian::new(mean, std)));
    let words: Vec<u32> = match kind {
        0 => {
            let mut coder = DefaultAnsCoder::new();
            coder.encode_symbols_reverse(symbols.iter().zip(models)).unwrap();
            coder.into_compressed().unwrap()
        }
        _ => {
            let mut coder = DefaultRangeEncoder::new();
            coder.encode_symbols(symbols.iter().zip(models)).unwrap();
            coder.into_compressed().unwrap()
        }
    };
    out.push(words.len() as Int);
    out.extend(words.iter().map(|&w| w as Int));
}
