(* Model/Lookup.v -- machine-level models of
     ContiguousLookupDecoderModel      (categorical/lookup_contiguous.rs)
     NonContiguousLookupDecoderModel   (categorical/lookup_noncontiguous.rs)
   Definitions only.  Probability: Into<usize>, so Probability -> usize never truncates;
   usize -> Probability ([.as_()]) does. *)
From CV Require Export Model.Tables.
Open Scope N_scope.

Record lkc := { lkc_table : list N;       (* lookup_table : Box<[Probability]> *)
                lkc_cdf : list N }.       (* cdf : Vec<Probability> *)

(* lookup_contiguous.rs:424-432, the closure: state = (cdf, lookup_table) *)
Definition lkc_op (c : mcfg) (st : list N * list N) (_ : Z) (_ : N) (probability : N)
    : res (list N * list N) :=
  let '(cdf, tbl) := st in
  let index := trunc (PB c) (lenN cdf) in
  let cdf := cdf ++ [trunc (PB c) (lenN tbl)] in
  cadd (UB c) (lenN tbl) probability >>= fun new_len =>
  Ok (cdf, resize tbl new_len index).

(* lookup_contiguous.rs:405-442 from_nonzero_fixed_point_probabilities *)
Definition lkc_from_probs (c : mcfg) (probs : list N) (infer : bool) : res lkc :=
  accumulate c (lkc_op c) probs SInf infer ([], []) >>= fun '(_, (cdf, tbl)) =>
  Ok {| lkc_table := tbl; lkc_cdf := cdf ++ [wpow2 (PB c) (PR c)] |}.

(* lookup_contiguous.rs:618-634  From<&ContiguousCategoricalEntropyModel> *)
Fixpoint lkc_fill (c : mcfg) (inner : list N) (symbol : N) (tbl : list N) : list N :=
  match inner with
  | [] => tbl
  | cumulative :: r => lkc_fill c r (symbol + 1) (resize tbl cumulative (trunc (PB c) symbol))
  end.

Definition lkc_from_contig (c : mcfg) (m : contig) : res lkc :=
  (* model.cdf[1..len - 1] : a checked slice (panics when out of range) *)
  csub (lenN m) 1 >>= fun hi =>
  (if 1 <=? hi then Ok (removelast (tl m)) else Fail E_PANIC) >>= fun inner =>
  let tbl := lkc_fill c inner 0 [] in
  csub (lenN m) 2 >>= fun last_index =>
  cshl1 (UB c) (PR c) >>= fun size =>
  Ok {| lkc_table := resize tbl size (trunc (PB c) last_index); lkc_cdf := m |}.

(* lookup_contiguous.rs:564-607 quantile_function *)
Definition lkc_quant (c : mcfg) (m : lkc) (quantile : N) : res (N * N * N) :=
  (if PB c =? PR c then Ok tt else
     cshl1 (PB c) (PR c) >>= fun lim => if quantile <? lim then Ok tt else Fail E_PANIC)
  >>= fun _ =>
  get_unchecked UB_lkc_quant_table (lkc_table m) quantile >>= fun index =>
  get_unchecked UB_lkc_quant_index (lkc_cdf m) index >>= fun lft =>
  cadd (UB c) index 1 >>= fun index1 =>
  get_unchecked UB_lkc_quant_index (lkc_cdf m) index1 >>= fun next =>
  nonzero_unchecked UB_lkc_quant_prob (wsub (PB c) next lft) >>= fun p =>
  Ok (index, lft, p).

(* lookup_contiguous.rs:646-661 symbol_table; as_contiguous_categorical / into_... *)
Definition lkc_table_of (c : mcfg) (m : lkc) : res table := contig_table c (lkc_cdf m).
Definition lkc_as_contig (m : lkc) : contig := lkc_cdf m.

(* ------------------------------------------------------------------ non-contiguous lookup *)
Record lkn := { lkn_table : list N;
                lkn_cdf : list (N * Z) }.

Definition lkn_push (c : mcfg) (st : list (N * Z) * list N) (symbol : Z) (probability : N)
    : res (list (N * Z) * list N) :=
  let '(cdf, tbl) := st in
  let index := trunc (PB c) (lenN cdf) in
  let cdf := cdf ++ [(trunc (PB c) (lenN tbl), symbol)] in
  cadd (UB c) (lenN tbl) probability >>= fun new_len =>
  Ok (cdf, resize tbl new_len index).

Definition lkn_close (c : mcfg) (st : list (N * Z) * list N) : res lkn :=
  let '(cdf, tbl) := st in
  ncdec_close c cdf >>= fun cdf => Ok {| lkn_table := tbl; lkn_cdf := cdf |}.

(* lookup_noncontiguous.rs:435-480 from_symbols_and_nonzero_fixed_point_probabilities *)
Definition lkn_from_probs (c : mcfg) (syms : list Z) (probs : list N) (infer : bool) : res lkn :=
  accumulate c (fun st s _ p => lkn_push c st s p) probs (SList syms) infer ([], [])
  >>= fun '(rest, st) =>
  lkn_close c st >>= fun m =>
  match src_next rest with
  | Some _ => Fail E_ERR
  | None => Ok m
  end.

(* lookup_noncontiguous.rs:489-516 from_symbol_table (= from_iterable_entropy_model).
   The debug_assert_eq! is kept as a check (E_PANIC): it holds for every source table the
   library can produce (Proofs/Models_conv.v). *)
Fixpoint lkn_from_table_loop (c : mcfg) (t : table) (st : list (N * Z) * list N)
    : res (list (N * Z) * list N) :=
  match t with
  | [] => Ok st
  | (symbol, lft, probability) :: r =>
      if negb (lft =? trunc (PB c) (lenN (snd st))) then Fail E_PANIC else
      nz_get probability >>= fun probability =>
      lkn_push c st symbol probability >>= fun st' => lkn_from_table_loop c r st'
  end.

Definition lkn_from_table (c : mcfg) (t : table) : res lkn :=
  lkn_from_table_loop c t ([], []) >>= fun st => lkn_close c st.

(* lookup_noncontiguous.rs:608-650 quantile_function *)
Definition lkn_quant (c : mcfg) (m : lkn) (quantile : N) : res (Z * N * N) :=
  (if PB c =? PR c then Ok tt else
     cshl1 (PB c) (PR c) >>= fun lim => if quantile <? lim then Ok tt else Fail E_PANIC)
  >>= fun _ =>
  get_unchecked UB_lkn_quant_table (lkn_table m) quantile >>= fun index =>
  get_unchecked UB_lkn_quant_index (lkn_cdf m) index >>= fun '(lft, symbol) =>
  cadd (UB c) index 1 >>= fun index1 =>
  get_unchecked UB_lkn_quant_index (lkn_cdf m) index1 >>= fun next =>
  nonzero_unchecked UB_lkn_quant_prob (wsub (PB c) (fst next) lft) >>= fun p =>
  Ok (symbol, lft, p).

(* lookup_noncontiguous.rs:684-695 symbol_table; as_non_contiguous_categorical / into_... *)
Definition lkn_table_of (c : mcfg) (m : lkn) : res table := ncdec_table c (lkn_cdf m).
Definition lkn_as_ncdec (m : lkn) : ncdec := lkn_cdf m.

(* coder-facing decoders *)
Definition lkc_dec (c : mcfg) (m : lkc) (q : N) : Z * N * N :=
  dec_of_res (lkc_quant c m q >>= fun '(s, cu, p) => Ok (Z.of_N s, cu, p)).
Definition lkn_dec (c : mcfg) (m : lkn) (q : N) : Z * N * N := dec_of_res (lkn_quant c m q).
