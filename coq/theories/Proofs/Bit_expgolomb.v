(* Proofs/Bit_expgolomb.v -- Exp-Golomb: the machine encoder emits the ideal code of n
   (also for n = 2^BITS - 1, through the wrap-to-zero branch), the suffix form is its
   reversal, the decoder inverts it on any bit source that refines a list, and rejects
   over-long / truncated / non-canonical maximal codes. *)
From CV Require Import Base.Bits Model.BitCoder Model.ExpGolomb.
From CV Require Import Proofs.Bit_core Proofs.Bit_stack Proofs.Bit_queue.
Set Default Timeout 30.
Open Scope N_scope.

(* ---------- the two emission loops ---------- *)
Lemma eg_mask_loop_0 fuel n1 : eg_mask_loop fuel n1 0 = [].
Proof. destruct fuel; reflexivity. Qed.

Lemma eg_bit_testbit x k : eg_bit x (2 ^ k) = N.testbit x k.
Proof. unfold eg_bit. apply eg_bit_pow2. Qed.

Lemma eg_mask_loop_spec k : forall fuel n1,
  (N.to_nat k < fuel)%nat -> eg_mask_loop fuel n1 (2 ^ k) = bits_desc (S (N.to_nat k)) n1.
Proof.
  induction k as [|k IH] using N.peano_ind; intros fuel n1 Hf.
  - destruct fuel as [|f]; [lia|]. cbn [eg_mask_loop].
    rewrite pow2_eq_0, eg_bit_testbit, shr_pow2_0, eg_mask_loop_0. reflexivity.
  - destruct fuel as [|f]; [lia|]. cbn [eg_mask_loop].
    rewrite pow2_eq_0, eg_bit_testbit, shr_pow2 by lia.
    replace (N.succ k - 1) with k by lia.
    rewrite IH by lia. rewrite (bits_desc_succ (N.succ k)).
    replace (N.to_nat (N.succ k)) with (S (N.to_nat k)) by lia. reflexivity.
Qed.

Lemma bits_from_shift n k w : bits_from n k (shr w 1) = bits_from n (N.succ k) w.
Proof.
  revert k. induction n as [|n IH]; intros k; cbn [bits_from]; [reflexivity|].
  rewrite IH. f_equal. unfold shr. rewrite N.shiftr_spec by lia. f_equal. lia.
Qed.

Lemma eg_lsb_loop_spec fuel : forall r,
  r <> 0 -> (N.to_nat (N.log2 r) < fuel)%nat ->
  eg_lsb_loop fuel r = bits_from (S (N.to_nat (N.log2 r))) 0 r.
Proof.
  induction fuel as [|f IH]; intros r Hr Hf; [lia|].
  cbn [eg_lsb_loop].
  change 1 with (2 ^ 0) at 1. rewrite eg_bit_testbit.
  destruct (N.eqb_spec (shr r 1) 0) as [E|E].
  - assert (r = 1).
    { rewrite shr_div in E. change (2 ^ 1) with 2 in E.
      pose proof (N.div_mod r 2 ltac:(lia)) as D. pose proof (N.mod_lt r 2 ltac:(lia)). lia. }
    subst r. reflexivity.
  - assert (Hl : N.log2 (shr r 1) = N.log2 r - 1) by (unfold shr; apply N.log2_shiftr).
    assert (0 < N.log2 r).
    { destruct (N.eq_dec (N.log2 r) 0) as [E0|]; [|lia]. exfalso. apply E.
      rewrite shr_div. apply N.div_small.
      destruct (N.log2_spec r ltac:(lia)) as [_ Hhi]. rewrite E0 in Hhi. exact Hhi. }
    rewrite IH by (try assumption; lia).
    rewrite Hl. rewrite bits_from_shift.
    replace (S (N.to_nat (N.log2 r))) with (S (S (N.to_nat (N.log2 r - 1)))) by lia.
    reflexivity.
Qed.

Lemma bits_desc_pow2 k : bits_desc (N.to_nat k) (2 ^ k) = repeat false (N.to_nat k).
Proof.
  rewrite <- bits_desc_zero. apply bits_desc_ext. intros i Hi.
  rewrite testbit_pow2, N.bits_0. apply N.eqb_neq. lia.
Qed.

Lemma val_desc_lin l x : val_desc l x = x * 2 ^ N.of_nat (length l) + val_desc l 0.
Proof.
  revert x. induction l as [|b r IH]; intros x.
  - cbn [val_desc length]. change (N.of_nat 0) with 0. rewrite N.pow_0_r. lia.
  - cbn [val_desc length]. rewrite (IH (2 * x + b2n b)), (IH (2 * 0 + b2n b)).
    rewrite Nat2N.inj_succ, N.pow_succ_r by lia. lia.
Qed.

Lemma val_desc_bound l : val_desc l 0 < 2 ^ N.of_nat (length l).
Proof.
  induction l as [|b r IH].
  - reflexivity.
  - cbn [val_desc length]. rewrite val_desc_lin.
    rewrite Nat2N.inj_succ, N.pow_succ_r by lia.
    assert (b2n b < 2) by (destruct b; reflexivity). nia.
Qed.

Lemma val_desc_zero l : val_desc l 0 = 0 -> l = repeat false (length l).
Proof.
  induction l as [|b r IH]; intros H; [reflexivity|].
  cbn [val_desc length repeat] in *. rewrite val_desc_lin in H.
  pose proof (pow2_pos (N.of_nat (length r))).
  destruct b; cbn [b2n] in H; [nia|]. f_equal. apply IH. nia.
Qed.

Lemma val_desc_repeat k : val_desc (repeat false k) 0 = 0.
Proof. induction k as [|k IH]; [reflexivity|]. cbn [repeat val_desc b2n]. exact IH. Qed.

Lemma eg_count_inl fuel : forall len l k l1,
  eg_count ls_read fuel len l = (inl k, l1) ->
  exists j, k = len + N.of_nat j /\ l = repeat false j ++ true :: l1.
Proof.
  induction fuel as [|f IH]; intros len l k l1 H; [discriminate|].
  cbn [eg_count] in H. destruct l as [|b r]; cbn [ls_read] in H; [discriminate|].
  destruct b.
  - injection H as <- <-. exists O. split; [cbn; lia|reflexivity].
  - destruct (len + 1 <? 2 ^ 32); [|discriminate].
    destruct (IH _ _ _ _ H) as (j & -> & ->). exists (S j). split; [lia|reflexivity].
Qed.

Lemma eg_count_inr fuel : forall len l e l1 n,
  eg_count ls_read fuel len l = (inr e, l1) -> e <> EgOk n.
Proof.
  induction fuel as [|f IH]; intros len l e l1 n H.
  - cbn [eg_count] in H. injection H as <- _. discriminate.
  - cbn [eg_count] in H. destruct l as [|b r]; cbn [ls_read] in H.
    + injection H as <- _. discriminate.
    + destruct b; [discriminate|].
      destruct (len + 1 <? 2 ^ 32); [exact (IH _ _ _ _ n H)|injection H as <- _; discriminate].
Qed.

Lemma eg_collect_some BITS k : forall acc l v l2,
  eg_collect ls_read BITS k acc l = (Some v, l2) ->
  exists bs, length bs = k /\ l = bs ++ l2.
Proof.
  induction k as [|k IH]; intros acc l v l2 H.
  - cbn [eg_collect] in H. injection H as _ <-. exists []. split; reflexivity.
  - cbn [eg_collect] in H. destruct l as [|b r]; cbn [ls_read] in H; [discriminate|].
    destruct (IH _ _ _ _ H) as (bs & Hl & ->). exists (b :: bs). split; [cbn [length]; lia|reflexivity].
Qed.

Lemma bits_desc_val bs : forall c,
  bits_desc (length bs) (c * 2 ^ N.of_nat (length bs) + val_desc bs 0) = bs.
Proof.
  induction bs as [|b r IH]; intros c; [reflexivity|].
  cbn [length bits_desc val_desc].
  rewrite (val_desc_lin r (2 * 0 + b2n b)).
  rewrite Nat2N.inj_succ, N.pow_succ_r by lia.
  set (p := 2 ^ N.of_nat (length r)).
  assert (Hp : 0 < p) by apply pow2_pos.
  pose proof (val_desc_bound r) as Hv. fold p in Hv.
  replace (c * (2 * p) + ((2 * 0 + b2n b) * p + val_desc r 0))
    with ((2 * c + b2n b) * p + val_desc r 0) by lia.
  f_equal.
  - apply N.b2n_inj. rewrite N.testbit_spec'. fold p. rewrite div_mul_add_small by assumption.
    replace (2 * c + b2n b) with (b2n b + c * 2) by lia. rewrite N.mod_add by lia.
    destruct b; reflexivity.
  - apply IH.
Qed.

(* with enough fuel for the data at hand, and fewer than 2^32 - 1 bits of data, the decoder
   answers Ok or InvalidCodeword: the fuel of the model and the u32 counter are immaterial *)
Lemma eg_count_total fuel : forall len l,
  (length l < fuel)%nat -> len + N.of_nat (length l) < 2 ^ 32 ->
  match fst (eg_count ls_read fuel len l) with
  | inl _ => True
  | inr e => e = EgInvalid
  end.
Proof.
  induction fuel as [|f IH]; intros len l Hf Hl; [lia|].
  cbn [eg_count]. destruct l as [|b r]; cbn [ls_read fst]; [reflexivity|].
  destruct b; [exact I|]. cbn [length] in Hf, Hl.
  assert ((len + 1 <? 2 ^ 32) = true) as -> by (apply N.ltb_lt; lia).
  apply IH; lia.
Qed.

Lemma eg_decode_total BITS fuel l :
  (length l < fuel)%nat -> N.of_nat (length l) < 2 ^ 32 ->
  fst (eg_decode ls_read BITS fuel l) = EgInvalid \/ exists n, fst (eg_decode ls_read BITS fuel l) = EgOk n.
Proof.
  intros Hf Hl. unfold eg_decode.
  pose proof (eg_count_total fuel 0 l Hf ltac:(lia)) as Hc.
  destruct (eg_count ls_read fuel 0 l) as [[k|e] l1]; cbn [fst] in *.
  - destruct (BITS <? k); [left; reflexivity|].
    destruct (eg_collect ls_read BITS (N.to_nat k) 1 l1) as [[n1|] l2]; [|left; reflexivity].
    destruct ((k =? BITS) && negb (n1 =? 0)); [left; reflexivity|right; eexists; reflexivity].
  - left. exact Hc.
Qed.

Section EG.
Variable BITS : N.
Hypothesis HB : 0 < BITS.

Lemma eg_len_log2 n1 : n1 <> 0 -> n1 < 2 ^ BITS -> BITS - clz BITS n1 - 1 = N.log2 n1.
Proof.
  intros Hnz Hlt. unfold clz. rewrite N.size_log2 by assumption.
  assert (N.log2 n1 < BITS) by (apply N.log2_lt_pow2; [lia|assumption]). lia.
Qed.

Lemma rev_zeros k : rev (eg_zeros k) = eg_zeros k.
Proof. apply rev_repeat. Qed.

(* the emitted prefix code is the ideal code, for every n of the type incl. the maximum *)
Lemma eg_prefix_is_spec n : n < 2 ^ BITS -> eg_prefix_bits BITS n = eg_spec n.
Proof.
  intros Hn. unfold eg_prefix_bits, eg_spec.
  destruct (N.eq_dec (n + 1) (2 ^ BITS)) as [Emax|Hsmall].
  - unfold trunc. rewrite Emax, N.mod_same by apply pow2_nz. rewrite N.eqb_refl.
    rewrite log2_pow2. f_equal. rewrite bits_desc_succ, testbit_pow2, N.eqb_refl.
    rewrite bits_desc_pow2. reflexivity.
  - rewrite trunc_small by lia.
    assert ((n + 1 =? 0) = false) as -> by (apply N.eqb_neq; lia).
    rewrite eg_len_log2 by lia.
    assert (N.log2 (n + 1) < BITS) by (apply N.log2_lt_pow2; lia).
    rewrite shl_one by assumption.
    rewrite eg_mask_loop_spec by lia. reflexivity.
Qed.

(* the suffix form is the prefix form reversed *)
Lemma eg_suffix_is_rev_spec n : n < 2 ^ BITS -> eg_suffix_bits BITS n = rev (eg_spec n).
Proof.
  intros Hn. unfold eg_suffix_bits, eg_spec.
  destruct (N.eq_dec (n + 1) (2 ^ BITS)) as [Emax|Hsmall].
  - unfold trunc. rewrite Emax, N.mod_same by apply pow2_nz. rewrite N.eqb_refl.
    rewrite log2_pow2, bits_desc_succ, testbit_pow2, N.eqb_refl, bits_desc_pow2.
    rewrite rev_app_distr. cbn [rev]. rewrite rev_zeros. fold (eg_zeros BITS).
    rewrite rev_zeros. rewrite <- app_assoc. reflexivity.
  - rewrite trunc_small by lia.
    assert ((n + 1 =? 0) = false) as -> by (apply N.eqb_neq; lia).
    rewrite eg_len_log2 by lia.
    assert (N.log2 (n + 1) < BITS) by (apply N.log2_lt_pow2; lia).
    rewrite eg_lsb_loop_spec by lia.
    rewrite rev_app_distr, rev_zeros, bits_from_rev. reflexivity.
Qed.

(* ---------- decoding from a list of bits ---------- *)
Lemma eg_count_zeros k : forall fuel len rest,
  (k < fuel)%nat -> len + N.of_nat k < 2 ^ 32 ->
  eg_count ls_read fuel len (repeat false k ++ true :: rest) = (inl (len + N.of_nat k), rest).
Proof.
  induction k as [|k IH]; intros fuel len rest Hf Hlen.
  - destruct fuel as [|f]; [lia|]. cbn [repeat app eg_count ls_read]. rewrite N.add_0_r. reflexivity.
  - destruct fuel as [|f]; [lia|]. cbn [repeat app eg_count ls_read].
    assert ((len + 1 <? 2 ^ 32) = true) as -> by (apply N.ltb_lt; lia).
    rewrite IH by lia. do 2 f_equal. lia.
Qed.

Lemma eg_count_eof k : forall fuel len,
  (k < fuel)%nat -> len + N.of_nat k < 2 ^ 32 ->
  eg_count ls_read fuel len (repeat false k) = (inr EgInvalid, []).
Proof.
  induction k as [|k IH]; intros fuel len Hf Hlen.
  - destruct fuel as [|f]; [lia|]. reflexivity.
  - destruct fuel as [|f]; [lia|]. cbn [repeat eg_count ls_read].
    assert ((len + 1 <? 2 ^ 32) = true) as -> by (apply N.ltb_lt; lia).
    apply IH; lia.
Qed.

Lemma shl1_lor acc (b : bool) :
  N.lor (shl BITS acc 1) (if b then 1 else 0) = (2 * acc + b2n b) mod 2 ^ BITS.
Proof.
  unfold shl, trunc. rewrite shiftl_mul. change (2 ^ 1) with 2.
  assert (Hsplit : 2 ^ BITS = 2 * 2 ^ (BITS - 1)).
  { rewrite <- N.pow_succ_r by lia. f_equal. lia. }
  set (h := 2 ^ (BITS - 1)) in *. assert (Hh : 0 < h) by apply pow2_pos.
  rewrite Hsplit.
  rewrite (N.mul_comm acc 2), N.mul_mod_distr_l by lia.
  assert (Hb : b2n b < 2 ^ 1) by (destruct b; reflexivity).
  pose proof (lor_disjoint (acc mod h) (b2n b) 1 Hb) as Hl. change (2 ^ 1) with 2 in Hl.
  change (if b then 1 else 0) with (b2n b).
  rewrite (N.mul_comm 2 (acc mod h)), Hl.
  pose proof (N.div_mod acc h ltac:(lia)) as D. pose proof (N.mod_lt acc h ltac:(lia)) as L.
  assert (Hb' : b2n b < 2) by (destruct b; reflexivity).
  symmetry.
  replace (2 * acc + b2n b) with ((acc / h) * (2 * h) + (acc mod h * 2 + b2n b)) by nia.
  apply mod_mul_add_small. nia.
Qed.

Lemma eg_collect_spec bs : forall acc rest,
  eg_collect ls_read BITS (length bs) acc (bs ++ rest) = (Some (val_desc bs acc mod 2 ^ BITS), rest)
  \/ bs = [] /\ eg_collect ls_read BITS (length bs) acc (bs ++ rest) = (Some acc, rest).
Proof.
  induction bs as [|b r IH]; intros acc rest.
  - right. split; reflexivity.
  - left. cbn [length app eg_collect ls_read]. rewrite shl1_lor.
    destruct (IH ((2 * acc + b2n b) mod 2 ^ BITS) rest) as [E|[-> E]]; rewrite E.
    + do 2 f_equal. cbn [val_desc].
      rewrite (val_desc_lin r ((2 * acc + b2n b) mod 2 ^ BITS)), (val_desc_lin r (2 * acc + b2n b)).
      rewrite <- (N.add_mod_idemp_l (_ mod _ * _)) by apply pow2_nz.
      rewrite N.mul_mod_idemp_l by apply pow2_nz.
      rewrite N.add_mod_idemp_l by apply pow2_nz. reflexivity.
    + reflexivity.
Qed.

Lemma eg_collect_val bs acc rest :
  acc < 2 ^ BITS ->
  eg_collect ls_read BITS (length bs) acc (bs ++ rest) = (Some (val_desc bs acc mod 2 ^ BITS), rest).
Proof.
  intros Hacc. destruct (eg_collect_spec bs acc rest) as [E|[-> E]]; [exact E|].
  rewrite E. cbn [val_desc]. rewrite N.mod_small by assumption. reflexivity.
Qed.

Lemma eg_collect_short bs : forall k acc,
  (length bs < k)%nat -> eg_collect ls_read BITS k acc bs = (None, []).
Proof.
  induction bs as [|b r IH]; intros k acc Hk.
  - destruct k; [cbn [length] in Hk; lia|]. reflexivity.
  - destruct k; [cbn [length] in Hk; lia|]. cbn [eg_collect ls_read]. apply IH. cbn [length] in Hk. lia.
Qed.

Hypothesis HB32 : BITS < 2 ^ 32.

Lemma one_lt : 1 < 2 ^ BITS.
Proof. apply (N.lt_le_trans _ (2 ^ 1)); [reflexivity|apply pow2_le; lia]. Qed.

(* decode inverts the ideal code, whatever follows it *)
Lemma eg_decode_spec_list n rest fuel :
  n < 2 ^ BITS -> (N.to_nat BITS < fuel)%nat ->
  eg_decode ls_read BITS fuel (eg_spec n ++ rest) = (EgOk n, rest).
Proof.
  intros Hn Hf. unfold eg_spec, eg_decode.
  set (k := N.log2 (n + 1)).
  assert (Hk : k <= BITS).
  { destruct (N.eq_dec (n + 1) (2 ^ BITS)) as [E|E].
    - unfold k. rewrite E, log2_pow2. lia.
    - assert (k < BITS) by (apply N.log2_lt_pow2; lia). lia. }
  destruct (N.log2_spec (n + 1) ltac:(lia)) as [Hlo Hhi]. fold k in Hlo, Hhi.
  rewrite N.pow_succ_r in Hhi by lia.
  rewrite bits_desc_succ. unfold k at 2. rewrite N.bit_log2 by lia. fold k.
  unfold eg_zeros. rewrite <- app_assoc. cbn [app].
  rewrite eg_count_zeros by lia. rewrite N.add_0_l, N2Nat.id.
  assert ((BITS <? k) = false) as -> by (apply N.ltb_ge; lia).
  rewrite <- (bits_desc_length (N.to_nat k) (n + 1)) at 1.
  rewrite eg_collect_val by apply one_lt.
  rewrite val_desc_bits, N2Nat.id, N.mul_1_l.
  assert (Hval : 2 ^ k + (n + 1) mod 2 ^ k = n + 1).
  { pose proof (N.div_mod (n + 1) (2 ^ k) (pow2_nz k)) as D.
    pose proof (N.mod_lt (n + 1) (2 ^ k) (pow2_nz k)) as L.
    assert ((n + 1) / 2 ^ k = 1) by (symmetry; apply N.div_unique with (r := n + 1 - 2 ^ k); lia).
    nia. }
  rewrite Hval.
  destruct (N.eq_dec (n + 1) (2 ^ BITS)) as [E|E].
  - rewrite E, N.mod_same by apply pow2_nz. rewrite N.eqb_refl. cbn [negb]. rewrite andb_false_r.
    do 2 f_equal. unfold trunc. rewrite N.add_0_l, N.mod_small by (pose proof (pow2_pos BITS); lia). lia.
  - rewrite N.mod_small by lia.
    assert ((n + 1 =? 0) = false) as -> by (apply N.eqb_neq; lia).
    assert (k < BITS) by (apply N.log2_lt_pow2; lia).
    assert ((k =? BITS) = false) as -> by (apply N.eqb_neq; lia). cbn [andb].
    do 2 f_equal. unfold trunc.
    replace (n + 1 + 2 ^ BITS - 1) with (n + 1 * 2 ^ BITS) by lia.
    rewrite N.mod_add by apply pow2_nz. apply N.mod_small. assumption.
Qed.

(* rejection: more than BITS leading zeros *)
Lemma eg_reject_overlong k rest fuel :
  BITS < N.of_nat k -> N.of_nat k < 2 ^ 32 -> (k < fuel)%nat ->
  eg_decode ls_read BITS fuel (repeat false k ++ true :: rest) = (EgInvalid, rest).
Proof.
  intros Hk H32 Hf. unfold eg_decode. rewrite eg_count_zeros by lia. rewrite N.add_0_l.
  assert ((BITS <? N.of_nat k) = true) as -> by (apply N.ltb_lt; assumption). reflexivity.
Qed.

(* rejection: exactly BITS leading zeros but a tail that is not all zeros *)
Lemma eg_reject_noncanonical bs rest fuel :
  length bs = N.to_nat BITS -> bs <> repeat false (N.to_nat BITS) -> (N.to_nat BITS < fuel)%nat ->
  eg_decode ls_read BITS fuel (repeat false (N.to_nat BITS) ++ true :: bs ++ rest) = (EgInvalid, rest).
Proof.
  intros Hlen Hne Hf. unfold eg_decode. rewrite eg_count_zeros by lia. rewrite N.add_0_l, N2Nat.id.
  rewrite N.ltb_irrefl. rewrite <- Hlen. rewrite eg_collect_val by apply one_lt.
  rewrite N.eqb_refl. cbn [andb].
  rewrite val_desc_lin, N.mul_1_l, Hlen, N2Nat.id.
  rewrite N.add_comm, <- (N.mul_1_l (2 ^ BITS)) at 1. rewrite N.mod_add by apply pow2_nz.
  pose proof (val_desc_bound bs) as Hb. rewrite Hlen, N2Nat.id in Hb.
  rewrite N.mod_small by assumption.
  destruct (N.eqb_spec (val_desc bs 0) 0) as [E|E]; [|reflexivity].
  exfalso. apply Hne. rewrite <- Hlen. apply val_desc_zero. assumption.
Qed.

(* rejection: the data ends inside the codeword *)
Lemma eg_reject_eof_zeros k fuel :
  (k < fuel)%nat -> N.of_nat k < 2 ^ 32 ->
  eg_decode ls_read BITS fuel (repeat false k) = (EgInvalid, []).
Proof.
  intros Hf H32. unfold eg_decode. rewrite eg_count_eof by lia. reflexivity.
Qed.

Lemma eg_reject_eof_tail k bs fuel :
  (length bs < k)%nat -> (k < fuel)%nat -> N.of_nat k <= BITS ->
  eg_decode ls_read BITS fuel (repeat false k ++ true :: bs) = (EgInvalid, []).
Proof.
  intros Hs Hf Hk. unfold eg_decode. rewrite eg_count_zeros by lia. rewrite N.add_0_l.
  assert ((BITS <? N.of_nat k) = false) as -> by (apply N.ltb_ge; assumption).
  rewrite Nat2N.id, eg_collect_short by assumption. reflexivity.
Qed.

(* the decoder accepts nothing but codewords of values of the type *)
Lemma eg_decode_ok_inv fuel l n rest :
  eg_decode ls_read BITS fuel l = (EgOk n, rest) -> n < 2 ^ BITS /\ l = eg_spec n ++ rest.
Proof.
  unfold eg_decode. intros H.
  destruct (eg_count ls_read fuel 0 l) as [[k|e] l1] eqn:Ec; [|injection H as -> _; exfalso; exact (eg_count_inr _ _ _ _ _ n Ec eq_refl)].
  destruct (eg_count_inl _ _ _ _ _ Ec) as (j & Hk & ->). rewrite N.add_0_l in Hk. subst k.
  destruct (N.ltb_spec BITS (N.of_nat j)) as [|Hle]; [discriminate|].
  rewrite Nat2N.id in H.
  destruct (eg_collect ls_read BITS j 1 l1) as [[n1|] l2] eqn:Ecol; [|discriminate].
  destruct (eg_collect_some _ _ _ _ _ _ Ecol) as (bs & Hlen & ->).
  rewrite <- Hlen in Ecol. rewrite (eg_collect_val bs 1 l2 one_lt) in Ecol.
  injection Ecol as <-.
  rewrite val_desc_lin, N.mul_1_l, Hlen in H.
  pose proof (val_desc_bound bs) as Hv. rewrite Hlen in Hv.
  set (v := val_desc bs 0) in *. set (k := N.of_nat j) in *.
  destruct (N.eq_dec k BITS) as [Ek|Ek].
  - (* exactly BITS zeros: only the maximum *)
    rewrite Ek in H, Hv. rewrite N.eqb_refl in H. cbn [andb] in H.
    assert (Hmod : (2 ^ BITS + v) mod 2 ^ BITS = v).
    { replace (2 ^ BITS + v) with (v + 1 * 2 ^ BITS) by lia.
      rewrite N.mod_add by apply pow2_nz. apply N.mod_small. assumption. }
    rewrite Hmod in H.
    destruct (N.eqb_spec v 0) as [Ev|Ev]; cbn [negb] in H; [|discriminate].
    injection H as <- <-. rewrite Ev.
    assert (Hn : trunc BITS (0 + 2 ^ BITS - 1) = 2 ^ BITS - 1).
    { unfold trunc. rewrite N.add_0_l. apply N.mod_small. pose proof (pow2_pos BITS). lia. }
    rewrite Hn. split; [pose proof (pow2_pos BITS); lia|].
    unfold eg_spec. replace (2 ^ BITS - 1 + 1) with (2 ^ BITS) by (pose proof (pow2_pos BITS); lia).
    rewrite log2_pow2, bits_desc_succ, testbit_pow2, N.eqb_refl, bits_desc_pow2.
    unfold eg_zeros. rewrite <- app_assoc. cbn [app].
    assert (Hj : j = N.to_nat BITS) by lia. rewrite <- Hj.
    do 2 f_equal. f_equal. rewrite <- Hlen. apply val_desc_zero. exact Ev.
  - assert (Hkl : k < BITS) by lia.
    assert ((k =? BITS) = false) as E0 by (apply N.eqb_neq; assumption). rewrite E0 in H. cbn [andb] in H.
    assert (Hlt : 2 ^ k + v < 2 ^ BITS).
    { apply (N.lt_le_trans _ (2 ^ (k + 1))); [rewrite N.pow_add_r; change (2 ^ 1) with 2; lia|apply pow2_le; lia]. }
    rewrite N.mod_small in H by assumption.
    injection H as <- <-.
    assert (Hn : trunc BITS (2 ^ k + v + 2 ^ BITS - 1) = 2 ^ k + v - 1).
    { unfold trunc. pose proof (pow2_pos k).
      replace (2 ^ k + v + 2 ^ BITS - 1) with ((2 ^ k + v - 1) + 1 * 2 ^ BITS) by lia.
      rewrite N.mod_add by apply pow2_nz. apply N.mod_small. lia. }
    rewrite Hn. pose proof (pow2_pos k). split; [lia|].
    unfold eg_spec. replace (2 ^ k + v - 1 + 1) with (2 ^ k + v) by lia.
    rewrite log2_pow2_add by assumption.
    rewrite bits_desc_succ.
    assert (N.testbit (2 ^ k + v) k = true) as ->.
    { rewrite <- (log2_pow2_add v k Hv) at 2. apply N.bit_log2. lia. }
    unfold eg_zeros. rewrite <- app_assoc. cbn [app].
    unfold k. rewrite Nat2N.id. do 2 f_equal. f_equal.
    pose proof (bits_desc_val bs 1) as Hb. rewrite N.mul_1_l, Hlen in Hb. symmetry. exact Hb.
Qed.
End EG.

(* ---------- any bit source that refines a list ---------- *)
Section Sim.
Context {St : Type} (read : St -> option bool * St) (R : St -> list bool -> Prop).
Hypothesis Hsim : forall s l, R s l ->
  match l with
  | [] => exists s', read s = (None, s') /\ R s' []
  | b :: r => exists s', read s = (Some b, s') /\ R s' r
  end.

Lemma eg_count_sim fuel : forall len s l, R s l ->
  exists s', eg_count read fuel len s = (fst (eg_count ls_read fuel len l), s')
             /\ R s' (snd (eg_count ls_read fuel len l)).
Proof.
  induction fuel as [|f IH]; intros len s l HR.
  - exists s. split; [reflexivity|exact HR].
  - pose proof (Hsim s l HR) as H. cbn [eg_count]. destruct l as [|b r].
    + destruct H as (s' & -> & HR'). exists s'. split; [reflexivity|exact HR'].
    + destruct H as (s' & -> & HR'). cbn [ls_read]. destruct b.
      * exists s'. split; [reflexivity|exact HR'].
      * destruct (len + 1 <? 2 ^ 32).
        -- apply IH. exact HR'.
        -- exists s'. split; [reflexivity|exact HR'].
Qed.

Lemma eg_collect_sim BITS k : forall acc s l, R s l ->
  exists s', eg_collect read BITS k acc s = (fst (eg_collect ls_read BITS k acc l), s')
             /\ R s' (snd (eg_collect ls_read BITS k acc l)).
Proof.
  induction k as [|k IH]; intros acc s l HR.
  - exists s. split; [reflexivity|exact HR].
  - pose proof (Hsim s l HR) as H. cbn [eg_collect]. destruct l as [|b r].
    + destruct H as (s' & -> & HR'). exists s'. split; [reflexivity|exact HR'].
    + destruct H as (s' & -> & HR'). cbn [ls_read]. apply IH. exact HR'.
Qed.

Lemma eg_decode_sim BITS fuel s l : R s l ->
  exists s', eg_decode read BITS fuel s = (fst (eg_decode ls_read BITS fuel l), s')
             /\ R s' (snd (eg_decode ls_read BITS fuel l)).
Proof.
  intros HR. unfold eg_decode.
  destruct (eg_count_sim fuel 0 s l HR) as (s1 & E1 & R1). rewrite E1.
  destruct (eg_count ls_read fuel 0 l) as [[len|e] l1]; cbn [fst snd] in *.
  - destruct (BITS <? len).
    + exists s1. split; [reflexivity|exact R1].
    + destruct (eg_collect_sim BITS (N.to_nat len) 1 s1 l1 R1) as (s2 & E2 & R2). rewrite E2.
      destruct (eg_collect ls_read BITS (N.to_nat len) 1 l1) as [[n1|] l2]; cbn [fst snd] in *.
      * destruct ((len =? BITS) && negb (n1 =? 0)); exists s2; (split; [reflexivity|exact R2]).
      * exists s2. split; [reflexivity|exact R2].
  - exists s1. split; [reflexivity|exact R1].
Qed.
End Sim.

(* ---------- the coders as sources ---------- *)
Section Coders.
Variables WB BITS : N.
Hypothesis HWB : 0 < WB.
Hypothesis HB : 0 < BITS.
Hypothesis HB32 : BITS < 2 ^ 32.

Definition st_R (c : bitc) (l : list bool) : Prop := bc_inv WB c /\ abs_stack WB c = l.
Definition qd_R (d : qdec) (l : list bool) : Prop := qd_inv WB d /\ abs_qdec WB d = l.

Lemma st_R_sim s l : st_R s l ->
  match l with
  | [] => exists s', st_read_bit WB s = (None, s') /\ st_R s' []
  | b :: r => exists s', st_read_bit WB s = (Some b, s') /\ st_R s' r
  end.
Proof.
  intros [Hi Ha]. pose proof (st_read_bit_spec WB HWB s Hi) as H. rewrite Ha in H.
  destruct l as [|b r].
  - exists s. split; [exact H|]. split; assumption.
  - destruct H as (s' & E & Hi' & Ha'). exists s'. split; [exact E|]. split; assumption.
Qed.

Lemma qd_R_sim s l : qd_R s l ->
  match l with
  | [] => exists s', qd_read_bit WB s = (None, s') /\ qd_R s' []
  | b :: r => exists s', qd_read_bit WB s = (Some b, s') /\ qd_R s' r
  end.
Proof.
  intros [Hi Ha]. pose proof (qd_read_bit_spec WB HWB s Hi) as H. rewrite Ha in H.
  destruct l as [|b r].
  - exists s. split; [exact H|]. split; assumption.
  - destruct H as (s' & E & Hi' & Ha'). exists s'. split; [exact E|]. split; assumption.
Qed.

(* the stack coder decodes, from any list-level result, the same result *)
Lemma st_decode_eg_refines fuel c :
  bc_inv WB c ->
  exists c', st_decode_eg WB BITS fuel c = (fst (eg_decode ls_read BITS fuel (abs_stack WB c)), c')
    /\ bc_inv WB c' /\ abs_stack WB c' = snd (eg_decode ls_read BITS fuel (abs_stack WB c)).
Proof.
  intros Hi. unfold st_decode_eg.
  destruct (eg_decode_sim (st_read_bit WB) st_R st_R_sim BITS fuel c (abs_stack WB c)) as (c' & E & [Hi' Ha']).
  - split; [assumption|reflexivity].
  - exists c'. split; [exact E|]. split; [exact Hi'|exact Ha'].
Qed.

Lemma qd_decode_eg_refines fuel d :
  qd_inv WB d ->
  exists d', qd_decode_eg WB BITS fuel d = (fst (eg_decode ls_read BITS fuel (abs_qdec WB d)), d')
    /\ qd_inv WB d' /\ abs_qdec WB d' = snd (eg_decode ls_read BITS fuel (abs_qdec WB d)).
Proof.
  intros Hi. unfold qd_decode_eg.
  destruct (eg_decode_sim (qd_read_bit WB) qd_R qd_R_sim BITS fuel d (abs_qdec WB d)) as (d' & E & [Hi' Ha']).
  - split; [assumption|reflexivity].
  - exists d'. split; [exact E|]. split; [exact Hi'|exact Ha'].
Qed.

(* encoding on the coders *)
Lemma st_encode_eg_spec n c :
  n < 2 ^ BITS -> bc_inv WB c ->
  bc_inv WB (st_encode_eg WB BITS n c)
  /\ abs_stack WB (st_encode_eg WB BITS n c) = eg_spec n ++ abs_stack WB c.
Proof.
  intros Hn Hi. unfold st_encode_eg.
  destruct (bc_write_bits_spec WB HWB (eg_suffix_bits BITS n) c Hi) as [Hi' Ha'].
  split; [exact Hi'|]. rewrite Ha', (eg_suffix_is_rev_spec BITS HB n Hn), rev_involutive. reflexivity.
Qed.

Lemma qe_encode_eg_spec n c :
  n < 2 ^ BITS -> bc_inv WB c ->
  bc_inv WB (qe_encode_eg WB BITS n c)
  /\ abs_queue WB (qe_encode_eg WB BITS n c) = abs_queue WB c ++ eg_spec n.
Proof.
  intros Hn Hi. unfold qe_encode_eg.
  destruct (qe_write_bits_spec WB HWB (eg_prefix_bits BITS n) c Hi) as [Hi' Ha'].
  split; [exact Hi'|]. rewrite Ha', (eg_prefix_is_spec BITS HB n Hn). reflexivity.
Qed.

(* round trip on the stack coder: push the symbol, pop it, the content is what it was *)
Lemma st_eg_roundtrip n c fuel :
  n < 2 ^ BITS -> bc_inv WB c -> (N.to_nat BITS < fuel)%nat ->
  exists c', st_decode_eg WB BITS fuel (st_encode_eg WB BITS n c) = (EgOk n, c')
    /\ bc_inv WB c' /\ abs_stack WB c' = abs_stack WB c.
Proof.
  intros Hn Hi Hf.
  destruct (st_encode_eg_spec n c Hn Hi) as [Hi1 Ha1].
  destruct (st_decode_eg_refines fuel _ Hi1) as (c' & E & Hi' & Ha').
  rewrite Ha1, (eg_decode_spec_list BITS HB HB32 n _ fuel Hn Hf) in E, Ha'.
  exists c'. split; [exact E|]. split; [exact Hi'|exact Ha'].
Qed.

(* round trip through the queue: whatever was written before is read first, then the symbol;
   what follows (later symbols, padding) stays *)
Lemma qd_eg_roundtrip n d rest fuel :
  n < 2 ^ BITS -> qd_inv WB d -> abs_qdec WB d = eg_spec n ++ rest -> (N.to_nat BITS < fuel)%nat ->
  exists d', qd_decode_eg WB BITS fuel d = (EgOk n, d') /\ qd_inv WB d' /\ abs_qdec WB d' = rest.
Proof.
  intros Hn Hi Ha Hf.
  destruct (qd_decode_eg_refines fuel d Hi) as (d' & E & Hi' & Ha').
  rewrite Ha, (eg_decode_spec_list BITS HB HB32 n _ fuel Hn Hf) in E, Ha'.
  exists d'. split; [exact E|]. split; [exact Hi'|exact Ha'].
Qed.

End Coders.
