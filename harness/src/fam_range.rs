//! Family `range`: histories on `RangeEncoder<Word, State, Vec<Word>>` followed by
//! `RangeDecoder<Word, State, Cursor<Word, Vec<Word>>>` (C02, C11, and the range-coder parts of
//! C06, C07, C08, C09, C10, C12, C18).  Input / output format: see /verif/lib/fam_range.py
//! (generator) and coq/theories/Corr/Range_run.v (model runner); the three must agree.
use crate::common::*;
use constriction::backends::Cursor;
use constriction::stream::queue::{EncoderSituation, RangeCoderState, RangeDecoder, RangeEncoder};
use constriction::stream::{Code, Decode, Encode};
use constriction::{CoderError, Pos, Seek};
use core::num::NonZeroUsize;

pub const ERR_IMPOSSIBLE: Int = -1;
pub const ERR_STATE: Int = -5;
pub const ERR_INVALID: Int = -6;
pub const ERR_SEEK: Int = -7;
pub const ERR_RAW: Int = -8;
pub const DIGEST_MOD: Int = 1000003;

macro_rules! with_p {
    ($Pr:ty, $p:expr, [$($lit:literal),*], |$tm:ident| $body:expr, $t:expr) => {
        match $p {
            $( $lit => { let $tm = TM::<$Pr, $lit>::new($t); $body } )*
            other => panic!("harness: precision {} not in menu", other),
        }
    };
}

macro_rules! range_impl {
    ($name:ident, $W:ty, $S:ty, $Pr:ty, $plist:tt) => {
        pub fn $name(r: &mut Reader, out: &mut Vec<Int>) {
            type Enc = RangeEncoder<$W, $S, Vec<$W>>;
            type Dec = RangeDecoder<$W, $S, Cursor<$W, Vec<$W>>>;
            type St = RangeCoderState<$W, $S>;

            fn sit_ints(s: &EncoderSituation<$W>, out: &mut Vec<Int>) {
                match s {
                    EncoderSituation::Normal => {
                        out.push(0);
                        out.push(0);
                    }
                    EncoderSituation::Inverted(n, w) => {
                        out.push(n.get() as Int);
                        out.push(*w as Int);
                    }
                }
            }
            // per-step snapshots carry a digest of (lower, range[, point]); complete values are
            // printed by the pos / raw-parts ops and at the end (see Corr/Range_run.v)
            fn enc_compact(e: &Enc, out: &mut Vec<Int>) {
                let (bulk, st, sit) = e.clone().into_raw_parts();
                out.push(bulk.len() as Int);
                out.push((st.lower() as Int + 31 * (st.range().get() as Int)) % DIGEST_MOD);
                sit_ints(&sit, out);
            }
            fn dec_compact(d: &Dec, out: &mut Vec<Int>) {
                let (bulk, st, point) = d.clone().into_raw_parts();
                out.push(Pos::pos(&bulk) as Int);
                out.push(
                    (st.lower() as Int + 31 * (st.range().get() as Int) + 977 * (point as Int))
                        % DIGEST_MOD,
                );
            }
            fn enc_raw(e: &Enc, out: &mut Vec<Int>) {
                let (bulk, st, sit) = e.clone().into_raw_parts();
                out.push(bulk.len() as Int);
                out.extend(bulk.iter().map(|&w| w as Int));
                out.push(st.lower() as Int);
                out.push(st.range().get() as Int);
                sit_ints(&sit, out);
            }
            fn dec_raw(d: &Dec, out: &mut Vec<Int>) {
                let (bulk, st, point) = d.clone().into_raw_parts();
                out.push(Pos::pos(&bulk) as Int);
                out.push(st.lower() as Int);
                out.push(st.range().get() as Int);
                out.push(point as Int);
            }

            let models = read_models(r);
            let mut enc: Enc = RangeEncoder::new();
            let mut snaps: Vec<(usize, St)> = Vec::new();
            let mut dec: Option<Dec> = None;
            // successfully encoded (model index, symbol) pairs, for op 12 (None once the encoder was
            // replaced through raw parts)
            let mut encoded_opt: Option<Vec<(usize, i64)>> = Some(Vec::new());
            let mut stash: Option<Enc> = None;

            // ---------------- encoder phase
            while !r.done() && dec.is_none() {
                let op = r.next();
                match op {
                    1 => {
                        let mi = r.us();
                        let m = &models[mi];
                        let sym = r.next() as i64;
                        let res = with_p!($Pr, m.p, $plist, |tm| enc.encode_symbol(sym, tm), &m.t);
                        if res.is_ok() {
                            if let Some(v) = encoded_opt.as_mut() {
                                v.push((mi, sym));
                            }
                        }
                        out.push(match res {
                            Ok(()) => 0,
                            Err(CoderError::Frontend(_)) => ERR_IMPOSSIBLE,
                            Err(CoderError::Backend(e)) => match e {},
                        });
                        enc_compact(&enc, out);
                    }
                    2 => {
                        let g = enc.get_compressed();
                        out.push(g.len() as Int);
                        out.extend(g.iter().map(|&w| w as Int));
                    }
                    3 => {
                        out.push(enc.num_words() as Int);
                        out.push(enc.num_bits() as Int);
                        out.push(enc.is_empty() as Int);
                        out.push(enc.maybe_full() as Int);
                    }
                    4 => {
                        let (pos, st) = enc.pos();
                        out.push(pos as Int);
                        out.push(st.lower() as Int);
                        out.push(st.range().get() as Int);
                        snaps.push((pos, st));
                    }
                    5 => {
                        let seq: Vec<usize> = r.list().into_iter().map(|x| x as usize).collect();
                        let mut d = enc.decoder();
                        for &mi in &seq {
                            let m = &models[mi];
                            let res = with_p!($Pr, m.p, $plist, |tm| d.decode_symbol(tm), &m.t);
                            match res {
                                Ok(s) => {
                                    out.push(0);
                                    out.push(s as Int);
                                }
                                Err(CoderError::Frontend(_)) => {
                                    out.push(ERR_INVALID);
                                    out.push(0);
                                }
                                Err(CoderError::Backend(e)) => match e {},
                            }
                        }
                        out.push(d.maybe_exhausted() as Int);
                    }
                    6 => enc_raw(&enc, out),
                    7 => {
                        let (bulk, st, sit) = enc.into_raw_parts();
                        enc = RangeEncoder::from_raw_parts(bulk, st, sit);
                        out.push(0);
                    }
                    15 => {
                        // clear(): "resets the coder to the same state as Coder::new"
                        enc.clear();
                        encoded_opt = Some(Vec::new());
                        out.push(0);
                    }
                    13 => {
                        // replace the encoder by a copy made with Clone::clone_from into a STALE
                        // scratch encoder (the encoder as it was at the previous op 13, or a fresh
                        // one); a copy must be the same coder whatever the scratch held before
                        let mut scratch = stash.take().unwrap_or_else(RangeEncoder::new);
                        scratch.clone_from(&enc);
                        stash = Some(core::mem::replace(&mut enc, scratch));
                        out.push(0);
                    }
                    14 => {
                        let c = enc.clone();
                        stash = Some(core::mem::replace(&mut enc, c));
                        out.push(0);
                    }
                    8 => {
                        encoded_opt = None;
                        let bulk: Vec<$W> = r.list().into_iter().map(|x| x as $W).collect();
                        let lower = r.next() as $S;
                        let range = r.next() as $S;
                        let n = r.us();
                        let w = r.next() as $W;
                        match St::new(lower, range) {
                            Ok(st) => {
                                let sit = match NonZeroUsize::new(n) {
                                    None => EncoderSituation::Normal,
                                    Some(n) => EncoderSituation::Inverted(n, w),
                                };
                                enc = RangeEncoder::from_raw_parts(bulk, st, sit);
                                out.push(0);
                            }
                            Err(()) => out.push(ERR_STATE),
                        }
                    }
                    9 | 11 | 12 => {
                        // 9: into_compressed;  11: Vec::from(encoder);  12: the same message encoded
                        // onto a Cursor sink over a stale all-ones buffer (a sink whose maybe_full()
                        // is the trait default); all three must yield the same sealed words
                        let sfx: Vec<$W> = r.list().into_iter().map(|x| x as $W).collect();
                        let e = core::mem::replace(&mut enc, RangeEncoder::new());
                        let mut ws: Vec<$W> = if op == 9 || (op == 12 && encoded_opt.is_none()) {
                            e.into_compressed().unwrap()
                        } else if op == 11 {
                            e.into()
                        } else {
                            let encoded = encoded_opt.clone().unwrap();
                            let reference = e.into_compressed().unwrap();
                            let cursor = Cursor::new_at_write_beginning(vec![<$W>::MAX; reference.len() + 8]);
                            let mut e2 = RangeEncoder::<$W, $S, Cursor<$W, Vec<$W>>>::with_backend(cursor);
                            for &(mi, sym) in &encoded {
                                let m = &models[mi];
                                with_p!($Pr, m.p, $plist, |tm| e2.encode_symbol(sym, tm), &m.t).unwrap();
                            }
                            let (buf, pos) = e2.into_compressed().unwrap().into_buf_and_pos();
                            buf[..pos].to_vec()
                        };
                        out.push(ws.len() as Int);
                        out.extend(ws.iter().map(|&w| w as Int));
                        ws.extend(sfx);
                        dec = Some(RangeDecoder::from_compressed(ws).unwrap());
                    }
                    10 => {
                        let ws: Vec<$W> = r.list().into_iter().map(|x| x as $W).collect();
                        out.push(0);
                        dec = Some(RangeDecoder::from_compressed(ws).unwrap());
                    }
                    other => panic!("harness: unknown range encoder op {}", other),
                }
            }

            let mut d = match dec {
                None => {
                    enc_raw(&enc, out);
                    out.push(0); // slot of the model-vs-spec check (see Corr/Range_run.v)
                    return;
                }
                Some(d) => d,
            };

            // ---------------- decoder phase
            while !r.done() {
                let op = r.next();
                match op {
                    20 => {
                        let m = &models[r.us()];
                        let res = with_p!($Pr, m.p, $plist, |tm| d.decode_symbol(tm), &m.t);
                        match res {
                            Ok(s) => {
                                out.push(0);
                                out.push(s as Int);
                            }
                            Err(CoderError::Frontend(_)) => {
                                out.push(ERR_INVALID);
                                out.push(0);
                            }
                            Err(CoderError::Backend(e)) => match e {},
                        }
                        dec_compact(&d, out);
                    }
                    26 => {
                        // decode_iid_symbols(k, model), drained with a cap: the iterator must yield
                        // exactly k items even if the decoder keeps failing
                        let m = &models[r.us()];
                        let k = r.us();
                        let items: Vec<Int> = with_p!($Pr, m.p, $plist, |tm| {
                            d.decode_iid_symbols(k, tm)
                                .take(k + 4)
                                .flat_map(|x| match x {
                                    Ok(s) => [0, s as Int],
                                    Err(_) => [ERR_INVALID, 0],
                                })
                                .collect()
                        }, &m.t);
                        out.push((items.len() / 2) as Int);
                        out.extend(items);
                        dec_compact(&d, out);
                    }
                    21 => out.push(d.maybe_exhausted() as Int),
                    22 => {
                        let i = r.us();
                        let ps = snaps[i];
                        out.push(match d.seek(ps) {
                            Ok(()) => 0,
                            Err(()) => ERR_SEEK,
                        });
                    }
                    27 => {
                        // like 22, but the snapshot is stored as plain numbers and the state is
                        // rebuilt with RangeCoderState::new (the only public way to do so)
                        let i = r.us();
                        let (pos, st) = snaps[i];
                        match St::new(st.lower(), st.range().get()) {
                            Ok(st2) => out.push(match d.seek((pos, st2)) {
                                Ok(()) => 0,
                                Err(()) => ERR_SEEK,
                            }),
                            Err(()) => out.push(ERR_STATE),
                        }
                    }
                    23 => dec_raw(&d, out),
                    24 => {
                        let pos = r.us();
                        let lower = r.next() as $S;
                        let range = r.next() as $S;
                        match St::new(lower, range) {
                            Ok(st) => out.push(match d.seek((pos, st)) {
                                Ok(()) => 0,
                                Err(()) => ERR_SEEK,
                            }),
                            Err(()) => out.push(ERR_STATE),
                        }
                    }
                    25 => {
                        let lower = r.next() as $S;
                        let range = r.next() as $S;
                        let point = r.next() as $S;
                        match St::new(lower, range) {
                            Ok(st) => {
                                // (a refused from_raw_parts hands the backend back; we keep the old decoder)
                                let (bulk, _, _) = d.clone().into_raw_parts();
                                match RangeDecoder::from_raw_parts(bulk, st, point) {
                                    Ok(d2) => {
                                        d = d2;
                                        out.push(0);
                                    }
                                    Err(_) => out.push(ERR_RAW),
                                }
                            }
                            Err(()) => out.push(ERR_STATE),
                        }
                    }
                    28 => {
                        // the decoder is taken apart and reassembled from its own raw parts
                        let (bulk, st, point) = d.clone().into_raw_parts();
                        match RangeDecoder::from_raw_parts(bulk, st, point) {
                            Ok(d2) => {
                                d = d2;
                                out.push(0);
                            }
                            Err(_) => out.push(ERR_RAW),
                        }
                    }
                    other => panic!("harness: unknown range decoder op {}", other),
                }
            }
            dec_raw(&d, out);
            out.push(0); // slot of the model-vs-spec check
            let _ = <Dec as Code>::state(&d);
        }
    };
}

range_impl!(range_8_16_8, u8, u16, u8, [1, 2, 3, 4, 5, 6, 7, 8]);
range_impl!(range_8_32_8, u8, u32, u8, [1, 2, 3, 4, 5, 6, 7, 8]);
range_impl!(range_8_64_8, u8, u64, u8, [1, 2, 3, 4, 5, 6, 7, 8]);
range_impl!(range_16_32_16, u16, u32, u16, [1, 2, 3, 4, 5, 6, 7, 8, 9, 10, 11, 12, 13, 14, 15, 16]);
range_impl!(range_16_32_8, u16, u32, u8, [1, 2, 3, 4, 5, 6, 7, 8]);
range_impl!(range_16_64_16, u16, u64, u16, [1, 2, 3, 4, 5, 6, 7, 8, 9, 10, 11, 12, 13, 14, 15, 16]);
range_impl!(range_32_64_32, u32, u64, u32, [1, 2, 7, 8, 12, 16, 23, 24, 25, 31, 32]);
range_impl!(range_32_64_16, u32, u64, u16, [1, 2, 3, 4, 5, 6, 7, 8, 9, 10, 11, 12, 13, 14, 15, 16]);

pub fn run(r: &mut Reader, out: &mut Vec<Int>) {
    let wb = r.next();
    let sb = r.next();
    let pb = r.next();
    match (wb, sb, pb) {
        (8, 16, 8) => range_8_16_8(r, out),
        (8, 32, 8) => range_8_32_8(r, out),
        (8, 64, 8) => range_8_64_8(r, out),
        (16, 32, 16) => range_16_32_16(r, out),
        (16, 32, 8) => range_16_32_8(r, out),
        (16, 64, 16) => range_16_64_16(r, out),
        (32, 64, 32) => range_32_64_32(r, out),
        (32, 64, 16) => range_32_64_16(r, out),
        _ => panic!("harness: range instance ({},{},{}) not in menu", wb, sb, pb),
    }
}
