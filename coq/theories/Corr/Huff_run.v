(* Corr/Huff_run.v -- runs an integer-encoded Huffman case on Model/Huffman.v.
   Mirror of harness/src/fam_huff.rs (format documented there and in lib/fam_huff.py).
   Executable glue only.

   Float weights are Flocq's IEEE-754 binary32 / binary64 (Model/HuffmanFloat.v);
   they arrive as bit patterns (Bits.b32_of_bits).  NaN payloads are never observed.

   The bit coders the codebooks are driven through (QueueEncoder<u32>/QueueDecoder,
   StackCoder<u32>) are represented by the bit lists they refine (C16):
     queue: written bits in order, padded with zeros to a multiple of 32 by
            into_decoder's flush; a failed decode has consumed everything;
     stack: head of the list = top of the stack. *)
From CV Require Import Corr.Parse Model.Huffman Model.HuffmanFloat.
From Flocq Require Import IEEE754.BinarySingleNaN IEEE754.Binary IEEE754.Bits.
Open Scope Z_scope.

Definition ERR_IMPOSSIBLE := -1.
Definition ERR_OUT_OF_DATA := -5.
Definition ERR_NAN := -6.
Definition ERR_MODEL := -700.   (* model-only results: -700 - constructor index of herr *)

Definition herr_code (e : herr) : Z :=
  match e with
  | E_NaN => ERR_NAN
  | E_Panic => PANIC
  | E_Impossible => ERR_IMPOSSIBLE
  | E_OutOfData => ERR_OUT_OF_DATA
  | E_Overflow => ERR_MODEL - 1
  | E_HeapNaN => ERR_MODEL - 2
  | E_Fuel => ERR_MODEL - 3
  | UB_enc_build_0 => ERR_MODEL - 4
  | UB_enc_build_1 => ERR_MODEL - 5
  | UB_enc_walk => ERR_MODEL - 6
  | UB_dec_walk => ERR_MODEL - 7
  end.

Definition USZ : N := 64.

(* the two trees for one weight list *)
Definition build_int (b : N) (ws : list Z) :=
  (enc_build_int b USZ (map zN ws), dec_build_int b USZ (map zN ws)).

Definition build_f32 (ws : list Z) :=
  let fs := map b32_of_bits ws in (enc_build_f32 USZ fs, dec_build_f32 USZ fs).
Definition build_f64 (ws : list Z) :=
  let fs := map b64_of_bits ws in (enc_build_f64 USZ fs, dec_build_f64 USZ fs).

Definition b2z (b : bool) : Z := if b then 1 else 0.

Definition out_bits (r : res (list bool)) : list Z :=
  match r with
  | Ok bits => Z.of_nat (length bits) :: map b2z bits
  | Err e => [herr_code e]
  end.

(* encode_symbols: stops at the first error, keeps what was written *)
Fixpoint queue_encode (en : list N) (syms : list Z) (written : list bool) : list bool * Z :=
  match syms with
  | [] => (written, 0)
  | s :: r => match enc_prefix en (zN s) with
              | Ok bits => queue_encode en r (written ++ bits)
              | Err e => (written, herr_code e)
              end
  end.

Fixpoint stack_encode (en : list N) (syms : list Z) (stack : list bool) : list bool * Z :=
  match syms with
  | [] => (stack, 0)
  | s :: r => match enc_suffix en (zN s) with
              | Ok bits => stack_encode en r (fold_left bitstack_write bits stack)
              | Err e => (stack, herr_code e)
              end
  end.

Fixpoint decode_many (dn : list (N * N)) (k : nat) (src : list bool) : list Z :=
  match k with
  | O => []
  | S k' => match dec_symbol dn src with
            | Ok (s, rest) => nZ s :: decode_many dn k' rest
            | Err e => herr_code e :: decode_many dn k' []
            end
  end.

Definition pad32 (bits : list bool) : list bool :=
  bits ++ repeat false (Z.to_nat ((- Z.of_nat (length bits)) mod 32)).

Definition one_result (r : res (N * list bool)) : Z :=
  match r with Ok (s, _) => nZ s | Err e => herr_code e end.

Fixpoint dump (en : list N) (dn : list (N * N)) (k : nat) (s : N) : list Z :=
  match k with
  | O => []
  | S k' =>
      let q := match enc_prefix en s with
               | Ok bits => one_result (dec_symbol dn (pad32 bits))
               | Err e => herr_code e
               end in
      let st := match enc_suffix en s with
                | Ok bits =>
                    match dec_symbol dn (fold_left bitstack_write bits []) with
                    | Ok (d, rest) => [nZ d; match rest with [] => 1 | _ => 0 end]
                    | Err e => [herr_code e; 1]
                    end
                | Err e => [herr_code e; 1]
                end in
      out_bits (enc_suffix en s) ++ out_bits (enc_prefix en s) ++ q :: st
        ++ dump en dn k' (s + 1)%N
  end.

Fixpoint huff_loop (fuel : nat) (en : list N) (dn : list (N * N)) (l : list Z) : list Z :=
  match fuel with
  | O => []
  | S fuel' =>
    match l with
    | [] => []
    | 1 :: s :: r => out_bits (enc_suffix en (zN s)) ++ huff_loop fuel' en dn r
    | 2 :: s :: r => out_bits (enc_prefix en (zN s)) ++ huff_loop fuel' en dn r
    | 3 :: r =>
        let '(syms, r1) := read_list r in
        let extra := hdz r1 in
        let '(bits, e) := queue_encode en syms [] in
        e :: decode_many dn (length syms + Z.to_nat extra) (pad32 bits)
          ++ huff_loop fuel' en dn (tl r1)
    | 4 :: r =>
        let '(syms, r1) := read_list r in
        let extra := hdz r1 in
        let '(stack, e) := stack_encode en (rev syms) [] in
        e :: decode_many dn (length syms + Z.to_nat extra) stack
          ++ huff_loop fuel' en dn (tl r1)
    | 5 :: r =>
        let '(bs, r1) := read_list r in
        let src := map (fun b => negb (Z.eqb b 0)) bs in
        match dec_symbol dn src with
        | Ok (s, rest) => nZ s :: Z.of_nat (length src - length rest) :: huff_loop fuel' en dn r1
        | Err e => herr_code e :: Z.of_nat (length src) :: huff_loop fuel' en dn r1
        end
    | 6 :: r => nZ (enc_num_symbols en) :: nZ (dec_num_symbols dn) :: huff_loop fuel' en dn r
    | 7 :: r => dump en dn (N.to_nat (enc_num_symbols en)) 0%N ++ huff_loop fuel' en dn r
    | _ => [PANIC]
    end
  end.

Definition status {A} (r : res A) : Z := match r with Ok _ => 0 | Err e => herr_code e end.

Definition run_huff (inp : list Z) : list Z :=
  match inp with
  | kind :: r =>
      let '(ws, ops) := read_list r in
      let '(e, d) :=
        match kind with
        | 0 => build_int 8 ws
        | 1 => build_int 32 ws
        | 2 => build_int 64 ws
        | 3 => build_f32 ws
        | _ => build_f64 ws
        end in
      match e, d with
      | Ok en, Ok dn => 0 :: 0 :: huff_loop (length ops) en dn ops
      | _, _ =>
          (* a panic unwinds out of the whole case *)
          if Z.eqb (status e) PANIC || Z.eqb (status d) PANIC then [PANIC]
          else [status e; status d]
      end
  | _ => [PANIC]
  end.
