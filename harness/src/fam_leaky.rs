//! Family `leaky`: `LeakyQuantizer` / `LeakilyQuantizedDistribution` (C03, C05, C09, C10, C19,
//! leaky-quantizer parts).  Format: see /verif/lib/fam_leaky.py (generator) and
//! coq/theories/Corr/Leaky_run.v (model runner); the three must agree.
//!
//! The distribution is injected through the public `probability` traits: `StepCdf` (CDF
//! table of f64 bit patterns, arbitrary inverse hint) or the real Gaussian / Cauchy /
//! Laplace / Binomial.  The harness prints first what it OBSERVES at that interface (the
//! integers `(free_weight * cdf(x - 0.5)) as Probability` for every boundary of the
//! support, run-length encoded); the Python side feeds them to the model.
use crate::common::*;
use constriction::stream::model::{
    DecoderModel, EncoderModel, IterableEntropyModel, LeakyQuantizer,
};
use num_traits::AsPrimitive;
use probability::distribution::{Binomial, Cauchy, Distribution, Gaussian, Inverse, Laplace};
use std::cell::Cell;
use std::panic::{catch_unwind, AssertUnwindSafe};

pub const E_NONE: Int = -1;
pub const E_PANIC: Int = -5;
pub const TIMEOUT: Int = -999997;
/// a panic or a hang INSIDE the third-party `probability` crate (e.g. `Binomial::inverse` for
/// quantiles next to 1: `self.n - k + 1` underflows; debug: panic, release: endless loop).  Such a
/// case says nothing about constriction and is dropped by the Python side.
pub const FOREIGN: Int = -999995;
const WATCHDOG_SECS: u64 = 6;

// id of the case whose worker thread is currently inside the foreign crate (0 = none); a worker
// abandoned by the watchdog keeps spinning but never stores again
static IN_FOREIGN: std::sync::atomic::AtomicU64 = std::sync::atomic::AtomicU64::new(0);
static FOREIGN_PANICKED: std::sync::atomic::AtomicU64 = std::sync::atomic::AtomicU64::new(0);
static NEXT_CASE: std::sync::atomic::AtomicU64 = std::sync::atomic::AtomicU64::new(1);
thread_local! { static MY_CASE: Cell<u64> = Cell::new(0); }

struct ForeignGuard;
impl Drop for ForeignGuard {
    fn drop(&mut self) {
        use std::sync::atomic::Ordering::SeqCst;
        if std::thread::panicking() {
            FOREIGN_PANICKED.store(MY_CASE.with(|c| c.get()), SeqCst);
        }
        IN_FOREIGN.store(0, SeqCst);
    }
}

fn foreign<T>(f: impl FnOnce() -> T) -> T {
    IN_FOREIGN.store(MY_CASE.with(|c| c.get()), std::sync::atomic::Ordering::SeqCst);
    let _g = ForeignGuard;
    f()
}

/// `probability::distribution::Binomial` with the calls into the foreign crate marked
pub struct GuardedBinomial(Binomial);

impl Distribution for GuardedBinomial {
    type Value = usize;
    fn distribution(&self, x: f64) -> f64 {
        foreign(|| self.0.distribution(x))
    }
}

impl Inverse for GuardedBinomial {
    fn inverse(&self, p: f64) -> usize {
        foreign(|| self.0.inverse(p))
    }
}

/// CDF given by a table (indexed by the boundary `x = s - 0.5`, `s = lo+1 ..= hi`); the
/// inverse returns whatever hint the case prescribes for the current query.
pub struct StepCdf {
    lo: i128,
    cdf: Vec<f64>,
    hint: Cell<f64>,
    expect_p: Cell<u64>,
    off: Cell<u64>,
}

impl StepCdf {
    fn eval(&self, x: f64) -> f64 {
        let s = x + 0.5;
        if !(s.fract() == 0.0) || !(s.abs() < 1e18) {
            self.off.set(self.off.get() + 1);
            return 0.0;
        }
        let idx = s as i128 - (self.lo + 1);
        if idx < 0 {
            self.off.set(self.off.get() + 1);
            0.0
        } else if idx as usize >= self.cdf.len() {
            self.off.set(self.off.get() + 1);
            1.0
        } else {
            self.cdf[idx as usize]
        }
    }
}

pub enum AnyDist {
    Step(StepCdf),
    Gauss(Gaussian),
    Cauchy(Cauchy),
    Laplace(Laplace),
}

impl Distribution for AnyDist {
    type Value = f64;
    fn distribution(&self, x: f64) -> f64 {
        match self {
            AnyDist::Step(s) => s.eval(x),
            AnyDist::Gauss(d) => foreign(|| d.distribution(x)),
            AnyDist::Cauchy(d) => foreign(|| d.distribution(x)),
            AnyDist::Laplace(d) => foreign(|| d.distribution(x)),
        }
    }
}

impl Inverse for AnyDist {
    fn inverse(&self, p: f64) -> f64 {
        match self {
            AnyDist::Step(s) => {
                if p.to_bits() != s.expect_p.get() {
                    s.off.set(s.off.get() + 1);
                }
                s.hint.get()
            }
            AnyDist::Gauss(d) => foreign(|| d.inverse(p)),
            AnyDist::Cauchy(d) => foreign(|| d.inverse(p)),
            AnyDist::Laplace(d) => foreign(|| d.inverse(p)),
        }
    }
}

pub trait HintCtl {
    fn set_hint(&self, _h: f64, _expect_p: f64) {}
    fn off(&self) -> u64 {
        0
    }
    fn reset_off(&self) {}
}

impl HintCtl for AnyDist {
    fn set_hint(&self, h: f64, expect_p: f64) {
        if let AnyDist::Step(s) = self {
            s.hint.set(h);
            s.expect_p.set(expect_p.to_bits());
        }
    }
    fn off(&self) -> u64 {
        match self {
            AnyDist::Step(s) => s.off.get(),
            _ => 0,
        }
    }
    fn reset_off(&self) {
        if let AnyDist::Step(s) = self {
            s.off.set(0)
        }
    }
}

impl HintCtl for GuardedBinomial {}

fn f(bits: Int) -> f64 {
    f64::from_bits(bits as u64)
}

fn hint_float(kind: Int, v: Int) -> f64 {
    match kind {
        0 => v as f64,
        1 => f64::NAN,
        2 => f64::INFINITY,
        3 => f64::NEG_INFINITY,
        _ => v as f64 + 0.5,
    }
}

fn parse_free_weight(dbg: &str) -> f64 {
    let k = dbg.find("free_weight: ").expect("Debug output without free_weight") + 13;
    let rest = &dbg[k..];
    let end = rest.find(|ch| ch == ',' || ch == ' ' || ch == '}').unwrap_or(rest.len());
    rest[..end].parse::<f64>().expect("free_weight not a float")
}

type Rec4 = (Int, Int, Int, Int);

/// arithmetic-progression runs (tables): same st and p, next symbol, cumulative c0 + count * p
fn ap_runs(recs: &[Rec4], out: &mut Vec<Int>) {
    let mut runs: Vec<(Int, Rec4)> = Vec::new();
    for &(st, s, c, p) in recs {
        if let Some((n, (st0, s0, c0, p0))) = runs.last_mut() {
            if st == *st0 && p == *p0 && s == *s0 + *n && c == *c0 + *n * *p0 {
                *n += 1;
                continue;
            }
        }
        runs.push((1, (st, s, c, p)));
    }
    push_runs(&runs, out);
}

/// runs of identical records (quantile sweeps)
fn eq_runs(recs: &[Rec4], out: &mut Vec<Int>) {
    let mut runs: Vec<(Int, Rec4)> = Vec::new();
    for &r in recs {
        if let Some((n, r0)) = runs.last_mut() {
            if r == *r0 {
                *n += 1;
                continue;
            }
        }
        runs.push((1, r));
    }
    push_runs(&runs, out);
}

fn push_runs(runs: &[(Int, Rec4)], out: &mut Vec<Int>) {
    out.push(runs.len() as Int);
    for &(n, (st, s, c, p)) in runs {
        out.extend([n, st, s, c, p]);
    }
}

macro_rules! leaky_impl {
    ($name:ident, $Sym:ty, $Pr:ty, [$($p:literal),*]) => {
        fn $name(p: usize, lo: Int, hi: Int, dkind: Int, params: &[Int], ops: &[Int], out: &mut Vec<Int>) {
            fn go<D, const P: usize>(dist: D, lo: Int, hi: Int, dkind: Int, ops: &[Int], out: &mut Vec<Int>)
            where
                D: Inverse + HintCtl,
                D::Value: AsPrimitive<$Sym>,
            {
                out.push(cfg!(debug_assertions) as Int);
                let (slo, shi) = (lo as $Sym, hi as $Sym);
                assert!(slo as Int == lo && shi as Int == hi, "harness: support outside the symbol type");
                let quantizer = match catch_unwind(|| LeakyQuantizer::<f64, $Sym, $Pr, P>::new(slo..=shi)) {
                    Ok(q) => q,
                    Err(_) => {
                        out.push(E_PANIC);
                        return;
                    }
                };
                let fw = parse_free_weight(&format!("{:?}", quantizer));
                out.push(fw as Int);
                // observed non_leaky values for the boundaries lo+1 ..= hi, run-length encoded
                let mut rle: Vec<(Int, Int)> = Vec::new();
                let mut hyp = true;
                let mut prev: Int = 0;
                let mut s = slo;
                while s < shi {
                    s = s + 1;
                    let x: f64 = s.into();
                    let nl: $Pr = (fw * dist.distribution(x - 0.5)).as_();
                    let nl = nl as Int;
                    if nl < prev || nl > fw as Int {
                        hyp = false;
                    }
                    if rle.is_empty() || rle.last().unwrap().1 != nl {
                        rle.push((s as Int, nl));
                    }
                    prev = nl;
                }
                out.push(rle.len() as Int);
                for (s, v) in &rle {
                    out.push(*s);
                    out.push(*v);
                }
                out.push(hyp as Int);
                dist.reset_off();
                let skipdec = dkind != 0 && !hyp;
                let model = quantizer.quantize(dist);
                let inv_den = 1.0 / ((1u128 << P) as f64);
                let dec = |q: Int, h: f64| -> Rec4 {
                    model.inner().set_hint(h, (q as f64 + 0.5) * inv_den);
                    let r = catch_unwind(AssertUnwindSafe(|| model.quantile_function(q as $Pr)));
                    match r {
                        Ok((s, c, pr)) => (0, s as Int, c as Int, pr.get() as Int),
                        Err(_) => (E_PANIC, 0, 0, 0),
                    }
                };
                let enc = |s: Int| -> Rec4 {
                    let sym = s as $Sym;
                    assert!(sym as Int == s, "harness: symbol outside the symbol type");
                    let r = catch_unwind(AssertUnwindSafe(|| model.left_cumulative_and_probability(sym)));
                    match r {
                        Ok(Some((c, pr))) => (0, s, c as Int, pr.get() as Int),
                        Ok(None) => (E_NONE, s, 0, 0),
                        Err(_) => (E_PANIC, s, 0, 0),
                    }
                };
                let mut r = Reader::new(ops);
                while !r.done() {
                    match r.next() {
                        1 => {
                            let s = r.next();
                            let (st, _, c, p) = enc(s);
                            out.extend([st, c, p]);
                        }
                        2 => {
                            let q = r.next();
                            let (hk, hv) = (r.next(), r.next());
                            if !skipdec {
                                let (st, s, c, p) = dec(q, hint_float(hk, hv));
                                out.extend([st, s, c, p]);
                            }
                        }
                        3 => {
                            let (a, b, cc, d, m) = (r.next(), r.next(), r.next(), r.next(), r.next());
                            if !skipdec {
                                assert!(P <= 12, "harness: full sweep only for P <= 12");
                                let recs: Vec<Rec4> = (0..(1 as Int) << P)
                                    .map(|q| {
                                        let h = cc + (a * q + b).div_euclid(d).rem_euclid(m);
                                        dec(q, h as f64)
                                    })
                                    .collect();
                                eq_runs(&recs, out);
                            }
                        }
                        4 => {
                            // (no collect(): the items are pushed one by one so that a wrong
                            // size_hint cannot make the harness reserve memory for 2^32 entries;
                            // the lower bound of the hint is reported instead)
                            let r = catch_unwind(AssertUnwindSafe(|| {
                                let it = model.symbol_table();
                                let hint = it.size_hint().0;
                                let mut t = Vec::new();
                                for e in it {
                                    t.push(e);
                                }
                                (hint, t)
                            }));
                            match r {
                                Ok((hint, t)) => {
                                    out.push(hint as Int);
                                    let recs: Vec<Rec4> = t
                                        .into_iter()
                                        .map(|(s, c, pr)| (0, s as Int, c as Int, pr.get() as Int))
                                        .collect();
                                    ap_runs(&recs, out);
                                }
                                Err(_) => out.push(E_PANIC),
                            }
                        }
                        6 => {
                            let recs: Vec<Rec4> = (lo..=hi).map(|s| enc(s)).collect();
                            ap_runs(&recs, out);
                        }
                        other => panic!("harness: unknown leaky op {}", other),
                    }
                }
                out.push(model.inner().off() as Int);
            }

            let mk_step = || {
                let n = (hi - lo).max(0) as usize;
                let mut cdf = vec![0.0f64; n];
                let k = params[0] as usize;
                for i in 0..k {
                    let v = f(params[2 + 2 * i]);
                    let from = ((params[1 + 2 * i] - (lo + 1)).max(0) as usize).min(n);
                    let to = if i + 1 < k { ((params[3 + 2 * i] - (lo + 1)).max(0) as usize).min(n) } else { n };
                    for e in cdf[from..to.max(from)].iter_mut() {
                        *e = v;
                    }
                }
                AnyDist::Step(StepCdf {
                    lo,
                    cdf,
                    hint: Cell::new(0.0),
                    expect_p: Cell::new(0),
                    off: Cell::new(0),
                })
            };
            match p {
                $( $p => match dkind {
                    -1 => {
                        // constructor only
                        out.push(cfg!(debug_assertions) as Int);
                        let (slo, shi) = (lo as $Sym, hi as $Sym);
                        assert!(slo as Int == lo && shi as Int == hi, "harness: support outside the symbol type");
                        match catch_unwind(|| format!("{:?}", LeakyQuantizer::<f64, $Sym, $Pr, $p>::new(slo..=shi))) {
                            Ok(s) => out.push(parse_free_weight(&s) as Int),
                            Err(_) => out.push(E_PANIC),
                        }
                    }
                    0 => go::<_, $p>(mk_step(), lo, hi, dkind, ops, out),
                    1 => go::<_, $p>(AnyDist::Gauss(Gaussian::new(f(params[0]), f(params[1]))), lo, hi, dkind, ops, out),
                    2 => go::<_, $p>(AnyDist::Cauchy(Cauchy::new(f(params[0]), f(params[1]))), lo, hi, dkind, ops, out),
                    3 => go::<_, $p>(AnyDist::Laplace(Laplace::new(f(params[0]), f(params[1]))), lo, hi, dkind, ops, out),
                    4 => go::<_, $p>(GuardedBinomial(Binomial::new(params[0] as usize, f(params[1]))), lo, hi, dkind, ops, out),
                    other => panic!("harness: unknown distribution kind {}", other),
                }, )*
                other => panic!("harness: leaky precision {} not in menu", other),
            }
        }
    };
}

/// constructor-only instance (Symbol without `Into<f64>`)
macro_rules! leaky_new_only {
    ($name:ident, $Sym:ty, $Pr:ty, [$($p:literal),*]) => {
        fn $name(p: usize, lo: Int, hi: Int, out: &mut Vec<Int>) {
            out.push(cfg!(debug_assertions) as Int);
            let (slo, shi) = (lo as $Sym, hi as $Sym);
            assert!(slo as Int == lo && shi as Int == hi, "harness: support outside the symbol type");
            let r = match p {
                $( $p => catch_unwind(|| format!("{:?}", LeakyQuantizer::<f64, $Sym, $Pr, $p>::new(slo..=shi))), )*
                other => panic!("harness: leaky precision {} not in menu", other),
            };
            match r {
                Ok(s) => out.push(parse_free_weight(&s) as Int),
                Err(_) => out.push(E_PANIC),
            }
        }
    };
}

leaky_impl!(leaky_i32_u32, i32, u32, [1, 2, 8, 12, 16, 24, 31, 32]);
leaky_impl!(leaky_i8_u8, i8, u8, [1, 2, 3, 4, 5, 6, 7, 8]);
leaky_impl!(leaky_i8_u16, i8, u16, [1, 2, 7, 8, 9, 12, 15, 16]);
leaky_impl!(leaky_u8_u16, u8, u16, [1, 2, 7, 8, 9, 12, 15, 16]);
leaky_impl!(leaky_i16_u16, i16, u16, [1, 8, 12, 15, 16]);
leaky_impl!(leaky_u16_u32, u16, u32, [1, 8, 12, 16, 17, 24, 31, 32]);
leaky_impl!(leaky_i32_u16, i32, u16, [1, 8, 12, 15, 16]);
leaky_new_only!(leaky_i64_u32, i64, u32, [1, 12, 24, 31, 32]);

fn run_inner(v: &[Int], out: &mut Vec<Int>) {
    let mut r = Reader::new(v);
    let (symb, sg, pb, p) = (r.next(), r.next(), r.next(), r.us());
    let (lo, hi) = (r.next(), r.next());
    let dkind = r.next();
    let params = r.list();
    let ops = &v[r.i..];
    match (symb, sg, pb) {
        (32, 1, 32) => leaky_i32_u32(p, lo, hi, dkind, &params, ops, out),
        (8, 1, 8) => leaky_i8_u8(p, lo, hi, dkind, &params, ops, out),
        (8, 1, 16) => leaky_i8_u16(p, lo, hi, dkind, &params, ops, out),
        (8, 0, 16) => leaky_u8_u16(p, lo, hi, dkind, &params, ops, out),
        (16, 1, 16) => leaky_i16_u16(p, lo, hi, dkind, &params, ops, out),
        (16, 0, 32) => leaky_u16_u32(p, lo, hi, dkind, &params, ops, out),
        (32, 1, 16) => leaky_i32_u16(p, lo, hi, dkind, &params, ops, out),
        (64, 1, 32) => leaky_i64_u32(p, lo, hi, out),
        _ => panic!("harness: leaky instance ({},{},{}) not in menu", symb, sg, pb),
    }
}

/// Runs the case on a worker thread under a watchdog: a `quantile_function` that does not
/// return makes the whole case `[TIMEOUT]` (the spinning worker is abandoned).
pub fn run(r: &mut Reader, out: &mut Vec<Int>) {
    let v: Vec<Int> = r.v[r.i..].to_vec();
    r.i = r.v.len();
    let (tx, rx) = std::sync::mpsc::channel();
    use std::sync::atomic::Ordering::SeqCst;
    let case = NEXT_CASE.fetch_add(1, SeqCst);
    std::thread::Builder::new()
        .stack_size(16 << 20)
        .spawn(move || {
            MY_CASE.with(|c| c.set(case));
            let mut o = Vec::new();
            run_inner(&v, &mut o);
            let _ = tx.send(o);
        })
        .unwrap();
    match rx.recv_timeout(std::time::Duration::from_secs(WATCHDOG_SECS)) {
        Ok(o) => {
            if FOREIGN_PANICKED.load(SeqCst) == case {
                out.push(FOREIGN)
            } else {
                out.extend(o)
            }
        }
        Err(std::sync::mpsc::RecvTimeoutError::Timeout) => {
            out.push(if IN_FOREIGN.load(SeqCst) == case { FOREIGN } else { TIMEOUT })
        }
        Err(std::sync::mpsc::RecvTimeoutError::Disconnected) => panic!("leaky worker panicked"),
    }
}
