(* Proofs/Ans_words.v -- word-level export / import of the ANS state. *)
From CV Require Import Base.Bits Model.EModel Model.Ans Proofs.Ans_core.
From Coq Require Import ZifyBool ZifyN ZifyNat.
Open Scope N_scope.
Set Default Timeout 30.

(* most-significant-first accumulation of digits in base 2^wb *)
Definition accum (wb : N) (acc : N) (ds : list N) : N :=
  fold_left (fun a d => a * 2 ^ wb + d) ds acc.

Lemma accum_app wb acc ds d : accum wb acc (ds ++ [d]) = accum wb acc ds * 2 ^ wb + d.
Proof. unfold accum. rewrite fold_left_app. reflexivity. Qed.

Lemma accum_cons wb acc d ds : accum wb acc (d :: ds) = accum wb (acc * 2 ^ wb + d) ds.
Proof. reflexivity. Qed.

Lemma accum_mono wb acc ds : acc <= accum wb acc ds.
Proof.
  revert acc. induction ds as [|d ds IH]; intros acc; cbn; [lia|].
  etransitivity; [|apply IH]. pose proof (pow2_pos wb). nia.
Qed.

Section Words.
Variable c : cfg.
Hypothesis Hc : wf_cfg c.
Let W := WB c.
Let S := SB c.
Let B := 2 ^ W.
Let T := 2 ^ (S - W).

Lemma B_pos : 0 < B. Proof. apply pow2_pos. Qed.
Lemma B_le_T : B <= T.
Proof. destruct Hc. apply pow2_le. subst S W. lia. Qed.
Lemma T_B : T * B = 2 ^ S.
Proof. symmetry. destruct Hc. apply pow2_split. subst S W. lia. Qed.

(* ---- chunks ---- *)
Lemma chunks_zero n : chunks W n 0 = [].
Proof. destruct n; reflexivity. Qed.

Lemma chunks_spec n s :
  0 < s -> s < B ^ N.of_nat n ->
  exists top rest, rev (chunks W n s) = top :: rest /\ 0 < top /\ top < B
    /\ Forall (fun w => w < B) rest /\ accum W top rest = s.
Proof.
  revert s. induction n as [|n IH]; intros s Hs Hlt.
  - cbn in Hlt. lia.
  - cbn [chunks]. destruct (N.eqb_spec s 0) as [->|_]; [lia|].
    unfold trunc, shr. rewrite N.shiftr_div_pow2. fold B.
    destruct (N.eq_dec (s / B) 0) as [Hz|Hnz].
    + rewrite Hz, chunks_zero. cbn.
      assert (s < B) by (apply N.div_small_iff in Hz; [exact Hz|pose proof B_pos; lia]).
      rewrite N.mod_small by assumption.
      exists s, []. repeat split; auto.
    + assert (Hlt' : s / B < B ^ N.of_nat n).
      { apply div_lt_upper; [apply B_pos|].
        replace (N.of_nat (Datatypes.S n)) with (N.of_nat n + 1) in Hlt by lia.
        rewrite N.pow_add_r, N.pow_1_r in Hlt. exact Hlt. }
      assert (Hpos' : 0 < s / B) by (apply N.neq_0_lt_0; exact Hnz).
      destruct (IH (s / B) Hpos' Hlt') as (top & rest & Hrev & Ht0 & HtB & Hall & Hacc).
      cbn [rev]. rewrite Hrev.
      exists top, (rest ++ [s mod B]). repeat split; auto.
      * apply Forall_app; split; [exact Hall|]. constructor; [|constructor].
        apply N.mod_lt. pose proof B_pos. lia.
      * rewrite accum_app, Hacc. fold B.
        rewrite (div_mod_eq s B) at 3 by (pose proof B_pos; lia). lia.
Qed.

Lemma nchunks_enough s : s < 2 ^ S -> s < B ^ N.of_nat (nchunks c).
Proof.
  intros Hs. unfold B. rewrite <- N.pow_mul_r.
  eapply N.lt_le_trans; [exact Hs|]. apply pow2_le.
  unfold nchunks. rewrite N2Nat.id. fold S W.
  destruct Hc as [HW _]. fold W in HW.
  assert (HWnz : W <> 0) by lia.
  assert (H := N.div_mod (S + W - 1) W HWnz).
  assert (H' := N.mod_lt (S + W - 1) W HWnz).
  nia.
Qed.

(* ---- read_more = read_initial_state's loop ---- *)
Lemma read_more_spec ds : forall acc b,
  Forall (fun w => w < B) ds -> acc < T ->
  (ds <> [] -> accum W acc ds / B < T) ->
  (b = [] \/ (ds <> [] /\ T <= accum W acc ds)) ->
  Forall (fun w => w < B) b ->
  read_more c (ds ++ b) acc = (b, accum W acc ds).
Proof.
  induction ds as [|d ds IH]; intros acc b Hall Hacc Hpre Hfin Hb.
  - destruct Hfin as [->|[? _]]; [reflexivity|contradiction].
  - inversion Hall as [|? ? Hd Hall']; subst.
    cbn [app read_more accum fold_left]. fold (accum W (acc * 2 ^ W + d) ds).
    assert (Hs' : N.lor (shl (SB c) acc (WB c)) d = acc * B + d).
    { unfold shl. rewrite shiftl_mul. fold W B S. rewrite trunc_small.
      - apply lor_disjoint. exact Hd.
      - rewrite <- T_B. pose proof B_pos. nia. }
    rewrite Hs'. fold B. rewrite thr_eq. fold S W T.
    destruct ds as [|d' ds'].
    + cbn [accum fold_left app] in *.
      destruct (N.leb_spec T (acc * B + d)) as [Hge|Hlt]; [reflexivity|].
      destruct Hfin as [->|[_ ?]]; [reflexivity|lia].
    + assert (Hlt : acc * B + d < T).
      { assert (Hne : d :: d' :: ds' <> []) by discriminate. specialize (Hpre Hne).
        assert (Hx : exists l x, d' :: ds' = l ++ [x]).
        { exists (removelast (d' :: ds')), (last (d' :: ds') 0).
          apply app_removelast_last. discriminate. }
        destruct Hx as (l & x & Hlx).
        rewrite accum_cons in Hpre.
        rewrite Hlx, accum_app in Hpre. fold B in Hpre.
        assert (Hx : x < B).
        { rewrite Hlx in Hall'. apply Forall_app in Hall'. destruct Hall' as [_ Hx].
          inversion Hx; assumption. }
        rewrite div_mul_add_small in Hpre by exact Hx.
        pose proof (accum_mono W (acc * B + d) l). fold B in H. lia. }
      destruct (N.leb_spec T (acc * B + d)) as [Hge|_]; [lia|].
      apply IH; auto.
      * intros _. apply Hpre. discriminate.
      * destruct Hfin as [->|[_ Hge]]; [left; reflexivity|right].
        split; [discriminate|exact Hge].
Qed.

(* ---- export then import ---- *)
Lemma ans_import_export a :
  ans_inv c a -> ans_from_compressed c (ans_words c a) = Some a.
Proof.
  intros (Hinv & Hst & Hb). fold S W in Hst, Hb. rewrite thr_eq in Hinv. fold S W T in Hinv.
  unfold ans_from_compressed, ans_words. rewrite rev_app_distr, rev_involutive.
  destruct (N.eq_dec (st a) 0) as [Hz|Hnz].
  - unfold state_chunks. rewrite Hz. fold W. rewrite chunks_zero. cbn [rev app].
    destruct Hinv as [Hbe|Hge].
    + rewrite Hbe. destruct a as [b0 s0]; cbn in *; subst; reflexivity.
    + pose proof B_le_T. pose proof B_pos. lia.
  - assert (Hpos : 0 < st a) by lia.
    destruct (chunks_spec (nchunks c) (st a) Hpos (nchunks_enough _ Hst))
      as (top & rest & Hrev & Ht0 & HtB & Hall & Hacc).
    unfold state_chunks. fold W. rewrite Hrev. cbn [app].
    destruct (N.eqb_spec top 0) as [?|_]; [lia|].
    rewrite (read_more_spec rest top (bulk a)); auto.
    + rewrite Hacc. destruct a; reflexivity.
    + pose proof B_le_T. lia.
    + intros _. rewrite Hacc. apply div_lt_upper; [apply B_pos|]. rewrite T_B. exact Hst.
    + destruct Hinv as [Hbe|Hge]; [left; exact Hbe|right]. rewrite Hacc. split; [|exact Hge].
      intros ->. cbn in Hacc. pose proof B_le_T. lia.
Qed.

(* the exported words never end in a zero word, and are all < B *)
Lemma ans_words_last_nz a :
  ans_inv c a -> ans_words c a = [] \/ last (ans_words c a) 0 <> 0.
Proof.
  intros (Hinv & Hst & Hb). fold S W in Hst. rewrite thr_eq in Hinv. fold S W T in Hinv.
  unfold ans_words.
  destruct (N.eq_dec (st a) 0) as [Hz|Hnz].
  - destruct Hinv as [Hbe|Hge]; [|pose proof B_le_T; pose proof B_pos; lia].
    left. rewrite Hbe. unfold state_chunks. rewrite Hz. fold W. rewrite chunks_zero. reflexivity.
  - right.
    assert (Hpos : 0 < st a) by lia.
    destruct (chunks_spec (nchunks c) (st a) Hpos (nchunks_enough _ Hst))
      as (top & rest & Hrev & Ht0 & _).
    unfold state_chunks. fold W.
    assert (Hch : chunks W (nchunks c) (st a) = rev rest ++ [top]).
    { rewrite <- (rev_involutive (chunks W (nchunks c) (st a))), Hrev. reflexivity. }
    rewrite Hch, app_assoc, last_last. lia.
Qed.

(* importing arbitrary words gives a coder that satisfies the invariant *)
Lemma read_more_inv stack : forall acc,
  Forall (fun w => w < B) stack -> acc < T ->
  let '(b, s) := read_more c stack acc in
  (b = [] \/ T <= s) /\ s < 2 ^ S /\ Forall (fun w => w < B) b.
Proof.
  induction stack as [|w r IH]; intros acc Hall Hacc.
  - cbn. repeat split; auto. rewrite <- T_B. pose proof B_pos. nia.
  - inversion Hall as [|? ? Hw Hall']; subst. cbn [read_more].
    assert (Hs' : N.lor (shl (SB c) acc (WB c)) w = acc * B + w).
    { unfold shl. rewrite shiftl_mul. fold W B S. rewrite trunc_small.
      - apply lor_disjoint. exact Hw.
      - rewrite <- T_B. pose proof B_pos. nia. }
    rewrite Hs', thr_eq. fold S W T.
    destruct (N.leb_spec T (acc * B + w)) as [Hge|Hlt].
    + repeat split; auto. rewrite <- T_B. nia.
    + apply IH; assumption.
Qed.

Lemma ans_from_compressed_inv ws a :
  Forall (fun w => w < B) ws -> ans_from_compressed c ws = Some a -> ans_inv c a.
Proof.
  intros Hall H. unfold ans_from_compressed in H.
  assert (Hall' : Forall (fun w => w < B) (rev ws)) by (apply Forall_rev; exact Hall).
  destruct (rev ws) as [|w r].
  - inversion H; subst. unfold ans_inv, ans_empty; cbn. repeat split; auto. apply pow2_pos.
  - destruct (N.eqb_spec w 0); [discriminate|].
    inversion Hall' as [|? ? Hw Hr]; subst.
    assert (HwT : w < T) by (pose proof B_le_T; lia).
    pose proof (read_more_inv r w Hr HwT) as Hi.
    destruct (read_more c r w) as [b s]. inversion H; subst.
    unfold ans_inv. cbn [bulk st]. rewrite thr_eq. exact Hi.
Qed.

Lemma ans_empty_inv : ans_inv c ans_empty.
Proof. unfold ans_inv, ans_empty; cbn. repeat split; auto. apply pow2_pos. Qed.

End Words.
