(* Model/Chain.v -- machine-level model of
     ChainCoder<Word, State, Vec<Word>, Vec<Word>, PRECISION>   (src/stream/chain.rs).
   Definitions only.

   comp / rems : the two Vec backends as stacks, the head of the list is the TOP
                 of the stack (= the END of the Vec); [rev] gives Vec order.
   hc / hr     : heads.compressed (a Word, NonZero) / heads.remainders (a State).

   PRECISION is a const generic of the Rust type; here it is an explicit argument
   [P] (for decode/encode it is [em_prec m], as the trait bound
   M: EntropyModel<PRECISION> forces).  The static assertions of chain.rs are
     PRECISION > 0, PRECISION <= Word::BITS, State::BITS >= Word::BITS + PRECISION;
   the trait contracts add  PRECISION <= Probability::BITS  (model.rs:241) and
   Probability: Into<Word> (Probability::BITS <= Word::BITS).  See [wf_ccfg].

   Every Rust operator is written with the wrap the type imposes in a release build:
     x << k  on a b-bit type ==> shl b x k        x.as_() to b bits ==> trunc b x
     a * b, a + b on State   ==> trunc SB (..)    a - b on Probability ==> wsub PB a b
   Debug builds panic instead of wrapping; Proofs/Chain_step.v shows that under the
   documented head invariant none of these wraps is ever taken (chain_*_no_overflow),
   so both builds agree. *)
From CV Require Export Base.Bits Model.EModel.
Open Scope N_scope.

Record ccfg := { cWB : N; cSB : N; cPB : N }.

(* exactly the compile-time constraints under which a ChainCoder with this
   PRECISION and an entropy model with this Probability type can be used *)
Definition wf_ccfg (c : ccfg) (P : N) : Prop :=
  0 < P /\ P <= cPB c /\ cPB c <= cWB c /\ cWB c + P <= cSB c.

Record chain := { comp : list N; rems : list N; hc : N; hr : N }.

Inductive cerr := OutOfCompressedData | OutOfRemainders | ImpossibleSymbol.

Inductive res (A : Type) : Type := Ok (a : A) | Err (e : cerr).
Arguments Ok {A} a.
Arguments Err {A} e.

(* wrapping subtraction on a b-bit unsigned type *)
Definition wsub (b x y : N) : N := (x + 2 ^ b - y mod 2 ^ b) mod 2 ^ b.

(* ------------------------------------------------------------------ decode *)

(* chain.rs:1060-1101.  The compressed side of decode_symbol: obtain PRECISION
   bits from the bit buffer [h] (refilled from the compressed backend [cm]).
   Mentions neither the model nor the remainders.  Result: (quantile as a Word,
   backend, head) or None = Err(OutOfCompressedData), nothing mutated. *)
Definition chain_take (c : ccfg) (P : N) (cm : list N) (h : N) : option (N * list N * N) :=
  if (P =? cWB c) || (h <? shl (cWB c) 1 P) then
    match cm with
    | [] => None
    | w :: cm' =>
        if P =? cWB c then Some (w, cm', h)
        else Some (w mod (shl (cWB c) 1 P), cm',
                   N.lor (shl (cWB c) h (cWB c - P)) (shr w P))
    end
  else Some (h mod (shl (cWB c) 1 P), cm, shr h P).

(* chain.rs:1105-1119: the remainders side, given the model's answer (cum, p)
   for quantile q (a Probability) *)
Definition chain_absorb (c : ccfg) (P cum p q : N) (r : list N) (rh : N) : list N * N :=
  let remainder := wsub (cPB c) q cum in
  let rh1 := trunc (cSB c) (trunc (cSB c) (rh * p) + remainder) in
  if shl (cSB c) 1 (cSB c - P) <=? rh1
  then (trunc (cWB c) rh1 :: r, shr rh1 (cWB c))      (* flush_remainders_head *)
  else (r, rh1).

(* the quantile (as a Probability) that decode_symbol hands to the model *)
Definition chain_quantile (c : ccfg) (P : N) (ch : chain) : option N :=
  match chain_take c P (comp ch) (hc ch) with
  | Some (qw, _, _) => Some (trunc (cPB c) qw)
  | None => None
  end.

(* decode_symbol, chain.rs:1044-1122 *)
Definition chain_decode (c : ccfg) (m : emodel) (ch : chain) : res (Z * chain) :=
  let P := em_prec m in
  match chain_take c P (comp ch) (hc ch) with
  | None => Err OutOfCompressedData
  | Some (qw, cm', h') =>
      let q := trunc (cPB c) qw in
      let '(s, cum, p) := em_dec m q in
      let '(r', rh') := chain_absorb c P cum p q (rems ch) (hr ch) in
      Ok (s, {| comp := cm'; rems := r'; hc := h'; hr := rh' |})
  end.

(* ------------------------------------------------------------------ encode *)

(* chain.rs:1161-1174: the remainders side of encode_symbol.
   Result: (remainder as a Probability, backend, head) or None = OutOfRemainders *)
Definition chain_release (c : ccfg) (P p : N) (r : list N) (rh : N) : option (N * list N * N) :=
  let refilled :=
    if rh <? shl (cSB c) p (cSB c - cWB c - P) then
      match r with
      | [] => None
      | w :: r' => Some (r', N.lor (shl (cSB c) rh (cWB c)) w)   (* refill_remainders_head *)
      end
    else Some (r, rh) in
  match refilled with
  | None => None
  | Some (r', rh1) => Some (trunc (cPB c) (trunc (cWB c) (rh1 mod p)), r', rh1 / p)
  end.

(* chain.rs:1176-1206: the compressed side of encode_symbol; [q] is a Word *)
Definition chain_put (c : ccfg) (P q : N) (cm : list N) (h : N) : list N * N :=
  if negb (P =? cWB c) && (h <? shl (cWB c) 1 (cWB c - P))
  then (cm, N.lor (shl (cWB c) h P) q)
  else if P =? cWB c then (q :: cm, h)
       else (N.lor (shl (cWB c) h P) q :: cm, shr h (cWB c - P)).

(* encode_symbol, chain.rs:1140-1209 *)
Definition chain_encode (c : ccfg) (m : emodel) (s : Z) (ch : chain) : res chain :=
  let P := em_prec m in
  match em_enc m s with
  | None => Err ImpossibleSymbol
  | Some (cum, p) =>
      match chain_release c P p (rems ch) (hr ch) with
      | None => Err OutOfRemainders
      | Some (remainder, r', rh') =>
          let quantile := trunc (cPB c) (cum + remainder) in
          let '(cm', h') := chain_put c P quantile (comp ch) (hc ch) in
          Ok {| comp := cm'; rems := r'; hc := h'; hr := rh' |}
      end
  end.

(* ------------------------------------------------------------------ heads *)

(* ChainCoderHeads::new, chain.rs:270-302.  [src] is the source as a stack.  Returns
   the source as it is left behind (also on failure: the caller hands the mutated
   backend back inside the error) and the remainders head, None = Err(Frontend(())) *)
Fixpoint heads_fill (c : ccfg) (P : N) (src : list N) (rh : N) {struct src} : list N * option N :=
  if rh <? shl (cSB c) 1 (cSB c - cWB c - P) then
    match src with
    | [] => ([], None)
    | w :: r => heads_fill c P r (N.lor (shl (cSB c) rh (cWB c)) w)
    end
  else (src, Some rh).

Definition heads_new (c : ccfg) (P : N) (src : list N) (push_one : bool) : list N * option N :=
  if push_one then heads_fill c P src 1
  else match src with
       | [] => ([], None)
       | w :: r => if w =? 0 then (r, None) else heads_fill c P r w
       end.

(* constructors: argument and error payload are in Vec order *)
Definition chain_from_binary (c : ccfg) (P : N) (data : list N) : chain + list N :=
  match heads_new c P (rev data) true with
  | (src, Some rh) => inl {| comp := src; rems := []; hc := 1; hr := rh |}
  | (src, None) => inr (rev src)
  end.

Definition chain_from_compressed (c : ccfg) (P : N) (data : list N) : chain + list N :=
  match heads_new c P (rev data) false with
  | (src, Some rh) => inl {| comp := src; rems := []; hc := 1; hr := rh |}
  | (src, None) => inr (rev src)
  end.

(* chain.rs:430-455 *)
Definition chain_from_remainders (c : ccfg) (P : N) (data : list N) : chain + list N :=
  match rev data with
  | [] => inr []
  | w :: r =>
      if w =? 0 then inr (rev r)
      else match heads_new c P r false with
           | (src, Some rh) => inl {| comp := []; rems := src; hc := w; hr := rh |}
           | (src, None) => inr (rev src)
           end
  end.

(* [while s != 0 { write(s as Word); s >>= Word::BITS }] : the words written, first
   written first.  Fuel = bit length of s (enough whenever Word::BITS > 0). *)
Fixpoint words_until (wb lim : N) (fuel : nat) (s : N) : list N :=
  match fuel with
  | O => []
  | S f => if s <=? lim then [] else trunc wb s :: words_until wb lim f (shr s wb)
  end.

Definition head_words (c : ccfg) (lim s : N) : list N :=
  words_until (cWB c) lim (N.to_nat (N.size s)) s.

(* into_remainders, chain.rs:406-422: (compressed, remainders) in Vec order *)
Definition chain_into_remainders (c : ccfg) (ch : chain) : list N * list N :=
  (rev (comp ch), rev (rems ch) ++ head_words c 0 (hr ch) ++ [hc ch]).

(* into_compressed, chain.rs:475-495: None = Err(Frontend(self)), coder handed back *)
Definition chain_into_compressed (c : ccfg) (ch : chain) : option (list N * list N) :=
  if negb (hc ch =? 1) then None
  else Some (rev (rems ch), rev (comp ch) ++ head_words c 0 (hr ch)).

(* into_binary, chain.rs:516-540.  [State::BITS - leading_zeros - 1] underflows for
   hr = 0 (debug: panic; release: usize::MAX, whose remainder modulo a power-of-two
   word size is non-zero, hence Err): unreachable by the head invariant. *)
Definition chain_into_binary (c : ccfg) (ch : chain) : option (list N * list N) :=
  if negb (hc ch =? 1) || (hr ch =? 0) || negb ((N.size (hr ch) - 1) mod cWB c =? 0) then None
  else Some (rev (rems ch), rev (comp ch) ++ head_words c 1 (hr ch)).

Definition chain_is_whole (ch : chain) : bool := hc ch =? 1.
Definition chain_maybe_exhausted (ch : chain) : bool := match comp ch with [] => true | _ => false end.
Definition chain_maybe_full (ch : chain) : bool := match rems ch with [] => true | _ => false end.

(* ------------------------------------------------------------------ precision *)

(* increase_precision_unchecked, chain.rs:629-650 *)
Definition chain_increase (c : ccfg) (P' : N) (ch : chain) : chain :=
  if shl (cSB c) 1 (cSB c - P') <=? hr ch
  then {| comp := comp ch; rems := trunc (cWB c) (hr ch) :: rems ch; hc := hc ch;
          hr := shr (hr ch) (cWB c) |}
  else ch.

(* decrease_precision_unchecked, chain.rs:678-701; on Err the coder is consumed *)
Definition chain_decrease (c : ccfg) (P' : N) (ch : chain) : res chain :=
  if hr ch <? shl (cSB c) 1 (cSB c - P' - cWB c) then
    match rems ch with
    | [] => Err OutOfRemainders
    | w :: r => Ok {| comp := comp ch; rems := r; hc := hc ch;
                      hr := N.lor (shl (cSB c) (hr ch) (cWB c)) w |}
    end
  else Ok ch.

(* change_precision, chain.rs:751-780 *)
Definition chain_change (c : ccfg) (P P' : N) (ch : chain) : res chain :=
  if P <? P' then Ok (chain_increase c P' ch) else chain_decrease c P' ch.

(* ------------------------------------------------------------------ invariant *)

(* chain.rs:249-257 *)
Definition chain_inv (c : ccfg) (P : N) (ch : chain) : Prop :=
  1 <= hc ch /\ hc ch < 2 ^ cWB c
  /\ 2 ^ (cSB c - cWB c - P) <= hr ch /\ hr ch < 2 ^ (cSB c - P)
  /\ Forall (fun w => w < 2 ^ cWB c) (comp ch)
  /\ Forall (fun w => w < 2 ^ cWB c) (rems ch).

(* ------------------------------------------------------------------ histories *)

(* Decode::decode_symbols collected item by item: an item that fails leaves the
   coder untouched and the iteration goes on *)
Fixpoint chain_decode_all (c : ccfg) (ms : list emodel) (ch : chain) : list (res Z) * chain :=
  match ms with
  | [] => ([], ch)
  | m :: r =>
      match chain_decode c m ch with
      | Ok (s, ch') => let '(o, ch'') := chain_decode_all c r ch' in (Ok s :: o, ch'')
      | Err e => let '(o, ch'') := chain_decode_all c r ch in (Err e :: o, ch'')
      end
  end.

(* the quantiles consumed by the same iteration (None where it ran out of data) *)
Fixpoint chain_quantiles (c : ccfg) (ms : list emodel) (ch : chain) : list (option N) :=
  match ms with
  | [] => []
  | m :: r =>
      chain_quantile c (em_prec m) ch ::
      match chain_decode c m ch with
      | Ok (_, ch') => chain_quantiles c r ch'
      | Err _ => chain_quantiles c r ch
      end
  end.

(* Encode::encode_symbols: stops at the first error, keeps what was encoded *)
Fixpoint chain_encode_all (c : ccfg) (l : list (emodel * Z)) (ch : chain) : res chain :=
  match l with
  | [] => Ok ch
  | (m, s) :: r => match chain_encode c m s ch with
                   | Ok ch' => chain_encode_all c r ch'
                   | Err e => Err e
                   end
  end.

(* C14: the stream of PRECISION-bit chunks of a compressed backend + bit buffer:
   iterate [chain_take] -- no model, no remainders.  Every step removes exactly P
   bits from  WB*|cm| + log2 h, which bounds the fuel. *)
Fixpoint take_all (c : ccfg) (P : N) (fuel : nat) (cm : list N) (h : N) : list N :=
  match fuel with
  | O => []
  | S f => match chain_take c P cm h with
           | None => []
           | Some (q, cm', h') => trunc (cPB c) q :: take_all c P f cm' h'
           end
  end.

Definition take_fuel (c : ccfg) (cm : list N) (h : N) : nat :=
  S (N.to_nat (cWB c * N.of_nat (length cm) + N.log2 h)).

Definition chain_chunks (c : ccfg) (P : N) (ch : chain) : list N :=
  take_all c P (take_fuel c (comp ch) (hc ch)) (comp ch) (hc ch).

(* the chunks of raw binary data: those of the words that [from_binary] leaves on
   the compressed backend (the topmost words become the initial remainders head) *)
Definition chunks (c : ccfg) (P : N) (data : list N) : list N :=
  match chain_from_binary c P data with
  | inl ch => chain_chunks c P ch
  | inr _ => []
  end.

(* forward (decoding) schedules with precision changes, and their undo lists *)
Inductive cop := CDec (m : emodel) | CPrec (P' : N).
Inductive cundo := UEnc (m : emodel) (s : Z) | UPrec (Pold : N).

(* runs a schedule; a failing decode is skipped (coder untouched), a failing
   precision change consumes the coder and ends the run.
   Result: final precision, coder, undo list (most recent first). *)
Fixpoint chain_forward (c : ccfg) (P : N) (ch : chain) (ops : list cop) (acc : list cundo)
  : res (N * chain * list cundo) :=
  match ops with
  | [] => Ok (P, ch, acc)
  | CDec m :: r =>
      match chain_decode c m ch with
      | Ok (s, ch') => chain_forward c P ch' r (UEnc m s :: acc)
      | Err _ => chain_forward c P ch r acc
      end
  | CPrec P' :: r =>
      match chain_change c P P' ch with
      | Ok ch' => chain_forward c P' ch' r (UPrec P :: acc)
      | Err e => Err e
      end
  end.

Fixpoint chain_undo (c : ccfg) (P : N) (ch : chain) (u : list cundo) : res (N * chain) :=
  match u with
  | [] => Ok (P, ch)
  | UEnc m s :: r =>
      match chain_encode c m s ch with
      | Ok ch' => chain_undo c P ch' r
      | Err e => Err e
      end
  | UPrec Pold :: r =>
      match chain_change c P Pold ch with
      | Ok ch' => chain_undo c Pold ch' r
      | Err e => Err e
      end
  end.

(* a schedule is well-typed at precision P: the models have the coder's current
   PRECISION (forced by the Rust types) and are exactly invertible; every precision
   satisfies the static assertions *)
Fixpoint ops_ok (c : ccfg) (P : N) (ops : list cop) : Prop :=
  match ops with
  | [] => True
  | CDec m :: r => wf_model m /\ em_prec m = P /\ ops_ok c P r
  | CPrec P' :: r => wf_ccfg c P' /\ ops_ok c P' r
  end.

(* ------------------------------------------------------------------ C14 *)
(* what locality promises: output i is what model i assigns to chunk i, and
   OutOfCompressedData from the first position without a chunk on *)
Definition sym_at (m : emodel) (oq : option N) : res Z :=
  match oq with
  | Some q => Ok (fst (fst (em_dec m q)))
  | None => Err OutOfCompressedData
  end.

Fixpoint local_outputs (ms : list emodel) (chs : list N) : list (res Z) :=
  match ms with
  | [] => []
  | m :: r => sym_at m (hd_error chs) :: local_outputs r (tl chs)
  end.

Fixpoint pad_chunks (n : nat) (chs : list N) : list (option N) :=
  match n with
  | O => []
  | S n' => hd_error chs :: pad_chunks n' (tl chs)
  end.

Definition is_err {A} (r : option (res A)) : bool :=
  match r with Some (Err _) => true | _ => false end.

(* the list with entry j replaced (unchanged if j is out of range) *)
Fixpoint replace_nth {A} (j : nat) (x : A) (l : list A) : list A :=
  match l, j with
  | [], _ => []
  | _ :: r, O => x :: r
  | y :: r, S j' => y :: replace_nth j' x r
  end.
