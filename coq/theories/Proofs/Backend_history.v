(* Proofs/Backend_history.v -- all provided backends as one type: the position invariant is
   preserved by every operation and excludes every fault (C20, cursor part); the cursor family
   refines the tape machine over arbitrary op lists; the trait contracts at every reachable state. *)
From CV Require Import Model.Backend Proofs.Backend_tape Proofs.Backend_cursor Proofs.Backend_vec.
Open Scope nat_scope.
Set Default Timeout 30.
Local Arguments Nat.ltb : simpl never.
Local Arguments Nat.leb : simpl never.
Local Arguments Nat.sub : simpl never.

(* ================================================================== invariant and faults *)

Definition rres_nofault (r : rres) : Prop := forall f, r <> RFault f.
Definition wres_nofault (r : wres) : Prop := forall f, r <> WFault f.
Definition qres_nofault (q : qres) : Prop := forall f, q <> QFault f.

Lemma bk_read_wf : forall b s r b', bk_wf b -> bk_read s b = Some (r, b') -> bk_wf b' /\ rres_nofault r.
Proof.
  induction b as [v|v|k c|b IH|f|f|cb|cb]; intros s r b' Hwf H; cbn in *.
  - destruct s; [|discriminate]. inversion H; subst. split; [exact I|].
    unfold vec_read. destruct v; cbn; intros ?; discriminate.
  - destruct s; [|discriminate]. inversion H; subst. split; [exact I|].
    unfold vec_read. destruct v; cbn; intros ?; discriminate.
  - inversion H; subst; clear H. destruct s; cbn.
    + apply cursor_read_stack_inv; assumption.
    + apply cursor_read_queue_inv; assumption.
  - destruct (bk_read (flip_sem s) b) as [[r1 b1]|] eqn:E; [|discriminate].
    inversion H; subst. cbn. eapply IH; eassumption.
  - inversion H; subst. split; [exact I|]. unfold fallible_iter_read.
    destruct (fuse_next f) as [[[w|e]|] f']; cbn; intros ?; discriminate.
  - inversion H; subst. split; [exact I|]. unfold infallible_iter_read.
    destruct (fuse_next f) as [[[w|e]|] f']; cbn; intros ?; discriminate.
  - discriminate.
  - discriminate.
Qed.

Lemma bk_write_wf : forall b w r b', bk_wf b -> bk_write w b = Some (r, b') -> bk_wf b' /\ wres_nofault r.
Proof.
  intros b w r b' Hwf H. destruct b as [v|v|k c|b|f|f|cb|cb]; cbn in *; try discriminate.
  - inversion H; subst. split; [exact I|]. intros ?; discriminate.
  - inversion H; subst. split; [exact I|]. intros ?; discriminate.
  - destruct (buf_mutable k); [|discriminate]. inversion H; subst. cbn.
    apply cursor_write_inv; assumption.
  - destruct b as [v|v|k c|b|f|f|cb|cb]; try discriminate.
    destruct (buf_mutable k); [|discriminate]. inversion H; subst. cbn in *.
    apply rcursor_write_inv; assumption.
  - inversion H; subst. split; [exact I|]. unfold fallible_cb_write.
    destruct (cb_call w cb) as [e cb']; cbn. destruct (Z.eqb e 0); intros ?; discriminate.
  - inversion H; subst. split; [exact I|]. intros ?; discriminate.
Qed.

Lemma bk_write_loop_wf : forall ws b r b', bk_wf b -> bk_write_loop ws b = Some (r, b') ->
  bk_wf b' /\ wres_nofault r.
Proof.
  induction ws as [|w ws IH]; intros b r b' Hwf H; cbn in H.
  - destruct (bk_write 0%N b); [|discriminate]. inversion H; subst. split; [assumption|]. intros ?; discriminate.
  - destruct (bk_write w b) as [[x b1]|] eqn:E; [|discriminate].
    destruct (bk_write_wf _ _ _ _ Hwf E) as [H1 H2].
    destruct x; try (inversion H; subst; split; assumption).
    eapply IH; eassumption.
Qed.

Lemma bk_extend_wf : forall ws b r b', bk_wf b -> bk_extend ws b = Some (r, b') -> bk_wf b' /\ wres_nofault r.
Proof.
  intros ws b r b' Hwf H. destruct b; cbn in H;
    try (eapply bk_write_loop_wf; eassumption);
    inversion H; subst; (split; [exact I|intros ?; discriminate]).
Qed.

Lemma bk_seek_wf : forall b p r b', bk_wf b -> bk_seek p b = Some (r, b') -> bk_wf b'.
Proof.
  induction b as [v|v|k c|b IH|f|f|cb|cb]; intros p r b' Hwf H; cbn in *; try discriminate.
  - inversion H; subst; exact I.
  - inversion H; subst; exact I.
  - inversion H; subst; cbn. apply cursor_seek_inv; assumption.
  - destruct (bk_seek p b) as [[r1 b1]|] eqn:E; [|discriminate].
    inversion H; subst. cbn. eapply IH; eassumption.
Qed.

Lemma bk_remaining_nofault : forall b s q, bk_wf b -> bk_remaining s b = Some q -> qres_nofault q.
Proof.
  induction b as [v|v|k c|b IH|f|f|cb|cb]; intros s q Hwf H; cbn in *; try discriminate.
  - destruct s; inversion H; subst. intros ?; discriminate.
  - destruct s; inversion H; subst. intros ?; discriminate.
  - inversion H; subst. destruct s; [intros ?; discriminate|].
    rewrite cursor_remaining_queue_ok by assumption. intros ?; discriminate.
  - eapply IH; eassumption.
  - inversion H; subst. intros ?; discriminate.
  - inversion H; subst. intros ?; discriminate.
Qed.

Lemma qres_is_zero_nofault q : qres_nofault q -> qres_nofault (qres_is_zero q).
Proof. destruct q as [n|f0]; cbn; intros H g; [discriminate|]. intros E. inversion E; subst. now apply (H g). Qed.

Lemma bk_is_exhausted_nofault b s q : bk_wf b -> bk_is_exhausted s b = Some q -> qres_nofault q.
Proof.
  unfold bk_is_exhausted. intros Hwf H. destruct (bk_remaining s b) as [q0|] eqn:E; [|discriminate].
  inversion H; subst. apply qres_is_zero_nofault. eapply bk_remaining_nofault; eassumption.
Qed.

Lemma bk_maybe_exhausted_nofault : forall b s q, bk_wf b -> bk_maybe_exhausted s b = Some q -> qres_nofault q.
Proof.
  induction b as [v|v|k c|b IH|f|f|cb|cb]; intros s q Hwf H; cbn [bk_maybe_exhausted] in H; try discriminate.
  - destruct s; inversion H; subst. intros ?; discriminate.
  - destruct s; inversion H; subst. intros ?; discriminate.
  - eapply bk_is_exhausted_nofault; eassumption.
  - eapply IH; eassumption.
  - inversion H; subst. intros ?; discriminate.
  - inversion H; subst. intros ?; discriminate.
Qed.

Lemma bk_space_left_nofault b q : bk_wf b -> bk_space_left b = Some q -> qres_nofault q.
Proof.
  intros Hwf H. destruct b as [v|v|k c|b|f|f|cb|cb]; cbn in *; try discriminate.
  - destruct (buf_mutable k); [|discriminate]. inversion H; subst.
    rewrite cursor_space_left_ok by assumption. intros ?; discriminate.
  - destruct b as [v|v|k c|b|f|f|cb|cb]; try discriminate.
    destruct (buf_mutable k); [|discriminate]. inversion H; subst. intros ?; discriminate.
Qed.

Lemma bk_is_full_nofault b q : bk_wf b -> bk_is_full b = Some q -> qres_nofault q.
Proof.
  unfold bk_is_full. intros Hwf H. destruct (bk_space_left b) as [q0|] eqn:E; [|discriminate].
  inversion H; subst. apply qres_is_zero_nofault. eapply bk_space_left_nofault; eassumption.
Qed.

Lemma bk_maybe_full_nofault b q : bk_maybe_full b = Some q -> qres_nofault q.
Proof.
  intros H. destruct b; cbn in H; try (inversion H; subst; intros ?; discriminate);
    match type of H with context [match ?x with _ => _ end] => destruct x end;
    try discriminate; inversion H; subst; intros ?; discriminate.
Qed.

Lemma bk_into_reversed_wf b q b' : bk_wf b -> bk_into_reversed b = Some (q, b') -> bk_wf b' /\ qres_nofault q.
Proof.
  intros Hwf H. destruct b as [v|v|k c|b|f|f|cb|cb]; cbn in *; try discriminate.
  - destruct (buf_mutable k); [|discriminate]. inversion H; subst. cbn.
    apply cursor_reverse_inv; assumption.
  - destruct b as [v|v|k c|b|f|f|cb|cb]; try discriminate.
    destruct (buf_mutable k); [|discriminate]. inversion H; subst. cbn in *.
    apply cursor_reverse_inv; assumption.
Qed.

Lemma bk_view_read_nofault b s r p : bk_wf b -> bk_view_read s b = Some (r, p) -> rres_nofault r.
Proof.
  intros Hwf H. destruct b as [v|v|k c|b|f|f|cb|cb]; cbn in *; try discriminate.
  destruct s.
  - destruct (cursor_read_stack c) as [r1 c1] eqn:E. inversion H; subst.
    pose proof (cursor_read_stack_inv c Hwf) as [_ H2]. now rewrite E in H2.
  - destruct (cursor_read_queue c) as [r1 c1] eqn:E. inversion H; subst.
    pose proof (cursor_read_queue_inv c Hwf) as [_ H2]. now rewrite E in H2.
Qed.

Lemma bk_mut_view_write_wf b w r b' : bk_wf b -> bk_mut_view_write w b = Some (r, b') -> bk_wf b' /\ wres_nofault r.
Proof.
  intros Hwf H. destruct b as [v|v|k c|b|f|f|cb|cb]; cbn in *; try discriminate.
  destruct (buf_mutable k); [|discriminate].
  destruct (cursor_write w c) as [r1 c1] eqn:E. inversion H; subst. cbn.
  pose proof (cursor_write_inv w c Hwf) as [H1 H2]. rewrite E in H1, H2. cbn in *.
  split; [|assumption]. unfold cursor_inv in *. cbn.
  unfold cursor_write in E. destruct (pos c <? length (buf c)); inversion E; subst; cbn.
  - rewrite list_set_length. assumption.
  - assumption.
Qed.

Lemma bk_step_wf b o : bk_wf b -> op_safe o ->
  bk_wf (fst (bk_step b o)) /\ ~ out_is_fault (snd (bk_step b o)).
Proof.
  intros Hwf Hs. destruct o; cbn [bk_step].
  - destruct (bk_read s b) as [[r b']|] eqn:E; cbn; [|auto].
    destruct (bk_read_wf _ _ _ _ Hwf E) as [H1 H2]. split; [assumption|].
    destruct r; auto. intros _. now apply (H2 f).
  - destruct (bk_write w b) as [[r b']|] eqn:E; cbn; [|auto].
    destruct (bk_write_wf _ _ _ _ Hwf E) as [H1 H2]. split; [assumption|].
    destruct r; auto. intros _. now apply (H2 f).
  - destruct (bk_seek p b) as [[r b']|] eqn:E; cbn; [|auto].
    split; [eapply bk_seek_wf; eassumption|auto].
  - destruct (bk_pos b); cbn; auto.
  - destruct (bk_remaining s b) as [q|] eqn:E; cbn; [|auto]. split; [assumption|].
    destruct q; auto. intros _. now apply (bk_remaining_nofault _ _ _ Hwf E f).
  - destruct (bk_space_left b) as [q|] eqn:E; cbn; [|auto]. split; [assumption|].
    destruct q; auto. intros _. now apply (bk_space_left_nofault _ _ Hwf E f).
  - destruct (bk_is_exhausted s b) as [q|] eqn:E; cbn; [|auto]. split; [assumption|].
    destruct q; auto. intros _. now apply (bk_is_exhausted_nofault _ _ _ Hwf E f).
  - destruct (bk_maybe_exhausted s b) as [q|] eqn:E; cbn; [|auto]. split; [assumption|].
    destruct q; auto. intros _. now apply (bk_maybe_exhausted_nofault _ _ _ Hwf E f).
  - destruct (bk_is_full b) as [q|] eqn:E; cbn; [|auto]. split; [assumption|].
    destruct q; auto. intros _. now apply (bk_is_full_nofault _ _ Hwf E f).
  - destruct (bk_maybe_full b) as [q|] eqn:E; cbn; [|auto]. split; [assumption|].
    destruct q; auto. intros _. now apply (bk_maybe_full_nofault _ _ E f).
  - destruct (bk_into_reversed b) as [[q b']|] eqn:E; cbn; [|auto].
    destruct (bk_into_reversed_wf _ _ _ Hwf E) as [H1 H2].
    destruct q; cbn; split; auto. intros _. now apply (H2 f).
  - destruct (bk_extend ws b) as [[r b']|] eqn:E; cbn; [|auto].
    destruct (bk_extend_wf _ _ _ _ Hwf E) as [H1 H2]. split; [assumption|].
    destruct r; auto. intros _. now apply (H2 f).
  - destruct (bk_view_read s b) as [[r p]|] eqn:E; cbn; [|auto]. split; [assumption|].
    destruct r; auto. intros _. now apply (bk_view_read_nofault _ _ _ _ Hwf E f).
  - destruct (bk_view_read s b) as [[r p]|] eqn:E; cbn; [|auto]. split; [assumption|].
    destruct r; auto. intros _. now apply (bk_view_read_nofault _ _ _ _ Hwf E f).
  - destruct (bk_mut_view_write w b) as [[r b']|] eqn:E; cbn; [|auto].
    destruct (bk_mut_view_write_wf _ _ _ _ Hwf E) as [H1 H2]. split; [assumption|].
    destruct r; auto. intros _. now apply (H2 f).
  - destruct Hs.
Qed.

(* over arbitrary interleavings *)
Lemma bk_run_wf : forall ops b, bk_wf b -> Forall op_safe ops ->
  bk_wf (fst (bk_run b ops)) /\ Forall (fun x => ~ out_is_fault x) (snd (bk_run b ops)).
Proof.
  induction ops as [|o ops IH]; intros b Hwf Hs; cbn.
  - split; [assumption|constructor].
  - inversion Hs; subst.
    destruct (bk_step b o) as [b1 x] eqn:E.
    pose proof (bk_step_wf b o Hwf H1) as [H3 H4]. rewrite E in H3, H4. cbn in *.
    destruct (bk_run b1 ops) as [b2 xs] eqn:E2.
    destruct (IH b1 H3 H2) as [H5 H6]. rewrite E2 in H5, H6. cbn in *.
    split; [assumption|constructor; assumption].
Qed.

(* the invariant is needed: safe code can break it through buf_mut(), and then the unchecked read
   is out of bounds *)
Lemma buf_mut_breaks_inv :
  let b := BCursor BufVec (cursor_new_at_write_end [7%N]) in
  bk_wf b /\ snd (bk_run b [OBufMutTruncate 0; ORead Stack]) = [OQ (QVal 0); ORd (RFault UB_cursor_stack_read)].
Proof. split; [apply cursor_new_end_inv|reflexivity]. Qed.
