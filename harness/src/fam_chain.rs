//! Family `chain`: histories on `ChainCoder<Word, State, Vec<Word>, Vec<Word>, PRECISION>`
//! (C13, C14).  Input / output format: see /verif/lib/fam_chain.py (generator) and
//! coq/theories/Corr/Chain_run.v (model runner); the three must agree.
//!
//! PRECISION is a const generic, so a live coder is an enum over the precision menu of the
//! instance; `increase_precision` / `decrease_precision` carry compile-time order assertions and
//! are therefore instantiated for the ordered pairs of the menu only (`tri_convert!`).
//! The raw head values are read through the public `Code::state()` + `Debug`.
use crate::common::*;
use constriction::stream::chain::{
    BackendError, ChainCoder, ChangePrecisionError, DecoderFrontendError, EncoderFrontendError,
};
use constriction::stream::{Code, Decode, Encode};
use constriction::CoderError;
use core::convert::Infallible;

pub const E_IMPOSSIBLE: Int = -1;
pub const E_IMPORT: Int = -2;
pub const E_OOR: Int = -3;
pub const E_OOD: Int = -4;
pub const E_EXPORT: Int = -5;
pub const LOST: Int = -7;

fn parse_heads(s: &str) -> (u128, u128) {
    fn num_after(s: &str, key: &str) -> u128 {
        let i = s.find(key).expect("harness: unexpected Debug format of ChainCoderHeads") + key.len();
        let digits: String = s[i..].chars().take_while(|c| c.is_ascii_digit()).collect();
        digits.parse().expect("harness: unexpected Debug format of ChainCoderHeads")
    }
    (num_after(s, "compressed: "), num_after(s, "remainders: "))
}

fn enc_code(e: EncoderFrontendError) -> Int {
    match e {
        EncoderFrontendError::ImpossibleSymbol => E_IMPOSSIBLE,
        EncoderFrontendError::OutOfRemainders => E_OOR,
    }
}

fn never2(e: BackendError<Infallible, Infallible>) -> ! {
    match e {
        BackendError::Compressed(i) => match i {},
        BackendError::Remainders(i) => match i {},
    }
}

fn conv_inc<T>(r: Result<T, CoderError<Infallible, BackendError<Infallible, Infallible>>>) -> Result<T, Int> {
    match r {
        Ok(c) => Ok(c),
        Err(CoderError::Frontend(i)) => match i {},
        Err(CoderError::Backend(e)) => never2(e),
    }
}

fn conv_dec<T>(
    r: Result<T, CoderError<EncoderFrontendError, BackendError<Infallible, Infallible>>>,
) -> Result<T, Int> {
    match r {
        Ok(c) => Ok(c),
        Err(CoderError::Frontend(e)) => Err(enc_code(e)),
        Err(CoderError::Backend(e)) => never2(e),
    }
}

fn push_words<W: Copy + Into<u128>>(out: &mut Vec<Int>, ws: &[W]) {
    out.push(ws.len() as Int);
    out.extend(ws.iter().map(|&w| {
        let x: u128 = w.into();
        x as Int
    }));
}

/// ordered pairs of the precision menu: the head of the list is converted to itself and to
/// every later entry, then the macro recurses on the tail
macro_rules! tri_convert {
    ($co:ident, $q:expr, $method:ident, $conv:ident, $E:ident; []) => {};
    ($co:ident, $q:expr, $method:ident, $conv:ident, $E:ident;
     [($v1:ident, $p1:literal) $(, ($v:ident, $p:literal))*]) => {
        let $co = match $co {
            $E::$v1(c) => {
                return match $q {
                    $p1 => $conv(c.$method::<$p1>()).map($E::$v1),
                    $( $p => $conv(c.$method::<$p>()).map($E::$v), )*
                    _ => panic!("harness: precision pair not in menu"),
                };
            }
            other => other,
        };
        tri_convert!($co, $q, $method, $conv, $E; [$(($v, $p)),*]);
    };
}

macro_rules! chain_impl {
    ($name:ident, $W:ty, $S:ty, $Pr:ty, [$(($v:ident, $p:literal)),+], $asc:tt, $desc:tt) => {
        pub mod $name {
            use super::*;

            type CC<const P: usize> = ChainCoder<$W, $S, Vec<$W>, Vec<$W>, P>;

            pub enum Co {
                $($v(CC<$p>)),+
            }

            fn tm<'a, const P: usize>(m: &'a RawModel) -> TM<'a, $Pr, P> {
                if m.p != P {
                    panic!("harness: model precision {} differs from the coder's {}", m.p, P);
                }
                TM::<$Pr, P>::new(&m.t)
            }

            fn enc<const P: usize>(c: &mut CC<P>, m: &RawModel, s: i64) -> Int {
                match c.encode_symbol(s, tm::<P>(m)) {
                    Ok(()) => 0,
                    Err(CoderError::Frontend(e)) => enc_code(e),
                    Err(CoderError::Backend(e)) => never2(e),
                }
            }

            fn dec<const P: usize>(c: &mut CC<P>, m: &RawModel) -> Result<i64, Int> {
                match c.decode_symbol(tm::<P>(m)) {
                    Ok(s) => Ok(s),
                    Err(CoderError::Frontend(DecoderFrontendError::OutOfCompressedData)) => Err(E_OOD),
                    Err(CoderError::Backend(e)) => never2(e),
                }
            }

            fn dec_seq<const P: usize>(c: &mut CC<P>, ms: &[RawModel], seq: &[usize], out: &mut Vec<Int>) {
                let models: Vec<TM<$Pr, P>> = seq.iter().map(|&i| tm::<P>(&ms[i])).collect();
                for r in c.decode_symbols(models) {
                    match r {
                        Ok(s) => {
                            out.push(0);
                            out.push(s as Int);
                        }
                        Err(CoderError::Frontend(DecoderFrontendError::OutOfCompressedData)) => out.push(E_OOD),
                        Err(CoderError::Backend(e)) => never2(e),
                    }
                }
            }

            fn enc_seq_rev<const P: usize>(c: &mut CC<P>, ms: &[RawModel], pairs: &[(usize, i64)]) -> Int {
                let items: Vec<(i64, TM<$Pr, P>)> = pairs.iter().map(|&(i, s)| (s, tm::<P>(&ms[i]))).collect();
                match c.encode_symbols_reverse(items) {
                    Ok(()) => 0,
                    Err(CoderError::Frontend(e)) => enc_code(e),
                    Err(CoderError::Backend(e)) => never2(e),
                }
            }

            fn dump<const P: usize>(c: &CC<P>, out: &mut Vec<Int>) {
                let (hc, hr) = parse_heads(&format!("{:?}", c.state()));
                out.push(hc as Int);
                out.push(hr as Int);
                let (comp, mut rems) = match c.clone().into_remainders() {
                    Ok(x) => x,
                    Err(i) => match i {},
                };
                // strip the flushed heads again: the words of hr and the compressed head
                let mut n = 1;
                let mut x = hr;
                while x != 0 {
                    n += 1;
                    x >>= <$W>::BITS;
                }
                let keep = rems.len() - n;
                rems.truncate(keep);
                push_words(out, &comp);
                push_words(out, &rems);
            }

            fn export<const P: usize>(c: &CC<P>, binary: bool, out: &mut Vec<Int>) {
                let r = if binary { c.clone().into_binary() } else { c.clone().into_compressed() };
                match r {
                    Ok((pre, suf)) => {
                        out.push(0);
                        push_words(out, &pre);
                        push_words(out, &suf);
                    }
                    Err(CoderError::Frontend(_same_coder)) => out.push(E_EXPORT),
                    Err(CoderError::Backend(i)) => match i {},
                }
            }

            fn flags<const P: usize>(c: &CC<P>, out: &mut Vec<Int>) {
                out.push(c.is_whole() as Int);
                out.push(Decode::<P>::maybe_exhausted(c) as Int);
                out.push(Encode::<P>::maybe_full(c) as Int);
            }

            fn init<const P: usize>(kind: Int, ws: Vec<$W>, out: &mut Vec<Int>) -> Option<CC<P>> {
                let r = match kind {
                    0 => CC::<P>::from_binary(ws),
                    1 => CC::<P>::from_compressed(ws),
                    _ => CC::<P>::from_remainders(ws),
                };
                match r {
                    Ok(c) => {
                        out.push(0);
                        Some(c)
                    }
                    Err(CoderError::Frontend(rest)) => {
                        out.push(E_IMPORT);
                        push_words(out, &rest);
                        None
                    }
                    Err(CoderError::Backend(i)) => match i {},
                }
            }

            /// route 1: from_remainders(prefix ++ suffix); route 2: from_remainders(suffix)
            fn reimport<const P: usize>(c: CC<P>, route: Int, out: &mut Vec<Int>) -> Option<CC<P>> {
                let (pre, suf) = match c.into_remainders() {
                    Ok(x) => x,
                    Err(i) => match i {},
                };
                let (arg, kept) = if route == 1 {
                    let mut a = pre;
                    a.extend_from_slice(&suf);
                    (a, Vec::new())
                } else {
                    (suf, pre)
                };
                match CC::<P>::from_remainders(arg) {
                    Ok(c) => {
                        out.push(0);
                        push_words(out, &kept);
                        Some(c)
                    }
                    Err(CoderError::Frontend(rest)) => {
                        out.push(E_IMPORT);
                        push_words(out, &rest);
                        None
                    }
                    Err(CoderError::Backend(i)) => match i {},
                }
            }

            fn change<const A: usize>(c: CC<A>, q: usize) -> Result<Co, Int> {
                match q {
                    $( $p => match c.change_precision::<$p>() {
                        Ok(c2) => Ok(Co::$v(c2)),
                        Err(ChangePrecisionError::Increase(e)) => conv_inc::<()>(Err(e)).map(|_| unreachable!()),
                        Err(ChangePrecisionError::Decrease(e)) => conv_dec::<()>(Err(e)).map(|_| unreachable!()),
                    }, )+
                    _ => panic!("harness: precision {} not in menu", q),
                }
            }

            fn increase(co: Co, q: usize) -> Result<Co, Int> {
                tri_convert!(co, q, increase_precision, conv_inc, Co; $asc);
                let _ = co;
                unreachable!()
            }

            fn decrease(co: Co, q: usize) -> Result<Co, Int> {
                tri_convert!(co, q, decrease_precision, conv_dec, Co; $desc);
                let _ = co;
                unreachable!()
            }

            impl Co {
                fn new(p: usize, kind: Int, ws: Vec<$W>, out: &mut Vec<Int>) -> Option<Co> {
                    match p {
                        $( $p => init::<$p>(kind, ws, out).map(Co::$v), )+
                        _ => panic!("harness: precision {} not in menu", p),
                    }
                }
                fn p(&self) -> usize {
                    match self { $( Co::$v(_) => $p, )+ }
                }
                fn enc(&mut self, m: &RawModel, s: i64) -> Int {
                    match self { $( Co::$v(c) => enc::<$p>(c, m, s), )+ }
                }
                fn dec(&mut self, m: &RawModel) -> Result<i64, Int> {
                    match self { $( Co::$v(c) => dec::<$p>(c, m), )+ }
                }
                fn dec_seq(&mut self, ms: &[RawModel], seq: &[usize], out: &mut Vec<Int>) {
                    match self { $( Co::$v(c) => dec_seq::<$p>(c, ms, seq, out), )+ }
                }
                fn twin_dec_seq(&self, ms: &[RawModel], seq: &[usize], out: &mut Vec<Int>) {
                    match self { $( Co::$v(c) => { let mut c2 = c.clone(); dec_seq::<$p>(&mut c2, ms, seq, out) } )+ }
                }
                fn enc_seq_rev(&mut self, ms: &[RawModel], pairs: &[(usize, i64)]) -> Int {
                    match self { $( Co::$v(c) => enc_seq_rev::<$p>(c, ms, pairs), )+ }
                }
                fn dump(&self, out: &mut Vec<Int>) {
                    match self { $( Co::$v(c) => dump::<$p>(c, out), )+ }
                }
                fn export(&self, binary: bool, out: &mut Vec<Int>) {
                    match self { $( Co::$v(c) => export::<$p>(c, binary, out), )+ }
                }
                fn flags(&self, out: &mut Vec<Int>) {
                    match self { $( Co::$v(c) => flags::<$p>(c, out), )+ }
                }
                fn reimport(self, route: Int, out: &mut Vec<Int>) -> Option<Co> {
                    match self { $( Co::$v(c) => reimport::<$p>(c, route, out).map(Co::$v), )+ }
                }
                fn change(self, q: usize) -> Result<Co, Int> {
                    match self { $( Co::$v(c) => change::<$p>(c, q), )+ }
                }
            }

            fn words(r: &mut Reader) -> Vec<$W> {
                r.list().into_iter().map(|x| x as $W).collect()
            }

            /// op 16: forward schedule, re-import by the given route, undo in reverse order
            fn round_trip(co: Co, ms: &[RawModel], route: Int, items: &[Int], out: &mut Vec<Int>) -> Option<Co> {
                let mut co = co;
                let mut undo: Vec<(Int, i64)> = Vec::new();
                for &it in items {
                    if it < 0 {
                        let old = co.p();
                        match co.change((-it) as usize) {
                            Ok(c2) => {
                                co = c2;
                                out.push(0);
                                undo.push((-(old as Int), 0));
                            }
                            Err(e) => {
                                out.push(e);
                                return None;
                            }
                        }
                    } else {
                        match co.dec(&ms[it as usize]) {
                            Ok(s) => {
                                out.push(0);
                                out.push(s as Int);
                                undo.push((it, s));
                            }
                            Err(e) => out.push(e),
                        }
                    }
                }
                if route != 0 {
                    co = co.reimport(route, out)?;
                }
                for &(m, s) in undo.iter().rev() {
                    if m < 0 {
                        match co.change((-m) as usize) {
                            Ok(c2) => {
                                co = c2;
                                out.push(0);
                            }
                            Err(e) => {
                                out.push(e);
                                return None;
                            }
                        }
                    } else {
                        out.push(co.enc(&ms[m as usize], s));
                    }
                }
                Some(co)
            }

            pub fn run(r: &mut Reader, out: &mut Vec<Int>) {
                let models = read_models(r);
                let p0 = r.us();
                let kind = r.next();
                let ws = words(r);
                let mut st: Option<Co> = Co::new(p0, kind, ws, out);
                while !r.done() {
                    let mut co = match st.take() {
                        Some(co) => co,
                        None => break,
                    };
                    let op = r.next();
                    match op {
                        1 => {
                            let m = &models[r.us()];
                            let s = r.next() as i64;
                            out.push(co.enc(m, s));
                            st = Some(co);
                        }
                        2 => {
                            let m = &models[r.us()];
                            match co.dec(m) {
                                Ok(s) => {
                                    out.push(0);
                                    out.push(s as Int);
                                }
                                Err(e) => out.push(e),
                            }
                            st = Some(co);
                        }
                        3 | 4 | 5 => {
                            let q = r.us();
                            let res = match op {
                                3 => co.change(q),
                                4 => increase(co, q),
                                _ => decrease(co, q),
                            };
                            match res {
                                Ok(c2) => {
                                    out.push(0);
                                    st = Some(c2);
                                }
                                Err(e) => out.push(e),
                            }
                        }
                        6 => {
                            co.dump(out);
                            st = Some(co);
                        }
                        8 | 9 => {
                            co.export(op == 8, out);
                            st = Some(co);
                        }
                        10 => {
                            let route = r.next() + 1;
                            st = co.reimport(route, out);
                        }
                        11 => {
                            co.flags(out);
                            st = Some(co);
                        }
                        12 | 14 => {
                            let seq: Vec<usize> = r.list().into_iter().map(|x| x as usize).collect();
                            if op == 12 {
                                co.dec_seq(&models, &seq, out);
                            } else {
                                co.twin_dec_seq(&models, &seq, out);
                            }
                            st = Some(co);
                        }
                        13 => {
                            let k = r.us();
                            let pairs: Vec<(usize, i64)> = (0..k).map(|_| (r.us(), r.next() as i64)).collect();
                            out.push(co.enc_seq_rev(&models, &pairs));
                            st = Some(co);
                        }
                        15 => {
                            let kind = r.next();
                            let ws = words(r);
                            st = Co::new(co.p(), kind, ws, out);
                        }
                        16 => {
                            let route = r.next();
                            let items = r.list();
                            st = round_trip(co, &models, route, &items, out);
                        }
                        other => panic!("harness: unknown chain op {}", other),
                    }
                }
                match &st {
                    Some(co) => co.dump(out),
                    None => out.push(LOST),
                }
            }
        }
    };
}

chain_impl!(c_8_16_8, u8, u16, u8,
    [(P1, 1), (P2, 2), (P3, 3), (P4, 4), (P5, 5), (P6, 6), (P7, 7), (P8, 8)],
    [(P1, 1), (P2, 2), (P3, 3), (P4, 4), (P5, 5), (P6, 6), (P7, 7), (P8, 8)],
    [(P8, 8), (P7, 7), (P6, 6), (P5, 5), (P4, 4), (P3, 3), (P2, 2), (P1, 1)]);
chain_impl!(c_8_32_8, u8, u32, u8,
    [(P1, 1), (P2, 2), (P3, 3), (P4, 4), (P5, 5), (P6, 6), (P7, 7), (P8, 8)],
    [(P1, 1), (P2, 2), (P3, 3), (P4, 4), (P5, 5), (P6, 6), (P7, 7), (P8, 8)],
    [(P8, 8), (P7, 7), (P6, 6), (P5, 5), (P4, 4), (P3, 3), (P2, 2), (P1, 1)]);
chain_impl!(c_8_64_8, u8, u64, u8,
    [(P1, 1), (P2, 2), (P3, 3), (P4, 4), (P5, 5), (P6, 6), (P7, 7), (P8, 8)],
    [(P1, 1), (P2, 2), (P3, 3), (P4, 4), (P5, 5), (P6, 6), (P7, 7), (P8, 8)],
    [(P8, 8), (P7, 7), (P6, 6), (P5, 5), (P4, 4), (P3, 3), (P2, 2), (P1, 1)]);
chain_impl!(c_16_32_16, u16, u32, u16,
    [(P1, 1), (P2, 2), (P4, 4), (P7, 7), (P8, 8), (P9, 9), (P12, 12), (P15, 15), (P16, 16)],
    [(P1, 1), (P2, 2), (P4, 4), (P7, 7), (P8, 8), (P9, 9), (P12, 12), (P15, 15), (P16, 16)],
    [(P16, 16), (P15, 15), (P12, 12), (P9, 9), (P8, 8), (P7, 7), (P4, 4), (P2, 2), (P1, 1)]);
chain_impl!(c_16_32_8, u16, u32, u8,
    [(P1, 1), (P2, 2), (P3, 3), (P4, 4), (P5, 5), (P6, 6), (P7, 7), (P8, 8)],
    [(P1, 1), (P2, 2), (P3, 3), (P4, 4), (P5, 5), (P6, 6), (P7, 7), (P8, 8)],
    [(P8, 8), (P7, 7), (P6, 6), (P5, 5), (P4, 4), (P3, 3), (P2, 2), (P1, 1)]);
chain_impl!(c_16_64_16, u16, u64, u16,
    [(P1, 1), (P2, 2), (P4, 4), (P7, 7), (P8, 8), (P9, 9), (P12, 12), (P15, 15), (P16, 16)],
    [(P1, 1), (P2, 2), (P4, 4), (P7, 7), (P8, 8), (P9, 9), (P12, 12), (P15, 15), (P16, 16)],
    [(P16, 16), (P15, 15), (P12, 12), (P9, 9), (P8, 8), (P7, 7), (P4, 4), (P2, 2), (P1, 1)]);
chain_impl!(c_32_64_32, u32, u64, u32,
    [(P1, 1), (P2, 2), (P8, 8), (P12, 12), (P16, 16), (P24, 24), (P31, 31), (P32, 32)],
    [(P1, 1), (P2, 2), (P8, 8), (P12, 12), (P16, 16), (P24, 24), (P31, 31), (P32, 32)],
    [(P32, 32), (P31, 31), (P24, 24), (P16, 16), (P12, 12), (P8, 8), (P2, 2), (P1, 1)]);
chain_impl!(c_32_64_16, u32, u64, u16,
    [(P1, 1), (P2, 2), (P4, 4), (P7, 7), (P8, 8), (P9, 9), (P12, 12), (P15, 15), (P16, 16)],
    [(P1, 1), (P2, 2), (P4, 4), (P7, 7), (P8, 8), (P9, 9), (P12, 12), (P15, 15), (P16, 16)],
    [(P16, 16), (P15, 15), (P12, 12), (P9, 9), (P8, 8), (P7, 7), (P4, 4), (P2, 2), (P1, 1)]);
chain_impl!(c_64_128_32, u64, u128, u32,
    [(P1, 1), (P2, 2), (P8, 8), (P12, 12), (P16, 16), (P24, 24), (P31, 31), (P32, 32)],
    [(P1, 1), (P2, 2), (P8, 8), (P12, 12), (P16, 16), (P24, 24), (P31, 31), (P32, 32)],
    [(P32, 32), (P31, 31), (P24, 24), (P16, 16), (P12, 12), (P8, 8), (P2, 2), (P1, 1)]);

pub fn run(r: &mut Reader, out: &mut Vec<Int>) {
    let wb = r.next();
    let sb = r.next();
    let pb = r.next();
    match (wb, sb, pb) {
        (8, 16, 8) => c_8_16_8::run(r, out),
        (8, 32, 8) => c_8_32_8::run(r, out),
        (8, 64, 8) => c_8_64_8::run(r, out),
        (16, 32, 16) => c_16_32_16::run(r, out),
        (16, 32, 8) => c_16_32_8::run(r, out),
        (16, 64, 16) => c_16_64_16::run(r, out),
        (32, 64, 32) => c_32_64_32::run(r, out),
        (32, 64, 16) => c_32_64_16::run(r, out),
        (64, 128, 32) => c_64_128_32::run(r, out),
        _ => panic!("harness: chain instance ({},{},{}) not in menu", wb, sb, pb),
    }
}
