(* Proofs/Range_roundtrip.v -- putting the refinements together:
   compressed words = digits of the spec's seal point (C06), round trip (C02), the seal
   lemma and suffix independence with its exact characterisation (C11), exhaustion. *)
From CV Require Import Base.Bits Model.EModel Model.Range Model.RangeSpec.
From CV Require Import Proofs.Range_base Proofs.Range_spec Proofs.Range_enc Proofs.Range_dec.
From Coq Require Import ZifyBool ZifyN.
Open Scope N_scope.
Set Default Timeout 30.

Lemma skipn_length_app (a b : list N) : skipn (length a) (a ++ b) = b.
Proof. induction a as [|x r IH]; [reflexivity|]. cbn [length app skipn]. exact IH. Qed.

Lemma skipn_beyond (l : list N) n : (length l <= n)%nat -> skipn n l = [].
Proof.
  revert l. induction n as [|n IH]; intros l H.
  - destruct l; [reflexivity|cbn in H; lia].
  - destruct l as [|x r]; [reflexivity|]. cbn [skipn]. apply IH. cbn in H. lia.
Qed.

Section RT.
Variable c : rcfg.
Hypothesis Hc : wf_rcfg c.

Local Notation W := (rWB c).
Local Notation SB := (rSB c).
Local Notation B := (Bw c).
Local Notation T := (Tw c).
Local Notation M := (Mw c).

Lemma spec_run_not_initial tr : forall s, tr <> [] -> SInv c s -> Forall (step_ok c) tr ->
  sR (spec_run c tr s) <> M - 1.
Proof.
  induction tr as [|[[P cum] p] r IH]; intros s Hne Hs Htr; [contradiction|].
  inversion Htr as [|? ? H1 Hr]; subst. cbn [spec_run].
  destruct r as [|y r'].
  - cbn [spec_run]. apply spec_step_not_initial; assumption.
  - apply IH; [discriminate| |assumption]. apply spec_step_inv; assumption.
Qed.

(* ---------- C06: the compressed words are the digits the specification prescribes ---------- *)
Theorem compress_spec msg :
  msg_ok c msg -> N.of_nat (length msg) < 2 ^ USZ ->
  exists tr e,
    msg_triples msg = Some tr /\ Forall (step_ok c) tr /\ length tr = length msg /\
    renc_encode_all c msg (renc_new c) = ROk e /\
    Renc c e (spec_run c tr (spec_init c)) /\
    range_compress c msg = ROk (spec_words c tr).
Proof.
  intros Hmsg Hlen.
  destruct (msg_triples_ok c msg Hmsg) as (tr & Etr & Htr & Eln).
  pose proof (spec_init_inv c Hc) as Hs0.
  destruct (enc_triples_refines c Hc tr (renc_new c) (spec_init c)
              (renc_new_refines c) Hs0 Htr) as (e & Ee & HR).
  { cbn [spec_init sk Nat.add]. rewrite Eln. assumption. }
  exists tr, e. split; [assumption|]. split; [assumption|]. split; [assumption|].
  assert (Eall : renc_encode_all c msg (renc_new c) = ROk e).
  { rewrite (renc_encode_all_triples c msg tr _ Etr). exact Ee. }
  split; [assumption|]. split; [assumption|].
  unfold range_compress. rewrite Eall. unfold renc_into_compressed.
  destruct tr as [|x tr'].
  - cbn [enc_triples] in Ee. inversion Ee; subst e.
    unfold renc_seal, renc_new. cbn [e_range e_bulk]. rewrite N.eqb_refl. reflexivity.
  - set (sf := spec_run c (x :: tr') (spec_init c)) in *.
    assert (Hsf : SInv c sf) by (apply spec_run_inv; assumption).
    assert (Hni : sR sf <> M - 1) by (apply spec_run_not_initial; [discriminate|assumption|assumption]).
    destruct (seal_refines c Hc e sf HR Hsf Hni) as (b & Eb & Erev & _).
    rewrite Eb, Erev. reflexivity.
Qed.

(* ---------- the seal lemma ---------- *)
Definition seal_slack (s : sstate) (sfx : list N) : N :=
  if spec_seal_two c s then tval W sfx (wps c - 2) else tval W sfx (wps c - 1).

(* what the seal words together with the first words of the suffix pin down *)
Definition seal_pins (s : sstate) (sfx : list N) : Prop :=
  spec_seal_value c s * T + seal_slack s sfx < sL s + sR s.

Lemma seal_value_bounds s : SInv c s ->
  sL s <= spec_seal_value c s * T /\ spec_seal_value c s * T <= sL s + T - 1 /\
  spec_seal_value c s < Bp W (Datatypes.S (sk s)).
Proof.
  intros (HTR & HRM & HA2). unfold spec_seal_value. fold T.
  pose proof (T_pos c) as HT.
  pose proof (N.div_mod (sL s + T - 1) T ltac:(lia)) as E.
  pose proof (N.mod_lt (sL s + T - 1) T ltac:(lia)) as Hr.
  split; [nia|]. split; [nia|].
  apply div_lt_upper; [assumption|].
  rewrite Bp_S. fold B. rewrite (M_eq_TB c Hc) in HA2. pose proof (Bp_pos W (sk s)). nia.
Qed.

Lemma seal_digits_ok s : text_ok W (spec_seal_digits c s).
Proof.
  unfold spec_seal_digits, digits. apply text_ok_app.
  - unfold text_ok. apply Forall_rev. apply digits_rev_lt.
  - destruct (spec_seal_two c s); [|constructor]. repeat constructor. apply pow2_pos.
Qed.

Lemma seal_digits_length s :
  length (spec_seal_digits c s) = (Datatypes.S (sk s) + (if spec_seal_two c s then 1 else 0))%nat.
Proof.
  unfold spec_seal_digits, digits. rewrite app_length, rev_length, digits_rev_length.
  destruct (spec_seal_two c s); reflexivity.
Qed.

Lemma sealed_window s sfx : SInv c s ->
  spec_window c (spec_seal_digits c s ++ sfx) s = spec_seal_value c s * T + seal_slack s sfx.
Proof.
  intros Hs. destruct (seal_value_bounds s Hs) as (_ & _ & Hv).
  unfold spec_window, spec_seal_digits, seal_slack.
  set (v := spec_seal_value c s) in *. set (k := sk s) in *.
  set (dg := digits (2 ^ W) (Datatypes.S k) v).
  assert (Hdl : length dg = Datatypes.S k) by (unfold dg, digits; rewrite rev_length; apply digits_rev_length).
  pose proof (wps_ge2 c Hc) as Hm.
  replace (k + wps c)%nat with (Datatypes.S k + (wps c - 1))%nat by lia.
  rewrite tval_split. rewrite (Bp_wps_pred c Hc).
  rewrite <- app_assoc.
  rewrite tval_app_l by lia.
  assert (Edg : tval W dg (Datatypes.S k) = v).
  { unfold dg, digits. rewrite <- (digits_rev_length (2 ^ W) (Datatypes.S k) v) at 2.
    rewrite tval_rev_digits. apply val_rev_digits_rev. assumption. }
  rewrite Edg. f_equal.
  rewrite <- Hdl, skipn_length_app.
  destruct (spec_seal_two c s).
  - cbn [app]. replace (wps c - 1)%nat with (1 + (wps c - 2))%nat by lia.
    rewrite (tval_split W (0 :: sfx) 1 (wps c - 2)). cbn [skipn].
    rewrite tval_S. cbn [tval nth]. lia.
  - reflexivity.
Qed.

Lemma seal_slack_lt s sfx : text_ok W sfx -> seal_slack s sfx < T.
Proof.
  intros Ht. unfold seal_slack. rewrite <- (Bp_wps_pred c Hc).
  destruct (spec_seal_two c s).
  - eapply N.lt_le_trans; [apply tval_lt; assumption|].
    unfold Bp. apply pow2_le. apply N.mul_le_mono_l. lia.
  - apply tval_lt. assumption.
Qed.

(* one-word seal: pinned whatever follows *)
Lemma pins_one_word s sfx : SInv c s -> text_ok W sfx -> spec_seal_two c s = false -> seal_pins s sfx.
Proof.
  intros Hs Ht Htwo. pose proof Hs as (HTR & _).
  destruct (seal_value_bounds s Hs) as (Hv1 & Hv2 & _).
  pose proof (seal_slack_lt s sfx Ht) as Hsl.
  unfold seal_pins. unfold spec_seal_two in Htwo. fold T B in Htwo.
  set (v := spec_seal_value c s) in *.
  pose proof (T_pos c) as HT.
  assert (Hge : v <= (sL s + sR s) / T) by (apply div_ge_lower; [assumption|lia]).
  assert (Hne : (sL s + sR s) / T <> v).
  { intros E. rewrite E, N.eqb_refl in Htwo. discriminate. }
  pose proof (N.div_mod (sL s + sR s) T ltac:(lia)) as E.
  set (q := (sL s + sR s) / T) in *.
  assert (Hq : (v + 1) * T <= q * T) by (apply N.mul_le_mono_r; lia).
  clear - Hq E Hsl. nia.
Qed.

(* nothing follows: the decoder fills with zeros *)
Lemma pins_no_suffix s : SInv c s -> seal_pins s [].
Proof.
  intros Hs. pose proof Hs as (HTR & _).
  destruct (seal_value_bounds s Hs) as (_ & Hv2 & _).
  unfold seal_pins, seal_slack. rewrite !tval_nil.
  pose proof (T_pos c). destruct (spec_seal_two c s); lia.
Qed.

(* State = two Words: the second seal word completes the window *)
Lemma pins_two_word_state s sfx : SInv c s -> text_ok W sfx -> wps c = 2%nat -> seal_pins s sfx.
Proof.
  intros Hs Ht Hm. destruct (spec_seal_two c s) eqn:Htwo.
  - pose proof Hs as (HTR & _).
    destruct (seal_value_bounds s Hs) as (_ & Hv2 & _).
    unfold seal_pins, seal_slack. rewrite Htwo, Hm. cbn [Nat.sub tval].
    pose proof (T_pos c). lia.
  - apply pins_one_word; assumption.
Qed.

(* ---------- round trip ---------- *)
Theorem roundtrip_core msg tr sfx :
  msg_ok c msg -> msg_triples msg = Some tr -> text_ok W sfx ->
  (tr <> [] -> seal_pins (spec_run c tr (spec_init c)) sfx) ->
  let t := spec_words c tr ++ sfx in
  exists d', rdec_decode_all c (msg_models msg) (rdec_from_compressed c t) = ROk (msg_symbols msg, d') /\
             Rdec c t d' (spec_run c tr (spec_init c)).
Proof.
  intros Hmsg Etr Hsfx Hpin t.
  destruct (msg_triples_ok c msg Hmsg) as (tr2 & Etr2 & Htr & _).
  rewrite Etr in Etr2. inversion Etr2; subst tr2. clear Etr2.
  pose proof (spec_init_inv c Hc) as Hs0.
  set (sf := spec_run c tr (spec_init c)) in *.
  assert (Hsf : SInv c sf) by (apply spec_run_inv; assumption).
  assert (Ht : text_ok W t).
  { unfold t, spec_words. destruct tr; [exact Hsfx|]. apply text_ok_app; [apply seal_digits_ok|assumption]. }
  pose proof (rdec_from_compressed_refines c Hc t Ht) as HR0.
  assert (Hms : Forall (model_ok c) (msg_models msg)).
  { unfold msg_models. apply Forall_map. eapply Forall_impl; [|exact Hmsg]. intros [m x] [H _]. exact H. }
  pose proof (rdec_decode_all_refines c Hc t (msg_models msg) _ _ HR0 Hs0 Hms Ht) as Href.
  destruct tr as [|x tr'].
  - (* empty message *)
    destruct msg as [|[m y] r]; [|cbn in Etr; destruct (em_enc m y) as [[? ?]|]; [destruct (msg_triples r)|]; discriminate].
    cbn. eexists. split; [reflexivity|]. exact HR0.
  - specialize (Hpin ltac:(discriminate)).
    assert (EW : spec_window c t sf = spec_seal_value c sf * T + seal_slack sf sfx)
      by (apply sealed_window; assumption).
    destruct (seal_value_bounds sf Hsf) as (Hv1 & _ & _).
    unfold seal_pins in Hpin.
    rewrite (spec_roundtrip c Hc msg (x :: tr') (spec_init c) t Hmsg Etr Hs0 Ht) in Href.
    + destruct Href as (d' & E & HR & _). exists d'. split; assumption.
    + fold sf. rewrite EW. lia.
    + fold sf. rewrite EW. exact Hpin.
Qed.

(* ---------- converse: if the seal does not pin the window, decoding does NOT give the message ---------- *)
Lemma spec_decode_all_follows l : forall tr t s xs s',
  msg_ok c l -> msg_triples l = Some tr -> SInv c s -> text_ok W t -> sL s <= spec_window c t s ->
  spec_decode_all c (msg_models l) t s = Some (xs, s') -> xs = msg_symbols l ->
  s' = spec_run c tr s /\ SInv c s' /\ sL s' <= spec_window c t s' /\
  (l <> [] -> spec_window c t s' < sL s' + sR s').
Proof.
  induction l as [|[m x] r IH]; intros tr t s xs s' Hl Etr Hs Ht HL Ed Exs.
  - cbn in Etr, Ed. inversion Etr; inversion Ed; subst. cbn [spec_run].
    split; [reflexivity|]. split; [assumption|]. split; [assumption|].
    intros H; exfalso; apply H; reflexivity.
  - inversion Hl as [|? ? [Hm Hx] Hr]; subst. cbn [fst snd] in *.
    cbn [msg_triples] in Etr.
    destruct (em_enc m x) as [[cum p]|] eqn:Henc; [|congruence].
    destruct (msg_triples r) as [tr'|] eqn:Etr'; [|discriminate].
    inversion Etr; subst tr. clear Etr.
    cbn [msg_models msg_symbols map fst snd spec_decode_all] in Ed.
    destruct (spec_decode c m t s) as [[y s1]|] eqn:E1; [|discriminate].
    destruct (spec_decode_all c (map fst r) t s1) as [[ys s2]|] eqn:E2; [|discriminate].
    injection Ed as Hxs Hs2. subst s2.
    assert (Ey : y = x /\ ys = msg_symbols r).
    { split; assumption. }
    destruct Ey as [-> ->].
    destruct (spec_decode_inv c Hc m t s x s1 Hs Hm Ht HL E1) as (Hs1 & _ & HL1 & HU1).
    (* the decoder's step is the encoder's step: em_enc is a function *)
    assert (Es1 : s1 = spec_step c (em_prec m) cum p s).
    { unfold spec_decode in E1.
      destruct (2 ^ em_prec m <=? spec_quantile c (em_prec m) t s) eqn:Eq; [discriminate|].
      apply N.leb_gt in Eq. destruct Hm as [Hwm _].
      pose proof (wfm_dec m Hwm _ Eq) as Hd.
      destruct (em_dec m (spec_quantile c (em_prec m) t s)) as [[z cum'] p'].
      destruct Hd as [Henc' _]. inversion E1; subst z s1.
      rewrite Henc in Henc'. inversion Henc'; subst. reflexivity. }
    cbn [spec_run]. rewrite <- Es1.
    destruct r as [|mx r'].
    + cbn in Etr', E2. inversion Etr'; inversion E2; subst. cbn [spec_run].
      split; [reflexivity|]. split; [assumption|]. split; [assumption|]. intros _. assumption.
    + destruct (IH tr' t s1 (msg_symbols (mx :: r')) s' Hr eq_refl Hs1 Ht HL1 E2 eq_refl)
        as (E' & Hs' & HL' & HU').
      split; [assumption|]. split; [assumption|]. split; [assumption|].
      intros _. apply HU'. discriminate.
Qed.

Theorem not_pinned_fails msg tr sfx d' :
  msg_ok c msg -> msg_triples msg = Some tr -> tr <> [] -> text_ok W sfx ->
  rdec_decode_all c (msg_models msg) (rdec_from_compressed c (spec_words c tr ++ sfx)) = ROk (msg_symbols msg, d') ->
  seal_pins (spec_run c tr (spec_init c)) sfx.
Proof.
  intros Hmsg Etr Hne Hsfx Hdec.
  destruct (msg_triples_ok c msg Hmsg) as (tr2 & Etr2 & Htr & Eln).
  rewrite Etr in Etr2. inversion Etr2; subst tr2. clear Etr2.
  pose proof (spec_init_inv c Hc) as Hs0.
  set (t := spec_words c tr ++ sfx) in *.
  set (sf := spec_run c tr (spec_init c)) in *.
  assert (Hsf : SInv c sf) by (apply spec_run_inv; assumption).
  assert (Ht : text_ok W t).
  { unfold t, spec_words. destruct tr; [contradiction|]. apply text_ok_app; [apply seal_digits_ok|assumption]. }
  pose proof (rdec_from_compressed_refines c Hc t Ht) as HR0.
  assert (Hms : Forall (model_ok c) (msg_models msg)).
  { unfold msg_models. apply Forall_map. eapply Forall_impl; [|exact Hmsg]. intros [m x] [H _]. exact H. }
  pose proof (rdec_decode_all_refines c Hc t (msg_models msg) _ _ HR0 Hs0 Hms Ht) as Href.
  destruct (spec_decode_all c (msg_models msg) t (spec_init c)) as [[xs s']|] eqn:Es.
  2:{ rewrite Href in Hdec. discriminate. }
  destruct Href as (d2 & E2 & _ & _). rewrite E2 in Hdec. inversion Hdec; subst xs d2.
  assert (Hmne : msg <> []).
  { intros ->. cbn in Etr. inversion Etr. subst tr. contradiction. }
  destruct (spec_decode_all_follows msg tr t (spec_init c) _ s' Hmsg Etr Hs0 Ht
              ltac:(cbn [spec_init sL]; lia) Es eq_refl) as (Es' & _ & _ & HU).
  specialize (HU Hmne). rewrite Es' in HU. fold sf in HU.
  unfold seal_pins.
  assert (EW : spec_window c t sf = spec_seal_value c sf * T + seal_slack sf sfx).
  { unfold t, spec_words. destruct tr; [contradiction|]. apply sealed_window. assumption. }
  rewrite <- EW. exact HU.
Qed.

(* ---------- exhaustion ---------- *)
Lemma max_difference_eq : rdec_max_difference c = 2 * T - 1.
Proof.
  unfold rdec_max_difference. rewrite (rthr_eq c Hc).
  pose proof (T_pos c) as HT. pose proof (M_pos c) as HM. pose proof (M_eq_TB c Hc) as EM.
  pose proof (B_ge2 c Hc) as HB.
  unfold wsub, shl. rewrite shiftl_mul. change (2 ^ 1) with 2. unfold trunc. fold M.
  assert (H1 : 1 mod M = 1) by (apply N.mod_small; nia).
  rewrite H1.
  destruct (N.eq_dec (T * 2) M) as [E|Hne].
  - rewrite E, N.mod_same by lia. rewrite N.add_0_l. rewrite N.mod_small by lia. lia.
  - assert (T * 2 < M) by nia.
    rewrite (N.mod_small (T * 2)) by assumption.
    replace (T * 2 + (M - 1)) with ((T * 2 - 1) + 1 * M) by lia.
    rewrite N.mod_add by lia. rewrite N.mod_small by lia. lia.
Qed.

Lemma exhausted_at_end t d s :
  Rdec c t d s -> SInv c s -> (length t <= sk s + wps c)%nat ->
  (sR s = M - 1 \/ spec_window c t s - sL s < 2 * T - 1) ->
  rdec_maybe_exhausted c d = true.
Proof.
  intros (Hbuf & ER & ELo & EPt & HL & HU & Erest) (HTR & HRM & _) Hlen Hcase.
  unfold rdec_maybe_exhausted. rewrite Erest, (skipn_beyond t _ Hlen). cbn [andb].
  rewrite ER, smax_eq. fold M.
  destruct Hcase as [E|Hd].
  - rewrite E, N.eqb_refl. reflexivity.
  - rewrite EPt, ELo, wsub_mod by (fold M; lia). rewrite max_difference_eq.
    apply orb_true_iff. right. apply N.ltb_lt. assumption.
Qed.

End RT.

(* ---------- assembled statements (no section: c is quantified) ---------- *)

Theorem range_roundtrip_suffix c msg sfx :
  wf_rcfg c -> msg_ok c msg -> N.of_nat (length msg) < 2 ^ USZ -> text_ok (rWB c) sfx ->
  (forall tr, msg_triples msg = Some tr -> tr <> [] -> seal_pins c (spec_run c tr (spec_init c)) sfx) ->
  exists ws d',
    range_compress c msg = ROk ws /\
    rdec_decode_all c (msg_models msg) (rdec_from_compressed c (ws ++ sfx)) = ROk (msg_symbols msg, d').
Proof.
  intros Hc Hmsg Hlen Hsfx Hpin.
  destruct (compress_spec c Hc msg Hmsg Hlen) as (tr & e & Etr & _ & _ & _ & _ & Ecomp).
  destruct (roundtrip_core c Hc msg tr sfx Hmsg Etr Hsfx (Hpin tr Etr)) as (d' & Ed & _).
  exists (spec_words c tr), d'. split; assumption.
Qed.

Theorem range_roundtrip c msg :
  wf_rcfg c -> msg_ok c msg -> N.of_nat (length msg) < 2 ^ USZ ->
  exists ws d',
    range_compress c msg = ROk ws /\
    rdec_decode_all c (msg_models msg) (rdec_from_compressed c ws) = ROk (msg_symbols msg, d') /\
    rdec_maybe_exhausted c d' = true.
Proof.
  intros Hc Hmsg Hlen.
  destruct (compress_spec c Hc msg Hmsg Hlen) as (tr & e & Etr & Htr & _ & _ & _ & Ecomp).
  assert (Hpin : tr <> [] -> seal_pins c (spec_run c tr (spec_init c)) []).
  { intros _. apply pins_no_suffix; [assumption|]. apply spec_run_inv; [assumption|apply spec_init_inv; assumption|assumption]. }
  destruct (roundtrip_core c Hc msg tr [] Hmsg Etr ltac:(constructor) Hpin) as (d' & Ed & HR).
  rewrite app_nil_r in Ed, HR.
  exists (spec_words c tr), d'. split; [assumption|]. split; [assumption|].
  set (sf := spec_run c tr (spec_init c)) in *.
  assert (Hsf : SInv c sf) by (apply spec_run_inv; [assumption|apply spec_init_inv; assumption|assumption]).
  apply (exhausted_at_end c Hc (spec_words c tr) d' sf HR Hsf).
  - unfold spec_words. destruct tr as [|x tr']; [cbn; lia|].
    rewrite seal_digits_length. pose proof (wps_ge2 c Hc). fold sf.
    destruct (spec_seal_two c sf); lia.
  - destruct tr as [|x tr'].
    + left. reflexivity.
    + right. unfold spec_words.
      pose proof (sealed_window c Hc sf [] Hsf) as EW. rewrite app_nil_r in EW. fold sf. rewrite EW.
      destruct (seal_value_bounds c Hc sf Hsf) as (Hv1 & Hv2 & _).
      unfold seal_slack. rewrite !tval_nil. pose proof (T_pos c).
      destruct (spec_seal_two c sf); lia.
Qed.

Lemma wps_two c : wf_rcfg c -> rSB c = 2 * rWB c -> wps c = 2%nat.
Proof.
  intros Hc E. pose proof (wps_spec c Hc) as Hs. pose proof (W_pos c Hc).
  assert (N.of_nat (wps c) = 2) by nia. lia.
Qed.

(* ---------- C11: suffix independence and its exact failure class ---------- *)

(* the known class range_seal_wide_state as a predicate on (configuration, message, suffix):
   the seal words together with the first State/Word - 2 suffix words do NOT pin the decoder's
   window below the upper end of the final interval *)
Definition range_known_class (c : rcfg) (msg : list (emodel * Z)) (sfx : list N) : Prop :=
  exists tr, msg_triples msg = Some tr /\ tr <> [] /\
    sL (spec_run c tr (spec_init c)) + sR (spec_run c tr (spec_init c)) <=
    spec_seal_value c (spec_run c tr (spec_init c)) * Tw c + seal_slack c (spec_run c tr (spec_init c)) sfx.

Theorem range_outside_known_class c msg sfx :
  wf_rcfg c -> msg_ok c msg -> N.of_nat (length msg) < 2 ^ USZ -> text_ok (rWB c) sfx ->
  ~ range_known_class c msg sfx ->
  exists ws d',
    range_compress c msg = ROk ws /\
    rdec_decode_all c (msg_models msg) (rdec_from_compressed c (ws ++ sfx)) = ROk (msg_symbols msg, d').
Proof.
  intros Hc Hmsg Hlen Hsfx Hnk.
  apply range_roundtrip_suffix; try assumption.
  intros tr Etr Hne. unfold seal_pins.
  destruct (N.lt_ge_cases (spec_seal_value c (spec_run c tr (spec_init c)) * Tw c +
                           seal_slack c (spec_run c tr (spec_init c)) sfx)
                          (sL (spec_run c tr (spec_init c)) + sR (spec_run c tr (spec_init c)))) as [H|H];
    [exact H|].
  exfalso. apply Hnk. exists tr. auto.
Qed.

Theorem range_known_class_fails c msg sfx :
  wf_rcfg c -> msg_ok c msg -> N.of_nat (length msg) < 2 ^ USZ -> text_ok (rWB c) sfx ->
  range_known_class c msg sfx ->
  exists ws, range_compress c msg = ROk ws /\
    forall d', rdec_decode_all c (msg_models msg) (rdec_from_compressed c (ws ++ sfx)) <> ROk (msg_symbols msg, d').
Proof.
  intros Hc Hmsg Hlen Hsfx (tr & Etr & Hne & Hk).
  destruct (compress_spec c Hc msg Hmsg Hlen) as (tr2 & e & Etr2 & _ & _ & _ & _ & Ecomp).
  rewrite Etr in Etr2. inversion Etr2; subst tr2.
  exists (spec_words c tr). split; [assumption|].
  intros d' Hdec.
  pose proof (not_pinned_fails c Hc msg tr sfx d' Hmsg Etr Hne Hsfx Hdec) as Hpin.
  unfold seal_pins in Hpin. lia.
Qed.

(* members of the class need a State wider than two Words, a two-word seal, a non-empty suffix *)
Theorem range_known_class_is_wide c msg sfx :
  wf_rcfg c -> msg_ok c msg -> text_ok (rWB c) sfx -> range_known_class c msg sfx ->
  2 * rWB c < rSB c /\ sfx <> [] /\
  exists tr, msg_triples msg = Some tr /\ spec_seal_two c (spec_run c tr (spec_init c)) = true.
Proof.
  intros Hc Hmsg Hsfx (tr & Etr & Hne & Hk).
  destruct (msg_triples_ok c msg Hmsg) as (tr2 & Etr2 & Htr & _).
  rewrite Etr in Etr2. inversion Etr2; subst tr2.
  set (s := spec_run c tr (spec_init c)) in *.
  assert (Hs : SInv c s) by (apply spec_run_inv; [assumption|apply spec_init_inv; assumption|assumption]).
  split; [|split].
  - destruct (N.eq_dec (rSB c) (2 * rWB c)) as [E|Hn].
    + pose proof (pins_two_word_state c Hc s sfx Hs Hsfx (wps_two c Hc E)) as Hp.
      unfold seal_pins in Hp. lia.
    + destruct Hc as (_ & H2 & _). lia.
  - intros ->. pose proof (pins_no_suffix c Hc s Hs) as Hp. unfold seal_pins in Hp. lia.
  - exists tr. split; [assumption|].
    destruct (spec_seal_two c s) eqn:E; [exact E|].
    pose proof (pins_one_word c Hc s sfx Hs Hsfx E) as Hp. unfold seal_pins in Hp. lia.
Qed.

Theorem range_suffix_two_word_state c msg sfx :
  wf_rcfg c -> rSB c = 2 * rWB c -> msg_ok c msg -> N.of_nat (length msg) < 2 ^ USZ ->
  text_ok (rWB c) sfx ->
  exists ws d',
    range_compress c msg = ROk ws /\
    rdec_decode_all c (msg_models msg) (rdec_from_compressed c (ws ++ sfx)) = ROk (msg_symbols msg, d').
Proof.
  intros Hc E Hmsg Hlen Hsfx.
  apply range_outside_known_class; try assumption.
  intros Hk. destruct (range_known_class_is_wide c msg sfx Hc Hmsg Hsfx Hk) as (Hw & _). lia.
Qed.

(* ---------- small corollaries used by Props ---------- *)
Theorem compress_empty c : range_compress c [] = ROk [].
Proof.
  unfold range_compress, renc_encode_all, renc_into_compressed, renc_seal, renc_new.
  cbn [e_range e_bulk]. rewrite N.eqb_refl. reflexivity.
Qed.

Theorem exhausted_empty c : wf_rcfg c -> rdec_maybe_exhausted c (rdec_from_compressed c []) = true.
Proof.
  intros Hc. destruct (range_roundtrip c [] Hc ltac:(constructor) ltac:(cbn; lia)) as (ws & d' & E1 & E2 & E3).
  rewrite compress_empty in E1. inversion E1; subst ws. cbn in E2. inversion E2; subst d'. exact E3.
Qed.

Theorem compress_words c msg :
  wf_rcfg c -> msg_ok c msg -> N.of_nat (length msg) < 2 ^ USZ ->
  exists tr, msg_triples msg = Some tr /\ range_compress c msg = ROk (spec_words c tr).
Proof.
  intros Hc Hm Hl. destruct (compress_spec c Hc msg Hm Hl) as (tr & e & E & _ & _ & _ & _ & Ec).
  exists tr. auto.
Qed.

(* back to back: what follows a sealed message may be another sealed message; the second one is
   found by a decoder started right behind the first (State = 2 * Word) *)
Theorem back_to_back c msg1 msg2 :
  wf_rcfg c -> rSB c = 2 * rWB c -> msg_ok c msg1 -> msg_ok c msg2 ->
  N.of_nat (length msg1) < 2 ^ USZ -> N.of_nat (length msg2) < 2 ^ USZ ->
  exists ws1 ws2 d1 d2,
    range_compress c msg1 = ROk ws1 /\ range_compress c msg2 = ROk ws2 /\
    rdec_decode_all c (msg_models msg1) (rdec_from_compressed c (ws1 ++ ws2)) = ROk (msg_symbols msg1, d1) /\
    rdec_decode_all c (msg_models msg2) (rdec_from_compressed c (skipn (length ws1) (ws1 ++ ws2)))
      = ROk (msg_symbols msg2, d2).
Proof.
  intros Hc E H1 H2 L1 L2.
  destruct (range_roundtrip c msg2 Hc H2 L2) as (ws2 & d2 & E2 & D2 & _).
  destruct (compress_spec c Hc msg2 H2 L2) as (tr2 & e2 & Etr2 & Htr2 & _ & _ & _ & Ec2).
  assert (Hws2 : text_ok (rWB c) ws2).
  { rewrite Ec2 in E2. inversion E2; subst ws2. unfold spec_words.
    destruct tr2; [constructor|apply seal_digits_ok]. }
  destruct (range_suffix_two_word_state c msg1 ws2 Hc E H1 L1 Hws2) as (ws1 & d1 & E1 & D1).
  exists ws1, ws2, d1, d2. rewrite skipn_length_app. auto.
Qed.
