//! Family `floatq`: float-to-fixed-point quantisation of categorical models (C03, C05, C19, C20;
//! floating-point parts).  Format: see lib/fam_floatq.py; model runner: Corr/FloatQ_run.v.
//!
//! input : fk pb P  n w_0..w_{n-1}  has_norm norm  flags  ns s_0..  nq q_0..
//!         fk 0 = f32, 1 = f64; weights / normalisation are IEEE bit patterns;
//!         flags: 1 = also the non-contiguous and lookup `_fast` constructors,
//!                2 = also the `_perfect` constructor (validation only), 4 = full quantile sweep,
//!                8 = a trailing list `k p_0..p_{k-1}` of fixed-point probabilities follows and is
//!                    pushed through from_nonzero_fixed_point_probabilities(.., false), the validator
//!                    the `_perfect` constructors end in
//! output: see `run_inst!` below (sections E, V, L, Pf in this order).
use crate::common::*;
use constriction::stream::model::{
    ContiguousCategoricalEntropyModel, ContiguousLookupDecoderModel, DecoderModel, EncoderModel,
    IterableEntropyModel, LazyContiguousCategoricalEntropyModel,
    NonContiguousCategoricalDecoderModel, NonContiguousCategoricalEncoderModel,
    NonContiguousLookupDecoderModel,
};
use std::panic::{catch_unwind, AssertUnwindSafe};

pub const ERR: Int = -1;
pub const PANICKED: Int = -7;

pub struct Case {
    pub wbits: Vec<u64>,
    pub norm: Option<u64>,
    pub flags: u64,
    pub syms: Vec<u64>,
    pub quants: Vec<u64>,
    pub fixed: Vec<u64>,
}

pub fn relabel(i: usize) -> i64 {
    3 * (i as i64) + 10
}

trait FromBits: Copy {
    fn fb(b: u64) -> Self;
}
impl FromBits for f32 {
    fn fb(b: u64) -> Self {
        f32::from_bits(b as u32)
    }
}
impl FromBits for f64 {
    fn fb(b: u64) -> Self {
        f64::from_bits(b)
    }
}

/// status of a constructor call: 0 + model, -1 (Err), -7 (panic)
fn ctor<M>(out: &mut Vec<Int>, f: impl FnOnce() -> Result<M, ()>) -> Option<M> {
    match catch_unwind(AssertUnwindSafe(f)) {
        Err(_) => {
            out.push(PANICKED);
            None
        }
        Ok(Err(())) => {
            out.push(ERR);
            None
        }
        Ok(Ok(m)) => {
            out.push(0);
            Some(m)
        }
    }
}

/// appends what `f` produced, or the single code -7 if it panicked
fn guarded(out: &mut Vec<Int>, f: impl FnOnce(&mut Vec<Int>)) {
    let mut tmp = Vec::new();
    match catch_unwind(AssertUnwindSafe(|| f(&mut tmp))) {
        Ok(()) => out.extend(tmp),
        Err(_) => out.push(PANICKED),
    }
}

macro_rules! dump_table {
    ($out:expr, $m:expr) => {
        guarded($out, |o| {
            let t: Vec<_> = $m.symbol_table().collect();
            o.push(t.len() as Int);
            for (s, c, p) in t {
                o.push(s as Int);
                o.push(c as Int);
                o.push(p.get() as Int);
            }
        })
    };
}

macro_rules! dec_queries {
    ($out:expr, $m:expr, $case:expr, $Pr:ty) => {
        for &q in &$case.quants {
            guarded($out, |o| {
                let (s, c, p) = $m.quantile_function(q as $Pr);
                o.push(s as Int);
                o.push(c as Int);
                o.push(p.get() as Int);
            });
        }
    };
}

macro_rules! lookup_part {
    (true, $F:ty, $Pr:ty, $P:literal, $case:expr, $ws:expr, $norm:expr, $symbols:expr, $out:expr) => {{
        // V3: ContiguousLookupDecoderModel
        if let Some(m) = ctor($out, || {
            ContiguousLookupDecoderModel::<$Pr, Vec<$Pr>, Box<[$Pr]>, $P>::from_floating_point_probabilities_fast(
                &$ws, $norm,
            )
        }) {
            dump_table!($out, m);
            dec_queries!($out, m, $case, $Pr);
        }
        // V4: NonContiguousLookupDecoderModel
        if let Some(m) = ctor($out, || {
            NonContiguousLookupDecoderModel::<i64, $Pr, Vec<($Pr, i64)>, Box<[$Pr]>, $P>::from_symbols_and_floating_point_probabilities_fast(
                $symbols.iter().cloned(), &$ws, $norm,
            )
        }) {
            dump_table!($out, m);
            dec_queries!($out, m, $case, $Pr);
        }
    }};
    (false, $F:ty, $Pr:ty, $P:literal, $case:expr, $ws:expr, $norm:expr, $symbols:expr, $out:expr) => {{}};
}

macro_rules! run_inst {
    ($F:ty, $Pr:ty, $P:literal, $lookup:tt, $case:expr, $out:expr) => {{
        let case: &Case = $case;
        let out: &mut Vec<Int> = $out;
        let ws: Vec<$F> = case.wbits.iter().map(|&b| <$F as FromBits>::fb(b)).collect();
        let norm: Option<$F> = case.norm.map(|b| <$F as FromBits>::fb(b));
        let n = ws.len();
        // ---- E: eager contiguous model
        if let Some(m) = ctor(out, || {
            ContiguousCategoricalEntropyModel::<$Pr, Vec<$Pr>, $P>::from_floating_point_probabilities_fast(&ws, norm)
        }) {
            dump_table!(out, m);
            for &s in &case.syms {
                guarded(out, |o| match m.left_cumulative_and_probability(s as usize) {
                    Some((c, p)) => {
                        o.push(1);
                        o.push(c as Int);
                        o.push(p.get() as Int);
                    }
                    None => o.push(0),
                });
            }
            dec_queries!(out, m, case, $Pr);
        }
        // ---- V: the other `_fast` constructors that feed fast_quantized_cdf into a table
        if case.flags & 1 != 0 {
            // flags 16 / 32: one symbol too many / too few (C19: count mismatches must be rejected)
            let nsym = if case.flags & 16 != 0 { n + 1 } else if case.flags & 32 != 0 { n.saturating_sub(1) } else { n };
            let symbols: Vec<i64> = (0..nsym).map(relabel).collect();
            if let Some(m) = ctor(out, || {
                NonContiguousCategoricalDecoderModel::<i64, $Pr, Vec<($Pr, i64)>, $P>::from_symbols_and_floating_point_probabilities_fast(
                    symbols.iter().cloned(), &ws, norm,
                )
            }) {
                dump_table!(out, m);
                dec_queries!(out, m, case, $Pr);
            }
            if let Some(m) = ctor(out, || {
                NonContiguousCategoricalEncoderModel::<i64, $Pr, $P>::from_symbols_and_floating_point_probabilities_fast(
                    symbols.iter().cloned(), &ws, norm,
                )
            }) {
                for i in 0..=n {
                    guarded(out, |o| match m.left_cumulative_and_probability(relabel(i)) {
                        Some((c, p)) => {
                            o.push(1);
                            o.push(c as Int);
                            o.push(p.get() as Int);
                        }
                        None => o.push(0),
                    });
                }
            }
            lookup_part!($lookup, $F, $Pr, $P, case, ws, norm, symbols, out);
        }
        // ---- L: lazy model
        if let Some(m) = ctor(out, || {
            LazyContiguousCategoricalEntropyModel::<$Pr, $F, Vec<$F>, $P>::from_floating_point_probabilities_fast(
                ws.clone(), norm,
            )
        }) {
            for &s in &case.syms {
                guarded(out, |o| match m.left_cumulative_and_probability(s as usize) {
                    Some((c, p)) => {
                        o.push(1);
                        o.push(c as Int);
                        o.push(p.get() as Int);
                    }
                    None => o.push(0),
                });
            }
            dec_queries!(out, m, case, $Pr);
            if case.flags & 4 != 0 && $P <= 12 {
                // run-length encoded sweep over all quantiles
                guarded(out, |o| {
                    let mut runs: Vec<(usize, $Pr, $Pr, u64)> = Vec::new();
                    for q in 0..(1u64 << $P) {
                        let (s, c, p) = m.quantile_function(q as $Pr);
                        let p = p.get();
                        match runs.last_mut() {
                            Some(l) if l.0 == s && l.1 == c && l.2 == p => l.3 += 1,
                            _ => runs.push((s, c, p, 1)),
                        }
                    }
                    o.push(runs.len() as Int);
                    for (s, c, p, k) in runs {
                        o.push(s as Int);
                        o.push(c as Int);
                        o.push(p as Int);
                        o.push(k as Int);
                    }
                });
            }
        }
        // ---- Pf: `_perfect` constructor: outcome class and validity of what it returns
        if case.flags & 2 != 0 {
            let r = catch_unwind(AssertUnwindSafe(|| {
                ContiguousCategoricalEntropyModel::<$Pr, Vec<$Pr>, $P>::from_floating_point_probabilities_perfect(&ws)
            }));
            match r {
                Ok(Ok(m)) => {
                    out.push(0);
                    let valid = catch_unwind(AssertUnwindSafe(|| {
                        let t: Vec<_> = m.symbol_table().collect();
                        let mut acc: u128 = 0;
                        let mut ok = t.len() == n && n >= 2;
                        for (i, (s, c, p)) in t.into_iter().enumerate() {
                            ok = ok && s == i && (c as u128) == acc && p.get() != 0;
                            acc += p.get() as u128;
                        }
                        ok && acc == (1u128 << $P)
                    }));
                    out.push(match valid {
                        Ok(true) => 1,
                        _ => 0,
                    });
                }
                _ => out.push(ERR),
            }
        }
        // ---- X: the fixed-point validator behind the `_perfect` constructors
        if case.flags & 8 != 0 {
            let ps: Vec<$Pr> = case.fixed.iter().map(|&x| x as $Pr).collect();
            if let Some(m) = ctor(out, || {
                ContiguousCategoricalEntropyModel::<$Pr, Vec<$Pr>, $P>::from_nonzero_fixed_point_probabilities(
                    ps.iter().copied(), false,
                )
            }) {
                dump_table!(out, m);
            }
        }
    }};
}

macro_rules! dispatch {
    ($fk:expr, $pb:expr, $p:expr, $case:expr, $out:expr; $( ($F:ty, $fkv:literal, $Pr:ty, $pbv:literal, $lookup:tt, [$($P:literal),*]) ),* ) => {
        match ($fk, $pb, $p) {
            $( $( ($fkv, $pbv, $P) => run_inst!($F, $Pr, $P, $lookup, $case, $out), )* )*
            other => panic!("harness: floatq instance {:?} not in menu", other),
        }
    };
}

pub fn run(r: &mut Reader, out: &mut Vec<Int>) {
    let fk = r.us();
    let pb = r.us();
    let p = r.us();
    let wbits: Vec<u64> = r.list().into_iter().map(|x| x as u64).collect();
    let has_norm = r.next();
    let nb = r.u();
    let flags = r.u();
    let syms: Vec<u64> = r.list().into_iter().map(|x| x as u64).collect();
    let quants: Vec<u64> = r.list().into_iter().map(|x| x as u64).collect();
    let fixed: Vec<u64> = if flags & 8 != 0 { r.list().into_iter().map(|x| x as u64).collect() } else { Vec::new() };
    let case = Case { wbits, norm: if has_norm != 0 { Some(nb) } else { None }, flags, syms, quants, fixed };
    dispatch!(fk, pb, p, &case, out;
        (f32, 0, u8, 8, true, [1, 2, 3, 7, 8]),
        (f32, 0, u16, 16, true, [1, 2, 8, 12, 15, 16]),
        (f32, 0, u32, 32, false, [1, 8, 12, 24, 31, 32]),
        (f64, 1, u8, 8, true, [1, 2, 3, 7, 8]),
        (f64, 1, u16, 16, true, [1, 2, 8, 12, 15, 16]),
        (f64, 1, u32, 32, false, [1, 8, 12, 24, 31, 32])
    );
}
