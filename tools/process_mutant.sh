#!/bin/bash
# usage: process_mutant.sh <srcdir> <seed-name> <prop> [...]
# confirm in a scratch worktree, store under /verif/seeded/<seed-name>/, run the given checks against it
S="$1"; NAME="$2"; shift 2
OUT=/verif/seeded/$NAME
mkdir -p "$OUT"
if [ "$(readlink -f "$S")" != "$(readlink -f "$OUT")" ]; then
  cp "$S/patch.diff" "$S/demo.rs" "$OUT/"
  cp "$S/meta.json" "$OUT/meta.orig.json" 2>/dev/null
fi
C=$(/verif/tools/confirm_mutant.sh "$S" 2>&1)
echo "$C" > "$OUT/confirm.txt"
if ! echo "$C" | grep -q "^CONFIRMED"; then echo "$NAME: NOT CONFIRMED"; exit 1; fi
( flock 9; /verif/tools/seedtest.sh "$OUT/patch.diff" "$@" > "$OUT/checks.txt" 2>&1 ) 9>/tmp/seedtest.lock
echo "$NAME: confirmed; checks:"; cat "$OUT/checks.txt"
