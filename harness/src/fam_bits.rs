//! Family `bits`: histories on the bit-level coders of `constriction::symbol`
//! (StackCoder, QueueEncoder, QueueDecoder over Vec / Cursor backends) and the
//! Exp-Golomb codebook (C16; bit-coder parts of C08 and C18).
//! Input / output format: see /verif/lib/fam_bits.py (generator) and
//! coq/theories/Corr/Bits_run.v (model runner); the three must agree.
//!
//! The raw fields (backend, current_word, mask) are private; they are observed through the
//! public `Debug` implementation.
use crate::common::*;
use constriction::backends::Cursor;
use constriction::symbol::exp_golomb::ExpGolomb;
use constriction::symbol::{
    DefaultQueueEncoder, DefaultStackCoder, QueueDecoder, QueueEncoder, ReadBitStream, StackCoder,
    WriteBitStream,
};
use constriction::UnwrapInfallible;

pub const ERR_EOF: Int = -1;
pub const ERR_IMPORT: Int = -2;
pub const ERR_CODEWORD: Int = -5;

/// Upper bound on the bits collected from one iterator: far above anything the generators
/// produce, but finite, so that a coder that never reports the end of its data cannot exhaust
/// the machine's memory (the truncated list then disagrees with the model and the oracle).
const MAX_DRAIN: usize = 1 << 12;

/// value of `<name>: <int>` in a `{:?}` rendering
fn dbg_field(s: &str, name: &str) -> Int {
    let key = format!("{}: ", name);
    let i = s.find(&key).unwrap_or_else(|| panic!("harness: no field {} in {}", name, s)) + key.len();
    let rest = &s[i..];
    let end = rest.find(|c: char| !c.is_ascii_digit()).unwrap_or(rest.len());
    rest[..end].parse::<Int>().unwrap()
}

/// value of `<name>: [a, b, ...]` in a `{:?}` rendering
fn dbg_list(s: &str, name: &str) -> Vec<Int> {
    let key = format!("{}: [", name);
    let i = s.find(&key).unwrap_or_else(|| panic!("harness: no field {} in {}", name, s)) + key.len();
    let rest = &s[i..];
    let end = rest.find(']').unwrap();
    rest[..end]
        .split(',')
        .map(|t| t.trim())
        .filter(|t| !t.is_empty())
        .map(|t| t.parse::<Int>().unwrap())
        .collect()
}

fn push_list(out: &mut Vec<Int>, l: &[Int]) {
    out.push(l.len() as Int);
    out.extend_from_slice(l);
}

/// bit lists travel packed: the count, then chunks of 60 bits, least significant bit first
fn push_bits(out: &mut Vec<Int>, bits: &[bool]) {
    out.push(bits.len() as Int);
    for ch in bits.chunks(60) {
        let mut v: Int = 0;
        for (j, &b) in ch.iter().enumerate() {
            if b {
                v |= 1 << j;
            }
        }
        out.push(v);
    }
}

fn read_bits(r: &mut Reader) -> Vec<bool> {
    let k = r.us();
    let mut bits = Vec::with_capacity(k);
    let mut left = k;
    while left > 0 {
        let n = left.min(60);
        let v = r.next();
        for j in 0..n {
            bits.push((v >> j) & 1 != 0);
        }
        left -= n;
    }
    bits
}

/// results of k reads: the leading delivered bits packed, the rest (end-of-data marks) raw
fn push_reads(out: &mut Vec<Int>, res: &[Option<bool>]) {
    let m = res.iter().take_while(|x| x.is_some()).count();
    let lead: Vec<bool> = res[..m].iter().map(|x| x.unwrap()).collect();
    push_bits(out, &lead);
    out.extend(res[m..].iter().map(|&x| ob(x)));
}

fn ob(o: Option<bool>) -> Int {
    match o {
        Some(true) => 1,
        Some(false) => 0,
        None => ERR_EOF,
    }
}

macro_rules! with_vt {
    ($vt:expr, |$cb:ident, $V:ident| $body:expr) => {
        match $vt {
            8 => { type $V = u8; let $cb = ExpGolomb::<u8>::new(); $body }
            16 => { type $V = u16; let $cb = ExpGolomb::<u16>::new(); $body }
            32 => { type $V = u32; let $cb = ExpGolomb::<u32>::new(); $body }
            64 => { type $V = u64; let $cb = ExpGolomb::<u64>::new(); $body }
            other => panic!("harness: value type u{} not in menu", other),
        }
    };
}

macro_rules! bits_impl {
    ($name:ident, $W:ty, $Stack:ty, $QEnc:ty) => {
        pub fn $name(r: &mut Reader, out: &mut Vec<Int>) {
            type QDec = QueueDecoder<$W, Cursor<$W, Vec<$W>>>;
            let mut s: $Stack = <$Stack>::new();
            let mut q: $QEnc = <$QEnc>::new();
            let mut d: QDec = QueueDecoder::from_compressed(Cursor::new_at_write_beginning(Vec::new()));

            fn raw_bc(dbg: String, out: &mut Vec<Int>) {
                push_list(out, &dbg_list(&dbg, "backend"));
                out.push(dbg_field(&dbg, "current_word"));
                out.push(dbg_field(&dbg, "mask_last_written"));
            }
            fn raw_qd(d: &QDec, out: &mut Vec<Int>) {
                let dbg = format!("{:?}", d);
                let buf = dbg_list(&dbg, "buf");
                let pos = dbg_field(&dbg, "pos") as usize;
                push_list(out, &buf[pos..]);
                out.push(dbg_field(&dbg, "current_word"));
                out.push(dbg_field(&dbg, "mask_next_to_read"));
            }
            fn words(r: &mut Reader) -> Vec<$W> {
                r.list().into_iter().map(|x| x as $W).collect()
            }

            while !r.done() {
                let op = r.next();
                match op {
                    // ---------------- stack coder
                    1 => {
                        let b = r.next() != 0;
                        s.write_bit(b).unwrap_infallible();
                        out.push(0);
                    }
                    2 => out.push(ob(s.read_bit().unwrap_infallible())),
                    3 => {
                        out.push(s.len() as Int);
                        out.push(s.is_empty() as Int);
                    }
                    4 => {
                        let ws = core::mem::take(&mut s).into_compressed().unwrap_infallible();
                        out.push(ws.len() as Int);
                        out.extend(ws.iter().map(|&w| w as Int));
                        match <$Stack>::from_compressed(ws) {
                            Ok(c) => {
                                s = c;
                                out.push(0);
                            }
                            Err(_) => out.push(ERR_IMPORT),
                        }
                    }
                    5 => {
                        let g = s.get_compressed();
                        out.push(g.len() as Int);
                        out.extend(g.iter().map(|&w| w as Int));
                    }
                    6 => {
                        out.push(s.as_decoder().len() as Int);
                        let bits: Vec<bool> = s.iter().take(MAX_DRAIN).map(|b| b.unwrap_infallible()).collect();
                        push_bits(out, &bits);
                    }
                    7 => {
                        let k = r.us();
                        let res: Vec<Option<bool>> =
                            (0..k).map(|_| s.next().map(|b| b.unwrap_infallible())).collect();
                        push_reads(out, &res);
                    }
                    8 => {
                        let vt = r.next();
                        let n = r.next();
                        with_vt!(vt, |cb, V| s.encode_symbol(n as V, &cb).unwrap());
                        out.push(0);
                    }
                    9 => {
                        let vt = r.next();
                        let res = with_vt!(vt, |cb, V| s.decode_symbol(&cb).map(|x: V| x as Int));
                        out.push(res.unwrap_or(ERR_CODEWORD));
                    }
                    10 => {
                        let ws = words(r);
                        match <$Stack>::from_compressed(ws) {
                            Ok(c) => {
                                s = c;
                                out.push(0);
                            }
                            Err(constriction::CoderError::Frontend(back)) => {
                                out.push(ERR_IMPORT);
                                out.push(back.len() as Int);
                                out.extend(back.iter().map(|&w| w as Int));
                            }
                            Err(constriction::CoderError::Backend(e)) => match e {},
                        }
                    }
                    11 => raw_bc(format!("{:?}", s), out),
                    12 => {
                        let bits: Vec<bool> = core::mem::take(&mut s)
                            .into_iterator()
                            .take(MAX_DRAIN)
                            .map(|b| b.unwrap_infallible())
                            .collect();
                        push_bits(out, &bits);
                    }
                    13 => {
                        let vt = r.next();
                        let ns = r.list();
                        with_vt!(vt, |cb, V| {
                            let syms: Vec<V> = ns.iter().map(|&n| n as V).collect();
                            s.encode_iid_symbols_reverse(&syms, &cb).unwrap()
                        });
                        out.push(0);
                    }
                    14 => {
                        let vt = r.next();
                        let k = r.us();
                        let res: Vec<Int> = with_vt!(vt, |cb, V| s
                            .decode_iid_symbols(k, &cb)
                            .map(|x| x.map(|v: V| v as Int).unwrap_or(ERR_CODEWORD))
                            .collect());
                        out.extend(res);
                    }
                    15 => {
                        let k = r.us();
                        s = <$Stack>::with_bit_capacity(k);
                        out.push(0);
                    }
                    16 => {
                        let mut dec = core::mem::take(&mut s).into_decoder();
                        out.push(dec.len() as Int);
                        out.push(dec.is_empty() as Int);
                        let mut bits = Vec::new();
                        while let Some(b) = dec.read_bit().unwrap_infallible() {
                            bits.push(b);
                            if bits.len() >= MAX_DRAIN {
                                break;
                            }
                        }
                        push_bits(out, &bits);
                    }
                    17 => {
                        for b in read_bits(r) {
                            s.write_bit(b).unwrap_infallible();
                        }
                        out.push(0);
                    }
                    // ---------------- queue encoder
                    21 => {
                        let b = r.next() != 0;
                        q.write_bit(b).unwrap_infallible();
                        out.push(0);
                    }
                    23 => {
                        out.push(q.len() as Int);
                        out.push(q.is_empty() as Int);
                    }
                    24 => {
                        let ws = core::mem::take(&mut q).into_compressed().unwrap_infallible();
                        out.push(ws.len() as Int);
                        out.extend(ws.iter().map(|&w| w as Int));
                        q = <$QEnc>::from_compressed(ws);
                    }
                    25 => {
                        let g = q.get_compressed();
                        out.push(g.len() as Int);
                        out.extend(g.iter().map(|&w| w as Int));
                    }
                    28 => {
                        let vt = r.next();
                        let n = r.next();
                        with_vt!(vt, |cb, V| q.encode_symbol(n as V, &cb).unwrap());
                        out.push(0);
                    }
                    29 => {
                        let vt = r.next();
                        let ns = r.list();
                        with_vt!(vt, |cb, V| {
                            let syms: Vec<V> = ns.iter().map(|&n| n as V).collect();
                            q.encode_iid_symbols(&syms, &cb).unwrap()
                        });
                        out.push(0);
                    }
                    30 => {
                        q = <$QEnc>::from_compressed(words(r));
                        out.push(0);
                    }
                    31 => raw_bc(format!("{:?}", q), out),
                    32 => {
                        let k = r.us();
                        q = <$QEnc>::with_bit_capacity(k);
                        out.push(0);
                    }
                    33 => {
                        d = core::mem::take(&mut q).into_decoder().unwrap_infallible();
                        out.push(0);
                    }
                    34 => {
                        let v = q.get_compressed().to_vec();
                        d = QueueDecoder::from_compressed(Cursor::new_at_write_beginning(v));
                        out.push(0);
                    }
                    35 => {
                        let bits: Vec<bool> = core::mem::take(&mut q)
                            .into_overshooting_iter()
                            .unwrap_infallible()
                            .take(MAX_DRAIN)
                            .map(|b| b.unwrap_infallible())
                            .collect();
                        push_bits(out, &bits);
                    }
                    37 => {
                        for b in read_bits(r) {
                            q.write_bit(b).unwrap_infallible();
                        }
                        out.push(0);
                    }
                    // ---------------- queue decoder
                    41 => out.push(ob(d.read_bit().unwrap_infallible())),
                    42 => {
                        let k = r.us();
                        let res: Vec<Option<bool>> =
                            (0..k).map(|_| d.next().map(|b| b.unwrap_infallible())).collect();
                        push_reads(out, &res);
                    }
                    43 => {
                        let vt = r.next();
                        let res = with_vt!(vt, |cb, V| d.decode_symbol(&cb).map(|x: V| x as Int));
                        out.push(res.unwrap_or(ERR_CODEWORD));
                    }
                    44 => out.push(d.maybe_exhausted() as Int),
                    45 => {
                        d = QueueDecoder::from_compressed(Cursor::new_at_write_beginning(words(r)));
                        out.push(0);
                    }
                    46 => {
                        let bits: Vec<bool> = d.clone().take(MAX_DRAIN).map(|b| b.unwrap_infallible()).collect();
                        push_bits(out, &bits);
                    }
                    47 => {
                        let vt = r.next();
                        let k = r.us();
                        let res: Vec<Int> = with_vt!(vt, |cb, V| d
                            .decode_iid_symbols(k, &cb)
                            .map(|x| x.map(|v: V| v as Int).unwrap_or(ERR_CODEWORD))
                            .collect());
                        out.extend(res);
                    }
                    48 => raw_qd(&d, out),
                    other => panic!("harness: bits op {}", other),
                }
            }
            raw_bc(format!("{:?}", s), out);
            raw_bc(format!("{:?}", q), out);
            raw_qd(&d, out);
        }
    };
}

bits_impl!(bits_u8, u8, StackCoder<u8, Vec<u8>>, QueueEncoder<u8, Vec<u8>>);
bits_impl!(bits_u16, u16, StackCoder<u16, Vec<u16>>, QueueEncoder<u16, Vec<u16>>);
bits_impl!(bits_u32, u32, StackCoder<u32, Vec<u32>>, QueueEncoder<u32, Vec<u32>>);
bits_impl!(bits_u64, u64, StackCoder<u64, Vec<u64>>, QueueEncoder<u64, Vec<u64>>);
bits_impl!(bits_default, u32, DefaultStackCoder, DefaultQueueEncoder);
bits_impl!(bits_usize, usize, StackCoder<usize, Vec<usize>>, QueueEncoder<usize, Vec<usize>>);

pub fn run(r: &mut Reader, out: &mut Vec<Int>) {
    match r.next() {
        8 => bits_u8(r, out),
        16 => bits_u16(r, out),
        32 => bits_u32(r, out),
        64 => bits_u64(r, out),
        33 => bits_default(r, out),
        65 => {
            assert_eq!(usize::BITS, 64, "harness: the model assumes a 64-bit usize");
            bits_usize(r, out)
        }
        other => panic!("harness: bits word type {} not in menu", other),
    }
}
