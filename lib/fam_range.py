"""Family `range`: histories on RangeEncoder<Word, State, Vec<Word>> followed by
RangeDecoder<Word, State, Cursor<Word, Vec<Word>>> (src/stream/queue.rs).

Input (ints):  wb sb pb  <models>  encoder-ops...  [9|10 ...  decoder-ops...]
  encoder ops (the encoder starts as RangeEncoder::new()):
       1 m sym        encode_symbol            -> (0 | -1) bulk_len digest(lower,range) sit_n sit_w
       2              get_compressed (dropped) -> len words..
       3              sizes                    -> num_words num_bits is_empty maybe_full
       4              pos (snapshot i)         -> pos lower range
       5 k m1..mk     decoder() (dropped)      -> k x (0 sym | -6 0)  maybe_exhausted
       6              raw parts                -> len bulk.. lower range sit_n sit_w
       7              into_raw_parts / from_raw_parts round trip -> 0
      13              enc := copy made by clone_from into a stale scratch encoder -> 0
      15              clear()  (documented: the state of a new encoder)               -> 0
      14              enc := enc.clone() (the old one becomes the next scratch)  -> 0
       8 len bulk.. lower range n w   from_raw_parts(explicit)   -> 0 | -5 (RangeCoderState::new refused)
       9 len sfx..    into_compressed, then RangeDecoder::from_compressed(words ++ sfx)
                                               -> len words..
      10 len ws..     drop the encoder, RangeDecoder::from_compressed(ws)  -> 0
  decoder ops:
      20 m            decode_symbol            -> (0 sym | -6 0) pos digest(lower,range,point)
      21              maybe_exhausted          -> 0 | 1
      22 i            seek(snapshot i)         -> 0 | -7
      23              raw parts                -> pos lower range point
      24 pos lower range   seek(explicit)      -> 0 | -7 | -5
      28                   into_raw_parts -> from_raw_parts of the decoder itself -> 0 | -8
      25 lower range point from_raw_parts      -> 0 | -8 (refused) | -5
  digest(a,b[,c]) = (a + 31*b [+ 977*c]) mod 1000003 (big literals are expensive on the Coq side; the
  complete values are compared at every pos / raw-parts op and at the end).
  at the end: the raw parts of whatever coder is alive (as op 6 / op 23) and one more int, the
  result of the model-vs-spec differential check that Corr/Range_run.v performs on the model side
  (the harness prints the constant 0).
"""
from gen_models import RANGE_MENU, pick_precision, gen_table, enc_models, gen_symbols

FAMILY = "range"
RUNNER = ("Corr.Range_run", "run_range")

SPECIAL = (-999999, -999998, -999997)


# ---------------------------------------------------------------- reference arithmetic (generator steering + oracles)

class Enc:
    """Exact-integer re-statement of the encoder (used ONLY to steer generators towards carries)."""

    def __init__(self, wb, sb):
        self.wb, self.sb = wb, sb
        self.M, self.T, self.B = 1 << sb, 1 << (sb - wb), 1 << wb
        self.bulk, self.lower, self.range, self.sit = [], 0, self.M - 1, None

    def clone(self):
        e = Enc(self.wb, self.sb)
        e.bulk, e.lower, e.range, e.sit = list(self.bulk), self.lower, self.range, self.sit
        return e

    def encode(self, P, cum, p):
        M, T, B = self.M, self.T, self.B
        scale = self.range >> P
        r1 = scale * p
        nl = (self.lower + scale * cum) % M
        if self.sit is not None:
            n, w = self.sit
            if (nl + r1) % M > nl:
                if nl < self.lower:
                    if w + 1 >= B:
                        raise OverflowError
                    self.bulk += [w + 1] + [0] * (n - 1)
                else:
                    self.bulk += [w] + [B - 1] * (n - 1)
                self.sit = None
        self.lower, self.range = nl, r1
        if r1 < T:
            lw = self.lower >> (self.sb - self.wb)
            self.lower = (self.lower << self.wb) % M
            self.range = r1 << self.wb
            if self.sit is not None:
                self.sit = (self.sit[0] + 1, self.sit[1])
            elif (self.lower + self.range) % M > self.lower:
                self.bulk.append(lw)
            else:
                self.sit = (1, lw)

    def sealed(self):
        M, T, B = self.M, self.T, self.B
        if self.range == M - 1:
            return list(self.bulk)
        ws = list(self.bulk)
        point = (self.lower + T - 1) % M
        if self.sit is not None:
            n, w = self.sit
            if point < self.lower and w + 1 >= B:
                raise OverflowError
            ws += ([w + 1] + [0] * (n - 1)) if point < self.lower else ([w] + [B - 1] * (n - 1))
        pw = point >> (self.sb - self.wb)
        ws.append(pw)
        if ((self.lower + self.range) % M) >> (self.sb - self.wb) == pw:
            ws.append(0)
        return ws


def ref_decode(wb, sb, words, steps):
    """steps: list of (P, table).  Returns list of symbols, None on InvalidData."""
    M, T = 1 << sb, 1 << (sb - wb)
    m = sb // wb
    ws = list(words)
    point = 0
    for i in range(m):
        point = (point << wb) | (ws[i] if i < len(ws) else 0)
    pos = min(m, len(ws))
    lower, rng_ = 0, M - 1
    out = []
    for P, t in steps:
        scale = rng_ >> P
        q = ((point - lower) % M) // scale
        if q >= (1 << P):
            out.append(None)
            return out
        s, c, p = table_lookup(t, q)
        lower = (lower + scale * c) % M
        rng_ = scale * p
        out.append(s)
        if rng_ < T:
            lower = (lower << wb) % M
            rng_ <<= wb
            point = (point << wb) % M
            if pos < len(ws):
                point |= ws[pos]
                pos += 1
    return out


def table_lookup(t, q):
    cur = t[0]
    for e in t[1:]:
        if e[1] <= q:
            cur = e
        else:
            break
    return cur


def spec_words(wb, sb, triples):
    """The big-number specification (DESIGN.md Appendix A / Model/RangeSpec.v), written without
    any of the implementation's bookkeeping: exact interval [L, L+R) at digit position k."""
    if not triples:
        return []
    M, T, B = 1 << sb, 1 << (sb - wb), 1 << wb
    L, R, k = 0, M - 1, 0
    for P, cum, p in triples:
        s = R >> P
        L, R = L + s * cum, s * p
        if R < T:
            L, R, k = L * B, R * B, k + 1
    v = (L + T - 1) // T
    digs = []
    x = v
    for _ in range(k + 1):
        digs.append(x % B)
        x //= B
    digs.reverse()
    if ((L + R) // T) % B == v % B:
        digs.append(0)
    return digs


# ---------------------------------------------------------------- input helpers

def _models(rng, wb, sb, pb, n=None):
    n = n or rng.randint(1, 4)
    ms = []
    for _ in range(n):
        P = pick_precision(rng, pb, wb, sb)
        ms.append((P, gen_table(rng, P)))
    return ms


def _in_sym(rng, t):
    return rng.choice(t)[0]


def _out_sym(rng, t):
    syms = {e[0] for e in t}
    while True:
        s = rng.choice([max(syms) + 1, min(syms) - 1, rng.randrange(-5000, 5000), (1 << 16) + rng.choice(list(syms)),
                        (1 << 32) + rng.choice(list(syms)), -(1 << 40)])
        if s not in syms:
            return s


def _enc_of(t, s):
    for e in t:
        if e[0] == s:
            return e[1], e[2]
    return None


def gen_suffix(rng, wb, sb, allow_empty=True):
    """suffix styles: 0xFF.., 0x00.., 0x80.., random; lengths 0..2*SB/WB"""
    m = sb // wb
    n = rng.choice([0] * (2 if allow_empty else 0) + [1, 2, m - 1, m, m + 1, 2 * m, rng.randint(1, 2 * m)])
    if n == 0:
        return []
    style = rng.random()
    top = (1 << wb) - 1
    if style < 0.4:
        return [top] * n
    if style < 0.55:
        return [0] * n
    if style < 0.7:
        return [1 << (wb - 1)] * n
    if style < 0.8:
        return [top] * (n - 1) + [rng.randrange(1 << wb)]
    return [rng.randrange(1 << wb) for _ in range(n)]


INSPECT = [2, 3, 4, 6, 7, 13, 13, 14]


def _seal_op(rng):
    """9: into_compressed; 11: Vec::from(encoder); 12: same message through a Cursor sink.  All three
    are the same operation in the model."""
    return rng.choice([9, 9, 9, 11, 12, 12])


def _inspect_ops(rng, ms, msg_so_far, force_pos=False):
    """a few inspections of the encoder; returns ops"""
    ops = []
    for _ in range(rng.choice([0, 0, 1, 1, 2, 3])):
        o = rng.choice(INSPECT + [5])
        if o == 5:
            k = min(len(msg_so_far), rng.choice([0, 1, 2, 5, len(msg_so_far)]))
            extra = rng.choice([0, 0, 1])
            seq = [mi for mi, _ in msg_so_far[:k]] + [rng.randrange(len(ms)) for _ in range(extra)]
            ops += [5, len(seq)] + seq
        else:
            ops.append(o)
    if force_pos:
        ops.append(4)
    return ops


def _decode_ops(rng, msg, n_snaps_at, nmodels, seeks=True):
    """decoder phase for a message [(model index, symbol)], with snapshots taken at the symbol
    boundaries listed in n_snaps_at (snapshot j was taken before symbol n_snaps_at[j])."""
    ops = []
    for i, (mi, _) in enumerate(msg):
        ops += [20, mi]
        if rng.random() < 0.03:
            ops.append(rng.choice([21, 23]))
        if rng.random() < 0.08:
            ops.append(28)               # take the decoder apart and reassemble it
    ops += [21, 23]
    if seeks and n_snaps_at:
        for _ in range(rng.choice([0, 1, 2, 3, 5])):
            j = rng.randrange(len(n_snaps_at))
            sk = rng.choice([22, 22, 27])   # 27: state rebuilt through RangeCoderState::new
            ops += [sk, j]
            if rng.random() < 0.2:
                ops += [sk, j]          # repeated seek
            start = n_snaps_at[j]
            k = rng.choice([0, 1, 2, 5, len(msg) - start])
            for mi, _ in msg[start:start + k]:
                ops += [20, mi]
            if start + k >= len(msg):
                ops.append(21)
            if rng.random() < 0.3:
                ops.append(21)
    return ops


def _assemble(wb, sb, pb, ms, ops):
    return [wb, sb, pb] + enc_models(ms) + ops


# ---------------------------------------------------------------- generators

def gen_roundtrip(rng, with_suffix=False, max_syms=300):
    """C02/C06/C07/C08/C09/C12/C18: message of 0..300 symbols with random tables over the whole type
    menu, inspections (also of the empty coder), impossible symbols, snapshots; seal; decode with the
    same models; maybe_exhausted; seeks to snapshots."""
    wb, sb, pb = rng.choice(RANGE_MENU)
    ms = _models(rng, wb, sb, pb)
    n = rng.choice([0, 0, 1, 2, 3, 5, 10, 30, rng.randint(0, 60), rng.randint(0, max_syms)])
    all_snaps = n <= 12 and rng.random() < 0.5
    ops, msg, snaps_at = [], [], []
    ops += _inspect_ops(rng, ms, msg)
    for i in range(n):
        if all_snaps or rng.random() < 0.08:
            ops.append(4)
            snaps_at.append(len(msg))
        mi = rng.randrange(len(ms))
        t = ms[mi][1]
        if rng.random() < 0.04:
            ops += [1, mi, _out_sym(rng, t)]
        s = _in_sym(rng, t)
        ops += [1, mi, s]
        msg.append((mi, s))
        if rng.random() < 0.1:
            ops += _inspect_ops(rng, ms, msg)
    if rng.random() < 0.7:
        ops.append(4)
        snaps_at.append(len(msg))
    ops += [3, 2, 3]
    sfx = gen_suffix(rng, wb, sb) if with_suffix else []
    ops += [_seal_op(rng), len(sfx)] + sfx
    ops += _decode_ops(rng, msg, snaps_at, len(ms))
    if rng.random() < 0.2:
        ops += [24, rng.choice([10 ** 6, 2 ** 40]), 0, (1 << sb) - 1]     # position beyond the data
    return _assemble(wb, sb, pb, ms, ops)


def gen_clear(rng):
    """clear() in the middle of a history (documented: the state of a new encoder), preferably on
    small word types where words are held back for a carry every few symbols; inspections right
    after it; then a fresh message, seal, decode."""
    wb, sb, pb = rng.choice([(8, 16, 8), (8, 16, 8), (8, 32, 8), (16, 32, 16), (16, 32, 8), (8, 64, 8), (32, 64, 32)])
    ms = _models(rng, wb, sb, pb)
    ops, msg = [], []
    for _ in range(rng.choice([1, 1, 2, 3])):
        for _ in range(rng.choice([1, 2, 3, 5, 8, 13, 21, 40])):
            mi = rng.randrange(len(ms))
            ops += [1, mi, _in_sym(rng, ms[mi][1])]
            if rng.random() < 0.05:
                ops.append(rng.choice(INSPECT))
        ops.append(15)
        if rng.random() < 0.6:
            ops += [3, 2, 3, 6][:rng.randint(1, 4)]
    n = rng.choice([0, 1, 2, 5, 10, rng.randint(0, 40)])
    for _ in range(n):
        mi = rng.randrange(len(ms))
        s = _in_sym(rng, ms[mi][1])
        ops += [1, mi, s]
        msg.append((mi, s))
    ops += [3, 2, 3]
    ops += [_seal_op(rng), 0]
    ops += _decode_ops(rng, msg, [], len(ms), seeks=False)
    return _assemble(wb, sb, pb, ms, ops)


def _table_with(rng, P, cum, p, sym_base=0):
    """a table tiling [0, 2^P) that contains the entry (cum, p); returns (table, symbol)"""
    total = 1 << P
    assert 0 <= cum and 1 <= p < total and cum + p <= total, (P, cum, p)
    cuts = {0, cum, cum + p, total}
    for lo, hi in ((0, cum), (cum + p, total)):
        if hi - lo >= 2:
            for _ in range(rng.choice([0, 0, 1, 2])):
                cuts.add(rng.randrange(lo + 1, hi))
    cs = sorted(cuts)
    syms = gen_symbols(rng, len(cs) - 1)
    t, sym = [], None
    for i in range(len(cs) - 1):
        t.append((syms[i], cs[i], cs[i + 1] - cs[i]))
        if cs[i] == cum:
            sym = syms[i]
    assert len(t) >= 2 and sym is not None
    return t, sym


def _craft(rng, sim, P, kind):
    """(cum, p) steering the simulated encoder: kind in
       'enter'  Normal -> Inverted at the renormalisation
       'stay'   Inverted -> Inverted (interval still contains the word boundary), renormalising
       'edge'   like stay but the interval ends EXACTLY on the boundary
       'carry'  Inverted -> Normal with carry,  'nocarry' Inverted -> Normal without
       'thr'    range lands exactly on / one below the renormalisation threshold
       returns None if impossible from this state."""
    M, T = sim.M, sim.T
    total = 1 << P
    scale = sim.range >> P
    if scale == 0:
        return None
    if kind == 'shrink':
        # smallest p with scale * p >= T: the range lands in [T, T + scale) without renormalisation
        p = -(-T // scale)
        if p >= total:
            return None
        cum = rng.choice([0, total - p, rng.randint(0, total - p)])
        return cum, p
    if kind == 'thr':
        # scale * p == T or T - something small
        cands = []
        for tgt in (T, T - 1, T + 1):
            p = tgt // scale
            for pp in (p, p + 1):
                if 1 <= pp < total:
                    cands.append(pp)
        if not cands:
            return None
        p = rng.choice(cands)
        cum = rng.choice([0, total - p, rng.randint(0, total - p)])
        return cum, p
    if sim.sit is None:
        if kind != 'enter':
            return None
        d = T - (sim.lower % T)
        j = rng.choice([0, 0, 0, 1, 2, rng.randrange(0, 1 << sim.wb)])
        if d + j * T <= scale * total and sim.lower + d + j * T < M:
            d += j * T
    else:
        d = M - sim.lower
    cmax = (d - 1) // scale                 # scale*cum < d
    emin = -(-d // scale)                   # scale*end >= d
    if kind in ('enter', 'stay', 'edge'):
        if emin > total:
            return None
        if kind == 'edge':
            if d % scale != 0:
                return None
            end = emin
        else:
            end = min(total, emin + rng.choice([0, 0, 0, 1, 2]))
        cum = max(0, cmax - rng.choice([0, 0, 0, 1, 2]))
        p = end - cum
        if p < 1 or p >= total:
            return None
        if scale * p >= T:                  # must renormalise to hold a word back
            cum, end = cmax, emin
            p = end - cum
            if p < 1 or p >= total or scale * p >= T:
                return None
        return cum, p
    if kind == 'carry':
        if emin >= total:
            return None
        cum = rng.choice([emin, emin, min(total - 1, emin + 1), rng.randint(emin, total - 1)])
        p = rng.choice([1, total - cum, rng.randint(1, total - cum)])
        if p >= total:
            p = total - 1
        return cum, p
    if kind == 'nocarry':
        emax = min(total, (d - 1) // scale)  # scale*end < d
        if emax < 1:
            return None
        end = rng.choice([emax, emax, max(1, emax - 1), rng.randint(1, emax)])
        cum = rng.choice([0, end - 1, rng.randint(0, end - 1)])
        p = end - cum
        if p >= total:
            return None
        return cum, p
    return None


CARRY_MENU = [(8, 16, 8)] * 5 + [(8, 32, 8)] * 3 + [(8, 64, 8)] * 2 + [(16, 32, 16), (16, 32, 8), (16, 64, 16),
                                                                        (32, 64, 32), (32, 64, 16)]


def gen_carry(rng, with_suffix=False, max_syms=90):
    """CARRY FORCER: one tailored table per symbol so that the encoder enters the Inverted situation,
    stays there for runs of 1..40 held-back words (also with intervals ending exactly on the word
    boundary), leaves it with and without carry or is sealed while inverted; range exactly on the
    threshold; p in {1, 2^P-1}; P == WordBits.  Inspections and snapshots while inverted."""
    wb, sb, pb = rng.choice(CARRY_MENU)
    sim = Enc(wb, sb)
    ms, ops, msg, snaps_at = [], [], [], []
    nsteps = rng.choice([3, 8, 20, 40, rng.randint(1, max_syms)])
    fixedP = pick_precision(rng, pb, wb, sb) if rng.random() < 0.7 else None
    if rng.random() < 0.35:
        fixedP = min(pb, wb)                # P == ProbBits (== WordBits for three instances)
    run_target = rng.choice([1, 1, 2, 3, 5, 8, 13, 20, 40])
    seal_inverted = rng.random() < 0.35
    all_snaps = rng.random() < 0.15
    i = 0
    while i < nsteps or (seal_inverted and sim.sit is None and i < nsteps + 60):
        P = fixedP or pick_precision(rng, pb, wb, sb)
        total = 1 << P
        kind = None
        if sim.sit is None:
            r = rng.random()
            kind = 'enter' if r < 0.6 else ('thr' if r < 0.7 else None)
        else:
            n = sim.sit[0]
            if n < run_target:
                kind = rng.choice(['stay', 'stay', 'stay', 'edge'])
            else:
                if seal_inverted and i >= nsteps - 1:
                    break
                kind = rng.choice(['carry', 'nocarry', 'carry', 'nocarry', 'stay'])
                run_target = rng.choice([1, 1, 2, 3, 5, 8, 13, 20, 40])
        cp = _craft(rng, sim, P, kind) if kind else None
        if cp is None and kind == 'edge':
            cp = _craft(rng, sim, P, 'stay')
        if cp is None:
            # free symbol with extreme probabilities over-weighted
            if total == 2:
                cum, p = rng.choice([(0, 1), (1, 1)])
            else:
                p = rng.choice([1, 1, total - 1, rng.randint(1, total - 1)])
                cum = rng.choice([0, total - p, rng.randint(0, total - p)])
        else:
            cum, p = cp
        t, sym = _table_with(rng, P, cum, p)
        ms.append((P, t))
        mi = len(ms) - 1
        if all_snaps or rng.random() < 0.1 or (sim.sit is not None and rng.random() < 0.3):
            ops.append(4)
            snaps_at.append(len(msg))
        ops += [1, mi, sym]
        msg.append((mi, sym))
        sim.encode(P, cum, p)
        if sim.sit is not None and rng.random() < 0.25:
            ops += _inspect_ops(rng, ms, msg)
        elif rng.random() < 0.05:
            ops += _inspect_ops(rng, ms, msg)
        if rng.random() < 0.02:
            ops += [1, mi, _out_sym(rng, t)]
        i += 1
    if rng.random() < 0.7:
        ops.append(4)
        snaps_at.append(len(msg))
    ops += [3, 2, 3, 6]
    sfx = gen_suffix(rng, wb, sb) if with_suffix else []
    ops += [_seal_op(rng), len(sfx)] + sfx
    ops += _decode_ops(rng, msg, snaps_at, len(ms))
    return _assemble(wb, sb, pb, ms, ops)


def gen_suffix_rt(rng):
    """C11: the round-trip generators with a non-trivial suffix appended to the sealed words"""
    if rng.random() < 0.5:
        return gen_roundtrip(rng, with_suffix=True, max_syms=80)
    return gen_carry(rng, with_suffix=True, max_syms=60)


def gen_seal_steer(rng):
    """C11: steer the final interval so that the seal is as tight as possible: the upper end of the
    interval lands just above / exactly on a multiple of 2^(SB-WB) (two-word seals whose second word
    must pin the interval), suffix all-ones.  For StateBits > 2*WordBits this constructs members of
    the known class range_seal_wide_state; for StateBits == 2*WordBits the property must hold."""
    wb, sb, pb = rng.choice(RANGE_MENU)
    sim = Enc(wb, sb)
    M, T, B = sim.M, sim.T, sim.B
    ms, ops, msg = [], [], []
    P = min(pb, wb) if rng.random() < 0.6 else pick_precision(rng, pb, wb, sb)
    total = 1 << P
    for _ in range(rng.choice([0, 1, 2, 3, 6, 12])):
        t = gen_table(rng, P)
        e = rng.choice(t)
        ms.append((P, t))
        ops += [1, len(ms) - 1, e[0]]
        msg.append((len(ms) - 1, e[0]))
        sim.encode(P, e[1], e[2])
    # steer: (1) shrink the range into [T, T + T/B) without renormalising (a two-word seal needs the
    # final range below T + slack), (2) last symbol with p = 1 such that the upper end of the
    # renormalised interval lies less than T/B above a multiple of T.
    plan, best = None, None
    for attempt in range(rng.choice([1, 4, 12])):
        e1, steps = sim.clone(), []
        for _ in range(4):
            if e1.sit is not None or T <= e1.range < T + max(1, T >> wb):
                break
            cp = _craft(rng, e1, P, 'shrink')
            if cp is None:
                break
            steps.append(cp)
            e1.encode(P, cp[0], cp[1])
        ends = list(range(1, total + 1)) if total <= 512 else [rng.randint(1, total) for _ in range(1200)]
        rng.shuffle(ends)
        hit = False
        for end in ends:
            cum = max(0, end - rng.choice([1, 1, 1, 2, 3]))
            p = end - cum
            if p >= total:
                continue
            e2 = e1.clone()
            e2.encode(P, cum, p)
            up = (e2.lower + e2.range) % M
            slack = up % T
            two = (up >> (sb - wb)) == (((e2.lower + T - 1) % M) >> (sb - wb))
            key = (0 if two else 1, slack)
            if best is None or key < best:
                best, plan = key, steps + [(cum, p)]
            if two and 0 < slack < max(1, T >> wb):
                hit = True
                break
        if hit:
            break
    if plan is None:
        plan = [(0, 1)]
    for cum, p in plan[:-1]:
        t, sym = _table_with(rng, P, cum, p)
        ms.append((P, t))
        ops += [1, len(ms) - 1, sym]
        msg.append((len(ms) - 1, sym))
        sim.encode(P, cum, p)
    cum, p = plan[-1]
    t, sym = _table_with(rng, P, cum, p)
    ms.append((P, t))
    ops += [1, len(ms) - 1, sym]
    msg.append((len(ms) - 1, sym))
    ops += [3, 2, 6]
    m = sb // wb
    n = rng.choice([1, m - 1, m, 2 * m])
    sfx = rng.choice([[B - 1] * n, [B - 1] * n, [0] * n, [rng.randrange(B) for _ in range(n)]])
    ops += [_seal_op(rng), len(sfx)] + sfx
    ops += _decode_ops(rng, msg, [], len(ms), seeks=False)
    return _assemble(wb, sb, pb, ms, ops)


def _solve_cum(scale, lower, target_low, T):
    """all cum >= 0 (smallest first, as a (start, step) pair) with (lower + scale*cum) mod T == target_low"""
    from math import gcd
    rhs = (target_low - lower) % T
    g = gcd(scale, T)
    if rhs % g:
        return None
    m = T // g
    if m == 1:
        return 0, 1
    inv = pow((scale // g) % m, -1, m)
    return ((rhs // g) * inv) % m, m


def gen_seal_rare(rng):
    """C11 for StateBits == 2*WordBits (where the property must hold): the last symbol is SOLVED FOR so that the
    final interval sits in one of the measure-zero corners of the sealing rule:
      'ones'  Normal situation, two-word seal needed, and the low word of lower+range is all ones
              (a decoder fed an all-ones suffix then reads the very last point of the interval);
      'wrap'  sealed while Inverted with lower in the top word-block and the wrapped upper end in the
              lowest one (the seal point wraps and the second, zero, seal word is indispensable).
    Suffixes: all-ones words, zeros, a second sealed message back to back is emulated by random words."""
    wb, sb, pb = rng.choice([(8, 16, 8), (8, 16, 8), (16, 32, 16), (16, 32, 8), (32, 64, 32), (32, 64, 16)])
    M, T, B = 1 << sb, 1 << (sb - wb), 1 << wb
    kind = rng.choice(["ones", "wrap"])
    P = min(pb, wb)
    total = 1 << P
    best = None
    for attempt in range(60):
        sim = Enc(wb, sb)
        pre = []
        ok = True
        for _ in range(rng.choice([1, 1, 2, 3, 5])):
            t = gen_table(rng, P)
            e = rng.choice(t)
            try:
                sim.encode(P, e[1], e[2])
            except OverflowError:
                ok = False
                break
            pre.append((t, e[0]))
        if not ok:
            continue
        if kind == "wrap":
            # need an Inverted state right after a renormalisation
            tries = 0
            while sim.sit is None and tries < 6:
                cp = _craft(rng, sim, P, 'enter')
                tries += 1
                if cp is None or not (1 <= cp[1] < total and cp[0] + cp[1] <= total):
                    break
                t, sym = _table_with(rng, P, cp[0], cp[1])
                sim.encode(P, cp[0], cp[1])
                pre.append((t, sym))
            if sim.sit is None:
                continue
        elif sim.sit is not None:
            continue
        scale = sim.range >> P
        if scale == 0:
            continue
        found = None
        plo, phi = -(-T // scale), (2 * T - 2) // scale
        lo_p, hi_p = max(1, plo), min(phi, total - 1)
        if lo_p > hi_p:
            continue
        # never materialise the candidate range: it can have 2^31 elements
        if hi_p - lo_p < 40:
            ps = list(range(lo_p, hi_p + 1))
            rng.shuffle(ps)
        else:
            ps = [rng.randint(lo_p, hi_p) for _ in range(40)]
        for p in ps:
            r = scale * p
            if kind == "ones":
                sol = _solve_cum(scale, sim.lower, 2 * T - 1 - r, T)
                if sol is None:
                    continue
                c0, step = sol
                cands = [c0 + j * step for j in range(0, 4)]
                for cum in cands:
                    if cum + p <= total and sim.lower + scale * cum + r < M and (sim.lower + scale * cum) % T >= 1:
                        found = (cum, p)
                        break
            else:
                # lower' in (M - B, M), lower' + r - M < B, no wrap of lower'
                lo_c = -(-(M - B + 1 - sim.lower) // scale)
                hi_c = (M - 1 - sim.lower) // scale
                c_lo, c_hi = max(0, lo_c), min(hi_c, total - p)
                cand = range(c_lo, c_hi + 1) if c_hi - c_lo < 64 else [rng.randint(c_lo, c_hi) for _ in range(64)]
                for cum in cand:
                    nl = sim.lower + scale * cum
                    if M - B < nl < M and nl + r >= M and nl + r - M < B:
                        found = (cum, p)
                        break
            if found:
                break
        if found:
            best = (pre, found)
            break
    ms, ops, msg = [], [], []
    if best is None:
        return gen_seal_steer(rng)
    pre, (cum, p) = best
    for t, sym in pre:
        ms.append((P, t))
        ops += [1, len(ms) - 1, sym]
        msg.append((len(ms) - 1, sym))
    t, sym = _table_with(rng, P, cum, p)
    ms.append((P, t))
    ops += [1, len(ms) - 1, sym]
    msg.append((len(ms) - 1, sym))
    ops += [3, 2, 6]
    n = rng.choice([1, 2, 4])
    sfx = rng.choice([[B - 1] * n, [B - 1] * n, [B - 1] * n, [0] * n, [rng.randrange(B) for _ in range(n)],
                      [B - 2] + [B - 1] * (n - 1)])
    ops += [_seal_op(rng), len(sfx)] + sfx
    ops += _decode_ops(rng, msg, [], len(ms), seeks=False)
    return _assemble(wb, sb, pb, ms, ops)


def gen_garbage(rng):
    """C10: decoders over arbitrary words: random, all-zero, all-ones, truncated / extended / bit-flipped
    valid streams, valid streams decoded with the wrong models; explicit seeks (also beyond the data)
    and from_raw_parts with arbitrary state."""
    wb, sb, pb = rng.choice(RANGE_MENU)
    ms = _models(rng, wb, sb, pb)
    B = 1 << wb
    m = sb // wb
    style = rng.random()
    ops = []
    if style < 0.5:
        n = rng.choice([0, 1, m - 1, m, m + 1, rng.randint(0, 40)])
        s2 = rng.random()
        if s2 < 0.2:
            ws = [0] * n
        elif s2 < 0.4:
            ws = [B - 1] * n
        elif s2 < 0.5:
            ws = [rng.choice([0, B - 1, 1, B >> 1]) for _ in range(n)]
        else:
            ws = [rng.randrange(B) for _ in range(n)]
    else:
        sim = Enc(wb, sb)
        for _ in range(rng.randint(0, 40)):
            mi = rng.randrange(len(ms))
            e = rng.choice(ms[mi][1])
            sim.encode(ms[mi][0], e[1], e[2])
            if rng.random() < 0.3:
                ops.append(4)               # snapshots of an unrelated (empty) encoder: legal positions
        ws = sim.sealed()
        s2 = rng.random()
        if s2 < 0.3 and ws:
            ws = ws[:rng.randrange(len(ws))]
        elif s2 < 0.5:
            ws = ws + [rng.randrange(B) for _ in range(rng.randint(1, 5))]
        elif s2 < 0.7 and ws:
            j = rng.randrange(len(ws))
            ws[j] ^= 1 << rng.randrange(wb)
        # else: intact stream, decoded with random (wrong) models
    ops += [10, len(ws)] + ws
    for _ in range(rng.randint(1, 60)):
        r = rng.random()
        if r < 0.2:
            ops += [26, rng.randrange(len(ms)), rng.choice([0, 1, 2, 5, 9])]
        elif r < 0.8:
            ops += [20, rng.randrange(len(ms))]
        elif r < 0.86:
            ops.append(21)
        elif r < 0.9:
            ops.append(23)
        elif r < 0.96:
            pos = rng.choice([0, len(ws), len(ws) + 1, rng.randint(0, len(ws) + 2), 1 << 40])
            rangev = rng.choice([(1 << sb) - 1, 1 << (sb - wb), (1 << (sb - wb)) - 1, rng.randrange(1, 1 << sb)])
            ops += [24, pos, rng.randrange(1 << sb), rangev]
        else:
            rangev = rng.choice([(1 << sb) - 1, 1 << (sb - wb), (1 << (sb - wb)) - 1, rng.randrange(1, 1 << sb)])
            ops += [25, rng.randrange(1 << sb), rangev, rng.randrange(1 << sb)]
    ops += [21]
    return _assemble(wb, sb, pb, ms, ops)


def gen_rawparts(rng):
    """encoders assembled from explicit raw parts (from_raw_parts is public): mostly states satisfying
    the joint invariant of state and situation (Normal <=> lower + range < 2^SB), sometimes arbitrary
    ones, then encodes and inspections: ties the model to the code outside the states reachable from
    new().  Histories on which `first_inverted_lower_word + 1` would overflow (possible only from an
    inconsistent start; a debug build panics there, a release build wraps) are not generated."""
    while True:
        wb, sb, pb = rng.choice(RANGE_MENU)
        ms = _models(rng, wb, sb, pb)
        B, M, T = 1 << wb, 1 << sb, 1 << (sb - wb)
        bulk = [rng.randrange(B) for _ in range(rng.randint(0, 6))]
        lower = rng.choice([0, M - 1, M - T, rng.randrange(M)])
        rangev = rng.choice([M - 1, T, T - 1, T + 1, rng.randrange(1, M), rng.randrange(T, M)])
        if rng.random() < 0.7:
            if lower + rangev < M:
                n, w = 0, 0
            else:
                n, w = rng.choice([1, 1, 2, 5, 40]), rng.randrange(B - 1)
        elif rng.random() < 0.5:
            n, w = 0, 0
        else:
            n, w = rng.choice([1, 1, 2, 5, 40]), rng.randrange(B - 1)
        ops = [8, len(bulk)] + bulk + [lower, rangev, n, w]
        sim = Enc(wb, sb)
        sim.bulk, sim.lower, sim.range, sim.sit = list(bulk), lower, rangev, ((n, w) if n else None)
        try:
            if rangev >= T:
                for _ in range(rng.randint(0, 30)):
                    if rng.random() < 0.75:
                        mi = rng.randrange(len(ms))
                        s_ = _in_sym(rng, ms[mi][1])
                        ops += [1, mi, s_]
                        c_, p_ = _enc_of(ms[mi][1], s_)
                        sim.encode(ms[mi][0], c_, p_)
                    else:
                        o = rng.choice(INSPECT)
                        ops.append(o)
                        if o == 2:
                            sim.sealed()
                sim.sealed()
        except OverflowError:
            continue
        ops += [3, 2, 6]
        if rng.random() < 0.5:
            ops += [_seal_op(rng), 0]
            for _ in range(rng.randint(0, 10)):
                ops += [20, rng.randrange(len(ms))]
        return _assemble(wb, sb, pb, ms, ops)


# ---------------------------------------------------------------- output walking

def models_of(inp):
    i = 3
    nm = inp[i]
    i += 1
    ms = []
    for _ in range(nm):
        P, k = inp[i], inp[i + 1]
        t = [tuple(inp[i + 2 + 3 * j:i + 5 + 3 * j]) for j in range(k)]
        ms.append((P, t))
        i += 2 + 3 * k
    return ms, i


def walk(inp, out):
    """Yields (op, args, results) for each op of a `range` case, then ("final", phase, raw), then
    ("speccheck", [], flag)."""
    ms, i = models_of(inp)
    o = 0
    phase = "enc"

    def take(n):
        nonlocal o
        if o + n > len(out):
            raise IndexError
        r = out[o:o + n]
        o += n
        return r

    def words():
        n = take(1)[0]
        if n < 0:
            raise ValueError
        return take(n)

    while i < len(inp):
        op = inp[i]
        if phase == "enc":
            if op == 1:
                yield (1, (inp[i + 1], inp[i + 2]), take(5)); i += 3
            elif op == 2:
                yield (2, (), words()); i += 1
            elif op == 3:
                yield (3, (), take(4)); i += 1
            elif op == 4:
                yield (4, (), take(3)); i += 1
            elif op == 5:
                k = inp[i + 1]
                seq = inp[i + 2:i + 2 + k]
                yield (5, seq, (take(2 * k), take(1)[0])); i += 2 + k
            elif op == 6:
                b = words()
                yield (6, (), (b, take(4))); i += 1
            elif op in (7, 13, 14):     # raw-parts round trip / clone_from / clone: the same coder
                yield (7, (), take(1)[0]); i += 1
            elif op == 15:
                yield (15, (), take(1)[0]); i += 1
            elif op == 8:
                n = inp[i + 1]
                yield (8, (inp[i + 2:i + 2 + n], inp[i + 2 + n:i + 6 + n]), take(1)[0]); i += 6 + n
            elif op in (9, 11, 12):     # the three ways to seal: one operation for every oracle
                n = inp[i + 1]
                yield (9, inp[i + 2:i + 2 + n], words()); i += 2 + n
                phase = "dec"
            elif op == 10:
                n = inp[i + 1]
                yield (10, inp[i + 2:i + 2 + n], take(1)[0]); i += 2 + n
                phase = "dec"
            else:
                raise ValueError("bad encoder op %r" % op)
        else:
            if op == 20:
                yield (20, inp[i + 1], take(4)); i += 2
            elif op == 26:
                n = take(1)[0]
                if n < 0 or n > 10 ** 6:
                    raise ValueError
                yield (26, (inp[i + 1], inp[i + 2]), (n, take(2 * n), take(2))); i += 3
            elif op == 21:
                yield (21, (), take(1)[0]); i += 1
            elif op in (22, 27):        # 27 = 22 with the state rebuilt from its numbers
                yield (22, inp[i + 1], take(1)[0]); i += 2
            elif op == 28:
                yield (28, (), take(1)[0]); i += 1
            elif op == 23:
                yield (23, (), take(4)); i += 1
            elif op == 24:
                yield (24, inp[i + 1:i + 4], take(1)[0]); i += 4
            elif op == 25:
                yield (25, inp[i + 1:i + 4], take(1)[0]); i += 4
            else:
                raise ValueError("bad decoder op %r" % op)
    if phase == "enc":
        b = words()
        yield ("final", "enc", (b, take(4)))
    else:
        yield ("final", "dec", take(4))
    yield ("speccheck", (), take(1)[0])
    if o != len(out):
        raise ValueError("trailing output")


def _bad(out):
    return any(x in SPECIAL for x in out)


def _scoped(fn):
    """every property speaks about well-formed entropy models only"""
    def wrapped(inp, out):
        if not _tables_valid(models_of(inp)[0]):
            return None
        return fn(inp, out)
    wrapped.__doc__ = fn.__doc__
    return wrapped


def _tables_valid(ms):
    for P, t in ms:
        c = 0
        if len(t) < 2 or len({e[0] for e in t}) != len(t):
            return False
        for s_, cum, p in t:
            if cum != c or p < 1:
                return False
            c += p
        if c != (1 << P):
            return False
    return True


class _Hist:
    """The part of a case every oracle needs: the message as encoded so far, its (P,cum,p) triples,
    whether the history is still 'a fresh encoder fed with symbols' (scope of C02/C06/C11/...)."""

    def __init__(self, inp):
        self.ms, _ = models_of(inp)
        self.wb, self.sb, self.pb = inp[0], inp[1], inp[2]
        self.msg = []          # (model index, symbol) successfully encoded
        self.triples = []
        self.fresh = True      # no from_raw_parts(explicit) so far
        self.snaps = []        # (number of symbols encoded when the snapshot was taken, fresh?)

    def insup(self, m, s):
        return _enc_of(self.ms[m][1], s)


# ---------------------------------------------------------------- oracles (on IMPLEMENTATION output)

def _oracle_roundtrip(inp, out, need_empty_suffix, check_exhausted):
    if _bad(out):
        return "panic/abort/timeout"
    h = _Hist(inp)
    try:
        dec_i = None           # index of the next symbol the decoder should produce (None: unknown)
        sfx = None
        for op, args, res in walk(inp, out):
            if op == 1:
                m, s = args
                e = h.insup(m, s)
                if e is not None:
                    if res[0] != 0:
                        return "encoding an in-support symbol failed (%d)" % res[0]
                    h.msg.append((m, s))
                    h.triples.append((h.ms[m][0], e[0], e[1]))
            elif op == 15:
                h.msg, h.triples = [], []    # clear(): documented to be the state of a new encoder
            elif op == 8:
                if res == 0:
                    return None          # explicit raw parts: outside "a message encoded by a fresh encoder"
            elif op == 10:
                return None
            elif op == 9:
                sfx = args
                if need_empty_suffix and sfx:
                    return None
                if not h.msg and res:
                    return "empty message produced %d words" % len(res)
                dec_i = 0
            elif op == 20:
                if dec_i is None:
                    continue
                if dec_i >= len(h.msg) or h.msg[dec_i][0] != args:
                    dec_i = None         # decoding beyond the message / with another model: out of scope
                    continue
                if res[0] != 0:
                    return "decoding symbol %d of the message failed with %d" % (dec_i, res[0])
                if res[1] != h.msg[dec_i][1]:
                    return "symbol %d decoded as %d, encoded %d" % (dec_i, res[1], h.msg[dec_i][1])
                dec_i += 1
            elif op == 21:
                if check_exhausted and dec_i is not None and dec_i == len(h.msg) and not sfx and res != 1:
                    return "maybe_exhausted() is false after decoding exactly the encoded symbols"
            elif op in (22, 24, 25):
                dec_i = None             # seeks belong to C07
    except (IndexError, ValueError):
        return "malformed output"
    return None


def oracle_C02(inp, out):
    """decode(seal(encode(msg))) == msg in order; empty message -> no words; after the last symbol of an
    untouched stream the decoder reports maybe_exhausted."""
    return _oracle_roundtrip(inp, out, need_empty_suffix=True, check_exhausted=True)


def oracle_C11(inp, out):
    """decode(sealed ++ suffix) == msg for every suffix."""
    return _oracle_roundtrip(inp, out, need_empty_suffix=False, check_exhausted=False)


def oracle_C06(inp, out):
    """sealed words (into_compressed and every get_compressed view) == digits prescribed by the
    big-number reference for the message encoded so far."""
    if _bad(out):
        return "panic/abort/timeout"
    h = _Hist(inp)
    try:
        for op, args, res in walk(inp, out):
            if op == 1:
                e = h.insup(*args)
                if e is not None and res[0] == 0:
                    h.triples.append((h.ms[args[0]][0], e[0], e[1]))
            elif op == 15:
                h.triples = []
            elif op == 8 and res == 0:
                return None
            elif op in (2, 9):
                ref = spec_words(h.wb, h.sb, h.triples)
                if list(res) != ref:
                    return "compressed words %r differ from the reference %r" % (list(res)[:12], ref[:12])
            elif op == 10:
                return None
    except (IndexError, ValueError):
        return "malformed output"
    return None


def oracle_C07(inp, out):
    """after seek(snapshot taken before symbol i) the decoder yields symbols i, i+1, ...; seeking to the
    final position leaves it maybe_exhausted; positions beyond the data are refused."""
    if _bad(out):
        return "panic/abort/timeout"
    h = _Hist(inp)
    try:
        dec_i = None
        sfx = None
        nwords = None
        for op, args, res in walk(inp, out):
            if op == 1:
                e = h.insup(*args)
                if e is not None and res[0] == 0:
                    h.msg.append(args)
            elif op == 4:
                h.snaps.append(len(h.msg))
            elif (op == 8 and res == 0) or op == 15:
                return None
            elif op == 10:
                return None
            elif op == 9:
                sfx, nwords = args, len(res) + len(args)
            elif op == 22:
                if res != 0:
                    return "seek to a recorded position was refused"
                dec_i = h.snaps[args]
            elif op == 24:
                if args[0] > nwords and res == 0:
                    return "seek beyond the data accepted"
                dec_i = None
            elif op == 25:
                dec_i = None
            elif op == 28:
                if res != 0:
                    return "the decoder's own raw parts were refused by from_raw_parts"
            elif op == 20 and dec_i is not None:
                if dec_i >= len(h.msg) or h.msg[dec_i][0] != args:
                    dec_i = None
                    continue
                if h.sb > 2 * h.wb and sfx:
                    continue             # known class of C11 (suffix may break the tail of the stream)
                if res[0] != 0 or res[1] != h.msg[dec_i][1]:
                    return "after seek: symbol %d decoded as %r" % (dec_i, res[:2])
                dec_i += 1
            elif op == 21 and dec_i is not None and dec_i == len(h.msg) and not sfx and res != 1:
                return "maybe_exhausted() false at the final position"
    except (IndexError, ValueError):
        return "malformed output"
    return None


def oracle_C08(inp, out):
    """a view shows exactly the words finishing would return; inspections leave the raw parts alone."""
    if _bad(out):
        return "panic/abort/timeout"
    try:
        last_raw = None
        last_view = None
        for op, args, res in walk(inp, out):
            if op == 1:
                last_raw, last_view = tuple(res[1:]), None
            elif op in (8, 15):
                last_raw, last_view = None, None
            elif op == 2:
                if last_view is not None and list(res) != last_view:
                    return "two views without an encode in between differ"
                last_view = list(res)
            elif op == 6:
                lo_, ra_, n_, w_ = res[1]
                compact = (len(res[0]), (lo_ + 31 * ra_) % 1000003, n_, w_)
                if last_raw is not None and compact != last_raw:
                    return "raw parts changed by an inspection"
            elif op == 9:
                if last_view is not None and list(res) != last_view:
                    return "into_compressed differs from the last view"
            elif op == 10:
                return None
    except (IndexError, ValueError):
        return "malformed output"
    return None


def oracle_C09(inp, out):
    """out-of-support symbol -> ImpossibleSymbol and the raw parts are those before the call."""
    if _bad(out):
        return "panic/abort/timeout"
    h = _Hist(inp)
    try:
        prev = None
        for op, args, res in walk(inp, out):
            if op == 1:
                e = h.insup(*args)
                if e is None:
                    if res[0] != -1:
                        return "impossible symbol not rejected"
                    if prev is not None and tuple(res[1:]) != prev:
                        return "failed encode changed the coder"
                prev = tuple(res[1:])
            elif op in (8, 15):
                prev = None
            elif op in (9, 10):
                break
    except (IndexError, ValueError):
        return "malformed output"
    return None


def oracle_C10(inp, out):
    """every decode is a symbol of the model's support or InvalidData; never a panic/abort/hang."""
    if _bad(out):
        return "panic/abort/timeout"
    h = _Hist(inp)
    try:
        for op, args, res in walk(inp, out):
            if op == 20:
                if res[0] == 0:
                    if h.insup(args, res[1]) is None:
                        return "decoded symbol %d outside the support" % res[1]
                elif res[0] != -6:
                    return "undocumented decode result %d" % res[0]
            elif op == 5:
                st = res[0]
                for j, m in enumerate(args):
                    if st[2 * j] == 0 and h.insup(m, st[2 * j + 1]) is None:
                        return "decoded symbol outside the support"
            elif op == 26:
                m, k = args
                n, items, _ = res
                if n != k:
                    return "decode_iid_symbols(%d) yielded %s%d items" % (k, "at least " if n > k else "", n)
                for j in range(n):
                    if items[2 * j] == 0:
                        if h.insup(m, items[2 * j + 1]) is None:
                            return "decoded symbol %d outside the support" % items[2 * j + 1]
                    elif items[2 * j] != -6:
                        return "undocumented decode result %d" % items[2 * j]
    except (IndexError, ValueError):
        return "malformed output"
    return None


def oracle_C12(inp, out):
    """at most one word per symbol (the position bulk.len() + num_inverted advances by <= 1), words <=
    symbols + 2, and the product form proved as C12_range_size on exact integers:
       B^words * (2^SB - 1) * prod(p_i * K_i) <= B^2 * 2^SB * prod(2^P_i * (K_i + 1)),  K_i = 2^(SB-WB-P_i)"""
    if _bad(out):
        return "panic/abort/timeout"
    h = _Hist(inp)
    try:
        prev_len = 0
        for op, args, res in walk(inp, out):
            if op == 1:
                e = h.insup(*args)
                if e is not None and res[0] == 0:
                    h.triples.append((h.ms[args[0]][0], e[0], e[1]))
                    if res[1] + res[3] > prev_len + 1:
                        return "more than one word per symbol"
                    prev_len = res[1] + res[3]
            elif (op == 8 and res == 0) or op == 15:
                return None
            elif op in (2, 9):
                n = len(h.triples)
                if len(res) > n + 2:
                    return "%d words for %d symbols" % (len(res), n)
                lhs = (1 << (h.wb * len(res))) * ((1 << h.sb) - 1)
                rhs = 1 << (h.sb + 2 * h.wb)
                for P, c, p in h.triples:
                    K = 1 << (h.sb - h.wb - P)
                    lhs *= p * K
                    rhs *= (1 << P) * (K + 1)
                if lhs > rhs:
                    return "size bound violated"
                if op == 9:
                    return None
            elif op == 10:
                return None
    except (IndexError, ValueError):
        return "malformed output"
    return None


def oracle_C18(inp, out):
    """num_words/num_bits == length of the view / export taken at the same moment; is_empty <=> no words;
    maybe_exhausted after the last symbol of an untouched stream; not exhausted while whole unread words
    remain."""
    if _bad(out):
        return "panic/abort/timeout"
    try:
        sizes = None
        wb, sb = inp[0], inp[1]
        nbuf, pos = None, None
        for op, args, res in walk(inp, out):
            if op == 3:
                sizes = res
                if res[1] != wb * res[0]:
                    return "num_bits != WordBits * num_words"
            elif op in (1, 8, 15):
                sizes = None
            elif op in (2, 9) and sizes is not None:
                if sizes[0] != len(res):
                    return "num_words %d but %d words exported" % (sizes[0], len(res))
                if (sizes[2] == 1) != (len(res) == 0):
                    return "is_empty %d but %d words exported" % (sizes[2], len(res))
            if op == 9:
                nbuf = len(res) + len(args)
                pos = min(nbuf, sb // wb)
            elif op == 10:
                nbuf = len(args)
                pos = min(nbuf, sb // wb)
            elif op == 20:
                pos = res[2]
            elif op == 26:
                pos = res[2][0]
            elif op == 23:
                pos = res[0]
            elif op in (22, 24, 25):
                pos = None
            elif op == 21 and nbuf is not None and pos is not None:
                if pos < nbuf and res != 0:
                    return "maybe_exhausted() with %d unread words" % (nbuf - pos)
    except (IndexError, ValueError):
        return "malformed output"
    return _oracle_roundtrip(inp, out, need_empty_suffix=True, check_exhausted=True)


ORACLES = {k: _scoped(v) for k, v in {
    "C02": oracle_C02, "C11": oracle_C11, "C06": oracle_C06, "C07": oracle_C07, "C08": oracle_C08,
    "C09": oracle_C09, "C10": oracle_C10, "C12": oracle_C12, "C18": oracle_C18}.items()}

# known: property=C11 class=range_seal_wide_state -- a predicate on the INPUT only
KNOWN_CLASSES = {"range_seal_wide_state": lambda inp: inp[1] > 2 * inp[0]}


def reached_inverted(inp, out):
    try:
        for op, args, res in walk(inp, out):
            if op == 1 and res[3] > 0:
                return True
            if op == 6 and res[1][2] > 0:
                return True
    except Exception:
        return False
    return False


def nontrivial(inp, out, prop=None):
    """C02 (and default): the encoder reached an Inverted situation at least once (words held back for a
    carry).  C11: additionally a non-empty suffix was appended and at least one symbol decoded.
    C10: a garbage stream with at least one decode."""
    try:
        if prop == "C10":
            return any(op == 10 for op, a, r in walk(inp, out)) and any(op == 20 for op, a, r in walk(inp, out))
        inv = reached_inverted(inp, out)
        if prop == "C11":
            sfx = any(op == 9 and len(a) > 0 for op, a, r in walk(inp, out))
            return sfx and any(op == 20 for op, a, r in walk(inp, out))
        return inv
    except Exception:
        return False


def describe(inp):
    ms, i = models_of(inp)
    ops = inp[i:]
    return "range W=%d S=%d PB=%d models=%d (P=%s) ops=%d ints" % (
        inp[0], inp[1], inp[2], len(ms), sorted({P for P, _ in ms}), len(ops))
