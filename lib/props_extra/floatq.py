"""property entries delivered by the floatq family (merged by tools/merge_shared.py)"""
PROPS = {
    "C03_float": dict(
        coq=["Props.C03_float"],
        fams=[("fam_floatq", "gen_valid", 260, 10000), ("fam_floatq", "gen_f9", 120, 5000)],
        anchors=["src/stream/model/categorical.rs", "src/stream/model/categorical/contiguous.rs",
                 "src/stream/model/categorical/lazy_contiguous.rs", "src/stream/model/categorical/non_contiguous.rs",
                 "src/stream/model/categorical/lookup_contiguous.rs",
                 "src/stream/model/categorical/lookup_noncontiguous.rs"],
        rule="a `_fast` float constructor returned Ok for a table of >= 2 weights (its symbol table was dumped and "
             "checked to tile [0, 2^PRECISION))",
        level_text="Machine-checked Coq theorems over Flocq's IEEE-754 formats, generic in (prec, emax) and "
                   "instantiated for binary32 and binary64: for every list of finite non-negative weights with "
                   "2 <= n < 2^P - 1, every normal positive normalisation (given or summed), every Probability "
                   "width and every PRECISION <= width (wrapping arithmetic at P = width included), "
                   "fast_quantized_cdf returns a strictly increasing cdf from 0 below 2^P without integer overflow, "
                   "hence an exactly invertible table (wf_table / wf_model); every stored probability is non-zero. "
                   "Tied to the source by a bit-exact differential check (real crate vs vm_compute of the model).",
        level_note="Trusted: Coq kernel + vm_compute; Flocq 4.1.0 with the standard-library axioms classic, "
                   "sig_forall_dec, sig_not_dec, functional_extensionality_dep (Reals); hand-written model "
                   "Model/FloatQ.v tied to categorical.rs by the sampled correspondence; rustc's IEEE-754 "
                   "arithmetic and saturating casts. The `_perfect` optimisation loop (libm log1p) is not modelled.",
        technique="Coq proof (monotonicity of IEEE rounding, saturating cast, cap) + model/implementation correspondence",
        design_ref="DESIGN.md section 4, C03 (fast_cdf_valid)",
    ),
    "C05_float": dict(
        coq=["Props.C05_float"],
        fams=[("fam_floatq", "gen_lazy", 220, 8000), ("fam_floatq", "gen_valid", 60, 8000)],
        anchors=["src/stream/model/categorical.rs", "src/stream/model/categorical/contiguous.rs",
                 "src/stream/model/categorical/lazy_contiguous.rs"],
        rule="eager and lazy constructor both returned Ok and >= 1 quantile was decoded with the lazy model",
        level_text="Machine-checked Coq theorems (generic float format, all widths and precisions): the lazy model's "
                   "left_cumulative_and_probability equals the eager table entry for every symbol (prefix sums "
                   "started from -0.0 vs +0.0 included, last symbol special case included); the lazy "
                   "quantile_function equals the eager table lookup for every quantile < 2^P (C05_lazy_dec_eq_eager; "
                   "Proofs/FloatQ_skip.v proves that the float-only skip-ahead loop with the (1+2eps)*scale bound "
                   "never passes the owner of the quantile, for every binary format with prec >= 3 and emax >= 66, "
                   "f32 and f64 included). Tied to the source by the bit-exact differential check.",
        level_note="Full for f32/f64 (the formats the crate instantiates). Also exercised by the correspondence and "
                   "the lazy-vs-eager oracle on every decoded quantile incl. full sweeps for P <= 12. Axioms: the "
                   "four Reals axioms via Flocq.",
        technique="Coq proof (same expression tree up to the sign of zero) + correspondence + lazy-vs-eager oracle",
        design_ref="DESIGN.md section 4, C05 (lazy_eq_eager)",
    ),
    "C19_float": dict(
        coq=["Props.C19_float"],
        fams=[("fam_floatq", "gen_malformed", 420, 15000), ("fam_floatq", "gen_valid", 80, 5000)],
        anchors=["src/stream/model/categorical.rs", "src/stream/model/categorical/contiguous.rs",
                 "src/stream/model/categorical/lazy_contiguous.rs", "src/stream/model/categorical/non_contiguous.rs",
                 "src/stream/model/categorical/lookup_contiguous.rs",
                 "src/stream/model/categorical/lookup_noncontiguous.rs"],
        rule="at least one float constructor returned Err(()) or panicked",
        level_text="Machine-checked Coq theorems: the eager and lazy `_fast` constructors return Err for every input "
                   "with a NaN, infinite or negative entry, with fewer than 2 or at least 2^P - 1 entries, or with a "
                   "normalisation (given or summed) that is not normal and positive; everything they accept yields "
                   "a valid model (C03); the `_perfect` constructors reject short / over-long input, negative "
                   "entries and non-normal sums, and whatever they return passed the fixed-point validator, which "
                   "only accepts exact tilings. Tied to the source by the differential check on a malformed stream.",
        level_note="The `_perfect` optimisation loop is a section variable (not modelled); its outcome class is "
                   "compared with the model's validation on the malformed stream (tested, not proved).",
        technique="Coq proof (case analysis on the validation) + correspondence on malformed inputs",
        design_ref="DESIGN.md section 4, C19 (float_ctor_rejects)",
    ),
}
