(* Proofs/Huffman_code.v -- the code words of a merge sequence.
   For every full binary tree [tree_ok n ms] (Huffman_build.v):
   the leaf-to-root walk over the encoder array and the root-to-leaf walk over
   the decoder array are inverse to each other; hence round trip, prefix
   freeness, rejection of foreign symbols, totality (no unchecked index is out
   of bounds, no walk runs out of fuel). *)
From CV Require Import Base.Bits Model.Huffman Proofs.Huffman_heap Proofs.Huffman_build.
From Coq Require Import Permutation.
Set Default Timeout 30.
Open Scope N_scope.

(* ------------------------------------------------------------ merge sequences *)
Lemma bounded_nth ms : forall next k a b,
  bounded next ms -> nthN ms k = Some (a, b) -> a < next + k /\ b < next + k /\ a <> b.
Proof.
  induction ms as [|[a0 b0] r IH]; intros next k a b Hb H.
  - unfold nthN in H. destruct (N.to_nat k); discriminate.
  - cbn in Hb. destruct Hb as (Ha & Hb0 & Hd & Hr).
    destruct (N.eq_dec k 0) as [->|Hk].
    + rewrite nthN_0 in H. inversion H; subst. lia.
    + replace k with ((k - 1) + 1) in H by lia. rewrite nthN_succ in H.
      destruct (IH _ _ _ _ Hr H) as (H1 & H2 & H3). lia.
Qed.

Lemma children_in ms : forall v, In v (children ms) ->
  exists k a b, nthN ms k = Some (a, b) /\ (v = a \/ v = b).
Proof.
  induction ms as [|[a0 b0] r IH]; intros v H; [contradiction|].
  cbn in H. destruct H as [<-|[<-|H]].
  - exists 0, a0, b0. split; [reflexivity|auto].
  - exists 0, a0, b0. split; [reflexivity|auto].
  - destruct (IH v H) as (k & a & b & Hk & Hv).
    exists (k + 1), a, b. rewrite nthN_succ. auto.
Qed.

Lemma nth_children ms k a b : nthN ms k = Some (a, b) -> In a (children ms) /\ In b (children ms).
Proof.
  intros H. apply nthN_in in H. unfold children. rewrite !in_flat_map.
  split; exists (a, b); cbn; auto.
Qed.

(* ------------------------------------------------------------ the encoder array *)
Lemma write_other ms : forall nodes next v,
  ~ In v (children ms) -> nthN (write_merges nodes next ms) v = nthN nodes v.
Proof.
  induction ms as [|[a b] r IH]; intros nodes next v H; [reflexivity|].
  cbn in H. cbn [write_merges]. rewrite IH by tauto.
  rewrite !nthN_updN_other by (intros ->; tauto). reflexivity.
Qed.

Lemma write_get ms : forall nodes next k a b,
  NoDup (children ms) -> Forall (fun c => c < N.of_nat (length nodes)) (children ms) ->
  nthN ms k = Some (a, b) ->
  nthN (write_merges nodes next ms) a = Some (2 * (next + k))
  /\ nthN (write_merges nodes next ms) b = Some (2 * (next + k) + 1).
Proof.
  induction ms as [|[a0 b0] r IH]; intros nodes next k a b ND Hlt H.
  - unfold nthN in H. destruct (N.to_nat k); discriminate.
  - cbn [children flat_map fst snd app] in ND, Hlt.
    change (flat_map (fun m => [fst m; snd m]) r) with (children r) in *.
    inversion ND as [|? ? Na ND1]; subst. inversion ND1 as [|? ? Nb ND2]; subst.
    inversion Hlt as [|? ? La Hlt1]; subst. inversion Hlt1 as [|? ? Lb Hlt2]; subst.
    cbn [write_merges].
    destruct (N.eq_dec k 0) as [->|Hk].
    + rewrite nthN_0 in H. inversion H; subst.
      rewrite !write_other by (cbn in Na; tauto).
      rewrite N.add_0_r. split.
      * rewrite nthN_updN_other by (intros ->; apply Na; left; reflexivity).
        apply nthN_updN_same. exact La.
      * apply nthN_updN_same. rewrite updN_length. exact Lb.
    + replace k with ((k - 1) + 1) in H by lia. rewrite nthN_succ in H.
      destruct (IH (updN (updN nodes a0 (2 * next)) b0 (2 * next + 1)) (next + 1) _ _ _ ND2
                   ltac:(rewrite !updN_length; exact Hlt2) H) as (H1 & H2).
      replace (next + 1 + (k - 1)) with (next + k) in * by lia. auto.
Qed.

Lemma node_decode p (bit : bool) : let node := 2 * p + (if bit then 1 else 0) in
  (node =? 0) = (p =? 0) && negb bit /\ shr node 1 = p /\ negb (N.land node 1 =? 0) = bit.
Proof.
  intros node. unfold node. repeat split.
  - destruct bit; cbn [negb andb].
    + rewrite andb_false_r. apply N.eqb_neq. lia.
    + rewrite andb_true_r, N.add_0_r. destruct (N.eqb_spec p 0); apply N.eqb_eq || apply N.eqb_neq; lia.
  - rewrite shr_div. change (2 ^ 1) with 2. destruct bit.
    + rewrite N.mul_comm, div_mul_add_small; lia.
    + rewrite N.add_0_r, N.mul_comm, N.div_mul; lia.
  - change 1 with (N.ones 1) at 2. rewrite N.land_ones. change (2 ^ 1) with 2.
    destruct bit.
    + rewrite N.mul_comm, mod_mul_add_small by lia. reflexivity.
    + rewrite N.add_0_r, N.mul_comm, N.mod_mul by lia. reflexivity.
Qed.


Section Code.
  Variable n : N.
  Variable ms : list (N * N).
  Hypothesis T : tree_ok n ms.
  Let nodes := enc_of_merges n ms.
  Let root := 2 * n - 2.

  Lemma n_pos : 1 <= n.
  Proof. exact (t_n _ _ T). Qed.

  Lemma ms_len : N.of_nat (length ms) = n - 1.
  Proof. exact (t_len _ _ T). Qed.

  Lemma nodes_len : N.of_nat (length nodes) = 2 * n - 1.
  Proof.
    unfold nodes, enc_of_merges. rewrite write_merges_length, repeat_length.
    pose proof n_pos. lia.
  Qed.

  Lemma children_nodup : NoDup (children ms).
  Proof.
    pose proof (t_perm _ _ T) as P.
    assert (NoDup (children ms ++ [2 * n - 2])) as ND.
    { eapply Permutation_NoDup; [symmetry; exact P|apply nseq_nodup]. }
    apply NoDup_remove_1 in ND. rewrite app_nil_r in ND. exact ND.
  Qed.

  Lemma children_lt v : In v (children ms) -> v < root.
  Proof.
    intros H. pose proof (t_perm _ _ T) as P. pose proof n_pos as Hn.
    assert (In v (nseq 0 (N.to_nat (2 * n - 1)))) as Hin.
    { eapply Permutation_in; [exact P|]. apply in_or_app. left. exact H. }
    apply in_nseq in Hin.
    assert (v <> 2 * n - 2).
    { intros ->.
      assert (NoDup (children ms ++ [2 * n - 2])) as ND.
      { eapply Permutation_NoDup; [symmetry; exact P|apply nseq_nodup]. }
      apply NoDup_remove_2 in ND. rewrite app_nil_r in ND. contradiction. }
    unfold root. lia.
  Qed.

  Lemma lt_root_child v : v < root -> In v (children ms).
  Proof.
    intros H. pose proof (t_perm _ _ T) as P. pose proof n_pos as Hn. unfold root in H.
    assert (In v (children ms ++ [2 * n - 2])) as Hin.
    { eapply Permutation_in; [symmetry; exact P|]. apply in_nseq. lia. }
    apply in_app_or in Hin. destruct Hin as [Hin|[E|[]]]; [exact Hin|lia].
  Qed.

  Lemma merge_bounds k a b : nthN ms k = Some (a, b) ->
    k < n - 1 /\ a < n + k /\ b < n + k /\ a <> b.
  Proof.
    intros H. split.
    - apply nthN_lt in H. rewrite ms_len in H. exact H.
    - exact (bounded_nth ms n k a b (t_bounded _ _ T) H).
  Qed.

  (* nodes[a_k] = (n+k) << 1, nodes[b_k] = (n+k) << 1 | 1, nodes[root] = 0 *)
  Lemma enc_child k a b : nthN ms k = Some (a, b) ->
    nthN nodes a = Some (2 * (n + k)) /\ nthN nodes b = Some (2 * (n + k) + 1).
  Proof.
    intros H. unfold nodes, enc_of_merges. apply write_get; [exact children_nodup| |exact H].
    apply Forall_forall. intros c Hc. apply children_lt in Hc. rewrite repeat_length.
    unfold root in Hc. lia.
  Qed.

  Lemma enc_root : nthN nodes root = Some 0.
  Proof.
    unfold nodes, enc_of_merges. rewrite write_other.
    - apply nthN_repeat. pose proof n_pos. unfold root. lia.
    - intros H. apply children_lt in H. lia.
  Qed.

  (* what one step of the leaf-to-root walk sees *)
  Lemma enc_node v : v <= root ->
    (v = root /\ nthN nodes v = Some 0)
    \/ (exists k a b (bit : bool), nthN ms k = Some (a, b) /\ v = (if bit then b else a)
          /\ nthN nodes v = Some (2 * (n + k) + (if bit then 1 else 0))).
  Proof.
    intros H. destruct (N.eq_dec v root) as [->|Hne].
    - left. split; [reflexivity|exact enc_root].
    - right. assert (v < root) as Hlt by lia.
      apply lt_root_child, children_in in Hlt. destruct Hlt as (k & a & b & Hk & Hv).
      destruct (enc_child _ _ _ Hk) as (Ha & Hb).
      destruct Hv as [->| ->].
      + exists k, a, b, false. rewrite N.add_0_r. auto.
      + exists k, a, b, true. auto.
  Qed.

  (* ---------- root-to-leaf steps *)
  Lemma dec_walk_leaf s src : s < n -> dec_walk ms n s src = Ok (s, src).
  Proof.
    intros H. apply N.ltb_lt in H. destruct src; cbn; rewrite H; reflexivity.
  Qed.

  Lemma dec_walk_inner k a b bit rest : nthN ms k = Some (a, b) ->
    dec_walk ms n (n + k) (bit :: rest) = dec_walk ms n (if bit then b else a) rest.
  Proof.
    intros H. cbn [dec_walk].
    assert (n + k <? n = false) as -> by (apply N.ltb_ge; lia).
    replace (n + k - n) with k by lia. unfold get_chk. rewrite H. cbn.
    destruct bit; reflexivity.
  Qed.

  (* ---------- the two walks are inverse *)
  Lemma walk_up_down fuel : forall v bits, v <= root ->
    enc_walk fuel nodes v = Ok bits ->
    forall rest, dec_walk ms n root (rev bits ++ rest) = dec_walk ms n v rest.
  Proof.
    induction fuel as [|f IH]; intros v bits Hv H rest; [discriminate|].
    cbn [enc_walk] in H. unfold get_chk in H.
    destruct (enc_node v Hv) as [[-> Hr]|(k & a & b & bit & Hk & Hvb & Hn)].
    - rewrite Hr in H. cbn [rbind] in H. rewrite N.eqb_refl in H. inversion H; subst. reflexivity.
    - rewrite Hn in H. cbn [rbind] in H.
      destruct (node_decode (n + k) bit) as (Hz & Hs & Hb).
      rewrite Hz, Hs, Hb in H.
      assert (n + k =? 0 = false) as E0 by (apply N.eqb_neq; pose proof n_pos; lia).
      rewrite E0 in H. cbn [andb] in H.
      destruct (enc_walk f nodes (n + k)) as [up|] eqn:Eu; cbn in H; [|discriminate].
      inversion H; subst bits. clear H.
      destruct (merge_bounds _ _ _ Hk) as (Hkn & _).
      cbn [rev]. rewrite <- app_assoc. cbn [app].
      rewrite (IH (n + k) up ltac:(unfold root; lia) Eu (bit :: rest)).
      rewrite (dec_walk_inner _ _ _ _ _ Hk). subst v. reflexivity.
  Qed.

  (* ---------- totality of the leaf-to-root walk: every get_unchecked index is
     in bounds and the loop ends at the root within length(nodes) steps *)
  Lemma walk_up_total fuel : forall v, v <= root -> (N.to_nat (root - v) < fuel)%nat ->
    exists bits, enc_walk fuel nodes v = Ok bits.
  Proof.
    induction fuel as [|f IH]; intros v Hv Hf; [lia|].
    cbn [enc_walk]. unfold get_chk.
    destruct (enc_node v Hv) as [[-> Hr]|(k & a & b & bit & Hk & Hvb & Hn)].
    - rewrite Hr. cbn [rbind]. rewrite N.eqb_refl. eauto.
    - rewrite Hn. cbn [rbind].
      destruct (node_decode (n + k) bit) as (Hz & Hs & Hb).
      rewrite Hz, Hs, Hb.
      assert (n + k =? 0 = false) as -> by (apply N.eqb_neq; pose proof n_pos; lia).
      cbn [andb].
      destruct (merge_bounds _ _ _ Hk) as (Hkn & Ha & Hbb & _).
      assert (v < n + k) as Hlt by (subst v; destruct bit; assumption).
      destruct (IH (n + k)) as (up & ->); [unfold root; lia|unfold root in *; lia|].
      cbn. eauto.
  Qed.

  (* ---------- EncoderCodebook *)
  Theorem suffix_total s : s < n -> exists bits, enc_suffix nodes s = Ok bits.
  Proof.
    intros H. unfold enc_suffix. pose proof nodes_len as L. pose proof n_pos as Hn.
    assert (N.of_nat (length nodes) / 2 = n - 1) as E.
    { rewrite L. replace (2 * n - 1) with ((n - 1) * 2 + 1) by lia.
      apply div_mul_add_small. lia. }
    rewrite E. assert (n - 1 <? s = false) as -> by (apply N.ltb_ge; lia).
    apply walk_up_total; unfold root; lia.
  Qed.

  Theorem suffix_reject s : n <= s -> enc_suffix nodes s = Err E_Impossible.
  Proof.
    intros H. unfold enc_suffix. pose proof nodes_len as L. pose proof n_pos as Hn.
    assert (N.of_nat (length nodes) / 2 = n - 1) as E.
    { rewrite L. replace (2 * n - 1) with ((n - 1) * 2 + 1) by lia.
      apply div_mul_add_small. lia. }
    rewrite E. assert (n - 1 <? s = true) as -> by (apply N.ltb_lt; lia). reflexivity.
  Qed.

  Lemma suffix_ok_lt s bits : enc_suffix nodes s = Ok bits -> s < n.
  Proof.
    intros H. destruct (N.lt_ge_cases s n) as [L|L]; [exact L|].
    rewrite (suffix_reject s L) in H. discriminate.
  Qed.

  Lemma bitstack_rev bits : forall st, fold_left bitstack_write bits st = rev bits ++ st.
  Proof.
    induction bits as [|b r IH]; intros st; cbn; [reflexivity|].
    rewrite IH, <- app_assoc. reflexivity.
  Qed.

  (* prefix form = reverse of suffix form (default method through SmallBitStack) *)
  Theorem prefix_is_rev_suffix s :
    enc_prefix nodes s = (bits <- enc_suffix nodes s ;; Ok (rev bits)).
  Proof.
    unfold enc_prefix, bitstack_drain. destruct (enc_suffix nodes s); cbn; [|reflexivity].
    rewrite bitstack_rev, app_nil_r. reflexivity.
  Qed.

  Theorem prefix_reject s : n <= s -> enc_prefix nodes s = Err E_Impossible.
  Proof. intros H. rewrite prefix_is_rev_suffix, (suffix_reject s H). reflexivity. Qed.

  Theorem prefix_total s : s < n -> exists bits, enc_prefix nodes s = Ok bits.
  Proof.
    intros H. destruct (suffix_total s H) as (bits & E).
    rewrite prefix_is_rev_suffix, E. cbn. eauto.
  Qed.

  (* ---------- DecoderCodebook *)
  Lemma dec_symbol_walk src : dec_symbol ms src = dec_walk ms n root src.
  Proof.
    unfold dec_symbol. rewrite ms_len. pose proof n_pos.
    replace (n - 1 + 1) with n by lia. replace (2 * (n - 1)) with root by (unfold root; lia).
    reflexivity.
  Qed.

  (* decode (prefix codeword of s, followed by anything) = s, rest untouched *)
  Theorem roundtrip_prefix s bits rest :
    enc_prefix nodes s = Ok bits -> dec_symbol ms (bits ++ rest) = Ok (s, rest).
  Proof.
    rewrite prefix_is_rev_suffix. destruct (enc_suffix nodes s) as [suf|] eqn:E; cbn; [|discriminate].
    intros H. inversion H; subst bits. clear H.
    pose proof (suffix_ok_lt _ _ E) as Hs.
    unfold enc_suffix in E. destruct (_ <? s); [discriminate|].
    rewrite dec_symbol_walk.
    rewrite (walk_up_down _ s suf ltac:(unfold root; lia) E rest).
    apply dec_walk_leaf. exact Hs.
  Qed.

  (* stack coder: the suffix form is written bit by bit (push), reading pops *)
  Theorem roundtrip_suffix_stack s bits stack :
    enc_suffix nodes s = Ok bits ->
    dec_symbol ms (fold_left bitstack_write bits stack) = Ok (s, stack).
  Proof.
    intros E. rewrite bitstack_rev. apply roundtrip_prefix.
    rewrite prefix_is_rev_suffix, E. reflexivity.
  Qed.

  (* no codeword is a prefix of another one; distinct symbols, distinct codewords *)
  Theorem prefix_free s s' c c' r :
    enc_prefix nodes s = Ok c -> enc_prefix nodes s' = Ok c' -> c' = c ++ r -> s = s' /\ r = [].
  Proof.
    intros H H' E.
    pose proof (roundtrip_prefix s c r H) as D. pose proof (roundtrip_prefix s' c' [] H') as D'.
    rewrite app_nil_r, E, D in D'. inversion D'; auto.
  Qed.

  Corollary suffix_free s s' c c' r :
    enc_suffix nodes s = Ok c -> enc_suffix nodes s' = Ok c' -> c' = r ++ c -> s = s' /\ r = [].
  Proof.
    intros H H' E.
    assert (enc_prefix nodes s = Ok (rev c)) as P by (rewrite prefix_is_rev_suffix, H; reflexivity).
    assert (enc_prefix nodes s' = Ok (rev c')) as P' by (rewrite prefix_is_rev_suffix, H'; reflexivity).
    destruct (prefix_free s s' (rev c) (rev c') (rev r) P P') as (-> & Hr).
    - subst c'. apply rev_app_distr.
    - split; [reflexivity|]. destruct r; [reflexivity|]. cbn in Hr. destruct (rev r); discriminate.
  Qed.

  (* decoding ANY bit sequence: no unchecked index is out of bounds, the result is
     a symbol of the alphabet or "out of compressed data" *)
  Lemma dec_walk_total src : forall v, v <= root ->
    (exists s rest, dec_walk ms n v src = Ok (s, rest) /\ s < n)
    \/ dec_walk ms n v src = Err E_OutOfData.
  Proof.
    induction src as [|bit rest IH]; intros v Hv; cbn [dec_walk].
    - destruct (v <? n) eqn:E; [left|right; reflexivity].
      apply N.ltb_lt in E. eauto.
    - destruct (v <? n) eqn:E.
      + left. apply N.ltb_lt in E. eauto.
      + apply N.ltb_ge in E.
        assert (v - n < N.of_nat (length ms)) as Hk by (rewrite ms_len; pose proof n_pos; unfold root in Hv; lia).
        destruct (nthN_some ms (v - n) Hk) as ([a b] & Hab).
        unfold get_chk. rewrite Hab. cbn [rbind fst snd].
        destruct (merge_bounds _ _ _ Hab) as (_ & Ha & Hb & _).
        apply IH. destruct bit; lia.
  Qed.

  Theorem dec_symbol_total src :
    (exists s rest, dec_symbol ms src = Ok (s, rest) /\ s < n)
    \/ dec_symbol ms src = Err E_OutOfData.
  Proof. rewrite dec_symbol_walk. apply dec_walk_total. lia. Qed.

  Lemma enc_num_symbols_n : enc_num_symbols nodes = n.
  Proof.
    unfold enc_num_symbols. pose proof nodes_len as L. pose proof n_pos as Hn.
    rewrite L. replace (2 * n - 1) with ((n - 1) * 2 + 1) by lia.
    rewrite div_mul_add_small by lia. lia.
  Qed.

  Lemma dec_num_symbols_n : dec_num_symbols ms = n.
  Proof. unfold dec_num_symbols. rewrite ms_len. pose proof n_pos. lia. Qed.
End Code.
