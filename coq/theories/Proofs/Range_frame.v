(* Proofs/Range_frame.v -- RangeEncoder::with_backend on a sink that already holds words:
   encoding and sealing only ever append, so the result is the old contents followed by
   exactly the words a fresh encoder produces (C11, "started on a sink that already holds data"). *)
From CV Require Import Base.Bits Model.EModel Model.Range Model.RangeSpec.
From CV Require Import Proofs.Range_base Proofs.Range_spec Proofs.Range_roundtrip.
Open Scope N_scope.
Set Default Timeout 30.

(* the encoder [e] sitting on top of older words [pre] (last written first, like e_bulk) *)
Definition on_top (pre : list N) (e : renc) : renc :=
  {| e_bulk := e_bulk e ++ pre; e_lower := e_lower e; e_range := e_range e; e_sit := e_sit e |}.

Definition res_map {A B} (f : A -> B) (r : rres A) : rres B :=
  match r with
  | ROk a => ROk (f a)
  | RErrImpossible => RErrImpossible
  | RErrInvalidData => RErrInvalidData
  | RPanic x => RPanic x
  end.

Lemma flush_held_app f x n b pre : flush_held f x n (b ++ pre) = flush_held f x n b ++ pre.
Proof. unfold flush_held. rewrite <- app_assoc. reflexivity. Qed.

Lemma part1_frame c pre e nl r1 :
  renc_part1 c (on_top pre e) nl r1 =
  res_map (fun bs => (fst bs ++ pre, snd bs)) (renc_part1 c e nl r1).
Proof.
  unfold renc_part1, on_top. cbn [e_sit e_bulk e_lower].
  destruct (e_sit e) as [|n w]; [reflexivity|].
  destruct (nl <? wadd (rSB c) nl r1); [|reflexivity].
  destruct (nl <? e_lower e).
  - destruct (2 ^ rWB c <=? w + 1); [reflexivity|]. cbn [res_map fst snd]. rewrite flush_held_app. reflexivity.
  - cbn [res_map fst snd]. rewrite flush_held_app. reflexivity.
Qed.

Lemma part2_frame c pre b1 sit1 nl r1 :
  renc_part2 c (b1 ++ pre) sit1 nl r1 = res_map (on_top pre) (renc_part2 c b1 sit1 nl r1).
Proof.
  unfold renc_part2, on_top.
  destruct (r1 <? rthr c); [|reflexivity].
  destruct sit1 as [|n w].
  - destruct (shl (rSB c) nl (rWB c) <? wadd (rSB c) (shl (rSB c) nl (rWB c)) (shl (rSB c) r1 (rWB c))); reflexivity.
  - destruct (trunc USZ (n + 1) =? 0); reflexivity.
Qed.

Lemma encode_frame c P cum p pre e :
  renc_encode c P cum p (on_top pre e) = res_map (on_top pre) (renc_encode c P cum p e).
Proof.
  unfold renc_encode. cbn [on_top e_range e_lower].
  destruct (2 ^ rSB c <=? shr (e_range e) P * p); [reflexivity|].
  destruct (shr (e_range e) P * p =? 0); [reflexivity|].
  destruct (2 ^ rSB c <=? shr (e_range e) P * cum); [reflexivity|].
  rewrite part1_frame.
  destruct (renc_part1 c e (wadd (rSB c) (e_lower e) (shr (e_range e) P * cum)) (shr (e_range e) P * p))
    as [[b1 sit1]| | |]; cbn [res_map fst snd]; try reflexivity.
  apply part2_frame.
Qed.

Lemma encode_all_frame c pre l : forall e,
  renc_encode_all c l (on_top pre e) = res_map (on_top pre) (renc_encode_all c l e).
Proof.
  induction l as [|[m x] r IH]; intros e; [reflexivity|].
  cbn [renc_encode_all]. unfold renc_encode_sym.
  destruct (em_enc m x) as [[cum p]|]; [|reflexivity].
  rewrite encode_frame.
  destruct (renc_encode c (em_prec m) cum p e); cbn [res_map]; try reflexivity.
  apply IH.
Qed.

Lemma seal_frame c pre e :
  renc_seal c (on_top pre e) = res_map (fun b => b ++ pre) (renc_seal c e).
Proof.
  unfold renc_seal, seal_point_word, seal_upper_word, seal_point, on_top.
  cbn [e_range e_lower e_sit e_bulk].
  destruct (e_range e =? smax c); [reflexivity|].
  destruct (e_sit e) as [|n w].
  - destruct (trunc (rWB c) (shr (wadd (rSB c) (e_lower e) (e_range e)) (rSB c - rWB c)) =?
              trunc (rWB c) (shr (wadd (rSB c) (e_lower e) (rthr c - 1)) (rSB c - rWB c))); reflexivity.
  - destruct (wadd (rSB c) (e_lower e) (rthr c - 1) <? e_lower e).
    + destruct (2 ^ rWB c <=? w + 1); [reflexivity|]. rewrite flush_held_app.
      destruct (trunc (rWB c) (shr (wadd (rSB c) (e_lower e) (e_range e)) (rSB c - rWB c)) =?
                trunc (rWB c) (shr (wadd (rSB c) (e_lower e) (rthr c - 1)) (rSB c - rWB c))); reflexivity.
    + rewrite flush_held_app.
      destruct (trunc (rWB c) (shr (wadd (rSB c) (e_lower e) (e_range e)) (rSB c - rWB c)) =?
                trunc (rWB c) (shr (wadd (rSB c) (e_lower e) (rthr c - 1)) (rSB c - rWB c))); reflexivity.
Qed.

(* RangeEncoder::with_backend(old) ; encode msg ; into_compressed  =  old ++ (fresh encoder's words) *)
Theorem with_backend_appends c old msg ws :
  range_compress c msg = ROk ws ->
  match renc_encode_all c msg (on_top (rev old) (renc_new c)) with
  | ROk e => renc_into_compressed c e = ROk (old ++ ws)
  | _ => False
  end.
Proof.
  unfold range_compress. rewrite encode_all_frame.
  destruct (renc_encode_all c msg (renc_new c)) as [e| | |]; try discriminate.
  cbn [res_map]. unfold renc_into_compressed. rewrite seal_frame.
  destruct (renc_seal c e) as [b| | |]; try discriminate.
  cbn [res_map]. intros E. inversion E. rewrite rev_app_distr, rev_involutive. reflexivity.
Qed.

(* an encoder started on a sink holding [old], then a decoder started right behind [old]:
   the message comes back (State = 2 * Word: whatever follows) *)
Theorem with_backend_roundtrip c old msg sfx :
  wf_rcfg c -> rSB c = 2 * rWB c -> msg_ok c msg -> N.of_nat (length msg) < 2 ^ USZ ->
  text_ok (rWB c) sfx ->
  exists e all d',
    renc_encode_all c msg (on_top (rev old) (renc_new c)) = ROk e /\
    renc_into_compressed c e = ROk all /\ firstn (length old) all = old /\
    rdec_decode_all c (msg_models msg) (rdec_from_compressed c (skipn (length old) (all ++ sfx)))
      = ROk (msg_symbols msg, d').
Proof.
  intros Hc E Hm Hl Hs.
  destruct (range_suffix_two_word_state c msg sfx Hc E Hm Hl Hs) as (ws & d' & Ec & Ed).
  pose proof (with_backend_appends c old msg ws Ec) as H.
  destruct (renc_encode_all c msg (on_top (rev old) (renc_new c))) as [e| | |]; try contradiction.
  exists e, (old ++ ws), d'. split; [reflexivity|]. split; [assumption|].
  split.
  - rewrite firstn_app, firstn_all, Nat.sub_diag. cbn [firstn]. apply app_nil_r.
  - rewrite <- app_assoc, skipn_length_app. exact Ed.
Qed.
