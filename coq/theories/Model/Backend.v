(* Model/Backend.v -- word sources and sinks of src/backends.rs (C17, cursor part of C20).
   Definitions ONLY.  Written from the Rust source as it is (after the fix commit 4484a81 for
   Reverse<Cursor>::space_left).

   Conventions
   * words are [N]; the model never inspects a word, so it is independent of the word width;
   * positions, lengths and counts are [nat] (Rust [usize]);
   * a Rust [Vec<Word>] is a [list N] in index order: index 0 is the head of the list, the top of
     the stack ([push]/[pop]) is the END of the list;
   * every operation returns an explicit result and the new state;
   * every unchecked indexing site ([get_unchecked], [get_unchecked_mut]) is a CHECKED access in
     the model which returns a distinct [UB_*] fault when the index is out of bounds;
   * every plain [usize] subtraction is a checked subtraction returning an [OVF_*] fault (debug
     builds panic, release builds wrap);  [pos += 1] cannot overflow because it is only executed
     when [pos < len <= isize::MAX]. *)
From CV Require Export Base.Bits.
Open Scope nat_scope.

(* ------------------------------------------------------------------ results *)

(* [Semantics] marker types *)
Inductive sem := Stack | Queue.
Definition flip_sem (s : sem) : sem := match s with Stack => Queue | Queue => Stack end.

Inductive fault :=
| UB_cursor_stack_read        (* backends.rs:1478  get_unchecked(self.pos) after pos -= 1      *)
| UB_rev_cursor_write         (* backends.rs:1423  get_unchecked_mut(self.0.pos) after pos -= 1 *)
| OVF_cursor_space_left       (* backends.rs:1406  buf.len() - pos                             *)
| OVF_cursor_remaining_queue  (* backends.rs:1517  buf.len() - pos                             *)
| OVF_into_reversed.          (* backends.rs:1365  buf.len() - pos                             *)

(* Result<Option<Word>, ReadError> *)
Inductive rres :=
| RSome (w : N)               (* Ok(Some(word)) *)
| RSomeErr (e : Z)            (* Ok(Some(Err(e))): only InfallibleIteratorReadWords, whose [new]
                                 demands an iterator over Result items and whose "Word" is then
                                 that Result (backends.rs:1702-1711 vs 1724-1735) *)
| RNone                       (* Ok(None): end of data *)
| RErr (e : Z)                (* Err(e): only FallibleIteratorReadWords *)
| RFault (f : fault).

(* Result<(), WriteError> *)
Inductive wres :=
| WOk
| WOutOfSpace                 (* Err(BoundedWriteError::OutOfSpace) *)
| WErr (e : Z)                (* Err(e) from a fallible callback *)
| WFault (f : fault).

(* Result<(), ()> of Seek::seek and of Cursor::new_at_pos *)
Inductive sres := SOk | SErr.

(* usize-valued queries *)
Inductive qres := QVal (n : nat) | QFault (f : fault).

Definition checked_sub (f : fault) (a b : nat) : qres :=
  if b <=? a then QVal (a - b) else QFault f.

(* ------------------------------------------------------------------ Vec / SmallVec *)
(* backends.rs:448-533 (Vec) and 537-640 (SmallVec; the same text with [SmallVec] for [Vec]) *)

Definition vec := list N.

Definition vec_write (w : N) (v : vec) : wres * vec := (WOk, v ++ [w]).           (* push *)
Definition vec_extend (ws : list N) (v : vec) : wres * vec := (WOk, v ++ ws).      (* extend *)
Definition vec_maybe_full (v : vec) : bool := false.

Definition vec_read (v : vec) : rres * vec :=                                       (* pop *)
  match v with
  | [] => (RNone, [])
  | _ :: _ => (RSome (last v 0%N), removelast v)
  end.
Definition vec_maybe_exhausted (v : vec) : bool :=                                  (* is_empty *)
  match v with [] => true | _ => false end.
Definition vec_remaining (v : vec) : nat := length v.
Definition vec_pos (v : vec) : nat := length v.
Definition vec_seek (p : nat) (v : vec) : sres * vec :=
  if p <=? length v then (SOk, firstn p v) (* truncate(pos) *) else (SErr, v).

(* ------------------------------------------------------------------ Cursor *)
(* backends.rs:1039-1051 *)
Record cursor := { buf : list N; pos : nat }.

(* the invariant documented at the field [pos] *)
Definition cursor_inv (c : cursor) : Prop := pos c <= length (buf c).

Definition with_pos (c : cursor) (p : nat) : cursor := {| buf := buf c; pos := p |}.

Definition cursor_new_at_write_beginning (b : list N) : cursor := {| buf := b; pos := 0 |}.
Definition cursor_new_at_write_end (b : list N) : cursor := {| buf := b; pos := length b |}.
(* also new_at_pos_mut: the same test on as_mut().len() *)
Definition cursor_new_at_pos (b : list N) (p : nat) : option cursor :=
  if length b <? p then None else Some {| buf := b; pos := p |}.

(* IntoReadWords / AsReadWords / IntoSeekReadWords / AsSeekReadWords for every buffer,
   backends.rs:1546-1600: Stack semantics start at the write end, Queue semantics at the beginning *)
Definition into_read_words (s : sem) (b : list N) : cursor :=
  match s with Stack => cursor_new_at_write_end b | Queue => cursor_new_at_write_beginning b end.

(* [slice[i] = w] for an index known to be in bounds; out of bounds leaves the list alone
   (callers test the bound first) *)
Fixpoint list_set (i : nat) (w : N) (l : list N) : list N :=
  match l, i with
  | [], _ => []
  | _ :: r, O => w :: r
  | x :: r, S i' => x :: list_set i' w r
  end.

(* WriteWords for Cursor, backends.rs:1388-1401: get_mut(pos) is a checked access *)
Definition cursor_write (w : N) (c : cursor) : wres * cursor :=
  if pos c <? length (buf c)
  then (WOk, {| buf := list_set (pos c) w (buf c); pos := S (pos c) |})
  else (WOutOfSpace, c).

(* BoundedWriteWords for Cursor, backends.rs:1403-1408 *)
Definition cursor_space_left (c : cursor) : qres :=
  checked_sub OVF_cursor_space_left (length (buf c)) (pos c).

(* ReadWords<Word, Stack> for Cursor, backends.rs:1465-1487 *)
Definition cursor_read_stack (c : cursor) : rres * cursor :=
  match pos c with
  | O => (RNone, c)
  | S p =>
      match nth_error (buf c) p with          (* get_unchecked(pos), modelled as checked *)
      | Some w => (RSome w, with_pos c p)
      | None => (RFault UB_cursor_stack_read, with_pos c p)
      end
  end.

(* ReadWords<Word, Queue> for Cursor, backends.rs:1489-1505: get(pos) is a checked access *)
Definition cursor_read_queue (c : cursor) : rres * cursor :=
  match nth_error (buf c) (pos c) with
  | Some w => (RSome w, with_pos c (S (pos c)))
  | None => (RNone, c)
  end.

(* BoundedReadWords, backends.rs:1507-1519 *)
Definition cursor_remaining_stack (c : cursor) : qres := QVal (pos c).
Definition cursor_remaining_queue (c : cursor) : qres :=
  checked_sub OVF_cursor_remaining_queue (length (buf c)) (pos c).

(* Pos / Seek, backends.rs:1525-1544 *)
Definition cursor_pos (c : cursor) : nat := pos c.
Definition cursor_seek (p : nat) (c : cursor) : sres * cursor :=
  if length (buf c) <? p then (SErr, c) else (SOk, with_pos c p).

(* Cursor::into_reversed, backends.rs:1360-1367 (the [Reverse] wrapper is added by the caller);
   also the body of Reverse<Cursor>::into_reversed, backends.rs:1379-1385 *)
Definition cursor_reverse_in_place (c : cursor) : qres * cursor :=
  let b := rev (buf c) in
  match checked_sub OVF_into_reversed (length b) (pos c) with
  | QVal p => (QVal p, {| buf := b; pos := p |})
  | QFault f => (QFault f, {| buf := b; pos := pos c |})
  end.

(* WriteWords for Reverse<Cursor>, backends.rs:1410-1428 *)
Definition rcursor_write (w : N) (c : cursor) : wres * cursor :=
  match pos c with
  | O => (WOutOfSpace, c)
  | S p =>
      if p <? length (buf c)                  (* get_unchecked_mut(pos), modelled as checked *)
      then (WOk, {| buf := list_set p w (buf c); pos := p |})
      else (WFault UB_rev_cursor_write, with_pos c p)
  end.

(* BoundedWriteWords for Reverse<Cursor>, backends.rs:1430-1437 (after fix 4484a81) *)
Definition rcursor_space_left (c : cursor) : qres := QVal (pos c).

(* ------------------------------------------------------------------ iterator adapters *)
(* The wrapped iterator is the environment: an arbitrary, not necessarily fused iterator whose
   behaviour is a finite script of [next()] results followed by [None] forever.  [Some (IOk w)]
   is [Some(Ok(w))], [Some (IErr e)] is [Some(Err(e))], [None] is a [None] after which the
   iterator may yield items again. *)
Inductive item := IOk (w : N) | IErr (e : Z).
Definition script := list (option item).

Definition script_next (s : script) : option item * script :=
  match s with [] => (None, []) | x :: r => (x, r) end.

(* ExactSizeIterator::len of the scripted iterator: the items before its next [None] *)
Fixpoint script_len (s : script) : nat :=
  match s with Some _ :: r => S (script_len r) | _ => 0 end.

(* core::iter::Fuse<I> = { iter: Option<I> } for an iterator that is not FusedIterator: the first
   [None] clears the option (the "fused flag" is [f_iter = None]) *)
Record fuse := { f_iter : option script }.
Definition fuse_new (s : script) : fuse := {| f_iter := Some s |}.
Definition fuse_next (f : fuse) : option item * fuse :=
  match f_iter f with
  | None => (None, f)
  | Some s =>
      match script_next s with
      | (None, _) => (None, {| f_iter := None |})
      | (Some x, s') => (Some x, {| f_iter := Some s' |})
      end
  end.
(* size_hint / len of Fuse *)
Definition fuse_len (f : fuse) : nat :=
  match f_iter f with None => 0 | Some s => script_len s end.

(* FallibleIteratorReadWords::read = inner.next().transpose(), backends.rs:1651-1663 *)
Definition fallible_iter_read (f : fuse) : rres * fuse :=
  let '(o, f') := fuse_next f in
  (match o with None => RNone | Some (IOk w) => RSome w | Some (IErr e) => RErr e end, f').

(* InfallibleIteratorReadWords::read = Ok(inner.next()), backends.rs:1724-1735 *)
Definition infallible_iter_read (f : fuse) : rres * fuse :=
  let '(o, f') := fuse_next f in
  (match o with None => RNone | Some (IOk w) => RSome w | Some (IErr e) => RSomeErr e end, f').

(* BoundedReadWords for both adapters: inner.len(), backends.rs:1665-1675, 1737-1747 *)
Definition iter_remaining (f : fuse) : nat := fuse_len f.

(* what [into_iter()] still yields (used to dump the state) *)
Fixpoint script_prefix (s : script) : list item :=
  match s with Some x :: r => x :: script_prefix r | _ => [] end.
Definition fuse_rest (f : fuse) : list item :=
  match f_iter f with None => [] | Some s => script_prefix s end.

(* how the two adapters present an item of the wrapped iterator *)
Definition rres_of_item_fallible (x : item) : rres := match x with IOk w => RSome w | IErr e => RErr e end.
Definition rres_of_item_infallible (x : item) : rres := match x with IOk w => RSome w | IErr e => RSomeErr e end.

(* ------------------------------------------------------------------ callback adapters *)
(* The callback is the environment: it records every word it is called with and answers with the
   next entry of a script (0 = Ok(()), e <> 0 = Err(e)); Ok forever after the script. *)
Record callback := { cb_log : list N; cb_script : list Z }.
Definition cb_call (w : N) (cb : callback) : Z * callback :=
  match cb_script cb with
  | [] => (0%Z, {| cb_log := cb_log cb ++ [w]; cb_script := [] |})
  | e :: r => (e, {| cb_log := cb_log cb ++ [w]; cb_script := r |})
  end.

(* FallibleCallbackWriteWords::write, backends.rs:1776-1786 *)
Definition fallible_cb_write (w : N) (cb : callback) : wres * callback :=
  let '(e, cb') := cb_call w cb in ((if Z.eqb e 0 then WOk else WErr e), cb').
(* InfallibleCallbackWriteWords::write, backends.rs:1813-1823: the callback returns () *)
Definition infallible_cb_write (w : N) (cb : callback) : wres * callback :=
  (WOk, {| cb_log := cb_log cb ++ [w]; cb_script := cb_script cb |}).

(* ------------------------------------------------------------------ the provided backends as one type *)
(* which trait impls exist is part of the model: an operation the type does not implement is
   [None] at this level *)

Inductive bufkind := BufVec | BufSlice | BufMutSlice | BufBox.
(* Buf: AsMut<[Word]> ? *)
Definition buf_mutable (k : bufkind) : bool := match k with BufSlice => false | _ => true end.

Inductive backend :=
| BVec (v : vec)
| BSmallVec (v : vec)
| BCursor (k : bufkind) (c : cursor)
| BRev (b : backend)                          (* Reverse<B>, backends.rs:785 *)
| BFallIter (f : fuse)
| BInfIter (f : fuse)
| BFallCb (cb : callback)
| BInfCb (cb : callback).

Definition map_snd {A B C} (g : B -> C) (x : A * B) : A * C := (fst x, g (snd x)).
Definition omap {A B} (g : A -> B) (o : option A) : option B :=
  match o with Some a => Some (g a) | None => None end.

(* ReadWords<Word, s>::read *)
Fixpoint bk_read (s : sem) (b : backend) : option (rres * backend) :=
  match b with
  | BVec v => match s with Stack => Some (map_snd BVec (vec_read v)) | Queue => None end
  | BSmallVec v => match s with Stack => Some (map_snd BSmallVec (vec_read v)) | Queue => None end
  | BCursor k c =>
      Some (map_snd (BCursor k) (match s with Stack => cursor_read_stack c | Queue => cursor_read_queue c end))
  | BRev b' => omap (map_snd BRev) (bk_read (flip_sem s) b')      (* backends.rs:787-813 *)
  | BFallIter f => Some (map_snd BFallIter (fallible_iter_read f))
  | BInfIter f => Some (map_snd BInfIter (infallible_iter_read f))
  | BFallCb _ | BInfCb _ => None
  end.

(* WriteWords<Word>::write *)
Definition bk_write (w : N) (b : backend) : option (wres * backend) :=
  match b with
  | BVec v => Some (map_snd BVec (vec_write w v))
  | BSmallVec v => Some (map_snd BSmallVec (vec_write w v))
  | BCursor k c => if buf_mutable k then Some (map_snd (BCursor k) (cursor_write w c)) else None
  | BRev (BCursor k c) =>
      if buf_mutable k then Some (map_snd (fun c' => BRev (BCursor k c')) (rcursor_write w c)) else None
  | BRev _ => None
  | BFallIter _ | BInfIter _ => None
  | BFallCb cb => Some (map_snd BFallCb (fallible_cb_write w cb))
  | BInfCb cb => Some (map_snd BInfCb (infallible_cb_write w cb))
  end.

(* WriteWords::extend_from_iter: Vec/SmallVec override it with [extend]; everything else uses the
   provided loop [for word in iter { self.write(word)?; }], backends.rs:276-284 *)
Fixpoint bk_write_loop (ws : list N) (b : backend) : option (wres * backend) :=
  match ws with
  | [] => match bk_write 0%N b with Some _ => Some (WOk, b) | None => None end
  | w :: r =>
      match bk_write w b with
      | Some (WOk, b') => bk_write_loop r b'
      | Some (e, b') => Some (e, b')
      | None => None
      end
  end.
Definition bk_extend (ws : list N) (b : backend) : option (wres * backend) :=
  match b with
  | BVec v => Some (map_snd BVec (vec_extend ws v))
  | BSmallVec v => Some (map_snd BSmallVec (vec_extend ws v))
  | _ => bk_write_loop ws b
  end.

(* BoundedReadWords<Word, s>::remaining *)
Fixpoint bk_remaining (s : sem) (b : backend) : option qres :=
  match b with
  | BVec v | BSmallVec v => match s with Stack => Some (QVal (vec_remaining v)) | Queue => None end
  | BCursor _ c => Some (match s with Stack => cursor_remaining_stack c | Queue => cursor_remaining_queue c end)
  | BRev b' => bk_remaining (flip_sem s) b'                        (* backends.rs:815-837 *)
  | BFallIter f | BInfIter f => Some (QVal (iter_remaining f))
  | BFallCb _ | BInfCb _ => None
  end.

Definition qres_is_zero (q : qres) : qres :=
  match q with QVal n => QVal (if n =? 0 then 1 else 0) | QFault f => QFault f end.

(* BoundedReadWords::is_exhausted: the provided method [remaining() == 0] everywhere (Reverse
   forwards to the wrapped backend's is_exhausted, which is the provided method again) *)
Definition bk_is_exhausted (s : sem) (b : backend) : option qres := omap qres_is_zero (bk_remaining s b).

(* ReadWords::maybe_exhausted: Vec/SmallVec [is_empty()], Cursor [is_exhausted()], Reverse forwards,
   the iterator adapters keep the provided [true] *)
Fixpoint bk_maybe_exhausted (s : sem) (b : backend) : option qres :=
  match b with
  | BVec v | BSmallVec v =>
      match s with Stack => Some (QVal (if vec_maybe_exhausted v then 1 else 0)) | Queue => None end
  | BCursor _ _ => bk_is_exhausted s b
  | BRev b' => bk_maybe_exhausted (flip_sem s) b'
  | BFallIter _ | BInfIter _ => Some (QVal 1)
  | BFallCb _ | BInfCb _ => None
  end.

(* BoundedWriteWords::space_left *)
Definition bk_space_left (b : backend) : option qres :=
  match b with
  | BCursor k c => if buf_mutable k then Some (cursor_space_left c) else None
  | BRev (BCursor k c) => if buf_mutable k then Some (rcursor_space_left c) else None
  | _ => None
  end.
Definition bk_is_full (b : backend) : option qres := omap qres_is_zero (bk_space_left b).

(* WriteWords::maybe_full: Vec/SmallVec [false]; every other sink keeps the provided [true] *)
Definition bk_maybe_full (b : backend) : option qres :=
  match b with
  | BVec _ | BSmallVec _ => Some (QVal 0)
  | _ => match bk_write 0%N b with Some _ => Some (QVal 1) | None => None end
  end.

(* Pos::pos, Seek::seek *)
Fixpoint bk_pos (b : backend) : option nat :=
  match b with
  | BVec v | BSmallVec v => Some (vec_pos v)
  | BCursor _ c => Some (cursor_pos c)
  | BRev b' => bk_pos b'                                          (* backends.rs:843-851 *)
  | _ => None
  end.
Fixpoint bk_seek (p : nat) (b : backend) : option (sres * backend) :=
  match b with
  | BVec v => Some (map_snd BVec (vec_seek p v))
  | BSmallVec v => Some (map_snd BSmallVec (vec_seek p v))
  | BCursor k c => Some (map_snd (BCursor k) (cursor_seek p c))
  | BRev b' => omap (map_snd BRev) (bk_seek p b')                  (* backends.rs:853-860 *)
  | _ => None
  end.

(* Cursor::into_reversed : Cursor -> Reverse<Cursor>;  Reverse<Cursor>::into_reversed back *)
Definition bk_into_reversed (b : backend) : option (qres * backend) :=
  match b with
  | BCursor k c =>
      if buf_mutable k then Some (map_snd (fun c' => BRev (BCursor k c')) (cursor_reverse_in_place c)) else None
  | BRev (BCursor k c) =>
      if buf_mutable k then Some (map_snd (BCursor k) (cursor_reverse_in_place c)) else None
  | _ => None
  end.

(* Cursor::as_view / cloned (a read-only / owning copy at the same position) and as_mut_view
   (a writable view: writes through to the buffer, the original position stays) *)
Definition bk_view_read (s : sem) (b : backend) : option (rres * nat) :=
  match b with
  | BCursor _ c =>
      let '(r, c') := match s with Stack => cursor_read_stack c | Queue => cursor_read_queue c end in
      Some (r, pos c')
  | _ => None
  end.
Definition bk_mut_view_write (w : N) (b : backend) : option (wres * backend) :=
  match b with
  | BCursor k c =>
      if buf_mutable k
      then let '(r, c') := cursor_write w c in Some (r, BCursor k {| buf := buf c'; pos := pos c |})
      else None
  | _ => None
  end.

(* Cursor::buf_mut().truncate(k) on a Vec buffer: safe code that can break the invariant
   (known class cursor_buf_mut_shrink of C20; never generated for C17) *)
Definition bk_buf_mut_truncate (n : nat) (b : backend) : option backend :=
  match b with
  | BCursor BufVec c => Some (BCursor BufVec {| buf := firstn n (buf c); pos := pos c |})
  | _ => None
  end.

(* ------------------------------------------------------------------ histories *)

Inductive op :=
| ORead (s : sem) | OWrite (w : N) | OSeek (p : nat) | OPos
| ORemaining (s : sem) | OSpaceLeft
| OIsExhausted (s : sem) | OMaybeExhausted (s : sem) | OIsFull | OMaybeFull
| OIntoReversed | OExtend (ws : list N)
| OViewRead (s : sem) | OClonedRead (s : sem) | OMutViewWrite (w : N)
| OBufMutTruncate (n : nat).

Inductive out :=
| ONa                              (* the type does not implement the operation *)
| ORd (r : rres) | OWr (r : wres) | OSk (r : sres) | OQ (q : qres)
| OView (r : rres) (p : nat).

Definition bk_step (b : backend) (o : op) : backend * out :=
  match o with
  | ORead s => match bk_read s b with Some (r, b') => (b', ORd r) | None => (b, ONa) end
  | OWrite w => match bk_write w b with Some (r, b') => (b', OWr r) | None => (b, ONa) end
  | OSeek p => match bk_seek p b with Some (r, b') => (b', OSk r) | None => (b, ONa) end
  | OPos => match bk_pos b with Some p => (b, OQ (QVal p)) | None => (b, ONa) end
  | ORemaining s => match bk_remaining s b with Some q => (b, OQ q) | None => (b, ONa) end
  | OSpaceLeft => match bk_space_left b with Some q => (b, OQ q) | None => (b, ONa) end
  | OIsExhausted s => match bk_is_exhausted s b with Some q => (b, OQ q) | None => (b, ONa) end
  | OMaybeExhausted s => match bk_maybe_exhausted s b with Some q => (b, OQ q) | None => (b, ONa) end
  | OIsFull => match bk_is_full b with Some q => (b, OQ q) | None => (b, ONa) end
  | OMaybeFull => match bk_maybe_full b with Some q => (b, OQ q) | None => (b, ONa) end
  | OIntoReversed =>
      match bk_into_reversed b with
      | Some (QVal _, b') => (b', OQ (QVal 0))
      | Some (QFault f, b') => (b', OQ (QFault f))
      | None => (b, ONa)
      end
  | OExtend ws => match bk_extend ws b with Some (r, b') => (b', OWr r) | None => (b, ONa) end
  | OViewRead s | OClonedRead s =>
      match bk_view_read s b with Some (r, p) => (b, OView r p) | None => (b, ONa) end
  | OMutViewWrite w => match bk_mut_view_write w b with Some (r, b') => (b', OWr r) | None => (b, ONa) end
  | OBufMutTruncate n => match bk_buf_mut_truncate n b with Some b' => (b', OQ (QVal 0)) | None => (b, ONa) end
  end.

Fixpoint bk_run (b : backend) (ops : list op) : backend * list out :=
  match ops with
  | [] => (b, [])
  | o :: r => let '(b1, x) := bk_step b o in let '(b2, xs) := bk_run b1 r in (b2, x :: xs)
  end.

(* ------------------------------------------------------------------ the abstract stack / queue *)
(* A tape is a zipper: [above] is the abstract STACK (head = top = the word a Stack read returns
   next), [below] is the abstract QUEUE of words ahead (head = the word a Queue read returns
   next; also the cells a write overwrites).  Writes push on the stack and consume one cell
   ahead. *)
Record tape := { above : list N; below : list N }.

Definition tape_read (s : sem) (t : tape) : rres * tape :=
  match s with
  | Stack => match above t with
             | [] => (RNone, t)
             | w :: a => (RSome w, {| above := a; below := w :: below t |})
             end
  | Queue => match below t with
             | [] => (RNone, t)
             | w :: q => (RSome w, {| above := w :: above t; below := q |})
             end
  end.
Definition tape_write (w : N) (t : tape) : wres * tape :=
  match below t with
  | [] => (WOutOfSpace, t)
  | _ :: q => (WOk, {| above := w :: above t; below := q |})
  end.
Definition tape_remaining (s : sem) (t : tape) : nat :=
  match s with Stack => length (above t) | Queue => length (below t) end.
Definition tape_space_left (t : tape) : nat := length (below t).

(* abstraction functions: a Cursor reads its stack downwards from [pos], a Reverse<Cursor> reads
   its stack upwards from [pos] *)
Definition tape_of_cursor (c : cursor) : tape :=
  {| above := rev (firstn (pos c) (buf c)); below := skipn (pos c) (buf c) |}.
Definition tape_of_rcursor (c : cursor) : tape :=
  {| above := skipn (pos c) (buf c); below := rev (firstn (pos c) (buf c)) |}.

(* abstract stack of a Vec: head = top *)
Definition stack_of_vec (v : vec) : list N := rev v.

(* generic n-fold read / write of a state machine *)
Fixpoint iter_rd {X} (rd : X -> rres * X) (n : nat) (x : X) : list rres * X :=
  match n with
  | O => ([], x)
  | S n' => let '(r, x1) := rd x in
            let '(rs, x2) := iter_rd rd n' x1 in (r :: rs, x2)
  end.
Fixpoint iter_wr {X} (wr : N -> X -> wres * X) (ws : list N) (x : X) : list wres * X :=
  match ws with
  | [] => ([], x)
  | w :: r => let '(y, x1) := wr w x in
              let '(ys, x2) := iter_wr wr r x1 in (y :: ys, x2)
  end.

Definition tape_reads (s : sem) : nat -> tape -> list rres * tape := iter_rd (tape_read s).
Definition tape_writes : list N -> tape -> list wres * tape := iter_wr tape_write.

(* moving the head over the tape without touching the contents: [tape_goto p] leaves exactly [p]
   words on the stack side *)
Definition tape_all (t : tape) : list N := rev (above t) ++ below t.
Definition tape_goto (p : nat) (t : tape) : tape :=
  {| above := rev (firstn p (tape_all t)); below := skipn p (tape_all t) |}.
(* the same tape seen from the other end *)
Definition tape_mirror (t : tape) : tape := {| above := below t; below := above t |}.

(* concretisation: the cursor / the cursor inside Reverse that represents a tape *)
Definition cursor_of_tape (t : tape) : cursor :=
  {| buf := rev (above t) ++ below t; pos := length (above t) |}.
Definition rcursor_of_tape (t : tape) : cursor :=
  {| buf := rev (below t) ++ above t; pos := length (below t) |}.
(* [fl] = the cursor is wrapped in Reverse *)
Definition bk_of_tape (k : bufkind) (fl : bool) (t : tape) : backend :=
  if fl then BRev (BCursor k (rcursor_of_tape t)) else BCursor k (cursor_of_tape t).

(* the abstract machine the cursor family is shown to refine: state = tape + orientation.
   Positions are the only thing that depends on the orientation. *)
Fixpoint tape_extend (ws : list N) (t : tape) : wres * tape :=
  match ws with
  | [] => (WOk, t)
  | w :: r => match tape_write w t with
              | (WOk, t') => tape_extend r t'
              | (e, t') => (e, t')
              end
  end.
Definition tape_pos (t : tape) (fl : bool) : nat := if fl then length (below t) else length (above t).
Definition tape_seek (p : nat) (t : tape) (fl : bool) : sres * tape :=
  if length (tape_all t) <? p then (SErr, t)
  else (SOk, if fl then tape_mirror (tape_goto p (tape_mirror t)) else tape_goto p t).
Definition bool_q (b : bool) : out := OQ (QVal (if b then 1 else 0)).

Definition tape_step (mut : bool) (st : tape * bool) (o : op) : (tape * bool) * out :=
  let '(t, fl) := st in
  match o with
  | ORead s => let '(r, t') := tape_read s t in ((t', fl), ORd r)
  | OWrite w => if mut then let '(r, t') := tape_write w t in ((t', fl), OWr r) else (st, ONa)
  | OSeek p => let '(r, t') := tape_seek p t fl in ((t', fl), OSk r)
  | OPos => (st, OQ (QVal (tape_pos t fl)))
  | ORemaining s => (st, OQ (QVal (tape_remaining s t)))
  | OSpaceLeft => if mut then (st, OQ (QVal (tape_space_left t))) else (st, ONa)
  | OIsExhausted s | OMaybeExhausted s => (st, bool_q (tape_remaining s t =? 0))
  | OIsFull => if mut then (st, bool_q (tape_space_left t =? 0)) else (st, ONa)
  | OMaybeFull => if mut then (st, bool_q true) else (st, ONa)
  | OIntoReversed => if mut then ((t, negb fl), OQ (QVal 0)) else (st, ONa)
  | OExtend ws => if mut then let '(r, t') := tape_extend ws t in ((t', fl), OWr r) else (st, ONa)
  | _ => (st, ONa)
  end.
Fixpoint tape_run (mut : bool) (st : tape * bool) (ops : list op) : (tape * bool) * list out :=
  match ops with
  | [] => (st, [])
  | o :: r => let '(st1, x) := tape_step mut st o in
              let '(st2, xs) := tape_run mut st1 r in (st2, x :: xs)
  end.

(* classes of operations *)
(* everything except shrinking the buffer through buf_mut() *)
Definition op_safe (o : op) : Prop := match o with OBufMutTruncate _ => False | _ => True end.
(* the trait operations (the views and buf_mut are inherent methods of Cursor) *)
Definition op_core (o : op) : Prop :=
  match o with OViewRead _ | OClonedRead _ | OMutViewWrite _ | OBufMutTruncate _ => False | _ => True end.
(* the trait operations whose results do not mention a position *)
Definition op_orient_free (o : op) : Prop :=
  match o with OSeek _ | OPos => False | _ => op_core o end.

(* n-fold operations used in the statements *)
Fixpoint bk_reads (s : sem) (n : nat) (b : backend) : option (list rres * backend) :=
  match n with
  | O => Some ([], b)
  | S n' => match bk_read s b with
            | Some (r, b') => omap (fun x => (r :: fst x, snd x)) (bk_reads s n' b')
            | None => None
            end
  end.
Fixpoint bk_writes (ws : list N) (b : backend) : option (list wres * backend) :=
  match ws with
  | [] => Some ([], b)
  | w :: r => match bk_write w b with
              | Some (x, b') => omap (fun y => (x :: fst y, snd y)) (bk_writes r b')
              | None => None
              end
  end.

(* abstraction functions on backends: the abstract stack (head = the word the next Stack read
   returns) and the abstract queue (head = the word the next Queue read returns) *)
Definition bk_stack (b : backend) : option (list N) :=
  match b with
  | BVec v | BSmallVec v => Some (stack_of_vec v)
  | BCursor _ c => Some (above (tape_of_cursor c))
  | BRev (BCursor _ c) => Some (above (tape_of_rcursor c))
  | _ => None
  end.
Definition bk_queue (b : backend) : option (list N) :=
  match b with
  | BCursor _ c => Some (below (tape_of_cursor c))
  | BRev (BCursor _ c) => Some (below (tape_of_rcursor c))
  | BRev (BVec v) | BRev (BSmallVec v) => Some (stack_of_vec v)
  | _ => None
  end.

(* number of valid seek targets minus one: buffer length of a cursor, length of a vector *)
Fixpoint bk_len (b : backend) : option nat :=
  match b with
  | BVec v | BSmallVec v => Some (length v)
  | BCursor _ c => Some (length (buf c))
  | BRev b' => bk_len b'
  | _ => None
  end.

(* a read that delivered something (a word, or the Err of a fallible source) *)
Definition rres_delivers (r : rres) : Prop :=
  match r with RSome _ | RSomeErr _ | RErr _ => True | RNone | RFault _ => False end.

(* the position invariant of every cursor inside a backend *)
Fixpoint bk_wf (b : backend) : Prop :=
  match b with
  | BCursor _ c => cursor_inv c
  | BRev b' => bk_wf b'
  | _ => True
  end.

Definition out_is_fault (x : out) : Prop :=
  match x with
  | ORd (RFault _) | OWr (WFault _) | OQ (QFault _) | OView (RFault _) _ => True
  | _ => False
  end.
