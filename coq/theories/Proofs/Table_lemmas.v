(* Proofs/Table_lemmas.v -- explicit tables are exactly invertible models. *)
From CV Require Import Base.Bits Model.EModel.
Open Scope N_scope.
Set Default Timeout 30.

Lemma tilesb_spec start total t : tilesb start total t = true <-> tiles start total t.
Proof.
  revert start. induction t as [|[[s c] p] r IH]; intros start; cbn.
  - rewrite N.eqb_eq. tauto.
  - rewrite !andb_true_iff, N.eqb_eq, N.ltb_lt, IH. tauto.
Qed.

Lemma tiles_le start total t : tiles start total t -> start <= total.
Proof.
  revert start. induction t as [|[[s c] p] r IH]; intros start H; cbn in H.
  - lia.
  - destruct H as (_ & Hp & Hr). apply IH in Hr. lia.
Qed.

Lemma tiles_in start total t s c p :
  tiles start total t -> In (s, c, p) t -> start <= c /\ 0 < p /\ c + p <= total.
Proof.
  revert start. induction t as [|[[s' c'] p'] r IH]; intros start H Hin; [contradiction|].
  cbn in H. destruct H as (Hc & Hp & Hr). destruct Hin as [Heq|Hin].
  - inversion Heq; subst. pose proof (tiles_le _ _ _ Hr). lia.
  - destruct (IH _ Hr Hin) as (? & ? & ?). lia.
Qed.

Lemma tiles_in_strict start total t s c p :
  tiles start total t -> In (s, c, p) t -> (2 <= length t)%nat -> p < total - start.
Proof.
  intros H Hin Hlen.
  destruct t as [|[[s1 c1] p1] [|[[s2 c2] p2] r]]; cbn in Hlen; try lia.
  cbn in H. destruct H as (Hc1 & Hp1 & Hc2 & Hp2 & Hr).
  pose proof (tiles_le _ _ _ Hr) as Hle.
  destruct Hin as [Heq|[Heq|Hin]].
  - inversion Heq; subst. lia.
  - inversion Heq; subst. lia.
  - destruct (tiles_in _ _ _ _ _ _ Hr Hin) as (? & ? & ?). lia.
Qed.

Lemma tbl_dec_from_spec t : forall start total cur q,
  tiles start total t ->
  (q < start -> tbl_dec_from cur t q = cur) /\
  (start <= q < total ->
     exists s c p, tbl_dec_from cur t q = (s, c, p) /\ In (s, c, p) t /\ c <= q < c + p).
Proof.
  induction t as [|[[s c] p] r IH]; intros start total cur q H; cbn in H.
  - split; [reflexivity|]. intros. lia.
  - destruct H as (Hc & Hp & Hr). subst c. cbn [tbl_dec_from].
    destruct (IH (start + p) total (s, start, p) q Hr) as [IHlo IHhi].
    split.
    + intros Hq. destruct (N.leb_spec start q); [lia|reflexivity].
    + intros Hq. destruct (N.leb_spec start q) as [_|?]; [|lia].
      destruct (N.lt_ge_cases q (start + p)) as [Hlt|Hge].
      * rewrite (IHlo Hlt). exists s, start, p. cbn. split; [reflexivity|]. split; [left; reflexivity|lia].
      * destruct IHhi as (s' & c' & p' & Hd & Hin & Hcq); [lia|].
        exists s', c', p'. cbn. split; [exact Hd|]. split; [right; exact Hin|exact Hcq].
Qed.

Lemma tiles_unique t : forall start total e1 e2 q,
  tiles start total t -> In e1 t -> In e2 t ->
  snd (fst e1) <= q < snd (fst e1) + snd e1 ->
  snd (fst e2) <= q < snd (fst e2) + snd e2 -> e1 = e2.
Proof.
  induction t as [|[[s c] p] r IH]; intros start total e1 e2 q H H1 H2 Hq1 Hq2; [contradiction|].
  cbn in H. destruct H as (Hc & Hp & Hr). subst c.
  destruct H1 as [<-|H1]; destruct H2 as [<-|H2]; auto.
  - destruct e2 as [[s2 c2] p2]. cbn in *.
    destruct (tiles_in _ _ _ _ _ _ Hr H2) as (? & ? & ?). lia.
  - destruct e1 as [[s1 c1] p1]. cbn in *.
    destruct (tiles_in _ _ _ _ _ _ Hr H1) as (? & ? & ?). lia.
  - eapply IH; eauto.
Qed.

Lemma tbl_enc_in t s c p : tbl_enc t s = Some (c, p) -> In (s, c, p) t.
Proof.
  induction t as [|[[s' c'] p'] r IH]; cbn; [discriminate|].
  destruct (Z.eqb_spec s s') as [->|_].
  - intros H. inversion H; subst. auto.
  - auto.
Qed.

Lemma tbl_enc_nodup t s c p : NoDup (syms t) -> In (s, c, p) t -> tbl_enc t s = Some (c, p).
Proof.
  induction t as [|[[s' c'] p'] r IH]; intros Hnd Hin; [contradiction|].
  cbn in Hnd. inversion Hnd as [|? ? Hnotin Hnd']; subst.
  cbn [tbl_enc]. destruct Hin as [Heq|Hin].
  - inversion Heq; subst. rewrite Z.eqb_refl. reflexivity.
  - destruct (Z.eqb_spec s s') as [->|_]; [|auto].
    exfalso. apply Hnotin. unfold syms. apply in_map_iff. exists (s', c, p). auto.
Qed.

Theorem table_model_wf P t : wf_table P t -> wf_model (table_model P t).
Proof.
  intros (HP & Ht & Hnd & Hlen).
  assert (Hdec : forall q, q < 2 ^ P ->
            exists s c p, tbl_dec t q = (s, c, p) /\ In (s, c, p) t /\ c <= q < c + p).
  { intros q Hq. destruct t as [|[[s0 c0] p0] r]; [cbn in Hlen; lia|].
    cbn in Ht. destruct Ht as (Hc0 & Hp0 & Hr). subst c0. cbn [tbl_dec].
    destruct (tbl_dec_from_spec r (0 + p0) (2 ^ P) (s0, 0, p0) q Hr) as [Hlo Hhi].
    destruct (N.lt_ge_cases q (0 + p0)) as [Hlt|Hge].
    - rewrite (Hlo Hlt). exists s0, 0, p0. cbn. split; auto. split; auto. lia.
    - destruct Hhi as (s & c & p & Hd & Hin & Hcq); [lia|].
      exists s, c, p. cbn. auto. }
  constructor; cbn [em_prec em_enc em_dec table_model].
  - exact HP.
  - intros s cum p Henc. apply tbl_enc_in in Henc.
    destruct (tiles_in _ _ _ _ _ _ Ht Henc) as (H0 & Hp & Hcp).
    pose proof (tiles_in_strict _ _ _ _ _ _ Ht Henc Hlen) as Hstrict.
    split; [split; assumption|]. split; [lia|].
    intros q Hq. destruct (Hdec q ltac:(lia)) as (s' & c' & p' & Hd & Hin & Hcq).
    rewrite Hd.
    apply (tiles_unique t 0 (2 ^ P) (s', c', p') (s, cum, p) q); auto.
  - intros q Hq. destruct (Hdec q Hq) as (s & c & p & Hd & Hin & Hcq).
    rewrite Hd. split; [|exact Hcq]. apply tbl_enc_nodup; assumption.
Qed.

Lemma nodupb_spec l : nodupb l = true -> NoDup l.
Proof.
  induction l as [|x r IH]; cbn; intros H; [constructor|].
  apply andb_true_iff in H. destruct H as [Hx Hr].
  constructor; [|auto].
  intros Hin. apply negb_true_iff in Hx.
  assert (existsb (Z.eqb x) r = true); [|congruence].
  apply existsb_exists. exists x. split; [exact Hin|apply Z.eqb_refl].
Qed.

Lemma wf_tableb_spec P t : wf_tableb P t = true -> wf_table P t.
Proof.
  unfold wf_tableb, wf_table. rewrite !andb_true_iff.
  intros [[[H1 H2] H3] H4].
  apply N.ltb_lt in H1. apply tilesb_spec in H2. apply nodupb_spec in H3.
  apply Nat.leb_le in H4. auto.
Qed.
