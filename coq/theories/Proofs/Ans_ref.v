(* Proofs/Ans_ref.v -- the machine-level ANS model emits the reference bit stream (C06). *)
From CV Require Import Base.Bits Model.EModel Model.Ans Model.AnsRef Proofs.Ans_core Proofs.Ans_lemmas
  Proofs.Ans_words Proofs.Ans_extra Proofs.Ans_size.
Open Scope N_scope.
Set Default Timeout 30.

Lemma ref_digits_chunks W n x : ref_digits W n x = chunks W n x.
Proof.
  revert x. induction n as [|n IH]; intros x; cbn [ref_digits chunks]; [reflexivity|].
  destruct (x =? 0); [reflexivity|].
  unfold trunc, shr. rewrite N.shiftr_div_pow2, IH. reflexivity.
Qed.

Section Ref.
Variable c : cfg.
Hypothesis Hc : wf_cfg c.

Definition rel (a : ans) (r : rans) : Prop := r_out r = rev (bulk a) /\ r_x r = st a.

Lemma ref_step_rel a r P cum p :
  0 < P -> P <= WB c -> wf_entry P cum p -> ans_inv c a -> rel a r ->
  rel (ans_encode c P cum p a) (ref_step (WB c) (SB c) r (P, cum, p)).
Proof.
  intros HP0 HPW Hwf Hinv [Ho Hx].
  destruct Hinv as (_ & Hst & _).
  destruct (enc_eq_ideal c Hc P HP0 HPW cum p a Hwf Hst) as [-> _].
  unfold ref_step, enc_ideal, enc_flush, rel. rewrite Hx, Ho.
  destruct (p * 2 ^ (SB c - P) <=? st a); cbn [bulk st r_out r_x rev]; auto.
Qed.

Lemma ref_fold_rel l : forall a r,
  Forall (entry_ok c) l -> ans_inv c a -> rel a r ->
  rel (encode_entries c l a) (fold_left (ref_step (WB c) (SB c)) l r).
Proof.
  induction l as [|[[P cum] p] t IH]; intros a r Hl Hinv Hrel; [exact Hrel|].
  inversion Hl as [|? ? He Ht]; subst. cbn in He. destruct He as (HP0 & HPW & Hwf).
  cbn [encode_entries fold_left]. apply IH; [exact Ht| |].
  - destruct (ans_dec_enc c Hc P cum p a (conj HP0 HPW) Hwf Hinv) as [Hi _]. exact Hi.
  - apply ref_step_rel; assumption.
Qed.

Theorem ans_emits_reference l :
  Forall (entry_ok c) l ->
  ans_words c (encode_entries c l ans_empty) = ans_ref (WB c) (SB c) l.
Proof.
  intros Hl.
  destruct (ref_fold_rel l ans_empty {| r_out := []; r_x := 0 |} Hl (ans_empty_inv c)) as [Ho Hx].
  { split; reflexivity. }
  unfold ans_ref, ans_words. rewrite Ho, Hx, ref_digits_chunks. reflexivity.
Qed.

End Ref.
