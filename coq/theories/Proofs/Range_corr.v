(* Proofs/Range_corr.v -- the executable checks that Corr/Range_run.v evaluates on every case
   (model-vs-spec differential check) are exactly the relations the proofs carry. *)
From CV Require Import Base.Bits Model.EModel Model.Range Model.RangeSpec.
From CV Require Import Proofs.Range_base Proofs.Range_spec Proofs.Range_enc Proofs.Range_dec.
Open Scope N_scope.
Set Default Timeout 30.

Lemma list_eqbN_eq a : forall b, list_eqbN a b = true -> a = b.
Proof.
  induction a as [|x r IH]; intros [|y r'] H; cbn in H; try discriminate; [reflexivity|].
  apply andb_true_iff in H. destruct H as [H1 H2]. apply N.eqb_eq in H1. subst y.
  f_equal. apply IH. assumption.
Qed.

Lemma rencb_sound c e s : rencb c e s = true -> Renc c e s.
Proof.
  unfold rencb, Renc. rewrite !andb_true_iff.
  intros [[[[[H1 H2] H3] H4] H5] H6].
  apply N.eqb_eq in H1. apply N.ltb_lt in H2. apply N.eqb_eq in H3. apply Nat.eqb_eq in H4.
  split; [assumption|]. split; [exact H2|]. split; [exact H3|]. split; [assumption|].
  split.
  - apply Forall_forall. intros x Hx. rewrite forallb_forall in H5. specialize (H5 x Hx).
    apply N.ltb_lt in H5. exact H5.
  - unfold sit_okb in H6. destruct (e_sit e) as [|n w].
    + apply N.ltb_lt in H6. exact H6.
    + rewrite !andb_true_iff in H6. destruct H6 as [[Ha Hb] Hc].
      apply N.leb_le in Ha, Hb, Hc. unfold Mw, Bw. auto.
Qed.

Lemma rdecb_sound c t d s : rdecb c t d s = true -> d_buf d = t -> Rdec c t d s.
Proof.
  unfold rdecb, Rdec. rewrite !andb_true_iff.
  intros [[[[[H1 H2] H3] H4] H5] H6] Hb.
  apply N.eqb_eq in H1, H2, H3. apply N.leb_le in H4, H5. apply list_eqbN_eq in H6.
  unfold Mw. auto 10.
Qed.
