#!/bin/bash
# usage: seedtest.sh <patch.diff> <prop> [<prop> ...]
# Applies a seeded change to /repo, runs the given checks (quick tier), and undoes it straight afterwards.
P="$1"; shift
cd /repo || exit 2
git diff --quiet || { echo "/repo has uncommitted changes"; exit 2; }
git apply "$P" || { echo "patch does not apply"; exit 3; }
# evidence written while a seeded change is applied must not replace the evidence of the real tree
EVB=$(mktemp -d /tmp/evidence-backup.XXXXXX); cp -a /verif/evidence/. "$EVB"/ 2>/dev/null
trap 'git -C /repo checkout -- . ; cp -a "$EVB"/. /verif/evidence/ ; rm -rf "$EVB"' EXIT
for prop in "$@"; do
  ( cd /verif && timeout 1500 ./check "$prop" --tier quick 2>&1 | grep -E "^(VIOLATION|OK|FAIL|KNOWN)" )
done
