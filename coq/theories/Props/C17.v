(* Props/C17.v -- word sources and sinks honour their read / write / bounds / position contracts.
   This file contains ONLY statements; all proofs live in Proofs/Backend_*.v.

   Vocabulary (Model/Backend.v): [backend] is any provided backend ([BVec], [BSmallVec],
   [BCursor k c] for the four buffer kinds, [BRev b] = Reverse<B> at any nesting, the two iterator
   adapters over an arbitrary non-fused scripted iterator, the two callback adapters); [bk_*] are the
   trait methods ([None] = the type does not implement the trait); [bk_wf] is the position invariant
   [pos <= len] of every cursor inside; [bk_stack] / [bk_queue] are the abstract stack / queue
   (head = next word read); a [tape] is the abstract stack + queue of a cursor. *)
From CV Require Import Model.Backend.
From CV Require Import Proofs.Backend_tape Proofs.Backend_cursor Proofs.Backend_vec
  Proofs.Backend_history Proofs.Backend_refine Proofs.Backend_contract.
Open Scope nat_scope.

(* ------------------------------------------------------------------ refinement to the abstract stack / queue *)

(* Vec / SmallVec: write = push, read = pop on [stack_of_vec] *)
Theorem C17_vec_refines_stack : forall v w,
  (vec_write w v = (WOk, v ++ [w]) /\ stack_of_vec (v ++ [w]) = w :: stack_of_vec v) /\
  match stack_of_vec v with
  | [] => vec_read v = (RNone, v)
  | x :: s => exists v', vec_read v = (RSome x, v') /\ stack_of_vec v' = s
  end.
Proof. intros v w. split; [apply vec_write_stack|apply vec_read_stack]. Qed.

(* Cursor<_, Buf> and Reverse<Cursor<_, Buf>> (Buf owned, borrowed, mutable, boxed): every trait
   operation, over ARBITRARY interleavings, is the corresponding operation of the tape machine *)
Theorem C17_cursor_refines_tape : forall k fl t ops, Forall op_core ops ->
  bk_run (bk_of_tape k fl t) ops =
    let '((t', fl'), xs) := tape_run (buf_mutable k) (t, fl) ops in (bk_of_tape k fl' t', xs).
Proof. intros k fl t ops. exact (cursor_run_refines k ops fl t). Qed.

(* ... and every cursor / reversed cursor satisfying the invariant is such a representation, so the
   theorem above speaks about every reachable state *)
Theorem C17_cursor_is_tape : forall k c, cursor_inv c ->
  BCursor k c = bk_of_tape k false (tape_of_cursor c) /\
  BRev (BCursor k c) = bk_of_tape k true (tape_of_rcursor c).
Proof. intros k c H. split; [now apply cursor_is_tape|now apply rcursor_is_tape]. Qed.

(* ------------------------------------------------------------------ reads vs writes *)

(* Stack semantics: accepted writes come back in REVERSE order; the abstract stack and the position
   are then as before.  Vec, SmallVec, Cursor, Reverse<Cursor>. *)
Theorem C17_stack_reads_reverse_order : forall b ws st,
  bk_wf b -> bk_stack b = Some st ->
  (forall n, bk_space_left b = Some (QVal n) -> length ws <= n) ->
  bk_write 0%N b <> None ->
  exists b1 b2, bk_writes ws b = Some (repeat WOk (length ws), b1) /\
    bk_stack b1 = Some (rev ws ++ st) /\
    bk_reads Stack (length ws) b1 = Some (map RSome (rev ws), b2) /\
    bk_stack b2 = Some st /\ bk_pos b2 = bk_pos b.
Proof. exact bk_lifo. Qed.

(* Queue semantics: reads move in the direction of writes; after seeking back to the position
   reported before the writes the words come back IN ORDER, ending in the state after the writes *)
Theorem C17_queue_reads_in_order : forall b ws p n,
  bk_wf b -> bk_pos b = Some p -> bk_space_left b = Some (QVal n) -> length ws <= n ->
  exists b1 b1', bk_writes ws b = Some (repeat WOk (length ws), b1) /\
    bk_seek p b1 = Some (SOk, b1') /\
    bk_reads Queue (length ws) b1' = Some (map RSome ws, b1).
Proof. exact bk_fifo. Qed.

(* the reads return exactly the abstract stack / queue, then end-of-data *)
Theorem C17_stack_reads_return_stack : forall b st, bk_wf b -> bk_stack b = Some st ->
  exists b', bk_reads Stack (S (length st)) b = Some (map RSome st ++ [RNone], b').
Proof. exact bk_stack_reads. Qed.

Theorem C17_queue_reads_return_queue : forall b q, bk_wf b -> bk_queue b = Some q ->
  exists b', bk_reads Queue (S (length q)) b = Some (map RSome q ++ [RNone], b').
Proof. exact bk_queue_reads. Qed.

(* ------------------------------------------------------------------ end of data, bounds *)

(* after the first end-of-data every further read is end-of-data: every backend, both semantics *)
Theorem C17_eod_sticky : forall b s b', bk_wf b ->
  bk_read s b = Some (RNone, b') -> bk_read s b' = Some (RNone, b').
Proof. exact bk_eod_sticky. Qed.

(* remaining() = n: the next n reads deliver something, read n+1 is end-of-data (and by
   C17_eod_sticky so is every later one): every BoundedReadWords impl incl. the iterator adapters *)
Theorem C17_remaining_exact : forall b s n, bk_wf b -> bk_remaining s b = Some (QVal n) ->
  exists rs b', bk_reads s (S n) b = Some (rs ++ [RNone], b') /\ length rs = n /\
    Forall rres_delivers rs /\ bk_wf b'.
Proof. exact bk_remaining_exact. Qed.

(* space_left() = n: the next n writes are accepted, write n+1 is refused with OutOfSpace *)
Theorem C17_space_left_exact : forall b n ws,
  bk_wf b -> bk_space_left b = Some (QVal n) -> length ws = S n ->
  exists b', bk_writes ws b = Some (repeat WOk n ++ [WOutOfSpace], b') /\ bk_wf b' /\
    bk_space_left b' = Some (QVal 0).
Proof. exact bk_space_left_exact. Qed.

(* ------------------------------------------------------------------ positions *)

(* a reported position can be sought back to, and that changes nothing *)
Theorem C17_seek_pos : forall b p, bk_wf b -> bk_pos b = Some p -> bk_seek p b = Some (SOk, b).
Proof. exact bk_seek_pos. Qed.

(* out-of-range positions are refused and leave the state unchanged; every in-range position
   (0 and len included) is accepted and becomes the reported position *)
Theorem C17_seek_range : forall b p n, bk_len b = Some n ->
  (n < p -> bk_seek p b = Some (SErr, b)) /\
  (p <= n -> exists b', bk_seek p b = Some (SOk, b') /\ bk_pos b' = Some p).
Proof. exact bk_seek_range. Qed.

Theorem C17_vec_seek_truncates : forall p v, p <= length v ->
  bk_seek p (BVec v) = Some (SOk, BVec (firstn p v)) /\
  bk_seek p (BSmallVec v) = Some (SOk, BSmallVec (firstn p v)).
Proof. exact bk_vec_seek_truncates. Qed.

(* ------------------------------------------------------------------ in-place reversal *)

(* into_reversed mirrors data and position, keeps the invariant, and the result represents the SAME
   abstract stack and queue *)
Theorem C17_into_reversed_mirrors : forall c, cursor_inv c ->
  exists p c', cursor_reverse_in_place c = (QVal p, c') /\ cursor_inv c' /\
    tape_of_rcursor c' = tape_of_cursor c /\
    buf c' = rev (buf c) /\ pos c' = length (buf c) - pos c.
Proof. exact into_reversed_tape. Qed.

(* observationally a no-op: after into_reversed (Cursor -> Reverse<Cursor> or back) ANY sequence of
   reads (both semantics), writes, extend_from_iter, bounds queries and further reversals yields
   exactly the results it would have yielded without it, and the final states are again each
   other's reversal *)
Theorem C17_into_reversed_noop : forall b q b' ops,
  bk_wf b -> bk_into_reversed b = Some (q, b') -> Forall op_orient_free ops ->
  snd (bk_run b' ops) = snd (bk_run b ops) /\
  exists q', bk_into_reversed (fst (bk_run b ops)) = Some (q', fst (bk_run b' ops)).
Proof. exact into_reversed_noop. Qed.

(* twice = identity *)
Theorem C17_into_reversed_twice : forall c, cursor_inv c ->
  exists p q c', cursor_reverse_in_place c = (QVal p, c') /\ cursor_reverse_in_place c' = (QVal q, c).
Proof. exact into_reversed_twice. Qed.

(* positions are mirrored: seeking to p before the reversal = seeking to len - p after it *)
Theorem C17_into_reversed_seek : forall c p, cursor_inv c -> p <= length (buf c) ->
  snd (cursor_reverse_in_place (snd (cursor_seek p c))) =
  snd (cursor_seek (length (buf c) - p) (snd (cursor_reverse_in_place c))).
Proof. exact into_reversed_seek. Qed.

(* ------------------------------------------------------------------ adapters *)

(* iterator adapters over ANY iterator (not necessarily fused): the reads deliver the items before
   the iterator's first None in order, then end-of-data for ever -- also when the iterator would
   yield further items after that None *)
Theorem C17_fallible_iter_reads : forall s f,
  exists f', bk_reads s (S (length (fuse_rest f))) (BFallIter f) =
               Some (map rres_of_item_fallible (fuse_rest f) ++ [RNone], BFallIter f')
             /\ fuse_rest f' = [] /\ bk_read s (BFallIter f') = Some (RNone, BFallIter f').
Proof. exact bk_fallible_iter_reads. Qed.

Theorem C17_infallible_iter_reads : forall s f,
  exists f', bk_reads s (S (length (fuse_rest f))) (BInfIter f) =
               Some (map rres_of_item_infallible (fuse_rest f) ++ [RNone], BInfIter f')
             /\ fuse_rest f' = [] /\ bk_read s (BInfIter f') = Some (RNone, BInfIter f').
Proof. exact bk_infallible_iter_reads. Qed.

(* callback adapters: every word reaches the callback exactly once, in order; the callback's answers
   are returned verbatim *)
Theorem C17_fallible_callback_writes : forall ws cb,
  exists xs cb', bk_writes ws (BFallCb cb) = Some (xs, BFallCb cb') /\
    cb_log cb' = cb_log cb ++ ws /\
    xs = map (fun e => if Z.eqb e 0 then WOk else WErr e)
             (firstn (length ws) (cb_script cb ++ repeat 0%Z (length ws))).
Proof. exact bk_fallible_cb_writes. Qed.

Theorem C17_infallible_callback_writes : forall ws cb,
  bk_writes ws (BInfCb cb) =
    Some (repeat WOk (length ws), BInfCb {| cb_log := cb_log cb ++ ws; cb_script := cb_script cb |}).
Proof. exact bk_infallible_cb_writes. Qed.

(* IntoReadWords / AsReadWords (and the Seek variants): a Stack reader starts with the whole buffer
   as its stack (last word on top), a Queue reader with the whole buffer as its queue *)
Theorem C17_into_read_words : forall k b,
  cursor_inv (into_read_words Stack b) /\ cursor_inv (into_read_words Queue b) /\
  bk_stack (BCursor k (into_read_words Stack b)) = Some (rev b) /\
  bk_queue (BCursor k (into_read_words Queue b)) = Some b.
Proof. exact into_read_words_spec. Qed.

(* ------------------------------------------------------------------ headline: all histories *)

(* from any well-formed start, after ANY interleaving of the modelled operations (reads of both
   semantics, writes, extend, seeks, queries, reversals, views -- everything except shrinking the
   buffer behind the cursor's back through buf_mut()), every contract holds at the state reached *)
Theorem C17_contracts_all_histories : forall b0 ops, bk_wf b0 -> Forall op_safe ops ->
  let b := fst (bk_run b0 ops) in
  bk_wf b /\
  (forall s b', bk_read s b = Some (RNone, b') -> bk_read s b' = Some (RNone, b')) /\
  (forall s n, bk_remaining s b = Some (QVal n) ->
     exists rs b', bk_reads s (S n) b = Some (rs ++ [RNone], b') /\ length rs = n /\ Forall rres_delivers rs) /\
  (forall n ws, bk_space_left b = Some (QVal n) -> length ws = S n ->
     exists b', bk_writes ws b = Some (repeat WOk n ++ [WOutOfSpace], b')) /\
  (forall p, bk_pos b = Some p -> bk_seek p b = Some (SOk, b)) /\
  (forall p n, bk_len b = Some n -> n < p -> bk_seek p b = Some (SErr, b)).
Proof.
  intros b0 ops Hwf Hs. destruct (bk_contracts_reachable b0 ops Hwf Hs) as (H1 & H2 & _).
  split; [exact H1|exact H2].
Qed.

(* ------------------------------------------------------------------ pinned statements *)

Check C17_cursor_refines_tape : forall k fl t ops, Forall op_core ops ->
  bk_run (bk_of_tape k fl t) ops =
    let '((t', fl'), xs) := tape_run (buf_mutable k) (t, fl) ops in (bk_of_tape k fl' t', xs).
Check C17_stack_reads_reverse_order : forall b ws st,
  bk_wf b -> bk_stack b = Some st ->
  (forall n, bk_space_left b = Some (QVal n) -> length ws <= n) ->
  bk_write 0%N b <> None ->
  exists b1 b2, bk_writes ws b = Some (repeat WOk (length ws), b1) /\
    bk_stack b1 = Some (rev ws ++ st) /\
    bk_reads Stack (length ws) b1 = Some (map RSome (rev ws), b2) /\
    bk_stack b2 = Some st /\ bk_pos b2 = bk_pos b.
Check C17_queue_reads_in_order : forall b ws p n,
  bk_wf b -> bk_pos b = Some p -> bk_space_left b = Some (QVal n) -> length ws <= n ->
  exists b1 b1', bk_writes ws b = Some (repeat WOk (length ws), b1) /\
    bk_seek p b1 = Some (SOk, b1') /\
    bk_reads Queue (length ws) b1' = Some (map RSome ws, b1).
Check C17_eod_sticky : forall b s b', bk_wf b ->
  bk_read s b = Some (RNone, b') -> bk_read s b' = Some (RNone, b').
Check C17_remaining_exact : forall b s n, bk_wf b -> bk_remaining s b = Some (QVal n) ->
  exists rs b', bk_reads s (S n) b = Some (rs ++ [RNone], b') /\ length rs = n /\
    Forall rres_delivers rs /\ bk_wf b'.
Check C17_space_left_exact : forall b n ws,
  bk_wf b -> bk_space_left b = Some (QVal n) -> length ws = S n ->
  exists b', bk_writes ws b = Some (repeat WOk n ++ [WOutOfSpace], b') /\ bk_wf b' /\
    bk_space_left b' = Some (QVal 0).
Check C17_seek_pos : forall b p, bk_wf b -> bk_pos b = Some p -> bk_seek p b = Some (SOk, b).
Check C17_seek_range : forall b p n, bk_len b = Some n ->
  (n < p -> bk_seek p b = Some (SErr, b)) /\
  (p <= n -> exists b', bk_seek p b = Some (SOk, b') /\ bk_pos b' = Some p).
Check C17_into_reversed_noop : forall b q b' ops,
  bk_wf b -> bk_into_reversed b = Some (q, b') -> Forall op_orient_free ops ->
  snd (bk_run b' ops) = snd (bk_run b ops) /\
  exists q', bk_into_reversed (fst (bk_run b ops)) = Some (q', fst (bk_run b' ops)).

(* ------------------------------------------------------------------ non-vacuity *)

(* a Reverse<Cursor<&mut [W]>> in the middle of its buffer: the hypotheses of the theorems above are
   met, with both ends reachable *)
Definition ex_c : cursor := {| buf := [10; 20; 30; 40; 50]%N; pos := 2 |}.
Definition ex_b : backend := BRev (BCursor BufMutSlice ex_c).

Example ex_wf : bk_wf ex_b /\ bk_space_left ex_b = Some (QVal 2) /\ bk_pos ex_b = Some 2 /\
  bk_stack ex_b = Some [30; 40; 50]%N /\ bk_queue ex_b = Some [20; 10]%N /\ bk_len ex_b = Some 5 /\
  bk_remaining Stack ex_b = Some (QVal 3) /\ bk_remaining Queue ex_b = Some (QVal 2).
Proof. vm_compute. repeat split. lia. Qed.

(* LIFO through the Reverse<Cursor> write path (the unchecked get_unchecked_mut site) *)
Example ex_lifo :
  omap fst (bk_writes [7; 8]%N ex_b) = Some [WOk; WOk] /\
  match bk_writes [7; 8]%N ex_b with
  | Some (_, b1) => omap fst (bk_reads Stack 3 b1) = Some [RSome 8; RSome 7; RSome 30]%N
  | None => False
  end /\
  omap fst (bk_writes [7; 8; 9]%N ex_b) = Some [WOk; WOk; WOutOfSpace].
Proof. vm_compute. repeat split. Qed.

(* in-place reversal: same observations, mirrored position and data *)
Example ex_reverse :
  let ops := [ORead Stack; OWrite 7%N; ORead Queue; ORead Queue; ORead Queue; ORemaining Stack; OSpaceLeft;
              OIntoReversed; OWrite 9%N; ORead Stack; ORead Stack] in
  match bk_into_reversed ex_b with
  | Some (_, b') => snd (bk_run b' ops) = snd (bk_run ex_b ops) /\
                    b' = BCursor BufMutSlice {| buf := [50; 40; 30; 20; 10]%N; pos := 3 |} /\
                    ~ In ONa (snd (bk_run ex_b ops))
  | None => False
  end.
Proof. vm_compute. repeat split. intuition discriminate. Qed.

(* the iterator adapter fuses: the wrapped iterator yields 5, None, 7 -- the 7 is never delivered *)
Example ex_fuse :
  omap fst (bk_reads Queue 4 (BFallIter (fuse_new [Some (IOk 5%N); None; Some (IOk 7%N)]))) =
    Some [RSome 5%N; RNone; RNone; RNone] /\
  bk_remaining Queue (BFallIter (fuse_new [Some (IOk 5%N); Some (IErr 3%Z); None; Some (IOk 7%N)])) = Some (QVal 2).
Proof. vm_compute. split; reflexivity. Qed.

(* seeks at the boundary: len is accepted, len + 1 is refused, a Vec is truncated *)
Example ex_seek :
  omap fst (bk_seek 5 ex_b) = Some SOk /\ omap fst (bk_seek 6 ex_b) = Some SErr /\
  bk_seek 1 (BVec [1; 2; 3]%N) = Some (SOk, BVec [1%N]) /\ bk_seek 4 (BVec [1; 2; 3]%N) = Some (SErr, BVec [1; 2; 3]%N).
Proof. vm_compute. repeat split. Qed.

Print Assumptions C17_vec_refines_stack.
Print Assumptions C17_cursor_refines_tape.
Print Assumptions C17_cursor_is_tape.
Print Assumptions C17_stack_reads_reverse_order.
Print Assumptions C17_queue_reads_in_order.
Print Assumptions C17_stack_reads_return_stack.
Print Assumptions C17_queue_reads_return_queue.
Print Assumptions C17_eod_sticky.
Print Assumptions C17_remaining_exact.
Print Assumptions C17_space_left_exact.
Print Assumptions C17_seek_pos.
Print Assumptions C17_seek_range.
Print Assumptions C17_vec_seek_truncates.
Print Assumptions C17_into_reversed_mirrors.
Print Assumptions C17_into_reversed_noop.
Print Assumptions C17_into_reversed_twice.
Print Assumptions C17_into_reversed_seek.
Print Assumptions C17_fallible_iter_reads.
Print Assumptions C17_infallible_iter_reads.
Print Assumptions C17_fallible_callback_writes.
Print Assumptions C17_infallible_callback_writes.
Print Assumptions C17_into_read_words.
Print Assumptions C17_contracts_all_histories.
