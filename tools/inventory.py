#!/usr/bin/env python3
"""Prints a markdown inventory: per property the Coq modules, theorem names and axioms (from the
evidence files of the last runs) and the correspondence families."""
import json, os, sys
sys.path.insert(0, "/verif/lib")
import props
for pid in sorted(props.PROPS):
    p = props.PROPS[pid]
    evp = "/verif/evidence/%s.json" % pid
    ths, axioms = [], {}
    if os.path.exists(evp):
        ev = json.load(open(evp))
        ths = ev["coverage"].get("theorems", [])
        for tb in ev["coverage"].get("trusted_base", []):
            if tb.startswith("axioms per theorem: "):
                axioms = json.loads(tb[len("axioms per theorem: "):])
    print("### %s" % pid)
    print()
    print("* families: " + ", ".join("`%s.%s` (%d / %d)" % f for f in p["fams"]))
    bymod = {}
    for t in ths:
        m, n = t.rsplit(".", 1)
        bymod.setdefault(m, []).append(n)
    for m in bymod:
        names = []
        for n in bymod[m]:
            ax = axioms.get(m + "." + n, [])
            std = [a for a in ax if not a.startswith(("Uint63", "PrimInt63", "PrimFloat", "FloatAxioms", "FloatClass"))]
            prim = len(ax) - len(std)
            tag = "" if not ax else " [" + ", ".join(a.split(".")[-1] for a in std) + (" + %d primitive int/float" % prim if prim else "") + "]"
            names.append("`%s`%s" % (n, tag))
        print("* `%s`: %s" % (m, ", ".join(names)))
    print()
