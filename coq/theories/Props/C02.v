(* Props/C02.v -- Range coder round trip: a sealed stream decodes to exactly the encoded
   symbols.  This file contains ONLY statements; all proofs live in Proofs/Range_*.v.

   Vocabulary (Model/Range.v, Model/RangeSpec.v, Proofs/Range_spec.v):
     rcfg / wf_rcfg       Word, State, Probability widths under the crate's static assertions
     msg_ok c msg         every (model, symbol) pair: the model is exactly invertible (wf_model),
                          PRECISION <= Probability bits, the symbol is in the model's support
     range_compress       RangeEncoder::new, encode_symbol for every pair, into_compressed
     rdec_from_compressed RangeDecoder::from_compressed,  rdec_decode_all = decode_symbol in a row
     USZ = 64             usize width: only the length bound below depends on it (the counter of
                          held-back words is a usize that the code increments with an `expect`) *)
From CV Require Import Base.Bits Model.EModel Model.Range Model.RangeSpec.
From CV Require Import Proofs.Table_lemmas Proofs.Range_base Proofs.Range_spec Proofs.Range_enc
                       Proofs.Range_dec Proofs.Range_roundtrip.
Open Scope N_scope.

(* headline: for every configuration, every message (any length below 2^64), every sequence of
   exactly invertible models with per-symbol precision: encoding never fails or panics, and the
   decoder fed with the sealed words returns exactly the symbols, in order, and then reports
   that it may be exhausted *)
Theorem C02_roundtrip : forall c msg,
  wf_rcfg c -> msg_ok c msg -> N.of_nat (length msg) < 2 ^ USZ ->
  exists ws d',
    range_compress c msg = ROk ws /\
    rdec_decode_all c (msg_models msg) (rdec_from_compressed c ws) = ROk (msg_symbols msg, d') /\
    rdec_maybe_exhausted c d' = true.
Proof. exact range_roundtrip. Qed.

(* an empty message produces no words (for every configuration, well formed or not) *)
Theorem C02_empty : forall c, range_compress c [] = ROk [].
Proof. exact compress_empty. Qed.

(* ... and a decoder over no words that has decoded nothing may be exhausted *)
Theorem C02_exhausted_empty : forall c, wf_rcfg c ->
  rdec_maybe_exhausted c (rdec_from_compressed c []) = true.
Proof. exact exhausted_empty. Qed.

(* the three relations the proof carries, one theorem each (Appendix A of DESIGN.md) *)

(* (a) spec level: the exact-arithmetic decoder inverts the exact-arithmetic encoder on every text
   whose window lies in the final interval *)
Theorem C02_spec_roundtrip : forall c l tr s t,
  wf_rcfg c -> msg_ok c l -> msg_triples l = Some tr -> SInv c s -> text_ok (rWB c) t ->
  sL (spec_run c tr s) <= spec_window c t (spec_run c tr s) ->
  spec_window c t (spec_run c tr s) < sL (spec_run c tr s) + sR (spec_run c tr s) ->
  spec_decode_all c (msg_models l) t s = Some (msg_symbols l, spec_run c tr s).
Proof. intros c l tr s t Hc. exact (spec_roundtrip c Hc l tr s t). Qed.

Theorem C02_spec_invariant : forall c s P cum p,
  wf_rcfg c -> SInv c s -> step_ok c (P, cum, p) -> SInv c (spec_step c P cum p s).
Proof. intros c s P cum p Hc. exact (spec_step_inv c Hc s P cum p). Qed.

Theorem C02_spec_nested : forall c l s,
  wf_rcfg c -> SInv c s -> Forall (step_ok c) l ->
  exists d : nat,
    sk (spec_run c l s) = (sk s + d)%nat /\ (d <= length l)%nat /\
    sL s * Bp (rWB c) d <= sL (spec_run c l s) /\
    sL (spec_run c l s) + sR (spec_run c l s) <= (sL s + sR s) * Bp (rWB c) d.
Proof. intros c l s Hc. exact (spec_run_nest c Hc l s). Qed.

(* (b) encoder refinement: one encode_symbol of the concrete coder (wrapping arithmetic, held-back
   words, all transitions of notes/range-coding.md) is one step of the specification; no panic
   site is reachable, in particular `first_inverted_lower_word + 1` never overflows *)
Theorem C02_encoder_refines : forall c e s P cum p,
  wf_rcfg c -> Renc c e s -> SInv c s -> step_ok c (P, cum, p) -> N.of_nat (sk s) + 1 < 2 ^ USZ ->
  exists e', renc_encode c P cum p e = ROk e' /\ Renc c e' (spec_step c P cum p s).
Proof. intros c e s P cum p Hc. exact (renc_step c Hc e s P cum p). Qed.

Theorem C02_seal_refines : forall c e s,
  wf_rcfg c -> Renc c e s -> SInv c s -> sR s <> Mw c - 1 ->
  exists b, renc_seal c e = ROk b /\ rev b = spec_seal_digits c s /\
            (length b = S (sk s) \/ length b = S (S (sk s))).
Proof. intros c e s Hc. exact (seal_refines c Hc e s). Qed.

(* (c) decoder refinement: on EVERY text the concrete decoder does what the exact-arithmetic
   decoder does (same symbol, or InvalidData exactly when the spec decoder rejects); the
   `expect("TODO")` and the division are never reached with a zero *)
Theorem C02_decoder_refines : forall c t d s m,
  wf_rcfg c -> Rdec c t d s -> SInv c s -> model_ok c m -> text_ok (rWB c) t ->
  match spec_decode c m t s with
  | Some (x, s') => exists d', rdec_decode c m d = ROk (x, d') /\ Rdec c t d' s'
  | None => rdec_decode c m d = RErrInvalidData
  end.
Proof. intros c t d s m Hc. exact (rdec_step c Hc t d s m). Qed.

Theorem C02_decoder_start : forall c t,
  wf_rcfg c -> text_ok (rWB c) t -> Rdec c t (rdec_from_compressed c t) (spec_init c).
Proof. intros c t Hc. exact (rdec_from_compressed_refines c Hc t). Qed.

Theorem C02_tables_are_models : forall P t, wf_table P t -> wf_model (table_model P t).
Proof. exact table_model_wf. Qed.

Check C02_roundtrip : forall c msg,
  wf_rcfg c -> msg_ok c msg -> N.of_nat (length msg) < 2 ^ USZ ->
  exists ws d',
    range_compress c msg = ROk ws /\
    rdec_decode_all c (msg_models msg) (rdec_from_compressed c ws) = ROk (msg_symbols msg, d') /\
    rdec_maybe_exhausted c d' = true.
Check C02_empty : forall c, range_compress c [] = ROk [].
Check C02_encoder_refines : forall c e s P cum p,
  wf_rcfg c -> Renc c e s -> SInv c s -> step_ok c (P, cum, p) -> N.of_nat (sk s) + 1 < 2 ^ USZ ->
  exists e', renc_encode c P cum p e = ROk e' /\ Renc c e' (spec_step c P cum p s).

(* ---- non-vacuity: a concrete instance meeting every hypothesis, with a carry ---- *)
Definition ex_cfg : rcfg := {| rWB := 8; rSB := 16; rPB := 8 |}.
Definition ex_tbl : table := [(0%Z, 0, 1); (1%Z, 1, 254); (2%Z, 255, 1)].
Definition ex_m : emodel := table_model 8 ex_tbl.
Definition ex_msg : list (emodel * Z) := [(ex_m, 1%Z); (ex_m, 0%Z); (ex_m, 1%Z); (ex_m, 1%Z); (ex_m, 2%Z); (ex_m, 1%Z)].

Example ex_cfg_wf : wf_rcfg ex_cfg.
Proof. unfold wf_rcfg, ex_cfg; cbn. repeat split; lia. Qed.
Example ex_m_ok : model_ok ex_cfg ex_m.
Proof. split; [apply table_model_wf, wf_tableb_spec; vm_compute; reflexivity|cbn; lia]. Qed.
Example ex_msg_ok : msg_ok ex_cfg ex_msg.
Proof.
  unfold msg_ok, ex_msg.
  repeat (apply Forall_cons; [split; [apply ex_m_ok|cbn; discriminate]|]). apply Forall_nil.
Qed.
(* the instance holds a word back (Inverted 1 0), resolves it WITH a carry (the word 0 is
   written as 1), is sealed while inverted again, and decodes *)
Example ex_msg_inverted :
  exists e, renc_encode_all ex_cfg (firstn 3 ex_msg) (renc_new ex_cfg) = ROk e /\
            e_sit e = Inverted 1 0 /\ e_bulk e = [].
Proof. eexists. split; [vm_compute; reflexivity|]. split; reflexivity. Qed.
Example ex_msg_carry :
  exists e, renc_encode_all ex_cfg (firstn 4 ex_msg) (renc_new ex_cfg) = ROk e /\
            e_sit e = Normal /\ e_bulk e = [1].
Proof. eexists. split; [vm_compute; reflexivity|]. split; reflexivity. Qed.
Example ex_msg_sealed_inverted :
  exists e, renc_encode_all ex_cfg ex_msg (renc_new ex_cfg) = ROk e /\ e_sit e = Inverted 1 248 /\
            range_compress ex_cfg ex_msg = ROk [1; 249; 0].
Proof. eexists. split; [vm_compute; reflexivity|]. split; [reflexivity|vm_compute; reflexivity]. Qed.
Example ex_msg_roundtrip :
  exists ws d, range_compress ex_cfg ex_msg = ROk ws /\ ws <> [] /\
    rdec_decode_all ex_cfg (msg_models ex_msg) (rdec_from_compressed ex_cfg ws) = ROk (msg_symbols ex_msg, d).
Proof. eexists _, _. split; [vm_compute; reflexivity|]. split; [discriminate|vm_compute; reflexivity]. Qed.
Example ex_renc_inhabited : Renc ex_cfg (renc_new ex_cfg) (spec_init ex_cfg) /\ SInv ex_cfg (spec_init ex_cfg).
Proof. split; [apply renc_new_refines|apply spec_init_inv, ex_cfg_wf]. Qed.

Print Assumptions C02_roundtrip.
Print Assumptions C02_empty.
Print Assumptions C02_exhausted_empty.
Print Assumptions C02_spec_roundtrip.
Print Assumptions C02_spec_invariant.
Print Assumptions C02_spec_nested.
Print Assumptions C02_encoder_refines.
Print Assumptions C02_seal_refines.
Print Assumptions C02_decoder_refines.
Print Assumptions C02_decoder_start.
Print Assumptions C02_tables_are_models.
