//! Correspondence harness: runs integer-list encoded cases against the real crate.
//!
//! usage: cvharness <infile>          (one case per line: `<family> <id> <int> <int> ...`)
//! output: one line per case on stdout: `<id> <int> ...`  or  `<id> PANIC`
//! A case that aborts the process (non-unwinding panic) or hangs is detected by the caller
//! from the missing output line.
mod common;
mod fam_ans;
mod fam_range;
mod fam_models;
mod fam_chain;
mod fam_bits;
mod fam_leaky;
mod fam_diag;
mod fam_floatq;
mod fam_huff;
mod fam_backend;
mod fam_ansb;
mod fam_ansseek;
mod fam_docvec;

use common::*;
use std::io::{BufRead, Write};

fn run_case(family: &str, input: &[Int]) -> Vec<Int> {
    let mut r = Reader::new(input);
    let mut out = Vec::new();
    match family {
        "ans" => fam_ans::run(&mut r, &mut out),
        "range" => fam_range::run(&mut r, &mut out),
        "models" => fam_models::run(&mut r, &mut out),
        "chain" => fam_chain::run(&mut r, &mut out),
        "bits" => fam_bits::run(&mut r, &mut out),
        "leaky" => fam_leaky::run(&mut r, &mut out),
        "diag" => fam_diag::run(&mut r, &mut out),
        "floatq" => fam_floatq::run(&mut r, &mut out),
        "huff" => fam_huff::run(&mut r, &mut out),
        "backend" => fam_backend::run(&mut r, &mut out),
        "ansb" => fam_ansb::run(&mut r, &mut out),
        "ansseek" => fam_ansseek::run(&mut r, &mut out),
        "docvec" => fam_docvec::run(&mut r, &mut out),
        other => panic!("harness: unknown family {}", other),
    }
    out
}

fn main() {
    let path = std::env::args().nth(1).expect("usage: cvharness <infile>");
    let skip: usize = std::env::args().nth(2).map(|s| s.parse().unwrap()).unwrap_or(0);
    if std::env::var_os("CVHARNESS_SHOW_PANICS").is_none() {
        std::panic::set_hook(Box::new(|_| {})); // silence panic messages; they are reported as PANIC
    }
    let f = std::io::BufReader::new(std::fs::File::open(path).unwrap());
    let stdout = std::io::stdout();
    for (lineno, line) in f.lines().enumerate() {
        if lineno < skip {
            continue;
        }
        let line = line.unwrap();
        let mut it = line.split_whitespace();
        let family = match it.next() {
            Some(f) => f.to_string(),
            None => continue,
        };
        let id = it.next().unwrap().to_string();
        let input: Vec<Int> = it.map(|t| t.parse::<Int>().unwrap()).collect();
        {
            // announce the case first so that an abort/hang can be attributed
            let mut o = stdout.lock();
            writeln!(o, "# {}", id).unwrap();
            o.flush().unwrap();
        }
        let res = std::panic::catch_unwind(|| run_case(&family, &input));
        let mut o = stdout.lock();
        match res {
            Ok(v) => {
                let s: Vec<String> = v.iter().map(|x| x.to_string()).collect();
                writeln!(o, "{} {}", id, s.join(" ")).unwrap();
            }
            Err(payload) => {
                // arithmetic panics of debug builds (overflow, shift, division by zero) are
                // reported separately: C20 forbids arithmetic that is only correct when it wraps
                let msg = if let Some(s) = payload.downcast_ref::<&str>() {
                    s.to_string()
                } else if let Some(s) = payload.downcast_ref::<String>() {
                    s.clone()
                } else {
                    String::new()
                };
                if msg.contains("attempt to") || msg.contains("overflow") {
                    writeln!(o, "{} PANIC_ARITH", id).unwrap()
                } else {
                    writeln!(o, "{} PANIC", id).unwrap()
                }
            }
        }
        o.flush().unwrap();
    }
}
