(* Props/C18_diag.v -- C18, last sentence: "The information-theoretic diagnostics of a model
   (entropy, cross entropy and Kullback-Leibler divergence in both directions, floating-point
   views of its probabilities) equal their textbook definitions evaluated on the model's exact
   fixed-point probabilities up to floating-point rounding."

   Statements only.  [*_code] = the expression written in src/stream/model.rs evaluated over the
   real numbers, [*_def] = the textbook definition on the exact probabilities q_i / 2^P
   (Model/Diag.v).  "Up to floating-point rounding" is not a Coq theorem: it is judged per
   instance by the oracle of lib/fam_diag.py (derived error bound) and by generated `interval`
   certificates.  Only two facts about the table are used: every q_i > 0 and sum q_i = 2^P
   (both follow from [wf_table]). *)
From Coq Require Import Reals Lra.
From Flocq Require Import Core Binary Bits.
From CV Require Import Model.EModel Model.Diag Proofs.Table_lemmas Proofs.Diag_lemmas.
Local Open Scope R_scope.

(* H(self):  P - (sum q log2 q) / whole  =  - sum (q/2^P) log2 (q/2^P) *)
Theorem C18_entropy_eq : forall P t, wf_table P t -> entropy_code P t = entropy_def P t.
Proof. exact entropy_eq. Qed.

(* H(p, self) for EVERY real vector p (no normalisation, any signs): the per-item shift *)
Theorem C18_cross_entropy_eq : forall P t (p : list R),
  wf_table P t -> length p = length t ->
  cross_entropy_code P t p = cross_entropy_def P t p.
Proof. exact cross_entropy_eq. Qed.

(* H(self, p), p_i > 0 (for p_i = 0 the float code yields +infinity, outside the real model) *)
Theorem C18_reverse_cross_entropy_eq : forall P t (p : list R),
  wf_table P t -> length p = length t -> Forall (fun x => 0 < x) p ->
  reverse_cross_entropy_code P t p = reverse_cross_entropy_def P t p.
Proof. exact reverse_cross_entropy_eq. Qed.

(* D_KL(p || self): p_i >= 0 and sum p_i = 1 ("assumes that p is normalized"); terms with
   p_i = 0 contribute nothing in the code and in the definition *)
Theorem C18_kl_eq : forall P t (p : list R),
  wf_table P t -> length p = length t -> Forall (fun x => 0 <= x) p -> rsum p = 1 ->
  kl_code P t p = kl_def P t p.
Proof. intros P t p H Hl Hp Hs. apply kl_eq; try assumption. rewrite <- rsum_sumf_id. exact Hs. Qed.

(* D_KL(self || p), p_i > 0; p need not be normalised *)
Theorem C18_reverse_kl_eq : forall P t (p : list R),
  wf_table P t -> length p = length t -> Forall (fun x => 0 < x) p ->
  reverse_kl_code P t p = reverse_kl_def P t p.
Proof. exact reverse_kl_eq. Qed.

(* the normalisation hypothesis of C18_kl_eq cannot be dropped: the code adds P once, so for an
   unnormalised p it is off by P * (1 - sum p)  (here p = 0: code = P, definition = 0) *)
Theorem C18_kl_unnormalised_differs : exists P t (p : list R),
  wf_table P t /\ length p = length t /\ Forall (fun x => 0 <= x) p /\ kl_code P t p <> kl_def P t p.
Proof.
  exists 3%N, [(0%Z, 0%N, 3%N); (5%Z, 3%N, 5%N)], [0; 0].
  split; [apply wf_tableb_spec; vm_compute; reflexivity|]. split; [reflexivity|].
  split; [repeat constructor; lra|].
  unfold kl_code, kl_def, kl_term_code, rsum, shiftR, qR. cbn [probs map combine fold_left snd Z.of_N].
  destruct (Req_EM_T 0 0) as [_|NE]; [lra | exfalso; apply NE; reflexivity].
Qed.

(* floating_point_symbol_table: every entry is (symbol, cum / 2^P, q / 2^P) exactly ... *)
Theorem C18_float_table : forall P t, (0 < P)%N ->
  fp_table P t = map (fun e : Z * N * N => let '(s, c, q) := e in (s, prob P c, prob P q)) t.
Proof. exact fp_table_eq. Qed.

(* EncoderModel::floating_point_probability: the same view of one symbol; 0 outside the support *)
Theorem C18_float_probability : forall P t s, (0 < P)%N ->
  fp_prob P t s = match tbl_enc t s with Some (_, p) => prob P p | None => 0 end.
Proof.
  intros P t s HP. unfold fp_prob. rewrite (fp_view_prob P _ HP).
  destruct (tbl_enc t s) as [[c p]|]; [reflexivity|]. unfold prob, qR. cbn [Z.of_N]. lra.
Qed.

(* ... and that value needs no rounding: it lies in the binary64 format when q < 2^53 and in the
   binary32 format when q < 2^24 (formats with gradual underflow; P far beyond any Probability
   type) *)
Theorem C18_float_view_exact : forall P q, (0 < P)%N ->
  fp_view P q = qR q / two_pow P
  /\ ((q < 2 ^ 53)%N -> (P <= 1074)%N -> generic_format radix2 (FLT_exp (-1074) 53) (fp_view P q))
  /\ ((q < 2 ^ 24)%N -> (P <= 149)%N -> generic_format radix2 (FLT_exp (-149) 24) (fp_view P q)).
Proof. exact float_view_exact. Qed.

(* the bit patterns computed by the executable model (Corr/Diag_run.v, compared exactly with
   the crate's output) denote exactly these numbers: there is a finite IEEE double / single
   whose real value is the view and whose interchange encoding (Flocq) is [b64_bits] / [b32_bits] *)
Theorem C18_float_view_b64 : forall P q, (0 < P <= 1022)%N -> (q < 2 ^ 53)%N ->
  exists x : binary64, is_finite 53 1024 x = true /\ B2R 53 1024 x = fp_view P q
                       /\ bits_of_b64 x = Z.of_N (b64_bits P q).
Proof. exact float_view_b64. Qed.

Theorem C18_float_view_b32 : forall P q, (0 < P <= 126)%N -> (q < 2 ^ 24)%N ->
  exists x : binary32, is_finite 24 128 x = true /\ B2R 24 128 x = fp_view P q
                       /\ bits_of_b32 x = Z.of_N (b32_bits P q).
Proof. exact float_view_b32. Qed.

(* ---- pinned statements *)
Check C18_entropy_eq : forall P t, wf_table P t -> entropy_code P t = entropy_def P t.
Check C18_cross_entropy_eq : forall P t (p : list R), wf_table P t -> length p = length t ->
  cross_entropy_code P t p = cross_entropy_def P t p.
Check C18_reverse_cross_entropy_eq : forall P t (p : list R), wf_table P t -> length p = length t ->
  Forall (fun x => 0 < x) p -> reverse_cross_entropy_code P t p = reverse_cross_entropy_def P t p.
Check C18_kl_eq : forall P t (p : list R), wf_table P t -> length p = length t ->
  Forall (fun x => 0 <= x) p -> rsum p = 1 -> kl_code P t p = kl_def P t p.
Check C18_reverse_kl_eq : forall P t (p : list R), wf_table P t -> length p = length t ->
  Forall (fun x => 0 < x) p -> reverse_kl_code P t p = reverse_kl_def P t p.
Check C18_float_view_exact : forall P q, (0 < P)%N ->
  fp_view P q = qR q / two_pow P
  /\ ((q < 2 ^ 53)%N -> (P <= 1074)%N -> generic_format radix2 (FLT_exp (-1074) 53) (fp_view P q))
  /\ ((q < 2 ^ 24)%N -> (P <= 149)%N -> generic_format radix2 (FLT_exp (-149) 24) (fp_view P q)).

(* the definitions the statements rest on, pinned as well (a silently changed definition would
   make the equalities say something else) *)
Check eq_refl : entropy_def = fun P t => - rsum (map (fun q => prob P q * log2R (prob P q)) (probs t)).
Check eq_refl : prob = fun P q => qR q / two_pow P.
Check eq_refl : log2R = fun x => ln x / ln 2.
Check eq_refl : two_pow = fun P => IZR (2 ^ Z.of_N P).
Check eq_refl : rsum = fun l => fold_left Rplus l 0.
Check eq_refl : kl_def = fun P t p => rsum (map (fun qp : N * R => let '(q, pi) := qp in
                   if Req_EM_T pi 0 then 0 else pi * log2R (pi / prob P q)) (combine (probs t) p)).

(* ---- non-vacuity: the hypotheses are satisfiable by a non-trivial instance *)
Example ex_wf : wf_table 3 [(0%Z, 0%N, 3%N); (5%Z, 3%N, 4%N); (7%Z, 7%N, 1%N)].
Proof. apply wf_tableb_spec. vm_compute. reflexivity. Qed.

Example ex_kl_hyps : let p := [/ 2; 0; / 2] in
  length p = 3%nat /\ Forall (fun x => 0 <= x) p /\ rsum p = 1.
Proof. cbv zeta. split; [reflexivity|]. split; [repeat constructor; lra|]. unfold rsum. cbn [fold_left]. lra. Qed.

Example ex_pos_hyps : Forall (fun x => 0 < x) [/ 4; / 4; / 2].
Proof. repeat constructor; lra. Qed.

(* a concrete value through the theorem: the uniform model on two symbols has one bit of entropy *)
Example ex_entropy_one_bit : entropy_def 3 [(0%Z, 0%N, 4%N); (1%Z, 4%N, 4%N)] = 1.
Proof.
  rewrite <- C18_entropy_eq by (apply wf_tableb_spec; vm_compute; reflexivity).
  unfold entropy_code, rsum, shiftR, whole, qR. cbn [probs map fold_left snd].
  change (Z.of_N (N.shiftl 1 (3 - 1))) with 4%Z. change (Z.of_N 4) with 4%Z. change (Z.of_N 3) with 3%Z.
  assert (H4 : log2R 4 = 2).
  { unfold log2R. replace 4 with (2 ^ 2) by lra. rewrite ln_pow by lra. cbn [INR]. field. pose proof ln2_pos. lra. }
  rewrite H4. lra.
Qed.

(* bit patterns: 3/8 = 0x3FD8000000000000, 1 quantum at P = 32, and binary32 3/8 = 0x3EC00000 *)
Example ex_bits : (b64_bits 3 3 = 0x3FD8000000000000 /\ b64_bits 32 1 = 0x3DF0000000000000
                   /\ b32_bits 3 3 = 0x3EC00000 /\ b64_bits 24 0 = 0)%N.
Proof. vm_compute. repeat split. Qed.

Example ex_bits_flocq : bits_of_b64 (b64_of_bits 0x3FD8000000000000) = Z.of_N (b64_bits 3 3)
                        /\ B2R 53 1024 (b64_of_bits 0x3FD8000000000000) = 3 / 8.
Proof. split; [vm_compute; reflexivity|]. unfold B2R, b64_of_bits, binary_float_of_bits. cbn. unfold F2R. cbn. lra. Qed.

Print Assumptions C18_entropy_eq.
Print Assumptions C18_cross_entropy_eq.
Print Assumptions C18_reverse_cross_entropy_eq.
Print Assumptions C18_kl_eq.
Print Assumptions C18_reverse_kl_eq.
Print Assumptions C18_kl_unnormalised_differs.
Print Assumptions C18_float_table.
Print Assumptions C18_float_probability.
Print Assumptions C18_float_view_exact.
Print Assumptions C18_float_view_b64.
Print Assumptions C18_float_view_b32.
