(* Model/Tables.v -- machine-level models of
     accumulate_nonzero_probabilities, iter_extended_cdf   (categorical.rs:187-257)
     ContiguousCategoricalEntropyModel                      (categorical/contiguous.rs)
     NonContiguousCategoricalDecoderModel / EncoderModel    (categorical/non_contiguous.rs)
   as they are after fix db641f3.  Definitions only.

   std callees are replaced by their specifications (MBase.v): binary_search_by by the
   partition point, HashMap by an association list with at most one entry per key. *)
From CV Require Export Model.MBase.
Open Scope N_scope.

(* ------------------------------------------------------------------ the validator *)
(* the [symbols] iterator: core::iter::repeat(()) or a finite iterator *)
Inductive symsrc := SInf | SList (l : list Z).
Definition src_next (s : symsrc) : option (Z * symsrc) :=
  match s with
  | SInf => Some (0%Z, SInf)
  | SList [] => None
  | SList (x :: r) => Some (x, SList r)
  end.

(* categorical.rs:230-237, the loop.  [laps] and [num] are usize counters that are
   bounded by the number of items (they cannot overflow): unbounded N here. *)
Fixpoint accum_loop {St : Type} (c : mcfg) (op : St -> Z -> N -> N -> res St)
    (probs : list N) (syms : symsrc) (laps num accum : N) (st : St)
    : res (symsrc * N * N * N * St) :=
  match probs with
  | [] => Ok (syms, laps, num, accum, st)
  | p :: r =>
      let old_accum := accum in
      let accum := wadd (PB c) accum p in
      let laps := laps + (if accum <=? old_accum then 1 else 0) in
      let num := num + 1 in
      match src_next syms with
      | None => Fail E_ERR                                       (* symbols.next().ok_or(())? *)
      | Some (s, syms') =>
          op st s old_accum p >>= fun st' => accum_loop c op r syms' laps num accum st'
      end
  end.

(* categorical.rs:211-257 *)
Definition accumulate {St : Type} (c : mcfg) (op : St -> Z -> N -> N -> res St)
    (probs : list N) (syms : symsrc) (infer : bool) (st : St) : res (symsrc * St) :=
  accum_loop c op probs syms 0 0 0 st >>= fun '(syms, laps, num, accum, st) =>
  let total := wpow2 (PB c) (PR c) in
  if infer then
    let exceeds_total := negb (PR c =? PB c) && (total <=? accum) in
    if exceeds_total || negb (laps =? 0) || (num =? 0) then Fail E_ERR else
    match src_next syms with
    | None => Fail E_ERR
    | Some (s, syms') =>
        let probability := wsub (PB c) total accum in
        op st s accum probability >>= fun st' => Ok (syms', st')
    end
  else if negb (accum =? total) || negb (laps =? (if PR c =? PB c then 1 else 0)) || (num <? 2)
  then Fail E_ERR
  else Ok (syms, st).

(* categorical.rs:187-207 iter_extended_cdf over (cumulative, symbol) pairs *)
Fixpoint iter_ext_from (c : mcfg) (lft : N) (sym : Z) (cdf : list (N * Z)) : res table :=
  match cdf with
  | [] => Ok []
  | (rgt, next_sym) :: r =>
      match into_nonzero (wsub (PB c) rgt lft) with
      | None => Fail E_PANIC                                    (* expect("quantization is leaky") *)
      | Some p => iter_ext_from c rgt next_sym r >>= fun t => Ok ((sym, lft, p) :: t)
      end
  end.

Definition iter_extended_cdf (c : mcfg) (cdf : list (N * Z)) : res table :=
  match cdf with
  | [] => Fail E_PANIC                                          (* expect("cdf is not empty") *)
  | (lft, sym) :: r => iter_ext_from c lft sym r
  end.

(* cdf.iter().enumerate().map(|(symbol, &cumulative)| (cumulative, symbol)) *)
Definition enumerate_cdf (cdf : list N) : list (N * Z) :=
  combine cdf (map Z.of_nat (seq 0 (length cdf))).

(* ------------------------------------------------------------------ contiguous *)
(* the model IS its cdf vector (as_view / clone are the identity) *)
Definition contig := list N.

(* contiguous.rs:474-500 from_nonzero_fixed_point_probabilities *)
Definition contig_from_probs (c : mcfg) (probs : list N) (infer : bool) : res contig :=
  accumulate c (fun cdf _ cum _ => Ok (cdf ++ [cum])) probs SInf infer [] >>= fun '(_, cdf) =>
  Ok (cdf ++ [wpow2 (PB c) (PR c)]).

(* contiguous.rs:502-515 from_fixed_point_cdf *)
Definition contig_from_cdf (c : mcfg) (cdf : list N) : contig := cdf ++ [wpow2 (PB c) (PR c)].

(* contiguous.rs:530 support_size: cdf.len() - 1 on usize *)
Definition contig_support_size (m : contig) : res N := csub (lenN m) 1.

(* contiguous.rs:676-702 left_cumulative_and_probability(index: usize) *)
Definition contig_lcp (c : mcfg) (m : contig) (index : N) : res (option (N * N)) :=
  contig_support_size m >>= fun n =>
  if n <=? index then Ok None else
  get_unchecked UB_contig_lcp_index m index >>= fun lft =>
  get_unchecked UB_contig_lcp_index m (index + 1) >>= fun rgt =>
  nonzero_unchecked UB_contig_lcp_prob (wsub (PB c) rgt lft) >>= fun p =>
  Ok (Some (lft, p)).

Definition cmp_le_quantile (quantile x : N) : ordering :=
  if x <=? quantile then Less else Greater.

(* contiguous.rs:631-667 quantile_function *)
Definition contig_quant (c : mcfg) (m : contig) (quantile : N) : res (N * N * N) :=
  (* cdf.get_unchecked(..cdf.len() - 1) *)
  (match m with [] => Fail UB_contig_quant_slice | _ => Ok (removelast m) end) >>= fun mono =>
  match binary_search_by (cmp_le_quantile quantile) mono with
  | inl _ => Fail UB_contig_quant_unreachable
  | inr next_symbol =>
      csub (N.of_nat next_symbol) 1 >>= fun symbol =>
      get_unchecked UB_contig_quant_index m (N.of_nat next_symbol) >>= fun rgt =>
      get_unchecked UB_contig_quant_index m symbol >>= fun lft =>
      nonzero_unchecked UB_contig_quant_prob (wsub (PB c) rgt lft) >>= fun p =>
      Ok (symbol, lft, p)
  end.

(* contiguous.rs:605-621 symbol_table *)
Definition contig_table (c : mcfg) (m : contig) : res table :=
  iter_extended_cdf c (enumerate_cdf m).

Definition contig_emodel (c : mcfg) (m : contig) : emodel :=
  {| em_prec := PR c;
     em_enc := fun s => if sym_ok (UB c) SyUsize s
                        then enc_of_res (contig_lcp c m (Z.to_N s)) else None;
     em_dec := fun q => dec_of_res (contig_quant c m q >>= fun '(s, cu, p) => Ok (Z.of_N s, cu, p)) |}.

(* ------------------------------------------------------------------ non-contiguous decoder *)
Definition ncdec := list (N * Z).          (* Vec<(Probability, Symbol)> *)

Definition ncdec_close (c : mcfg) (cdf : list (N * Z)) : res ncdec :=
  match last_opt cdf with
  | None => Fail E_PANIC                                        (* expect("... is not empty") *)
  | Some (_, s) => Ok (cdf ++ [(wpow2 (PB c) (PR c), s)])
  end.

(* non_contiguous.rs:358-389 from_symbols_and_nonzero_fixed_point_probabilities *)
Definition ncdec_from_probs (c : mcfg) (syms : list Z) (probs : list N) (infer : bool) : res ncdec :=
  accumulate c (fun cdf s cum _ => Ok (cdf ++ [(cum, s)])) probs (SList syms) infer []
  >>= fun '(rest, cdf) =>
  ncdec_close c cdf >>= fun cdf =>
  match src_next rest with
  | Some _ => Fail E_ERR
  | None => Ok cdf
  end.

(* non_contiguous.rs:405-424 from_iterable_entropy_model, given the source's symbol_table *)
Definition ncdec_from_table (c : mcfg) (t : table) : res ncdec :=
  ncdec_close c (map (fun '(s, cum, _) => (cum, s)) t).

Definition ncdec_support_size (m : ncdec) : res N := csub (lenN m) 1.

Definition cmp_le_quantile_pair (quantile : N) (x : N * Z) : ordering :=
  if fst x <=? quantile then Less else Greater.

(* non_contiguous.rs:619-657 quantile_function *)
Definition ncdec_quant (c : mcfg) (m : ncdec) (quantile : N) : res (Z * N * N) :=
  (match m with [] => Fail UB_ncdec_quant_slice | _ => Ok (removelast m) end) >>= fun mono =>
  match binary_search_by (cmp_le_quantile_pair quantile) mono with
  | inl _ => Fail UB_ncdec_quant_unreachable
  | inr next_index =>
      get_unchecked UB_ncdec_quant_index m (N.of_nat next_index) >>= fun rgt =>
      csub (N.of_nat next_index) 1 >>= fun prev =>
      get_unchecked UB_ncdec_quant_index m prev >>= fun '(lft, symbol) =>
      nonzero_unchecked UB_ncdec_quant_prob (wsub (PB c) (fst rgt) lft) >>= fun p =>
      Ok (symbol, lft, p)
  end.

(* non_contiguous.rs:522-532 symbol_table *)
Definition ncdec_table (c : mcfg) (m : ncdec) : res table := iter_extended_cdf c m.

(* ------------------------------------------------------------------ non-contiguous encoder *)
(* HashMap<Symbol, (Probability, NonZero)> as a finite map: association list with at most
   one entry per key; iteration order is never observed *)
Definition ncenc := list (Z * (N * N)).

Fixpoint map_get (m : ncenc) (k : Z) : option (N * N) :=
  match m with
  | [] => None
  | (k', v) :: r => if Z.eqb k k' then Some v else map_get r k
  end.

(* HashMap::insert: replaces the value of an existing key *)
Fixpoint map_insert (m : ncenc) (k : Z) (v : N * N) : ncenc :=
  match m with
  | [] => [(k, v)]
  | (k', v') :: r => if Z.eqb k k' then (k, v) :: r else (k', v') :: map_insert r k v
  end.

(* the closure of non_contiguous.rs:957-965: entry(symbol) Occupied => Err, zero => Err *)
Definition ncenc_op (m : ncenc) (s : Z) (cum p : N) : res ncenc :=
  match map_get m s with
  | Some _ => Fail E_ERR
  | None => match into_nonzero p with
            | None => Fail E_ERR
            | Some p => Ok (map_insert m s (cum, p))
            end
  end.

(* non_contiguous.rs:942-974 *)
Definition ncenc_from_probs (c : mcfg) (syms : list Z) (probs : list N) (infer : bool) : res ncenc :=
  accumulate c ncenc_op probs (SList syms) infer [] >>= fun '(rest, m) =>
  match src_next rest with
  | Some _ => Fail E_ERR
  | None => Ok m
  end.

(* non_contiguous.rs:1027-1038 from_iterable_entropy_model: collect::<HashMap> *)
Definition ncenc_from_table (t : table) : ncenc :=
  fold_left (fun m '(s, cum, p) => map_insert m s (cum, p)) t [].

Definition ncenc_support_size (m : ncenc) : N := lenN m.

(* non_contiguous.rs:1104-1110 *)
Definition ncenc_lcp (m : ncenc) (s : Z) : option (N * N) := map_get m s.

(* Encoder-only and decoder-only halves as one coder-facing model *)
Definition ncdec_dec (c : mcfg) (m : ncdec) (q : N) : Z * N * N := dec_of_res (ncdec_quant c m q).

Definition nc_emodel (c : mcfg) (e : ncenc) (d : ncdec) : emodel :=
  {| em_prec := PR c; em_enc := ncenc_lcp e; em_dec := ncdec_dec c d |}.
